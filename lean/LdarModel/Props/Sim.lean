import LdarModel.Model.Sim
import LdarModel.Lemmas.World
import LdarModel.Lemmas.Cost
import LdarModel.Props.C01
import LdarModel.Props.C02
import LdarModel.Props.C03
import LdarModel.Props.C04
import LdarModel.Props.C05
import LdarModel.Props.C08
import LdarModel.Props.C10
import LdarModel.Props.C11
/-
Composition theorems about the integrated simulation model (`Model/Sim.lean`): what the wiring
between the component models guarantees, for all worlds, programs, inputs and horizons.  The component
theorems are re-used, not re-proved.

  (a) `sim_tag_chain`         every tag request reaching an emission was issued by a component-level method
                              on a survey of its site completed that day with measured rate > 0 at its component
      `sim_repair_chain`      C04's whole chain: repaired by company c ⇒ such a survey by method c on a day T, first
                              tag, end date T + max 1 (repair delay + reporting delay)          [C04_repair_needs_tag_E]
  (b) `sim_row_world`         emissions part of every row = `World.row` of the per-emission runs   (WF scenario)
      `sim_ledger`, `sim_reconstruct`                                                         [C11 ledger, reconstruct_row]
  (c) `sim_lifecycle`         state of every emission = `Emission.runE` on the generated events  (WF scenario)
      `sim_mitigation`, `sim_never_worse`   C02 / C03 against the *simulated* program without methods
  (d) `sim_cost_identity`     C10's row identity; `sim_method_cost`, `sim_per_site_once` (per method);
      `sim_cost_program`      the cost block is `Cost.programDay`; `sim_repairs_once`          [C10 program_repairs_once]
  (e) `sim_zero_coverage`     all spatial rolls 0 ⇒ emission states, records, emission columns and repair costs of
                              the program without methods                                  [C05_zero_coverage_is_quiet]
  (f) `sim_issued_in_months`  requests are issued only in deployment years and months
      `sim_weather`, `sim_day_budget`   C08 at every method's crew day; one crew record per planned request
      `sim_reqs_ok`, `sim_crews_within_workday`   the schedule → crews → schedule loop keeps every planned request
                              admissible (`Crew.ReqOk`), so no crew ever exceeds work day / daylight — unconditionally
      `sim_sched_runDays`     every routine / screening schedule is a `Sched.runDays` state (C06 / C07 apply)
  `Sim : Sim_statement`       (a)–(f) together; `lifecycle_all_worlds_counterexample`,
                              `row_world_all_worlds_counterexample`: (b), (c) need sorted pending lists
  `WF w` = `wfWorld w = true`: pending lists sorted by start date (C16 `generate_sorted`) and numbered in
  infrastructure order; the driver evaluates it on every scenario of a real run.
  `lookupD_tabulate`, `runAcc_eq`: the two devices of the executable (state tables, one-pass run) are identities.
-/
namespace LdarModel.Sim
open LdarModel

/-! ### housekeeping: the table wrapper is the identity, the one-pass run is `simRun` -/

theorem lookupD_tabulate {α} (keys : List Nat) (f : Nat → α) : lookupD (tabulate keys f) f = f := by
  funext i
  induction keys with
  | nil => rfl
  | cons k ks ih =>
    simp only [tabulate, List.map_cons, lookupD]
    by_cases h : k = i
    · simp [h]
    · simp only [h, if_false]; exact ih

theorem runAcc_eq (w : World) (prog : Program) (inp : Inputs) (N : Nat) :
    runAcc w prog inp N = simRun w prog inp N := by
  induction N with
  | zero => rfl
  | succ n ih =>
    simp only [runAcc, ih, simRun, List.range_succ, List.map_append, List.map_cons, List.map_nil]
    rfl


/-! ### what a day's traces are made of -/

/-- facts about a completed-survey record `d` produced by method `m` (configuration `c`) on day `n` -/
def DoneOK (w : World) (inp : Inputs) (n m : Nat) (c : MethodCfg) (ss : List Emission.State)
    (dd : Crew.DaySt) (d : Done) : Prop :=
  d.out ∈ completed dd ∧ d.sv.m = m ∧ d.sv.trd = c.trd ∧ d.sv.mdl = c.mdl ∧ d.sv.site = d.out.req.site ∧
  d.sv.cfg = sensorCfg w inp n m c d.out.req.site ∧ ∃ covs, d.sv.xs = mkXs w inp n m ss covs

theorem foldl_surveyOne (w : World) (inp : Inputs) (n m : Nat) (c : MethodCfg) (ss : List Emission.State)
    (lt : Nat → Int) (P : Done → Prop)
    (hP : ∀ (covs : List Cov) (o : Crew.OutRec) (d : Done),
      d ∈ (surveyOne w inp n m c ss lt (covs, []) o).2 → P d)
    (os : List Crew.OutRec) (acc : List Cov × List Done) (hacc : ∀ d ∈ acc.2, P d) :
    ∀ d ∈ (os.foldl (surveyOne w inp n m c ss lt) acc).2, P d := by
  induction os generalizing acc with
  | nil => simpa using hacc
  | cons o os ih =>
    simp only [List.foldl_cons]
    apply ih
    intro d hd
    simp only [surveyOne, List.mem_append, List.mem_singleton] at hd
    rcases hd with hd | hd
    · exact hacc d hd
    · apply hP acc.1 o d
      simp only [surveyOne, List.nil_append, List.mem_singleton]
      exact hd

theorem surveyAll_spec (w : World) (inp : Inputs) (n m : Nat) (c : MethodCfg) (ss : List Emission.State)
    (lt : Nat → Int) (covs : List Cov) (dd : Crew.DaySt) :
    ∀ d ∈ (surveyAll w inp n m c ss lt covs dd).2, DoneOK w inp n m c ss dd d := by
  unfold surveyAll
  have key : ∀ (os : List Crew.OutRec) (acc : List Cov × List Done),
      (∀ o ∈ os, o ∈ completed dd) → (∀ d ∈ acc.2, DoneOK w inp n m c ss dd d) →
      ∀ d ∈ (os.foldl (surveyOne w inp n m c ss lt) acc).2, DoneOK w inp n m c ss dd d := by
    intro os
    induction os with
    | nil => intro acc _ hacc; simpa using hacc
    | cons o os ih =>
      intro acc hos hacc
      simp only [List.foldl_cons]
      apply ih
      · intro o' ho'; exact hos o' (List.mem_cons_of_mem _ ho')
      · intro d hd
        simp only [surveyOne, List.mem_append, List.mem_singleton] at hd
        rcases hd with hd | hd
        · exact hacc d hd
        · subst hd
          exact ⟨hos o (List.mem_cons_self ..), rfl, rfl, rfl, rfl, rfl, acc.1, rfl⟩
  exact key _ _ (fun o ho => ho) (by intro d hd; cases hd)

theorem planDay_dd (c : MethodCfg) (inp : Inputs) (n m : Nat) (me : MethSt) (lt : Nat → Int) :
    (planDay c inp n m me lt).dd = deploy c inp n (planDay c inp n m me lt).reqs := by
  unfold planDay
  split <;> rfl

theorem guardK_months (k : Sched.Kind) (p : Sched.PlannerP) (dt : Sched.Date) (s : Sched.PlannerS)
    (h : Sched.guardK k p dt s = true) : dt.y ∈ p.depYears ∧ dt.m ∈ p.months := by
  cases k
  · simp only [Sched.guardK, Sched.guardRoutine, Bool.and_eq_true, decide_eq_true_eq] at h
    exact ⟨h.1.1.1.1, h.1.1.1.2⟩
  · simp only [Sched.guardK, Sched.guardStationary, Bool.and_eq_true, decide_eq_true_eq] at h
    exact ⟨h.1.1.1, h.1.1.2⟩
  · simp only [Sched.guardK, Sched.guardRoutine, Bool.and_eq_true, decide_eq_true_eq] at h
    exact ⟨h.1.1.1.1, h.1.1.1.2⟩

/-- the requests a method's planners issue on day `n` are issued in a deployment year and month -/
def IssuedOK (inp : Inputs) (n : Nat) (t : MethTrace) : Prop :=
  ∀ i ∈ t.issued, i ∈ t.cfg.sites ∧ (inp.date n).y ∈ (t.cfg.P i).depYears ∧ (inp.date n).m ∈ (t.cfg.P i).months

theorem planDay_issued (c : MethodCfg) (inp : Inputs) (n m : Nat) (me : MethSt) (lt : Nat → Int) :
    ∀ i ∈ (planDay c inp n m me lt).issued,
      i ∈ c.sites ∧ (inp.date n).y ∈ (c.P i).depYears ∧ (inp.date n).m ∈ (c.P i).months := by
  intro i hi
  unfold planDay at hi
  split at hi
  · cases hi
  · simp only [Sched.dayTrace, Sched.issued, List.mem_filter] at hi
    exact ⟨hi.1, guardK_months _ _ _ _ hi.2⟩

/-- the planned requests of a trace are its work plan, each with the method's survey time and cost of
the site and the day's inputs (sampled travel time, weather outcome) of that (method, site) -/
def ReqsOK (inp : Inputs) (n : Nat) (t : MethTrace) : Prop :=
  t.reqs.map (·.site) = t.keys ∧
  ∀ r ∈ t.reqs, r.S = t.cfg.S r.site ∧ r.siteCost = t.cfg.siteCost r.site ∧
    r.T = inp.travel n t.m r.site ∧ r.wx = wxOf (inp.workable n t.m r.site)

theorem planDay_reqs (c : MethodCfg) (inp : Inputs) (n m : Nat) (me : MethSt) (lt : Nat → Int) :
    (planDay c inp n m me lt).reqs.map (·.site) = (planDay c inp n m me lt).keys ∧
    ∀ r ∈ (planDay c inp n m me lt).reqs, r.S = c.S r.site ∧ r.siteCost = c.siteCost r.site ∧
      r.T = inp.travel n m r.site ∧ r.wx = wxOf (inp.workable n m r.site) := by
  unfold planDay
  split
  · refine ⟨by simp [List.map_map, Function.comp_def, mkReq], ?_⟩
    intro r hr
    simp only [List.mem_map] at hr
    obtain ⟨i, _, rfl⟩ := hr
    exact ⟨rfl, rfl, rfl, rfl⟩
  · refine ⟨by simp [List.map_map, Function.comp_def, mkReq], ?_⟩
    intro r hr
    simp only [List.mem_map] at hr
    obtain ⟨i, _, rfl⟩ := hr
    exact ⟨rfl, rfl, rfl, rfl⟩

/-- a trace of day `n`: the crew day is `Crew.deployDay` on the trace's own plan, every completed
survey record comes from a completed visit of that crew day, requests are issued in deployment months -/
def TraceOK (w : World) (inp : Inputs) (n : Nat) (ss : List Emission.State) (t : MethTrace) : Prop :=
  t.dd = deploy t.cfg inp n t.reqs ∧ t.budget = budgetMin t.cfg (inp.daylightMin n) ∧
  (∀ d ∈ t.dones, DoneOK w inp n t.m t.cfg ss t.dd d) ∧ IssuedOK inp n t ∧ ReqsOK inp n t

theorem methodStep_traces (w : World) (inp : Inputs) (n : Nat) (ss : List Emission.State) (acc : Acc)
    (m : Nat) (c : MethodCfg) :
    ∃ t, (methodStep w inp n ss acc m c).traces = acc.traces ++ [t] ∧ t.m = m ∧ t.cfg = c ∧
      TraceOK w inp n ss t := by
  refine ⟨_, rfl, rfl, rfl, ?_, rfl, ?_, ?_, ?_⟩
  · exact planDay_dd c inp n m _ _
  · exact surveyAll_spec w inp n m c ss _ _ _
  · exact planDay_issued c inp n m _ _
  · exact planDay_reqs c inp n m _ _

theorem stepMethods_traces (w : World) (inp : Inputs) (n : Nat) (ss : List Emission.State) :
    ∀ (cs : List MethodCfg) (m0 : Nat) (acc : Acc),
    ∀ t ∈ (stepMethods w inp n ss m0 cs acc).traces,
      t ∈ acc.traces ∨ (∃ k, cs[k]? = some t.cfg ∧ t.m = m0 + k ∧ TraceOK w inp n ss t) := by
  intro cs
  induction cs with
  | nil => intro m0 acc t ht; exact Or.inl ht
  | cons c cs ih =>
    intro m0 acc t ht
    simp only [stepMethods] at ht
    rcases ih (m0 + 1) _ t ht with h | ⟨k, hk, hm, hok⟩
    · obtain ⟨t', htr, hm', hc', hok'⟩ := methodStep_traces w inp n ss acc m0 c
      rw [htr] at h
      rcases List.mem_append.1 h with h | h
      · exact Or.inl h
      · simp only [List.mem_singleton] at h
        subst h
        exact Or.inr ⟨0, by simp [hc'], by simp [hm'], hok'⟩
    · exact Or.inr ⟨k + 1, by simpa using hk, by omega, hok⟩

/-- the emission states the methods of day `n` work on: after the activation step -/
def actStates (w : World) (n : Nat) (st : St) : List Emission.State :=
  List.zipWith (activateS n (((st.srcs.map (Heap.activateSrc (n : Int))).flatMap (·.1)).map (·.id))) w.ems st.ss

/-- every trace of a simulated day belongs to a method of the program, at its program position -/
theorem day_traces (w : World) (prog : Program) (inp : Inputs) (n : Nat) (st : St) :
    ∀ t ∈ (simDayOut w prog inp n st).traces,
      prog[t.m]? = some t.cfg ∧ TraceOK w inp n (actStates w n st) t := by
  intro t ht
  have := stepMethods_traces w inp n (actStates w n st) prog 0
    { ms := st.ms, latestTag := st.latestTag, covs := st.covs } t ht
  rcases this with h | ⟨k, hk, hm, hok⟩
  · cases h
  · have : t.m = k := by omega
    exact ⟨by rw [this]; exact hk, hok⟩


/-! ### (a) the tag chain -/

/-- the completed-survey records of day `n` of the run, in the order the simulator produced them -/
def dayTraces (w : World) (prog : Program) (inp : Inputs) (n : Nat) : List MethTrace :=
  (simDayOut w prog inp n (simState w prog inp n)).traces

def dayDones (w : World) (prog : Program) (inp : Inputs) (n : Nat) : List Done :=
  (dayTraces w prog inp n).flatMap (·.dones)

/-- the events the simulation sends to one emission on day `n` -/
def evTrace (w : World) (prog : Program) (inp : Inputs) (info : EmInfo) (n : Nat) : List Emission.Ev :=
  evsOf info (dayDones w prog inp n)

theorem mem_tagTargets (rep : Sensor.SiteRep) (g c : Nat) (h : (g, c) ∈ Sensor.tagTargets rep) :
    ∃ er ∈ rep.eqgs, ∃ cr ∈ er.comps, er.eqg = g ∧ cr.comp = c ∧ cr.measured > 0 := by
  unfold Sensor.tagTargets at h
  simp only [List.mem_flatMap, List.mem_map, List.mem_filter, decide_eq_true_eq, Prod.mk.injEq] at h
  obtain ⟨er, her, cr, ⟨hcr, hpos⟩, hg, hc⟩ := h
  exact ⟨er, her, cr, hcr, hg, hc, hpos⟩

theorem site_survey_no_targets (err mdl : Int) (m : Nat) (trd : Int) (s : Nat) (xs : List (Sensor.Emis × Sensor.Rolls)) :
    Sensor.tagTargets (Sensor.surveyOf { cfg := .site err, m := m, trd := trd, mdl := mdl, site := s, xs := xs }) = [] := by
  simp [Sensor.surveyOf, Sensor.survey, Sensor.report, Sensor.tagTargets]

/-- **(a) whole-chain clause of C04 in the integrated simulation.**  Every tag request that reaches an
emission on day `n` of `simRun` was issued by the method at the program position named in the request
— a component-level (tagging) method, handing over its own reporting delay — on a survey of the
emission's site that the method's crews *completed* on that day (`Crew.deployDay` of that method's
plan of the day), and the sensor's report of that survey shows a measured rate > 0 at the emission's
component. -/
theorem sim_tag_chain (w : World) (prog : Program) (inp : Inputs) (info : EmInfo) (n : Nat)
    (e : Emission.TagEv) (h : Emission.Ev.tag e ∈ evTrace w prog inp info n) :
    ∃ t ∈ dayTraces w prog inp n, ∃ d ∈ t.dones,
      t.m = e.company ∧ prog[e.company]? = some t.cfg ∧ t.cfg.tags = true ∧ e.trd = t.cfg.trd ∧
      t.dd = deploy t.cfg inp n t.reqs ∧ d.out ∈ t.dd.out ∧ d.out.rep.complete = true ∧
      d.out.req.site = info.site ∧
      d.rep = Sensor.surveyOf d.sv ∧ d.sv.site = info.site ∧ d.sv.m = e.company ∧
      ∃ er ∈ d.rep.eqgs, ∃ cr ∈ er.comps, er.eqg = info.eqg ∧ cr.comp = info.comp ∧ cr.measured > 0 := by
  unfold evTrace evsOf at h
  obtain ⟨d, hd, hev⟩ := List.mem_flatMap.1 h
  unfold dayDones at hd
  obtain ⟨t, ht, hdt⟩ := List.mem_flatMap.1 hd
  obtain ⟨hprog, hdd, _, hdone, _, _⟩ := day_traces w prog inp n _ t ht
  obtain ⟨hout, hm, htrd, _, hsite, hcfg, _⟩ := hdone d hdt
  unfold evOfDone at hev
  rcases List.mem_append.1 hev with hev | hev
  · split at hev
    · rename_i hc
      simp only [List.mem_singleton, Emission.Ev.tag.injEq] at hev
      obtain ⟨hs, hcont⟩ := hc
      have hmem : (info.eqg, info.comp) ∈ Sensor.tagTargets d.rep := by
        rw [← d.htargets]; simpa using hcont
      have htags : t.cfg.tags = true := by
        cases htg : t.cfg.tags with
        | true => rfl
        | false =>
          exfalso
          have hc' : d.sv.cfg = .site (inp.shift n t.m d.out.req.site 0 0) := by rw [hcfg]; simp [sensorCfg, htg]
          have : Sensor.tagTargets d.rep = [] := by
            rw [d.hrep]
            have hsv : d.sv = { cfg := .site (inp.shift n t.m d.out.req.site 0 0), m := d.sv.m, trd := d.sv.trd, mdl := d.sv.mdl,
                                site := d.sv.site, xs := d.sv.xs } := by
              cases hsv' : d.sv; simp_all
            rw [hsv]; exact site_survey_no_targets ..
          rw [this] at hmem; cases hmem
      have hcomp := List.mem_filter.1 hout
      refine ⟨t, ht, d, hdt, ?_, ?_, htags, ?_, hdd, hcomp.1, by simpa using hcomp.2, ?_, d.hrep, hs, ?_,
        mem_tagTargets d.rep _ _ hmem⟩
      · rw [hev, ← hm]
      · rw [hev]; simp only; rw [hm]; exact hprog
      · rw [hev]; exact htrd
      · rw [← hsite]; exact hs
      · rw [hev]
    · cases hev
  · split at hev
    · simp at hev
    · cases hev


/-! ### (c) per-emission life-cycle = `Emission.runE` on the events the simulation generated -/

/-- the scenario is well formed (`wfWorld`, evaluated by the driver on every scenario of a real run) -/
def WF (w : World) : Prop := wfWorld w = true

theorem wf_sorted (w : World) (h : WF w) : ∀ s ∈ w.srcs, Heap.sortedByStart s.all = true := by
  unfold WF wfWorld at h
  simp only [Bool.and_eq_true, List.all_eq_true] at h
  exact h.1

theorem wf_aligned (w : World) (h : WF w) : aligned 0 (w.srcs.flatMap (·.all)) w.ems = true := by
  unfold WF wfWorld at h
  simp only [Bool.and_eq_true] at h
  exact h.2

theorem aligned_cons (k : Nat) (x : Heap.EmId) (xs : List Heap.EmId) (info : EmInfo) (infos : List EmInfo)
    (h : aligned k (x :: xs) (info :: infos) = true) :
    x.id = k ∧ info.idx = k ∧ x.start = info.p.start ∧ aligned (k + 1) xs infos = true := by
  simpa [aligned, and_assoc] using h

theorem aligned_ids_ge : ∀ (xs : List Heap.EmId) (infos : List EmInfo) (k : Nat),
    aligned k xs infos = true → ∀ x ∈ xs, k ≤ x.id := by
  intro xs
  induction xs with
  | nil => intro _ _ _ x hx; cases hx
  | cons x xs ih =>
    intro infos k h y hy
    cases infos with
    | nil => simp [aligned] at h
    | cons info infos =>
      obtain ⟨h1, _, _, h4⟩ := aligned_cons k x xs info infos h
      rcases List.mem_cons.1 hy with rfl | hy
      · omega
      · have := ih infos (k + 1) h4 y hy; omega

theorem aligned_idx : ∀ (xs : List Heap.EmId) (infos : List EmInfo) (k i : Nat) (info : EmInfo),
    aligned k xs infos = true → infos[i]? = some info → info.idx = k + i := by
  intro xs
  induction xs with
  | nil =>
    intro infos k i info h hi
    cases infos with
    | nil => simp at hi
    | cons _ _ => simp [aligned] at h
  | cons x xs ih =>
    intro infos k i info h hi
    cases infos with
    | nil => simp at hi
    | cons info0 infos =>
      obtain ⟨_, h2, _, h4⟩ := aligned_cons k x xs info0 infos h
      cases i with
      | zero => simp at hi; subst hi; omega
      | succ j =>
        simp at hi
        have := ih infos (k + 1) j info h4 hi; omega

/-- with aligned numbering, an emission's index is among the ids of the pending entries selected by a
predicate on the start date iff its own start date satisfies the predicate -/
theorem aligned_mem_filter (q : Int → Bool) : ∀ (xs : List Heap.EmId) (infos : List EmInfo) (k i : Nat)
    (info : EmInfo), aligned k xs infos = true → infos[i]? = some info →
    (info.idx ∈ (xs.filter (fun x => q x.start)).map (·.id) ↔ q info.p.start = true) := by
  intro xs
  induction xs with
  | nil =>
    intro infos k i info h hi
    cases infos with
    | nil => simp at hi
    | cons _ _ => simp [aligned] at h
  | cons x xs ih =>
    intro infos k i info h hi
    cases infos with
    | nil => simp at hi
    | cons info0 infos =>
      obtain ⟨h1, h2, h3, h4⟩ := aligned_cons k x xs info0 infos h
      have hge := aligned_ids_ge xs infos (k + 1) h4
      cases i with
      | zero =>
        simp at hi; subst hi
        have hnot : info0.idx ∉ (xs.filter (fun x => q x.start)).map (·.id) := by
          intro hm
          obtain ⟨y, hy, hyid⟩ := List.mem_map.1 hm
          have := hge y (List.mem_filter.1 hy).1
          omega
        by_cases hq : q x.start = true
        · simp [hq, h1, h2, ← h3]
        · have hq' : q x.start = false := by simpa using hq
          simp only [List.filter_cons, hq', Bool.false_eq_true, if_false]
          rw [← h3, hq']
          simp [hnot]
      | succ j =>
        simp at hi
        have hidx := aligned_idx xs infos (k + 1) j info h4 hi
        have hne : x.id ≠ info.idx := by omega
        have := ih infos (k + 1) j info h4 hi
        rw [← this]
        have hne' : info.idx ≠ x.id := fun h => hne h.symm
        by_cases hq : q x.start = true
        · simp [hq, hne']
        · have hq' : q x.start = false := by simpa using hq
          simp [hq']

/-- the activation cursors of the run are those of the scenario after `N` days -/
theorem srcs_inv (w : World) (prog : Program) (inp : Inputs) (N : Nat) :
    (simState w prog inp N).srcs.map (·.all) = w.srcs.map (fun s => (Heap.srcAfter N s).all) := by
  induction N with
  | zero => rfl
  | succ n ih =>
    have e : (simState w prog inp (n + 1)).srcs =
        ((simState w prog inp n).srcs.map (Heap.activateSrc (n : Int))).map (·.2) := rfl
    rw [e, List.map_map, List.map_map]
    have h1 : (fun s : Heap.Src => ((Heap.activateSrc (n : Int) s).2).all) =
        (fun l => l.dropWhile (Heap.le (n : Int))) ∘ (·.all) := by
      funext s; exact (Heap.activateSrc_spec (n : Int) s).2
    have h1' : ((fun x : Heap.Src => x.all) ∘ (fun x : List Heap.EmId × Heap.Src => x.2)) ∘ Heap.activateSrc (n : Int) =
        (fun l => l.dropWhile (Heap.le (n : Int))) ∘ (·.all) := by
      funext s; exact (Heap.activateSrc_spec (n : Int) s).2
    rw [h1', ← List.map_map, ih, List.map_map]
    apply List.map_congr_left
    intro s _
    simp only [Function.comp]
    rw [Heap.srcAfter_all]
    cases n with
    | zero => rfl
    | succ m =>
      rw [Heap.srcAfter_all]
      exact (Heap.takeWhile_chain s.all (m : Int) ((m + 1 : Nat) : Int) (by push_cast; omega)).2

theorem flatMap_congr_mem {α β} (l : List α) (f g : α → List β) (h : ∀ a ∈ l, f a = g a) :
    l.flatMap f = l.flatMap g := by
  induction l with
  | nil => rfl
  | cons a l ih =>
    simp only [List.flatMap_cons]
    rw [h a (List.mem_cons_self ..), ih (fun b hb => h b (List.mem_cons_of_mem _ hb))]

/-- `max start 0 = N` as a Boolean predicate on start dates -/
def dueOn (N : Nat) (st : Int) : Bool := decide ((if st > 0 then st else 0) = (N : Int))

/-- the ids `Infrastructure.activate_emissions` hands out on day `N` of the run -/
def newIdsOn (w : World) (prog : Program) (inp : Inputs) (N : Nat) : List Nat :=
  ((((simState w prog inp N).srcs.map (Heap.activateSrc (N : Int))).flatMap (·.1)).map (·.id))

theorem newIds_eq (w : World) (prog : Program) (inp : Inputs) (hw : WF w) (N : Nat) :
    newIdsOn w prog inp N = ((w.srcs.flatMap (·.all)).filter (fun x => dueOn N x.start)).map (·.id) := by
  unfold newIdsOn
  congr 1
  rw [List.flatMap_map]
  have h1 : (fun s : Heap.Src => (Heap.activateSrc (N : Int) s).1) =
      (fun l => l.takeWhile (Heap.le (N : Int))) ∘ (·.all) := by
    funext s; exact (Heap.activateSrc_spec (N : Int) s).1
  rw [h1]
  have h2 : ∀ (l : List Heap.Src), l.flatMap ((fun l => l.takeWhile (Heap.le (N : Int))) ∘ (·.all)) =
      (l.map (·.all)).flatMap (fun l => l.takeWhile (Heap.le (N : Int))) := by
    intro l; rw [List.flatMap_map]; rfl
  rw [h2, srcs_inv, List.flatMap_map, List.filter_flatMap]
  apply flatMap_congr_mem
  intro s hs
  have := Heap.activation_day s (wf_sorted w hw s hs) N
  unfold Heap.handedOutOn at this
  rw [(Heap.activateSrc_spec _ _).1] at this
  rw [this]
  rfl

/-- an emission is pending exactly as long as no simulated day has reached its start date -/
theorem runE_inactive (p : Emission.Params) (ev : Nat → List Emission.Ev) (N : Nat)
    (h : (Emission.runE p ev N).status = .inactive) : ∀ k, k < N → ¬ p.start ≤ (k : Int) := by
  induction N with
  | zero => intro k hk; omega
  | succ n ih =>
    have e : Emission.runE p ev (n + 1) = Emission.dayE p n (ev n) (Emission.runE p ev n) := rfl
    rw [e] at h
    cases hs : (Emission.runE p ev n).status with
    | inactive =>
      have hn : ¬ p.start ≤ (n : Int) := by
        intro hle
        have := World.dayE_live p n (ev n) _ (Or.inr ⟨hs, hle⟩)
        rw [h] at this; simp at this
      intro k hk
      by_cases hkn : k = n
      · subst hkn; exact hn
      · exact ih hs k (by omega)
    | active =>
      have := World.dayE_live p n (ev n) _ (Or.inl hs)
      rw [h] at this; simp at this
    | repaired =>
      rw [World.dayE_frozen p n (ev n) _ (Or.inl hs), hs] at h; cases h
    | expired =>
      rw [World.dayE_frozen p n (ev n) _ (Or.inr hs), hs] at h; cases h

/-- the activation bridge: in a well-formed scenario the cursor hands out on day `N` exactly the
emissions `Emission.activate` would activate -/
theorem activateS_eq (w : World) (prog : Program) (inp : Inputs) (hw : WF w) (N i : Nat) (info : EmInfo)
    (hi : w.ems[i]? = some info) (ev : Nat → List Emission.Ev) :
    activateS N (newIdsOn w prog inp N) info (Emission.runE info.p ev N) =
      Emission.activate info.p (N : Int) (Emission.runE info.p ev N) := by
  unfold activateS
  split
  · rfl
  · rename_i hc
    have hmem : info.idx ∉ newIdsOn w prog inp N := by simpa using hc
    rw [newIds_eq w prog inp hw N] at hmem
    have hq : ¬ dueOn N info.p.start = true := fun hq' =>
      hmem ((aligned_mem_filter (dueOn N) _ _ 0 i info (wf_aligned w hw) hi).2 hq')
    unfold Emission.activate
    split
    · rename_i hact
      exfalso
      obtain ⟨hin, hle⟩ := hact
      have hpend := runE_inactive info.p ev N hin
      apply hq
      unfold dueOn
      simp only [decide_eq_true_eq]
      cases N with
      | zero => split <;> omega
      | succ m =>
        have := hpend m (by omega)
        have hc : ((m + 1 : Nat) : Int) = (m : Int) + 1 := by push_cast; rfl
        rw [hc] at hle ⊢
        split <;> omega
    · rfl

theorem simState_ss_succ (w : World) (prog : Program) (inp : Inputs) (N : Nat) :
    (simState w prog inp (N + 1)).ss =
      (List.zipWith (finishEm N (dayDones w prog inp N)) w.ems
        (List.zipWith (activateS N (newIdsOn w prog inp N)) w.ems (simState w prog inp N).ss)).map (·.fin) := rfl

/-- **(c) life-cycle.**  In a well-formed scenario the state of every emission after `N` simulated days
of `simRun` is `Emission.runE` of its own parameters on the events the simulation generated for it —
so every theorem about `runE` (C02, C03, C04) holds of the integrated simulation. -/
theorem sim_lifecycle (w : World) (prog : Program) (inp : Inputs) (hw : WF w) (N i : Nat) (info : EmInfo)
    (hi : w.ems[i]? = some info) :
    (simState w prog inp N).ss[i]? = some (Emission.runE info.p (evTrace w prog inp info) N) := by
  induction N with
  | zero =>
    have : (simState w prog inp 0).ss = w.ems.map (fun _ => ({} : Emission.State)) := rfl
    rw [this]
    simp [hi]
    rfl
  | succ n ih =>
    rw [simState_ss_succ]
    simp only [List.getElem?_map, List.getElem?_zipWith, hi, ih, Option.map_some]
    congr 1
    unfold finishEm
    simp only
    rw [activateS_eq w prog inp hw n i info hi]
    rfl


/-! ### (b) the emissions part of every timeseries row = `World.row` of the per-emission runs -/

/-- one emission of the scenario as an element of a `World`: its parameters, its rate and the events
the simulation generated for it -/
def emOf (w : World) (prog : Program) (inp : Inputs) (info : EmInfo) : World.Em :=
  { p := info.p, rate := info.rate, ev := evTrace w prog inp info }

/-- the world the integrated simulation induces -/
def worldOf (w : World) (prog : Program) (inp : Inputs) : List World.Em := w.ems.map (emOf w prog inp)

theorem ss_length (w : World) (prog : Program) (inp : Inputs) (N : Nat) :
    (simState w prog inp N).ss.length = w.ems.length := by
  induction N with
  | zero => simp [simState, init]
  | succ n ih => rw [simState_ss_succ]; simp [ih]

/-- (c) in list form -/
theorem ss_eq (w : World) (prog : Program) (inp : Inputs) (hw : WF w) (N : Nat) :
    (simState w prog inp N).ss = w.ems.map (fun info => World.st (emOf w prog inp info) N) := by
  apply List.ext_getElem?
  intro i
  cases hi : w.ems[i]? with
  | none =>
    have h1 : w.ems.length ≤ i := by simpa using hi
    have h2 : (simState w prog inp N).ss.length ≤ i := by rw [ss_length]; exact h1
    simp [hi, List.getElem?_eq_none h2]
  | some info =>
    rw [sim_lifecycle w prog inp hw N i info hi]
    simp [hi, World.st, emOf]

theorem zipWith_map_self {α β γ} (g : α → β → γ) (f : α → β) (l : List α) :
    List.zipWith g l (l.map f) = l.map (fun a => g a (f a)) := by
  induction l with
  | nil => rfl
  | cons a l ih => simp [ih]

/-- the per-emission day records of the run are those of the induced world -/
theorem days_eq (w : World) (prog : Program) (inp : Inputs) (hw : WF w) (n : Nat) :
    (simDayOut w prog inp n (simState w prog inp n)).days =
      w.ems.map (fun info => { info := info, mid := World.mid (emOf w prog inp info) n,
                               fin := World.st (emOf w prog inp info) (n + 1) }) := by
  have e : (simDayOut w prog inp n (simState w prog inp n)).days =
      List.zipWith (finishEm n (dayDones w prog inp n)) w.ems
        (List.zipWith (activateS n (newIdsOn w prog inp n)) w.ems (simState w prog inp n).ss) := rfl
  rw [e, ss_eq w prog inp hw n, zipWith_map_self, zipWith_map_self]
  apply List.map_congr_left
  intro info hinfo
  obtain ⟨i, hi⟩ := List.getElem?_of_mem hinfo
  have := activateS_eq w prog inp hw n i info hi (evTrace w prog inp info)
  unfold finishEm
  simp only [World.st, emOf] at this ⊢
  rw [this]
  rfl

theorem mid_status (e : World.Em) (n : Nat) :
    (World.mid e n).status = (Emission.activate e.p (n : Int) (World.st e n)).status := by
  unfold World.mid
  exact World.events_status e.p n (e.ev n) _

theorem mid_active (e : World.Em) (n : Nat) :
    decide ((World.mid e n).status = .active) = (World.activeAt e n || World.isNew e n) := by
  rw [mid_status]
  unfold Emission.activate World.activeAt World.isNew
  cases hs : (World.st e n).status <;> by_cases hle : e.p.start ≤ (n : Int) <;> simp [hs, hle]

theorem runE_inactive_iff (p : Emission.Params) (ev : Nat → List Emission.Ev) (N : Nat) :
    (Emission.runE p ev N).status = .inactive ↔ ∀ k, k < N → ¬ p.start ≤ (k : Int) := by
  refine ⟨runE_inactive p ev N, ?_⟩
  induction N with
  | zero => intro _; rfl
  | succ n ih =>
    intro h
    have e : Emission.runE p ev (n + 1) = Emission.dayE p n (ev n) (Emission.runE p ev n) := rfl
    rw [e]
    exact World.dayE_pending p n (ev n) _ (ih (fun k hk => h k (by omega))) (h n (by omega))

theorem isNew_iff (e : World.Em) (n : Nat) : World.isNew e n = dueOn n e.p.start := by
  unfold World.isNew dueOn World.st
  have := runE_inactive_iff e.p e.ev n
  by_cases hs : (Emission.runE e.p e.ev n).status = .inactive
  · have hp := this.1 hs
    simp only [hs, decide_true, Bool.true_and]
    cases n with
    | zero => congr 1; apply propext; constructor <;> intro h <;> split at * <;> omega
    | succ m =>
      have hm := hp m (by omega)
      have hc : ((m + 1 : Nat) : Int) = (m : Int) + 1 := by push_cast; rfl
      rw [hc]
      congr 1; apply propext; constructor <;> intro h <;> split at * <;> omega
  · have hnp : ¬ ∀ k, k < n → ¬ e.p.start ≤ (k : Int) := fun h => hs (this.2 h)
    simp only [hs, decide_false, Bool.false_and]
    symm
    simp only [decide_eq_false_iff_not]
    intro hd
    apply hnp
    intro k hk hle
    split at hd <;> omega

theorem aligned_count (q : Int → Bool) : ∀ (xs : List Heap.EmId) (infos : List EmInfo) (k : Nat),
    aligned k xs infos = true →
    (((xs.filter (fun x => q x.start)).length : Nat) : Int) = (infos.map (fun info => World.ind (q info.p.start))).sum := by
  intro xs
  induction xs with
  | nil =>
    intro infos k h
    cases infos with
    | nil => rfl
    | cons _ _ => simp [aligned] at h
  | cons x xs ih =>
    intro infos k h
    cases infos with
    | nil => simp [aligned] at h
    | cons info infos =>
      obtain ⟨_, _, h3, h4⟩ := aligned_cons k x xs info infos h
      have := ih infos (k + 1) h4
      simp only [List.map_cons, List.sum_cons, ← this, ← h3, List.filter_cons]
      cases hq : q x.start <;> simp [World.ind] <;> omega

theorem sumDays_map {α} (l : List α) (g : α → EmDay) (f : EmDay → Int) :
    sumDays (l.map g) f = (l.map (fun a => f (g a))).sum := by
  unfold sumDays; rw [List.map_map]; rfl

theorem sumOver_worldOf (w : World) (prog : Program) (inp : Inputs) (f : World.Em → Int) :
    World.sumOver (worldOf w prog inp) f = (w.ems.map (fun info => f (emOf w prog inp info))).sum := by
  unfold World.sumOver worldOf; rw [List.map_map]; rfl

/-- **(b) the ledger of the integrated simulation is the ledger of its emissions.**  In a well-formed
scenario the emissions part of the timeseries row of every day of `simRun` — new, active, repaired,
naturally repaired, expired, daily emissions and their two shares — equals `World.row` of the
per-emission runs, so C11's `ledger`, `counts` and `reconstruct` theorems apply to the integrated model. -/
theorem sim_row_world (w : World) (prog : Program) (inp : Inputs) (hw : WF w) (n : Nat) :
    (simRow w prog inp n).em = World.row (worldOf w prog inp) n := by
  have e : (simRow w prog inp n).em =
      emRow ((newIdsOn w prog inp n).length : Nat) (simDayOut w prog inp n (simState w prog inp n)).days := rfl
  rw [e, days_eq w prog inp hw n]
  unfold emRow World.row
  simp only [sumDays_map, sumOver_worldOf]
  have hact : ∀ info : EmInfo,
      actI { info := info, mid := World.mid (emOf w prog inp info) n, fin := World.st (emOf w prog inp info) (n + 1) }
        = World.ind (World.activeAt (emOf w prog inp info) (n + 1)) := fun _ => rfl
  have hend : ∀ info : EmInfo,
      ended { info := info, mid := World.mid (emOf w prog inp info) n, fin := World.st (emOf w prog inp info) (n + 1) }
        = World.endedOn (emOf w prog inp info) n := by
    intro info
    unfold ended World.endedOn
    simp only
    rw [mid_active]
    rfl
  congr 1
  · -- new
    rw [newIds_eq w prog inp hw n, List.length_map, aligned_count (dueOn n) _ _ 0 (wf_aligned w hw)]
    congr 1
    apply List.map_congr_left
    intro info _
    rw [isNew_iff]; rfl
  · apply congrArg; apply List.map_congr_left; intro info _; rw [hend]; rfl
  · apply congrArg; apply List.map_congr_left; intro info _; rw [hend]; rfl
  · apply congrArg; apply List.map_congr_left; intro info _; rw [hend]; rfl


/-! ### corollaries: the component theorems hold of the integrated simulation -/

/-- active leaks of the previous row (`0` before the first day) -/
def prevActiveRow (w : World) (prog : Program) (inp : Inputs) : Nat → Int
  | 0 => 0
  | n + 1 => (simRow w prog inp n).em.active

/-- **C11's ledger in the integrated simulation**: active = previous active + new − repaired −
naturally repaired − expired, on every day, whatever the program does -/
theorem sim_ledger (w : World) (prog : Program) (inp : Inputs) (hw : WF w) (n : Nat) :
    (simRow w prog inp n).em.active = prevActiveRow w prog inp n + (simRow w prog inp n).em.new
      - (simRow w prog inp n).em.repaired - (simRow w prog inp n).em.natRepaired
      - (simRow w prog inp n).em.expired := by
  have h := World.ledger (worldOf w prog inp) n
  rw [← sim_row_world w prog inp hw n] at h
  have hp : World.prevActive (worldOf w prog inp) n = prevActiveRow w prog inp n := by
    cases n with
    | zero => rfl
    | succ m => simp only [World.prevActive, prevActiveRow]; rw [sim_row_world w prog inp hw m]
  rw [hp] at h
  exact h

/-- **C11's reconstruction in the integrated simulation**: the emission columns of every row of a run
of `N` days are recomputed from the final per-emission records alone -/
theorem sim_reconstruct (w : World) (prog : Program) (inp : Inputs) (hw : WF w) (N n : Nat) (h : n < N) :
    (simRow w prog inp n).em = World.recRow (World.records (worldOf w prog inp) N) n := by
  rw [sim_row_world w prog inp hw n]
  exact World.reconstruct_row (worldOf w prog inp) N n h

theorem mem_of_tagsOf (evs : List Emission.Ev) (e : Emission.TagEv) (h : e ∈ Emission.tagsOf evs) :
    Emission.Ev.tag e ∈ evs := by
  induction evs with
  | nil => cases h
  | cons x xs ih =>
    cases x with
    | tag t =>
      simp only [Emission.tagsOf, List.mem_cons] at h
      rcases h with h | h
      · subst h; exact List.mem_cons_self ..
      · exact List.mem_cons_of_mem _ (ih h)
    | detect c =>
      simp only [Emission.tagsOf] at h
      exact List.mem_cons_of_mem _ (ih h)

/-- **C04's whole chain in the integrated simulation.**  If a repairable emission of a well-formed
scenario ends a run of `N` days repaired by company `c`, then there is a day `T < N` on which the
method at program position `c` — a component-level method — completed a survey of the emission's site
whose report shows a measured rate > 0 at the emission's component; that survey issued the first tag
request that ever reached the emission (no tag request reached it on an earlier day of its life), and
the repair took effect exactly `max 1 (repair delay + that method's reporting delay)` days after `T`. -/
theorem sim_repair_chain (w : World) (prog : Program) (inp : Inputs) (hw : WF w) (N i : Nat) (info : EmInfo)
    (hi : w.ems[i]? = some info) (hr : info.p.repairable = true) (s : Emission.State)
    (hs : (simState w prog inp N).ss[i]? = some s) (c : Nat)
    (hrep : s.status = .repaired) (hby : s.by_ = .company c) :
    ∃ T : Nat, T < N ∧ Emission.a info.p ≤ T ∧
      (∃ t ∈ dayTraces w prog inp T, ∃ d ∈ t.dones,
        t.m = c ∧ prog[c]? = some t.cfg ∧ t.cfg.tags = true ∧
        t.dd = deploy t.cfg inp T t.reqs ∧ d.out ∈ t.dd.out ∧ d.out.rep.complete = true ∧
        d.out.req.site = info.site ∧ d.rep = Sensor.surveyOf d.sv ∧
        (∃ er ∈ d.rep.eqgs, ∃ cr ∈ er.comps, er.eqg = info.eqg ∧ cr.comp = info.comp ∧ cr.measured > 0) ∧
        s.endDate = some ((T : Int) + Emission.atLeastOne (info.p.repairDelay + t.cfg.trd))) ∧
      (∀ t : Nat, t < T → Emission.a info.p ≤ t → ∀ e, Emission.Ev.tag e ∉ evTrace w prog inp info t) := by
  rw [sim_lifecycle w prog inp hw N i info hi] at hs
  simp only [Option.some.injEq] at hs
  subst hs
  obtain ⟨T, hT, haT, ⟨e, rest, htags, hec, hend⟩, hno⟩ :=
    Emission.C04_repair_needs_tag_E info.p hr (evTrace w prog inp info) N c hrep hby
  have hmem : Emission.Ev.tag e ∈ evTrace w prog inp info T :=
    mem_of_tagsOf _ e (by rw [htags]; exact List.mem_cons_self ..)
  obtain ⟨t, ht, d, hd, hm, hprog, htg, htrd, hdd, hout, hcomp, hsite, hrepd, _, _, hmeas⟩ :=
    sim_tag_chain w prog inp info T e hmem
  refine ⟨T, hT, haT, ⟨t, ht, d, hd, by rw [hm, hec], by rw [← hec]; exact hprog, htg, hdd, hout, hcomp, hsite,
    hrepd, hmeas, by rw [hend, htrd]⟩, ?_⟩
  intro k hk hak e' he'
  have := hno k hk hak
  have hin : e' ∈ Emission.tagsOf (evTrace w prog inp info k) := by
    clear this
    generalize evTrace w prog inp info k = evs at he'
    induction evs with
    | nil => cases he'
    | cons x xs ih =>
      cases x with
      | tag t' =>
        simp only [Emission.tagsOf, List.mem_cons]
        rcases List.mem_cons.1 he' with h | h
        · left; injection h
        · right; exact ih h
      | detect c' =>
        simp only [Emission.tagsOf]
        rcases List.mem_cons.1 he' with h | h
        · cases h
        · exact ih h
  rw [this] at hin
  cases hin


/-! ### (e) zero spatial coverage = the program without methods -/

/-- every stored spatial-coverage outcome is "not covered" -/
def CovFalse (covs : List Cov) : Prop := ∀ c ∈ covs, ∀ kb ∈ c, kb.2 = false

/-- a completed survey that sends nothing to any emission -/
def QuietD (d : Done) : Prop := d.targets = [] ∧ d.rep.recorded = []

theorem lookup_false (m : Nat) (l : List (Nat × Bool)) (h : ∀ kb ∈ l, kb.2 = false) :
    Sensor.lookup m l ≠ some true := by
  induction l with
  | nil => simp [Sensor.lookup]
  | cons kb l ih =>
    simp only [Sensor.lookup]
    split
    · have := h kb (List.mem_cons_self ..)
      simp [this]
    · exact ih (fun x hx => h x (List.mem_cons_of_mem _ hx))

theorem detectOne_e (m s : Nat) (x : Sensor.Emis × Sensor.Rolls) :
    (Sensor.detectOne m s x).e =
      if Sensor.inScope s x.1 then (Sensor.checkSpatialCov m x.2.spatial x.1).e else x.1 := by
  unfold Sensor.detectOne
  by_cases h : Sensor.inScope s x.1 = true
  · simp only [h, if_true]
    by_cases h2 : ((Sensor.checkSpatialCov m x.2.spatial x.1).outcome && x.1.emitting) = true
    · simp only [h2, if_true]
    · simp only [h2]; rfl
  · simp only [h]; rfl

theorem detectOne_cov (m s : Nat) (x : Sensor.Emis × Sensor.Rolls) :
    ∀ kb ∈ (Sensor.detectOne m s x).e.cov, kb ∈ x.1.cov ∨ kb = (m, x.2.spatial) := by
  intro kb hkb
  rw [detectOne_e] at hkb
  split at hkb
  · unfold Sensor.checkSpatialCov at hkb
    split at hkb
    · exact Or.inl hkb
    · simp only [List.mem_cons] at hkb
      rcases hkb with h | h
      · exact Or.inr h
      · exact Or.inl h
  · exact Or.inl hkb

theorem mem_zip3With {α β γ δ} (f : α → β → γ → δ) : ∀ (as : List α) (bs : List β) (cs : List γ) (x : δ),
    x ∈ zip3With f as bs cs → ∃ a ∈ as, ∃ b ∈ bs, ∃ c ∈ cs, x = f a b c := by
  intro as
  induction as with
  | nil => intro bs cs x h; simp [zip3With] at h
  | cons a as ih =>
    intro bs cs x h
    cases bs with
    | nil => simp [zip3With] at h
    | cons b bs =>
      cases cs with
      | nil => simp [zip3With] at h
      | cons c cs =>
        simp only [zip3With, List.mem_cons] at h
        rcases h with h | h
        · exact ⟨a, List.mem_cons_self .., b, List.mem_cons_self .., c, List.mem_cons_self .., h⟩
        · obtain ⟨a', ha', b', hb', c', hc', hx⟩ := ih bs cs x h
          exact ⟨a', List.mem_cons_of_mem _ ha', b', List.mem_cons_of_mem _ hb', c', List.mem_cons_of_mem _ hc', hx⟩

theorem mem_setCovs : ∀ (covs : List Cov) (after : List Sensor.Emis) (c : Cov),
    c ∈ setCovs covs after → c ∈ covs ∨ ∃ a ∈ after, c = a.cov := by
  intro covs
  induction covs with
  | nil => intro after c h; simp [setCovs] at h
  | cons c0 cs ih =>
    intro after c h
    cases after with
    | nil => simp only [setCovs] at h; exact Or.inl h
    | cons a as =>
      simp only [setCovs, List.mem_cons] at h
      rcases h with h | h
      · exact Or.inr ⟨a, List.mem_cons_self .., h⟩
      · rcases ih as c h with h' | ⟨a', ha', hc⟩
        · exact Or.inl (List.mem_cons_of_mem _ h')
        · exact Or.inr ⟨a', List.mem_cons_of_mem _ ha', hc⟩

theorem surveyOne_zero (w : World) (inp : Inputs) (hz : ∀ n m e, inp.spatial n m e = false) (n m : Nat)
    (c : MethodCfg) (ss : List Emission.State) (lt : Nat → Int) (acc : List Cov × List Done) (o : Crew.OutRec)
    (h1 : CovFalse acc.1) (h2 : ∀ d ∈ acc.2, QuietD d) :
    CovFalse (surveyOne w inp n m c ss lt acc o).1 ∧ ∀ d ∈ (surveyOne w inp n m c ss lt acc o).2, QuietD d := by
  have hxs : ∀ x ∈ mkXs w inp n m ss acc.1, (∀ kb ∈ x.1.cov, kb.2 = false) ∧ x.2.spatial = false := by
    intro x hx
    obtain ⟨info, _, s, _, cov, hcov, rfl⟩ := mem_zip3With _ _ _ _ _ hx
    exact ⟨h1 cov hcov, hz n m info.idx⟩
  constructor
  · intro c' hc' kb hkb
    simp only [surveyOne] at hc'
    rcases mem_setCovs _ _ _ hc' with h | ⟨a, ha, rfl⟩
    · exact h1 c' h kb hkb
    · unfold Sensor.after Sensor.detect at ha
      simp only [List.mem_map] at ha
      obtain ⟨ob, ⟨x, hx, rfl⟩, rfl⟩ := ha
      rcases detectOne_cov m o.req.site x kb hkb with h | h
      · exact (hxs x hx).1 kb h
      · rw [h]; exact (hxs x hx).2
  · intro d hd
    simp only [surveyOne, List.mem_append, List.mem_singleton] at hd
    rcases hd with hd | hd
    · exact h2 d hd
    · subst hd
      have hzc : Sensor.ZeroCoverage m (mkXs w inp n m ss acc.1) := by
        intro x hx
        exact ⟨lookup_false m _ (hxs x hx).1, (hxs x hx).2⟩
      have hq := Sensor.C05_zero_coverage_is_quiet (sensorCfg w inp n m c o.req.site) m c.mdl o.req.site _ hzc
      exact ⟨hq.2.1, hq.2.2⟩

theorem surveyAll_zero (w : World) (inp : Inputs) (hz : ∀ n m e, inp.spatial n m e = false) (n m : Nat)
    (c : MethodCfg) (ss : List Emission.State) (lt : Nat → Int) (covs : List Cov) (dd : Crew.DaySt) (h1 : CovFalse covs) :
    CovFalse (surveyAll w inp n m c ss lt covs dd).1 ∧ ∀ d ∈ (surveyAll w inp n m c ss lt covs dd).2, QuietD d := by
  unfold surveyAll
  have key : ∀ (os : List Crew.OutRec) (acc : List Cov × List Done),
      CovFalse acc.1 → (∀ d ∈ acc.2, QuietD d) →
      CovFalse (os.foldl (surveyOne w inp n m c ss lt) acc).1 ∧
        ∀ d ∈ (os.foldl (surveyOne w inp n m c ss lt) acc).2, QuietD d := by
    intro os
    induction os with
    | nil => intro acc h1 h2; exact ⟨h1, h2⟩
    | cons o os ih =>
      intro acc h1 h2
      simp only [List.foldl_cons]
      have := surveyOne_zero w inp hz n m c ss lt acc o h1 h2
      exact ih _ this.1 this.2
  exact key _ _ h1 (by intro d hd; cases hd)

theorem stepMethods_zero (w : World) (inp : Inputs) (hz : ∀ n m e, inp.spatial n m e = false) (n : Nat)
    (ss : List Emission.State) : ∀ (cs : List MethodCfg) (m0 : Nat) (acc : Acc),
    CovFalse acc.covs → (∀ t ∈ acc.traces, ∀ d ∈ t.dones, QuietD d) →
    CovFalse (stepMethods w inp n ss m0 cs acc).covs ∧
      ∀ t ∈ (stepMethods w inp n ss m0 cs acc).traces, ∀ d ∈ t.dones, QuietD d := by
  intro cs
  induction cs with
  | nil => intro m0 acc h1 h2; exact ⟨h1, h2⟩
  | cons c cs ih =>
    intro m0 acc h1 h2
    simp only [stepMethods]
    apply ih
    · exact (surveyAll_zero w inp hz n m0 c ss acc.latestTag acc.covs _ h1).1
    · intro t ht d hd
      simp only [methodStep, List.mem_append, List.mem_singleton] at ht
      rcases ht with ht | ht
      · exact h2 t ht d hd
      · subst ht
        exact (surveyAll_zero w inp hz n m0 c ss acc.latestTag acc.covs _ h1).2 d hd

theorem simState_covs_succ (w : World) (prog : Program) (inp : Inputs) (N : Nat) :
    (simState w prog inp (N + 1)).covs =
      (stepMethods w inp N (actStates w N (simState w prog inp N)) 0 prog
        { ms := (simState w prog inp N).ms, latestTag := (simState w prog inp N).latestTag,
          covs := (simState w prog inp N).covs }).covs := rfl

theorem covs_zero (w : World) (prog : Program) (inp : Inputs) (hz : ∀ n m e, inp.spatial n m e = false) (N : Nat) :
    CovFalse (simState w prog inp N).covs := by
  induction N with
  | zero =>
    intro c hc kb hkb
    have : (simState w prog inp 0).covs = w.ems.map (fun _ => ([] : Cov)) := rfl
    rw [this] at hc
    simp only [List.mem_map] at hc
    obtain ⟨_, _, rfl⟩ := hc
    cases hkb
  | succ n ih =>
    rw [simState_covs_succ]
    exact (stepMethods_zero w inp hz n _ prog 0 _ ih (by intro t ht; cases ht)).1

/-- with every spatial roll 0, no survey of the run sends anything to any emission -/
theorem zero_events (w : World) (prog : Program) (inp : Inputs) (hz : ∀ n m e, inp.spatial n m e = false)
    (info : EmInfo) (n : Nat) : evTrace w prog inp info n = [] := by
  unfold evTrace evsOf
  rw [List.flatMap_eq_nil_iff]
  intro d hd
  unfold dayDones at hd
  obtain ⟨t, ht, hdt⟩ := List.mem_flatMap.1 hd
  have := (stepMethods_zero w inp hz n (actStates w n (simState w prog inp n)) prog 0
    { ms := (simState w prog inp n).ms, latestTag := (simState w prog inp n).latestTag,
      covs := (simState w prog inp n).covs } (covs_zero w prog inp hz n) (by intro t ht; cases ht)).2 t ht d hdt
  unfold evOfDone
  rw [this.1, this.2]
  simp

theorem srcs_indep (w : World) (prog : Program) (inp : Inputs) (N : Nat) :
    (simState w prog inp N).srcs = (simState w [] inp N).srcs := by
  induction N with
  | zero => rfl
  | succ n ih =>
    have e : ∀ pr : Program, (simState w pr inp (n + 1)).srcs =
        ((simState w pr inp n).srcs.map (Heap.activateSrc (n : Int))).map (·.2) := fun _ => rfl
    rw [e, e, ih]

theorem finishEm_nil (n : Nat) (dones : List Done) (info : EmInfo) (s : Emission.State)
    (h : evsOf info dones = []) : finishEm n dones info s = finishEm n [] info s := by
  unfold finishEm
  rw [h]
  rfl

/-- **(e) a method never acts on what it cannot see, whole-simulation form (C05 / C01).**  If every
spatial coverage roll of a run is 0, then — for every world, every program, every other input and
every horizon — the emission states, the emission records and the emission columns of every
timeseries row are those of the program without methods. -/
theorem sim_zero_coverage (w : World) (prog : Program) (inp : Inputs)
    (hz : ∀ n m e, inp.spatial n m e = false) :
    (∀ N, (simState w prog inp N).ss = (simState w [] inp N).ss) ∧
    (∀ N, records w N (simState w prog inp N) = records w N (simState w [] inp N)) ∧
    (∀ n, (simRow w prog inp n).em = (simRow w [] inp n).em) ∧
    (∀ n, (simRow w prog inp n).cost.repCost = (simRow w [] inp n).cost.repCost ∧
          (simRow w prog inp n).cost.natRepCost = (simRow w [] inp n).cost.natRepCost) := by
  have hnew : ∀ N, newIdsOn w prog inp N = newIdsOn w [] inp N := by
    intro N; unfold newIdsOn; rw [srcs_indep]
  have hfin : ∀ n, finishEm n (dayDones w prog inp n) = finishEm n (dayDones w [] inp n) := by
    intro n
    funext info s
    rw [finishEm_nil n _ info s (zero_events w prog inp hz info n),
        finishEm_nil n _ info s (zero_events w [] inp hz info n)]
  have hss : ∀ N, (simState w prog inp N).ss = (simState w [] inp N).ss := by
    intro N
    induction N with
    | zero => rfl
    | succ n ih => rw [simState_ss_succ, simState_ss_succ, ih, hnew, hfin]
  have hdays : ∀ n, (simDayOut w prog inp n (simState w prog inp n)).days =
      (simDayOut w [] inp n (simState w [] inp n)).days := by
    intro n
    have e : ∀ pr : Program, (simDayOut w pr inp n (simState w pr inp n)).days =
        List.zipWith (finishEm n (dayDones w pr inp n)) w.ems
          (List.zipWith (activateS n (newIdsOn w pr inp n)) w.ems (simState w pr inp n).ss) := fun _ => rfl
    rw [e, e, hss, hnew, hfin]
  refine ⟨hss, ?_, ?_, ?_⟩
  · intro N; unfold records; rw [hss]
  · intro n
    have e : ∀ pr : Program, (simRow w pr inp n).em =
        emRow ((newIdsOn w pr inp n).length : Nat) (simDayOut w pr inp n (simState w pr inp n)).days := fun _ => rfl
    rw [e, e, hdays, hnew]
  · intro n
    have e1 : ∀ pr : Program, (simRow w pr inp n).cost.repCost =
        repSumOf inp (simDayOut w pr inp n (simState w pr inp n)).days := fun _ => rfl
    have e2 : ∀ pr : Program, (simRow w pr inp n).cost.natRepCost =
        natSumOf inp (simDayOut w pr inp n (simState w pr inp n)).days := fun _ => rfl
    rw [e1, e1, e2, e2, hdays]
    exact ⟨rfl, rfl⟩


/-! ### (f) requests are issued only in deployment years and months -/

/-- **(f)** every request a method's planners issue on a day of `simRun` is issued for a site of that
method in one of the site's deployment years and deployment months (the calendar date of the day is the
input `inp.date`).  (That such a request may be *served* later, outside the month, is C06's finding
F12; the statement here is about the day of issue.) -/
theorem sim_issued_in_months (w : World) (prog : Program) (inp : Inputs) (n : Nat) :
    ∀ t ∈ dayTraces w prog inp n, ∀ i ∈ t.issued,
      prog[t.m]? = some t.cfg ∧ i ∈ t.cfg.sites ∧
      (inp.date n).y ∈ (t.cfg.P i).depYears ∧ (inp.date n).m ∈ (t.cfg.P i).months := by
  intro t ht i hi
  obtain ⟨hprog, _, _, _, hiss, _⟩ := day_traces w prog inp n _ t ht
  exact ⟨hprog, hiss i hi⟩

/-! ### (d) the cost columns -/

theorem first_eq (n : Nat) : decide (n = 0) = (n == 0) := by cases n <;> rfl

/-- the per-method columns of the row are those of the day's traces, in program order -/
theorem row_meth (w : World) (prog : Program) (inp : Inputs) (n : Nat) :
    (simRow w prog inp n).meth = (dayTraces w prog inp n).map colsOf := rfl

/-- the cost block of the row is `Cost.dailyRow` of the methods' cost data and the repair-cost totals -/
theorem row_cost (w : World) (prog : Program) (inp : Inputs) (n : Nat) :
    (simRow w prog inp n).cost =
      Cost.dailyRow (n == 0) (methodDays (simRow w prog inp n).meth)
        (simRow w prog inp n).cost.repCost (simRow w prog inp n).cost.natRepCost := by
  have e : (simRow w prog inp n).cost =
      Cost.dailyRow (decide (n = 0)) (methodDays (simRow w prog inp n).meth)
        (repSumOf inp (simDayOut w prog inp n (simState w prog inp n)).days)
        (natSumOf inp (simDayOut w prog inp n (simState w prog inp n)).days) := rfl
  rw [e, first_eq]
  rfl

/-- **(d) C10's row identity in the integrated simulation**: on every day, "Daily Cost" = Σ over the
program's methods of (deployment cost + upfront cost on the first day) + the day's repair cost
= the sum of the per-method cost columns + the day's repair cost; the natural-repair cost is reported
separately and is not part of it; the per-method column shows deployment cost (+ upfront on day 0). -/
theorem sim_cost_identity (w : World) (prog : Program) (inp : Inputs) (n : Nat) :
    (simRow w prog inp n).cost.cost
        = ((simRow w prog inp n).meth.map (fun c => c.cost + if n = 0 then c.upfront else 0)).sum
          + (simRow w prog inp n).cost.repCost ∧
    (simRow w prog inp n).cost.cost
        = (simRow w prog inp n).cost.methodCols.sum + (simRow w prog inp n).cost.repCost ∧
    (simRow w prog inp n).cost.methodCols
        = (simRow w prog inp n).meth.map (fun c => if n = 0 then c.cost + c.upfront else c.cost) := by
  have h := Cost.row_identity (n == 0) (methodDays (simRow w prog inp n).meth)
    (simRow w prog inp n).cost.repCost (simRow w prog inp n).cost.natRepCost
  rw [← row_cost] at h
  refine ⟨?_, h.2.1, ?_⟩
  · rw [h.1]
    congr 1
    unfold methodDays
    rw [List.map_map]
    congr 1
    apply List.map_congr_left
    intro c _
    cases n <;> simp
  · rw [row_cost]
    unfold Cost.dailyRow methodDays
    simp only [List.map_map]
    apply List.map_congr_left
    intro c _
    cases n <;> simp

/-- every method's deployment cost of the day is `Cost.methodDay` of the method's own plan of the day:
C10's `per_site_once` / `per_day_once` / `upfront_amount` speak about exactly this number -/
theorem sim_method_cost (w : World) (prog : Program) (inp : Inputs) (n : Nat) :
    ∀ t ∈ dayTraces w prog inp n,
      prog[t.m]? = some t.cfg ∧
      (colsOf t).cost = (Cost.methodDay t.cfg.cost t.cfg.stationary t.cfg.considerWeather env0
                          (budgetMin t.cfg (inp.daylightMin n)) t.cfg.crews t.reqs).deploy ∧
      (colsOf t).upfront = (Cost.methodDay t.cfg.cost t.cfg.stationary t.cfg.considerWeather env0
                          (budgetMin t.cfg (inp.daylightMin n)) t.cfg.crews t.reqs).upfront := by
  intro t ht
  obtain ⟨hprog, hdd, _, _, _, _⟩ := day_traces w prog inp n _ t ht
  refine ⟨hprog, ?_, rfl⟩
  unfold colsOf
  simp only
  rw [hdd]
  rfl

/-- a per-site method is charged, on every day of the run, the survey cost of exactly the sites whose
survey its crews completed that day (C10 `per_site_once` instantiated at the integrated simulation) -/
theorem sim_per_site_once (w : World) (prog : Program) (inp : Inputs) (n : Nat) :
    ∀ t ∈ dayTraces w prog inp n, (methodP t.cfg).perSite = true →
      (colsOf t).cost = (((t.dd.out.filter (fun o => o.rep.complete)).map
          (fun o => Crew.siteCharge (methodP t.cfg) o.req)).sum) := by
  intro t ht hp
  obtain ⟨_, hdd, _, _, _, _⟩ := day_traces w prog inp n _ t ht
  unfold colsOf
  simp only
  rw [hdd]
  exact Cost.per_site_once (methodP t.cfg) _ _ _ hp


/-! ### (d, continued) repair costs: the row is `Cost.programDay`, every repair is charged once -/

/-- the repairable emissions of the scenario as C10's leaks: parameters, the repair cost drawn for the
emission, and the tag requests the simulation sends to it -/
def leaksOf (w : World) (prog : Program) (inp : Inputs) : List Cost.Leak :=
  (w.ems.filter (fun info => info.p.repairable)).map (fun info =>
    { p := info.p, cost := inp.repairCost info.idx,
      ev := fun d => Emission.tagsOf (evTrace w prog inp info d) })

theorem bookOnUpdate_tproj (p : Emission.Params) (c : Int) (s s' : Emission.State)
    (h : Emission.tproj s = Emission.tproj s') : Cost.bookOnUpdate p c s = Cost.bookOnUpdate p c s' := by
  rw [Emission.tproj_eq_iff] at h
  obtain ⟨h1, h2, h3, h4, h5, _⟩ := h
  unfold Cost.bookOnUpdate
  simp only [h1, h2, h3, h4, h5]

theorem book_eq (w : World) (prog : Program) (inp : Inputs) (info : EmInfo) (c : Int) (n : Nat) :
    Cost.bookOnUpdate info.p c (World.mid (emOf w prog inp info) n) =
      Cost.bookDay info.p c (fun d => Emission.tagsOf (evTrace w prog inp info d)) n := by
  unfold Cost.bookDay World.mid
  apply bookOnUpdate_tproj
  apply Emission.events_tproj
  apply Emission.activate_tproj
  exact Emission.runE_tproj _ _ _

theorem bookOnUpdate_nonrep (p : Emission.Params) (c : Int) (s : Emission.State) (h : p.repairable = false) :
    Cost.bookOnUpdate p c s = (0, 0) := by
  unfold Cost.bookOnUpdate
  simp [h]

theorem sum_filter_zero {α} (l : List α) (q : α → Bool) (f : α → Int) (h : ∀ a ∈ l, q a = false → f a = 0) :
    (l.map f).sum = ((l.filter q).map f).sum := by
  induction l with
  | nil => rfl
  | cons a l ih =>
    have ih' := ih (fun b hb => h b (List.mem_cons_of_mem _ hb))
    cases hq : q a
    · simp [List.filter_cons, hq, h a (List.mem_cons_self ..) hq, ih']
    · simp [List.filter_cons, hq, ih']

/-- **the cost block of every row of the integrated simulation is C10's `Cost.programDay`** of the
methods' daily cost data and the scenario's repairable emissions, in a well-formed scenario -/
theorem sim_cost_program (w : World) (prog : Program) (inp : Inputs) (hw : WF w) (n : Nat) :
    (simRow w prog inp n).cost =
      Cost.programDay (fun k => methodDays (simRow w prog inp k).meth) (leaksOf w prog inp) n := by
  rw [row_cost]
  unfold Cost.programDay
  have e1 : (simRow w prog inp n).cost.repCost =
      repSumOf inp (simDayOut w prog inp n (simState w prog inp n)).days := rfl
  have e2 : (simRow w prog inp n).cost.natRepCost =
      natSumOf inp (simDayOut w prog inp n (simState w prog inp n)).days := rfl
  have h1 : (simRow w prog inp n).cost.repCost = Cost.repSum (leaksOf w prog inp) n := by
    rw [e1, days_eq w prog inp hw n]
    unfold repSumOf Cost.repSum leaksOf
    simp only [List.map_map]
    rw [sum_filter_zero w.ems (fun info => info.p.repairable)]
    · congr 1
      apply List.map_congr_left
      intro info _
      simp only [Function.comp]
      rw [book_eq]
    · intro info _ hq
      simp only [Function.comp]
      rw [bookOnUpdate_nonrep _ _ _ hq]
  have h2 : (simRow w prog inp n).cost.natRepCost = Cost.natSum (leaksOf w prog inp) n := by
    rw [e2, days_eq w prog inp hw n]
    unfold natSumOf Cost.natSum leaksOf
    simp only [List.map_map]
    rw [sum_filter_zero w.ems (fun info => info.p.repairable)]
    · congr 1
      apply List.map_congr_left
      intro info _
      simp only [Function.comp]
      rw [book_eq]
    · intro info _ hq
      simp only [Function.comp]
      rw [bookOnUpdate_nonrep _ _ _ hq]
  rw [h1, h2]

/-- **every program repair is charged exactly once** (C10 `program_repairs_once` at the integrated
simulation): over a run of `N` days the "Daily Repair Cost" column adds up to the drawn repair costs
of exactly the emissions the program repaired, the natural-repair column to those that ended naturally -/
theorem sim_repairs_once (w : World) (prog : Program) (inp : Inputs) (hw : WF w) (N : Nat) :
    Cost.sumTo (fun n => (simRow w prog inp n).cost.repCost) N
      = ((leaksOf w prog inp).map (fun e =>
          if (Emission.run e.p e.ev N).status = .repaired ∧ (Emission.run e.p e.ev N).by_ ≠ .natural
          then e.cost else 0)).sum ∧
    Cost.sumTo (fun n => (simRow w prog inp n).cost.natRepCost) N
      = ((leaksOf w prog inp).map (fun e =>
          if (Emission.run e.p e.ev N).status = .repaired ∧ (Emission.run e.p e.ev N).by_ = .natural
          then e.cost else 0)).sum := by
  have hr : ∀ e ∈ leaksOf w prog inp, e.p.repairable = true := by
    intro e he
    unfold leaksOf at he
    simp only [List.mem_map, List.mem_filter] at he
    obtain ⟨info, ⟨_, hrep⟩, rfl⟩ := he
    exact hrep
  have h := Cost.program_repairs_once (fun k => methodDays (simRow w prog inp k).meth) (leaksOf w prog inp) N hr
  have e : ∀ n, (simRow w prog inp n).cost =
      Cost.programDay (fun k => methodDays (simRow w prog inp k).meth) (leaksOf w prog inp) n :=
    fun n => sim_cost_program w prog inp hw n
  simp only [e]
  exact ⟨h.2.1, h.2.2⟩


/-! ### C08 in the integrated simulation: crews, weather, one report per planned request -/

theorem workable_wxOf (c : MethodCfg) (b : Bool) (r : Crew.Req) (h : r.wx = wxOf b) :
    Crew.workable (methodP c) r = (!c.considerWeather || b) := by
  unfold Crew.workable methodP Cost.methodP
  simp only [h]
  cases b <;> simp [Crew.checkWeather, wxOf, env0]

/-- **weather (C08) in the integrated simulation**: whenever a crew of a method that considers the
weather visits a site on a day of `simRun`, the weather check of that (day, method, site) — the
input `inp.workable` — succeeded; and every planned request of every method gets exactly one crew
record, in plan order, built from the day's inputs of its own (method, site). -/
theorem sim_weather (w : World) (prog : Program) (inp : Inputs) (n : Nat) :
    ∀ t ∈ dayTraces w prog inp n,
      t.dd.out.map (·.req) = t.reqs ∧ t.reqs.map (·.site) = t.keys ∧
      ∀ o ∈ t.dd.out, ∀ s, o.step = some s → s.visited = true →
        t.cfg.considerWeather = true → inp.workable n t.m o.req.site = true := by
  intro t ht
  obtain ⟨_, hdd, _, _, _, hkeys, hreqs⟩ := day_traces w prog inp n _ t ht
  have hone : t.dd.out.map (·.req) = t.reqs := by
    rw [hdd]; exact Crew.one_report_per_request _ _ _ _
  refine ⟨hone, hkeys, ?_⟩
  intro o ho s hs hv hcw
  have hmem : o.req ∈ t.reqs := by rw [← hone]; exact List.mem_map.2 ⟨o, ho, rfl⟩
  have hwx := (hreqs o.req hmem).2.2.2
  rw [hdd] at ho
  have := (Crew.weather_visited _ _ _ _ o ho s hs hv).1
  rw [workable_wxOf t.cfg _ o.req hwx, hcw] at this
  simpa using this

/-- **crew budget (C08) in the integrated simulation**: on every day, for every method, if the planned
requests are admissible (`Crew.ReqOk`: travel time ≥ 0, minutes surveyed so far within the survey time,
not yet complete) then no crew's minutes — travel, survey and the trip home — exceed the budget of the
day, which is the work day capped by daylight when the method considers daylight. -/
theorem sim_day_budget (w : World) (prog : Program) (inp : Inputs) (n : Nat) :
    ∀ t ∈ dayTraces w prog inp n, 0 ≤ t.cfg.workdayH → 0 ≤ inp.daylightMin n →
      (∀ r ∈ t.reqs, Crew.ReqOk (methodP t.cfg) r) →
      t.budget ≤ t.cfg.workdayH * 60 ∧ (t.cfg.considerDaylight = true → t.budget ≤ inp.daylightMin n) ∧
      ∀ c ∈ t.dd.crews, Crew.crewMinutes c.id t.dd.out + Crew.crewHome c.id t.dd.out ≤ t.budget := by
  intro t ht hw hd hreq
  obtain ⟨_, hdd, hb, _, _, _⟩ := day_traces w prog inp n _ t ht
  have hb0 : 0 ≤ budgetMin t.cfg (inp.daylightMin n) := by unfold budgetMin; split <;> (try split) <;> omega
  refine ⟨?_, ?_, ?_⟩
  · rw [hb]; unfold budgetMin; split <;> (try split) <;> omega
  · intro hcd; rw [hb]; unfold budgetMin; simp only [hcd, if_true]; split <;> omega
  · rw [hdd, hb]
    exact Crew.day_budget (methodP t.cfg) _ hb0 (nCrews t.cfg) t.reqs hreq

/-! ### the schedules of the integrated simulation are `Sched.runDays` states (C06 / C07 apply) -/

theorem getD_set (l : List MethSt) (i j : Nat) (a : MethSt) :
    (l.set i a).getD j {} = if i = j ∧ i < l.length then a else l.getD j {} := by
  simp only [List.getD_eq_getElem?_getD, List.getElem?_set]
  by_cases h : i = j
  · subst h
    by_cases hl : i < l.length
    · simp [hl]
    · simp [hl]
  · simp [h]

theorem ownUpdate_eq (c : MethodCfg) (inp : Inputs) (n : Nat) (pd : PlanDay) (s : Sched.State) :
    ∃ out, ownUpdate c inp n pd s = Sched.scheduleDay (schedCfg c) { date := inp.date n, out := out } s :=
  ⟨fun i => match outOf pd.dd i with | some o => outcomeOf o | none => .untouched, by
    unfold ownUpdate; simp only [lookupD_tabulate]; rfl⟩

theorem postStep_length (c : MethodCfg) (inp : Inputs) (n m : Nat) (ms : List MethSt) (lt : Nat → Int)
    (pd : PlanDay) (dones : List Done) : (postStep c inp n m ms lt pd dones).ms.length = ms.length := by
  unfold postStep
  split <;> simp

theorem postStep_sched (c : MethodCfg) (inp : Inputs) (n k : Nat) (ms : List MethSt) (lt : Nat → Int)
    (pd : PlanDay) (dones : List Done) (m : Nat) (hk : k < ms.length) :
    ((postStep c inp n k ms lt pd dones).ms.getD m {}).sched =
      if k = m ∧ c.role ≠ .followUp then ownUpdate c inp n pd (ms.getD k {}).sched
      else (ms.getD m {}).sched := by
  unfold postStep
  split
  · rename_i hr
    simp only [getD_set, hr]
    by_cases h : k = m
    · subst h; simp [hk]
    · simp [h]
  · rename_i fu hr
    simp only [getD_set, List.length_set, hr]
    by_cases h1 : k = m
    · subst h1
      by_cases h5 : fu = k
      · subst h5; simp [hk]
      · simp [hk, h5]
    · by_cases h3 : fu = m
      · subst h3
        by_cases h4 : fu < ms.length
        · simp [h1, hk, h4]
        · simp [h1, hk, h4]
      · simp [h1, h3]
  · rename_i hr
    simp only [getD_set, hr]
    by_cases h : k = m
    · subst h; simp [hk]
    · simp [h]

theorem methodStep_ms (w : World) (inp : Inputs) (n : Nat) (ss : List Emission.State) (acc : Acc) (k : Nat)
    (c : MethodCfg) :
    (methodStep w inp n ss acc k c).ms =
      (postStep c inp n k acc.ms acc.latestTag (planDay c inp n k (acc.ms.getD k {}) acc.latestTag)
        (surveyAll w inp n k c ss acc.latestTag acc.covs (planDay c inp n k (acc.ms.getD k {}) acc.latestTag).dd).2).ms := rfl

/-- through the methods loop of one day, the schedule of the method at position `m` is touched only
by that method's own step, which is one `Sched.scheduleDay` with the day's calendar date -/
theorem stepMethods_sched (w : World) (inp : Inputs) (n : Nat) (ss : List Emission.State) (m : Nat) :
    ∀ (cs : List MethodCfg) (m0 : Nat) (acc : Acc), m0 + cs.length ≤ acc.ms.length →
      (stepMethods w inp n ss m0 cs acc).ms.length = acc.ms.length ∧
      (match cs[m - m0]? with
       | some c =>
         if m0 ≤ m ∧ c.role ≠ .followUp then
           ∃ out, ((stepMethods w inp n ss m0 cs acc).ms.getD m {}).sched =
             Sched.scheduleDay (schedCfg c) { date := inp.date n, out := out } (acc.ms.getD m {}).sched
         else ((stepMethods w inp n ss m0 cs acc).ms.getD m {}).sched = (acc.ms.getD m {}).sched
       | none => ((stepMethods w inp n ss m0 cs acc).ms.getD m {}).sched = (acc.ms.getD m {}).sched) := by
  intro cs
  induction cs with
  | nil => intro m0 acc _; exact ⟨rfl, by simp [stepMethods]⟩
  | cons c cs ih =>
    intro m0 acc hlen
    simp only [List.length_cons] at hlen
    have hk : m0 < acc.ms.length := by omega
    have hl1 : (methodStep w inp n ss acc m0 c).ms.length = acc.ms.length := by
      rw [methodStep_ms]; exact postStep_length ..
    have hs1 := fun m' => postStep_sched c inp n m0 acc.ms acc.latestTag
      (planDay c inp n m0 (acc.ms.getD m0 {}) acc.latestTag)
      (surveyAll w inp n m0 c ss acc.latestTag acc.covs (planDay c inp n m0 (acc.ms.getD m0 {}) acc.latestTag).dd).2 m' hk
    obtain ⟨ihl, ihs⟩ := ih (m0 + 1) (methodStep w inp n ss acc m0 c) (by rw [hl1]; omega)
    simp only [stepMethods]
    refine ⟨by rw [ihl, hl1], ?_⟩
    by_cases hlt : m < m0
    · -- before the range: nothing touches it
      have e0 : m - m0 = 0 := by omega
      have e1 : m - (m0 + 1) = 0 := by omega
      rw [e1] at ihs
      have hnot : ¬ (m0 + 1 ≤ m) := by omega
      have h1 : ((methodStep w inp n ss acc m0 c).ms.getD m {}).sched = (acc.ms.getD m {}).sched := by
        rw [methodStep_ms, hs1 m]; simp; intro h; omega
      rw [e0]
      simp only [List.getElem?_cons_zero]
      have hnot0 : ¬ (m0 ≤ m) := by omega
      simp only [hnot0, false_and, if_false]
      cases hcs : cs[0]? with
      | none => rw [hcs] at ihs; simp only at ihs; rw [ihs, h1]
      | some c' => rw [hcs] at ihs; simp only [hnot, false_and, if_false] at ihs; rw [ihs, h1]
    · by_cases heq : m = m0
      · subst heq
        have e0 : m - m = 0 := by omega
        have e1 : m - (m + 1) = 0 := by omega
        rw [e1] at ihs
        have hnot : ¬ (m + 1 ≤ m) := by omega
        have hrest : ((stepMethods w inp n ss (m + 1) cs (methodStep w inp n ss acc m c)).ms.getD m {}).sched =
            ((methodStep w inp n ss acc m c).ms.getD m {}).sched := by
          cases hcs : cs[0]? with
          | none => rw [hcs] at ihs; exact ihs
          | some c' => rw [hcs] at ihs; simp only [hnot, false_and, if_false] at ihs; exact ihs
        rw [e0]
        simp only [List.getElem?_cons_zero]
        rw [hrest, methodStep_ms, hs1 m]
        by_cases hr : c.role = .followUp
        · simp [hr]
        · have hr' : c.role ≠ .followUp := hr
          rw [if_pos (⟨Nat.le_refl m, hr'⟩ : m ≤ m ∧ c.role ≠ .followUp),
              if_pos (⟨rfl, hr'⟩ : m = m ∧ c.role ≠ .followUp)]
          exact ownUpdate_eq ..
      · -- after position m0: the first step leaves it alone, the rest by induction
        have hgt : m0 + 1 ≤ m := by omega
        have e : m - m0 = (m - (m0 + 1)) + 1 := by omega
        have h1 : ((methodStep w inp n ss acc m0 c).ms.getD m {}).sched = (acc.ms.getD m {}).sched := by
          rw [methodStep_ms, hs1 m]; simp; intro h; omega
        rw [e]
        simp only [List.getElem?_cons_succ]
        have hle : m0 ≤ m := by omega
        cases hcs : cs[m - (m0 + 1)]? with
        | none => rw [hcs] at ihs; simp only at ihs ⊢; rw [ihs, h1]
        | some c' =>
          rw [hcs] at ihs
          simp only [hgt, hle, true_and] at ihs ⊢
          rw [h1] at ihs
          exact ihs

theorem ms_length (w : World) (prog : Program) (inp : Inputs) (N : Nat) :
    (simState w prog inp N).ms.length = prog.length := by
  induction N with
  | zero => simp [simState, init]
  | succ n ih =>
    have e : (simState w prog inp (n + 1)).ms =
        (stepMethods w inp n (actStates w n (simState w prog inp n)) 0 prog
          { ms := (simState w prog inp n).ms, latestTag := (simState w prog inp n).latestTag,
            covs := (simState w prog inp n).covs }).ms := rfl
    rw [e, (stepMethods_sched w inp n _ 0 prog 0 _ (by simp [ih])).1]
    exact ih

/-- **the schedule of every routine / screening method of the integrated simulation is a
`Sched.runDays` state**: after `N` simulated days it is the result of `N` scheduled days of the
component model (`Sched.scheduleDay`) carrying the calendar dates of the run, for some crew outcomes.
Every theorem of C06 / C07 that holds for all day lists (`done_le_required_partial`, `C07_routine_classes`,
`no_duplicates`, `priority`, `minutes_add_up`, …) therefore holds of the integrated simulation. -/
theorem sim_sched_runDays (w : World) (prog : Program) (inp : Inputs) (m : Nat) (c : MethodCfg)
    (hc : prog[m]? = some c) (hr : c.role ≠ .followUp) (N : Nat) :
    ∃ ds : List Sched.DayIn, ds.map (·.date) = (List.range N).map inp.date ∧
      ((simState w prog inp N).ms.getD m {}).sched = Sched.runDays (schedCfg c) ds := by
  induction N with
  | zero =>
    refine ⟨[], rfl, ?_⟩
    have hm : m < prog.length := by
      rcases List.getElem?_eq_some_iff.1 hc with ⟨h, _⟩; exact h
    simp [simState, init, Sched.runDays, List.getD_eq_getElem?_getD, hm]
    rfl
  | succ n ih =>
    obtain ⟨ds, hdates, hs⟩ := ih
    have e : (simState w prog inp (n + 1)).ms =
        (stepMethods w inp n (actStates w n (simState w prog inp n)) 0 prog
          { ms := (simState w prog inp n).ms, latestTag := (simState w prog inp n).latestTag,
            covs := (simState w prog inp n).covs }).ms := rfl
    have h := (stepMethods_sched w inp n (actStates w n (simState w prog inp n)) m prog 0
      { ms := (simState w prog inp n).ms, latestTag := (simState w prog inp n).latestTag,
        covs := (simState w prog inp n).covs } (by simp [ms_length])).2
    simp only [Nat.sub_zero, hc] at h
    rw [if_pos (⟨Nat.zero_le m, hr⟩ : 0 ≤ m ∧ c.role ≠ .followUp)] at h
    obtain ⟨out, hout⟩ := h
    refine ⟨ds ++ [{ date := inp.date n, out := out }], ?_, ?_⟩
    · simp [List.range_succ, hdates]
    · rw [e, hout, hs]
      simp [Sched.runDays, List.foldl_append]

/-! ### C08 unconditionally: the schedule → crews → schedule loop keeps every planned request admissible -/

/-- an unfinished report carried by a routine / stationary planner is admissible for the next visit -/
def SRepOK (c : MethodCfg) (i : Nat) : Option Sched.Report → Prop
  | none => True
  | some r => r.complete = false ∧ 0 ≤ r.surveyed ∧ r.surveyed ≤ c.S i ∧ (c.stationary = true → r.surveyed = 0)

def CRepOK (c : MethodCfg) (i : Nat) (r : Crew.Report) : Prop :=
  r.complete = false ∧ 0 ≤ r.surveyed ∧ r.surveyed ≤ c.S i ∧ (c.stationary = true → r.surveyed = 0)

def Kpos (c : MethodCfg) (me : MethSt) : Prop :=
  (∀ i, SRepOK c i (me.sched.pl i).rep) ∧ (∀ i, CRepOK c i (me.rep i))

theorem requestPhase_rep (sc : Sched.Cfg) (dt : Sched.Date) (s : Sched.State) (i : Nat) :
    ((Sched.requestPhase sc dt s).pl i).rep = (s.pl i).rep := by
  unfold Sched.requestPhase
  simp only
  split <;> rfl

theorem crepOK_of_srep (c : MethodCfg) (i : Nat) (hS : 0 ≤ c.S i) (r : Option Sched.Report) (h : SRepOK c i r) :
    CRepOK c i (toCrewRep (r.getD {})) := by
  cases r with
  | none => exact ⟨rfl, Int.le_refl 0, hS, fun _ => rfl⟩
  | some r => exact h

theorem planDay_reqOk (c : MethodCfg) (inp : Inputs) (n m : Nat) (me : MethSt) (lt : Nat → Int)
    (hS : ∀ i, 0 ≤ c.S i) (hT : ∀ i, 0 ≤ inp.travel n m i) (hK : Kpos c me) :
    ∀ r ∈ (planDay c inp n m me lt).reqs, Crew.ReqOk (methodP c) r := by
  intro r hr
  unfold planDay at hr
  split at hr
  · simp only [List.mem_map] at hr
    obtain ⟨pl, _, rfl⟩ := hr
    have : CRepOK c pl.site (if pl.inProg then me.rep pl.site else {}) := by
      split
      · exact hK.2 pl.site
      · exact ⟨rfl, Int.le_refl 0, hS pl.site, fun _ => rfl⟩
    exact ⟨hT pl.site, this.2.1, this.2.2.1, this.2.2.2, this.1⟩
  · simp only [List.mem_map] at hr
    obtain ⟨i, _, rfl⟩ := hr
    have h0 := hK.1 i
    rw [← requestPhase_rep (schedCfg c) (inp.date n) me.sched i] at h0
    have := crepOK_of_srep c i (hS i) _ h0
    exact ⟨hT i, this.2.1, this.2.2.1, this.2.2.2, this.1⟩



theorem partial_surveyed (R S T P : Int) (st w : Bool)
    (h : (Crew.surveyStep R S T P st w).branch = .partial_) :
    (Crew.surveyStep R S T P st w).surveyed = P + (Crew.surveyStep R S T P st w).today := by
  unfold Crew.surveyStep at *
  grind

theorem outOf_some (dd : Crew.DaySt) (i : Nat) (o : Crew.OutRec) (h : outOf dd i = some o) :
    o ∈ dd.out ∧ o.req.site = i := by
  unfold outOf at h
  exact ⟨List.mem_of_find?_eq_some h, by simpa using List.find?_some h⟩

theorem planDay_own (c : MethodCfg) (inp : Inputs) (n m : Nat) (me : MethSt) (lt : Nat → Int)
    (hrole : c.role ≠ .followUp) :
    (planDay c inp n m me lt).keys =
      (Sched.dayTrace (schedCfg c) { date := inp.date n, out := fun _ => .untouched } me.sched).keys ∧
    (planDay c inp n m me lt).reqs = (planDay c inp n m me lt).keys.map
      (mkReq c inp n m (fun i => toCrewRep (((Sched.requestPhase (schedCfg c) (inp.date n) me.sched).pl i).rep.getD {}))) := by
  unfold planDay
  split
  · rename_i h; exact absurd h hrole
  · exact ⟨rfl, rfl⟩

theorem ownUpdate_K (c : MethodCfg) (inp : Inputs) (n m : Nat) (me : MethSt) (lt : Nat → Int)
    (hrole : c.role ≠ .followUp) (hS : ∀ i, 0 ≤ c.S i) (hT : ∀ i, 0 ≤ inp.travel n m i)
    (hB : 0 ≤ budgetMin c (inp.daylightMin n)) (hK : Kpos c me) :
    ∀ i, SRepOK c i ((ownUpdate c inp n (planDay c inp n m me lt) me.sched).pl i).rep := by
  intro i
  have hreq := planDay_reqOk c inp n m me lt hS hT hK
  obtain ⟨hkeys, hreqs⟩ := planDay_own c inp n m me lt hrole
  have hdd := planDay_dd c inp n m me lt
  generalize planDay c inp n m me lt = pd at *
  -- the planner of site `i` before deployment
  have h0 : SRepOK c i ((Sched.requestPhase (schedCfg c) (inp.date n) me.sched).pl i).rep := by
    rw [requestPhase_rep]; exact hK.1 i
  unfold ownUpdate
  simp only [lookupD_tabulate]
  simp only [Sched.scheduleDay, Sched.dayTrace]
  by_cases hi : i ∈ Sched.dictKeys (List.map (fun x => x.site)
      ((Sched.requestPhase (schedCfg c) (inp.date n) me.sched).q.takeN
        (Sched.takeCount (schedCfg c) (Sched.requestPhase (schedCfg c) (inp.date n) me.sched).q)).1)
  · simp only [hi, true_and, if_true]
    obtain ⟨ps, hps⟩ : ∃ ps, ps = (Sched.requestPhase (schedCfg c) (inp.date n) me.sched).pl i := ⟨_, rfl⟩
    rw [← hps] at h0 ⊢
    -- the report the crews are handed
    have hr0 : (ps.rep.getD {}).complete = false ∧ SRepOK c i (some (ps.rep.getD {})) := by
      cases hps : ps.rep with
      | none => exact ⟨rfl, rfl, Int.le_refl 0, hS i, fun _ => rfl⟩
      | some r => rw [hps] at h0; exact ⟨h0.1, h0⟩
    have hunt : SRepOK c i
        (if Sched.isComplete (Sched.applyOutcome ((schedCfg c).P i) .untouched ps) = true then
          Sched.finish (inp.date n).y (Sched.applyOutcome ((schedCfg c).P i) .untouched ps)
         else Sched.applyOutcome ((schedCfg c).P i) .untouched ps).rep := by
      simp only [Sched.applyOutcome, Sched.isComplete, hr0.1]
      exact hr0.2
    cases hout : outOf pd.dd i with
    | none => simpa using hunt
    | some o =>
      simp only
      obtain ⟨homem, hosite⟩ := outOf_some pd.dd i o hout
      unfold outcomeOf
      by_cases hc : o.rep.complete = true
      · simp only [hc, if_true, Sched.applyOutcome, Sched.isComplete, Sched.finish]
        trivial
      · have hc' : o.rep.complete = false := by simpa using hc
        simp only [hc', Bool.false_eq_true, if_false]
        cases hst : o.step with
        | none => simpa using hunt
        | some st =>
          simp only
          by_cases hb : st.branch = .partial_
          · simp only [hb, if_true, Sched.applyOutcome, Sched.isComplete, hr0.1, Bool.false_eq_true, if_false]
            -- the crew record of the visit
            rw [hdd] at homem
            have hone : (deploy c inp n pd.reqs).out.map (·.req) = pd.reqs := Crew.one_report_per_request _ _ _ _
            have hmem : o.req ∈ pd.reqs := by rw [← hone]; exact List.mem_map.2 ⟨o, homem, rfl⟩
            rw [hreqs] at hmem
            obtain ⟨j, _, hj⟩ := List.mem_map.1 hmem
            have hji : j = i := by rw [← hosite, ← hj]; rfl
            subst hji
            have hrec := (Crew.deployDay_recOk _ _ _ _ o homem).1 st hst
            have hok := Crew.out_reqOk (methodP c) _ hB (nCrews c) pd.reqs hreq o homem hc'
            have hP : o.req.rep.surveyed = (ps.rep.getD {}).surveyed := by rw [← hj, hps]; rfl
            have hSj : o.req.S = c.S j := by rw [← hj]; rfl
            have hsur : o.rep.surveyed = (ps.rep.getD {}).surveyed + st.today := by
              rw [hrec.2.1]
              unfold Crew.applyStep
              simp only [hb]
              rw [hrec.1] at hb ⊢
              rw [partial_surveyed _ _ _ _ _ _ hb, hP]
            refine ⟨rfl, ?_, ?_, ?_⟩
            · show 0 ≤ (ps.rep.getD {}).surveyed + st.today
              rw [← hsur]; exact hok.hP
            · show (ps.rep.getD {}).surveyed + st.today ≤ c.S j
              rw [← hsur, ← hSj]; exact hok.hPS
            · intro hstat
              show (ps.rep.getD {}).surveyed + st.today = 0
              rw [← hsur]; exact hok.hSt hstat
          · simp only [hb, if_false]
            exact hunt
  · simp only [hi, false_and, if_false]
    exact h0



/-- the report table a follow-up method hands to the next day -/
def fuRepNext (pd : PlanDay) (me : MethSt) : Nat → Crew.Report := fun i =>
  match outOf pd.dd i with
  | some o => if o.rep.complete then {} else o.rep
  | none => me.rep i

theorem fuRep_K (c : MethodCfg) (inp : Inputs) (n m : Nat) (me : MethSt) (lt : Nat → Int)
    (hS : ∀ i, 0 ≤ c.S i) (hT : ∀ i, 0 ≤ inp.travel n m i)
    (hB : 0 ≤ budgetMin c (inp.daylightMin n)) (hK : Kpos c me) :
    ∀ i, CRepOK c i (fuRepNext (planDay c inp n m me lt) me i) := by
  intro i
  have hreq := planDay_reqOk c inp n m me lt hS hT hK
  have hdd := planDay_dd c inp n m me lt
  have hreqs := (planDay_reqs c inp n m me lt).2
  generalize planDay c inp n m me lt = pd at *
  unfold fuRepNext
  cases hout : outOf pd.dd i with
  | none => exact hK.2 i
  | some o =>
    simp only
    obtain ⟨homem, hosite⟩ := outOf_some pd.dd i o hout
    by_cases hc : o.rep.complete = true
    · simp only [hc, if_true]
      exact ⟨rfl, Int.le_refl 0, hS i, fun _ => rfl⟩
    · have hc' : o.rep.complete = false := by simpa using hc
      simp only [hc', Bool.false_eq_true, if_false]
      rw [hdd] at homem
      have hone : (deploy c inp n pd.reqs).out.map (·.req) = pd.reqs := Crew.one_report_per_request _ _ _ _
      have hmem : o.req ∈ pd.reqs := by rw [← hone]; exact List.mem_map.2 ⟨o, homem, rfl⟩
      have hSo := (hreqs o.req hmem).1
      have hok := Crew.out_reqOk (methodP c) _ hB (nCrews c) pd.reqs hreq o homem hc'
      rw [hosite] at hSo
      exact ⟨hc', hok.hP, by rw [← hSo]; exact hok.hPS, hok.hSt⟩

/-- every method position carries admissible reports -/
def KAll (prog : Program) (ms : List MethSt) : Prop :=
  ∀ m c, prog[m]? = some c → Kpos c (ms.getD m {})

theorem postStep_rep (c : MethodCfg) (inp : Inputs) (n k : Nat) (ms : List MethSt) (lt : Nat → Int)
    (pd : PlanDay) (dones : List Done) (m : Nat) (hk : k < ms.length) (i : Nat) :
    ((postStep c inp n k ms lt pd dones).ms.getD m {}).rep i = (ms.getD m {}).rep i ∨
    ((postStep c inp n k ms lt pd dones).ms.getD m {}).rep i = {} ∨
    (c.role = .followUp ∧ k = m ∧
      ((postStep c inp n k ms lt pd dones).ms.getD m {}).rep i = fuRepNext pd (ms.getD k {}) i) := by
  unfold postStep
  split
  · rename_i hr
    left
    simp only [getD_set]
    by_cases h : k = m
    · subst h; simp [hk]
    · simp [h]
  · rename_i fu hr
    simp only [getD_set, List.length_set]
    by_cases h1 : k = m
    · subst h1
      by_cases h5 : fu = k
      · subst h5
        simp only [hk, and_self, if_true]
        split
        · left; rfl
        · right; left; rfl
      · left; simp [hk, h5]
    · by_cases h3 : fu = m
      · subst h3
        by_cases h4 : fu < ms.length
        · simp only [h1, false_and, if_false, h4, and_self, if_true, Ne.symm h1]
          split
          · left; rfl
          · right; left; rfl
        · left; simp [h1, h4]
      · left; simp [h1, h3]
  · rename_i hr
    simp only [getD_set]
    by_cases h : k = m
    · subst h
      right; right
      refine ⟨hr, rfl, ?_⟩
      rw [if_pos ⟨rfl, hk⟩]
      simp only [lookupD_tabulate]
      rfl
    · left; simp [h]



/-- what the theorems about minutes need of the static data and the inputs: survey times, work days,
sampled travel times and daylight are not negative -/
def InputsOK (prog : Program) (inp : Inputs) : Prop :=
  (∀ c ∈ prog, (∀ i, 0 ≤ c.S i) ∧ 0 ≤ c.workdayH) ∧ (∀ n m i, 0 ≤ inp.travel n m i) ∧ (∀ n, 0 ≤ inp.daylightMin n)

theorem budget_nonneg (c : MethodCfg) (d : Int) (hw : 0 ≤ c.workdayH) (hd : 0 ≤ d) : 0 ≤ budgetMin c d := by
  unfold budgetMin; split <;> (try split) <;> omega

theorem crepOK_default (c : MethodCfg) (i : Nat) (hS : 0 ≤ c.S i) : CRepOK c i {} :=
  ⟨rfl, Int.le_refl 0, hS, fun _ => rfl⟩

theorem postStep_KAll (prog : Program) (inp : Inputs) (hin : InputsOK prog inp) (n k : Nat) (c : MethodCfg)
    (ms : List MethSt) (lt : Nat → Int) (dones : List Done) (hk : prog[k]? = some c) (hlen : k < ms.length)
    (hK : KAll prog ms) :
    KAll prog (postStep c inp n k ms lt (planDay c inp n k (ms.getD k {}) lt) dones).ms := by
  intro m c' hm
  have hKm := hK m c' hm
  have hKk := hK k c hk
  have hcm : c ∈ prog := List.mem_of_getElem? hk
  have hcm' : c' ∈ prog := List.mem_of_getElem? hm
  have hB := budget_nonneg c (inp.daylightMin n) (hin.1 c hcm).2 (hin.2.2 n)
  constructor
  · intro i
    rw [postStep_sched _ _ _ _ _ _ _ _ m hlen]
    split
    · rename_i h
      obtain ⟨rfl, hr⟩ := h
      have : c' = c := by rw [hk] at hm; exact (Option.some.inj hm).symm
      subst this
      exact ownUpdate_K c' inp n k (ms.getD k {}) lt hr (hin.1 c' hcm).1 (hin.2.1 n k) hB hKk i
    · exact hKm.1 i
  · intro i
    rcases postStep_rep c inp n k ms lt (planDay c inp n k (ms.getD k {}) lt) dones m hlen i with h | h | ⟨_, rfl, h⟩
    · rw [h]; exact hKm.2 i
    · rw [h]; exact crepOK_default c' i ((hin.1 c' hcm').1 i)
    · have : c' = c := by rw [hk] at hm; exact (Option.some.inj hm).symm
      subst this
      rw [h]
      exact fuRep_K c' inp n k (ms.getD k {}) lt (hin.1 c' hcm).1 (hin.2.1 n k) hB hKk i

theorem stepMethods_KAll (w : World) (prog : Program) (inp : Inputs) (hin : InputsOK prog inp) (n : Nat)
    (ss : List Emission.State) : ∀ (cs : List MethodCfg) (m0 : Nat) (acc : Acc),
    (∀ j, j < cs.length → cs[j]? = prog[m0 + j]?) → m0 + cs.length ≤ acc.ms.length → KAll prog acc.ms →
    KAll prog (stepMethods w inp n ss m0 cs acc).ms ∧
    ∀ t ∈ (stepMethods w inp n ss m0 cs acc).traces,
      t ∈ acc.traces ∨ ∀ r ∈ t.reqs, Crew.ReqOk (methodP t.cfg) r := by
  intro cs
  induction cs with
  | nil => intro m0 acc _ _ hK; exact ⟨hK, fun t ht => Or.inl ht⟩
  | cons c cs ih =>
    intro m0 acc hsuf hlen hK
    simp only [List.length_cons] at hlen
    have hk : prog[m0]? = some c := by
      have := hsuf 0 (by simp)
      simpa using this.symm
    have hlt : m0 < acc.ms.length := by omega
    have hcm : c ∈ prog := List.mem_of_getElem? hk
    have hK1 : KAll prog (methodStep w inp n ss acc m0 c).ms := by
      rw [methodStep_ms]
      exact postStep_KAll prog inp hin n m0 c acc.ms acc.latestTag _ hk hlt hK
    have hl1 : (methodStep w inp n ss acc m0 c).ms.length = acc.ms.length := by
      rw [methodStep_ms]; exact postStep_length ..
    simp only [stepMethods]
    obtain ⟨ihK, ihT⟩ := ih (m0 + 1) (methodStep w inp n ss acc m0 c)
      (by intro j hj
          have := hsuf (j + 1) (by simp; omega)
          simp only [List.getElem?_cons_succ] at this
          rw [this]; congr 1; omega)
      (by rw [hl1]; omega) hK1
    refine ⟨ihK, ?_⟩
    intro t ht
    rcases ihT t ht with h | h
    · simp only [methodStep, List.mem_append, List.mem_singleton] at h
      rcases h with h | h
      · exact Or.inl h
      · right
        subst h
        exact planDay_reqOk c inp n m0 (acc.ms.getD m0 {}) acc.latestTag (hin.1 c hcm).1 (hin.2.1 n m0) (hK m0 c hk)
    · exact Or.inr h

theorem KAll_init (w : World) (prog : Program) (inp : Inputs) (hin : InputsOK prog inp) :
    KAll prog (simState w prog inp 0).ms := by
  intro m c hm
  have hcm : c ∈ prog := List.mem_of_getElem? hm
  have hlt : m < prog.length := (List.getElem?_eq_some_iff.1 hm).1
  have : (simState w prog inp 0).ms.getD m {} = {} := by
    simp [simState, init, List.getD_eq_getElem?_getD, hlt]
  rw [this]
  exact ⟨fun i => trivial, fun i => crepOK_default c i ((hin.1 c hcm).1 i)⟩

theorem sim_KAll (w : World) (prog : Program) (inp : Inputs) (hin : InputsOK prog inp) (N : Nat) :
    KAll prog (simState w prog inp N).ms := by
  induction N with
  | zero => exact KAll_init w prog inp hin
  | succ n ih =>
    have e : (simState w prog inp (n + 1)).ms =
        (stepMethods w inp n (actStates w n (simState w prog inp n)) 0 prog
          { ms := (simState w prog inp n).ms, latestTag := (simState w prog inp n).latestTag,
            covs := (simState w prog inp n).covs }).ms := rfl
    rw [e]
    exact (stepMethods_KAll w prog inp hin n _ prog 0 _ (by intro j _; simp) (by simp [ms_length]) ih).1

/-- **every planned request of every method on every day of the integrated simulation is admissible**
(`Crew.ReqOk`): the report a planner carries over from an unfinished survey has between 0 and the
site's survey time minutes on it and is not complete — the wiring schedule → crews → schedule keeps
this invariant, so the theorems of C08 apply to every crew day of `simRun` -/
theorem sim_reqs_ok (w : World) (prog : Program) (inp : Inputs) (hin : InputsOK prog inp) (n : Nat) :
    ∀ t ∈ dayTraces w prog inp n, ∀ r ∈ t.reqs, Crew.ReqOk (methodP t.cfg) r := by
  intro t ht
  have := (stepMethods_KAll w prog inp hin n (actStates w n (simState w prog inp n)) prog 0
    { ms := (simState w prog inp n).ms, latestTag := (simState w prog inp n).latestTag,
      covs := (simState w prog inp n).covs } (by intro j _; simp) (by simp [ms_length])
    (sim_KAll w prog inp hin n)).2 t ht
  rcases this with h | h
  · cases h
  · exact h

/-- **C08 in the integrated simulation, unconditionally**: with non-negative survey times, work days,
travel times and daylight, on every day of `simRun` no crew of any method works — travel, survey and
the trip home — longer than the budget of the day, which is within the method's work day and, when
the method considers daylight, within the daylight of that day. -/
theorem sim_crews_within_workday (w : World) (prog : Program) (inp : Inputs) (hin : InputsOK prog inp) (n : Nat) :
    ∀ t ∈ dayTraces w prog inp n,
      t.budget ≤ t.cfg.workdayH * 60 ∧ (t.cfg.considerDaylight = true → t.budget ≤ inp.daylightMin n) ∧
      ∀ c ∈ t.dd.crews, Crew.crewMinutes c.id t.dd.out + Crew.crewHome c.id t.dd.out ≤ t.budget := by
  intro t ht
  have hprog := (day_traces w prog inp n _ t ht).1
  have hcm : t.cfg ∈ prog := List.mem_of_getElem? hprog
  exact sim_day_budget w prog inp n t ht (hin.1 t.cfg hcm).2 (hin.2.2 n) (sim_reqs_ok w prog inp hin n t ht)

/-! ### C02 / C03 across programs: the no-LDAR run is the simulated program without methods -/

theorem runE_nil (p : Emission.Params) (N : Nat) :
    Emission.runE p (fun _ => []) N = Emission.baseline p N := by
  induction N with
  | zero => rfl
  | succ n ih =>
    simp only [Emission.runE, Emission.baseline, Emission.run, Emission.dayE, Emission.day, Emission.noEvents,
      List.foldl_nil]
    rw [ih]
    rfl

theorem evTrace_no_methods (w : World) (inp : Inputs) (info : EmInfo) (n : Nat) :
    evTrace w [] inp info n = [] := rfl

/-- in the simulated program without methods every emission runs its no-LDAR life (`Emission.baseline`) -/
theorem sim_baseline_state (w : World) (inp : Inputs) (hw : WF w) (N i : Nat) (info : EmInfo)
    (hi : w.ems[i]? = some info) :
    (simState w [] inp N).ss[i]? = some (Emission.baseline info.p N) := by
  rw [sim_lifecycle w [] inp hw N i info hi]
  have : evTrace w [] inp info = fun _ => [] := by funext n; rfl
  rw [this, runE_nil]

/-- **C02 in the integrated simulation, leak by leak, against the simulated baseline program.**  For a
repairable emission of a well-formed scenario, the days it is active under any program plus the
mitigated days of its record equal the days it is active in the run of the program *without methods*
on the same scenario and inputs; mitigated days are never negative, and are non-zero only for an
emission the program repaired.  For persistent sources the same holds for the emitted days (volumes). -/
theorem sim_mitigation (w : World) (prog : Program) (inp : Inputs) (hw : WF w) (N i : Nat) (info : EmInfo)
    (hi : w.ems[i]? = some info) (hr : info.p.repairable = true) (sP sB : Emission.State)
    (hP : (simState w prog inp N).ss[i]? = some sP) (hB : (simState w [] inp N).ss[i]? = some sB) :
    sP.activeDays + Emission.mitDays info.p sP (Emission.summaryEndArg N) = sB.activeDays ∧
    0 ≤ Emission.mitDays info.p sP (Emission.summaryEndArg N) ∧
    (Emission.mitDays info.p sP (Emission.summaryEndArg N) ≠ 0 →
        sP.status = .repaired ∧ ∃ c, sP.by_ = .company c) ∧
    (info.p.intermittent = false →
        Emission.emitDays info.p sP + Emission.mitDays info.p sP (Emission.summaryEndArg N)
          = Emission.emitDays info.p sB) := by
  rw [sim_lifecycle w prog inp hw N i info hi] at hP
  rw [sim_baseline_state w inp hw N i info hi] at hB
  simp only [Option.some.injEq] at hP hB
  subst hP; subst hB
  have h := Emission.C02_calendar_days_E info.p (evTrace w prog inp info) N hr
  exact ⟨h.1, h.2.1, h.2.2, fun hp => (Emission.C02_partial_E info.p _ N hr hp).1⟩

/-- **C03 in the integrated simulation**: no emission — repairable or not, any parameters — is active
longer under any program than in the simulated run of the program without methods -/
theorem sim_never_worse (w : World) (prog : Program) (inp : Inputs) (hw : WF w) (N i : Nat) (info : EmInfo)
    (hi : w.ems[i]? = some info) (sP sB : Emission.State)
    (hP : (simState w prog inp N).ss[i]? = some sP) (hB : (simState w [] inp N).ss[i]? = some sB) :
    sP.activeDays ≤ sB.activeDays := by
  rw [sim_lifecycle w prog inp hw N i info hi] at hP
  rw [sim_baseline_state w inp hw N i info hi] at hB
  simp only [Option.some.injEq] at hP hB
  subst hP; subst hB
  exact Emission.C03_le_baseline_all_E info.p _ N

/-! ### the calendar the model computes -/

def validDate (d : Sched.Date) : Prop := 1 ≤ d.m ∧ d.m ≤ 12 ∧ 1 ≤ d.d ∧ d.d ≤ daysIn d.y d.m

theorem daysIn_pos (y m : Nat) : 28 ≤ daysIn y m := by
  unfold daysIn; split
  · split <;> omega
  · split <;> omega

theorem nextDate_valid (d : Sched.Date) (h : validDate d) : validDate (nextDate d) := by
  obtain ⟨h1, h2, h3, h4⟩ := h
  unfold nextDate
  split
  · exact ⟨h1, h2, by simp only; omega, by simp only; omega⟩
  · split
    · have := daysIn_pos d.y (d.m + 1)
      exact ⟨by simp only; omega, by simp only; omega, Nat.le_refl 1, by simp only; omega⟩
    · have := daysIn_pos (d.y + 1) 1
      exact ⟨Nat.le_refl 1, by simp only; omega, Nat.le_refl 1, by simp only; omega⟩

/-- every date of the computed calendar is a calendar date (month 1..12, day within the month) -/
theorem dateOf_valid (start : Sched.Date) (h : validDate start) (n : Nat) : validDate (dateOf start n) := by
  induction n with
  | zero => exact h
  | succ n ih => exact nextDate_valid _ ih

/-- leap years: 2024-02-28 + 2 days, 2023-02-28 + 1 day, 2024-12-31 + 1 day, 1900 is no leap year -/
example : dateOf ⟨2024, 2, 28⟩ 2 = ⟨2024, 3, 1⟩ ∧ dateOf ⟨2023, 2, 28⟩ 1 = ⟨2023, 3, 1⟩ ∧
    dateOf ⟨2024, 12, 31⟩ 1 = ⟨2025, 1, 1⟩ ∧ dateOf ⟨2024, 1, 1⟩ 366 = ⟨2025, 1, 1⟩ ∧ isLeap 1900 = false := by
  decide +kernel

/-- calendar order of two dates (year, month, day lexicographically) -/
def dateLt (a b : Sched.Date) : Prop := a.y < b.y ∨ (a.y = b.y ∧ (a.m < b.m ∨ (a.m = b.m ∧ a.d < b.d)))

theorem dateLt_trans {a b c : Sched.Date} (h1 : dateLt a b) (h2 : dateLt b c) : dateLt a c := by
  unfold dateLt at *; omega

theorem dateLt_irrefl (a : Sched.Date) : ¬ dateLt a a := by
  unfold dateLt; omega

/-- the next day is strictly later, and at most one year later -/
theorem nextDate_lt (d : Sched.Date) (h : validDate d) : dateLt d (nextDate d) ∧ (nextDate d).y ≤ d.y + 1 := by
  obtain ⟨_, h2, _, h4⟩ := h
  unfold nextDate
  split
  · exact ⟨Or.inr ⟨rfl, Or.inr ⟨rfl, Nat.lt_succ_self _⟩⟩, Nat.le_succ _⟩
  · split
    · exact ⟨Or.inr ⟨rfl, Or.inl (Nat.lt_succ_self _)⟩, Nat.le_succ _⟩
    · exact ⟨Or.inl (Nat.lt_succ_self _), Nat.le_refl _⟩

/-- the computed calendar never goes backwards and never repeats a date: day indices and dates are in
one-to-one, order-preserving correspondence (so "per calendar year" counts of C06 are well defined) -/
theorem dateOf_strictMono (start : Sched.Date) (h : validDate start) (i j : Nat) (hij : i < j) :
    dateLt (dateOf start i) (dateOf start j) := by
  induction j with
  | zero => omega
  | succ j ih =>
    have hn := (nextDate_lt _ (dateOf_valid start h j)).1
    by_cases hj : i = j
    · subst hj; exact hn
    · exact dateLt_trans (ih (by omega)) hn

theorem dateOf_injective (start : Sched.Date) (h : validDate start) (i j : Nat)
    (he : dateOf start i = dateOf start j) : i = j := by
  rcases Nat.lt_trichotomy i j with hlt | heq | hgt
  · exact absurd (he ▸ dateOf_strictMono start h i j hlt) (dateLt_irrefl _)
  · exact heq
  · exact absurd (he ▸ dateOf_strictMono start h j i hgt) (dateLt_irrefl _)

/-- the calendar year never decreases along the run, and grows by at most one per day -/
theorem dateOf_year_mono (start : Sched.Date) (h : validDate start) (i j : Nat) (hij : i ≤ j) :
    (dateOf start i).y ≤ (dateOf start j).y ∧ (dateOf start j).y ≤ (dateOf start i).y + (j - i) := by
  induction j with
  | zero => have : i = 0 := by omega
            subst this; exact ⟨Nat.le_refl _, by omega⟩
  | succ j ih =>
    by_cases hj : i = j + 1
    · subst hj; exact ⟨Nat.le_refl _, by omega⟩
    · have ih' := ih (by omega)
      have hv := dateOf_valid start h j
      have hn := nextDate_lt _ hv
      have hy : (dateOf start j).y ≤ (nextDate (dateOf start j)).y := by
        have := hn.1; unfold dateLt at this; omega
      show (dateOf start i).y ≤ (nextDate (dateOf start j)).y ∧
        (nextDate (dateOf start j)).y ≤ (dateOf start i).y + (j + 1 - i)
      omega

/-- the days of one calendar year form an interval of day indices (no year is left and re-entered) -/
theorem dateOf_year_interval (start : Sched.Date) (h : validDate start) (i j k : Nat) (hij : i ≤ j) (hjk : j ≤ k)
    (hy : (dateOf start i).y = (dateOf start k).y) : (dateOf start j).y = (dateOf start i).y := by
  have h1 := (dateOf_year_mono start h i j hij).1
  have h2 := (dateOf_year_mono start h j k hjk).1
  omega

/-- when the calendar input of a simulation is the computed calendar, (f) reads: requests are issued only on
days whose computed calendar year / month lie in the deployment years / months -/
theorem sim_issued_in_months_calendar (w : World) (prog : Program) (inp : Inputs) (start : Sched.Date)
    (hc : ∀ n, inp.date n = dateOf start n) (n : Nat) :
    ∀ t ∈ dayTraces w prog inp n, ∀ i ∈ t.issued,
      (dateOf start n).y ∈ (t.cfg.P i).depYears ∧ (dateOf start n).m ∈ (t.cfg.P i).months := by
  intro t ht i hi
  have := sim_issued_in_months w prog inp n t ht i hi
  rw [hc n] at this
  exact ⟨this.2.2.1, this.2.2.2⟩

/-- non-vacuity: a real start date; New Year's Eve precedes New Year's Day -/
example : validDate ⟨2023, 12, 31⟩ ∧ dateLt (dateOf ⟨2023, 12, 31⟩ 0) (dateOf ⟨2023, 12, 31⟩ 1) := by
  refine ⟨by unfold validDate; decide +kernel, ?_⟩
  exact dateOf_strictMono _ (by unfold validDate; decide +kernel) 0 1 (by omega)

/-! ### the statements at full strength, what is proved, and why (b), (c) need a well-formed scenario -/

/-- (b) and (c) for *all* worlds -/
def lifecycle_all_worlds : Prop :=
  ∀ (w : World) (prog : Program) (inp : Inputs) (N i : Nat) (info : EmInfo), w.ems[i]? = some info →
    (simState w prog inp N).ss[i]? = some (Emission.runE info.p (evTrace w prog inp info) N)

def row_world_all_worlds : Prop :=
  ∀ (w : World) (prog : Program) (inp : Inputs) (n : Nat),
    (simRow w prog inp n).em = World.row (worldOf w prog inp) n

/-- an ill-formed scenario: the pending list of the only source is not sorted by start date — the
emission that started before the period waits behind one that starts on day 5 (`Source.activate_emissions`
stops at the first emission whose start lies in the future) -/
def unsortedWorld : World :=
  { ems := [{ idx := 0, p := { start := 5, nrd := 30, repairDelay := 0, repairable := true, intermittent := false,
                               activeDur := 1, inactiveDur := 0 }, rate := 1024, site := 1, eqg := 0, comp := 0 },
            { idx := 1, p := { start := 0, nrd := 30, repairDelay := 0, repairable := true, intermittent := false,
                               activeDur := 1, inactiveDur := 0 }, rate := 1024, site := 1, eqg := 0, comp := 0 }],
    srcs := [{ pending := [{ id := 0, start := 5 }, { id := 1, start := 0 }] }],
    layout := fun _ => [(0, [0])] }

def quietInputs : Inputs :=
  { date := fun n => { y := 2023, m := 1, d := n + 1 }, spatial := fun _ _ _ => true, temporal := fun _ _ _ => true,
    travel := fun _ _ _ => 30, workable := fun _ _ _ => true, daylightMin := fun _ => 1440, repairCost := fun _ => 50,
    shift := fun _ _ _ _ _ => 0 }

theorem unsortedWorld_not_wf : ¬ WF unsortedWorld := by unfold WF; decide +kernel

/-- without sorted pending lists the life-cycle of an emission in the simulation is *not* `runE`:
(c) (and with it (b)) needs the guarantee of `Source.generate_emissions` (C16 `generate_sorted`) -/
theorem lifecycle_all_worlds_counterexample : ¬ lifecycle_all_worlds := by
  intro h
  have := h unsortedWorld [] quietInputs 1 1 _ rfl
  revert this
  decide +kernel

theorem row_world_all_worlds_counterexample : ¬ row_world_all_worlds := by
  intro h
  have := congrArg World.Row.new (h unsortedWorld [] quietInputs 0)
  revert this
  decide +kernel

/-- the composition property, every clause at the strength that is proved -/
def Sim_statement : Prop :=
  -- (a) tag chain
  (∀ (w : World) (prog : Program) (inp : Inputs) (info : EmInfo) (n : Nat) (e : Emission.TagEv),
      Emission.Ev.tag e ∈ evTrace w prog inp info n →
      ∃ t ∈ dayTraces w prog inp n, ∃ d ∈ t.dones,
        t.m = e.company ∧ prog[e.company]? = some t.cfg ∧ t.cfg.tags = true ∧ e.trd = t.cfg.trd ∧
        t.dd = deploy t.cfg inp n t.reqs ∧ d.out ∈ t.dd.out ∧ d.out.rep.complete = true ∧
        d.out.req.site = info.site ∧ d.rep = Sensor.surveyOf d.sv ∧ d.sv.site = info.site ∧ d.sv.m = e.company ∧
        ∃ er ∈ d.rep.eqgs, ∃ cr ∈ er.comps, er.eqg = info.eqg ∧ cr.comp = info.comp ∧ cr.measured > 0) ∧
  -- (b) emission columns = World.row, (c) life-cycle = runE: well-formed scenarios
  (∀ (w : World) (prog : Program) (inp : Inputs), WF w →
      (∀ n, (simRow w prog inp n).em = World.row (worldOf w prog inp) n) ∧
      (∀ (N i : Nat) (info : EmInfo), w.ems[i]? = some info →
        (simState w prog inp N).ss[i]? = some (Emission.runE info.p (evTrace w prog inp info) N))) ∧
  -- (d) cost row identity
  (∀ (w : World) (prog : Program) (inp : Inputs) (n : Nat),
      (simRow w prog inp n).cost.cost
          = ((simRow w prog inp n).meth.map (fun c => c.cost + if n = 0 then c.upfront else 0)).sum
            + (simRow w prog inp n).cost.repCost ∧
      (simRow w prog inp n).cost.cost
          = (simRow w prog inp n).cost.methodCols.sum + (simRow w prog inp n).cost.repCost) ∧
  -- (e) zero spatial coverage = no methods
  (∀ (w : World) (prog : Program) (inp : Inputs), (∀ n m e, inp.spatial n m e = false) →
      (∀ N, records w N (simState w prog inp N) = records w N (simState w [] inp N)) ∧
      (∀ n, (simRow w prog inp n).em = (simRow w [] inp n).em)) ∧
  -- (f) requests only in deployment years and months
  (∀ (w : World) (prog : Program) (inp : Inputs) (n : Nat), ∀ t ∈ dayTraces w prog inp n, ∀ i ∈ t.issued,
      (inp.date n).y ∈ (t.cfg.P i).depYears ∧ (inp.date n).m ∈ (t.cfg.P i).months)

theorem Sim : Sim_statement := by
  refine ⟨sim_tag_chain, ?_, ?_, ?_, ?_⟩
  · intro w prog inp hw
    exact ⟨sim_row_world w prog inp hw, sim_lifecycle w prog inp hw⟩
  · intro w prog inp n
    have := sim_cost_identity w prog inp n
    exact ⟨this.1, this.2.1⟩
  · intro w prog inp hz
    have := sim_zero_coverage w prog inp hz
    exact ⟨this.2.1, this.2.2.1⟩
  · intro w prog inp n t ht i hi
    have := sim_issued_in_months w prog inp n t ht i hi
    exact ⟨this.2.2.1, this.2.2.2⟩

/-! ### non-vacuity: a concrete simulation in which every hypothesis is met and something happens -/

def exP : Emission.Params :=
  { start := 0, nrd := 100, repairDelay := 1, repairable := true, intermittent := false, activeDur := 1, inactiveDur := 0 }

/-- one site, one group with two components, an emission present from the start and one starting on day 2 -/
def exWorld : World :=
  { ems := [{ idx := 0, p := exP, rate := 1024, site := 1, eqg := 0, comp := 0 },
            { idx := 1, p := { exP with start := 2 }, rate := 2048, site := 1, eqg := 0, comp := 1 }],
    srcs := [{ pending := [{ id := 0, start := 0 }] }, { pending := [{ id := 1, start := 2 }] }],
    layout := fun _ => [(0, [0, 1])] }

def exPlanner : Sched.PlannerP :=
  { rs := 1, months := [1], depYears := [2023], simYears := [2023], plan := [(1, 1)], surveyTime := 60 }

/-- a routine component-level method: one crew, per-site cost 100, upfront 7, reporting delay 1 -/
def exOGI : MethodCfg :=
  { role := .routine, crews := 1, cap := 5, workdayH := 8, cost := { perDay := 0, perSite := some 100, upfront := 7 },
    mdl := 512, trd := 1, sites := [1], S := fun _ => 60, siteCost := fun _ => 0, P := fun _ => exPlanner }

/-- the scenario is well formed; the survey of day 0 tags emission 0, which is repaired by company 0 on
day 1 (end date 2 = day 0 + max 1 (1 + 1)); emission 1 starts after the only survey and stays active;
day 0 costs 100 + upfront 7, day 1 the repair cost 50 -/
example :
    WF exWorld ∧
    (simState exWorld [exOGI] quietInputs 4).ss.map (fun s => (s.status, s.by_, s.endDate))
      = [(.repaired, .company 0, some 2), (.active, .none, none)] ∧
    ((List.range 3).map (simRow exWorld [exOGI] quietInputs)).map (fun r => (r.em.active, r.em.repaired, r.cost.cost, r.tagged))
      = [(1, 0, 107, 1), (0, 1, 50, 0), (1, 0, 0, 0)] ∧
    evTrace exWorld [exOGI] quietInputs { idx := 0, p := exP, rate := 1024, site := 1, eqg := 0, comp := 0 } 0
      = [.tag { company := 0, trd := 1 }] ∧
    (dayTraces exWorld [exOGI] quietInputs 0).map (·.issued) = [[1]] := by
  unfold WF
  decide +kernel

/-- (e) is not vacuous either: with every spatial roll 0 the same program surveys (and is paid) but
nothing is tagged -/
example :
    let inp0 : Inputs := { quietInputs with spatial := fun _ _ _ => false }
    (simState exWorld [exOGI] inp0 4).ss.map (fun s => s.status) = [.active, .active] ∧
    (simRow exWorld [exOGI] inp0 0).cost.cost = 107 ∧ (simRow exWorld [exOGI] inp0 0).tagged = 0 := by
  decide +kernel

end LdarModel.Sim
