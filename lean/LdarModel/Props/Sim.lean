import LdarModel.Model.Sim
import LdarModel.Lemmas.World
import LdarModel.Lemmas.Cost
import LdarModel.Props.C01
import LdarModel.Props.C04
import LdarModel.Props.C05
import LdarModel.Props.C10
import LdarModel.Props.C11
/-
Composition theorems about the integrated simulation model (`Model/Sim.lean`): what the wiring
between the component models guarantees, for all worlds, programs, inputs and horizons.
-/
namespace LdarModel.Sim
open LdarModel

/-! ### housekeeping: the table wrapper is the identity, the one-pass run is `simRun` -/

theorem lookupD_tabulate {α} (keys : List Nat) (f : Nat → α) : lookupD (tabulate keys f) f = f := by
  funext i
  induction keys with
  | nil => rfl
  | cons k ks ih =>
    simp only [tabulate, List.map_cons, lookupD]
    by_cases h : k = i
    · simp [h]
    · simp only [h, if_false]; exact ih

theorem runAcc_eq (w : World) (prog : Program) (inp : Inputs) (N : Nat) :
    runAcc w prog inp N = simRun w prog inp N := by
  induction N with
  | zero => rfl
  | succ n ih =>
    simp only [runAcc, ih, simRun, List.range_succ, List.map_append, List.map_cons, List.map_nil]
    rfl


/-! ### what a day's traces are made of -/

/-- facts about a completed-survey record `d` produced by method `m` (configuration `c`) on day `n` -/
def DoneOK (w : World) (inp : Inputs) (n m : Nat) (c : MethodCfg) (ss : List Emission.State)
    (dd : Crew.DaySt) (d : Done) : Prop :=
  d.out ∈ completed dd ∧ d.sv.m = m ∧ d.sv.trd = c.trd ∧ d.sv.mdl = c.mdl ∧ d.sv.site = d.out.req.site ∧
  d.sv.cfg = sensorCfg w c d.out.req.site ∧ ∃ covs, d.sv.xs = mkXs w inp n m ss covs

theorem foldl_surveyOne (w : World) (inp : Inputs) (n m : Nat) (c : MethodCfg) (ss : List Emission.State)
    (P : Done → Prop)
    (hP : ∀ (covs : List Cov) (o : Crew.OutRec) (d : Done),
      d ∈ (surveyOne w inp n m c ss (covs, []) o).2 → P d)
    (os : List Crew.OutRec) (acc : List Cov × List Done) (hacc : ∀ d ∈ acc.2, P d) :
    ∀ d ∈ (os.foldl (surveyOne w inp n m c ss) acc).2, P d := by
  induction os generalizing acc with
  | nil => simpa using hacc
  | cons o os ih =>
    simp only [List.foldl_cons]
    apply ih
    intro d hd
    simp only [surveyOne, List.mem_append, List.mem_singleton] at hd
    rcases hd with hd | hd
    · exact hacc d hd
    · apply hP acc.1 o d
      simp only [surveyOne, List.nil_append, List.mem_singleton]
      exact hd

theorem surveyAll_spec (w : World) (inp : Inputs) (n m : Nat) (c : MethodCfg) (ss : List Emission.State)
    (covs : List Cov) (dd : Crew.DaySt) :
    ∀ d ∈ (surveyAll w inp n m c ss covs dd).2, DoneOK w inp n m c ss dd d := by
  unfold surveyAll
  have key : ∀ (os : List Crew.OutRec) (acc : List Cov × List Done),
      (∀ o ∈ os, o ∈ completed dd) → (∀ d ∈ acc.2, DoneOK w inp n m c ss dd d) →
      ∀ d ∈ (os.foldl (surveyOne w inp n m c ss) acc).2, DoneOK w inp n m c ss dd d := by
    intro os
    induction os with
    | nil => intro acc _ hacc; simpa using hacc
    | cons o os ih =>
      intro acc hos hacc
      simp only [List.foldl_cons]
      apply ih
      · intro o' ho'; exact hos o' (List.mem_cons_of_mem _ ho')
      · intro d hd
        simp only [surveyOne, List.mem_append, List.mem_singleton] at hd
        rcases hd with hd | hd
        · exact hacc d hd
        · subst hd
          exact ⟨hos o (List.mem_cons_self ..), rfl, rfl, rfl, rfl, rfl, acc.1, rfl⟩
  exact key _ _ (fun o ho => ho) (by intro d hd; cases hd)

theorem planDay_dd (c : MethodCfg) (inp : Inputs) (n m : Nat) (me : MethSt) (lt : Nat → Int) :
    (planDay c inp n m me lt).dd = deploy c inp n (planDay c inp n m me lt).reqs := by
  unfold planDay
  split <;> rfl

/-- a trace of day `n`: the crew day is `Crew.deployDay` on the trace's own plan, and every completed
survey record comes from a completed visit of that crew day -/
def TraceOK (w : World) (inp : Inputs) (n : Nat) (ss : List Emission.State) (t : MethTrace) : Prop :=
  t.dd = deploy t.cfg inp n t.reqs ∧ t.budget = budgetMin t.cfg (inp.daylightMin n) ∧
  ∀ d ∈ t.dones, DoneOK w inp n t.m t.cfg ss t.dd d

theorem methodStep_traces (w : World) (inp : Inputs) (n : Nat) (ss : List Emission.State) (acc : Acc)
    (m : Nat) (c : MethodCfg) :
    ∃ t, (methodStep w inp n ss acc m c).traces = acc.traces ++ [t] ∧ t.m = m ∧ t.cfg = c ∧
      TraceOK w inp n ss t := by
  refine ⟨_, rfl, rfl, rfl, ?_, rfl, ?_⟩
  · exact planDay_dd c inp n m _ _
  · exact surveyAll_spec w inp n m c ss _ _

theorem stepMethods_traces (w : World) (inp : Inputs) (n : Nat) (ss : List Emission.State) :
    ∀ (cs : List MethodCfg) (m0 : Nat) (acc : Acc),
    ∀ t ∈ (stepMethods w inp n ss m0 cs acc).traces,
      t ∈ acc.traces ∨ (∃ k, cs[k]? = some t.cfg ∧ t.m = m0 + k ∧ TraceOK w inp n ss t) := by
  intro cs
  induction cs with
  | nil => intro m0 acc t ht; exact Or.inl ht
  | cons c cs ih =>
    intro m0 acc t ht
    simp only [stepMethods] at ht
    rcases ih (m0 + 1) _ t ht with h | ⟨k, hk, hm, hok⟩
    · obtain ⟨t', htr, hm', hc', hok'⟩ := methodStep_traces w inp n ss acc m0 c
      rw [htr] at h
      rcases List.mem_append.1 h with h | h
      · exact Or.inl h
      · simp only [List.mem_singleton] at h
        subst h
        exact Or.inr ⟨0, by simp [hc'], by simp [hm'], hok'⟩
    · exact Or.inr ⟨k + 1, by simpa using hk, by omega, hok⟩

/-- the emission states the methods of day `n` work on: after the activation step -/
def actStates (w : World) (n : Nat) (st : St) : List Emission.State :=
  List.zipWith (activateS n (((st.srcs.map (Heap.activateSrc (n : Int))).flatMap (·.1)).map (·.id))) w.ems st.ss

/-- every trace of a simulated day belongs to a method of the program, at its program position -/
theorem day_traces (w : World) (prog : Program) (inp : Inputs) (n : Nat) (st : St) :
    ∀ t ∈ (simDayOut w prog inp n st).traces,
      prog[t.m]? = some t.cfg ∧ TraceOK w inp n (actStates w n st) t := by
  intro t ht
  have := stepMethods_traces w inp n (actStates w n st) prog 0
    { ms := st.ms, latestTag := st.latestTag, covs := st.covs } t ht
  rcases this with h | ⟨k, hk, hm, hok⟩
  · cases h
  · have : t.m = k := by omega
    exact ⟨by rw [this]; exact hk, hok⟩


/-! ### (a) the tag chain -/

/-- the completed-survey records of day `n` of the run, in the order the simulator produced them -/
def dayTraces (w : World) (prog : Program) (inp : Inputs) (n : Nat) : List MethTrace :=
  (simDayOut w prog inp n (simState w prog inp n)).traces

def dayDones (w : World) (prog : Program) (inp : Inputs) (n : Nat) : List Done :=
  (dayTraces w prog inp n).flatMap (·.dones)

/-- the events the simulation sends to one emission on day `n` -/
def evTrace (w : World) (prog : Program) (inp : Inputs) (info : EmInfo) (n : Nat) : List Emission.Ev :=
  evsOf info (dayDones w prog inp n)

theorem mem_tagTargets (rep : Sensor.SiteRep) (g c : Nat) (h : (g, c) ∈ Sensor.tagTargets rep) :
    ∃ er ∈ rep.eqgs, ∃ cr ∈ er.comps, er.eqg = g ∧ cr.comp = c ∧ cr.measured > 0 := by
  unfold Sensor.tagTargets at h
  simp only [List.mem_flatMap, List.mem_map, List.mem_filter, decide_eq_true_eq, Prod.mk.injEq] at h
  obtain ⟨er, her, cr, ⟨hcr, hpos⟩, hg, hc⟩ := h
  exact ⟨er, her, cr, hcr, hg, hc, hpos⟩

theorem site_survey_no_targets (err mdl : Int) (m : Nat) (trd : Int) (s : Nat) (xs : List (Sensor.Emis × Sensor.Rolls)) :
    Sensor.tagTargets (Sensor.surveyOf { cfg := .site err, m := m, trd := trd, mdl := mdl, site := s, xs := xs }) = [] := by
  simp [Sensor.surveyOf, Sensor.survey, Sensor.report, Sensor.tagTargets]

/-- **(a) whole-chain clause of C04 in the integrated simulation.**  Every tag request that reaches an
emission on day `n` of `simRun` was issued by the method at the program position named in the request
— a component-level (tagging) method, handing over its own reporting delay — on a survey of the
emission's site that the method's crews *completed* on that day (`Crew.deployDay` of that method's
plan of the day), and the sensor's report of that survey shows a measured rate > 0 at the emission's
component. -/
theorem sim_tag_chain (w : World) (prog : Program) (inp : Inputs) (info : EmInfo) (n : Nat)
    (e : Emission.TagEv) (h : Emission.Ev.tag e ∈ evTrace w prog inp info n) :
    ∃ t ∈ dayTraces w prog inp n, ∃ d ∈ t.dones,
      t.m = e.company ∧ prog[e.company]? = some t.cfg ∧ t.cfg.tags = true ∧ e.trd = t.cfg.trd ∧
      t.dd = deploy t.cfg inp n t.reqs ∧ d.out ∈ t.dd.out ∧ d.out.rep.complete = true ∧
      d.out.req.site = info.site ∧
      d.rep = Sensor.surveyOf d.sv ∧ d.sv.site = info.site ∧ d.sv.m = e.company ∧
      ∃ er ∈ d.rep.eqgs, ∃ cr ∈ er.comps, er.eqg = info.eqg ∧ cr.comp = info.comp ∧ cr.measured > 0 := by
  unfold evTrace evsOf at h
  obtain ⟨d, hd, hev⟩ := List.mem_flatMap.1 h
  unfold dayDones at hd
  obtain ⟨t, ht, hdt⟩ := List.mem_flatMap.1 hd
  obtain ⟨hprog, hdd, _, hdone⟩ := day_traces w prog inp n _ t ht
  obtain ⟨hout, hm, htrd, _, hsite, hcfg, _⟩ := hdone d hdt
  unfold evOfDone at hev
  rcases List.mem_append.1 hev with hev | hev
  · split at hev
    · rename_i hc
      simp only [List.mem_singleton, Emission.Ev.tag.injEq] at hev
      obtain ⟨hs, hcont⟩ := hc
      have hmem : (info.eqg, info.comp) ∈ Sensor.tagTargets d.rep := by
        rw [← d.htargets]; simpa using hcont
      have htags : t.cfg.tags = true := by
        cases htg : t.cfg.tags with
        | true => rfl
        | false =>
          exfalso
          have hc' : d.sv.cfg = .site t.cfg.err := by rw [hcfg]; simp [sensorCfg, htg]
          have : Sensor.tagTargets d.rep = [] := by
            rw [d.hrep]
            have hsv : d.sv = { cfg := .site t.cfg.err, m := d.sv.m, trd := d.sv.trd, mdl := d.sv.mdl,
                                site := d.sv.site, xs := d.sv.xs } := by
              cases hsv' : d.sv; simp_all
            rw [hsv]; exact site_survey_no_targets ..
          rw [this] at hmem; cases hmem
      have hcomp := List.mem_filter.1 hout
      refine ⟨t, ht, d, hdt, ?_, ?_, htags, ?_, hdd, hcomp.1, by simpa using hcomp.2, ?_, d.hrep, hs, ?_,
        mem_tagTargets d.rep _ _ hmem⟩
      · rw [hev, ← hm]
      · rw [hev]; simp only; rw [hm]; exact hprog
      · rw [hev]; exact htrd
      · rw [← hsite]; exact hs
      · rw [hev]
    · cases hev
  · split at hev
    · simp at hev
    · cases hev

end LdarModel.Sim
