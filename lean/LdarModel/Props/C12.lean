import LdarModel.Lemmas.Effects
import LdarModel.Generated.Effects
import LdarModel.Generated.Wiring
/-
C12 — seeded runs are reproducible and programs do not contaminate each other.

Model: `Model/Effects.lean` (tasks as effectful operation lists over private state, shared module state
and generator states; workers; schedules).  Tables: `Generated/Effects.lean`, regenerated from
LDAR_Sim/src by harness/extract/effects.py on every run; the three table obligations below are proved by
`decide` over them, so a source edit that adds an unseeded generator, a mutation of a module/class-level
container or removes a re-seed re-opens the proof.
-/
namespace LdarModel.Effects
open LdarModel.Generated.Effects (tables)

/-- the property at full strength: for every generator folder, every initial module state, every two
schedules (any partition of the tasks over worker processes, any order inside a worker, any initial state
of the three random generators of each worker — sequential mode is the one-worker schedule) whose tasks
perform only effects listed in the extracted tables (draws only at extracted call sites, before the day
loop only at extracted *prologue* sites; writes only to extracted shared containers; the infrastructure
objects are touched the way the extracted copy wiring says: privately iff `tables.privateCopy`) and
simulate at least one day,
(1) in each worker every task's output equals its output when run alone in a fresh process, and
(2) the two runs give every common task the same output. -/
def C12_statement : Prop :=
  ∀ (F : Folder) (sh0 : Nat → List Nat) (ws ws' : List Worker),
    (∀ w ∈ ws ++ ws', ∀ t ∈ w.tasks, conforms tables t.prog = true ∧ t.prog.body ≠ []) →
    (∀ w ∈ ws, runWorker tables.mode F w.tasks (w.env F sh0)
        = w.tasks.map (alone tables.mode F sh0)) ∧
    (∀ t o o', (t, o) ∈ results tables.mode F sh0 ws →
        (t, o') ∈ results tables.mode F sh0 ws' → o = o')

/-! ### table obligations (over the tables extracted from the source) -/

/-- every random-number call site reachable from a simulation run draws from the numpy global generator -/
theorem rng_all_seeded : tables.rngAllSeeded := by decide

/-- no function reachable from a simulation run mutates a module-level or class-level container -/
theorem no_shared_mutation : tables.noSharedMutation := by decide

/-- the day loop, the emission-generation loops and the infrastructure construction re-seed first -/
theorem consumers_reseeded : tables.consumersReseeded := by decide

/-- used by `C12`: the day-loop entry of `consumers_reseeded`.  Its other entries (emission-generation loops,
infrastructure construction) are SIDE obligations: they concern the set-up phase that produces the generator
folder, which the machine takes as given (`Folder`); C16/C17 own that phase. -/
theorem day_loop_reseeds : tables.dayLoopReseeds = true :=
  dayLoopReseeds_of_consumers tables consumers_reseeded

/-- every code shape the extractor reads its facts from was found (a restructured day loop, simulate(), ... shows
up here instead of stopping the check) -/
theorem patterns_found : tables.patternErrors = [] := by decide

/-- the saved daily seed series is re-used only under all three tests (length, first day, last day) -/
theorem seed_series_reuse_checked : tables.seedSeriesChecked := by decide

/-- why the three tests suffice: seed series are written as contiguous day ranges `[a, a+n)`; one that has as many
days as the simulated period `[s, s+n)` and contains its first and last day IS that period, so the day loop's lookup
`series[day]` is defined for every simulated day (the machine's `Folder.seed` is total) -/
theorem reused_series_covers_period (a s n : Int) (hs : a ≤ s ∧ s < a + n) (he : a ≤ s + n - 1 ∧ s + n - 1 < a + n) :
    a = s := by omega

/-- nothing random is lexically reachable from what a task runs before its first re-seed (constructors of the
program, its methods, sensors, schedules, crews, the output manager, `infra.setup`, the statements of
`run_simulation` before the loop): discharges the former `dayLoopForm` hypothesis statically -/
theorem prologue_clean : tables.prologueClean := by decide

/-- the task's private state is a fresh deep copy of the infrastructure it is handed: `simulate()` deep-copies
its argument and uses only the copy (own extraction AND C01's `Generated/Wiring.lean`), and every
`__reduce__`/`__setstate__`/... hook of a reachable class keeps deep-copy semantics; no `__deepcopy__` exists.
A flat `__deepcopy__`, a dropped copy or a reconstructor that re-introduces a shared object re-opens this. -/
theorem private_copy :
    tables.privateCopy = true ∧
    LdarModel.Generated.Wiring.simulateDeepCopies = true ∧
    LdarModel.Generated.Wiring.simulateUsesOnlyCopy = true := by decide

/-- reviewed non-RNG nondeterminism sources (file, function, kind) with the reason each cannot reach a
compared output; a new source (a `set` iteration, a directory listing, a wall-clock read, `id`/`hash`) in a
function that is not listed here re-opens `nondet_all_reviewed` -/
def reviewedNondet : List (String × String × NondetKind × String) := [
  ("file_processing/output_processing/program_output.py", "gen_estimated_comp_emissions_report", .setIteration,
    "rows added in set order carry a unique (site, equipment, component, date) key and the frame is sorted by exactly that key before any use"),
  ("scheduling/scheduled_survey_planner.py", "get_inactive_months", .setIteration,
    "set of the integers 1..12: integer hashing and insertion order are fixed, iteration order is the same in every process"),
  ("file_processing/output_processing/summary_output_helpers.py", "clear_directory", .dirListing,
    "every entry is handled independently (delete unless kept)"),
  ("file_processing/output_processing/summary_output_helpers.py", "mark_outputs_to_keep", .dirListing,
    "every entry is renamed independently"),
  ("file_processing/output_processing/summary_output_manager.py", "SummaryOutputManager.gen_summary_outputs", .dirListing,
    "decides the ROW ORDER of the three summary files only; the check compares summaries of different schedules as sorted rows (C14 owns listing order)"),
  ("file_processing/output_processing/summary_outputs.py", "summarize_program_outputs", .dirListing,
    "row order of a summary file only, as above"),
  ("initialization/args.py", "files_from_args", .dirListing, "command-line front end: parameter-file discovery, not part of run_ldar_sim (C18 owns intake order)"),
  ("initialization/args.py", "files_from_args_sens", .dirListing, "sensitivity command-line front end"),
  ("initialization/args.py", "files_from_path", .dirListing, "command-line front end, as above"),
  ("ldar_sim_run.py", "setup_logging", .wallClock, "names the log file only; Logs/ is excluded from every comparison"),
  ("simulation/simulation_helpers.py", "remove_non_preseed_files", .dirListing, "every entry is deleted independently")
]

theorem nondet_all_reviewed :
    tables.nondetReviewed (reviewedNondet.map (fun r => (r.1, r.2.1, r.2.2.1))) := by decide

theorem mode_eq : tables.mode = { reseed := true, copies := true } := by
  simp only [Tables.mode, day_loop_reseeds, private_copy.1]

/-! ### noninterference -/

/-- the mode of the theorems: the day loop re-seeds first and every task deep-copies its infrastructure -/
abbrev M1 : Mode := { reseed := true, copies := true }


/-- one worker process, general form: tasks may write shared containers as long as no task reads them
(`rel c = false`); then whatever ran before in this process (the process state `e` agrees with the freshly
imported module state on the relevant containers, its generators are in ANY state), every task's output
is its output when run alone.  Induction over the worker's task list. -/
theorem worker_noninterference (F : Folder) (sh0 : Nat → List Nat) (rel : Nat → Bool) :
    ∀ (tasks : List Task) (e : Env),
      (∀ c, rel c = true → e.shared c = sh0 c) → e.objs = F.objects →
      (∀ t ∈ tasks, t.prog.clean rel = true) →
      runWorker M1 F tasks e = tasks.map (alone M1 F sh0) := by
  intro tasks
  induction tasks with
  | nil => intro _ _ _ _; rfl
  | cons t r ih =>
    intro e hsh hobj hcl
    have hok := clean_ops_ok rel t.prog (hcl t (by simp))
    have hag : Agree rel false e { shared := sh0, objs := F.objects, np := 0, std := 0, oth := 0 } :=
      ⟨hsh, fun h => by cases h⟩
    have h1 := exec_agree t.sim (F.seed t.sim) rel (t.prog.ops true) false
      { acc := F.scenario t.sim, out := [], objs := F.objects t.sim } e _ hok hag
    have h2 := exec_shared_rel true t.sim (F.seed t.sim) rel (t.prog.ops true) false
      { acc := F.scenario t.sim, out := [], objs := F.objects t.sim } e hok
    have h3 := exec_objs t.sim (F.seed t.sim) (t.prog.ops true)
      { acc := F.scenario t.sim, out := [], objs := F.objects t.sim } e
    simp only [runWorker, List.map_cons]
    congr 1
    · simp only [runTask, alone, hobj]
      rw [h1.1]
    · apply ih
      · intro c hc
        simp only [runTask, hobj]
        rw [h2 c hc]
        exact hsh c hc
      · simp only [runTask, hobj]
        rw [h3]
        exact hobj
      · intro t' ht'
        exact hcl t' (by simp [ht'])

/-- every schedule, general form (output-irrelevance lemma for written-but-never-read containers) -/
theorem noninterference_irrelevant (F : Folder) (sh0 : Nat → List Nat) (rel : Nat → Bool) (ws : List Worker)
    (h : ∀ w ∈ ws, ∀ t ∈ w.tasks, t.prog.clean rel = true) :
    runSchedule M1 F sh0 ws = ws.map (fun w => w.tasks.map (alone M1 F sh0)) := by
  simp only [runSchedule]
  apply List.map_congr_left
  intro w hw
  exact worker_noninterference F sh0 rel w.tasks (w.env F sh0) (fun _ _ => rfl) rfl (h w hw)

/-- every schedule, strict form: no task writes any shared container -/
theorem noninterference (F : Folder) (sh0 : Nat → List Nat) (ws : List Worker)
    (h : ∀ w ∈ ws, ∀ t ∈ w.tasks, t.prog.clean (fun _ => true) = true) :
    runSchedule M1 F sh0 ws = ws.map (fun w => w.tasks.map (alone M1 F sh0)) :=
  noninterference_irrelevant F sh0 (fun _ => true) ws h

private theorem zip_map_self {α β : Type} (f : α → β) : ∀ l : List α, l.zip (l.map f) = l.map (fun t => (t, f t))
  | [] => rfl
  | a :: l => by simp [zip_map_self f l]

/-- the (task, output) pairs of a whole run do not depend on the schedule -/
theorem results_eq (F : Folder) (sh0 : Nat → List Nat) (rel : Nat → Bool) (ws : List Worker)
    (h : ∀ w ∈ ws, ∀ t ∈ w.tasks, t.prog.clean rel = true) :
    results M1 F sh0 ws = (ws.flatMap (·.tasks)).map (fun t => (t, alone M1 F sh0 t)) := by
  simp only [results]
  induction ws with
  | nil => rfl
  | cons w r ih =>
    simp only [List.flatMap_cons, List.map_append]
    rw [ih (fun w' hw' => h w' (by simp [hw']))]
    rw [worker_noninterference F sh0 rel w.tasks (w.env F sh0) (fun _ _ => rfl) rfl (h w (by simp))]
    rw [zip_map_self]

/-- two runs from the same generator folder — any two schedules, any generator states at process start —
give every common task the same output -/
theorem reproducible (F : Folder) (sh0 : Nat → List Nat) (rel : Nat → Bool) (ws ws' : List Worker)
    (h : ∀ w ∈ ws, ∀ t ∈ w.tasks, t.prog.clean rel = true)
    (h' : ∀ w ∈ ws', ∀ t ∈ w.tasks, t.prog.clean rel = true)
    (t : Task) (o o' : List Nat)
    (ho : (t, o) ∈ results M1 F sh0 ws) (ho' : (t, o') ∈ results M1 F sh0 ws') : o = o' := by
  rw [results_eq F sh0 rel ws h] at ho
  rw [results_eq F sh0 rel ws' h'] at ho'
  simp only [List.mem_map, Prod.mk.injEq] at ho ho'
  obtain ⟨a, _, ha1, ha2⟩ := ho
  obtain ⟨b, _, hb1, hb2⟩ := ho'
  subst ha1 hb1
  rw [← ha2, ← hb2]

/-- C12 for the code base as extracted: the hypotheses of noninterference are discharged from the tables -/
theorem C12 : C12_statement := by
  intro F sh0 ws ws' hall
  rw [mode_eq]
  have hclean : ∀ w ∈ ws ++ ws', ∀ t ∈ w.tasks, t.prog.clean (fun _ => true) = true := by
    intro w hw t ht
    have := hall w hw t ht
    exact conforms_clean tables t.prog rng_all_seeded no_shared_mutation this.1
      (conforms_dayLoopForm tables t.prog prologue_clean this.1 this.2)
  refine ⟨?_, ?_⟩
  · intro w hw
    exact worker_noninterference F sh0 (fun _ => true) w.tasks (w.env F sh0) (fun _ _ => rfl) rfl
      (hclean w (by simp [hw]))
  · intro t o o' ho ho'
    exact reproducible F sh0 (fun _ => true) ws ws'
      (fun w hw => hclean w (by simp [hw])) (fun w hw => hclean w (by simp [hw])) t o o' ho ho'

/-! ### each hypothesis is needed (concrete witnesses on the executable model; these are the four defect
classes the differential runs look for) -/

private def F0 : Folder :=
  { seed := fun sim d => 100 * sim + d + 1, scenario := fun sim => sim + 3, objects := fun _ _ => [] }
private def sh00 : Nat → List Nat := fun _ => []
private def E0 (np std : Nat) : Env := { shared := sh00, objs := F0.objects, np := np, std := std, oth := 0 }
private def M0 : Mode := { reseed := false, copies := true }
private def Mflat : Mode := { reseed := true, copies := false }

/-- a draw from the never-seeded stdlib generator: the same task gives different outputs in two processes
(F6: `from random import choice` in method.py) -/
theorem C12_needs_seeded_generator :
    let t : Task := { prog := { prologue := [], body := [[.draw .stdlibRandom, .emit]], epilogue := [] }, sim := 0 }
    runWorker M1 F0 [t] (E0 0 1) ≠ runWorker M1 F0 [t] (E0 0 2) := by
  decide +kernel

/-- a run that appends to a shared container which a later run reads: the later task's output differs from
its output alone (F6: `_init_ts_columns` appends to the module-level TIMESERIES_COLUMNS) -/
theorem C12_needs_no_shared_mutation :
    let a : Task := { prog := { prologue := [.write 0 5], body := [[.emit]], epilogue := [] }, sim := 0 }
    let b : Task := { prog := { prologue := [.read 0], body := [[.emit]], epilogue := [] }, sim := 0 }
    (runWorker M1 F0 [a, b] (E0 0 0)).getLast? ≠ some (alone M1 F0 sh00 b) := by
  decide +kernel

/-- the daily re-seed removed: outputs depend on the generator state the process started with -/
theorem C12_needs_day_loop_reseed :
    let t : Task := { prog := { prologue := [], body := [[.draw .numpyGlobal, .emit]], epilogue := [] }, sim := 0 }
    runWorker M0 F0 [t] (E0 1 0) ≠ runWorker M0 F0 [t] (E0 2 0) := by
  decide +kernel

/-- a draw before the first re-seed (outside day-loop form) -/
theorem C12_needs_day_loop_form :
    let t : Task := { prog := { prologue := [.draw .numpyGlobal], body := [[.emit]], epilogue := [] }, sim := 0 }
    runWorker M1 F0 [t] (E0 1 0) ≠ runWorker M1 F0 [t] (E0 2 0) := by
  decide +kernel

/-- the deep copy flattened or dropped (`copies = false`): a sticky per-object roll stored by one program is
seen by the next program of the same simulation in the same process — its output differs from its output
alone, while two tasks of DIFFERENT simulations, or the same two tasks in two processes, do not interfere
(seeded defect class: flat `Emission.__deepcopy__` sharing `_tech_spat_covs`) -/
theorem C12_needs_private_copy :
    let a : Task := { prog := { prologue := [], body := [[.touch 3 1, .emit]], epilogue := [] }, sim := 0 }
    let b : Task := { prog := { prologue := [], body := [[.look 3, .emit]], epilogue := [] }, sim := 0 }
    let b1 : Task := { b with sim := 1 }
    (runWorker Mflat F0 [a, b] (E0 0 0)).getLast? ≠ some (alone Mflat F0 sh00 b) ∧
    (runWorker Mflat F0 [a, b1] (E0 0 0)).getLast? = some (alone Mflat F0 sh00 b1) ∧
    (runWorker M1 F0 [a, b] (E0 0 0)).getLast? = some (alone M1 F0 sh00 b) := by
  decide +kernel

/-- non-vacuity: two stochastic programs that satisfy the hypotheses of `C12` (they conform to the
extracted tables and simulate at least one day), touching and reading infrastructure objects, run in two
different schedules with different generator states: same outputs, and the outputs do depend on the draws -/
example :
    let p1 : Prog := { prologue := [.comp 1, .touch 2 9], body := [[.draw .numpyGlobal, .look 2, .emit], [.draw .numpyGlobal, .comp 2, .emit]], epilogue := [.emit] }
    let p2 : Prog := { prologue := [.read 3], body := [[.draw .numpyGlobal, .draw .numpyGlobal, .look 2, .emit], [.emit]], epilogue := [] }
    let t1 : Task := { prog := p1, sim := 0 }
    let t2 : Task := { prog := p2, sim := 0 }
    conforms tables p1 = true ∧ conforms tables p2 = true ∧ p1.body ≠ [] ∧ p2.body ≠ [] ∧
    runSchedule tables.mode F0 sh00 [{ np := 5, std := 6, oth := 7, tasks := [t1, t2] }]
      = [[alone tables.mode F0 sh00 t1, alone tables.mode F0 sh00 t2]] ∧
    runSchedule tables.mode F0 sh00 [{ np := 1, std := 1, oth := 1, tasks := [t2] }, { np := 9, std := 9, oth := 9, tasks := [t1] }]
      = [[alone tables.mode F0 sh00 t2], [alone tables.mode F0 sh00 t1]] ∧
    alone tables.mode F0 sh00 t1 ≠ alone tables.mode { F0 with seed := fun _ d => d + 50 } sh00 t1 := by
  decide +kernel

end LdarModel.Effects
