import LdarModel.Lemmas.Effects
import LdarModel.Generated.Effects
/-
C12 — seeded runs are reproducible and programs do not contaminate each other.

Model: `Model/Effects.lean` (tasks as effectful operation lists over private state, shared module state
and generator states; workers; schedules).  Tables: `Generated/Effects.lean`, regenerated from
LDAR_Sim/src by harness/extract/effects.py on every run; the three table obligations below are proved by
`decide` over them, so a source edit that adds an unseeded generator, a mutation of a module/class-level
container or removes a re-seed re-opens the proof.
-/
namespace LdarModel.Effects
open LdarModel.Generated.Effects (tables)

/-- the property at full strength: for every generator folder, every initial module state, every two
schedules (any partition of the tasks over worker processes, any order inside a worker, any initial state
of the three random generators of each worker — sequential mode is the one-worker schedule) whose tasks
perform only effects listed in the extracted tables and draw nothing before the day loop,
(1) in each worker every task's output equals its output when run alone in a fresh process, and
(2) the two runs give every common task the same output. -/
def C12_statement : Prop :=
  ∀ (F : Folder) (sh0 : Nat → List Nat) (ws ws' : List Worker),
    (∀ w ∈ ws ++ ws', ∀ t ∈ w.tasks, conforms tables t.prog = true ∧ t.prog.dayLoopForm = true) →
    (∀ w ∈ ws, runWorker tables.dayLoopReseeds F w.tasks (w.env sh0)
        = w.tasks.map (alone tables.dayLoopReseeds F sh0)) ∧
    (∀ t o o', (t, o) ∈ results tables.dayLoopReseeds F sh0 ws →
        (t, o') ∈ results tables.dayLoopReseeds F sh0 ws' → o = o')

/-! ### table obligations (over the tables extracted from the source) -/

/-- every random-number call site reachable from a simulation run draws from the numpy global generator -/
theorem rng_all_seeded : tables.rngAllSeeded := by decide

/-- no function reachable from a simulation run mutates a module-level or class-level container -/
theorem no_shared_mutation : tables.noSharedMutation := by decide

/-- the day loop, the emission-generation loops and the infrastructure construction re-seed first -/
theorem consumers_reseeded : tables.consumersReseeded := by decide

theorem day_loop_reseeds : tables.dayLoopReseeds = true := by decide

/-! ### noninterference -/

/-- one worker process, general form: tasks may write shared containers as long as no task reads them
(`rel c = false`); then whatever ran before in this process (the process state `e` agrees with the freshly
imported module state on the relevant containers, its generators are in ANY state), every task's output
is its output when run alone.  Induction over the worker's task list. -/
theorem worker_noninterference (F : Folder) (sh0 : Nat → List Nat) (rel : Nat → Bool) :
    ∀ (tasks : List Task) (e : Env),
      (∀ c, rel c = true → e.shared c = sh0 c) →
      (∀ t ∈ tasks, t.prog.clean rel = true) →
      runWorker true F tasks e = tasks.map (alone true F sh0) := by
  intro tasks
  induction tasks with
  | nil => intro _ _ _; rfl
  | cons t r ih =>
    intro e hsh hcl
    have hok := clean_ops_ok rel t.prog (hcl t (by simp))
    have hag : Agree rel false e { shared := sh0, np := 0, std := 0, oth := 0 } :=
      ⟨hsh, fun h => by cases h⟩
    have h1 := exec_agree (F.seed t.sim) rel (t.prog.ops true) false
      { acc := F.scenario t.sim, out := [] } e _ hok hag
    have h2 := exec_shared_rel (F.seed t.sim) rel (t.prog.ops true) false
      { acc := F.scenario t.sim, out := [] } e hok
    simp only [runWorker, List.map_cons]
    congr 1
    · simp only [runTask, alone]
      rw [h1.1]
    · apply ih
      · intro c hc
        simp only [runTask]
        rw [h2 c hc]
        exact hsh c hc
      · intro t' ht'
        exact hcl t' (by simp [ht'])

/-- every schedule, general form (output-irrelevance lemma for written-but-never-read containers) -/
theorem noninterference_irrelevant (F : Folder) (sh0 : Nat → List Nat) (rel : Nat → Bool) (ws : List Worker)
    (h : ∀ w ∈ ws, ∀ t ∈ w.tasks, t.prog.clean rel = true) :
    runSchedule true F sh0 ws = ws.map (fun w => w.tasks.map (alone true F sh0)) := by
  simp only [runSchedule]
  apply List.map_congr_left
  intro w hw
  exact worker_noninterference F sh0 rel w.tasks (w.env sh0) (fun _ _ => rfl) (h w hw)

/-- every schedule, strict form: no task writes any shared container -/
theorem noninterference (F : Folder) (sh0 : Nat → List Nat) (ws : List Worker)
    (h : ∀ w ∈ ws, ∀ t ∈ w.tasks, t.prog.clean (fun _ => true) = true) :
    runSchedule true F sh0 ws = ws.map (fun w => w.tasks.map (alone true F sh0)) :=
  noninterference_irrelevant F sh0 (fun _ => true) ws h

private theorem zip_map_self {α β : Type} (f : α → β) : ∀ l : List α, l.zip (l.map f) = l.map (fun t => (t, f t))
  | [] => rfl
  | a :: l => by simp [zip_map_self f l]

/-- the (task, output) pairs of a whole run do not depend on the schedule -/
theorem results_eq (F : Folder) (sh0 : Nat → List Nat) (rel : Nat → Bool) (ws : List Worker)
    (h : ∀ w ∈ ws, ∀ t ∈ w.tasks, t.prog.clean rel = true) :
    results true F sh0 ws = (ws.flatMap (·.tasks)).map (fun t => (t, alone true F sh0 t)) := by
  simp only [results]
  induction ws with
  | nil => rfl
  | cons w r ih =>
    simp only [List.flatMap_cons, List.map_append]
    rw [ih (fun w' hw' => h w' (by simp [hw']))]
    rw [worker_noninterference F sh0 rel w.tasks (w.env sh0) (fun _ _ => rfl) (h w (by simp))]
    rw [zip_map_self]

/-- two runs from the same generator folder — any two schedules, any generator states at process start —
give every common task the same output -/
theorem reproducible (F : Folder) (sh0 : Nat → List Nat) (rel : Nat → Bool) (ws ws' : List Worker)
    (h : ∀ w ∈ ws, ∀ t ∈ w.tasks, t.prog.clean rel = true)
    (h' : ∀ w ∈ ws', ∀ t ∈ w.tasks, t.prog.clean rel = true)
    (t : Task) (o o' : List Nat)
    (ho : (t, o) ∈ results true F sh0 ws) (ho' : (t, o') ∈ results true F sh0 ws') : o = o' := by
  rw [results_eq F sh0 rel ws h] at ho
  rw [results_eq F sh0 rel ws' h'] at ho'
  simp only [List.mem_map, Prod.mk.injEq] at ho ho'
  obtain ⟨a, _, ha1, ha2⟩ := ho
  obtain ⟨b, _, hb1, hb2⟩ := ho'
  subst ha1 hb1
  rw [← ha2, ← hb2]

/-- C12 for the code base as extracted: the hypotheses of noninterference are discharged from the tables -/
theorem C12 : C12_statement := by
  intro F sh0 ws ws' hall
  rw [day_loop_reseeds]
  have hclean : ∀ w ∈ ws ++ ws', ∀ t ∈ w.tasks, t.prog.clean (fun _ => true) = true := by
    intro w hw t ht
    have := hall w hw t ht
    exact conforms_clean tables t.prog rng_all_seeded no_shared_mutation this.1 this.2
  refine ⟨?_, ?_⟩
  · intro w hw
    exact worker_noninterference F sh0 (fun _ => true) w.tasks (w.env sh0) (fun _ _ => rfl)
      (hclean w (by simp [hw]))
  · intro t o o' ho ho'
    exact reproducible F sh0 (fun _ => true) ws ws'
      (fun w hw => hclean w (by simp [hw])) (fun w hw => hclean w (by simp [hw])) t o o' ho ho'

/-! ### each hypothesis is needed (concrete witnesses on the executable model; these are the four defect
classes the differential runs look for) -/

private def F0 : Folder := { seed := fun sim d => 100 * sim + d + 1, scenario := fun sim => sim + 3 }
private def sh00 : Nat → List Nat := fun _ => []

/-- a draw from the never-seeded stdlib generator: the same task gives different outputs in two processes
(F6: `from random import choice` in method.py) -/
theorem C12_needs_seeded_generator :
    let t : Task := { prog := { prologue := [], body := [[.draw .stdlibRandom, .emit]], epilogue := [] }, sim := 0 }
    runWorker true F0 [t] { shared := sh00, np := 0, std := 1, oth := 0 }
      ≠ runWorker true F0 [t] { shared := sh00, np := 0, std := 2, oth := 0 } := by
  decide +kernel

/-- a run that appends to a shared container which a later run reads: the later task's output differs from
its output alone (F6: `_init_ts_columns` appends to the module-level TIMESERIES_COLUMNS) -/
theorem C12_needs_no_shared_mutation :
    let a : Task := { prog := { prologue := [.write 0 5], body := [[.emit]], epilogue := [] }, sim := 0 }
    let b : Task := { prog := { prologue := [.read 0], body := [[.emit]], epilogue := [] }, sim := 0 }
    (runWorker true F0 [a, b] { shared := sh00, np := 0, std := 0, oth := 0 }).getLast?
      ≠ some (alone true F0 sh00 b) := by
  decide +kernel

/-- the daily re-seed removed: outputs depend on the generator state the process started with -/
theorem C12_needs_day_loop_reseed :
    let t : Task := { prog := { prologue := [], body := [[.draw .numpyGlobal, .emit]], epilogue := [] }, sim := 0 }
    runWorker false F0 [t] { shared := sh00, np := 1, std := 0, oth := 0 }
      ≠ runWorker false F0 [t] { shared := sh00, np := 2, std := 0, oth := 0 } := by
  decide +kernel

/-- a draw before the first re-seed (outside day-loop form) -/
theorem C12_needs_day_loop_form :
    let t : Task := { prog := { prologue := [.draw .numpyGlobal], body := [[.emit]], epilogue := [] }, sim := 0 }
    runWorker true F0 [t] { shared := sh00, np := 1, std := 0, oth := 0 }
      ≠ runWorker true F0 [t] { shared := sh00, np := 2, std := 0, oth := 0 } := by
  decide +kernel

/-- non-vacuity: two stochastic programs that satisfy the hypotheses of `C12` (they conform to the
extracted tables and are in day-loop form), run in two different schedules with different generator
states: same outputs, and the outputs do depend on the draws (the seed matters) -/
example :
    let p1 : Prog := { prologue := [.comp 1], body := [[.draw .numpyGlobal, .emit], [.draw .numpyGlobal, .comp 2, .emit]], epilogue := [.emit] }
    let p2 : Prog := { prologue := [.read 3], body := [[.draw .numpyGlobal, .draw .numpyGlobal, .emit], [.emit]], epilogue := [] }
    let t1 : Task := { prog := p1, sim := 0 }
    let t2 : Task := { prog := p2, sim := 1 }
    conforms tables p1 = true ∧ conforms tables p2 = true ∧ p1.dayLoopForm = true ∧ p2.dayLoopForm = true ∧
    runSchedule true F0 sh00 [{ np := 5, std := 6, oth := 7, tasks := [t1, t2] }]
      = [[alone true F0 sh00 t1, alone true F0 sh00 t2]] ∧
    runSchedule true F0 sh00 [{ np := 1, std := 1, oth := 1, tasks := [t2] }, { np := 9, std := 9, oth := 9, tasks := [t1] }]
      = [[alone true F0 sh00 t2], [alone true F0 sh00 t1]] ∧
    alone true F0 sh00 t1 ≠ alone true { F0 with seed := fun _ d => d + 50 } sh00 t1 := by
  decide +kernel

end LdarModel.Effects
