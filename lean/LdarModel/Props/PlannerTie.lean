/-
Layer 3 tie for the routine-survey guard (C06; DESIGN.md §10.21).

`Generated/PlannerSrc.lean` is the translation of `queue_site_for_survey` (routine / mobile and
stationary planners) and `add_to_surveys_done`, rewritten from /repo's source on every run.  The
theorems say that, for every planner object related (`Rel`) to a model planner `(p, dt, s)`, the
translated guard returns `Sched.guardRoutine` / `guardStationary`, sets `_queued` exactly when it
returns True, and that `add_to_surveys_done` is `Sched.finish`.
-/
import LdarModel.Generated.PlannerSrc
import LdarModel.Model.Planner

namespace LdarModel.PlannerTie
open LdarModel.Sched LdarModel.PlannerSrc

/-- the planner object `o` shows the model planner `(p, s)` on the date `dt` -/
def Rel (o : Obj) (p : PlannerP) (dt : Date) (s : PlannerS) : Prop :=
  o.year_ok = decide (dt.y ∈ p.depYears) ∧ o.month_ok = decide (dt.m ∈ p.months) ∧ o.queued = s.queued ∧
  o.cur_year = (dt.y : Int) ∧ o.cur_month = (dt.m : Int) ∧ o.cur_day = (dt.d : Int) ∧
  o.done_ (dt.y : Int) = (done s dt.y : Int) ∧ o.required (dt.y : Int) = (required p dt.y : Int) ∧
  ∀ (i : Nat) (hi : i < p.plan.length),
    o.plan_month (i : Int) = ((p.plan[i]).1 : Int) ∧ o.plan_day (i : Int) = ((p.plan[i]).2 : Int)

theorem lexcast (a b c d : Nat) :
    (((a : Int) < (c : Int)) ∨ (((a : Int) = (c : Int)) ∧ ((b : Int) ≤ (d : Int)))) ↔ mdLe (a, b) (c, d) := by
  unfold mdLe; simp only [Int.ofNat_lt, Int.ofNat_le, Int.ofNat_inj]

/-- **`ScheduledSurveyPlanner.queue_site_for_survey` is `guardRoutine`** (the plan has an entry for every
required survey: `_gen_survey_plan` creates `site_annual_rs` of them), for the base class and as inherited
by `MobileSurveyPlanner` -/
theorem routine_guard (o : Obj) (p : PlannerP) (dt : Date) (s : PlannerS) (h : Rel o p dt s)
    (hlen : required p dt.y ≤ p.plan.length) :
    (Routine.queue_site_for_survey o).2 = guardRoutine p dt s
    ∧ (Routine.queue_site_for_survey o).1.queued = (s.queued || guardRoutine p dt s) := by
  obtain ⟨hy, hm, hq, hcy, hcm, hcd, hd, hr, hp⟩ := h
  unfold guardRoutine
  simp only [Routine.queue_site_for_survey, ScheduledSurveyPlanner__ScheduledSurveyPlanner__queue_site_for_survey,
    ScheduledSurveyPlanner__ScheduledSurveyPlanner___check_deployable_year,
    ScheduledSurveyPlanner__ScheduledSurveyPlanner___check_deployable_month, hy, hm, hq, hcy, hcm, hcd, hd, hr]
  by_cases c1 : dt.y ∈ p.depYears
  · by_cases c2 : dt.m ∈ p.months
    · by_cases c3 : s.queued = true
      · simp [c1, c2, c3, hq]
      · by_cases c4 : done s dt.y < required p dt.y
        · have hi : done s dt.y < p.plan.length := by omega
          obtain ⟨pm, pd⟩ := hp _ hi
          have c4' : (required p dt.y : Int) > (done s dt.y : Int) := by exact_mod_cast c4
          have c3' : s.queued = false := by simpa using c3
          simp only [c1, c2, c3', c4, c4', pm, pd, List.getElem?_eq_getElem hi, lexcast]
          by_cases c5 : mdLe (p.plan[done s dt.y]) (dt.m, dt.d)
          · simp [c5]
          · simp [c5, hq, c3']
        · have c4' : ¬ ((required p dt.y : Int) > (done s dt.y : Int)) := by
            intro c; apply c4; exact_mod_cast c
          have c3' : s.queued = false := by simpa using c3
          simp [c1, c2, c3', c4, c4', hq]
    · simp [c1, c2, hq]
  · simp [c1, hq]

theorem mobile_guard (o : Obj) (p : PlannerP) (dt : Date) (s : PlannerS) (h : Rel o p dt s)
    (hlen : required p dt.y ≤ p.plan.length) :
    (Mobile.queue_site_for_survey o).2 = guardRoutine p dt s
    ∧ (Mobile.queue_site_for_survey o).1.queued = (s.queued || guardRoutine p dt s) := by
  obtain ⟨hy, hm, hq, hcy, hcm, hcd, hd, hr, hp⟩ := h
  unfold guardRoutine
  simp only [Mobile.queue_site_for_survey, MobileSurveyPlanner__ScheduledSurveyPlanner__queue_site_for_survey,
    MobileSurveyPlanner__ScheduledSurveyPlanner___check_deployable_year,
    MobileSurveyPlanner__ScheduledSurveyPlanner___check_deployable_month, hy, hm, hq, hcy, hcm, hcd, hd, hr]
  by_cases c1 : dt.y ∈ p.depYears
  · by_cases c2 : dt.m ∈ p.months
    · by_cases c3 : s.queued = true
      · simp [c1, c2, c3, hq]
      · by_cases c4 : done s dt.y < required p dt.y
        · have hi : done s dt.y < p.plan.length := by omega
          obtain ⟨pm, pd⟩ := hp _ hi
          have c4' : (required p dt.y : Int) > (done s dt.y : Int) := by exact_mod_cast c4
          have c3' : s.queued = false := by simpa using c3
          simp only [c1, c2, c3', c4, c4', pm, pd, List.getElem?_eq_getElem hi, lexcast]
          by_cases c5 : mdLe (p.plan[done s dt.y]) (dt.m, dt.d)
          · simp [c5]
          · simp [c5, hq, c3']
        · have c4' : ¬ ((required p dt.y : Int) > (done s dt.y : Int)) := by
            intro c; apply c4; exact_mod_cast c
          have c3' : s.queued = false := by simpa using c3
          simp [c1, c2, c3', c4, c4', hq]
    · simp [c1, c2, hq]
  · simp [c1, hq]

/-- **`StationarySurveyPlanner.queue_site_for_survey` is `guardStationary`** -/
theorem stationary_guard (o : Obj) (p : PlannerP) (dt : Date) (s : PlannerS) (h : Rel o p dt s) :
    (Stationary.queue_site_for_survey o).2 = guardStationary p dt s
    ∧ (Stationary.queue_site_for_survey o).1.queued = (s.queued || guardStationary p dt s) := by
  obtain ⟨hy, hm, hq, hcy, hcm, hcd, hd, hr, hp⟩ := h
  by_cases c1 : dt.y ∈ p.depYears <;> by_cases c2 : dt.m ∈ p.months <;> by_cases c3 : s.queued = true
    <;> by_cases c4 : 0 < required p dt.y
    <;> simp [guardStationary, hy, hm, hq, hcy, hr, c1, c2, c3, c4] <;> simp_all <;> omega

/-- **`add_to_surveys_done(current_date)` is `finish current_date.year`**: the counter of that year (and
of no other year) grows by one, the queued flag and the active report are cleared -/
theorem add_done (o : Obj) (y : Nat) (s : PlannerS) (hy : o.arg_year = (y : Int))
    (hd : ∀ k : Nat, o.done_ (k : Int) = (done s k : Int)) :
    let o' := (Routine.add_to_surveys_done o).1
    (∀ k : Nat, o'.done_ (k : Int) = (done (finish y s) k : Int))
    ∧ o'.queued = (finish y s).queued ∧ o'.active_survey_report = none ∧ (finish y s).rep = none
    ∧ (Stationary.add_to_surveys_done o).1.queued = false
    ∧ (∀ k : Nat, (Stationary.add_to_surveys_done o).1.done_ (k : Int) = (done (finish y s) k : Int)) := by
  have key : ∀ k : Nat, (if (k : Int) = o.arg_year then o.done_ o.arg_year + 1 else o.done_ (k : Int))
      = (done (finish y s) k : Int) := by
    intro k
    by_cases hk : k = y
    · subst hk; simp [hy, hd, done, finish, List.count_cons]
    · have : ¬ ((k : Int) = (y : Int)) := by intro c; apply hk; exact_mod_cast c
      have hne : (y == k) = false := by simp; omega
      simp [hy, hd, done, finish, List.count_cons, this, hne]
  simp [finish]
  exact key

theorem all_translated : PlannerSrc.untranslated = [] := by decide

/-- the mobile planner inherits both methods, the stationary planner overrides the guard only -/
theorem owners_as_modelled : PlannerSrc.owners =
    [("ScheduledSurveyPlanner", "ScheduledSurveyPlanner", "ScheduledSurveyPlanner"),
     ("MobileSurveyPlanner", "ScheduledSurveyPlanner", "ScheduledSurveyPlanner"),
     ("StationarySurveyPlanner", "StationarySurveyPlanner", "ScheduledSurveyPlanner")] := by decide

end LdarModel.PlannerTie

/-! non-vacuity: a concrete planner object related to a concrete model planner on 15 March 2023 (two
surveys required, none done, first plan date 1 March): the guard fires, on both sides -/
namespace LdarModel.PlannerTie
open LdarModel.Sched LdarModel.PlannerSrc

def exP : PlannerP := { rs := 2, months := [3, 4], depYears := [2023], simYears := [2023], plan := [(3, 1), (9, 1)] }
def exO : Obj :=
  { queued := false, active_survey_report := none, year_ok := true, month_ok := true, cur_year := 2023,
    cur_month := 3, cur_day := 15, arg_year := 2023, required := fun y => if y = 2023 then 2 else 0,
    done_ := fun _ => 0, plan_month := fun i => if i = 0 then 3 else 9, plan_day := fun _ => 1 }

example : Rel exO exP { y := 2023, m := 3, d := 15 } {} := by
  refine ⟨by decide, by decide, rfl, rfl, rfl, rfl, by decide, by decide, ?_⟩
  intro i hi
  have : i = 0 ∨ i = 1 := by simp [exP] at hi; omega
  rcases this with h | h <;> subst h <;> simp [exO, exP]

example : guardRoutine exP { y := 2023, m := 3, d := 15 } {} = true
    ∧ (Routine.queue_site_for_survey exO).2 = true := by decide

end LdarModel.PlannerTie
