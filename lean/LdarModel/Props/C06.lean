import LdarModel.Lemmas.Sched
/-
C06 — survey frequency contract.

Model: `Model/Planner.lean` (`guardRoutine`, `guardStationary`, `required`, `done`, `scheduleDay`,
`runDays`).  Dates are inputs `(year, month, day)` of each simulated day; the evenly spaced plan
dates are an input list of the planner.  A history is a list of days with the crew outcome of every
planned request as input.
-/
namespace LdarModel.Sched

set_option linter.unusedSimpArgs false
set_option linter.unusedVariables false

/-- calendar order of the simulated days as far as the counters care: years never decrease -/
def Chrono (ds : List DayIn) : Prop := ds.Pairwise (fun a b => a.date.y ≤ b.date.y)

/-- the work plan of a day -/
def planOn (c : Cfg) (d : DayIn) (s : State) : List Nat := planKeys c (requestPhase c d.date s)

/-! ### calendar lemmas for the simulated years -/

/-- a one-day simulation has exactly its own year -/
theorem simYearsOf_single_day (d : Date) : simYearsOf d d = [d.y] := by
  unfold simYearsOf
  simp only
  rw [if_neg (by omega)]
  have h : d.y + 1 - d.y = 1 := by omega
  rw [h]; simp [List.range_succ]

/-- shifting a period by exactly one year shifts its years by one -/
theorem simYearsOf_shift (a b : Date) (hb : 1 ≤ b.y) :
    simYearsOf { a with y := a.y + 1 } { b with y := b.y + 1 } = (simYearsOf a b).map (· + 1) := by
  unfold simYearsOf
  simp only
  split
  · have h : b.y + 1 - 1 + 1 - (a.y + 1) = b.y - 1 + 1 - a.y := by omega
    rw [h, List.map_map]
    apply List.map_congr_left
    intro x _; simp only [Function.comp]; omega
  · have h : b.y + 1 + 1 - (a.y + 1) = b.y + 1 - a.y := by omega
    rw [h, List.map_map]
    apply List.map_congr_left
    intro x _; simp only [Function.comp]; omega

/-- a period that ends before the anniversary of its start date does not count its last calendar year
(the trailing partial year of known finding F12) -/
theorem simYearsOf_trailing_partial (a b : Date) (hb : 1 ≤ b.y) (h : a.m > b.m ∨ (a.m = b.m ∧ a.d > b.d)) :
    b.y ∉ simYearsOf a b := by
  unfold simYearsOf
  simp only [h, if_true, List.mem_map, List.mem_range]
  intro ⟨x, hx, he⟩
  omega

/-! ### 1. requests are issued only under the guard -/

/-- a routine request is issued only for a planner of the method, on a day whose year is a
deployment year and whose month is a deployment month, with `done < required` for that year, no
outstanding request, and the plan date of the next survey reached -/
theorem requests_guarded (c : Cfg) (hk : c.kind = .routine) (s : State) (dt : Date) (i : Nat)
    (hi : i ∈ issued c dt s) :
    i ∈ c.sites ∧ dt.y ∈ (c.P i).depYears ∧ dt.m ∈ (c.P i).months ∧ (s.pl i).queued = false ∧
    done (s.pl i) dt.y < required (c.P i) dt.y ∧
    ∃ pd, (c.P i).plan[done (s.pl i) dt.y]? = some pd ∧ mdLe pd (dt.m, dt.d) := by
  unfold issued at hi
  rw [List.mem_filter] at hi
  obtain ⟨hs, hg⟩ := hi
  simp only [hk, guardK, guardRoutine, Bool.and_eq_true, decide_eq_true_eq, Bool.not_eq_true'] at hg
  obtain ⟨⟨⟨⟨h1, h2⟩, h3⟩, h4⟩, h5⟩ := hg
  refine ⟨hs, h1, h2, h3, h4, ?_⟩
  cases hp : (c.P i).plan[done (s.pl i) dt.y]? with
  | none => rw [hp] at h5; exact Bool.noConfusion h5
  | some pd => rw [hp] at h5; exact ⟨pd, rfl, by simpa using h5⟩

/-- the queue receives exactly the issued requests -/
theorem requests_enter_queue (c : Cfg) (dt : Date) (s : State) (h : Inv s) :
    (requestPhase c dt s).q.sites.Perm (s.q.sites ++ issued c dt s) := by
  have := putAll_sites s.q h.qwf ((issued c dt s).map (fun i => (prioNew, (0 : Int), i)))
  simp only [List.map_map, Function.comp_def, List.map_id'] at this
  unfold requestPhase
  simp only [foldl_issue_eq]
  exact this

/-- where the method is not deployed at the site (or the site has no frequency for a mobile method)
the planner built by the schedule requires 0 surveys in every year and never issues a request —
routine and stationary schedules (`generic_schedule.py:60-83`, `stationary_schedule.py`) -/
theorem not_deployed_never_requested (stationary : Bool) (freq : Option Nat) (deploy : Bool)
    (months years : List Nat) (plan : List (Nat × Nat)) (S : Int) (a b : Date)
    (hnd : deploy = false ∨ (stationary = false ∧ freq = none)) (k : Kind) (dt : Date) (ps : PlannerS) :
    (∀ y, required (mkPlannerP stationary freq deploy months years plan S a b) y = 0) ∧
    guardK k (mkPlannerP stationary freq deploy months years plan S a b) dt ps = false := by
  have hreq : ∀ y, required (mkPlannerP stationary freq deploy months years plan S a b) y = 0 := by
    intro y
    unfold required mkPlannerP
    rcases hnd with h | ⟨h1, h2⟩
    · subst h; cases stationary <;> cases freq <;> simp
    · subst h1; subst h2; simp
  refine ⟨hreq, ?_⟩
  have h0 := hreq dt.y
  cases k <;>
    simp only [guardK, guardRoutine, guardStationary, h0, Nat.not_lt_zero, Nat.lt_irrefl, decide_false,
      Bool.and_false, Bool.false_and]

/-! ### 2. never more than required -/

/-- every survey that completes on some day of the history does so in a year for which the planner
requires at least one survey (a request carried over New Year does not land in a year without
deployment) -/
def CompletesOK (c : Cfg) : State → List DayIn → Prop
  | _, [] => True
  | s, d :: ds => (∀ i, completesAt c d s i = true → 0 < required (c.P i) d.date.y) ∧
      CompletesOK c (scheduleDay c d s) ds

/-- invariant behind `done ≤ required` (year `Y` = year of the last simulated day) -/
structure CountInv (c : Cfg) (s : State) (Y : Nat) : Prop where
  past : ∀ i, ∀ y ∈ (s.pl i).log, y ≤ Y
  open_ : ∀ i, (s.pl i).queued = true → done (s.pl i) Y < required (c.P i) Y ∨ done (s.pl i) Y = 0
  le : ∀ i y, done (s.pl i) y ≤ required (c.P i) y

theorem countInv_roll (c : Cfg) (s : State) (Y Y' : Nat) (h : CountInv c s Y) (hY : Y ≤ Y') :
    CountInv c s Y' := by
  refine ⟨fun i y hy => Nat.le_trans (h.past i y hy) hY, ?_, h.le⟩
  intro i hq
  by_cases he : Y' = Y
  · subst he; exact h.open_ i hq
  · right
    unfold done
    rw [List.count_eq_zero]
    intro hin
    have := h.past i Y' hin
    omega

theorem countInv_day (c : Cfg) (hc : c.sites.Nodup) (hk : c.kind = .routine) (d : DayIn) (s : State)
    (hi : Inv s) (h : CountInv c s d.date.y)
    (hok : ∀ i, completesAt c d s i = true → 0 < required (c.P i) d.date.y) :
    CountInv c (scheduleDay c d s) d.date.y := by
  have h1 := inv_request c hc d.date s hi
  refine ⟨?_, ?_, ?_⟩
  · intro i y hy
    rw [(day_site c d s i).1] at hy
    split at hy
    · rcases List.mem_cons.1 hy with rfl | hy
      · exact Nat.le_refl _
      · exact h.past i y hy
    · exact h.past i y hy
  · intro i hq
    rw [(day_site c d s i).2] at hq
    unfold done
    rw [(day_site c d s i).1]
    cases hcp : completesAt c d s i
    · simp only [hcp, Bool.false_eq_true, if_false] at hq ⊢
      rw [request_queued] at hq
      by_cases hiss : i ∈ issued c d.date s
      · left; exact (requests_guarded c hk s d.date i hiss).2.2.2.2.1
      · simp only [hiss, decide_false, Bool.or_false] at hq
        exact h.open_ i hq
    · simp [hcp] at hq
  · intro i y
    unfold done
    rw [(day_site c d s i).1]
    cases hcp : completesAt c d s i
    · simp only [Bool.false_eq_true, if_false]; exact h.le i y
    · simp only [if_true, List.count_cons]
      by_cases hy : d.date.y = y
      · subst hy
        simp only [BEq.rfl, if_true]
        -- the completing request was outstanding after the request phase
        have hkeys : i ∈ planKeys c (requestPhase c d.date s) := by
          unfold completesAt at hcp
          simp only [Bool.and_eq_true, decide_eq_true_eq] at hcp
          exact hcp.1
        have hq1 := planKeys_queued c _ h1 i hkeys
        rw [request_queued] at hq1
        have hopen : done (s.pl i) d.date.y < required (c.P i) d.date.y ∨ done (s.pl i) d.date.y = 0 := by
          by_cases hiss : i ∈ issued c d.date s
          · left; exact (requests_guarded c hk s d.date i hiss).2.2.2.2.1
          · simp only [hiss, decide_false, Bool.or_false] at hq1
            exact h.open_ i hq1
        have hpos := hok i hcp
        unfold done at hopen
        omega
      · have : (d.date.y == y) = false := by simp [hy]
        simp only [this, Bool.false_eq_true, if_false, Nat.add_zero]
        exact h.le i y

theorem countInv_run (c : Cfg) (hc : c.sites.Nodup) (hk : c.kind = .routine) (ds : List DayIn) (s : State)
    (Y : Nat) (hi : Inv s) (h : CountInv c s Y) (hch : Chrono ds) (hY : ∀ d ∈ ds, Y ≤ d.date.y)
    (hok : CompletesOK c s ds) :
    ∀ i y, done ((ds.foldl (fun s d => scheduleDay c d s) s).pl i) y ≤ required (c.P i) y := by
  induction ds generalizing s Y with
  | nil => exact h.le
  | cons d ds ih =>
    simp only [List.foldl_cons]
    unfold Chrono at hch
    rw [List.pairwise_cons] at hch
    have hroll := countInv_roll c s Y d.date.y h (hY d (by simp))
    exact ih (scheduleDay c d s) d.date.y (inv_scheduleDay c hc d s hi)
      (countInv_day c hc hk d s hi hroll hok.1) hch.2 (fun d' hd' => hch.1 d' hd') hok.2

/-- **never more than required** (mobile routine methods): for every site, year and history whose
years do not decrease, provided no carried-over survey completes in a year for which the planner
requires none -/
theorem done_le_required_partial (c : Cfg) (hc : c.sites.Nodup) (hk : c.kind = .routine) (ds : List DayIn)
    (hch : Chrono ds) (hok : CompletesOK c init ds) (i y : Nat) :
    done ((runDays c ds).pl i) y ≤ required (c.P i) y := by
  unfold runDays
  refine countInv_run c hc hk ds init 0 inv_init ⟨?_, ?_, ?_⟩ hch (fun _ _ => Nat.zero_le _) hok i y
  · intro i y hy; simp [init] at hy
  · intro i hq; simp [init] at hq
  · intro i y; simp [init, done]

/-- the hypothesis is implied when every request completes in the year it was issued in: a request
is only issued while `done < required` -/
theorem completes_same_year_ok (c : Cfg) (hk : c.kind = .routine) (s : State) (d : DayIn) (i : Nat)
    (hiss : i ∈ issued c d.date s) : 0 < required (c.P i) d.date.y := by
  have := (requests_guarded c hk s d.date i hiss).2.2.2.2.1
  omega

/-! ### 4. stationary methods: once per workable day -/

theorem isComplete_applyOutcome (p : PlannerP) (o : Outcome) (x : PlannerS) (hx : isComplete x = false) :
    isComplete (applyOutcome p o x) = true ↔ o = .completed := by
  constructor
  · intro h
    cases o with
    | completed => rfl
    | progressed m => rw [applyOutcome_complete_false p _ x hx (by simp)] at h; exact Bool.noConfusion h
    | untouched => rw [applyOutcome_complete_false p _ x hx (by simp)] at h; exact Bool.noConfusion h
  · intro h; subst h; simp [applyOutcome, isComplete]

/-- a stationary schedule plans, every day, exactly the sites that hold a request (carried from an
earlier day or issued today), each once; every deployed site holds one on every day of its
deployment calendar; a planned site is observed (its survey completes and is counted once) iff the
day is workable for it (crew outcome `completed`), otherwise the request is carried -/
theorem stationary_day (c : Cfg) (hc : c.sites.Nodup) (hk : c.kind = .stationary)
    (s : State) (hi : Inv s) (d : DayIn) :
    (planOn c d s).Nodup ∧
    (∀ i, i ∈ planOn c d s ↔ ((s.pl i).queued = true ∨ i ∈ issued c d.date s)) ∧
    (∀ i ∈ c.sites, d.date.y ∈ (c.P i).depYears → d.date.m ∈ (c.P i).months →
        0 < required (c.P i) d.date.y → i ∈ planOn c d s) ∧
    (∀ i, completesAt c d s i = true ↔ (i ∈ planOn c d s ∧ d.out i = .completed)) ∧
    (∀ i y, done ((scheduleDay c d s).pl i) y =
        done (s.pl i) y + (if completesAt c d s i = true ∧ y = d.date.y then 1 else 0)) ∧
    (∀ i, i ∈ planOn c d s → d.out i ≠ .completed → i ∈ (scheduleDay c d s).q.sites) := by
  have h1 := inv_request c hc d.date s hi
  have hall : planOn c d s = (requestPhase c d.date s).q.sites := by
    unfold planOn
    rw [planKeys_eq c _ h1]
    simp only [takeCount, hk, List.take_length, Queue.sites]
  have hmem : ∀ i, i ∈ planOn c d s ↔ ((s.pl i).queued = true ∨ i ∈ issued c d.date s) := by
    intro i
    rw [hall, (requests_enter_queue c d.date s hi).mem_iff, List.mem_append, hi.flag i]
  have hcomp : ∀ i, completesAt c d s i = true ↔ (i ∈ planOn c d s ∧ d.out i = .completed) := by
    intro i
    unfold completesAt planOn
    simp only [Bool.and_eq_true, decide_eq_true_eq]
    constructor
    · intro ⟨hk', hcp⟩
      refine ⟨hk', ?_⟩
      unfold deployed at hcp
      simp only [hk', if_true] at hcp
      exact (isComplete_applyOutcome _ _ _ (h1.notComplete i)).1 hcp
    · intro ⟨hk', ho⟩
      refine ⟨hk', ?_⟩
      unfold deployed
      simp only [hk', if_true]
      exact (isComplete_applyOutcome _ _ _ (h1.notComplete i)).2 ho
  refine ⟨?_, hmem, ?_, hcomp, ?_, ?_⟩
  · rw [hall]; exact h1.nodup
  · intro i his hy hm hr
    rw [hmem]
    cases hq : (s.pl i).queued
    · right
      unfold issued
      rw [List.mem_filter]
      refine ⟨his, ?_⟩
      simp [guardK, hk, guardStationary, hy, hm, hq, hr]
    · left; rfl
  · intro i y
    unfold done
    rw [(day_site c d s i).1]
    cases hcp : completesAt c d s i
    · simp
    · simp only [if_true, List.count_cons, true_and]
      by_cases hy : y = d.date.y
      · subst hy; simp
      · have : (d.date.y == y) = false := by simp; exact fun h => hy h.symm
        simp [this, hy]
  · intro i hip hno
    have hfin := inv_scheduleDay c hc d s hi
    apply (hfin.flag i).1
    rw [(day_site c d s i).2]
    have hncp : completesAt c d s i = false := by
      cases hcp : completesAt c d s i
      · rfl
      · exact absurd ((hcomp i).1 hcp).2 hno
    simp only [hncp, Bool.false_eq_true, if_false]
    rw [request_queued]
    rcases (hmem i).1 hip with hq | hiss
    · simp [hq]
    · simp [hiss]

/-! ### 3. all of them when feasible -/

def mdLt (a b : Nat × Nat) : Prop := a.1 < b.1 ∨ (a.1 = b.1 ∧ a.2 < b.2)

def md (d : DayIn) : Nat × Nat := (d.date.m, d.date.d)

/-- crews suffice for every outstanding request and every planned survey completes the same day -/
def Feasible (c : Cfg) (d : DayIn) : Prop :=
  c.sites.length ≤ c.crews * c.cap ∧ ∀ i, d.out i = .completed

/-- nothing outstanding -/
def Quiet (s : State) : Prop := ∀ i, (s.pl i).queued = false

theorem quiet_queue_empty (s : State) (h : Inv s) (hq : Quiet s) : s.q.entries = [] := by
  cases he : s.q.entries with
  | nil => rfl
  | cons e es =>
    have : e.site ∈ s.q.sites := (mem_sites_iff _ _).2 ⟨e, by simp [he], rfl⟩
    have := (h.flag e.site).2 this
    rw [hq e.site] at this
    exact Bool.noConfusion this

/-- on a feasible day that starts with nothing outstanding, exactly the requests issued today are
planned and completed, and nothing is outstanding afterwards -/
theorem feasible_day (c : Cfg) (hc : c.sites.Nodup) (hk : c.kind = .routine) (d : DayIn) (s : State)
    (hi : Inv s) (hq : Quiet s) (hf : Feasible c d) :
    (∀ i, completesAt c d s i = decide (i ∈ issued c d.date s)) ∧ Quiet (scheduleDay c d s) := by
  have h1 := inv_request c hc d.date s hi
  have hperm := requests_enter_queue c d.date s hi
  have hempty : s.q.sites = [] := by unfold Queue.sites; rw [quiet_queue_empty s hi hq]; rfl
  rw [hempty, List.nil_append] at hperm
  have hlen : (requestPhase c d.date s).q.entries.length ≤ c.crews * c.cap := by
    have h2 : (requestPhase c d.date s).q.entries.length = (issued c d.date s).length := by
      have := hperm.length_eq
      simpa [Queue.sites] using this
    have h3 : (issued c d.date s).length ≤ c.sites.length := List.length_filter_le _ _
    have := hf.1
    omega
  have hkeys : planKeys c (requestPhase c d.date s) = (requestPhase c d.date s).q.sites := by
    rw [planKeys_eq c _ h1]
    simp only [takeCount, hk, Queue.sites]
    rw [List.take_of_length_le hlen]
  have hcomp : ∀ i, completesAt c d s i = decide (i ∈ issued c d.date s) := by
    intro i
    unfold completesAt
    rw [hkeys]
    by_cases hiss : i ∈ issued c d.date s
    · have hin : i ∈ (requestPhase c d.date s).q.sites := hperm.mem_iff.2 hiss
      have hin' : i ∈ planKeys c (requestPhase c d.date s) := hkeys ▸ hin
      simp only [hin, hiss, decide_true, Bool.true_and]
      unfold deployed
      simp only [hin', if_true, hf.2 i]
      simp [applyOutcome, isComplete]
    · have hin : i ∉ (requestPhase c d.date s).q.sites := fun h => hiss (hperm.mem_iff.1 h)
      simp [hin, hiss]
  refine ⟨hcomp, ?_⟩
  intro i
  rw [(day_site c d s i).2, hcomp i, request_queued, hq i]
  by_cases hiss : i ∈ issued c d.date s <;> simp [hiss]

/-- the counter of one site over the days of one year when every day is feasible -/
def kStep (p : PlannerP) (k : Nat) (t : Nat × Nat) : Nat :=
  if t.1 ∈ p.months ∧ k < p.rs ∧ (∃ pd, p.plan[k]? = some pd ∧ mdLe pd t) then k + 1 else k

theorem feasible_year (c : Cfg) (hc : c.sites.Nodup) (hk : c.kind = .routine) (i : Nat) (his : i ∈ c.sites)
    (y : Nat) (hy : y ∈ (c.P i).depYears ∧ y ∈ (c.P i).simYears) (yr : List DayIn) (s : State)
    (hi : Inv s) (hq : Quiet s) (hf : ∀ d ∈ yr, Feasible c d) (hyr : ∀ d ∈ yr, d.date.y = y) :
    done ((yr.foldl (fun s d => scheduleDay c d s) s).pl i) y
      = (yr.map md).foldl (kStep (c.P i)) (done (s.pl i) y) := by
  induction yr generalizing s with
  | nil => rfl
  | cons d ds ih =>
    simp only [List.foldl_cons, List.map_cons]
    have hfd := feasible_day c hc hk d s hi hq (hf d (by simp))
    have hdy : d.date.y = y := hyr d (by simp)
    have hstep : done ((scheduleDay c d s).pl i) y = kStep (c.P i) (done (s.pl i) y) (md d) := by
      unfold done
      rw [(day_site c d s i).1, hfd.1 i]
      have hreq : required (c.P i) y = (c.P i).rs := by unfold required; simp [hy.1, hy.2]
      have hiss : i ∈ issued c d.date s ↔
          ((md d).1 ∈ (c.P i).months ∧ List.count y (s.pl i).log < (c.P i).rs ∧
            ∃ pd, (c.P i).plan[List.count y (s.pl i).log]? = some pd ∧ mdLe pd (md d)) := by
        unfold issued
        rw [List.mem_filter]
        simp only [his, true_and, guardK, hk, guardRoutine, hdy, hy.1, decide_true, Bool.true_and, hq i,
          Bool.not_false, Bool.and_true, Bool.and_eq_true, decide_eq_true_eq, done, hreq, md]
        constructor
        · intro ⟨⟨h1, h2⟩, h3⟩
          refine ⟨h1, h2, ?_⟩
          cases hp : (c.P i).plan[List.count y (s.pl i).log]? with
          | none => rw [hp] at h3; exact Bool.noConfusion h3
          | some pd => rw [hp] at h3; exact ⟨pd, rfl, by simpa using h3⟩
        · intro ⟨h1, h2, pd, hp, hle⟩
          refine ⟨⟨h1, h2⟩, ?_⟩
          rw [hp]; simpa using hle
      unfold kStep
      by_cases hc' : i ∈ issued c d.date s
      · simp only [hc', decide_true, if_true, List.count_cons, hdy, BEq.rfl]
        rw [if_pos (hiss.1 hc')]
      · simp only [hc', decide_false, Bool.false_eq_true, if_false]
        rw [if_neg (fun h => hc' (hiss.2 h))]
    rw [← hstep]
    exact ih (scheduleDay c d s) (inv_scheduleDay c hc d s hi) hfd.2
      (fun d' hd' => hf d' (by simp [hd'])) (fun d' hd' => hyr d' (by simp [hd']))

theorem mdLe_refl (a : Nat × Nat) : mdLe a a := by unfold mdLe; omega

theorem mdLt_not_le {a b : Nat × Nat} (h : mdLt a b) : ¬ mdLe b a := by unfold mdLt mdLe at *; omega

theorem mdLt_ne {a b : Nat × Nat} (h : mdLt a b) : a ≠ b := by
  intro he; subst he; unfold mdLt at h; omega

theorem mdLt_trans {a b c : Nat × Nat} (h1 : mdLt a b) (h2 : mdLt b c) : mdLt a c := by
  unfold mdLt at *; omega

/-- the pure counting argument: dates strictly increasing, plan strictly increasing, every plan date
from index `k` on is still among the coming dates and lies in a deployment month ⇒ the counter ends
at the number of plan dates -/
theorem year_count (p : PlannerP) (hlen : p.plan.length = p.rs) (hps : p.plan.Pairwise mdLt)
    (dates : List (Nat × Nat)) (k : Nat) (hk : k ≤ p.plan.length) (hds : dates.Pairwise mdLt)
    (hin : ∀ pd ∈ p.plan.drop k, pd ∈ dates ∧ pd.1 ∈ p.months) :
    dates.foldl (kStep p) k = p.plan.length := by
  induction dates generalizing k with
  | nil =>
    simp only [List.foldl_nil]
    cases hd : p.plan.drop k with
    | nil => have := List.drop_eq_nil_iff.1 hd; omega
    | cons x xs => have := (hin x (by simp [hd])).1; simp at this
  | cons t ts ih =>
    simp only [List.foldl_cons]
    rw [List.pairwise_cons] at hds
    by_cases hkl : k = p.plan.length
    · have hstay : kStep p k t = k := by unfold kStep; rw [if_neg]; omega
      rw [hstay]
      apply ih k hk hds.2
      intro pd hpd
      rw [hkl, List.drop_length] at hpd
      simp at hpd
    · have hklt : k < p.plan.length := by omega
      have hdrop : p.plan.drop k = p.plan[k] :: p.plan.drop (k + 1) := List.drop_eq_getElem_cons hklt
      have hget : p.plan[k]? = some p.plan[k] := List.getElem?_eq_getElem hklt
      have hpdrop : (p.plan.drop k).Pairwise mdLt := hps.sublist (List.drop_sublist _ _)
      rw [hdrop, List.pairwise_cons] at hpdrop
      have hmemk : p.plan[k] ∈ p.plan.drop k := by
        rw [List.mem_drop_iff_getElem]; exact ⟨0, by simpa using hklt, by simp⟩
      have hpk := hin p.plan[k] hmemk
      rcases List.mem_cons.1 hpk.1 with heq | hmem
      · -- today is the next plan date
        have hstep : kStep p k t = k + 1 := by
          unfold kStep
          rw [if_pos]
          refine ⟨heq ▸ hpk.2, by omega, p.plan[k], hget, ?_⟩
          rw [heq]; exact mdLe_refl _
        rw [hstep]
        apply ih (k + 1) (by omega) hds.2
        intro pd hpd
        have hboth := hin pd (by rw [hdrop]; exact List.mem_cons_of_mem _ hpd)
        refine ⟨?_, hboth.2⟩
        rcases List.mem_cons.1 hboth.1 with h | h
        · exact absurd (heq ▸ h ▸ hpdrop.1 pd hpd) (fun hl => (mdLt_ne hl) rfl)
        · exact h
      · -- the next plan date is still to come
        have hlt : mdLt t p.plan[k] := hds.1 _ hmem
        have hstay : kStep p k t = k := by
          unfold kStep
          rw [if_neg]
          intro ⟨_, _, pd, hpd, hle⟩
          rw [hget] at hpd
          injection hpd with hpd
          subst hpd
          exact mdLt_not_le hlt hle
        rw [hstay]
        apply ih k hk hds.2
        intro pd hpd
        have hboth := hin pd hpd
        refine ⟨?_, hboth.2⟩
        rcases List.mem_cons.1 hboth.1 with h | h
        · rw [hdrop] at hpd
          rcases List.mem_cons.1 hpd with h2 | h2
          · rw [h2] at h; exact absurd h.symm (mdLt_ne hlt)
          · have := mdLt_trans hlt (hpdrop.1 pd h2)
            exact absurd h.symm (mdLt_ne this)
        · exact h

/-- only years of simulated days are ever logged -/
theorem log_years (c : Cfg) (ds : List DayIn) (s : State) (i y : Nat)
    (hy : y ∈ ((ds.foldl (fun s d => scheduleDay c d s) s).pl i).log) :
    y ∈ (s.pl i).log ∨ ∃ d ∈ ds, d.date.y = y := by
  induction ds generalizing s with
  | nil => left; exact hy
  | cons d ds ih =>
    simp only [List.foldl_cons] at hy
    rcases ih _ hy with h | ⟨d', hd', he⟩
    · rw [(day_site c d s i).1] at h
      split at h
      · rcases List.mem_cons.1 h with rfl | h
        · right; exact ⟨d, by simp, rfl⟩
        · left; exact h
      · left; exact h
    · right; exact ⟨d', by simp [hd'], he⟩

theorem feasible_quiet (c : Cfg) (hc : c.sites.Nodup) (hk : c.kind = .routine) (ds : List DayIn) (s : State)
    (hi : Inv s) (hq : Quiet s) (hf : ∀ d ∈ ds, Feasible c d) :
    Inv (ds.foldl (fun s d => scheduleDay c d s) s) ∧ Quiet (ds.foldl (fun s d => scheduleDay c d s) s) := by
  induction ds generalizing s with
  | nil => exact ⟨hi, hq⟩
  | cons d ds ih =>
    simp only [List.foldl_cons]
    exact ih _ (inv_scheduleDay c hc d s hi) (feasible_day c hc hk d s hi hq (hf d (by simp))).2
      (fun d' hd' => hf d' (by simp [hd']))

/-- **all of them when feasible**: if on every day so far the crews sufficed and every planned survey
completed the day it was requested, the plan dates are strictly increasing, each of them is a
simulated day of year `y` and lies in a deployment month, and `y` is a deployment year of the
simulation, then after the days of year `y` the site has exactly its required number of surveys -/
theorem all_done_when_feasible (c : Cfg) (hc : c.sites.Nodup) (hk : c.kind = .routine) (i : Nat)
    (his : i ∈ c.sites) (y : Nat) (hy : y ∈ (c.P i).depYears ∧ y ∈ (c.P i).simYears)
    (pre yr : List DayIn) (hf : ∀ d ∈ pre ++ yr, Feasible c d)
    (hpre : ∀ d ∈ pre, d.date.y ≠ y) (hyr : ∀ d ∈ yr, d.date.y = y)
    (hdates : (yr.map md).Pairwise mdLt)
    (hlen : (c.P i).plan.length = (c.P i).rs) (hplan : (c.P i).plan.Pairwise mdLt)
    (hin : ∀ pd ∈ (c.P i).plan, pd ∈ yr.map md ∧ pd.1 ∈ (c.P i).months) :
    done ((runDays c (pre ++ yr)).pl i) y = required (c.P i) y := by
  unfold runDays
  rw [List.foldl_append]
  have hq0 : Quiet init := fun i => rfl
  have hpreq := feasible_quiet c hc hk pre init inv_init hq0 (fun d hd => hf d (by simp [hd]))
  have hzero : done ((pre.foldl (fun s d => scheduleDay c d s) init).pl i) y = 0 := by
    unfold done
    rw [List.count_eq_zero]
    intro hmem
    rcases log_years c pre init i y hmem with h | ⟨d, hd, he⟩
    · simp [init] at h
    · exact hpre d hd he
  rw [feasible_year c hc hk i his y hy yr _ hpreq.1 hpreq.2 (fun d hd => hf d (by simp [hd])) hyr, hzero]
  have hreq : required (c.P i) y = (c.P i).rs := by unfold required; simp [hy.1, hy.2]
  rw [hreq, ← hlen]
  exact year_count (c.P i) hlen hplan (yr.map md) 0 (Nat.zero_le _) hdates (by simpa using hin)

/-- a stationary schedule plans, every day, exactly the sites that hold a request (carried from an
earlier day or issued today), each once; every deployed site holds one on every day of its
deployment calendar; a planned site is observed (its survey completes and is counted once) iff the
day is workable for it (crew outcome `completed`), otherwise the request is carried — for every
reachable state -/
theorem stationary_once_per_workable_day (c : Cfg) (hc : c.sites.Nodup) (hk : c.kind = .stationary)
    (ds : List DayIn) (d : DayIn) :
    let s := runDays c ds
    (planOn c d s).Nodup ∧
    (∀ i, i ∈ planOn c d s ↔ ((s.pl i).queued = true ∨ i ∈ issued c d.date s)) ∧
    (∀ i ∈ c.sites, d.date.y ∈ (c.P i).depYears → d.date.m ∈ (c.P i).months →
        0 < required (c.P i) d.date.y → i ∈ planOn c d s) ∧
    (∀ i, completesAt c d s i = true ↔ (i ∈ planOn c d s ∧ d.out i = .completed)) ∧
    (∀ i y, done ((scheduleDay c d s).pl i) y =
        done (s.pl i) y + (if completesAt c d s i = true ∧ y = d.date.y then 1 else 0)) ∧
    (∀ i, i ∈ planOn c d s → d.out i ≠ .completed → i ∈ (scheduleDay c d s).q.sites) :=
  stationary_day c hc hk (runDays c ds) (inv_runDays c hc ds) d

/-- the stationary request guard does not look at the number of surveys done -/
theorem stationary_guard_ignores_done (p : PlannerP) (dt : Date) (s : PlannerS) (l : List Nat) :
    guardStationary p dt { s with log := l } = guardStationary p dt s := rfl

/-- every kind of schedule books a completed survey on the year of the completion day, exactly once -/
theorem counted_on_completion_year (c : Cfg) (d : DayIn) (s : State) (i y : Nat) :
    done ((scheduleDay c d s).pl i) y =
      done (s.pl i) y + (if completesAt c d s i = true ∧ y = d.date.y then 1 else 0) := by
  unfold done
  rw [(day_site c d s i).1]
  cases hcp : completesAt c d s i
  · simp
  · simp only [if_true, List.count_cons, true_and]
    by_cases hy : y = d.date.y
    · subst hy; simp
    · have : (d.date.y == y) = false := by simp; exact fun h => hy h.symm
      simp [this, hy]

/-- **stationary, fully workable period** (in particular a complete leap year): if every day of the
history lies in the site's deployment calendar and is workable for every site, the site is observed
on every single day — the count for year `y` is the number of simulated days of `y` (366 in a leap
year, although the planner's nominal requirement is 365) -/
theorem stationary_every_workable_day (c : Cfg) (hc : c.sites.Nodup) (hk : c.kind = .stationary) (i : Nat)
    (his : i ∈ c.sites) (ds : List DayIn) (s : State) (hi : Inv s) (hq : (s.pl i).queued = false)
    (hcal : ∀ d ∈ ds, d.date.y ∈ (c.P i).depYears ∧ d.date.m ∈ (c.P i).months ∧ 0 < required (c.P i) d.date.y)
    (hw : ∀ d ∈ ds, d.out i = .completed) (y : Nat) :
    done ((ds.foldl (fun s d => scheduleDay c d s) s).pl i) y
      = done (s.pl i) y + (ds.filter (fun d => d.date.y = y)).length ∧
    ((ds.foldl (fun s d => scheduleDay c d s) s).pl i).queued = false := by
  induction ds generalizing s with
  | nil => simp [hq]
  | cons d ds ih =>
    simp only [List.foldl_cons]
    have hd := stationary_day c hc hk s hi d
    have hcd := hcal d (by simp)
    have hplan : i ∈ planOn c d s := hd.2.2.1 i his hcd.1 hcd.2.1 hcd.2.2
    have hcomp : completesAt c d s i = true := (hd.2.2.2.1 i).2 ⟨hplan, hw d (by simp)⟩
    have hq' : ((scheduleDay c d s).pl i).queued = false := by
      rw [(day_site c d s i).2, hcomp]; rfl
    have := ih (scheduleDay c d s) (inv_scheduleDay c hc d s hi) hq'
      (fun d' hd' => hcal d' (by simp [hd'])) (fun d' hd' => hw d' (by simp [hd']))
    refine ⟨?_, this.2⟩
    rw [this.1, counted_on_completion_year, hcomp, List.filter_cons]
    by_cases hy : d.date.y = y
    · simp [hy]; omega
    · have : ¬ (y = d.date.y) := fun h => hy h.symm
      simp [hy, this]

/-! ### never where the method is not deployed -/

/-- site `i`'s planner never issues a request -/
def NeverIssued (c : Cfg) (i : Nat) : Prop := ∀ dt s, i ∉ issued c dt s

theorem neverIssued_of_guard (c : Cfg) (i : Nat) (h : ∀ dt ps, guardK c.kind (c.P i) dt ps = false) :
    NeverIssued c i := by
  intro dt s hi
  unfold issued at hi
  rw [List.mem_filter] at hi
  rw [h] at hi
  exact Bool.noConfusion hi.2

theorem neverIssued_of_not_site (c : Cfg) (i : Nat) (h : i ∉ c.sites) : NeverIssued c i := by
  intro dt s hi
  unfold issued at hi
  exact h (List.mem_filter.1 hi).1

theorem neverIssued_of_rs_zero (c : Cfg) (i : Nat) (h : (c.P i).rs = 0) : NeverIssued c i := by
  apply neverIssued_of_guard
  intro dt ps
  have h0 : required (c.P i) dt.y = 0 := by unfold required; simp [h]
  cases c.kind <;>
    simp only [guardK, guardRoutine, guardStationary, h0, Nat.not_lt_zero, Nat.lt_irrefl, decide_false,
      Bool.and_false, Bool.false_and]

theorem neverIssued_day (c : Cfg) (i : Nat) (h : NeverIssued c i) (d : DayIn) (s : State)
    (hq : (s.pl i).queued = false) : ((scheduleDay c d s).pl i).queued = false := by
  rw [(day_site c d s i).2]
  split
  · rfl
  · rw [request_queued, hq]; simp [h d.date s]

theorem neverIssued_not_planned (c : Cfg) (hc : c.sites.Nodup) (i : Nat) (h : NeverIssued c i) (d : DayIn)
    (s : State) (hi : Inv s) (hq : (s.pl i).queued = false) : i ∉ planOn c d s := by
  intro hp
  have := planKeys_queued c _ (inv_request c hc d.date s hi) i hp
  rw [request_queued, hq] at this
  simp [h d.date s] at this

/-- **never where not deployed**: a site whose planner never passes the request guard (frequency 0
because the method is not deployed there, see `not_deployed_never_requested`) is never in a work
plan, on any day of any history -/
theorem not_deployed_never_planned (c : Cfg) (hc : c.sites.Nodup) (i : Nat)
    (h : ∀ dt ps, guardK c.kind (c.P i) dt ps = false) (ds : List DayIn) (d : DayIn) :
    i ∉ planOn c d (runDays c ds) ∧ ∀ y, done ((runDays c ds).pl i) y = 0 := by
  have hn := neverIssued_of_guard c i h
  have key : ∀ (ds : List DayIn) (s : State), Inv s → (s.pl i).queued = false → (∀ y, done (s.pl i) y = 0) →
      let s' := ds.foldl (fun s d => scheduleDay c d s) s
      Inv s' ∧ (s'.pl i).queued = false ∧ ∀ y, done (s'.pl i) y = 0 := by
    intro ds
    induction ds with
    | nil => intro s a b c'; exact ⟨a, b, c'⟩
    | cons d ds ih =>
      intro s a b c'
      simp only [List.foldl_cons]
      apply ih _ (inv_scheduleDay c hc d s a) (neverIssued_day c i hn d s b)
      intro y
      rw [counted_on_completion_year, c' y]
      have hnc : completesAt c d s i = false := by
        cases hcp : completesAt c d s i
        · rfl
        · unfold completesAt at hcp
          simp only [Bool.and_eq_true, decide_eq_true_eq] at hcp
          exact absurd hcp.1 (neverIssued_not_planned c hc i hn d s a b)
      simp [hnc]
  have := key ds init inv_init rfl (fun y => by simp [init, done])
  exact ⟨neverIssued_not_planned c hc i hn d _ this.1 this.2.1, this.2.2⟩

/-- the same for the planner a schedule builds for a site where the method is not deployed (or that
has no survey frequency for a mobile method): never planned, never counted -/
theorem not_deployed_never_surveyed (c : Cfg) (hc : c.sites.Nodup) (i : Nat)
    (stationary : Bool) (freq : Option Nat) (deploy : Bool) (months years : List Nat)
    (plan : List (Nat × Nat)) (S : Int) (a b : Date)
    (hP : c.P i = mkPlannerP stationary freq deploy months years plan S a b)
    (hnd : deploy = false ∨ (stationary = false ∧ freq = none)) (ds : List DayIn) (d : DayIn) :
    i ∉ planOn c d (runDays c ds) ∧ ∀ y, done ((runDays c ds).pl i) y = 0 := by
  apply not_deployed_never_planned c hc i
  intro dt ps
  rw [hP]
  exact (not_deployed_never_requested stationary freq deploy months years plan S a b hnd c.kind dt ps).2

/-! ### `done ≤ required` under a static, decidable hypothesis -/

/-- every deployed planner of the method has all simulated years among its deployment years and its
counter years (the default configuration: no deployment-year list, simulation ending on Dec 31) -/
def StaticYears (c : Cfg) (ds : List DayIn) : Prop :=
  ∀ i ∈ c.sites, (c.P i).rs = 0 ∨ ∀ d ∈ ds, d.date.y ∈ (c.P i).depYears ∧ d.date.y ∈ (c.P i).simYears

instance (c : Cfg) (ds : List DayIn) : Decidable (StaticYears c ds) := by unfold StaticYears; infer_instance

theorem completesOK_of_static (c : Cfg) (hc : c.sites.Nodup) (ds : List DayIn) (hs : StaticYears c ds)
    (s : State) (hi : Inv s) (hq : ∀ i, NeverIssued c i → (s.pl i).queued = false) : CompletesOK c s ds := by
  induction ds generalizing s with
  | nil => trivial
  | cons d ds ih =>
    refine ⟨?_, ?_⟩
    · intro i hcp
      have hkeys : i ∈ planOn c d s := by
        unfold completesAt at hcp
        simp only [Bool.and_eq_true, decide_eq_true_eq] at hcp
        exact hcp.1
      by_cases his : i ∈ c.sites
      · rcases hs i his with h0 | hy
        · have hn := neverIssued_of_rs_zero c i h0
          exact absurd hkeys (neverIssued_not_planned c hc i hn d s hi (hq i hn))
        · have := hy d (by simp)
          by_cases h0 : (c.P i).rs = 0
          · have hn := neverIssued_of_rs_zero c i h0
            exact absurd hkeys (neverIssued_not_planned c hc i hn d s hi (hq i hn))
          · unfold required; simp [this.1, this.2]; omega
      · have hn := neverIssued_of_not_site c i his
        exact absurd hkeys (neverIssued_not_planned c hc i hn d s hi (hq i hn))
    · apply ih
      · intro i hi'
        rcases hs i hi' with h | h
        · left; exact h
        · right; intro d' hd'; exact h d' (by simp [hd'])
      · exact inv_scheduleDay c hc d s hi
      · intro i hn; exact neverIssued_day c i hn d s (hq i hn)

/-- **never more than required, static form**: no run-dependent hypothesis — it is enough that the
simulated years are deployment years and counter years of every deployed planner -/
theorem done_le_required_static (c : Cfg) (hc : c.sites.Nodup) (hk : c.kind = .routine) (ds : List DayIn)
    (hch : Chrono ds) (hs : StaticYears c ds) (i y : Nat) :
    done ((runDays c ds).pl i) y ≤ required (c.P i) y :=
  done_le_required_partial c hc hk ds hch
    (completesOK_of_static c hc ds hs init inv_init (fun _ _ => rfl)) i y

/-! ### calendar: what does hold -/

theorem issued_in_calendar (c : Cfg) (dt : Date) (s : State) (i : Nat) (hi : i ∈ issued c dt s) :
    dt.y ∈ (c.P i).depYears ∧ dt.m ∈ (c.P i).months := by
  unfold issued at hi
  rw [List.mem_filter] at hi
  have hg := hi.2
  cases hk : c.kind <;>
    simp only [hk, guardK, guardRoutine, guardStationary, Bool.and_eq_true, decide_eq_true_eq] at hg
  · exact ⟨hg.1.1.1.1, hg.1.1.1.2⟩
  · exact ⟨hg.1.1.1, hg.1.1.2⟩
  · exact ⟨hg.1.1.1.1, hg.1.1.1.2⟩

/-- a site planned on a day outside its deployment calendar holds a request *carried* from an earlier
day (routine and stationary schedules): only carried requests can be served outside the calendar -/
theorem calendar_partial (c : Cfg) (hc : c.sites.Nodup) (s : State) (hi : Inv s) (d : DayIn) (i : Nat)
    (hp : i ∈ planOn c d s) (hout : ¬ (d.date.y ∈ (c.P i).depYears ∧ d.date.m ∈ (c.P i).months)) :
    (s.pl i).queued = true := by
  have := planKeys_queued c _ (inv_request c hc d.date s hi) i hp
  rw [request_queued] at this
  by_cases hiss : i ∈ issued c d.date s
  · exact absurd (issued_in_calendar c d.date s i hiss) hout
  · simpa [hiss] using this

/-- when nothing is carried (every request so far completed the day it was issued) every planned
site is inside its deployment calendar -/
theorem calendar_when_nothing_carried (c : Cfg) (hc : c.sites.Nodup) (s : State) (hi : Inv s)
    (hq : ∀ i, (s.pl i).queued = false) (d : DayIn) (i : Nat) (hp : i ∈ planOn c d s) :
    d.date.y ∈ (c.P i).depYears ∧ d.date.m ∈ (c.P i).months := by
  apply Classical.byContradiction
  intro hout
  have := calendar_partial c hc s hi d i hp hout
  rw [hq i] at this
  exact Bool.noConfusion this

/-- the same from any state in which nothing is outstanding at the first day of the year (whatever
happened before — crew shortage, weather — as long as it was worked off): feasibility is needed
only on the days of the year itself -/
theorem all_done_in_year_from_quiet (c : Cfg) (hc : c.sites.Nodup) (hk : c.kind = .routine) (i : Nat)
    (his : i ∈ c.sites) (y : Nat) (hy : y ∈ (c.P i).depYears ∧ y ∈ (c.P i).simYears)
    (s : State) (hi : Inv s) (hq : Quiet s) (h0 : done (s.pl i) y = 0)
    (yr : List DayIn) (hf : ∀ d ∈ yr, Feasible c d) (hyr : ∀ d ∈ yr, d.date.y = y)
    (hdates : (yr.map md).Pairwise mdLt)
    (hlen : (c.P i).plan.length = (c.P i).rs) (hplan : (c.P i).plan.Pairwise mdLt)
    (hin : ∀ pd ∈ (c.P i).plan, pd ∈ yr.map md ∧ pd.1 ∈ (c.P i).months) :
    done ((yr.foldl (fun s d => scheduleDay c d s) s).pl i) y = required (c.P i) y := by
  rw [feasible_year c hc hk i his y hy yr s hi hq hf hyr, h0]
  have hreq : required (c.P i) y = (c.P i).rs := by unfold required; simp [hy.1, hy.2]
  rw [hreq, ← hlen]
  exact year_count (c.P i) hlen hplan (yr.map md) 0 (Nat.zero_le _) hdates (by simpa using hin)

/-! ### the property at full strength, and what is false of the code as it stands -/

instance (a b : Nat × Nat) : Decidable (mdLt a b) := by unfold mdLt; infer_instance

/-- never more than required (mobile routine), with no side condition -/
def C06_count_statement : Prop :=
  ∀ (c : Cfg) (ds : List DayIn), c.kind = .routine → c.sites.Nodup → Chrono ds →
    ∀ i y, done ((runDays c ds).pl i) y ≤ required (c.P i) y

/-- routine surveys take place only in deployment years and deployment months: whenever a planned
site is worked on, the day lies in the site's deployment calendar -/
def C06_calendar_statement : Prop :=
  ∀ (c : Cfg) (ds : List DayIn) (d : DayIn), c.kind ≠ .followup → c.sites.Nodup → Chrono (ds ++ [d]) →
    ∀ i ∈ planOn c d (runDays c ds), d.out i ≠ .untouched →
      d.date.y ∈ (c.P i).depYears ∧ d.date.m ∈ (c.P i).months

/-- all of them when feasible, for *every* plan the planner may hold (one date per required survey,
increasing, each a simulated day of the year) — nothing assumed about the months of the plan dates -/
def C06_feasible_statement : Prop :=
  ∀ (c : Cfg) (i y : Nat) (pre yr : List DayIn), c.kind = .routine → c.sites.Nodup → i ∈ c.sites →
    (y ∈ (c.P i).depYears ∧ y ∈ (c.P i).simYears) → (∀ d ∈ pre ++ yr, Feasible c d) →
    (∀ d ∈ pre, d.date.y ≠ y) → (∀ d ∈ yr, d.date.y = y) → (yr.map md).Pairwise mdLt →
    (c.P i).plan.length = (c.P i).rs → (c.P i).plan.Pairwise mdLt →
    (∀ pd ∈ (c.P i).plan, pd ∈ yr.map md) →
    done ((runDays c (pre ++ yr)).pl i) y = required (c.P i) y

/-- stationary: once per workable day -/
def C06_stationary_statement : Prop :=
  ∀ (c : Cfg) (ds : List DayIn) (d : DayIn), c.sites.Nodup → c.kind = .stationary →
    (planOn c d (runDays c ds)).Nodup ∧
    (∀ i ∈ c.sites, d.date.y ∈ (c.P i).depYears → d.date.m ∈ (c.P i).months →
        0 < required (c.P i) d.date.y → i ∈ planOn c d (runDays c ds)) ∧
    (∀ i, completesAt c d (runDays c ds) i = true ↔ (i ∈ planOn c d (runDays c ds) ∧ d.out i = .completed)) ∧
    (∀ i y, done ((scheduleDay c d (runDays c ds)).pl i) y =
        done ((runDays c ds).pl i) y + (if completesAt c d (runDays c ds) i = true ∧ y = d.date.y then 1 else 0))

def C06_statement : Prop :=
  C06_count_statement ∧ C06_calendar_statement ∧ C06_feasible_statement ∧ C06_stationary_statement

theorem C06_stationary : C06_stationary_statement := by
  intro c ds d hc hk
  have := stationary_once_per_workable_day c hc hk ds d
  exact ⟨this.1, this.2.2.1, this.2.2.2.1, this.2.2.2.2.1⟩

/-- January-only deployment, one crew doing one site a day, two sites: both requests are issued on
Jan 31, site 2 is not attended that day and is surveyed on Feb 1 — outside the deployment months
(known finding F12) -/
def cexCfg : Cfg :=
  { kind := .routine, crews := 1, cap := 1, sites := [1, 2],
    P := fun _ => { rs := 1, months := [1], depYears := [2024], simYears := [2024], plan := [(1, 1)],
                    surveyTime := 60 } }

def allCompleted : Nat → Outcome := fun _ => .completed

theorem C06_calendar_counterexample : ¬ C06_calendar_statement := by
  intro h
  have := h cexCfg [{ date := ⟨2024, 1, 31⟩, out := allCompleted }] { date := ⟨2024, 2, 1⟩, out := allCompleted }
    (by decide) (by decide) (by unfold Chrono; decide) 2 (by decide +kernel) (by decide)
  revert this
  decide +kernel

theorem C06_counterexample : ¬ C06_statement := fun h => C06_calendar_counterexample h.2.1

/-- deployment year 2024 only, simulation 2024–2025: a request issued on Dec 31 2024 and completed on
Jan 1 2025 is booked on 2025, where 0 surveys are required (known finding F12, count side) -/
def cexCount : Cfg :=
  { kind := .routine, crews := 1, cap := 1, sites := [1, 2],
    P := fun _ => { rs := 1, months := [1, 12], depYears := [2024], simYears := [2024, 2025],
                    plan := [(1, 1)], surveyTime := 60 } }

theorem C06_count_counterexample : ¬ C06_count_statement := by
  intro h
  have := h cexCount [{ date := ⟨2024, 12, 31⟩, out := allCompleted }, { date := ⟨2025, 1, 1⟩, out := allCompleted }]
    rfl (by decide) (by unfold Chrono; decide) 2 2025
  revert this
  decide +kernel

/-- deployment months February, May, October with 4 surveys per year: the plan of the real
`_generate_evenly_spaced_dates` is Feb 1, Feb 23, May 17, **Nov 8** (regenerated from the source and
compared on every run); November is not a deployment month, so even with unlimited crews only 3
surveys happen (known finding F15) -/
def cexGap : Cfg :=
  { kind := .routine, crews := 1, cap := 5, sites := [1],
    P := fun _ => { rs := 4, months := [2, 5, 10], depYears := [2024], simYears := [2024],
                    plan := [(2, 1), (2, 23), (5, 17), (11, 8)], surveyTime := 60 } }

def cexGapYear : List DayIn :=
  [(1, 1), (2, 1), (2, 2), (2, 23), (5, 17), (5, 18), (10, 1), (10, 31), (11, 8), (11, 9), (12, 31)].map
    (fun t => { date := ⟨2024, t.1, t.2⟩, out := allCompleted })

theorem C06_feasible_counterexample : ¬ C06_feasible_statement := by
  intro h
  have := h cexGap 1 2024 [] cexGapYear rfl (by decide) (by decide) (by decide)
    (by intro d hd
        refine ⟨by decide, ?_⟩
        simp only [List.nil_append, cexGapYear, List.mem_map] at hd
        obtain ⟨t, _, rfl⟩ := hd
        intro i; rfl)
    (by intro d hd; simp at hd)
    (by intro d hd
        simp only [cexGapYear, List.mem_map] at hd
        obtain ⟨t, _, rfl⟩ := hd
        rfl)
    (by decide +kernel) rfl (by decide +kernel) (by decide +kernel)
  revert this
  decide +kernel

/-! ### non-vacuity -/

/-- `StaticYears` is decidable and holds for the ordinary configuration (and for the January witness) -/
example : StaticYears cexCfg
    [{ date := ⟨2024, 1, 31⟩, out := allCompleted }, { date := ⟨2024, 2, 1⟩, out := allCompleted }] := by decide

/-- … and fails exactly for the year-carry witness of `C06_count_counterexample` -/
example : ¬ StaticYears cexCount
    [{ date := ⟨2024, 12, 31⟩, out := allCompleted }, { date := ⟨2025, 1, 1⟩, out := allCompleted }] := by decide

/-- stationary schedule over New Year's Eve of a leap year and the following day, all workable: both
days are observed (the requirement 365 plays no role) -/
example :
    let c : Cfg := { kind := .stationary, crews := 1, cap := 1, sites := [1],
                     P := fun _ => { rs := 365, months := [1, 12], depYears := [2024, 2025],
                                     simYears := [2024, 2025] } }
    let ds : List DayIn := [{ date := ⟨2024, 12, 30⟩, out := allCompleted },
      { date := ⟨2024, 12, 31⟩, out := allCompleted }, { date := ⟨2025, 1, 1⟩, out := allCompleted }]
    done ((runDays c ds).pl 1) 2024 = 2 ∧ done ((runDays c ds).pl 1) 2025 = 1 := by
  decide +kernel


/-- a full-calendar configuration satisfying every hypothesis of `all_done_when_feasible`:
months Feb–May, 2 surveys, plan Feb 1 / Apr 1 -/
def exOk : Cfg :=
  { kind := .routine, crews := 1, cap := 3, sites := [1, 2],
    P := fun _ => { rs := 2, months := [2, 3, 4, 5], depYears := [2024], simYears := [2024],
                    plan := [(2, 1), (4, 1)], surveyTime := 60 } }

def exOkYear : List DayIn :=
  [(1, 31), (2, 1), (2, 2), (3, 31), (4, 1), (6, 1)].map (fun t => { date := ⟨2024, t.1, t.2⟩, out := allCompleted })

example : done ((runDays exOk ([] ++ exOkYear)).pl 1) 2024 = required (exOk.P 1) 2024 := by
  apply all_done_when_feasible exOk (by decide) rfl 1 (by decide) 2024 (by decide) [] exOkYear
  · intro d hd
    refine ⟨by decide, ?_⟩
    simp only [List.nil_append, exOkYear, List.mem_map] at hd
    obtain ⟨t, _, rfl⟩ := hd
    intro i; rfl
  · intro d hd; simp at hd
  · intro d hd
    simp only [exOkYear, List.mem_map] at hd
    obtain ⟨t, _, rfl⟩ := hd
    rfl
  · decide +kernel
  · rfl
  · decide +kernel
  · decide +kernel

example : done ((runDays exOk exOkYear).pl 1) 2024 = 2 ∧ done ((runDays exOk exOkYear).pl 2) 2024 = 2 := by
  decide +kernel

/-- `done_le_required_partial` applies to the January witness (every survey completes in 2024, a year
with one required survey): hypotheses satisfiable although the calendar clause fails there -/
example : CompletesOK cexCfg init
    [{ date := ⟨2024, 1, 31⟩, out := allCompleted }, { date := ⟨2024, 2, 1⟩, out := allCompleted }] := by
  unfold CompletesOK CompletesOK CompletesOK
  refine ⟨?_, ?_, trivial⟩ <;> intro i _ <;> exact (by decide : 0 < required (cexCfg.P 0) 2024)

end LdarModel.Sched
