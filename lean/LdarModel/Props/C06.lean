import LdarModel.Lemmas.Sched
/-
C06 — survey frequency contract.

Model: `Model/Planner.lean` (`guardRoutine`, `guardStationary`, `required`, `done`, `scheduleDay`,
`runDays`).  Dates are inputs `(year, month, day)` of each simulated day; the evenly spaced plan
dates are an input list of the planner.  A history is a list of days with the crew outcome of every
planned request as input.
-/
namespace LdarModel.Sched

set_option linter.unusedSimpArgs false
set_option linter.unusedVariables false

/-- calendar order of the simulated days as far as the counters care: years never decrease -/
def Chrono (ds : List DayIn) : Prop := ds.Pairwise (fun a b => a.date.y ≤ b.date.y)

/-- the work plan of a day -/
def planOn (c : Cfg) (d : DayIn) (s : State) : List Nat := planKeys c (requestPhase c d.date s)

/-! ### 1. requests are issued only under the guard -/

/-- a routine request is issued only for a planner of the method, on a day whose year is a
deployment year and whose month is a deployment month, with `done < required` for that year, no
outstanding request, and the plan date of the next survey reached -/
theorem requests_guarded (c : Cfg) (hk : c.kind = .routine) (s : State) (dt : Date) (i : Nat)
    (hi : i ∈ issued c dt s) :
    i ∈ c.sites ∧ dt.y ∈ (c.P i).depYears ∧ dt.m ∈ (c.P i).months ∧ (s.pl i).queued = false ∧
    done (s.pl i) dt.y < required (c.P i) dt.y ∧
    ∃ pd, (c.P i).plan[done (s.pl i) dt.y]? = some pd ∧ mdLe pd (dt.m, dt.d) := by
  unfold issued at hi
  rw [List.mem_filter] at hi
  obtain ⟨hs, hg⟩ := hi
  simp only [hk, guardK, guardRoutine, Bool.and_eq_true, decide_eq_true_eq, Bool.not_eq_true'] at hg
  obtain ⟨⟨⟨⟨h1, h2⟩, h3⟩, h4⟩, h5⟩ := hg
  refine ⟨hs, h1, h2, h3, h4, ?_⟩
  cases hp : (c.P i).plan[done (s.pl i) dt.y]? with
  | none => rw [hp] at h5; exact Bool.noConfusion h5
  | some pd => rw [hp] at h5; exact ⟨pd, rfl, by simpa using h5⟩

/-- the queue receives exactly the issued requests -/
theorem requests_enter_queue (c : Cfg) (dt : Date) (s : State) (h : Inv s) :
    (requestPhase c dt s).q.sites.Perm (s.q.sites ++ issued c dt s) := by
  have := putAll_sites s.q h.qwf ((issued c dt s).map (fun i => (prioNew, (0 : Int), i)))
  simp only [List.map_map, Function.comp_def, List.map_id'] at this
  unfold requestPhase
  simp only [foldl_issue_eq]
  exact this

/-- where the method is not deployed at the site (or the site has no frequency for a mobile method)
the planner built by the schedule requires 0 surveys in every year and never issues a request —
routine and stationary schedules (`generic_schedule.py:60-83`, `stationary_schedule.py`) -/
theorem not_deployed_never_requested (stationary : Bool) (freq : Option Nat) (deploy : Bool)
    (months years : List Nat) (plan : List (Nat × Nat)) (S : Int) (a b : Date)
    (hnd : deploy = false ∨ (stationary = false ∧ freq = none)) (k : Kind) (dt : Date) (ps : PlannerS) :
    (∀ y, required (mkPlannerP stationary freq deploy months years plan S a b) y = 0) ∧
    guardK k (mkPlannerP stationary freq deploy months years plan S a b) dt ps = false := by
  have hreq : ∀ y, required (mkPlannerP stationary freq deploy months years plan S a b) y = 0 := by
    intro y
    unfold required mkPlannerP
    rcases hnd with h | ⟨h1, h2⟩
    · subst h; cases stationary <;> cases freq <;> simp
    · subst h1; subst h2; simp
  refine ⟨hreq, ?_⟩
  have h0 := hreq dt.y
  cases k <;>
    simp only [guardK, guardRoutine, guardStationary, h0, Nat.not_lt_zero, Nat.lt_irrefl, decide_false,
      Bool.and_false, Bool.false_and]

/-! ### 2. never more than required -/

/-- every survey that completes on some day of the history does so in a year for which the planner
requires at least one survey (a request carried over New Year does not land in a year without
deployment) -/
def CompletesOK (c : Cfg) : State → List DayIn → Prop
  | _, [] => True
  | s, d :: ds => (∀ i, completesAt c d s i = true → 0 < required (c.P i) d.date.y) ∧
      CompletesOK c (scheduleDay c d s) ds

/-- invariant behind `done ≤ required` (year `Y` = year of the last simulated day) -/
structure CountInv (c : Cfg) (s : State) (Y : Nat) : Prop where
  past : ∀ i, ∀ y ∈ (s.pl i).log, y ≤ Y
  open_ : ∀ i, (s.pl i).queued = true → done (s.pl i) Y < required (c.P i) Y ∨ done (s.pl i) Y = 0
  le : ∀ i y, done (s.pl i) y ≤ required (c.P i) y

theorem countInv_roll (c : Cfg) (s : State) (Y Y' : Nat) (h : CountInv c s Y) (hY : Y ≤ Y') :
    CountInv c s Y' := by
  refine ⟨fun i y hy => Nat.le_trans (h.past i y hy) hY, ?_, h.le⟩
  intro i hq
  by_cases he : Y' = Y
  · subst he; exact h.open_ i hq
  · right
    unfold done
    rw [List.count_eq_zero]
    intro hin
    have := h.past i Y' hin
    omega

theorem countInv_day (c : Cfg) (hc : c.sites.Nodup) (hk : c.kind = .routine) (d : DayIn) (s : State)
    (hi : Inv s) (h : CountInv c s d.date.y)
    (hok : ∀ i, completesAt c d s i = true → 0 < required (c.P i) d.date.y) :
    CountInv c (scheduleDay c d s) d.date.y := by
  have h1 := inv_request c hc d.date s hi
  refine ⟨?_, ?_, ?_⟩
  · intro i y hy
    rw [(day_site c d s i).1] at hy
    split at hy
    · rcases List.mem_cons.1 hy with rfl | hy
      · exact Nat.le_refl _
      · exact h.past i y hy
    · exact h.past i y hy
  · intro i hq
    rw [(day_site c d s i).2] at hq
    unfold done
    rw [(day_site c d s i).1]
    cases hcp : completesAt c d s i
    · simp only [hcp, Bool.false_eq_true, if_false] at hq ⊢
      rw [request_queued] at hq
      by_cases hiss : i ∈ issued c d.date s
      · left; exact (requests_guarded c hk s d.date i hiss).2.2.2.2.1
      · simp only [hiss, decide_false, Bool.or_false] at hq
        exact h.open_ i hq
    · simp [hcp] at hq
  · intro i y
    unfold done
    rw [(day_site c d s i).1]
    cases hcp : completesAt c d s i
    · simp only [Bool.false_eq_true, if_false]; exact h.le i y
    · simp only [if_true, List.count_cons]
      by_cases hy : d.date.y = y
      · subst hy
        simp only [BEq.rfl, if_true]
        -- the completing request was outstanding after the request phase
        have hkeys : i ∈ planKeys c (requestPhase c d.date s) := by
          unfold completesAt at hcp
          simp only [Bool.and_eq_true, decide_eq_true_eq] at hcp
          exact hcp.1
        have hq1 := planKeys_queued c _ h1 i hkeys
        rw [request_queued] at hq1
        have hopen : done (s.pl i) d.date.y < required (c.P i) d.date.y ∨ done (s.pl i) d.date.y = 0 := by
          by_cases hiss : i ∈ issued c d.date s
          · left; exact (requests_guarded c hk s d.date i hiss).2.2.2.2.1
          · simp only [hiss, decide_false, Bool.or_false] at hq1
            exact h.open_ i hq1
        have hpos := hok i hcp
        unfold done at hopen
        omega
      · have : (d.date.y == y) = false := by simp [hy]
        simp only [this, Bool.false_eq_true, if_false, Nat.add_zero]
        exact h.le i y

theorem countInv_run (c : Cfg) (hc : c.sites.Nodup) (hk : c.kind = .routine) (ds : List DayIn) (s : State)
    (Y : Nat) (hi : Inv s) (h : CountInv c s Y) (hch : Chrono ds) (hY : ∀ d ∈ ds, Y ≤ d.date.y)
    (hok : CompletesOK c s ds) :
    ∀ i y, done ((ds.foldl (fun s d => scheduleDay c d s) s).pl i) y ≤ required (c.P i) y := by
  induction ds generalizing s Y with
  | nil => exact h.le
  | cons d ds ih =>
    simp only [List.foldl_cons]
    unfold Chrono at hch
    rw [List.pairwise_cons] at hch
    have hroll := countInv_roll c s Y d.date.y h (hY d (by simp))
    exact ih (scheduleDay c d s) d.date.y (inv_scheduleDay c hc d s hi)
      (countInv_day c hc hk d s hi hroll hok.1) hch.2 (fun d' hd' => hch.1 d' hd') hok.2

/-- **never more than required** (mobile routine methods): for every site, year and history whose
years do not decrease, provided no carried-over survey completes in a year for which the planner
requires none -/
theorem done_le_required_partial (c : Cfg) (hc : c.sites.Nodup) (hk : c.kind = .routine) (ds : List DayIn)
    (hch : Chrono ds) (hok : CompletesOK c init ds) (i y : Nat) :
    done ((runDays c ds).pl i) y ≤ required (c.P i) y := by
  unfold runDays
  refine countInv_run c hc hk ds init 0 inv_init ⟨?_, ?_, ?_⟩ hch (fun _ _ => Nat.zero_le _) hok i y
  · intro i y hy; simp [init] at hy
  · intro i hq; simp [init] at hq
  · intro i y; simp [init, done]

/-- the hypothesis is implied when every request completes in the year it was issued in: a request
is only issued while `done < required` -/
theorem completes_same_year_ok (c : Cfg) (hk : c.kind = .routine) (s : State) (d : DayIn) (i : Nat)
    (hiss : i ∈ issued c d.date s) : 0 < required (c.P i) d.date.y := by
  have := (requests_guarded c hk s d.date i hiss).2.2.2.2.1
  omega

/-! ### 4. stationary methods: once per workable day -/

theorem isComplete_applyOutcome (p : PlannerP) (o : Outcome) (x : PlannerS) (hx : isComplete x = false) :
    isComplete (applyOutcome p o x) = true ↔ o = .completed := by
  constructor
  · intro h
    cases o with
    | completed => rfl
    | progressed m => rw [applyOutcome_complete_false p _ x hx (by simp)] at h; exact Bool.noConfusion h
    | untouched => rw [applyOutcome_complete_false p _ x hx (by simp)] at h; exact Bool.noConfusion h
  · intro h; subst h; simp [applyOutcome, isComplete]

/-- a stationary schedule plans, every day, exactly the sites that hold a request (carried from an
earlier day or issued today), each once; every deployed site holds one on every day of its
deployment calendar; a planned site is observed (its survey completes and is counted once) iff the
day is workable for it (crew outcome `completed`), otherwise the request is carried -/
theorem stationary_once_per_workable_day (c : Cfg) (hc : c.sites.Nodup) (hk : c.kind = .stationary)
    (ds : List DayIn) (d : DayIn) :
    let s := runDays c ds
    (planOn c d s).Nodup ∧
    (∀ i, i ∈ planOn c d s ↔ ((s.pl i).queued = true ∨ i ∈ issued c d.date s)) ∧
    (∀ i ∈ c.sites, d.date.y ∈ (c.P i).depYears → d.date.m ∈ (c.P i).months →
        0 < required (c.P i) d.date.y → i ∈ planOn c d s) ∧
    (∀ i, completesAt c d s i = true ↔ (i ∈ planOn c d s ∧ d.out i = .completed)) ∧
    (∀ i y, done ((scheduleDay c d s).pl i) y =
        done (s.pl i) y + (if completesAt c d s i = true ∧ y = d.date.y then 1 else 0)) ∧
    (∀ i, i ∈ planOn c d s → d.out i ≠ .completed → i ∈ (scheduleDay c d s).q.sites) := by
  intro s
  have hi : Inv s := inv_runDays c hc ds
  have h1 := inv_request c hc d.date s hi
  have hall : planOn c d s = (requestPhase c d.date s).q.sites := by
    unfold planOn
    rw [planKeys_eq c _ h1]
    simp only [takeCount, hk, List.take_length, Queue.sites]
  have hmem : ∀ i, i ∈ planOn c d s ↔ ((s.pl i).queued = true ∨ i ∈ issued c d.date s) := by
    intro i
    rw [hall, (requests_enter_queue c d.date s hi).mem_iff, List.mem_append, hi.flag i]
  have hcomp : ∀ i, completesAt c d s i = true ↔ (i ∈ planOn c d s ∧ d.out i = .completed) := by
    intro i
    unfold completesAt planOn
    simp only [Bool.and_eq_true, decide_eq_true_eq]
    constructor
    · intro ⟨hk', hcp⟩
      refine ⟨hk', ?_⟩
      unfold deployed at hcp
      simp only [hk', if_true] at hcp
      exact (isComplete_applyOutcome _ _ _ (h1.notComplete i)).1 hcp
    · intro ⟨hk', ho⟩
      refine ⟨hk', ?_⟩
      unfold deployed
      simp only [hk', if_true]
      exact (isComplete_applyOutcome _ _ _ (h1.notComplete i)).2 ho
  refine ⟨?_, hmem, ?_, hcomp, ?_, ?_⟩
  · rw [hall]; exact h1.nodup
  · intro i his hy hm hr
    rw [hmem]
    cases hq : (s.pl i).queued
    · right
      unfold issued
      rw [List.mem_filter]
      refine ⟨his, ?_⟩
      simp [guardK, hk, guardStationary, hy, hm, hq, hr]
    · left; rfl
  · intro i y
    unfold done
    rw [(day_site c d s i).1]
    cases hcp : completesAt c d s i
    · simp
    · simp only [if_true, List.count_cons, true_and]
      by_cases hy : y = d.date.y
      · subst hy; simp
      · have : (d.date.y == y) = false := by simp; exact fun h => hy h.symm
        simp [this, hy]
  · intro i hip hno
    have hfin := inv_scheduleDay c hc d s hi
    apply (hfin.flag i).1
    rw [(day_site c d s i).2]
    have hncp : completesAt c d s i = false := by
      cases hcp : completesAt c d s i
      · rfl
      · exact absurd ((hcomp i).1 hcp).2 hno
    simp only [hncp, Bool.false_eq_true, if_false]
    rw [request_queued]
    rcases (hmem i).1 hip with hq | hiss
    · simp [hq]
    · simp [hiss]

end LdarModel.Sched
