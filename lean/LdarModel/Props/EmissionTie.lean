/-
Layer 3 tie for the emission state machine (used by C02, C03, C04, C11; DESIGN.md §10.21).

`Generated/EmissionSrc.lean` is the translation of the methods of the four emission classes, rewritten
from /repo's source on every run.  The theorems below say that, through the abstraction functions
`absR` / `absN`, every translated method *is* the corresponding function of the hand-written model
`Model/Emission.lean`, for every object (no bound on any field) that satisfies what the constructors
establish (`WFR` / `WFN`).  A change of the Python source that changes the meaning of a method makes
the corresponding theorem fail to compile.

Only the aliases `RE.* / NRE.* / IRE.* / INRE.*` are mentioned here: which class of the MRO defines a
method may change freely.
-/
import LdarModel.Generated.EmissionSrc
import LdarModel.Model.Emission

namespace LdarModel.EmissionTie
open LdarModel.Emission LdarModel.EmissionSrc

/-- parameters of a repairable emission object (`i` = the class mixes in intermittency) -/
def parR (i : Bool) (o : Obj) : Params :=
  { start := o.start_date, nrd := o.nrd, repairDelay := o.repair_delay, repairable := true, intermittent := i, activeDur := o.active_duration, inactiveDur := o.inactive_duration }

/-- parameters of a non-repairable emission object -/
def parN (i : Bool) (o : Obj) : Params :=
  { start := o.start_date, nrd := o.duration, repairDelay := 0, repairable := false, intermittent := i, activeDur := o.active_duration, inactiveDur := o.inactive_duration }

/-- model state of a repairable emission object -/
def absR (o : Obj) : State :=
  { status := o.status, activeDays := o.active_days, tagged := o.tagged, dst := o.days_since_tagged, trd := o.tagging_rep_delay, by_ := o.tagged_by_company, endDate := o.repair_date, initDetect := o.init_detect_date, initDetectBy := o.init_detect_by, emitting := o.emitting, daysEmitting := o.days_emitting, onCount := o.emitting_period_day_count, offCount := o.non_emitting_period_day_count }

/-- model state of a non-repairable emission object (`_record` plays the role of `_tagged`) -/
def absN (o : Obj) : State :=
  { status := o.status, activeDays := o.active_days, tagged := o.record, dst := 0, trd := 0, by_ := o.recorded_by_company, endDate := o.expiry_date, initDetect := o.init_detect_date, initDetectBy := o.init_detect_by, emitting := o.emitting, daysEmitting := o.days_emitting, onCount := o.emitting_period_day_count, offCount := o.non_emitting_period_day_count }

/-- what `RepairableEmission.__init__` establishes (source.py always passes `repairable=True`) -/
def WFR (o : Obj) : Prop :=
  o.repairable = true ∧ o.days_active_b4_sim = (if -o.start_date > 0 then -o.start_date else 0)

/-- what `NonRepairableEmission.__init__` establishes -/
def WFN (o : Obj) : Prop :=
  o.days_active_b4_sim = (if -o.start_date > 0 then -o.start_date else 0)

/-- the shared proof script: unfold the translation and the model, then case analysis + arithmetic -/
macro "tie" : tactic =>
  `(tactic| (try simp only [WFR, WFN] at *
             first
               | (simp [absR, absN, parR, parN, Emission.update, Emission.toggle, Emission.endedAt, Emission.b4,
                        Emission.activate, Emission.tag, Emission.detectRec, Emission.applyEv, Emission.mitDays,
                        Emission.emitDays, Emission.isEmitting] <;> grind)
               | (simp [absR, absN, parR, parN, Emission.update, Emission.toggle, Emission.endedAt, Emission.b4,
                        Emission.activate, Emission.tag, Emission.detectRec, Emission.applyEv, Emission.mitDays,
                        Emission.emitDays, Emission.isEmitting] <;> (repeat' split) <;> simp_all <;> omega)
               | grind [absR, absN, parR, parN, Emission.update, Emission.toggle, Emission.endedAt, Emission.b4,
                        Emission.activate, Emission.tag, Emission.detectRec, Emission.applyEv, Emission.mitDays,
                        Emission.emitDays, Emission.isEmitting]))

/-! ### daily update -/

theorem RE_update (o : Obj) (h : WFR o) :
    absR (RE.update o).1 = Emission.update (parR false o) (absR o) := by tie

theorem IRE_update (o : Obj) (h : WFR o) :
    absR (IRE.update o).1 = Emission.update (parR true o) (absR o) := by tie

theorem NRE_update (o : Obj) (h : WFN o) :
    absN (NRE.update o).1 = Emission.update (parN false o) (absN o) := by tie

theorem INRE_update (o : Obj) (h : WFN o) :
    absN (INRE.update o).1 = Emission.update (parN true o) (absN o) := by tie


/-- the value `update` returns is "still active" -/
theorem RE_update_ret (o : Obj) (h : WFR o) :
    (RE.update o).2 = decide ((Emission.update (parR false o) (absR o)).status = .active) := by tie
theorem IRE_update_ret (o : Obj) (h : WFR o) :
    (IRE.update o).2 = decide ((Emission.update (parR true o) (absR o)).status = .active) := by tie
theorem NRE_update_ret (o : Obj) (h : WFN o) :
    (NRE.update o).2 = decide ((Emission.update (parN false o) (absN o)).status = .active) := by tie
theorem INRE_update_ret (o : Obj) (h : WFN o) :
    (INRE.update o).2 = decide ((Emission.update (parN true o) (absN o)).status = .active) := by tie

/-- `update` changes no parameter and keeps the constructor's well-formedness -/
theorem RE_update_frame (o : Obj) (h : WFR o) (i : Bool) :
    parR i (RE.update o).1 = parR i o ∧ WFR (RE.update o).1 ∧ (RE.update o).1.rate = o.rate := by tie
theorem IRE_update_frame (o : Obj) (h : WFR o) (i : Bool) :
    parR i (IRE.update o).1 = parR i o ∧ WFR (IRE.update o).1 ∧ (IRE.update o).1.rate = o.rate := by tie
theorem NRE_update_frame (o : Obj) (h : WFN o) (i : Bool) :
    parN i (NRE.update o).1 = parN i o ∧ WFN (NRE.update o).1 ∧ (NRE.update o).1.rate = o.rate := by tie
theorem INRE_update_frame (o : Obj) (h : WFN o) (i : Bool) :
    parN i (INRE.update o).1 = parN i o ∧ WFN (INRE.update o).1 ∧ (INRE.update o).1.rate = o.rate := by tie

/-! ### the `EmisInfo` counters (C10: a repair is counted once, on the day it happens) -/

theorem RE_update_info (o : Obj) (h : WFR o) (hn : o.tagged_by_company ≠ .natural) :
    let s' := Emission.update (parR false o) (absR o)
    (RE.update o).1.info_leaks_repaired = o.info_leaks_repaired
        + (if o.status = .active ∧ s'.status = .repaired ∧ s'.by_ ≠ .natural then 1 else 0)
    ∧ (RE.update o).1.info_leaks_nat_repaired = o.info_leaks_nat_repaired
        + (if o.status = .active ∧ s'.status = .repaired ∧ s'.by_ = .natural then 1 else 0) := by tie
theorem IRE_update_info (o : Obj) (h : WFR o) (hn : o.tagged_by_company ≠ .natural) :
    let s' := Emission.update (parR true o) (absR o)
    (IRE.update o).1.info_leaks_repaired = o.info_leaks_repaired
        + (if o.status = .active ∧ s'.status = .repaired ∧ s'.by_ ≠ .natural then 1 else 0)
    ∧ (IRE.update o).1.info_leaks_nat_repaired = o.info_leaks_nat_repaired
        + (if o.status = .active ∧ s'.status = .repaired ∧ s'.by_ = .natural then 1 else 0) := by tie
theorem NRE_update_info (o : Obj) (h : WFN o) :
    (NRE.update o).1.info_emis_expired = o.info_emis_expired
        + (if o.status = .active ∧ (Emission.update (parN false o) (absN o)).status = .expired then 1 else 0) := by tie
theorem INRE_update_info (o : Obj) (h : WFN o) :
    (INRE.update o).1.info_emis_expired = o.info_emis_expired
        + (if o.status = .active ∧ (Emission.update (parN true o) (absN o)).status = .expired then 1 else 0) := by tie

/-! ### activation (reached through the source cursor: only pending emissions) -/

theorem RE_activate (o : Obj) (d : Int) (h : o.status = .inactive) :
    absR (RE.activate o d).1 = Emission.activate (parR false o) d (absR o)
    ∧ (RE.activate o d).2 = decide (o.start_date ≤ d) := by tie
theorem IRE_activate (o : Obj) (d : Int) (h : o.status = .inactive) :
    absR (IRE.activate o d).1 = Emission.activate (parR true o) d (absR o)
    ∧ (IRE.activate o d).2 = decide (o.start_date ≤ d) := by tie
theorem NRE_activate (o : Obj) (d : Int) (h : o.status = .inactive) :
    absN (NRE.activate o d).1 = Emission.activate (parN false o) d (absN o)
    ∧ (NRE.activate o d).2 = decide (o.start_date ≤ d) := by tie
theorem INRE_activate (o : Obj) (d : Int) (h : o.status = .inactive) :
    absN (INRE.activate o d).1 = Emission.activate (parN true o) d (absN o)
    ∧ (INRE.activate o d).2 = decide (o.start_date ≤ d) := by tie

/-! ### tagging / recording (`Component.tag_emissions` calls `tag_leak` resp. `record_emission`, then
`update_detection_records`, on its *active* emissions) -/

theorem RE_tag (o : Obj) (mr d t : Int) (c crew : Nat) (trd : Int) (i : Bool) (h : o.status = .active) :
    absR (RE.update_detection_records (RE.tag_leak o mr d t c crew trd).1 c d).1
      = Emission.tag (parR i o) d { company := c, trd := trd } (absR o) := by tie
theorem IRE_tag (o : Obj) (mr d t : Int) (c crew : Nat) (trd : Int) (i : Bool) (h : o.status = .active) :
    absR (IRE.update_detection_records (IRE.tag_leak o mr d t c crew trd).1 c d).1
      = Emission.tag (parR i o) d { company := c, trd := trd } (absR o) := by tie
theorem NRE_tag (o : Obj) (mr d t : Int) (c crew : Nat) (trd : Int) (i : Bool) (h : o.status = .active) :
    absN (NRE.update_detection_records (NRE.record_emission o mr d t c crew).1 c d).1
      = Emission.tag (parN i o) d { company := c, trd := trd } (absN o) := by tie
theorem INRE_tag (o : Obj) (mr d t : Int) (c crew : Nat) (trd : Int) (i : Bool) (h : o.status = .active) :
    absN (INRE.update_detection_records (INRE.record_emission o mr d t c crew).1 c d).1
      = Emission.tag (parN i o) d { company := c, trd := trd } (absN o) := by tie

/-- `tag_leak` says whether the leak is new -/
theorem RE_tag_ret (o : Obj) (mr d t : Int) (c crew : Nat) (trd : Int) :
    (RE.tag_leak o mr d t c crew trd).2 = !o.tagged ∧ (IRE.tag_leak o mr d t c crew trd).2 = !o.tagged := by tie

/-- tagging changes no parameter and keeps well-formedness -/
theorem RE_tag_frame (o : Obj) (mr d t : Int) (c crew : Nat) (trd : Int) (i : Bool) (h : WFR o) :
    let o' := (RE.update_detection_records (RE.tag_leak o mr d t c crew trd).1 c d).1
    parR i o' = parR i o ∧ WFR o' ∧ o'.rate = o.rate := by tie
theorem IRE_tag_frame (o : Obj) (mr d t : Int) (c crew : Nat) (trd : Int) (i : Bool) (h : WFR o) :
    let o' := (IRE.update_detection_records (IRE.tag_leak o mr d t c crew trd).1 c d).1
    parR i o' = parR i o ∧ WFR o' ∧ o'.rate = o.rate := by tie
theorem NRE_tag_frame (o : Obj) (mr d t : Int) (c crew : Nat) (i : Bool) (h : WFN o) :
    let o' := (NRE.update_detection_records (NRE.record_emission o mr d t c crew).1 c d).1
    parN i o' = parN i o ∧ WFN o' ∧ o'.rate = o.rate := by tie
theorem INRE_tag_frame (o : Obj) (mr d t : Int) (c crew : Nat) (i : Bool) (h : WFN o) :
    let o' := (INRE.update_detection_records (INRE.record_emission o mr d t c crew).1 c d).1
    parN i o' = parN i o ∧ WFN o' ∧ o'.rate = o.rate := by tie

/-! ### detection records written by site-level sensors -/

theorem RE_detect (o : Obj) (c : Nat) (d : Int) (i : Bool) (h : o.status = .active) :
    absR (RE.update_detection_records o c d).1 = Emission.applyEv (parR i o) d (.detect c) (absR o)
    ∧ absR (IRE.update_detection_records o c d).1 = Emission.applyEv (parR i o) d (.detect c) (absR o) := by tie
theorem NRE_detect (o : Obj) (c : Nat) (d : Int) (i : Bool) (h : o.status = .active) :
    absN (NRE.update_detection_records o c d).1 = Emission.applyEv (parN i o) d (.detect c) (absN o)
    ∧ absN (INRE.update_detection_records o c d).1 = Emission.applyEv (parN i o) d (.detect c) (absN o) := by tie

/-! ### what the summaries read -/

/-- `calc_mitigated(end_date)` = model mitigated days × rate × the unit constant; reads only -/
theorem RE_mitigated (o : Obj) (e : Int) (h : WFR o) (i : Bool) :
    (RE.calc_mitigated o e).2 = Emission.mitDays (parR i o) (absR o) e * o.rate * o.env_kg_per_day
    ∧ (RE.calc_mitigated o e).1 = o := by
  obtain ⟨h1, h2⟩ := h
  simp [absR, parR, Emission.mitDays, Emission.b4, Int.max_def, h2]
  constructor
  · (repeat' split) <;> (try simp_all) <;> first | done | omega | (congr 2; omega) | grind
  · (repeat' split) <;> rfl
theorem IRE_mitigated (o : Obj) (e : Int) (h : WFR o) (i : Bool) :
    (IRE.calc_mitigated o e).2 = Emission.mitDays (parR i o) (absR o) e * o.rate * o.env_kg_per_day
    ∧ (IRE.calc_mitigated o e).1 = o := by
  obtain ⟨h1, h2⟩ := h
  simp [absR, parR, Emission.mitDays, Emission.b4, Int.max_def, h2]
  constructor
  · (repeat' split) <;> (try simp_all) <;> first | done | omega | (congr 2; omega) | grind
  · (repeat' split) <;> rfl

/-- `calc_theory_date` (the "Theoretical End Date" column): start + natural repair delay, whatever the
life-cycle state — in particular whatever a program did to the leak (C01: natural end date) -/
theorem RE_theory_date (o : Obj) :
    (RE.calc_theory_date o).2 = o.start_date + o.nrd ∧ (RE.calc_theory_date o).1 = o
    ∧ (IRE.calc_theory_date o).2 = o.start_date + o.nrd ∧ (IRE.calc_theory_date o).1 = o := by tie

/-- `tagged_today` -/
theorem RE_tagged_today (o : Obj) :
    (RE.tagged_today o).2 = (o.tagged && decide (o.days_since_tagged = 0) && decide (o.tagged_by_company ≠ .natural))
    ∧ (IRE.tagged_today o).2 = (o.tagged && decide (o.days_since_tagged = 0) && decide (o.tagged_by_company ≠ .natural)) := by tie

/-- `calc_true_emis_vol`, `get_days_emitting`, `is_emitting` -/
theorem RE_emitted (o : Obj) :
    (RE.calc_true_emis_vol o).2 = Emission.emitDays (parR false o) (absR o) * o.rate * o.env_kg_per_day
    ∧ (RE.get_days_emitting o).2 = Emission.emitDays (parR false o) (absR o)
    ∧ (RE.is_emitting o).2 = Emission.isEmitting (parR false o) (absR o) := by tie
theorem IRE_emitted (o : Obj) :
    (IRE.calc_true_emis_vol o).2 = Emission.emitDays (parR true o) (absR o) * o.rate * o.env_kg_per_day
    ∧ (IRE.get_days_emitting o).2 = Emission.emitDays (parR true o) (absR o)
    ∧ (IRE.is_emitting o).2 = Emission.isEmitting (parR true o) (absR o) := by tie
theorem NRE_emitted (o : Obj) :
    (NRE.calc_true_emis_vol o).2 = Emission.emitDays (parN false o) (absN o) * o.rate * o.env_kg_per_day
    ∧ (NRE.get_days_emitting o).2 = Emission.emitDays (parN false o) (absN o)
    ∧ (NRE.is_emitting o).2 = Emission.isEmitting (parN false o) (absN o) := by tie
theorem INRE_emitted (o : Obj) :
    (INRE.calc_true_emis_vol o).2 = Emission.emitDays (parN true o) (absN o) * o.rate * o.env_kg_per_day
    ∧ (INRE.get_days_emitting o).2 = Emission.emitDays (parN true o) (absN o)
    ∧ (INRE.is_emitting o).2 = Emission.isEmitting (parN true o) (absN o) := by tie

/-- nothing was left untranslated (otherwise the theorems above talk about placeholders) -/
theorem all_translated : EmissionSrc.untranslated = [] := by decide

/-- the method resolution orders the translation relied on -/
theorem mros_as_modelled : EmissionSrc.mros =
    [("RepairableEmission", ["RepairableEmission", "Emission"]),
     ("NonRepairableEmission", ["NonRepairableEmission", "Emission"]),
     ("IntermittentRepairableEmission", ["IntermittentRepairableEmission", "IntermittencyMixin", "RepairableEmission", "Emission"]),
     ("IntermittentNonRepairableEmission", ["IntermittentNonRepairableEmission", "IntermittencyMixin", "NonRepairableEmission", "Emission"])] := by decide

end LdarModel.EmissionTie

/-! ### from methods to runs

The model's day (`Emission.day`) is: activation of a pending emission, the day's tag requests, the daily
update.  `Cls.day` is the same composition *on the translated methods*; `run_tie` shows by induction
over the days that iterating it is the model's `run`, so every theorem of C02/C03/C04/C11 about
`Emission.run` is a theorem about the translated code driven in this order.  That `Component` /
`Source` / `LdarSim.run_simulation` call the methods in this order (and only then) is what remains tied
by the differential correspondence. -/

namespace LdarModel.EmissionTie
open LdarModel.Emission LdarModel.EmissionSrc

/-- activation keeps parameters and well-formedness -/
theorem RE_activate_frame (o : Obj) (d : Int) (h : WFR o) (i : Bool) :
    parR i (RE.activate o d).1 = parR i o ∧ WFR (RE.activate o d).1
    ∧ parR i (IRE.activate o d).1 = parR i o ∧ WFR (IRE.activate o d).1 := by tie
theorem NRE_activate_frame (o : Obj) (d : Int) (h : WFN o) (i : Bool) :
    parN i (NRE.activate o d).1 = parN i o ∧ WFN (NRE.activate o d).1
    ∧ parN i (INRE.activate o d).1 = parN i o ∧ WFN (INRE.activate o d).1 := by tie

/-- no translated method writes the rate or the unit constant -/
theorem RE_env (o : Obj) (d : Int) (e : TagEv) :
    ((RE.activate o d).1.rate = o.rate ∧ (RE.activate o d).1.env_kg_per_day = o.env_kg_per_day)
    ∧ ((RE.update_detection_records (RE.tag_leak o 0 d 0 e.company 0 e.trd).1 e.company d).1.rate = o.rate
       ∧ (RE.update_detection_records (RE.tag_leak o 0 d 0 e.company 0 e.trd).1 e.company d).1.env_kg_per_day = o.env_kg_per_day)
    ∧ ((RE.update o).1.rate = o.rate ∧ (RE.update o).1.env_kg_per_day = o.env_kg_per_day) := by tie
theorem IRE_env (o : Obj) (d : Int) (e : TagEv) :
    ((IRE.activate o d).1.rate = o.rate ∧ (IRE.activate o d).1.env_kg_per_day = o.env_kg_per_day)
    ∧ ((IRE.update_detection_records (IRE.tag_leak o 0 d 0 e.company 0 e.trd).1 e.company d).1.rate = o.rate
       ∧ (IRE.update_detection_records (IRE.tag_leak o 0 d 0 e.company 0 e.trd).1 e.company d).1.env_kg_per_day = o.env_kg_per_day)
    ∧ ((IRE.update o).1.rate = o.rate ∧ (IRE.update o).1.env_kg_per_day = o.env_kg_per_day) := by tie
theorem NRE_env (o : Obj) (d : Int) (e : TagEv) :
    ((NRE.activate o d).1.rate = o.rate ∧ (NRE.activate o d).1.env_kg_per_day = o.env_kg_per_day)
    ∧ ((NRE.update_detection_records (NRE.record_emission o 0 d 0 e.company 0).1 e.company d).1.rate = o.rate
       ∧ (NRE.update_detection_records (NRE.record_emission o 0 d 0 e.company 0).1 e.company d).1.env_kg_per_day = o.env_kg_per_day)
    ∧ ((NRE.update o).1.rate = o.rate ∧ (NRE.update o).1.env_kg_per_day = o.env_kg_per_day) := by tie
theorem INRE_env (o : Obj) (d : Int) (e : TagEv) :
    ((INRE.activate o d).1.rate = o.rate ∧ (INRE.activate o d).1.env_kg_per_day = o.env_kg_per_day)
    ∧ ((INRE.update_detection_records (INRE.record_emission o 0 d 0 e.company 0).1 e.company d).1.rate = o.rate
       ∧ (INRE.update_detection_records (INRE.record_emission o 0 d 0 e.company 0).1 e.company d).1.env_kg_per_day = o.env_kg_per_day)
    ∧ ((INRE.update o).1.rate = o.rate ∧ (INRE.update o).1.env_kg_per_day = o.env_kg_per_day) := by tie

/-- what stays constant over a life: rate and unit constant -/
def sameEnv (o o' : Obj) : Prop := o'.rate = o.rate ∧ o'.env_kg_per_day = o.env_kg_per_day

/-- the translated methods of one emission class, with its abstraction -/
structure Cls where
  activate : Obj → Int → Obj
  tagStep : Obj → Int → TagEv → Obj
  update : Obj → Obj
  abs : Obj → State
  par : Obj → Params
  WF : Obj → Prop

/-- the per-method ties a class has to provide -/
structure Cls.Ok (c : Cls) : Prop where
  status : ∀ o, (c.abs o).status = o.status
  act : ∀ o d, o.status = .inactive → c.WF o →
    c.abs (c.activate o d) = Emission.activate (c.par o) d (c.abs o) ∧ c.WF (c.activate o d) ∧ c.par (c.activate o d) = c.par o
  tag : ∀ o d e, o.status = .active → c.WF o →
    c.abs (c.tagStep o d e) = Emission.tag (c.par o) d e (c.abs o) ∧ c.WF (c.tagStep o d e) ∧ c.par (c.tagStep o d e) = c.par o
  upd : ∀ o, c.WF o →
    c.abs (c.update o) = Emission.update (c.par o) (c.abs o) ∧ c.WF (c.update o) ∧ c.par (c.update o) = c.par o
  env : ∀ o d e, sameEnv o (c.activate o d) ∧ sameEnv o (c.tagStep o d e) ∧ sameEnv o (c.update o)

/-- the day's tag requests on the translated methods (`Component.tag_emissions` touches active emissions only) -/
def Cls.tags (c : Cls) (d : Int) (evs : List TagEv) (o : Obj) : Obj :=
  evs.foldl (fun o e => if o.status = .active then c.tagStep o d e else o) o

/-- one simulated day on the translated methods -/
def Cls.day (c : Cls) (d : Int) (evs : List TagEv) (o : Obj) : Obj :=
  c.update (c.tags d evs (if o.status = .inactive then c.activate o d else o))

/-- `n` simulated days from the freshly constructed object `o0` -/
def Cls.run (c : Cls) (ev : Nat → List TagEv) (o0 : Obj) : Nat → Obj
  | 0 => o0
  | n + 1 => c.day n (ev n) (c.run ev o0 n)

theorem Cls.tags_tie (c : Cls) (ok : c.Ok) (d : Int) (evs : List TagEv) (o : Obj) (h : c.WF o) :
    c.abs (c.tags d evs o) = evs.foldl (fun s e => Emission.tag (c.par o) d e s) (c.abs o)
    ∧ c.WF (c.tags d evs o) ∧ c.par (c.tags d evs o) = c.par o := by
  induction evs generalizing o with
  | nil => simp [Cls.tags, h]
  | cons e es ih =>
    simp only [Cls.tags, List.foldl_cons]
    by_cases ha : o.status = .active
    · obtain ⟨h1, h2, h3⟩ := ok.tag o d e ha h
      have := ih (c.tagStep o d e) h2
      simp only [Cls.tags] at this
      simp only [ha, if_true]
      rw [this.1, h1, h3]
      exact ⟨rfl, this.2.1, by rw [this.2.2, h3]⟩
    · have hs : (c.abs o).status ≠ .active := by rw [ok.status]; exact ha
      have ht : Emission.tag (c.par o) d e (c.abs o) = c.abs o := by simp [Emission.tag, hs]
      have := ih o h
      simp only [Cls.tags] at this
      simp only [ha, if_false, ht]
      exact this

theorem Cls.day_tie (c : Cls) (ok : c.Ok) (d : Int) (evs : List TagEv) (o : Obj) (h : c.WF o) :
    c.abs (c.day d evs o) = Emission.day (c.par o) d evs (c.abs o)
    ∧ c.WF (c.day d evs o) ∧ c.par (c.day d evs o) = c.par o := by
  unfold Cls.day Emission.day
  by_cases hi : o.status = .inactive
  · obtain ⟨a1, a2, a3⟩ := ok.act o d hi h
    obtain ⟨t1, t2, t3⟩ := c.tags_tie ok d evs _ a2
    obtain ⟨u1, u2, u3⟩ := ok.upd _ t2
    simp only [hi, if_true]
    refine ⟨?_, u2, by rw [u3, t3, a3]⟩
    rw [u1, t1, t3, a1, a3]
  · have hs : (c.abs o).status ≠ .inactive := by rw [ok.status]; exact hi
    have hact : Emission.activate (c.par o) d (c.abs o) = c.abs o := by simp [Emission.activate, hs]
    obtain ⟨t1, t2, t3⟩ := c.tags_tie ok d evs o h
    obtain ⟨u1, u2, u3⟩ := ok.upd _ t2
    simp only [hi, if_false]
    refine ⟨?_, u2, by rw [u3, t3]⟩
    rw [u1, t1, t3, hact]

/-- **iterating the translated methods is the model's run** -/
theorem Cls.run_tie (c : Cls) (ok : c.Ok) (ev : Nat → List TagEv) (o0 : Obj) (h : c.WF o0)
    (h0 : c.abs o0 = Emission.init) (n : Nat) :
    c.abs (c.run ev o0 n) = Emission.run (c.par o0) ev n
    ∧ c.WF (c.run ev o0 n) ∧ c.par (c.run ev o0 n) = c.par o0 := by
  induction n with
  | zero => exact ⟨by simpa [Cls.run, Emission.run] using h0, h, rfl⟩
  | succ n ih =>
    obtain ⟨i1, i2, i3⟩ := ih
    obtain ⟨d1, d2, d3⟩ := c.day_tie ok n (ev n) _ i2
    refine ⟨?_, d2, by rw [← i3]; exact d3⟩
    simp only [Cls.run, Emission.run]
    rw [d1, i1, i3]

theorem Cls.tags_env (c : Cls) (ok : c.Ok) (d : Int) (evs : List TagEv) (o : Obj) : sameEnv o (c.tags d evs o) := by
  induction evs generalizing o with
  | nil => exact ⟨rfl, rfl⟩
  | cons e es ih =>
    simp only [Cls.tags, List.foldl_cons]
    by_cases ha : o.status = .active
    · simp only [ha, if_true]
      have h1 := (ok.env o d e).2.1
      have h2 := ih (c.tagStep o d e)
      simp only [Cls.tags] at h2
      exact ⟨h2.1.trans h1.1, h2.2.trans h1.2⟩
    · simp only [ha, if_false]
      have := ih o
      simpa [Cls.tags] using this

theorem Cls.run_env (c : Cls) (ok : c.Ok) (ev : Nat → List TagEv) (o0 : Obj) (n : Nat) : sameEnv o0 (c.run ev o0 n) := by
  induction n with
  | zero => exact ⟨rfl, rfl⟩
  | succ n ih =>
    simp only [Cls.run, Cls.day]
    generalize c.run ev o0 n = o at ih
    by_cases hi : o.status = .inactive
    · simp only [hi, if_true]
      have a := (ok.env o n default).1
      have t := c.tags_env ok n (ev n) (c.activate o n)
      have u := (ok.env (c.tags n (ev n) (c.activate o n)) n default).2.2
      exact ⟨u.1.trans (t.1.trans (a.1.trans ih.1)), u.2.trans (t.2.trans (a.2.trans ih.2))⟩
    · simp only [hi, if_false]
      have t := c.tags_env ok n (ev n) o
      have u := (ok.env (c.tags n (ev n) o) n default).2.2
      exact ⟨u.1.trans (t.1.trans ih.1), u.2.trans (t.2.trans ih.2)⟩

/-- the four classes -/
def clsRE : Cls :=
  { activate := fun o d => (RE.activate o d).1, tagStep := fun o d e => (RE.update_detection_records (RE.tag_leak o 0 d 0 e.company 0 e.trd).1 e.company d).1, update := fun o => (RE.update o).1, abs := absR, par := parR false, WF := WFR }
def clsIRE : Cls :=
  { activate := fun o d => (IRE.activate o d).1, tagStep := fun o d e => (IRE.update_detection_records (IRE.tag_leak o 0 d 0 e.company 0 e.trd).1 e.company d).1, update := fun o => (IRE.update o).1, abs := absR, par := parR true, WF := WFR }
def clsNRE : Cls :=
  { activate := fun o d => (NRE.activate o d).1, tagStep := fun o d e => (NRE.update_detection_records (NRE.record_emission o 0 d 0 e.company 0).1 e.company d).1, update := fun o => (NRE.update o).1, abs := absN, par := parN false, WF := WFN }
def clsINRE : Cls :=
  { activate := fun o d => (INRE.activate o d).1, tagStep := fun o d e => (INRE.update_detection_records (INRE.record_emission o 0 d 0 e.company 0).1 e.company d).1, update := fun o => (INRE.update o).1, abs := absN, par := parN true, WF := WFN }

theorem clsRE_ok : clsRE.Ok where
  status := fun _ => rfl
  act := fun o d hi h => ⟨(RE_activate o d hi).1, (RE_activate_frame o d h false).2.1, (RE_activate_frame o d h false).1⟩
  tag := fun o d e ha h => ⟨RE_tag o 0 d 0 e.company 0 e.trd false ha, (RE_tag_frame o 0 d 0 e.company 0 e.trd false h).2.1, (RE_tag_frame o 0 d 0 e.company 0 e.trd false h).1⟩
  upd := fun o h => ⟨RE_update o h, (RE_update_frame o h false).2.1, (RE_update_frame o h false).1⟩
  env := fun o d e => RE_env o d e

theorem clsIRE_ok : clsIRE.Ok where
  status := fun _ => rfl
  act := fun o d hi h => ⟨(IRE_activate o d hi).1, (RE_activate_frame o d h true).2.2.2, (RE_activate_frame o d h true).2.2.1⟩
  tag := fun o d e ha h => ⟨IRE_tag o 0 d 0 e.company 0 e.trd true ha, (IRE_tag_frame o 0 d 0 e.company 0 e.trd true h).2.1, (IRE_tag_frame o 0 d 0 e.company 0 e.trd true h).1⟩
  upd := fun o h => ⟨IRE_update o h, (IRE_update_frame o h true).2.1, (IRE_update_frame o h true).1⟩
  env := fun o d e => IRE_env o d e

theorem clsNRE_ok : clsNRE.Ok where
  status := fun _ => rfl
  act := fun o d hi h => ⟨(NRE_activate o d hi).1, (NRE_activate_frame o d h false).2.1, (NRE_activate_frame o d h false).1⟩
  tag := fun o d e ha h => ⟨NRE_tag o 0 d 0 e.company 0 e.trd false ha, (NRE_tag_frame o 0 d 0 e.company 0 false h).2.1, (NRE_tag_frame o 0 d 0 e.company 0 false h).1⟩
  upd := fun o h => ⟨NRE_update o h, (NRE_update_frame o h false).2.1, (NRE_update_frame o h false).1⟩
  env := fun o d e => NRE_env o d e

theorem clsINRE_ok : clsINRE.Ok where
  status := fun _ => rfl
  act := fun o d hi h => ⟨(INRE_activate o d hi).1, (NRE_activate_frame o d h true).2.2.2, (NRE_activate_frame o d h true).2.2.1⟩
  tag := fun o d e ha h => ⟨INRE_tag o 0 d 0 e.company 0 e.trd true ha, (INRE_tag_frame o 0 d 0 e.company 0 true h).2.1, (INRE_tag_frame o 0 d 0 e.company 0 true h).1⟩
  upd := fun o h => ⟨INRE_update o h, (INRE_update_frame o h true).2.1, (INRE_update_frame o h true).1⟩
  env := fun o d e => INRE_env o d e

/-- the run-level tie, instantiated: any number of days, any tag schedule, any object the constructor
can produce -/
theorem RE_run (ev : Nat → List TagEv) (o0 : Obj) (h : WFR o0) (h0 : absR o0 = Emission.init) (n : Nat) :
    absR (clsRE.run ev o0 n) = Emission.run (parR false o0) ev n := (clsRE.run_tie clsRE_ok ev o0 h h0 n).1
theorem IRE_run (ev : Nat → List TagEv) (o0 : Obj) (h : WFR o0) (h0 : absR o0 = Emission.init) (n : Nat) :
    absR (clsIRE.run ev o0 n) = Emission.run (parR true o0) ev n := (clsIRE.run_tie clsIRE_ok ev o0 h h0 n).1
theorem NRE_run (ev : Nat → List TagEv) (o0 : Obj) (h : WFN o0) (h0 : absN o0 = Emission.init) (n : Nat) :
    absN (clsNRE.run ev o0 n) = Emission.run (parN false o0) ev n := (clsNRE.run_tie clsNRE_ok ev o0 h h0 n).1
theorem INRE_run (ev : Nat → List TagEv) (o0 : Obj) (h : WFN o0) (h0 : absN o0 = Emission.init) (n : Nat) :
    absN (clsINRE.run ev o0 n) = Emission.run (parN true o0) ev n := (clsINRE.run_tie clsINRE_ok ev o0 h h0 n).1

/-- the hypotheses are satisfiable: a freshly constructed repairable leak that started 3 days before the period -/
example : ∃ o : Obj, WFR o ∧ absR o = Emission.init ∧ o.start_date = -3 ∧ o.nrd = 10 :=
  ⟨{ (default : Obj) with repairable := true, start_date := -3, days_active_b4_sim := 3, nrd := 10, status := .inactive, tagged_by_company := .none }, by simp [WFR], by decide, rfl, rfl⟩

end LdarModel.EmissionTie
