import LdarModel.Props.Sim
import LdarModel.Model.Summary
import LdarModel.Props.C06
/-
The two calendars of the model agree.

`Sim.dateOf` (the day loop's calendar: `nextDate` iterated from the start date, validated against Python's
`datetime` on every whole run by `./check SIM`) and `Summary.Date.ord` (days since 1970-01-01, the ordinal
the summary statistics of C14 — yearly share, days active — subtract) are two independent definitions of
the Gregorian calendar.  `ord_nextDate` shows that one step of the first adds exactly one to the second,
for every valid date of every year (leap years, century years, month and year ends included), hence
`ord_dateOf`: the date of day `n` has ordinal `ord start + n`, i.e. differences of ordinals taken by the
summaries are exactly numbers of simulated days.
-/
namespace LdarModel.Sim
open LdarModel

def toSummaryDate (d : Sched.Date) : Summary.Date := { y := d.y, m := d.m, d := d.d }

def ordOf (d : Sched.Date) : Int := (toSummaryDate d).ord

theorem isLeap_iff (y : Nat) : isLeap y = true ↔ ((y % 4 = 0 ∧ y % 100 ≠ 0) ∨ y % 400 = 0) := by
  unfold isLeap
  simp only [Bool.or_eq_true, Bool.and_eq_true, beq_iff_eq, bne_iff_ne, ne_eq]

theorem ord_nextDate (d : Sched.Date) (h : validDate d) : ordOf (nextDate d) = ordOf d + 1 := by
  obtain ⟨h1, h2, h3, h4⟩ := h
  have hl := isLeap_iff d.y
  have hm : d.m = 1 ∨ d.m = 2 ∨ d.m = 3 ∨ d.m = 4 ∨ d.m = 5 ∨ d.m = 6 ∨ d.m = 7 ∨ d.m = 8 ∨ d.m = 9 ∨
      d.m = 10 ∨ d.m = 11 ∨ d.m = 12 := by omega
  unfold nextDate
  split
  · -- same month: only the day changes
    unfold ordOf toSummaryDate Summary.Date.ord
    simp only
    split <;> omega
  · next hnot =>
    have hd : d.d = daysIn d.y d.m := by omega
    rcases hm with hm | hm | hm | hm | hm | hm | hm | hm | hm | hm | hm | hm <;>
      simp only [hm, daysIn] at hd ⊢ <;>
      unfold ordOf toSummaryDate Summary.Date.ord <;>
      simp only [hm, hd] <;>
      (try split at hd) <;> simp_all <;> omega

theorem ord_dateOf (start : Sched.Date) (h : validDate start) (n : Nat) :
    ordOf (dateOf start n) = ordOf start + n := by
  induction n with
  | zero => simp [dateOf]
  | succ n ih =>
    show ordOf (nextDate (dateOf start n)) = _
    rw [ord_nextDate _ (dateOf_valid start h n), ih]; omega

/-- the number of days between two simulated days is the difference of their ordinals, and the ordinal
orders the simulated days exactly as the day index does -/
theorem ord_diff (start : Sched.Date) (h : validDate start) (i j : Nat) :
    ordOf (dateOf start j) - ordOf (dateOf start i) = (j : Int) - i := by
  rw [ord_dateOf start h i, ord_dateOf start h j]; omega

theorem ord_lt_iff (start : Sched.Date) (h : validDate start) (i j : Nat) :
    ordOf (dateOf start i) < ordOf (dateOf start j) ↔ i < j := by
  rw [ord_dateOf start h i, ord_dateOf start h j]; omega

theorem ord_injective (start : Sched.Date) (h : validDate start) (i j : Nat)
    (he : ordOf (dateOf start i) = ordOf (dateOf start j)) : i = j := by
  rw [ord_dateOf start h i, ord_dateOf start h j] at he; omega

/-- a simulation continued from day `a` runs on the same calendar (run histories, follow-on runs) -/
theorem dateOf_add (start : Sched.Date) (a b : Nat) : dateOf start (a + b) = dateOf (dateOf start a) b := by
  induction b with
  | zero => rfl
  | succ b ih =>
    show nextDate (dateOf start (a + b)) = nextDate (dateOf (dateOf start a) b)
    rw [ih]

/-- the ordinal order and the calendar order (year, month, day) agree on the simulated days -/
theorem ord_lt_iff_dateLt (start : Sched.Date) (h : validDate start) (i j : Nat) :
    ordOf (dateOf start i) < ordOf (dateOf start j) ↔ dateLt (dateOf start i) (dateOf start j) := by
  rw [ord_lt_iff start h]
  constructor
  · exact dateOf_strictMono start h i j
  · intro hlt
    rcases Nat.lt_trichotomy i j with hij | hij | hij
    · exact hij
    · subst hij; exact absurd hlt (dateLt_irrefl _)
    · exact absurd (dateLt_trans hlt (dateOf_strictMono start h j i hij)) (dateLt_irrefl _)

/-! ### C06's calendar hypothesis discharged inside the integrated simulation -/

/-- on the computed calendar the days of a simulation are `Sched.Chrono` (years never decrease): the
hypothesis of the C06 counting theorems is a theorem of the integrated model, not an assumption -/
theorem chrono_of_calendar (inp : Inputs) (start : Sched.Date) (hv : validDate start)
    (hc : ∀ n, inp.date n = dateOf start n) (N : Nat) (ds : List Sched.DayIn)
    (hd : ds.map (·.date) = (List.range N).map inp.date) : Sched.Chrono ds := by
  unfold Sched.Chrono
  have h1 : (ds.map (·.date)).Pairwise (fun a b => a.y ≤ b.y) := by
    rw [hd, List.pairwise_map]
    refine List.Pairwise.imp ?_ (List.pairwise_lt_range (n := N))
    intro i j hij
    rw [hc i, hc j]
    exact (dateOf_year_mono start hv i j (Nat.le_of_lt hij)).1
  rwa [List.pairwise_map] at h1

/-- **C06 "never more than required" in the integrated simulation**: for every world, program, inputs on
the computed calendar, horizon, and every routine or screening method of the program whose schedule is of the
routine kind, the completed surveys of a site in a year never exceed the required number — under the one
remaining C06 proviso (`CompletesOK`: no carried-over survey completes in a year for which the planner
requires none), stated on the very history the simulation produced -/
theorem sim_done_le_required (w : World) (prog : Program) (inp : Inputs) (start : Sched.Date)
    (hv : validDate start) (hcal : ∀ n, inp.date n = dateOf start n) (m : Nat) (c : MethodCfg)
    (hc : prog[m]? = some c) (hr : c.role ≠ .followUp) (hnd : (schedCfg c).sites.Nodup)
    (hk : (schedCfg c).kind = .routine) (N : Nat) :
    ∃ ds : List Sched.DayIn, ds.map (·.date) = (List.range N).map inp.date ∧
      ((simState w prog inp N).ms.getD m {}).sched = Sched.runDays (schedCfg c) ds ∧
      (Sched.CompletesOK (schedCfg c) Sched.init ds → ∀ i y,
        Sched.done ((((simState w prog inp N).ms.getD m {}).sched).pl i) y ≤ Sched.required ((schedCfg c).P i) y) := by
  obtain ⟨ds, hd, hs⟩ := sim_sched_runDays w prog inp m c hc hr N
  refine ⟨ds, hd, hs, ?_⟩
  intro hok i y
  rw [hs]
  exact Sched.done_le_required_partial (schedCfg c) hnd hk ds
    (chrono_of_calendar inp start hv hcal N ds hd) hok i y

/-- on the computed calendar, consecutive simulated days that lie in one calendar year have strictly
increasing (month, day): the hypothesis `(yr.map md).Pairwise mdLt` of C06's "all of them when feasible"
(`all_done_when_feasible`, `C06_feasible_statement`) holds for every year block of a simulation -/
theorem md_pairwise_of_calendar (start : Sched.Date) (hv : validDate start) (a : Nat) (yr : List Sched.DayIn)
    (hd : ∀ i (hi : i < yr.length), yr[i].date = dateOf start (a + i))
    (y : Nat) (hyr : ∀ d ∈ yr, d.date.y = y) : (yr.map Sched.md).Pairwise Sched.mdLt := by
  rw [List.pairwise_map, List.pairwise_iff_getElem]
  intro i j hi hj hij
  have h1 := hyr yr[i] (List.getElem_mem hi)
  have h2 := hyr yr[j] (List.getElem_mem hj)
  have hlt := dateOf_strictMono start hv (a + i) (a + j) (by omega)
  rw [← hd i hi, ← hd j hj] at hlt
  unfold dateLt at hlt
  unfold Sched.mdLt Sched.md
  simp only
  omega

/-- the history `sim_sched_runDays` / `sim_done_le_required` produce carries the computed calendar day by day,
and so does every suffix of it (`yr = ds.drop a`, the shape `pre ++ yr` of `all_done_when_feasible`) -/
theorem sim_history_dates (inp : Inputs) (start : Sched.Date) (hcal : ∀ n, inp.date n = dateOf start n)
    (N : Nat) (ds : List Sched.DayIn) (hd : ds.map (·.date) = (List.range N).map inp.date) :
    ∀ i (hi : i < ds.length), ds[i].date = dateOf start i := by
  intro i hi
  have hlen : ds.length = N := by
    have := congrArg List.length hd
    simpa using this
  have h := congrArg (fun l => l[i]?) hd
  simp only [List.getElem?_map, List.getElem?_eq_getElem hi, Option.map_some] at h
  rw [List.getElem?_range (by omega)] at h
  simp only [Option.map_some, Option.some.injEq] at h
  rw [h, hcal i]

theorem sim_history_drop_dates (inp : Inputs) (start : Sched.Date) (hcal : ∀ n, inp.date n = dateOf start n)
    (N : Nat) (ds : List Sched.DayIn) (hd : ds.map (·.date) = (List.range N).map inp.date) (a : Nat) :
    ∀ i (hi : i < (ds.drop a).length), (ds.drop a)[i].date = dateOf start (a + i) := by
  intro i hi
  have hi' : a + i < ds.length := by
    rw [List.length_drop] at hi; omega
  rw [List.getElem_drop]
  exact sim_history_dates inp start hcal N ds hd (a + i) hi'

/-- **C06 "all of them when feasible" in the integrated simulation**: if year `y` is the block of simulated
days from index `a` to the end of the horizon, every day so far was feasible (crews suffice, weather
permits) and the planner's plan dates are simulated days of that block, then the mobile method has completed
exactly the required number of surveys of site `i` in year `y` — the calendar side conditions (`Pairwise mdLt`)
are discharged by the computed calendar -/
theorem sim_all_done_when_feasible (w : World) (prog : Program) (inp : Inputs) (start : Sched.Date)
    (hv : validDate start) (hcal : ∀ n, inp.date n = dateOf start n) (m : Nat) (c : MethodCfg)
    (hc : prog[m]? = some c) (hr : c.role ≠ .followUp) (hnd : (schedCfg c).sites.Nodup)
    (hk : (schedCfg c).kind = .routine) (N : Nat) :
    ∃ ds : List Sched.DayIn, ds.map (·.date) = (List.range N).map inp.date ∧
      ∀ (a i y : Nat), i ∈ (schedCfg c).sites →
        (y ∈ ((schedCfg c).P i).depYears ∧ y ∈ ((schedCfg c).P i).simYears) →
        (∀ d ∈ ds, Sched.Feasible (schedCfg c) d) →
        (∀ d ∈ ds.take a, d.date.y ≠ y) → (∀ d ∈ ds.drop a, d.date.y = y) →
        ((schedCfg c).P i).plan.length = ((schedCfg c).P i).rs → ((schedCfg c).P i).plan.Pairwise Sched.mdLt →
        (∀ pd ∈ ((schedCfg c).P i).plan, pd ∈ (ds.drop a).map Sched.md ∧ pd.1 ∈ ((schedCfg c).P i).months) →
        Sched.done ((((simState w prog inp N).ms.getD m {}).sched).pl i) y = Sched.required ((schedCfg c).P i) y := by
  obtain ⟨ds, hd, hs⟩ := sim_sched_runDays w prog inp m c hc hr N
  refine ⟨ds, hd, ?_⟩
  intro a i y his hy hf hpre hyr hlen hplan hin
  rw [hs, ← List.take_append_drop a ds]
  refine Sched.all_done_when_feasible (schedCfg c) hnd hk i his y hy (ds.take a) (ds.drop a) ?_ hpre hyr ?_ hlen hplan hin
  · intro d hd'
    rw [List.take_append_drop] at hd'
    exact hf d hd'
  · exact md_pairwise_of_calendar start hv a (ds.drop a)
      (sim_history_drop_dates inp start hcal N ds hd a) y hyr

/-- **C06 "never surveys a site where it is not deployed" in the integrated simulation**: a site whose
planner guard is never true (method not deployed there, no survey frequency, no deployment year or month)
has no completed survey counted in any year, at every horizon, for every world, program and inputs
(mobile and stationary methods alike; no calendar hypothesis) -/
theorem sim_not_deployed_never_surveyed (w : World) (prog : Program) (inp : Inputs) (m : Nat) (c : MethodCfg)
    (hc : prog[m]? = some c) (hr : c.role ≠ .followUp) (hnd : (schedCfg c).sites.Nodup) (i : Nat)
    (hg : ∀ dt ps, Sched.guardK (schedCfg c).kind ((schedCfg c).P i) dt ps = false) (N : Nat) :
    ∀ y, Sched.done ((((simState w prog inp N).ms.getD m {}).sched).pl i) y = 0 := by
  obtain ⟨ds, _, hs⟩ := sim_sched_runDays w prog inp m c hc hr N
  rw [hs]
  exact (Sched.not_deployed_never_planned (schedCfg c) hnd i hg ds ⟨inp.date N, fun _ => .untouched⟩).2

/-- one simulated day is one `Sched.scheduleDay` on the method's schedule, dated by the calendar input -/
theorem sim_sched_step (w : World) (prog : Program) (inp : Inputs) (m : Nat) (c : MethodCfg)
    (hc : prog[m]? = some c) (hr : c.role ≠ .followUp) (n : Nat) :
    ∃ out, ((simState w prog inp (n + 1)).ms.getD m {}).sched =
      Sched.scheduleDay (schedCfg c) { date := inp.date n, out := out } ((simState w prog inp n).ms.getD m {}).sched := by
  have e : (simState w prog inp (n + 1)).ms =
      (stepMethods w inp n (actStates w n (simState w prog inp n)) 0 prog
        { ms := (simState w prog inp n).ms, latestTag := (simState w prog inp n).latestTag,
          covs := (simState w prog inp n).covs }).ms := rfl
  have h := (stepMethods_sched w inp n (actStates w n (simState w prog inp n)) m prog 0
    { ms := (simState w prog inp n).ms, latestTag := (simState w prog inp n).latestTag,
      covs := (simState w prog inp n).covs } (by simp [ms_length])).2
  simp only [Nat.sub_zero, hc] at h
  rw [if_pos (⟨Nat.zero_le m, hr⟩ : 0 ≤ m ∧ c.role ≠ .followUp)] at h
  obtain ⟨out, hout⟩ := h
  exact ⟨out, by rw [e, hout]⟩

/-- **C06 stationary clause in the integrated simulation**: on every simulated day a stationary method plans
each site holding a request exactly once, every deployed site holds one on every day of its deployment
calendar, and a planned site is counted (once, in the day's year) exactly when the day is workable for it -/
theorem sim_stationary_day (w : World) (prog : Program) (inp : Inputs) (m : Nat) (c : MethodCfg)
    (hc : prog[m]? = some c) (hr : c.role ≠ .followUp) (hnd : (schedCfg c).sites.Nodup)
    (hk : (schedCfg c).kind = .stationary) (n : Nat) :
    ∃ (ds : List Sched.DayIn) (d : Sched.DayIn), d.date = inp.date n ∧
      ((simState w prog inp n).ms.getD m {}).sched = Sched.runDays (schedCfg c) ds ∧
      ((simState w prog inp (n + 1)).ms.getD m {}).sched = Sched.scheduleDay (schedCfg c) d (Sched.runDays (schedCfg c) ds) ∧
      (Sched.planOn (schedCfg c) d (Sched.runDays (schedCfg c) ds)).Nodup ∧
      (∀ i ∈ (schedCfg c).sites, d.date.y ∈ ((schedCfg c).P i).depYears → d.date.m ∈ ((schedCfg c).P i).months →
        0 < Sched.required ((schedCfg c).P i) d.date.y → i ∈ Sched.planOn (schedCfg c) d (Sched.runDays (schedCfg c) ds)) ∧
      (∀ i y, Sched.done ((((simState w prog inp (n + 1)).ms.getD m {}).sched).pl i) y =
        Sched.done ((((simState w prog inp n).ms.getD m {}).sched).pl i) y +
          (if Sched.completesAt (schedCfg c) d (Sched.runDays (schedCfg c) ds) i = true ∧ y = d.date.y then 1 else 0)) := by
  obtain ⟨ds, _, hs⟩ := sim_sched_runDays w prog inp m c hc hr n
  obtain ⟨out, hstep⟩ := sim_sched_step w prog inp m c hc hr n
  have hst := Sched.C06_stationary (schedCfg c) ds { date := inp.date n, out := out } hnd hk
  refine ⟨ds, { date := inp.date n, out := out }, rfl, hs, by rw [hstep, hs], hst.1, hst.2.1, ?_⟩
  intro i y
  rw [hstep, hs]
  exact hst.2.2.2 i y

/-- non-vacuity: the mobile OGI method of the example program of `Props/Sim.lean` meets the hypotheses of
`sim_done_le_required` (mobile, not a follow-up method, distinct sites, a valid start date) -/
example : (schedCfg exOGI).kind = .routine ∧ (schedCfg exOGI).sites.Nodup ∧ exOGI.role ≠ .followUp ∧
    validDate ⟨2023, 1, 1⟩ := by
  refine ⟨by decide +kernel, by decide +kernel, by decide +kernel, by unfold validDate; decide +kernel⟩

/-- 1970-01-01 is day 0; 2024-02-29 exists and is followed by March 1 -/
example : ordOf ⟨1970, 1, 1⟩ = 0 ∧ ordOf ⟨2024, 3, 1⟩ = ordOf ⟨2024, 2, 28⟩ + 2 ∧
    ordOf ⟨2023, 3, 1⟩ = ordOf ⟨2023, 2, 28⟩ + 1 := by decide +kernel

end LdarModel.Sim
