import LdarModel.Props.C02
/-
C03 — LDAR never worsens a leak; durations are bounded; non-repairables untouched.
Model: `Model/Emission.lean`.  All statements quantify over every parameter set, every schedule of
tag / record events and every horizon.
-/
namespace LdarModel.Emission

/-- the property at full strength.  `1 ≤ nrd` and `-nrd ≤ start` is what the generator produces
(`Source.generate_emissions`: pre-period starts range over `start − duration … start − 1`). -/
def C03_statement : Prop :=
  ∀ (p : Params) (ev : Nat → List TagEv) (N : Nat), 1 ≤ p.nrd → -p.nrd ≤ p.start →
    (run p ev N).activeDays ≤ (baseline p N).activeDays
    ∧ (run p ev N).activeDays + b4 p ≤ p.nrd
    ∧ (p.repairable = false →
        (run p ev N).status = (baseline p N).status ∧
        (run p ev N).activeDays = (baseline p N).activeDays ∧
        emitDays p (run p ev N) = emitDays p (baseline p N) ∧
        (run p ev N).endDate = (baseline p N).endDate ∧
        (run p ev N).status ≠ .repaired ∧ mitDays p (run p ev N) (summaryEndArg N) = 0)

/-! ### repairable emissions -/

/-- a repairable leak is never active longer than in the no-LDAR run of the same scenario -/
theorem C03_le_baseline (p : Params) (hr : p.repairable = true) (ev : Nat → List TagEv) (N : Nat) :
    (run p ev N).activeDays ≤ (baseline p N).activeDays :=
  (run_activeDays p hr ev N).1

/-- honest bound of the code: days active inside the period never exceed `max 1 (nrd − b4)` -/
theorem C03_bounded_rep (p : Params) (hr : p.repairable = true) (ev : Nat → List TagEv) (N : Nat) :
    (run p ev N).activeDays ≤ L p := by
  have hi := run_inv p hr ev N
  unfold Inv at hi
  generalize run p ev N = s at *
  have hL := L_pos p
  cases hs : s.status <;> grind

/-! ### non-repairable emissions: the observable life-cycle does not depend on the events -/

/-- what a non-repairable emission shows of its life-cycle (everything `update` reads or the record
reports, except who recorded it) -/
def obs (s : State) : Status × Int × Option Int × Bool × Int × Int × Int :=
  (s.status, s.activeDays, s.endDate, s.emitting, s.daysEmitting, s.onCount, s.offCount)

private theorem tag_obs (p : Params) (d : Int) (e : TagEv) (s : State) : obs (tag p d e s) = obs s := by
  unfold obs tag detectRec; grind

private theorem tags_obs (p : Params) (d : Int) (evs : List TagEv) (s : State) :
    obs (evs.foldl (fun s e => tag p d e s) s) = obs s := by
  induction evs generalizing s with
  | nil => rfl
  | cons e evs ih => simp only [List.foldl_cons]; rw [ih, tag_obs]

private theorem activate_obs (p : Params) (d : Int) (s s' : State) (h : obs s = obs s') :
    obs (activate p d s) = obs (activate p d s') := by
  unfold obs at *; unfold activate; grind

private theorem update_obs (p : Params) (hr : p.repairable = false) (s s' : State)
    (h : obs s = obs s') : obs (update p s) = obs (update p s') := by
  unfold obs at *
  simp only [Prod.mk.injEq] at h
  obtain ⟨h1, h2, h3, h4, h5, h6, h7⟩ := h
  unfold update endedAt toggle
  simp only [hr, h1, h2]
  grind

theorem day_obs (p : Params) (hr : p.repairable = false) (d : Int) (evs evs' : List TagEv)
    (s s' : State) (h : obs s = obs s') : obs (day p d evs s) = obs (day p d evs' s') := by
  unfold day
  apply update_obs p hr
  rw [tags_obs, tags_obs]
  exact activate_obs p d s s' h

theorem run_obs (p : Params) (hr : p.repairable = false) (ev ev' : Nat → List TagEv) (N : Nat) :
    obs (run p ev N) = obs (run p ev' N) := by
  induction N with
  | zero => rfl
  | succ n ih => exact day_obs p hr n (ev n) (ev' n) _ _ ih

/-- a non-repairable emission is never repaired -/
theorem nonrep_never_repaired (p : Params) (hr : p.repairable = false) (ev : Nat → List TagEv)
    (N : Nat) : (run p ev N).status ≠ .repaired := by
  induction N with
  | zero => simp [run, init]
  | succ n ih =>
    simp only [run, day]
    have h2 : ∀ s : State, s.status ≠ .repaired → (update p s).status ≠ .repaired := by
      intro s hs; unfold update toggle; simp only [hr]; grind
    apply h2
    have h3 : ∀ (evs : List TagEv) (s : State), s.status ≠ .repaired →
        (evs.foldl (fun s e => tag p n e s) s).status ≠ .repaired := by
      intro evs
      induction evs with
      | nil => intro s hs; simpa
      | cons e evs ih2 =>
        intro s hs; simp only [List.foldl_cons]; apply ih2
        unfold tag detectRec; grind
    apply h3
    unfold activate; grind

/-- C03, non-repairable part: whatever any program does (any schedule of record events), the
emission has the same status, active days, emitted days, end date as without LDAR; it is never
repaired and never credited with mitigation. -/
theorem C03_nonrepairable (p : Params) (hr : p.repairable = false) (ev : Nat → List TagEv) (N : Nat) :
    (run p ev N).status = (baseline p N).status ∧
    (run p ev N).activeDays = (baseline p N).activeDays ∧
    emitDays p (run p ev N) = emitDays p (baseline p N) ∧
    (run p ev N).endDate = (baseline p N).endDate ∧
    (run p ev N).status ≠ .repaired ∧ mitDays p (run p ev N) (summaryEndArg N) = 0 := by
  have h := run_obs p hr ev noEvents N
  unfold obs at h
  simp only [Prod.mk.injEq] at h
  obtain ⟨h1, h2, h3, h4, h5, h6, h7⟩ := h
  refine ⟨h1, h2, ?_, h3, nonrep_never_repaired p hr ev N, ?_⟩
  · unfold emitDays baseline; split <;> assumption
  · unfold mitDays; simp [hr]

/-- invariant of a non-repairable emission after `n` days -/
def InvN (p : Params) (n : Nat) (s : State) : Prop :=
  (s.status = .inactive → (n : Int) ≤ a p ∧ s.activeDays = 0) ∧
  (s.status = .active → a p < n ∧ s.activeDays = n - a p ∧ s.activeDays < L p) ∧
  (s.status = .expired → s.activeDays = L p ∧ L p ≤ n - a p) ∧
  s.status ≠ .repaired

private theorem day_invN (p : Params) (hr : p.repairable = false) (n : Nat) (evs : List TagEv)
    (s : State) (h : InvN p n s) : InvN p (n + 1) (day p n evs s) := by
  -- the events do not change what the invariant speaks about: reduce to the event-free day
  have ho := day_obs p hr n evs [] s s rfl
  unfold obs at ho
  simp only [Prod.mk.injEq] at ho
  obtain ⟨h1, h2, -⟩ := ho
  unfold InvN at *
  rw [h1, h2]
  unfold day
  simp only [List.foldl_nil]
  have hL : L p = if p.nrd - b4 p ≥ 1 then p.nrd - b4 p else 1 := rfl
  have hb := start_add_b4 p
  have ha : a p = if p.start > 0 then p.start else 0 := rfl
  unfold update activate toggle endedAt
  simp only [hr]
  grind

theorem run_invN (p : Params) (hr : p.repairable = false) (ev : Nat → List TagEv) (n : Nat) :
    InvN p n (run p ev n) := by
  induction n with
  | zero => unfold InvN run init a; simp; split <;> omega
  | succ n ih => exact day_invN p hr n (ev n) _ ih

theorem C03_bounded_nonrep (p : Params) (hr : p.repairable = false) (ev : Nat → List TagEv) (N : Nat) :
    (run p ev N).activeDays ≤ L p := by
  have hi := run_invN p hr ev N
  unfold InvN at hi
  generalize run p ev N = s at *
  have hL := L_pos p
  cases hs : s.status <;> grind

/-! ### the duration bound -/

/-- every emission: days active inside the period never exceed `max 1 (nrd − b4)`;
with the pre-period days, `activeDays + b4 ≤ max nrd (b4 + 1)` -/
theorem C03_bounded (p : Params) (ev : Nat → List TagEv) (N : Nat) :
    (run p ev N).activeDays + b4 p ≤ (if p.nrd ≥ b4 p + 1 then p.nrd else b4 p + 1) := by
  have h : (run p ev N).activeDays ≤ L p := by
    cases hr : p.repairable
    · exact C03_bounded_nonrep p hr ev N
    · exact C03_bounded_rep p hr ev N
  unfold L at h
  split at h <;> split <;> omega

/-- the clean bound of the property holds whenever the emission is younger than its duration at
the start of the period -/
theorem C03_bounded_partial (p : Params) (ev : Nat → List TagEv) (N : Nat) (h : b4 p < p.nrd) :
    (run p ev N).activeDays + b4 p ≤ p.nrd := by
  have := C03_bounded p ev N
  split at this <;> omega

/-- C03 with the one excluded start made explicit: everything in the statement holds for every
emission except that the duration bound needs `start ≠ −nrd` (see the counterexample) -/
theorem C03_partial (p : Params) (ev : Nat → List TagEv) (N : Nat) (h1 : 1 ≤ p.nrd)
    (h2 : -p.nrd < p.start) :
    (run p ev N).activeDays ≤ (baseline p N).activeDays
    ∧ (run p ev N).activeDays + b4 p ≤ p.nrd
    ∧ (p.repairable = false →
        (run p ev N).status = (baseline p N).status ∧
        (run p ev N).activeDays = (baseline p N).activeDays ∧
        emitDays p (run p ev N) = emitDays p (baseline p N) ∧
        (run p ev N).endDate = (baseline p N).endDate ∧
        (run p ev N).status ≠ .repaired ∧ mitDays p (run p ev N) (summaryEndArg N) = 0) := by
  refine ⟨?_, ?_, fun hr => C03_nonrepairable p hr ev N⟩
  · cases hr : p.repairable
    · exact Int.le_of_eq (C03_nonrepairable p hr ev N).2.1
    · exact C03_le_baseline p hr ev N
  · apply C03_bounded_partial
    unfold b4; split <;> omega

/-- C03_partial over the simulator's real day loop (tag requests mixed with detection-only events) -/
theorem C03_partial_E (p : Params) (ev : Nat → List Ev) (N : Nat) (h1 : 1 ≤ p.nrd)
    (h2 : -p.nrd < p.start) :
    (runE p ev N).activeDays ≤ (baseline p N).activeDays
    ∧ (runE p ev N).activeDays + b4 p ≤ p.nrd
    ∧ (p.repairable = false →
        (runE p ev N).status = (baseline p N).status ∧
        (runE p ev N).activeDays = (baseline p N).activeDays ∧
        emitDays p (runE p ev N) = emitDays p (baseline p N) ∧
        (runE p ev N).endDate = (baseline p N).endDate ∧
        (runE p ev N).status ≠ .repaired ∧ mitDays p (runE p ev N) (summaryEndArg N) = 0) := by
  have h := C03_partial p (fun d => tagsOf (ev d)) N h1 h2
  have f := runE_fields p ev N
  simp only at f
  unfold emitDays mitDays at *
  rw [f.1, f.2.1, f.2.2.2.2.2.1, f.2.2.2.2.2.2.1, f.2.2.2.2.2.2.2.2.1]
  exact h

/-- Known finding F3: an emission generated exactly `duration` days before the period (the earliest
pre-period start the generator draws) is active on the first simulated day, one day beyond its
configured duration. -/
theorem C03_counterexample : ¬ C03_statement := by
  intro h
  have := (h { start := -5, nrd := 5, repairDelay := 0, repairable := true, intermittent := false,
               activeDur := 1, inactiveDur := 0 } noEvents 3 (by decide) (by decide)).2.1
  revert this
  decide +kernel

/-- non-vacuity: a leak tagged 2 days before its natural end with a 5-day delay ends naturally -/
example :
    let p : Params := { start := 0, nrd := 10, repairDelay := 5, repairable := true,
                        intermittent := false, activeDur := 1, inactiveDur := 0 }
    let ev : Nat → List TagEv := fun d => if d = 8 then [{ company := 1, trd := 0 }] else []
    (run p ev 20).activeDays = 10 ∧ (run p ev 20).by_ = .natural ∧ (baseline p 20).activeDays = 10 := by
  decide +kernel

end LdarModel.Emission
