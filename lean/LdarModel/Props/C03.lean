import LdarModel.Props.C02
/-
C03 — LDAR never worsens a leak; durations are bounded; non-repairables untouched.
Model: `Model/Emission.lean`.  All statements quantify over every parameter set, every schedule of
tag / record events and every horizon.
-/
namespace LdarModel.Emission

/-- the property at full strength.  `1 ≤ nrd` and `-nrd ≤ start` is what the generator produces
(`Source.generate_emissions`: pre-period starts range over `start − duration … start − 1`). -/
def C03_statement : Prop :=
  ∀ (p : Params) (ev : Nat → List TagEv) (N : Nat), 1 ≤ p.nrd → -p.nrd ≤ p.start →
    (run p ev N).activeDays ≤ (baseline p N).activeDays
    ∧ (run p ev N).activeDays + b4 p ≤ p.nrd
    ∧ (p.repairable = false →
        (run p ev N).status = (baseline p N).status ∧
        (run p ev N).activeDays = (baseline p N).activeDays ∧
        emitDays p (run p ev N) = emitDays p (baseline p N) ∧
        (run p ev N).endDate = (baseline p N).endDate ∧
        (run p ev N).status ≠ .repaired ∧ mitDays p (run p ev N) (summaryEndArg N) = 0)

/-! ### repairable emissions -/

/-- a repairable leak is never active longer than in the no-LDAR run of the same scenario -/
theorem C03_le_baseline (p : Params) (hr : p.repairable = true) (ev : Nat → List TagEv) (N : Nat) :
    (run p ev N).activeDays ≤ (baseline p N).activeDays :=
  (run_activeDays p hr ev N).1

/-- honest bound of the code: days active inside the period never exceed `max 1 (nrd − b4)` -/
theorem C03_bounded_rep (p : Params) (hr : p.repairable = true) (ev : Nat → List TagEv) (N : Nat) :
    (run p ev N).activeDays ≤ L p := by
  have hi := run_inv p hr ev N
  unfold Inv at hi
  generalize run p ev N = s at *
  have hL := L_pos p
  cases hs : s.status <;> grind

/-! ### non-repairable emissions: the observable life-cycle does not depend on the events -/

/-- what a non-repairable emission shows of its life-cycle (everything `update` reads or the record
reports, except who recorded it) -/
def obs (s : State) : Status × Int × Option Int × Bool × Int × Int × Int :=
  (s.status, s.activeDays, s.endDate, s.emitting, s.daysEmitting, s.onCount, s.offCount)

private theorem tag_obs (p : Params) (d : Int) (e : TagEv) (s : State) : obs (tag p d e s) = obs s := by
  unfold obs tag detectRec; grind

private theorem tags_obs (p : Params) (d : Int) (evs : List TagEv) (s : State) :
    obs (evs.foldl (fun s e => tag p d e s) s) = obs s := by
  induction evs generalizing s with
  | nil => rfl
  | cons e evs ih => simp only [List.foldl_cons]; rw [ih, tag_obs]

private theorem activate_obs (p : Params) (d : Int) (s s' : State) (h : obs s = obs s') :
    obs (activate p d s) = obs (activate p d s') := by
  unfold obs at *; unfold activate; grind

private theorem update_obs (p : Params) (hr : p.repairable = false) (s s' : State)
    (h : obs s = obs s') : obs (update p s) = obs (update p s') := by
  unfold obs at *
  simp only [Prod.mk.injEq] at h
  obtain ⟨h1, h2, h3, h4, h5, h6, h7⟩ := h
  unfold update endedAt toggle
  simp only [hr, h1, h2]
  grind

theorem day_obs (p : Params) (hr : p.repairable = false) (d : Int) (evs evs' : List TagEv)
    (s s' : State) (h : obs s = obs s') : obs (day p d evs s) = obs (day p d evs' s') := by
  unfold day
  apply update_obs p hr
  rw [tags_obs, tags_obs]
  exact activate_obs p d s s' h

theorem run_obs (p : Params) (hr : p.repairable = false) (ev ev' : Nat → List TagEv) (N : Nat) :
    obs (run p ev N) = obs (run p ev' N) := by
  induction N with
  | zero => rfl
  | succ n ih => exact day_obs p hr n (ev n) (ev' n) _ _ ih

/-- a non-repairable emission is never repaired -/
theorem nonrep_never_repaired (p : Params) (hr : p.repairable = false) (ev : Nat → List TagEv)
    (N : Nat) : (run p ev N).status ≠ .repaired := by
  induction N with
  | zero => simp [run, init]
  | succ n ih =>
    simp only [run, day]
    have h2 : ∀ s : State, s.status ≠ .repaired → (update p s).status ≠ .repaired := by
      intro s hs; unfold update toggle; simp only [hr]; grind
    apply h2
    have h3 : ∀ (evs : List TagEv) (s : State), s.status ≠ .repaired →
        (evs.foldl (fun s e => tag p n e s) s).status ≠ .repaired := by
      intro evs
      induction evs with
      | nil => intro s hs; simpa
      | cons e evs ih2 =>
        intro s hs; simp only [List.foldl_cons]; apply ih2
        unfold tag detectRec; grind
    apply h3
    unfold activate; grind

/-- C03, non-repairable part: whatever any program does (any schedule of record events), the
emission has the same status, active days, emitted days, end date as without LDAR; it is never
repaired and never credited with mitigation. -/
theorem C03_nonrepairable (p : Params) (hr : p.repairable = false) (ev : Nat → List TagEv) (N : Nat) :
    (run p ev N).status = (baseline p N).status ∧
    (run p ev N).activeDays = (baseline p N).activeDays ∧
    emitDays p (run p ev N) = emitDays p (baseline p N) ∧
    (run p ev N).endDate = (baseline p N).endDate ∧
    (run p ev N).status ≠ .repaired ∧ mitDays p (run p ev N) (summaryEndArg N) = 0 := by
  have h := run_obs p hr ev noEvents N
  unfold obs at h
  simp only [Prod.mk.injEq] at h
  obtain ⟨h1, h2, h3, h4, h5, h6, h7⟩ := h
  refine ⟨h1, h2, ?_, h3, nonrep_never_repaired p hr ev N, ?_⟩
  · unfold emitDays baseline; split <;> assumption
  · unfold mitDays; simp [hr]

/-- invariant of a non-repairable emission after `n` days -/
def InvN (p : Params) (n : Nat) (s : State) : Prop :=
  (s.status = .inactive → (n : Int) ≤ a p ∧ s.activeDays = 0) ∧
  (s.status = .active → a p < n ∧ s.activeDays = n - a p ∧ s.activeDays < L p) ∧
  (s.status = .expired → s.activeDays = L p ∧ L p ≤ n - a p) ∧
  s.status ≠ .repaired

private theorem day_invN (p : Params) (hr : p.repairable = false) (n : Nat) (evs : List TagEv)
    (s : State) (h : InvN p n s) : InvN p (n + 1) (day p n evs s) := by
  -- the events do not change what the invariant speaks about: reduce to the event-free day
  have ho := day_obs p hr n evs [] s s rfl
  unfold obs at ho
  simp only [Prod.mk.injEq] at ho
  obtain ⟨h1, h2, -⟩ := ho
  unfold InvN at *
  rw [h1, h2]
  unfold day
  simp only [List.foldl_nil]
  have hL : L p = if p.nrd - b4 p ≥ 1 then p.nrd - b4 p else 1 := rfl
  have hb := start_add_b4 p
  have ha : a p = if p.start > 0 then p.start else 0 := rfl
  unfold update activate toggle endedAt
  simp only [hr]
  grind

theorem run_invN (p : Params) (hr : p.repairable = false) (ev : Nat → List TagEv) (n : Nat) :
    InvN p n (run p ev n) := by
  induction n with
  | zero => unfold InvN run init a; simp; split <;> omega
  | succ n ih => exact day_invN p hr n (ev n) _ ih

theorem C03_bounded_nonrep (p : Params) (hr : p.repairable = false) (ev : Nat → List TagEv) (N : Nat) :
    (run p ev N).activeDays ≤ L p := by
  have hi := run_invN p hr ev N
  unfold InvN at hi
  generalize run p ev N = s at *
  have hL := L_pos p
  cases hs : s.status <;> grind

/-! ### the duration bound -/

/-- every emission: days active inside the period never exceed `max 1 (nrd − b4)`;
with the pre-period days, `activeDays + b4 ≤ max nrd (b4 + 1)` -/
theorem C03_bounded (p : Params) (ev : Nat → List TagEv) (N : Nat) :
    (run p ev N).activeDays + b4 p ≤ (if p.nrd ≥ b4 p + 1 then p.nrd else b4 p + 1) := by
  have h : (run p ev N).activeDays ≤ L p := by
    cases hr : p.repairable
    · exact C03_bounded_nonrep p hr ev N
    · exact C03_bounded_rep p hr ev N
  unfold L at h
  split at h <;> split <;> omega

/-- the clean bound of the property holds whenever the emission is younger than its duration at
the start of the period -/
theorem C03_bounded_partial (p : Params) (ev : Nat → List TagEv) (N : Nat) (h : b4 p < p.nrd) :
    (run p ev N).activeDays + b4 p ≤ p.nrd := by
  have := C03_bounded p ev N
  split at this <;> omega

/-- C03 with the one excluded start made explicit: everything in the statement holds for every
emission except that the duration bound needs `start ≠ −nrd` (see the counterexample) -/
theorem C03_partial (p : Params) (ev : Nat → List TagEv) (N : Nat) (h1 : 1 ≤ p.nrd)
    (h2 : -p.nrd < p.start) :
    (run p ev N).activeDays ≤ (baseline p N).activeDays
    ∧ (run p ev N).activeDays + b4 p ≤ p.nrd
    ∧ (p.repairable = false →
        (run p ev N).status = (baseline p N).status ∧
        (run p ev N).activeDays = (baseline p N).activeDays ∧
        emitDays p (run p ev N) = emitDays p (baseline p N) ∧
        (run p ev N).endDate = (baseline p N).endDate ∧
        (run p ev N).status ≠ .repaired ∧ mitDays p (run p ev N) (summaryEndArg N) = 0) := by
  refine ⟨?_, ?_, fun hr => C03_nonrepairable p hr ev N⟩
  · cases hr : p.repairable
    · exact Int.le_of_eq (C03_nonrepairable p hr ev N).2.1
    · exact C03_le_baseline p hr ev N
  · apply C03_bounded_partial
    unfold b4; split <;> omega

/-- C03_partial over the simulator's real day loop (tag requests mixed with detection-only events) -/
theorem C03_partial_E (p : Params) (ev : Nat → List Ev) (N : Nat) (h1 : 1 ≤ p.nrd)
    (h2 : -p.nrd < p.start) :
    (runE p ev N).activeDays ≤ (baseline p N).activeDays
    ∧ (runE p ev N).activeDays + b4 p ≤ p.nrd
    ∧ (p.repairable = false →
        (runE p ev N).status = (baseline p N).status ∧
        (runE p ev N).activeDays = (baseline p N).activeDays ∧
        emitDays p (runE p ev N) = emitDays p (baseline p N) ∧
        (runE p ev N).endDate = (baseline p N).endDate ∧
        (runE p ev N).status ≠ .repaired ∧ mitDays p (runE p ev N) (summaryEndArg N) = 0) := by
  have h := C03_partial p (fun d => tagsOf (ev d)) N h1 h2
  have f := runE_fields p ev N
  simp only at f
  unfold emitDays mitDays at *
  rw [f.1, f.2.1, f.2.2.2.2.2.1, f.2.2.2.2.2.2.1, f.2.2.2.2.2.2.2.2.1]
  exact h

/-! ### the first clause, unconditionally -/

/-- no emission (repairable or not, any parameters) is ever active longer than in the no-LDAR run of
the same scenario -/
theorem C03_le_baseline_all (p : Params) (ev : Nat → List TagEv) (N : Nat) :
    (run p ev N).activeDays ≤ (baseline p N).activeDays := by
  cases hr : p.repairable
  · exact Int.le_of_eq (C03_nonrepairable p hr ev N).2.1
  · exact C03_le_baseline p hr ev N

theorem C03_le_baseline_all_E (p : Params) (ev : Nat → List Ev) (N : Nat) :
    (runE p ev N).activeDays ≤ (baseline p N).activeDays := by
  have f := runE_fields p ev N
  simp only at f
  rw [f.2.1]
  exact C03_le_baseline_all p (fun d => tagsOf (ev d)) N

/-- C02's "program totals" clause over *all* leaks of a program (rate-weighted, as the summary files
report them): repairable persistent leaks contribute by `C02_partial`, non-repairable leaks (persistent
or intermittent) by `C03_nonrepairable` (same emitted days as without LDAR, mitigation 0).  Only
intermittent *repairable* leaks are excluded (known finding F4). -/
theorem C02_totals_all (ls : List (Params × (Nat → List TagEv) × Int)) (N : Nat)
    (h : ∀ x ∈ ls, x.1.repairable = false ∨ x.1.intermittent = false) :
    (ls.map (fun x => x.2.2 * emitDays x.1 (run x.1 x.2.1 N))).sum
      + (ls.map (fun x => x.2.2 * mitDays x.1 (run x.1 x.2.1 N) (summaryEndArg N))).sum
      = (ls.map (fun x => x.2.2 * emitDays x.1 (baseline x.1 N))).sum := by
  induction ls with
  | nil => simp
  | cons x xs ih =>
    have hx := h x (by simp)
    have ih' := ih (fun y hy => h y (by simp [hy]))
    simp only [List.map_cons, List.sum_cons]
    have key : emitDays x.1 (run x.1 x.2.1 N) + mitDays x.1 (run x.1 x.2.1 N) (summaryEndArg N)
        = emitDays x.1 (baseline x.1 N) := by
      cases hr : x.1.repairable
      · have := C03_nonrepairable x.1 hr x.2.1 N
        rw [this.2.2.1, this.2.2.2.2.2]; omega
      · rcases hx with hx | hx
        · rw [hr] at hx; cases hx
        · exact (C02_partial x.1 x.2.1 N hr hx).1
    rw [← key, Int.mul_add]
    omega

/-! ### "never worsens" in emitted days (intermittent sources: the prefix lemma) -/

/-- what the intermittency automaton carries -/
def iproj (s : State) : Int × Bool × Int × Int × Int :=
  (s.activeDays, s.emitting, s.daysEmitting, s.onCount, s.offCount)

/-- prefix relation between a program run `r` and the no-LDAR run `b` of the same repairable leak:
as long as the program run is alive the two agree on the whole intermittency automaton; once the
program run has ended its emitting days are frozen while the baseline's can only grow -/
def Pre (r b : State) : Prop :=
  (r.status = .inactive → b.status = .inactive ∧ iproj r = iproj b) ∧
  (r.status = .active → b.status = .active ∧ iproj r = iproj b) ∧
  (r.status = .repaired → r.daysEmitting ≤ b.daysEmitting) ∧
  r.status ≠ .expired ∧
  (b.status ≠ .repaired → b.tagged = false)

private theorem tags_status_iproj (p : Params) (d : Int) (evs : List TagEv) (s : State) :
    (evs.foldl (fun s e => tag p d e s) s).status = s.status ∧
    iproj (evs.foldl (fun s e => tag p d e s) s) = iproj s := by
  induction evs generalizing s with
  | nil => exact ⟨rfl, rfl⟩
  | cons e evs ih =>
    simp only [List.foldl_cons]
    have h1 : (tag p d e s).status = s.status ∧ iproj (tag p d e s) = iproj s := by
      unfold iproj tag detectRec; grind
    rw [(ih _).1, (ih _).2]; exact h1

private theorem toggle_mono (p : Params) (s : State) : s.daysEmitting ≤ (toggle p s).daysEmitting := by
  unfold toggle; grind

private theorem update_mono (p : Params) (s : State) : s.daysEmitting ≤ (update p s).daysEmitting := by
  have t1 := toggle_mono p
  have tf := toggle_frame p
  unfold update endedAt
  grind

private theorem toggle_iproj (p : Params) (s s' : State) (h : iproj s = iproj s') :
    iproj (toggle p s) = iproj (toggle p s') := by
  unfold iproj at *
  simp only [Prod.mk.injEq] at h
  obtain ⟨h1, h2, h3, h4, h5⟩ := h
  unfold toggle
  simp only [h1, h2, h3, h4, h5]
  grind

theorem day_pre (p : Params) (hr : p.repairable = true) (d : Int) (evs : List TagEv) (r b : State)
    (h : Pre r b) : Pre (day p d evs r) (day p d [] b) := by
  unfold day
  simp only [List.foldl_nil]
  obtain ⟨hs, hi⟩ := tags_status_iproj p d evs (activate p d r)
  generalize (evs.foldl (fun s e => tag p d e s) (activate p d r)) = m at hs hi
  unfold iproj at hi
  simp only [Prod.mk.injEq] at hi
  obtain ⟨g1, g2, g3, g4, g5⟩ := hi
  -- mid-day relation
  have hm : Pre m (activate p d b) := by
    obtain ⟨h1, h2, h3, h4, h5⟩ := h
    by_cases hin : r.status = .inactive
    · obtain ⟨hb, hij⟩ := h1 hin
      unfold iproj at hij
      simp only [Prod.mk.injEq] at hij
      obtain ⟨e1, e2, e3, e4, e5⟩ := hij
      have hbt := h5 (by rw [hb]; decide)
      by_cases hst : p.start ≤ d
      · have ea : activate p d r = { r with status := .active, emitting := if p.intermittent then true else r.emitting } := by
          unfold activate; simp [hin, hst]
        have eb : activate p d b = { b with status := .active, emitting := if p.intermittent then true else b.emitting } := by
          unfold activate; simp [hb, hst]
        rw [ea] at hs g1 g2 g3 g4 g5
        rw [eb]
        unfold Pre iproj
        simp only [Prod.mk.injEq]
        simp only at hs g1 g2 g3 g4 g5
        grind
      · have ea : activate p d r = r := by unfold activate; simp [hst]
        have eb : activate p d b = b := by unfold activate; simp [hst]
        rw [ea] at hs g1 g2 g3 g4 g5
        rw [eb]
        unfold Pre iproj
        simp only [Prod.mk.injEq]
        grind
    · have ea : activate p d r = r := by unfold activate; simp [hin]
      rw [ea] at hs g1 g2 g3 g4 g5
      have hbs : b.status ≠ .inactive → activate p d b = b := by
        intro hb; unfold activate; simp [hb]
      have hbi : b.status = .inactive → (activate p d b).status ≠ .repaired ∧ (activate p d b).tagged = b.tagged := by
        intro hb; unfold activate; split <;> simp_all
      have hde : (activate p d b).daysEmitting = b.daysEmitting := by unfold activate; split <;> rfl
      unfold iproj at h1 h2
      simp only [Prod.mk.injEq] at h1 h2
      unfold Pre iproj
      simp only [Prod.mk.injEq]
      refine ⟨by grind, ?_, by grind, by grind, ?_⟩
      · intro hact
        rw [hs] at hact
        obtain ⟨hb, hij⟩ := h2 hact
        rw [hbs (by rw [hb]; decide)]
        grind
      · intro hne
        by_cases hb : b.status = .inactive
        · rw [(hbi hb).2]; exact h5 (by rw [hb]; decide)
        · rw [hbs hb] at hne ⊢; exact h5 hne
  clear hs g1 g2 g3 g4 g5
  generalize activate p d b = b' at hm
  unfold Pre at hm
  obtain ⟨h1, h2, h3, h4, h5⟩ := hm
  have um := update_mono p b'
  by_cases hact : m.status = .active
  · obtain ⟨hb, hij⟩ := h2 hact
    have hbt := h5 (by rw [hb]; decide)
    have hij' := hij
    unfold iproj at hij'
    simp only [Prod.mk.injEq] at hij'
    obtain ⟨e1, e2, e3, e4, e5⟩ := hij'
    by_cases hnat : m.activeDays + 1 + b4 p ≥ p.nrd
    · -- both end (the program run possibly by a program repair): emitting days frozen on both sides
      have hb' : update p b' = { b' with activeDays := b'.activeDays + 1, tagged := true, by_ := .natural, status := .repaired, endDate := some (p.start + (b'.activeDays + 1 + b4 p)) } := by
        unfold update endedAt; simp [hb, hr, hbt]; omega
      have hr' : (update p m).status = .repaired ∧ (update p m).daysEmitting = m.daysEmitting := by
        unfold update endedAt; simp only [hact, hr]; grind
      unfold Pre
      rw [hb']
      grind
    · have hb' : update p b' = toggle p { b' with activeDays := b'.activeDays + 1 } := by
        unfold update endedAt; simp [hb, hr, hbt]; omega
      by_cases hrep : m.tagged = true ∧ m.dst + 1 ≥ p.repairDelay + m.trd
      · have hr' : (update p m).status = .repaired ∧ (update p m).daysEmitting = m.daysEmitting := by
          unfold update endedAt; simp only [hact, hr]; grind
        have tfb := toggle_frame p { b' with activeDays := b'.activeDays + 1 }
        unfold Pre
        refine ⟨by grind, by grind, ?_, by grind, ?_⟩
        · intro _; rw [hr'.2, e3]; exact um
        · intro _; rw [hb', tfb.2.2.1]; exact hbt
      · have hr' : update p m = toggle p (if m.tagged then { m with activeDays := m.activeDays + 1, dst := m.dst + 1 } else { m with activeDays := m.activeDays + 1 }) := by
          unfold update endedAt; simp only [hact, hr]; grind
        have tfb := toggle_frame p { b' with activeDays := b'.activeDays + 1 }
        have tfm := toggle_frame p (if m.tagged then { m with activeDays := m.activeDays + 1, dst := m.dst + 1 } else { m with activeDays := m.activeDays + 1 })
        have tij := toggle_iproj p (if m.tagged then { m with activeDays := m.activeDays + 1, dst := m.dst + 1 } else { m with activeDays := m.activeDays + 1 }) { b' with activeDays := b'.activeDays + 1 } (by unfold iproj; grind)
        unfold Pre
        rw [hr', hb', tij]
        refine ⟨by grind, by grind, by grind, by grind, ?_⟩
        intro _; rw [tfb.2.2.1]; exact hbt
  · have hm' : update p m = m := by unfold update; simp [hact]
    rw [hm']
    unfold Pre
    refine ⟨?_, fun h => absurd h hact, ?_, h4, ?_⟩
    · intro hin
      obtain ⟨hb, hij⟩ := h1 hin
      have : update p b' = b' := by unfold update; simp [hb]
      rw [this]; exact ⟨hb, hij⟩
    · intro hrp; exact Int.le_trans (h3 hrp) um
    · intro hne
      have tf := toggle_frame p
      have hbt := h5
      unfold update endedAt at hne ⊢
      simp only [hr] at hne ⊢
      grind

theorem run_pre (p : Params) (hr : p.repairable = true) (ev : Nat → List TagEv) (n : Nat) :
    Pre (run p ev n) (baseline p n) := by
  induction n with
  | zero => unfold Pre baseline run init iproj; simp
  | succ n ih => exact day_pre p hr n (ev n) _ _ ih

/-- "never worsens" in emitted days (what the records report as emitted volume), every emission -/
theorem C03_emit_le_baseline (p : Params) (ev : Nat → List TagEv) (N : Nat) :
    emitDays p (run p ev N) ≤ emitDays p (baseline p N) := by
  cases hr : p.repairable
  · exact Int.le_of_eq (C03_nonrepairable p hr ev N).2.2.1
  · unfold emitDays
    cases hi : p.intermittent
    · simp only [Bool.false_eq_true, if_false]; exact C03_le_baseline p hr ev N
    · simp only [if_true]
      have h := run_pre p hr ev N
      unfold Pre iproj at h
      obtain ⟨h1, h2, h3, h4, _⟩ := h
      cases hs : (run p ev N).status
      · have := (h1 hs).2; simp only [Prod.mk.injEq] at this; omega
      · have := (h2 hs).2; simp only [Prod.mk.injEq] at this; omega
      · exact h3 hs
      · exact absurd hs h4


theorem C03_emit_le_baseline_E (p : Params) (ev : Nat → List Ev) (N : Nat) :
    emitDays p (runE p ev N) ≤ emitDays p (baseline p N) := by
  have f := runE_fields p ev N
  simp only at f
  have h := C03_emit_le_baseline p (fun d => tagsOf (ev d)) N
  unfold emitDays at *
  rw [f.2.1, f.2.2.2.2.2.2.2.2.1]
  exact h

/-- non-vacuity of the prefix lemma: an intermittent (2 on / 1 off) leak repaired by the program on
day 3 has emitted 2 days, the same leak emits 6 days without LDAR -/
example :
    let p : Params := { start := 0, nrd := 10, repairDelay := 1, repairable := true,
                        intermittent := true, activeDur := 2, inactiveDur := 1 }
    let ev : Nat → List TagEv := fun d => if d = 2 then [{ company := 1, trd := 0 }] else []
    emitDays p (run p ev 12) = 2 ∧ emitDays p (baseline p 12) = 6 ∧ (run p ev 12).status = .repaired := by
  decide +kernel

/-- Known finding F3: an emission generated exactly `duration` days before the period (the earliest
pre-period start the generator draws) is active on the first simulated day, one day beyond its
configured duration. -/
theorem C03_counterexample : ¬ C03_statement := by
  intro h
  have := (h { start := -5, nrd := 5, repairDelay := 0, repairable := true, intermittent := false,
               activeDur := 1, inactiveDur := 0 } noEvents 3 (by decide) (by decide)).2.1
  revert this
  decide +kernel

/-- non-vacuity: a leak tagged 2 days before its natural end with a 5-day delay ends naturally -/
example :
    let p : Params := { start := 0, nrd := 10, repairDelay := 5, repairable := true,
                        intermittent := false, activeDur := 1, inactiveDur := 0 }
    let ev : Nat → List TagEv := fun d => if d = 8 then [{ company := 1, trd := 0 }] else []
    (run p ev 20).activeDays = 10 ∧ (run p ev 20).by_ = .natural ∧ (baseline p 20).activeDays = 10 := by
  decide +kernel

end LdarModel.Emission
