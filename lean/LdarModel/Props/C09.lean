import LdarModel.Lemmas.FollowUp
/-
C09 — follow-up surveys happen only at flagged sites, per the screening work practice.

Model: `Model/FollowUp.lean`.  `run1 p cap ops` is one screening method bound to the follow-up
method, `runSys ps cap ops` any number of screening methods bound to the *same* follow-up method
(program.py hands each SiteLevelMethod the follow-up schedule object of its follow-up method).
Every theorem is for every parameter set, daily follow-up capacity `cap`, every history `ops`
(screenings, daily updates, follow-up days with arbitrary survey outcomes, tagging surveys of other
methods) of any length.  Ghost fields of the state (`evs`, `released`, `flags`, `done`, `dropped`,
`visits`) record what happened.

Known findings (the full statement is false of the code as it stands):
  F13  two screening methods on one follow-up method: the in-queue flags are shared, the candidate
       pools are not -> the same site is queued twice            (`C09_counterexample`)
  F17  the stale check is made only when a record is released: a candidate already pooled (or a
       request already queued) survives a later tagging survey   (`C09_stale_counterexample`)
-/
namespace LdarModel.FollowUp

/-! ### the property at full strength -/

/-- update / follow-up days never go backwards (per screening method); executable -/
def wellDatedSys (ps : List Params) (cap : Nat) : Sys → List Op → Bool
  | _, [] => true
  | sy, op :: t =>
    (match op with
     | .update i d => match sy.ms[i]? with
                      | some m => decide (m.today ≤ d)
                      | none => true
     | .fuDay d _ => sy.ms.all (fun m => decide (m.today ≤ d))
     | _ => true) && wellDatedSys ps cap (stepSys ps cap sy op) t

def C09_statement : Prop :=
  ∀ (ps : List Params) (cap : Nat) (ops : List Op), wellDatedSys ps cap (initSys ps) ops = true →
    -- at most one follow-up request per site is outstanding; each flag leads to at most one survey
    (∀ s, outstanding (runSys ps cap ops).sh.queue s ≤ 1) ∧
    (∀ s, (runSys ps cap ops).sh.done s ≤ (runSys ps cap ops).sh.flags s) ∧
    -- every flag stems from released detections of that site whose filtered rate reaches the
    -- threshold / instant threshold, never before the reporting delay (+ delay on the pool route)
    (∀ (i : Nat) (p : Params) (m : MState), ps[i]? = some p → (runSys ps cap ops).ms[i]? = some m →
        ∀ f ∈ m.evs, GoodFlag p m.released m.today f) ∧
    -- screenings made before the site's latest tagging survey are discarded
    (∀ (i : Nat) (m : MState), (runSys ps cap ops).ms[i]? = some m → ∀ f ∈ m.evs, f.tagAtFlag ≤ f.recDate) ∧
    (∀ v ∈ (runSys ps cap ops).sh.visits, v.outcome ≠ .unattended → v.tagBefore ≤ v.recDate)

/-! ### one screening method: what is proved for every history -/

/-- at most one outstanding request per site: a site is in the queue exactly once iff its in-queue
flag is set, in the candidate pool exactly once iff its in-pool flag is set, never both; the flag
counter equals completed + withdrawn + outstanding, so each flag yields at most one survey -/
theorem one_outstanding (p : Params) (cap : Nat) (ops : List Op1) (s : Nat) :
    outstanding (run1 p cap ops).sh.queue s = (if (run1 p cap ops).sh.inQueue s then 1 else 0) ∧
    cnt (run1 p cap ops).m.pool s = (if (run1 p cap ops).m.inPool s then 1 else 0) ∧
    ((run1 p cap ops).m.inPool s = true → (run1 p cap ops).sh.inQueue s = false) ∧
    (run1 p cap ops).sh.flags s = (run1 p cap ops).sh.done s + (run1 p cap ops).sh.dropped s
        + (if (run1 p cap ops).sh.inQueue s then 1 else 0) ∧
    (run1 p cap ops).sh.done s ≤ (run1 p cap ops).sh.flags s ∧
    (run1 p cap ops).sh.err = false := by
  have h := run1_invA p cap ops
  refine ⟨h.queueCnt s, h.poolCnt s, h.excl s, h.counters s, ?_, h.noErr⟩
  have := h.counters s
  omega

/-- `followUpDone`: a completed follow-up survey clears the site's flag and stamps the site -/
theorem followUpDone_clears (d : Int) (outs : Nat → Outcome) (sh : Shared) (pl : Plan)
    (h : outs pl.site = .complete) :
    (applyOutcome d outs sh pl).inQueue pl.site = false ∧
    (applyOutcome d outs sh pl).latestTag pl.site = d ∧
    (applyOutcome d outs sh pl).done pl.site = sh.done pl.site + 1 := by
  unfold applyOutcome
  simp [h, setI]

/-- the flag counter counts the flag events: completed follow-up surveys of a site never exceed the
number of times a screening method flagged it -/
theorem each_flag_at_most_one_followup (p : Params) (cap : Nat) (ops : List Op1)
    (hw : WellDated p cap {} ops) (s : Nat) :
    (run1 p cap ops).sh.done s ≤ evCount (run1 p cap ops).m.evs s := by
  have h1 := (run1_invA p cap ops).counters s
  have h2 := (run1_invD p cap ops hw).flagsEq s
  omega

/-- every flag event (every insertion of a new request into the follow-up queue) stems from
released detection records of that site, its rate is the *redundancy-filtered* rate of exactly those
detections (`filt`: recent / max / average; rolling means over the small / large window for
stationary screening, 0 for a planner with a single detection), and that filtered rate reached the
instant threshold (instant route) or the follow-up threshold / rolling-window thresholds (pool route) -/
theorem queued_implies_flagged (p : Params) (cap : Nat) (ops : List Op1) (hw : WellDated p cap {} ops) :
    ∀ f ∈ (run1 p cap ops).m.evs,
      f.rates ≠ [] ∧
      (∀ r ∈ f.rates, ∃ rc ∈ (run1 p cap ops).m.released,
          rc.site = f.site ∧ rc.rate = r ∧ rc.date + p.rd ≤ f.day) ∧
      (p.stationary = false → f.rate = filt p.filter f.rates) ∧
      (p.stationary = true →
          (f.rates.length = 1 ∧ f.rate = 0 ∧ f.rateLong = 0) ∨
          (2 ≤ f.rates.length ∧ f.rate = meanLast p.sw f.rates ∧ f.rateLong = meanLast p.lw f.rates)) ∧
      (f.route = .instant → ∃ t, p.inst = some t ∧ t ≤ f.rate) ∧
      (f.route = .pool → p.stationary = false → p.thr ≤ filt p.filter f.rates) ∧
      (f.route = .pool → p.stationary = true →
          p.sthr ≤ f.rate ∨ (p.lthr ≠ 0 ∧ f.rateLong ≠ 0 ∧ p.lthr ≤ f.rateLong)) := by
  intro f hf
  obtain ⟨_, _, h3, h4, h5, h6⟩ := (run1_invC (S := True) p cap ops hw).evsOK f hf
  unfold RateOK at h6
  refine ⟨h3, h4, ?_, ?_, ?_, ?_, ?_⟩
  · intro hs; simpa [hs] using h6
  · intro hs; simpa [hs] using h6
  · intro hr; unfold RouteOK at h5; rw [hr] at h5; exact h5.1
  · intro hr hs; unfold RouteOK at h5; rw [hr] at h5
    have h7 : f.rate = filt p.filter f.rates := by simpa [hs] using h6
    rw [← h7]; simpa [hs] using h5.2
  · intro hr hs; unfold RouteOK at h5; rw [hr] at h5; simpa [hs] using h5.2

/-- every request waiting in the follow-up queue belongs to a flagged site (flag set, flagged at
least once) and stems from released detections of that site -/
theorem queue_entries_flagged (p : Params) (cap : Nat) (ops : List Op1) (hw : WellDated p cap {} ops) :
    ∀ e ∈ (run1 p cap ops).sh.queue,
      (run1 p cap ops).sh.inQueue e.plan.site = true ∧
      1 ≤ evCount (run1 p cap ops).m.evs e.plan.site ∧
      e.plan.rates ≠ [] ∧
      (∀ r ∈ e.plan.rates, ∃ rc ∈ (run1 p cap ops).m.released, rc.site = e.plan.site ∧ rc.rate = r) := by
  intro e he
  have hA := run1_invA p cap ops
  have hq := hA.queueCnt e.plan.site
  have hpos : 0 < outstanding (run1 p cap ops).sh.queue e.plan.site := by
    unfold outstanding
    exact List.countP_pos_iff.mpr ⟨e, he, by simp⟩
  have hin : (run1 p cap ops).sh.inQueue e.plan.site = true := by
    rw [← b2n_eq_one]; have := b2n_le ((run1 p cap ops).sh.inQueue e.plan.site); omega
  have hc := hA.counters e.plan.site
  have hd := (run1_invD p cap ops hw).flagsEq e.plan.site
  obtain ⟨h1, h2, _⟩ := (run1_invC (S := True) p cap ops hw).queueOK trivial e he
  rw [hin] at hc
  simp only [b2n_true] at hc
  exact ⟨hin, by omega, h1, h2⟩

/-- no flag before the reporting delay: the newest detection behind a flag was made at least
`reportingDelay` days earlier (exactly that on the instant route); on the pool route at least
`delay` days have passed since the first candidate of the decision; follow-up visits likewise -/
theorem not_before_reporting_delay (p : Params) (cap : Nat) (ops : List Op1) (hw : WellDated p cap {} ops) :
    (∀ f ∈ (run1 p cap ops).m.evs,
      f.recDate + p.rd ≤ f.day ∧
      (f.route = .instant → f.day = f.recDate + p.rd) ∧
      (f.route = .pool → f.first + p.delay ≤ f.day)) ∧
    (∀ v ∈ (run1 p cap ops).sh.visits, v.recDate + p.rd ≤ v.day) := by
  refine ⟨?_, (run1_invD p cap ops hw).visitsOK⟩
  intro f hf
  obtain ⟨h1, _, _, _, h5, _⟩ := (run1_invC (S := True) p cap ops hw).evsOK f hf
  refine ⟨h1, ?_, ?_⟩
  · intro hr; unfold RouteOK at h5; rw [hr] at h5; exact h5.2.1
  · intro hr; unfold RouteOK at h5; rw [hr] at h5; exact h5.1

/-! #### proportion -/

theorem foldFlag_evs (p : Params) (d first : Int) (cs : List Plan) (st : St) :
    (∀ f ∈ (cs.foldl (flagOne p d first) st).m.evs,
        f ∈ st.m.evs ∨ ∃ pl ∈ cs, f = mkEv pl .pool d first (st.sh.latestTag pl.site)) ∧
    (cs.foldl (flagOne p d first) st).m.nflags ≤ st.m.nflags + cs.length ∧
    (cs.foldl (flagOne p d first) st).sh.latestTag = st.sh.latestTag ∧
    (p.stationary = false →
      (cs.foldl (flagOne p d first) st).m.evs
        = st.m.evs ++ cs.map (fun pl => mkEv pl .pool d first (st.sh.latestTag pl.site)) ∧
      (cs.foldl (flagOne p d first) st).m.nflags = st.m.nflags + cs.length) := by
  induction cs generalizing st with
  | nil => simp
  | cons pl t ih =>
    simp only [List.foldl_cons]
    have := ih (flagOne p d first st pl)
    obtain ⟨h1, h2, h3, h4⟩ := this
    have hone : (flagOne p d first st pl).sh.latestTag = st.sh.latestTag ∧
        ((flagOne p d first st pl).m.evs = st.m.evs ∧ (flagOne p d first st pl).m.nflags = st.m.nflags ∨
         (flagOne p d first st pl).m.evs = st.m.evs ++ [mkEv pl .pool d first (st.sh.latestTag pl.site)] ∧
         (flagOne p d first st pl).m.nflags = st.m.nflags + 1) ∧
        (p.stationary = false →
          (flagOne p d first st pl).m.evs = st.m.evs ++ [mkEv pl .pool d first (st.sh.latestTag pl.site)] ∧
          (flagOne p d first st pl).m.nflags = st.m.nflags + 1) := by
      unfold flagOne
      split
      · rename_i hc
        exact ⟨rfl, Or.inl ⟨rfl, rfl⟩, fun hs => by simp [hs] at hc⟩
      · exact ⟨rfl, Or.inr ⟨rfl, rfl⟩, fun _ => ⟨rfl, rfl⟩⟩
    obtain ⟨hl, hcase, hmob⟩ := hone
    refine ⟨?_, ?_, by rw [h3, hl], ?_⟩
    · intro f hf
      rcases h1 f hf with hf' | ⟨x, hx, rfl⟩
      · rcases hcase with ⟨he, _⟩ | ⟨he, _⟩
        · rw [he] at hf'; exact Or.inl hf'
        · rw [he] at hf'
          simp only [List.mem_append, List.mem_singleton] at hf'
          rcases hf' with hf' | rfl
          · exact Or.inl hf'
          · exact Or.inr ⟨pl, by simp, rfl⟩
      · exact Or.inr ⟨x, by simp [hx], by rw [hl]⟩
    · rcases hcase with ⟨_, hn⟩ | ⟨_, hn⟩ <;> simp only [List.length_cons] <;> omega
    · intro hs
      obtain ⟨e1, e2⟩ := h4 hs
      obtain ⟨m1, m2⟩ := hmob hs
      rw [e1, e2, m1, m2, hl]
      simp only [List.map_cons, List.append_assoc, List.singleton_append, List.length_cons]
      exact ⟨trivial, by omega⟩

/-- `_filter_candidates_by_proportion` + the flagging loop: a decision keeps `k = min ⌈p·n⌉ |pool|`
candidates — `n = |pool|` (threshold first) or `n = c`, the counter of non-zero sub-threshold
detections (proportion first) — they are the *prefix* of the pool, the pool is sorted by decreasing
rate so every kept candidate is at least as large as every rejected one, only kept candidates are
flagged (all of them for mobile screening), and the rejected ones leave the pool un-flagged -/
theorem proportion (p : Params) (d first : Int) (st : St) (hs : Sorted st.m.pool) (hA : InvA st) :
    let n := st.m.pool.length
    let k := keepCount p n st.m.count
    let st' := decideNow p d first st
    (k = if p.thrFirst then (((n : Int) : Rat) * p.prop).ceil.toNat
         else min (((st.m.count : Int) : Rat) * p.prop).ceil.toNat n) ∧
    (∀ x ∈ st.m.pool.take k, ∀ y ∈ st.m.pool.drop k, y.rate ≤ x.rate) ∧
    (∀ f ∈ st'.m.evs, f ∈ st.m.evs ∨
        ∃ pl ∈ st.m.pool.take k, f = mkEv pl .pool d first (st.sh.latestTag pl.site)) ∧
    st'.m.nflags ≤ st.m.nflags + min k n ∧
    (p.stationary = false →
        st'.m.evs = st.m.evs ++ (st.m.pool.take k).map (fun pl => mkEv pl .pool d first (st.sh.latestTag pl.site))
        ∧ st'.m.nflags = st.m.nflags + min k n) ∧
    (∀ y ∈ st.m.pool.drop k, st'.m.inPool y.site = false ∧ ∀ x ∈ st'.m.pool, x.site ≠ y.site) := by
  intro n k st'
  refine ⟨rfl, ?_, ?_, ?_, ?_, ?_⟩
  · intro x hx y hy
    have := hs
    unfold Sorted at this
    rw [← List.take_append_drop k st.m.pool, List.pairwise_append] at this
    exact this.2.2 x hx y hy
  · intro f hf
    have := (foldFlag_evs p d first (st.m.pool.take k)
      { st with m := { st.m with pool := [], count := 0, firstCand := none, inPool := (st.m.pool.drop k).foldl (fun f pl => setB f pl.site false) st.m.inPool } }).1 f hf
    exact this
  · have := (foldFlag_evs p d first (st.m.pool.take k)
      { st with m := { st.m with pool := [], count := 0, firstCand := none, inPool := (st.m.pool.drop k).foldl (fun f pl => setB f pl.site false) st.m.inPool } }).2.1
    simp only [List.length_take] at this
    exact this
  · intro hmob
    have := (foldFlag_evs p d first (st.m.pool.take k)
      { st with m := { st.m with pool := [], count := 0, firstCand := none, inPool := (st.m.pool.drop k).foldl (fun f pl => setB f pl.site false) st.m.inPool } }).2.2.2 hmob
    simp only [List.length_take] at this
    exact this
  · intro y hy
    have hA' := decideNow_invA p d first st hA
    have hcnt : 0 < cnt (st.m.pool.drop k) y.site := cnt_pos_of_mem hy
    have h1 := cnt_take_drop st.m.pool k y.site
    have h2 := hA.poolCnt y.site
    have h3 := b2n_le (st.m.inPool y.site)
    have hin : st.m.inPool y.site = true := by rw [← b2n_eq_one]; omega
    have hq : st.sh.inQueue y.site = false := hA.excl _ hin
    -- the site is neither kept nor queued, so it cannot be flagged by the loop
    have hkeep : cnt (st.m.pool.take k) y.site = 0 := by rw [hin] at h2; simp at h2; omega
    have key : ∀ (cs : List Plan) (s0 : St), cnt cs y.site = 0 → s0.m.inPool y.site = false →
        cnt s0.m.pool y.site = 0 →
        (cs.foldl (flagOne p d first) s0).m.inPool y.site = false ∧
        cnt (cs.foldl (flagOne p d first) s0).m.pool y.site = 0 := by
      intro cs
      induction cs with
      | nil => intro s0 _ h2 h3; exact ⟨h2, h3⟩
      | cons pl t ih =>
        intro s0 hc h2 h3
        rw [cnt_cons] at hc
        have hne : ¬ pl.site = y.site := by intro e; simp [e] at hc
        simp only [hne, if_false, Nat.add_zero] at hc
        simp only [List.foldl_cons]
        apply ih _ hc
        · unfold flagOne
          split
          · exact h2
          · simp only [flagSite]
            rw [setB_other _ _ (fun e => hne e.symm)]; exact h2
        · unfold flagOne
          split
          · simp only [cnt_poolInsert, hne, if_false, h3]
          · exact h3
    have := key (st.m.pool.take k)
      { st with m := { st.m with pool := [], count := 0, firstCand := none, inPool := (st.m.pool.drop k).foldl (fun f pl => setB f pl.site false) st.m.inPool } }
      hkeep (by simp only [unflag_spec]; have : ¬ cnt (st.m.pool.drop k) y.site = 0 := by omega
                simp [this]) (by simp)
    exact ⟨this.1, cnt_zero_not_mem this.2⟩


/-- the state of the screening method on day `d` after the released records have been processed and
before the flagging decision (`dailyUpdate p d st = updateCandidates p d (midState p d st)` by `rfl`) -/
def midState (p : Params) (d : Int) (st : St) : St :=
  (st.m.records.filter (fun r => r.date = d - p.rd)).foldl (processRec p d (d - p.rd))
    { st with m := { st.m with records := st.m.records.filter (fun r => r.date ≠ d - p.rd), today := d, nflags := 0 } }

theorem dailyUpdate_eq_mid (p : Params) (d : Int) (st : St) :
    dailyUpdate p d st = updateCandidates p d (midState p d st) := rfl

private theorem processRec_nflags (p : Params) (d dc : Int) (st : St) (r : Rec) :
    (processRec p d dc st r).m.nflags = st.m.nflags := by
  unfold processRec updMobile updStationary
  repeat' (first | split | simp only [])
  all_goals rfl

private theorem foldRec_nflags (p : Params) (d dc : Int) (rs : List Rec) (st : St) :
    (rs.foldl (processRec p d dc) st).m.nflags = st.m.nflags := by
  induction rs generalizing st with
  | nil => rfl
  | cons r t ih => simp only [List.foldl_cons]; rw [ih, processRec_nflags]

/-- `proportion` for every history: on every day `d` after any history, the sites flagged through
the pool that day are among the first `k = keepCount …` candidates of the pool as it stands after
the day's records (sorted by decreasing rate: every kept candidate is at least as large as every
rejected one), at most `min k |pool|` of them, and only if the delay since the first candidate has
passed; otherwise no flag event is added that day by the decision -/
theorem proportion_history (p : Params) (cap : Nat) (ops : List Op1) (d : Int) :
    let mid := midState p d (run1 p cap ops)
    let k := keepCount p mid.m.pool.length mid.m.count
    let st' := dailyUpdate p d (run1 p cap ops)
    (∀ x ∈ mid.m.pool.take k, ∀ y ∈ mid.m.pool.drop k, y.rate ≤ x.rate) ∧
    (∀ f ∈ st'.m.evs, f ∈ mid.m.evs ∨ ∃ first, first + p.delay ≤ d ∧
        ∃ pl ∈ mid.m.pool.take k, f = mkEv pl .pool d first (mid.sh.latestTag pl.site)) ∧
    st'.m.nflags ≤ min k mid.m.pool.length := by
  intro mid k st'
  have hA0 := run1_invA p cap ops
  have hs : Sorted mid.m.pool := foldRec_sorted _ _ _ _ _ (run1_sorted p cap ops)
  have hA : InvA mid := foldRec_invA _ _ _ _ _ ⟨hA0.poolCnt, hA0.queueCnt, hA0.excl, hA0.counters, hA0.noErr⟩
  have hn : mid.m.nflags = 0 := by
    show (midState p d (run1 p cap ops)).m.nflags = 0
    unfold midState
    rw [foldRec_nflags]
  have key : ∀ first, first + p.delay ≤ d →
      (∀ f ∈ (decideNow p d first mid).m.evs, f ∈ mid.m.evs ∨ ∃ first, first + p.delay ≤ d ∧
        ∃ pl ∈ mid.m.pool.take k, f = mkEv pl .pool d first (mid.sh.latestTag pl.site)) ∧
      (decideNow p d first mid).m.nflags ≤ min k mid.m.pool.length := by
    intro first hdue
    obtain ⟨_, _, h3, h4, _, _⟩ := proportion p d first mid hs hA
    refine ⟨?_, by rw [hn] at h4; simpa using h4⟩
    intro f hf
    rcases h3 f hf with h | h
    · exact Or.inl h
    · exact Or.inr ⟨first, hdue, h⟩
  refine ⟨(proportion p d d mid hs hA).2.1, ?_⟩
  show (∀ f ∈ (updateCandidates p d mid).m.evs, _) ∧ (updateCandidates p d mid).m.nflags ≤ _
  unfold updateCandidates
  split
  · split
    · exact ⟨fun f hf => Or.inl hf, by rw [hn]; exact Nat.zero_le _⟩
    · split
      · rename_i hd
        exact key d (by omega)
      · exact ⟨fun f hf => Or.inl hf, by show mid.m.nflags ≤ _; rw [hn]; exact Nat.zero_le _⟩
  · split
    · rename_i fc _ hd
      exact key fc (by omega)
    · exact ⟨fun f hf => Or.inl hf, by rw [hn]; exact Nat.zero_le _⟩

/-- never more than the configured proportion of all pooled detections: with the proportion applied
first, the number kept is at most `⌈p · (c + |pool|)⌉` -/
theorem proportion_upper_bound (p : Params) (n c : Nat) (hp : 0 ≤ p.prop) (ht : p.thrFirst = false) :
    keepCount p n c ≤ n ∧
    (keepCount p n c : Int) ≤ ((((c + n : Nat) : Int) : Rat) * p.prop).ceil := by
  unfold keepCount
  simp only [ht, Bool.false_eq_true, if_false]
  refine ⟨Nat.min_le_right _ _, ?_⟩
  have h1 : (((c : Int) : Rat) * p.prop) ≤ ((((c + n : Nat) : Int) : Rat) * p.prop) := by
    apply Rat.mul_le_mul_of_nonneg_right _ hp
    rw [Rat.intCast_le_intCast]; omega
  have h2 : (((c : Int) : Rat) * p.prop).ceil ≤ ((((c + n : Nat) : Int) : Rat) * p.prop).ceil := by
    rw [Rat.ceil_le_iff]
    exact Rat.le_trans h1 Rat.le_ceil
  have h0 : 0 ≤ ((((c + n : Nat) : Int) : Rat) * p.prop).ceil := by
    have : (0 : Rat) ≤ ((((c + n : Nat) : Int) : Rat) * p.prop) := by
      apply Rat.mul_nonneg _ hp
      have : ((0 : Int) : Rat) ≤ (((c + n : Nat) : Int) : Rat) := by rw [Rat.intCast_le_intCast]; omega
      simpa using this
    have h3 := @Rat.le_ceil ((((c + n : Nat) : Int) : Rat) * p.prop)
    have h4 : ((0 : Int) : Rat) ≤ ((((((c + n : Nat) : Int) : Rat) * p.prop).ceil : Int) : Rat) := by
      simpa using Rat.le_trans this h3
    exact Rat.intCast_le_intCast.mp h4
  omega

/-- with the threshold applied first the number kept is `min ⌈p·|pool|⌉ |pool|`; never more than the pool -/
theorem proportion_threshold_first (p : Params) (n c : Nat) (ht : p.thrFirst = true) :
    min (keepCount p n c) n = min (((n : Int) : Rat) * p.prop).ceil.toNat n := by
  unfold keepCount; simp [ht]

/-! #### stale screenings -/

/-- the release-time stale check: a record whose survey date lies before the site's latest tagging
survey is discarded without any effect -/
theorem stale_discarded (p : Params) (d dc : Int) (st : St) (r : Rec)
    (h : dc < st.sh.latestTag r.site) : processRec p d dc st r = st := by
  unfold processRec
  have : ¬ st.sh.latestTag r.site ≤ dc := by omega
  simp [this]

/-- hence every flag on the instant route is behind a screening that is not older than the site's
latest tagging survey (the pool route is the known finding F17) -/
theorem stale_instant_partial (p : Params) (cap : Nat) (ops : List Op1) (hw : WellDated p cap {} ops) :
    ∀ f ∈ (run1 p cap ops).m.evs, f.route = .instant → f.tagAtFlag ≤ f.recDate := by
  intro f hf hr
  obtain ⟨_, _, _, _, h5, _⟩ := (run1_invC (S := True) p cap ops hw).evsOK f hf
  unfold RouteOK at h5; rw [hr] at h5; exact h5.2.2.2

/-! #### the follow-up method only works from its queue -/

theorem foldOutcome_visits (d : Int) (outs : Nat → Outcome) (cs : List Plan) (sh : Shared) :
    ∀ v ∈ (cs.foldl (applyOutcome d outs) sh).visits,
      v ∈ sh.visits ∨ ∃ pl ∈ cs, v.site = pl.site ∧ v.recDate = pl.latest ∧ v.day = d := by
  induction cs generalizing sh with
  | nil => intro v hv; exact Or.inl hv
  | cons pl t ih =>
    intro v hv
    simp only [List.foldl_cons] at hv
    rcases ih _ v hv with h | ⟨x, hx, h⟩
    · have hvis : (applyOutcome d outs sh pl).visits
          = sh.visits ++ [Visit.mk pl.site pl.latest (sh.latestTag pl.site) d (outs pl.site)] := by
        unfold applyOutcome; simp only []; split <;> rfl
      rw [hvis] at h
      simp only [List.mem_append, List.mem_singleton] at h
      rcases h with h | rfl
      · exact Or.inl h
      · exact Or.inr ⟨pl, by simp, rfl, rfl, rfl⟩
    · exact Or.inr ⟨x, by simp [hx], h⟩

/-- every site the follow-up method works at on a day was taken from the head of its queue (at most
`cap` requests), and — one screening method — such a site is flagged -/
theorem followup_only_from_queue (p : Params) (cap : Nat) (ops : List Op1) (d : Int)
    (outs : Nat → Outcome) :
    ∀ v ∈ (followUpDay cap d outs (run1 p cap ops).sh).visits,
      v ∈ (run1 p cap ops).sh.visits ∨
      (∃ e ∈ (run1 p cap ops).sh.queue.take cap, e.plan.site = v.site ∧ e.plan.latest = v.recDate) ∧
      (run1 p cap ops).sh.inQueue v.site = true := by
  intro v hv
  have hA := run1_invA p cap ops
  have hle : ∀ s, outstanding (run1 p cap ops).sh.queue s ≤ 1 := by
    intro s; rw [hA.queueCnt s]; exact b2n_le _
  unfold followUpDay at hv
  rw [planned_eq cap _ hle] at hv
  rcases foldOutcome_visits d outs _ _ v hv with h | ⟨pl, hpl, h1, h2, _⟩
  · exact Or.inl h
  · right
    rw [List.mem_map] at hpl
    obtain ⟨e, he, rfl⟩ := hpl
    refine ⟨⟨e, he, h1.symm, h2.symm⟩, ?_⟩
    have hpos : 0 < outstanding (run1 p cap ops).sh.queue e.plan.site := by
      unfold outstanding
      exact List.countP_pos_iff.mpr ⟨e, List.mem_of_mem_take he, by simp⟩
    have hq := hA.queueCnt e.plan.site
    rw [h1, ← b2n_eq_one]
    have := b2n_le ((run1 p cap ops).sh.inQueue e.plan.site); omega

/-! ### several screening methods on one follow-up method -/

/-- a system with exactly one screening method is the single-method machine -/
def SysInv (p : Params) (sy : Sys) : Prop :=
  ∃ st : St, sy.ms = [st.m] ∧ sy.sh = st.sh ∧ InvA st ∧ InvC True p st ∧ InvD p st

theorem stepSys_sysInv (p : Params) (cap : Nat) (sy : Sys) (op : Op) (h : SysInv p sy)
    (hw : wellDatedSys [p] cap sy (op :: []) = true) : SysInv p (stepSys [p] cap sy op) := by
  obtain ⟨st, hm, hsh, hA, hC, hD⟩ := h
  obtain ⟨ms, sh⟩ := sy
  simp only at hm hsh
  subst hm hsh
  unfold wellDatedSys at hw
  simp only [wellDatedSys, Bool.and_true] at hw
  cases op with
  | screen i s r d =>
    cases i with
    | zero =>
      refine ⟨step1 p cap st (.screen s r d), ?_, rfl, step1_invA _ _ _ _ hA,
        step1_invC _ _ _ _ hC trivial, step1_invD _ _ _ _ hD hC trivial⟩
      simp [stepSys, step1]
    | succ k => exact ⟨st, by simp [stepSys], rfl, hA, hC, hD⟩
  | update i d =>
    cases i with
    | zero =>
      have hd : st.m.today ≤ d := by simpa using hw
      refine ⟨step1 p cap st (.update d), ?_, ?_, step1_invA _ _ _ _ hA,
        step1_invC _ _ _ _ hC hd, step1_invD _ _ _ _ hD hC hd⟩
      · simp [stepSys, step1]
      · simp [stepSys, step1]
    | succ k => exact ⟨st, by simp [stepSys], by simp [stepSys], hA, hC, hD⟩
  | fuDay d outs =>
    have hd : st.m.today ≤ d := by simpa using hw
    exact ⟨step1 p cap st (.fuDay d outs), rfl, rfl, step1_invA _ _ _ _ hA,
      step1_invC _ _ _ _ hC hd, step1_invD _ _ _ _ hD hC hd⟩
  | tag s d =>
    exact ⟨step1 p cap st (.tag s d), rfl, rfl, step1_invA _ _ _ _ hA,
      step1_invC _ _ _ _ hC trivial, step1_invD _ _ _ _ hD hC trivial⟩

theorem foldl_sysInv (p : Params) (cap : Nat) (ops : List Op) (sy : Sys) (h : SysInv p sy)
    (hw : wellDatedSys [p] cap sy ops = true) : SysInv p (ops.foldl (stepSys [p] cap) sy) := by
  induction ops generalizing sy with
  | nil => exact h
  | cons op t ih =>
    unfold wellDatedSys at hw
    rw [Bool.and_eq_true] at hw
    refine ih _ (stepSys_sysInv p cap sy op h ?_) hw.2
    unfold wellDatedSys
    simp only [wellDatedSys, Bool.and_true]
    exact hw.1

/-- C09 for a program with a single screening method on its follow-up method: every clause of the
statement except the pool-route part of the stale clause (F17), for every history -/
theorem C09_partial (p : Params) (cap : Nat) (ops : List Op)
    (hw : wellDatedSys [p] cap (initSys [p]) ops = true) :
    (∀ s, outstanding (runSys [p] cap ops).sh.queue s ≤ 1) ∧
    (∀ s, (runSys [p] cap ops).sh.done s ≤ (runSys [p] cap ops).sh.flags s) ∧
    (∀ (i : Nat) (q : Params) (m : MState), [p][i]? = some q → (runSys [p] cap ops).ms[i]? = some m →
        ∀ f ∈ m.evs, GoodFlag q m.released m.today f) ∧
    (∀ (i : Nat) (m : MState), (runSys [p] cap ops).ms[i]? = some m →
        ∀ f ∈ m.evs, f.route = .instant → f.tagAtFlag ≤ f.recDate) := by
  have h0 : SysInv p (initSys [p]) :=
    ⟨{}, rfl, rfl, invA_init, invC_init True p, ⟨by intro s; rfl, by simp⟩⟩
  obtain ⟨st, hm, hsh, hA, hC, hD⟩ := foldl_sysInv p cap ops _ h0 hw
  unfold runSys
  rw [hm, hsh]
  refine ⟨?_, ?_, ?_, ?_⟩
  · intro s; rw [hA.queueCnt s]; exact b2n_le _
  · intro s; have := hA.counters s; omega
  · intro i q m hq hmi f hf
    cases i with
    | zero =>
      simp only [List.getElem?_cons_zero, Option.some.injEq] at hq hmi
      subst hq hmi
      exact hC.evsOK f hf
    | succ k => simp at hq
  · intro i m hmi f hf hr
    cases i with
    | zero =>
      simp only [List.getElem?_cons_zero, Option.some.injEq] at hmi
      subst hmi
      obtain ⟨_, _, _, _, h5, _⟩ := hC.evsOK f hf
      unfold RouteOK at h5; rw [hr] at h5; exact h5.2.2.2
    | succ k => simp at hmi


/-! #### any number of screening methods: what F13 does not break -/

/-- per screening method, the provenance / date / routing invariant without the clause about the
shared queue -/
def SysInvC (ps : List Params) (sy : Sys) : Prop :=
  ∀ (i : Nat) (p : Params) (m : MState), ps[i]? = some p → sy.ms[i]? = some m →
    InvC False p { m := m, sh := sy.sh }

private theorem invC_frame {p : Params} {m : MState} {sh sh' : Shared}
    (h : InvC False p { m := m, sh := sh }) : InvC False p { m := m, sh := sh' } :=
  ⟨h.poolOK, fun hS => hS.elim, h.poolThr, h.evsOK, h.relOK, h.firstOK⟩

theorem stepSys_sysInvC (ps : List Params) (cap : Nat) (sy : Sys) (op : Op) (h : SysInvC ps sy)
    (hw : wellDatedSys ps cap sy (op :: []) = true) : SysInvC ps (stepSys ps cap sy op) := by
  unfold wellDatedSys at hw
  simp only [wellDatedSys, Bool.and_true] at hw
  cases op with
  | screen i s r d =>
    unfold stepSys
    cases hmi : sy.ms[i]? with
    | none => simpa [hmi] using h
    | some m =>
      simp only [hmi]
      intro j q mj hq hmj
      simp only [List.getElem?_set] at hmj
      by_cases hij : i = j
      · subst hij
        have hlt : i < sy.ms.length := by
          rcases Nat.lt_or_ge i sy.ms.length with hl | hl
          · exact hl
          · rw [List.getElem?_eq_none hl] at hmi; cases hmi
        simp only [hlt, if_true, Option.some.injEq] at hmj
        subst hmj
        have := h i q m hq hmi
        exact ⟨this.poolOK, fun hS => hS.elim, this.poolThr, this.evsOK, this.relOK, this.firstOK⟩
      · simp only [hij, if_false] at hmj
        exact h j q mj hq hmj
  | update i d =>
    unfold stepSys
    cases hpi : ps[i]? with
    | none => simpa [hpi] using h
    | some p =>
      cases hmi : sy.ms[i]? with
      | none => simpa [hpi, hmi] using h
      | some m =>
        simp only [hpi, hmi]
        have hd : m.today ≤ d := by simpa [hmi] using hw
        have hnew := dailyUpdate_invC (S := False) p d { m := m, sh := sy.sh } (h i p m hpi hmi) hd
        intro j q mj hq hmj
        simp only [List.getElem?_set] at hmj
        by_cases hij : i = j
        · subst hij
          have hlt : i < sy.ms.length := by
            rcases Nat.lt_or_ge i sy.ms.length with hl | hl
            · exact hl
            · rw [List.getElem?_eq_none hl] at hmi; cases hmi
          simp only [hlt, if_true, Option.some.injEq] at hmj
          subst hmj
          rw [hpi] at hq
          simp only [Option.some.injEq] at hq
          subst hq
          exact hnew
        · simp only [hij, if_false] at hmj
          exact invC_frame (h j q mj hq hmj)
  | fuDay d outs =>
    intro j q mj hq hmj
    exact invC_frame (h j q mj hq hmj)
  | tag s d =>
    intro j q mj hq hmj
    exact invC_frame (h j q mj hq hmj)

theorem foldl_sysInvC (ps : List Params) (cap : Nat) (ops : List Op) (sy : Sys) (h : SysInvC ps sy)
    (hw : wellDatedSys ps cap sy ops = true) : SysInvC ps (ops.foldl (stepSys ps cap) sy) := by
  induction ops generalizing sy with
  | nil => exact h
  | cons op t ih =>
    unfold wellDatedSys at hw
    rw [Bool.and_eq_true] at hw
    refine ih _ (stepSys_sysInvC ps cap sy op h ?_) hw.2
    unfold wellDatedSys
    simp only [wellDatedSys, Bool.and_true]
    exact hw.1

/-- C09 for ANY number of screening methods bound to one follow-up method — the clauses the known
finding F13 does not break: every flag event of every method stems from released detections of that
site by that method, its rate is the redundancy-filtered rate of those detections and reached the
(instant) threshold, never before the reporting delay (+ delay on the pool route), and a flag on the
instant route never rests on a screening older than the site's latest tagging survey -/
theorem C09_flags_any_methods (ps : List Params) (cap : Nat) (ops : List Op)
    (hw : wellDatedSys ps cap (initSys ps) ops = true) :
    ∀ (i : Nat) (p : Params) (m : MState), ps[i]? = some p → (runSys ps cap ops).ms[i]? = some m →
      ∀ f ∈ m.evs, GoodFlag p m.released m.today f ∧ (f.route = .instant → f.tagAtFlag ≤ f.recDate) := by
  have h0 : SysInvC ps (initSys ps) := by
    intro i p m hp hm
    simp only [initSys, List.getElem?_map] at hm
    cases hpi : ps[i]? with
    | none => simp [hpi] at hm
    | some q =>
      simp only [hpi, Option.map_some, Option.some.injEq] at hm
      subst hm
      exact invC_init False p
  have h := foldl_sysInvC ps cap ops _ h0 hw
  intro i p m hp hm f hf
  have hg := (h i p m hp hm).evsOK f hf
  refine ⟨hg, ?_⟩
  intro hr
  obtain ⟨_, _, _, _, h5, _⟩ := hg
  unfold RouteOK at h5; rw [hr] at h5; exact h5.2.2.2

/-- ... and each flag still leads to at most one follow-up survey: for any number of screening
methods and any history, completed + withdrawn + outstanding requests of a site never exceed the
number of times the site was flagged (the duplicate requests of F13 are each backed by a flag) -/
theorem C09_done_le_flags_any_methods (ps : List Params) (cap : Nat) (ops : List Op) (s : Nat) :
    (runSys ps cap ops).sh.done s + (runSys ps cap ops).sh.dropped s
      + outstanding (runSys ps cap ops).sh.queue s ≤ (runSys ps cap ops).sh.flags s ∧
    (runSys ps cap ops).sh.done s ≤ (runSys ps cap ops).sh.flags s := by
  have key : ∀ (ops : List Op) (sy : Sys), K sy.sh → K (ops.foldl (stepSys ps cap) sy).sh := by
    intro ops
    induction ops with
    | nil => intro sy h; exact h
    | cons op t ih =>
      intro sy h
      apply ih
      cases op with
      | screen i s r d =>
        cases hm : sy.ms[i]? with
        | none => simpa [stepSys, hm] using h
        | some m => simpa [stepSys, hm] using h
      | update i d =>
        cases hp : ps[i]? with
        | none => simpa [stepSys, hp] using h
        | some p =>
          cases hm : sy.ms[i]? with
          | none => simpa [stepSys, hp, hm] using h
          | some m => simpa [stepSys, hp, hm] using dailyUpdate_K p d { m := m, sh := sy.sh } h
      | fuDay d outs => exact followUpDay_K cap d outs sy.sh h
      | tag s d => exact h
  have h0 : K (initSys ps).sh := by intro s; simp [initSys, outstanding]
  have := key ops (initSys ps) h0 s
  unfold runSys
  exact ⟨this, by omega⟩

/-- does the operation belong to screening method `j`? -/
def ownedBy (j : Nat) : Op → Bool
  | .screen i _ _ _ => i == j
  | .update i _ => i == j
  | _ => false

/-- frame: what a screening method owns (candidate pool, in-pool flags, first-candidate date, counter,
detection records, its ghost log) is touched by its own operations only — operations of another
screening method, follow-up days and tagging surveys leave it exactly as it is.  (A code change that
makes e.g. the detection records a class-level container breaks the correspondence of every
two-method and every interleaved history.) -/
theorem methods_independent (ps : List Params) (cap : Nat) (sy : Sys) (op : Op) (j : Nat)
    (h : ownedBy j op = false) : (stepSys ps cap sy op).ms[j]? = sy.ms[j]? := by
  cases op with
  | screen i s r d =>
    have hij : i ≠ j := by simpa [ownedBy] using h
    cases hm : sy.ms[i]? with
    | none => simp [stepSys, hm]
    | some m => simp [stepSys, hm, List.getElem?_set, hij]
  | update i d =>
    have hij : i ≠ j := by simpa [ownedBy] using h
    cases hp : ps[i]? with
    | none => simp [stepSys, hp]
    | some p =>
      cases hm : sy.ms[i]? with
      | none => simp [stepSys, hp, hm]
      | some m => simp [stepSys, hp, hm, List.getElem?_set, hij]
  | fuDay d outs => rfl
  | tag s d => rfl

/-- ... over whole histories: the state of method `j` after any history equals its state after the
sub-history of its own operations as far as other methods' operations are concerned (they can be
dropped one by one from the front of a block that contains none of `j`'s operations) -/
theorem methods_independent_block (ps : List Params) (cap : Nat) (ops : List Op) (sy : Sys) (j : Nat)
    (h : ∀ op ∈ ops, ownedBy j op = false) : (ops.foldl (stepSys ps cap) sy).ms[j]? = sy.ms[j]? := by
  induction ops generalizing sy with
  | nil => rfl
  | cons op t ih =>
    simp only [List.foldl_cons]
    rw [ih _ (fun x hx => h x (by simp [hx])), methods_independent ps cap sy op j (h op (by simp))]

/-! ### counterexamples (known findings) -/

/-- two mobile screening methods (threshold 4, delay 1, no reporting delay) on one follow-up method -/
def cexParams : Params := { thr := 4, delay := 1, prop := 1 }

/-- both screen site 0 on day 0, both update on days 0 and 1 -/
def cexOps : List Op :=
  [.screen 0 0 8 0, .update 0 0, .screen 1 0 6 0, .update 1 0, .update 0 1, .update 1 1]

/-- F13: the full statement is false — with two screening methods bound to the same follow-up method
the site sits in both candidate pools (the in-pool flags are per method), the first decision queues
it and sets the shared in-queue flag, the second decision queues it again: two outstanding requests
for one site. -/
theorem C09_counterexample : ¬ C09_statement := by
  intro h
  unfold C09_statement at h
  have := (h [cexParams, cexParams] 1 cexOps (by decide +kernel)).1 0
  revert this
  decide +kernel

/-- one mobile screening method, delay 3: site 0 screened on day 0 (pooled on day 0), another
tagging method surveys the site on day 1, the decision of day 3 flags it all the same -/
def staleOps : List Op1 :=
  [.screen 0 8 0, .update 0, .tag 0 1, .update 1, .update 2, .update 3]

def staleParams : Params := { thr := 4, delay := 3, prop := 1 }

/-- F17: the stale clause at full strength is false even for a single screening method — a
candidate already pooled is not withdrawn by a later tagging survey of the site (the check is made
only when the record is released): the flag of day 3 rests on a screening of day 0, the site's
latest tagging survey is of day 1. -/
theorem C09_stale_counterexample :
    ¬ (∀ (p : Params) (cap : Nat) (ops : List Op1), WellDated p cap {} ops →
        ∀ f ∈ (run1 p cap ops).m.evs, f.tagAtFlag ≤ f.recDate) := by
  intro h
  have := h staleParams 1 staleOps (by decide +kernel)
  revert this
  decide +kernel

/-! ### non-vacuity -/

/-- a history satisfying the hypotheses of the theorems in which things happen: site 0 is flagged
through the pool (proportion 1/2 of two candidates keeps the larger one), site 2 through the
instant threshold, the follow-up method completes site 2 and is interrupted at site 0 -/
example :
    let p : Params := { thr := 4, delay := 1, prop := 1/2, inst := some 20, rd := 1 }
    let ops : List Op1 :=
      [.screen 0 8 0, .screen 1 6 0, .screen 2 32 0, .update 0, .update 1,
       .fuDay 1 (fun s => if s = 2 then .complete else .unattended),
       .update 2, .fuDay 2 (fun _ => .inProgress)]
    WellDated p 1 {} ops ∧
    (run1 p 1 ops).m.evs.map (fun f => (f.site, f.route, f.recDate, f.day)) =
      [(2, Route.instant, 0, 1), (0, Route.pool, 0, 2)] ∧
    (run1 p 1 ops).sh.queue.map (fun e => (e.cls, e.plan.site)) = [(1, 0)] ∧
    (run1 p 1 ops).sh.done 2 = 1 ∧ (run1 p 1 ops).m.inPool 1 = false := by
  decide +kernel

example : wellDatedSys [cexParams, cexParams] 1 (initSys [cexParams, cexParams]) cexOps = true ∧
    outstanding (runSys [cexParams, cexParams] 1 cexOps).sh.queue 0 = 2 := by
  decide +kernel

end LdarModel.FollowUp
