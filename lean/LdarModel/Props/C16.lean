import LdarModel.Lemmas.Gen
import LdarModel.Lemmas.Units
import LdarModel.Generated.Units
import LdarModel.Generated.EmisSeed
import LdarModel.Generated.GenState
import LdarModel.Generated.SimNumber
import LdarModel.Generated.GenMarker
import Mathlib.Data.List.Perm.Subperm
import Mathlib.Data.List.Range
import Mathlib.Data.List.Nodup
/-
C16 — generated emissions respect their parameters, units and replicate independence.

Models: `Model/Gen.lean` (`generate`, `genSeeds`, `scenarios`), `Model/Units.lean` (`gasConvert`,
`convertD`, `unitConversion`, `sampleRate`, `distRate`, `toUnit`, `Consistent`).
Tables regenerated from /repo on every run: `Generated/Units.lean` (conversion dictionaries,
defaults and body literals of gas_convert), `Generated/EmisSeed.lean` (randint range of gen_seed_emis).

Generation clauses are over every pair of Bernoulli outcome lists, duration, multi-emission flag and
pre-simulation setting; the period is day `0 .. N-1` with `N = sim.length`.
-/
namespace LdarModel.C16
open LdarModel.Gen LdarModel.Units

/-! ### statement -/

/-- the generation half: date bounds, no pre-period emissions when disabled, no overlap for
single-emission sources, unique ids, pending list in start-date order -/
def GenClauses : Prop :=
  ∀ (pre sim : List Bool) (dur : Nat) (multi preEnabled : Bool),
    (∀ e ∈ generate pre sim dur multi preEnabled,
        -(dur : Int) ≤ e.start ∧ e.start ≤ (sim.length : Int) - 1)
    ∧ (preEnabled = false → ∀ e ∈ generate pre sim dur multi preEnabled, 0 ≤ e.start)
    ∧ (multi = false →
        (popOrder (generate pre sim dur multi preEnabled)).Pairwise
          (fun a b => a.start + (dur : Int) < b.start))
    ∧ ((generate pre sim dur multi preEnabled).map (·.id)).Nodup
    ∧ ((popOrder (generate pre sim dur multi preEnabled)).map (·.start)).Pairwise (· < ·)

/-- the unit half, for a table `T`: a rate written in any SI-defined unit comes out as the same
g/s value through both kinds of rate source, and no rate exceeds the converted maximum -/
def UnitClauses (T : Table) : Prop :=
  (∀ (m i : String) (s cap xs xc : Rat), toUnit m i s = some xs → toUnit m i cap = some xc →
      sampleRate T m i xs xc = some (capAt cap s) ∧ distRate T m i xs xc = some (capAt cap s))
  ∧ (∀ (m i : String) (s cap r : Rat), sampleRate T m i s cap = some r →
      ∃ c, unitConversion T m i cap = some c ∧ r ≤ c)
  ∧ (∀ (m i : String) (d cap r : Rat), distRate T m i d cap = some r →
      ∃ c, convertD T m i cap = some c ∧ r ≤ c)

/-- the replicate half: whatever `randint` returns inside its range, the per-simulation seeds are
pairwise distinct (so that different simulation numbers start from different generator states) -/
def SeedsDistinct (lo hi : Nat) : Prop :=
  ∀ (draws : List Nat) (nSim : Nat), (∀ d ∈ draws, lo ≤ d ∧ d < hi) → nSim ≤ draws.length →
    (genSeeds [] draws nSim).Nodup

/-- C16 at full strength, for the tables of the current source tree -/
def C16_statement : Prop :=
  GenClauses ∧ UnitClauses Generated.Units.table
    ∧ SeedsDistinct Generated.EmisSeed.seedLow Generated.EmisSeed.seedHigh

/-! ### generation -/

theorem mem_generate {pre sim : List Bool} {dur : Nat} {multi preEnabled : Bool} {e : Em}
    (h : e ∈ generate pre sim dur multi preEnabled) :
    e ∈ prePart pre dur multi preEnabled ∨ e ∈ simPart pre sim dur multi preEnabled := by
  unfold generate at h
  rw [List.mem_reverse, created_eq, List.mem_append] at h
  exact h

/-- every generated emission starts between (period start − duration) and the period end -/
theorem date_bounds (pre sim : List Bool) (dur : Nat) (multi preEnabled : Bool) :
    ∀ e ∈ generate pre sim dur multi preEnabled,
      -(dur : Int) ≤ e.start ∧ e.start ≤ (sim.length : Int) - 1 := by
  intro e he
  rcases mem_generate he with h | h
  · have := prePart_bounds pre dur multi preEnabled e h; omega
  · have := simPart_bounds pre sim dur multi preEnabled e h; omega

/-- none starts before the period when pre-simulation emissions are disabled -/
theorem no_presim_when_disabled (pre sim : List Bool) (dur : Nat) (multi : Bool) :
    ∀ e ∈ generate pre sim dur multi false, 0 ≤ e.start := by
  intro e he
  rcases mem_generate he with h | h
  · simp [prePart] at h
  · exact (simPart_bounds pre sim dur multi false e h).1

theorem popOrder_generate (pre sim : List Bool) (dur : Nat) (multi preEnabled : Bool) :
    popOrder (generate pre sim dur multi preEnabled) = created pre sim dur multi preEnabled := by
  simp [popOrder, generate]

/-- `generate_sorted` (used by C01): popping the pending list from its end yields the emissions in
strictly increasing start-date order — `Source.activate_emissions` may stop at the first emission
that is not yet due -/
theorem generate_sorted (pre sim : List Bool) (dur : Nat) (multi preEnabled : Bool) :
    ((popOrder (generate pre sim dur multi preEnabled)).map (·.start)).Pairwise (· < ·) := by
  rw [popOrder_generate, created_eq, List.map_append, List.pairwise_append]
  refine ⟨prePart_sorted pre dur multi preEnabled, simPart_sorted pre sim dur multi preEnabled, ?_⟩
  intro a ha b hb
  obtain ⟨ea, hea, rfl⟩ := List.mem_map.mp ha
  obtain ⟨eb, heb, rfl⟩ := List.mem_map.mp hb
  have := prePart_bounds pre dur multi preEnabled ea hea
  have := simPart_bounds pre sim dur multi preEnabled eb heb
  omega

/-- the stored list itself is in strictly decreasing start-date order -/
theorem generate_descending (pre sim : List Bool) (dur : Nat) (multi preEnabled : Bool) :
    ((generate pre sim dur multi preEnabled).map (·.start)).Pairwise (· > ·) := by
  have h := generate_sorted pre sim dur multi preEnabled
  unfold popOrder at h
  rw [List.map_reverse, List.pairwise_reverse] at h
  exact h

/-- a source that cannot hold multiple emissions: any two of its emissions start more than
`dur` days apart (the later one starts after start + duration of the earlier one) -/
theorem no_overlap_single (pre sim : List Bool) (dur : Nat) (preEnabled : Bool) :
    (popOrder (generate pre sim dur false preEnabled)).Pairwise
      (fun a b => a.start + (dur : Int) < b.start) := by
  rw [popOrder_generate, created_eq, List.pairwise_append]
  have hg := simLoop_gap dur (hits sim 0) (lastAfterPre dur false (prePart pre dur false preEnabled))
    (prePart pre dur false preEnabled).length
  refine ⟨?_, hg.2, ?_⟩
  · -- at most one pre-period emission
    have hl : (prePart pre dur false preEnabled).length ≤ 1 := by
      unfold prePart; split
      · exact preLoop_single_length _ _
      · simp
    match hp : prePart pre dur false preEnabled, hl with
    | [], _ => simp
    | [_], _ => simp
  · intro a ha b hb
    have hb' := hg.1 b hb
    have hl : (prePart pre dur false preEnabled).length ≤ 1 := by
      unfold prePart; split
      · exact preLoop_single_length _ _
      · simp
    match hp : prePart pre dur false preEnabled, hl with
    | [], _ => rw [hp] at ha; simp at ha
    | [x], _ =>
      rw [hp] at ha hb'
      simp only [List.mem_singleton] at ha
      subst ha
      simpa [lastAfterPre] using hb'

/-- emission identifiers are unique per source and simulation: they are `0 .. n-1` in creation order -/
theorem ids_unique (pre sim : List Bool) (dur : Nat) (multi preEnabled : Bool) :
    ((generate pre sim dur multi preEnabled).map (·.id)).Nodup := by
  unfold generate
  rw [List.map_reverse, List.nodup_reverse, created_ids]
  exact List.nodup_range

theorem ids_are_creation_index (pre sim : List Bool) (dur : Nat) (multi preEnabled : Bool) :
    (popOrder (generate pre sim dur multi preEnabled)).map (·.id)
      = List.range (generate pre sim dur multi preEnabled).length := by
  rw [popOrder_generate, created_ids]; simp [generate]

theorem gen_clauses : GenClauses := by
  intro pre sim dur multi preEnabled
  refine ⟨date_bounds pre sim dur multi preEnabled, ?_, ?_, ids_unique pre sim dur multi preEnabled,
    generate_sorted pre sim dur multi preEnabled⟩
  · intro h; subst h; exact no_presim_when_disabled pre sim dur multi
  · intro h; subst h; exact no_overlap_single pre sim dur preEnabled

/-! ### units -/

/-- the converter is linear (homogeneous) in the quantity, failures included -/
theorem convert_linear (T : Table) (m i : String) (c q : Rat) :
    convertD T m i (c * q) = (convertD T m i q).map (c * ·) :=
  convertD_scale T m i c q

theorem unit_conversion_linear (T : Table) (m i : String) (c q : Rat) :
    unitConversion T m i (c * q) = (unitConversion T m i q).map (c * ·) := by
  unfold unitConversion
  split
  · simp
  · exact convertD_scale T m i c q

/-- unit invariance: under a consistent table a physical rate written in any SI-defined mass unit
per second/minute/hour/day converts back to the same g/s value -/
theorem unit_invariance (T : Table) (hC : Consistent T) (m i : String) (q x : Rat)
    (hx : toUnit m i q = some x) : unitConversion T m i x = some q := by
  unfold unitConversion
  split
  · rename_i h
    obtain ⟨hg, hs⟩ := consistent_names hC
    rw [hg, hs] at h
    obtain ⟨rfl, rfl⟩ := h
    have : toUnit "gram" "second" q = some q := by
      unfold toUnit siGrams siSeconds; simp
    rw [this] at hx
    exact hx.symm ▸ rfl
  · exact convertD_toUnit T hC m i q x hx

/-- … and therefore both kinds of rate source yield the same capped g/s rate whatever the unit -/
theorem rate_invariance (T : Table) (hC : Consistent T) (m i : String) (s cap xs xc : Rat)
    (hs : toUnit m i s = some xs) (hc : toUnit m i cap = some xc) :
    sampleRate T m i xs xc = some (capAt cap s) ∧ distRate T m i xs xc = some (capAt cap s) := by
  constructor
  · unfold sampleRate
    simp [unit_invariance T hC m i s xs hs, unit_invariance T hC m i cap xc hc]
  · unfold distRate
    exact convertD_toUnit T hC m i _ _ (toUnit_capAt hc hs)

/-- a sampled rate never exceeds the declared maximum (both in g/s) -/
theorem cap_respected (T : Table) (m i : String) (s cap r : Rat)
    (h : sampleRate T m i s cap = some r) : ∃ c, unitConversion T m i cap = some c ∧ r ≤ c := by
  unfold sampleRate at h
  simp only [Option.bind_eq_bind] at h
  cases hs : unitConversion T m i s with
  | none => simp [hs] at h
  | some s' =>
    cases hc : unitConversion T m i cap with
    | none => simp [hs, hc] at h
    | some c =>
      simp only [hs, hc, Option.bind_some, Option.some.injEq] at h
      exact ⟨c, rfl, h ▸ capAt_le c s'⟩

/-- a rate drawn from a distribution never exceeds the declared maximum converted to g/s, for any
table with positive entries -/
theorem cap_respected_dist (T : Table) (hP : Pos T) (m i : String) (d cap r : Rat)
    (h : distRate T m i d cap = some r) : ∃ c, convertD T m i cap = some c ∧ r ≤ c := by
  unfold distRate at h
  have hf := convertD_eq_factor T m i (capAt cap d)
  cases hfac : factor T m i with
  | none => rw [hfac] at hf; rw [hf] at h; simp at h
  | some f =>
    have hc : convertD T m i cap = some (cap * f) := by
      rw [convertD_eq_factor, hfac]; rfl
    exact ⟨cap * f, hc, convertD_mono T hP m i (capAt_le cap d) h hc⟩

/-! ### table obligations (re-opened whenever /repo changes the dictionaries) -/

/-- every entry the positivity argument needs is positive -/
theorem Units.table_positive : Pos Generated.Units.table :=
  { inM := by decide +kernel, outM := by decide +kernel, inc := by decide +kernel,
    sub := by decide +kernel, gas := by decide +kernel, gpt := by decide +kernel,
    args := { gwp := by decide +kernel, ng := by decide +kernel, pres := by decide +kernel,
              temp := by decide +kernel } }

/-- every supported (metric, increment) pair converts (no missing key, no zero divisor) with a
positive factor -/
theorem Units.all_pairs_convert :
    ∀ m ∈ Generated.Units.table.inMetrics, ∀ i ∈ Generated.Units.table.increments,
      ∃ f, factor Generated.Units.table m.name i.1 = some f ∧ 0 < f := by
  have h : (Generated.Units.table.inMetrics.all fun m =>
      Generated.Units.table.increments.all fun i =>
        match factor Generated.Units.table m.name i.1 with
        | some f => decide (0 < f)
        | none => false) = true := by decide +kernel
  intro m hm i hi
  have := List.all_eq_true.mp (List.all_eq_true.mp h m hm) i hi
  split at this
  · rename_i f hf; exact ⟨f, hf, of_decide_eq_true this⟩
  · simp at this

/-- NOT coverage of the clause (private, not counted as an obligation): what a repair of the
seconds-per-year entry would restore — with `365 · 86400` in place of the tabulated value the table
would be consistent … -/
private theorem Units.consistent_with_exact_second :
    Consistent (withSecond Generated.Units.table (365 * 86400)) := by decide +kernel

/-- … and with the tabulated value it is not (known finding F10b: `increments["second"]` is
31 540 000, sixty times the minutes-per-year entry is 31 536 000) -/
theorem Units.not_consistent : ¬ Consistent Generated.Units.table := by decide +kernel

/-- exact size of the deviation on the SI-defined units: per-second input is exact, every other
increment is off by the factor 31 536 000 / 31 540 000 = 7884/7885 -/
theorem Units.si_drift :
    ∀ m ∈ ["gram", "kilogram", "tonne"], ∀ i ∈ ["second", "minute", "hour", "day"],
      (do let x ← toUnit m i 1; convertD Generated.Units.table m i x)
        = some (if i = "second" then 1 else 7884 / 7885) := by decide +kernel

/-- the unit half of the statement is false for the current table: 3.6 kg/h is 1 g/s, the
converter returns 7884/7885 g/s -/
theorem unit_invariance_counterexample : ¬ UnitClauses Generated.Units.table := by
  intro h
  have := (h.1 "kilogram" "hour" 1 2 (18 / 5) (36 / 5) (by decide +kernel) (by decide +kernel)).1
  revert this
  decide +kernel

/-- what does hold of the current table: the two cap clauses -/
theorem unit_clauses_partial :
    (∀ (m i : String) (s cap r : Rat), sampleRate Generated.Units.table m i s cap = some r →
      ∃ c, unitConversion Generated.Units.table m i cap = some c ∧ r ≤ c)
    ∧ (∀ (m i : String) (d cap r : Rat), distRate Generated.Units.table m i d cap = some r →
      ∃ c, convertD Generated.Units.table m i cap = some c ∧ r ≤ c) :=
  ⟨cap_respected _, cap_respected_dist _ Units.table_positive⟩

/-- NOT coverage (private): the full unit half would hold for a table with the exact
seconds-per-year entry — a table the code does not have -/
private theorem unit_clauses_with_exact_second :
    UnitClauses (withSecond Generated.Units.table (365 * 86400)) := by
  refine ⟨fun m i s cap xs xc hs hc =>
      rate_invariance _ Units.consistent_with_exact_second m i s cap xs xc hs hc,
    cap_respected _, cap_respected_dist _ ?_⟩
  exact
    { inM := by decide +kernel, outM := by decide +kernel, inc := by decide +kernel,
      sub := by decide +kernel, gas := by decide +kernel, gpt := by decide +kernel,
      args := { gwp := by decide +kernel, ng := by decide +kernel, pres := by decide +kernel,
                temp := by decide +kernel } }

/-! ### what holds of the REAL table, for every quantity -/

/-- drift factor of the current table on the SI-defined units: per-second input is exact, every
other increment comes out multiplied by 31 536 000 / 31 540 000 -/
def driftK (i : String) : Rat := if i = "second" then 1 else 7884 / 7885

theorem driftK_pos (i : String) : 0 < driftK i := by
  unfold driftK; split <;> norm_num

/-- for ALL q: a rate of `q` g/s written in an SI-defined unit converts to exactly
`driftK i · q` g/s with the table of the current tree (`Units.si_drift` + `convert_linear`) -/
theorem si_drift_all (m i : String) (q x : Rat) (hx : toUnit m i q = some x) :
    convertD Generated.Units.table m i x = some (driftK i * q) := by
  obtain ⟨g, s, hg, hs, rfl⟩ := toUnit_eq_some hx
  have hm : m ∈ ["gram", "kilogram", "tonne"] := by
    rcases siGrams_cases hg with ⟨rfl, _⟩ | ⟨rfl, _⟩ | ⟨rfl, _⟩ <;> simp
  have hi : i ∈ ["second", "minute", "hour", "day"] := by
    rcases siSeconds_cases hs with ⟨rfl, _⟩ | ⟨rfl, _⟩ | ⟨rfl, _⟩ | ⟨rfl, _⟩ <;> simp
  have h1 := Units.si_drift m hm i hi
  have ht : toUnit m i 1 = some (1 / g * s) := by simp [toUnit, hg, hs]
  simp only [ht, Option.bind_eq_bind, Option.bind_some, bind] at h1
  rw [show q / g * s = q * (1 / g * s) by ring, convert_linear, h1]
  simp only [Option.map_some, driftK]
  congr 1
  split <;> ring

theorem capAt_scale (k cap x : Rat) (hk : 0 < k) : capAt (k * cap) (k * x) = k * capAt cap x := by
  unfold capAt
  by_cases h : x > cap
  · have : k * x > k * cap := mul_lt_mul_of_pos_left h hk
    simp [h, this]
  · have : ¬ (k * x > k * cap) := by
      intro hh
      exact h (lt_of_mul_lt_mul_left hh (le_of_lt hk))
    simp [h, this]

theorem unit_conversion_real (m i : String) (q x : Rat) (hx : toUnit m i q = some x) :
    unitConversion Generated.Units.table m i x = some (driftK i * q) := by
  unfold unitConversion
  split
  · rename_i h
    have hg : Generated.Units.table.gramName = "gram" := by decide +kernel
    have hs : Generated.Units.table.secondName = "second" := by decide +kernel
    rw [hg, hs] at h
    obtain ⟨rfl, rfl⟩ := h
    have : toUnit "gram" "second" q = some q := by
      unfold toUnit siGrams siSeconds; simp
    rw [this] at hx
    cases hx
    simp [driftK]
  · exact si_drift_all m i q x hx

/-- the clause "g/s whatever the unit" as it holds of the code's own table, for every population:
both kinds of rate source return `driftK i` times the capped physical rate … -/
theorem real_table_rates (m i : String) (s cap xs xc : Rat)
    (hs : toUnit m i s = some xs) (hc : toUnit m i cap = some xc) :
    sampleRate Generated.Units.table m i xs xc = some (driftK i * capAt cap s)
    ∧ distRate Generated.Units.table m i xs xc = some (driftK i * capAt cap s) := by
  constructor
  · unfold sampleRate
    simp only [unit_conversion_real m i s xs hs, unit_conversion_real m i cap xc hc,
      Option.bind_eq_bind, Option.bind_some]
    rw [capAt_scale _ _ _ (driftK_pos i)]
  · unfold distRate
    exact si_drift_all m i _ _ (toUnit_capAt hc hs)

/-- … hence files written in SI units with the SAME time unit give identical rates (exact unit
invariance across gram/kilogram/tonne), and per-second files give the physical rates -/
theorem same_increment_same_rates (m₁ m₂ i : String) (s cap x₁ c₁ x₂ c₂ : Rat)
    (h₁ : toUnit m₁ i s = some x₁) (hc₁ : toUnit m₁ i cap = some c₁)
    (h₂ : toUnit m₂ i s = some x₂) (hc₂ : toUnit m₂ i cap = some c₂) :
    sampleRate Generated.Units.table m₁ i x₁ c₁ = sampleRate Generated.Units.table m₂ i x₂ c₂
    ∧ distRate Generated.Units.table m₁ i x₁ c₁ = distRate Generated.Units.table m₂ i x₂ c₂ := by
  have a := real_table_rates m₁ i s cap x₁ c₁ h₁ hc₁
  have b := real_table_rates m₂ i s cap x₂ c₂ h₂ hc₂
  exact ⟨a.1.trans b.1.symm, a.2.trans b.2.symm⟩

theorem per_second_rates_exact (m : String) (s cap xs xc : Rat)
    (hs : toUnit m "second" s = some xs) (hc : toUnit m "second" cap = some xc) :
    sampleRate Generated.Units.table m "second" xs xc = some (capAt cap s)
    ∧ distRate Generated.Units.table m "second" xs xc = some (capAt cap s) := by
  have h := real_table_rates m "second" s cap xs xc hs hc
  simpa [driftK] using h

/-- exact size of known finding F10d: one mscf converts to 353147/353100 of what 1000 cubic feet
convert to (per second, hence for every increment by `Units.all_pairs_convert`'s factors) -/
theorem Units.mscf_drift :
    (do let a ← factor Generated.Units.table "mscf" "second"
        let b ← factor Generated.Units.table "cubic feet" "second"
        pure (a / (1000 * b))) = some ((353147 : Rat) / 353100) := by decide +kernel

/-! ### independent definitions of the non-SI units (tolerance-bounded table obligations) -/

/-- `|x − exact| ≤ tol · exact` -/
def relWithin (x exact tol : Rat) : Bool :=
  decide (x - exact ≤ tol * exact) && decide (exact - x ≤ tol * exact)

def perUnitOf (l : List Metric) (k : String) : Option Rat := (lookupM l k).map (·.perUnit)

/-- check of one table (in or out metrics) against the legal / SI definitions:
pound = 0.45359237 kg, foot = 0.3048 m, liter = 1/1000 m³ -/
def metricsWithin (l : List Metric) (tol : Rat) : Bool :=
  (match perUnitOf l "pound" with
    | some x => relWithin x ((1000000 : Rat) / (45359237 / 100000)) tol | none => false)
  && (match perUnitOf l "cubic feet" with
    | some x => relWithin x (1 / ((381 : Rat) / 1250) ^ 3) tol | none => false)
  && (perUnitOf l "liter" == some 1000) && (perUnitOf l "cubic meter" == some 1)

def mscfWithin (l : List Metric) (tol : Rat) : Bool :=
  match perUnitOf l "mscf" with
  | some x => relWithin x (1 / (1000 * ((381 : Rat) / 1250) ^ 3)) tol | none => false

/-- pound, cubic feet, liter, cubic meter (both tables) agree with their independent definitions
within 2·10⁻⁶ (the rounding of six tabulated digits); week = 365/7 per year within 2·10⁻⁶,
month = 12 and year = 1 exactly.  A typo in one of these entries breaks this theorem. -/
theorem Units.non_si_entries_within_tolerance :
    metricsWithin Generated.Units.table.inMetrics (2 / 1000000) = true
    ∧ metricsWithin Generated.Units.table.outMetrics (2 / 1000000) = true
    ∧ (match lookupR Generated.Units.table.increments "week" with
        | some w => relWithin w ((365 : Rat) / 7) (2 / 1000000) | none => false) = true
    ∧ lookupR Generated.Units.table.increments "month" = some 12
    ∧ lookupR Generated.Units.table.increments "year" = some 1 := by decide +kernel

/-- mscf is tabulated to four digits only: within 2·10⁻⁴ of 1/(1000 ft³) but NOT within 2·10⁻⁶
(the root of known finding F10d) -/
theorem Units.mscf_entry_coarse :
    mscfWithin Generated.Units.table.inMetrics (2 / 10000) = true
    ∧ mscfWithin Generated.Units.table.outMetrics (2 / 10000) = true
    ∧ mscfWithin Generated.Units.table.inMetrics (2 / 1000000) = false := by decide +kernel

/-! ### replicate independence -/

/-- distinct seeds give distinct generator streams (the generator is modelled as an injective map
from seed to stream), hence pairwise different Bernoulli inputs for the simulations -/
theorem distinct_scenarios_partial (stream : Nat → List Bool × List Bool)
    (hinj : Function.Injective stream) (seeds : List Nat) (hn : seeds.Nodup) :
    (seeds.map stream).Nodup :=
  List.Nodup.map hinj hn

/-- equal seeds give equal scenarios: simulation numbers `a` and `b` receive the same emissions -/
theorem same_seed_same_scenario (stream : Nat → List Bool × List Bool) (seeds : List Nat)
    (dur : Nat) (multi preEnabled : Bool) (a b : Nat) (ha : a < seeds.length) (hb : b < seeds.length)
    (h : seeds[a] = seeds[b]) :
    (scenarios stream seeds dur multi preEnabled)[a]'(by simpa [scenarios] using ha)
      = (scenarios stream seeds dur multi preEnabled)[b]'(by simpa [scenarios] using hb) := by
  simp [scenarios, h]

/-- pigeonhole: once there are more simulations than values in the `randint` range, two
simulation numbers are certain to share a seed -/
theorem seeds_collide_beyond_range (lo hi : Nat) (draws : List Nat) (nSim : Nat)
    (hr : ∀ d ∈ draws, lo ≤ d ∧ d < hi) (hlen : nSim ≤ draws.length) (hbig : hi - lo < nSim) :
    ¬ (genSeeds [] draws nSim).Nodup := by
  intro hn
  unfold genSeeds at hn
  have hpos : 0 < nSim := by omega
  simp only [List.length_nil, hpos, ↓reduceIte, List.nil_append, Nat.sub_zero] at hn
  have hn' : ((draws.take nSim).map (· - lo)).Nodup := by
    refine List.Nodup.map_on ?_ hn
    intro x hx y hy hxy
    have := (hr x (List.mem_of_mem_take hx)).1
    have := (hr y (List.mem_of_mem_take hy)).1
    omega
  have hs : (draws.take nSim).map (· - lo) ⊆ List.range (hi - lo) := by
    intro d hd
    obtain ⟨x, hx, rfl⟩ := List.mem_map.mp hd
    have := hr x (List.mem_of_mem_take hx)
    exact List.mem_range.mpr (by omega)
  have hle := (List.subperm_of_subset hn' hs).length_le
  simp only [List.length_map, List.length_take, List.length_range] at hle
  omega

/-- the seed procedure of the current tree does not guarantee distinct seeds (known finding F10c):
two simulations, `randint` returns 7 twice -/
theorem seeds_distinct_counterexample :
    ¬ SeedsDistinct Generated.EmisSeed.seedLow Generated.EmisSeed.seedHigh := by
  intro h
  have := h [7, 7] 2 (by decide) (by decide)
  revert this
  decide


/-! ### extending a generator folder

`initRun` takes the seed index the loops use as a parameter (`idx`); the instance for the current
source tree is `Generated.EmisSeed.seedIdx`, extracted from the two loops of `initialize_emissions`.
The theorems need `idx fresh i nSaved n = i` on the simulation numbers a run writes; for the
extracted expressions that is the table obligation `EmisSeed.seed_index_is_simulation_number`. -/

/-- every stored simulation number carries the scenario of *its own* seed -/
def FolderGood {σ : Type} (seedAt : Nat → Nat) (scen : Nat → σ) (F : Folder σ) : Prop :=
  ∀ i, i < F.nSaved → F.files i = some (scen (seedAt i))

/-- the loops seed simulation `i` with entry `i` of the seed file -/
def IndexIsSimulationNumber (idx : SeedIdx) : Prop :=
  ∀ (fresh : Bool) (i nSaved n : Nat), i ∈ writes fresh nSaved n → idx fresh i nSaved n = i

theorem mem_writes {fresh : Bool} {nSaved n i : Nat} :
    i ∈ writes fresh nSaved n ↔ (if fresh then i < n else nSaved ≤ i ∧ i < n) := by
  unfold writes
  cases fresh
  · simp only [Bool.false_eq_true, ↓reduceIte]
    split
    · rw [List.mem_range'_1]; omega
    · simp; omega
  · simp

/-- table obligation: the index expressions extracted from BOTH loops of `initialize_emissions`
denote the simulation number itself (an extension loop indexing with `i - n_simulation_saved`
breaks this theorem) -/
theorem EmisSeed.seed_index_is_simulation_number :
    IndexIsSimulationNumber Generated.EmisSeed.seedIdx := by
  intro fresh i nSaved n h
  rw [mem_writes] at h
  unfold Generated.EmisSeed.seedIdx Generated.EmisSeed.seedIdxFresh Generated.EmisSeed.seedIdxExtend
  cases fresh <;> simp only [Bool.false_eq_true, ↓reduceIte] at h ⊢ <;> omega

theorem initRun_good {σ : Type} (idx : SeedIdx) (hidx : IndexIsSimulationNumber idx)
    (seedAt : Nat → Nat) (scen : Nat → σ) (fresh : Bool) (n : Nat)
    (F : Folder σ) (h : FolderGood seedAt scen F) :
    FolderGood seedAt scen (initRun idx seedAt scen fresh n F) := by
  intro i hi
  simp only [initRun] at hi ⊢
  by_cases hw : i ∈ writes fresh F.nSaved n
  · simp [hw, hidx fresh i F.nSaved n hw]
  · simp only [hw, ↓reduceIte]
    apply h
    rw [mem_writes] at hw
    cases fresh
    · simp only [Bool.false_eq_true, ↓reduceIte] at hi hw
      split at hi <;> omega
    · simp only [↓reduceIte] at hi hw
      omega

/-- seed-index property of the extension: after ANY history of fresh runs, extensions and smaller
runs on one generator folder, simulation number `i` holds the scenario generated under
`emis_preseed_val[i]` — provided the loops index the seed file with the simulation number -/
theorem extension_seed_index {σ : Type} (idx : SeedIdx) (hidx : IndexIsSimulationNumber idx)
    (seedAt : Nat → Nat) (scen : Nat → σ)
    (hist : List (Bool × Nat)) (F : Folder σ) (h : FolderGood seedAt scen F) :
    FolderGood seedAt scen (runHistory idx seedAt scen hist F) := by
  induction hist generalizing F with
  | nil => exact h
  | cons r rest ih => exact ih _ (initRun_good idx hidx seedAt scen r.1 r.2 F h)

/-- … for the index expressions of the current source tree -/
theorem extension_seed_index_generated {σ : Type} (seedAt : Nat → Nat) (scen : Nat → σ)
    (hist : List (Bool × Nat)) :
    FolderGood seedAt scen (runHistory Generated.EmisSeed.seedIdx seedAt scen hist Folder.empty) :=
  extension_seed_index _ EmisSeed.seed_index_is_simulation_number seedAt scen hist _
    (fun i hi => by simp [Folder.empty] at hi)

/-- the model CAN be wrong: with the extension loop indexing by `i - n_simulation_saved` a fresh
run with 2 simulations extended to 4 stores under simulation 2 the scenario of seed 0 -/
theorem extension_wrong_index_counterexample :
    ¬ FolderGood (fun i => i) id
        (runHistory (fun fresh i nSaved _ => if fresh then i else i - nSaved) (fun i => i) id
          [(true, 2), (false, 4)] Folder.empty) := by
  intro h
  have := h 2 (by decide)
  revert this
  decide

/-- a non-fresh run leaves the pickles of the pre-existing simulation numbers untouched
(whatever the index expression) -/
theorem extension_preserves_existing {σ : Type} (idx : SeedIdx) (seedAt : Nat → Nat) (scen : Nat → σ)
    (n : Nat) (F : Folder σ) (i : Nat) (hi : i < F.nSaved) :
    (initRun idx seedAt scen false n F).files i = F.files i := by
  have : i ∉ writes false F.nSaved n := by rw [mem_writes]; simp; omega
  simp [initRun, this]

/-- the seed trace of a run under the extracted index: simulation `i` is generated under
`seedAt i`, nothing else -/
theorem seedTrace_index (seedAt : Nat → Nat) (fresh : Bool) (nSaved n : Nat) :
    ∀ p ∈ seedTrace Generated.EmisSeed.seedIdx seedAt fresh nSaved n, p.2 = seedAt p.1 := by
  intro p hp
  obtain ⟨i, hi, rfl⟩ := List.mem_map.mp hp
  simp only [EmisSeed.seed_index_is_simulation_number fresh i nSaved n hi]

/-- hence, in a folder grown by any history, simulation numbers with different seeds hold
different scenarios as soon as different seeds give different scenarios -/
theorem extension_distinct {σ : Type} (seedAt : Nat → Nat) (scen : Nat → σ)
    (hinj : Function.Injective scen) (hist : List (Bool × Nat)) (i j : Nat)
    (hi : i < (runHistory Generated.EmisSeed.seedIdx seedAt scen hist Folder.empty).nSaved)
    (hj : j < (runHistory Generated.EmisSeed.seedIdx seedAt scen hist Folder.empty).nSaved)
    (hs : seedAt i ≠ seedAt j) :
    (runHistory Generated.EmisSeed.seedIdx seedAt scen hist Folder.empty).files i
      ≠ (runHistory Generated.EmisSeed.seedIdx seedAt scen hist Folder.empty).files j := by
  have hg := extension_seed_index_generated seedAt scen hist
  rw [hg i hi, hg j hj]
  intro h
  exact hs (hinj (Option.some.inj h))

/-- the seed file is append-only: growing it keeps the seed of every existing simulation number -/
theorem genSeeds_prefix (old draws : List Nat) (nSim : Nat) :
    ∃ t, genSeeds old draws nSim = old ++ t := by
  unfold genSeeds
  split
  · exact ⟨_, rfl⟩
  · exact ⟨[], by simp⟩

/-- non-vacuity: fresh run with 2, extension to 4, smaller run, extension to 5 -/
example :
    let F := runHistory Generated.EmisSeed.seedIdx (fun i => 10 * i + 7) id
      [(true, 2), (false, 4), (false, 1), (false, 5)] Folder.empty
    F.nSaved = 5 ∧ F.files 3 = some 37 ∧ F.files 4 = some 47 ∧ F.files 5 = none
    ∧ seedTrace Generated.EmisSeed.seedIdx (fun i => 10 * i + 7) false 2 4 = [(2, 27), (3, 37)] := by
  decide +kernel

/-! ### no state survives between cases in one process (table obligation)

The models are pure functions of their arguments: a generated scenario, a converted rate or a seed
list cannot depend on what was generated, converted or loaded before.  For the code that is the
content of this obligation on the table extracted from the five modelled modules: no class-level
mutable container, no cached function, the only module-level containers are the conversion
dictionaries and no function mutates them, the only copy/pickle hook is `Source.__reduce__`, and
its argument tuple lists the attributes in exactly the order `Source._reconstruct` stores them
(pickling round trip).  The same-process history runs of the check are the dynamic counterpart. -/
theorem GenState.no_cross_case_state :
    Generated.GenState.classLevelContainers = []
    ∧ Generated.GenState.cachedFunctions = []
    ∧ Generated.GenState.moduleContainerMutations = []
    ∧ Generated.GenState.moduleLevelContainers.all (fun p => p.1 == "unit_converter") = true
    ∧ Generated.GenState.copyHooks = [("sources", "Source", "__reduce__")]
    ∧ Generated.GenState.sourceReduceAttrs = Generated.GenState.sourceReconstructAttrs
    ∧ Generated.GenState.sourceReduceAttrs ≠ [] := by decide +kernel

/-! ### every requested simulation number is run exactly once (batches of five)

The scenario files are indexed by simulation number, so "different simulation numbers receive
different scenarios" also needs the manager to RUN the numbers `0 .. n-1`, each once. -/

/-- the numbering as written: `batch_count * 5 + simulation` -/
def stdNum : SimNum := fun b _ k => b * 5 + k

theorem simNumbersFrom_full_batches (m b : Nat) (tl : List Nat) :
    simNumbersFrom stdNum b (List.replicate m 5 ++ tl)
      = List.range' (b * 5) (m * 5) ++ simNumbersFrom stdNum (b + m) tl := by
  induction m generalizing b with
  | zero => simp
  | succ m ih =>
    rw [List.replicate_succ, List.cons_append, simNumbersFrom, ih (b + 1)]
    have h5 : (List.range 5).map (stdNum b 5) = List.range' (b * 5) 5 := by
      simp [stdNum, List.range'_eq_map_range]
    rw [h5, ← List.append_assoc]
    have : List.range' (b * 5) 5 ++ List.range' ((b + 1) * 5) (m * 5) = List.range' (b * 5) ((m + 1) * 5) := by
      have := @List.range'_append (b * 5) 5 (m * 5) 1
      simp only [Nat.one_mul] at this
      rw [show (b + 1) * 5 = b * 5 + 5 by omega, this]
      congr 1; omega
    rw [this]
    congr 2; omega

theorem simNumbersFrom_single (b c : Nat) :
    simNumbersFrom stdNum b [c] = List.range' (b * 5) c := by
  simp [simNumbersFrom, stdNum, List.range'_eq_map_range]

/-- for EVERY requested count `n` the numbers run with the code's numbering are exactly
`0, 1, …, n-1`, each once, in order -/
theorem numbers_run_exactly_once (n : Nat) : simNumbers stdNum n = List.range n := by
  unfold simNumbers batchSimulations
  by_cases h : n > 5
  · simp only [h, ↓reduceIte]
    rw [simNumbersFrom_full_batches]
    by_cases hr : n % 5 > 0
    · simp only [hr, ↓reduceIte, Nat.zero_add, Nat.zero_mul]
      rw [simNumbersFrom_single, List.range_eq_range']
      have := @List.range'_append 0 (n / 5 * 5) (n % 5) 1
      simp only [Nat.one_mul, Nat.zero_add] at this
      rw [this]
      congr 1
      have := Nat.div_add_mod n 5
      omega
    · simp only [hr, ↓reduceIte, Nat.zero_add, Nat.zero_mul, simNumbersFrom, List.append_nil]
      rw [List.range_eq_range']
      congr 1
      have := Nat.div_add_mod n 5
      omega
  · simp only [h, ↓reduceIte]
    rw [simNumbersFrom_single, List.range_eq_range']

/-- table obligation: the expressions extracted from BOTH run loops of `SimulationManager` are the
standard numbering on every batch the loops see (a numbering by the size of the current batch,
`batch_count * sim_count + simulation`, breaks this theorem) -/
theorem SimNumber.numbering_is_standard :
    ∀ b c k : Nat, Generated.SimNumber.simNumberDebug b c k = b * 5 + k
      ∧ Generated.SimNumber.simNumberPool b c k = b * 5 + k := by
  intro b c k
  unfold Generated.SimNumber.simNumberDebug Generated.SimNumber.simNumberPool
  constructor <;> omega

/-- … hence both execution modes of the current tree run `0 .. n-1`, each once, for every `n` -/
theorem numbers_run_generated (n : Nat) :
    simNumbers Generated.SimNumber.simNumberDebug n = List.range n
    ∧ simNumbers Generated.SimNumber.simNumberPool n = List.range n := by
  have hd : Generated.SimNumber.simNumberDebug = stdNum := by
    funext b c k; exact (SimNumber.numbering_is_standard b c k).1
  have hp : Generated.SimNumber.simNumberPool = stdNum := by
    funext b c k; exact (SimNumber.numbering_is_standard b c k).2
  rw [hd, hp]
  exact ⟨numbers_run_exactly_once n, numbers_run_exactly_once n⟩

/-- the model can be wrong: numbering by the size of the current batch runs 2 and 3 twice and
never 5 and 6 when seven simulations are requested (batches [5, 2]) -/
theorem batch_size_numbering_counterexample :
    simNumbers (fun b c k => b * c + k) 7 = [0, 1, 2, 3, 4, 2, 3]
    ∧ simNumbers (fun b c k => b * c + k) 7 ≠ List.range 7 := by decide

/-- non-vacuity: 11 simulations are three batches -/
example : batchSimulations 11 = [5, 5, 1] ∧ batchSimulations 5 = [5] ∧ batchSimulations 0 = [0]
    ∧ simNumbers stdNum 11 = List.range 11 := by decide

/-! ### a completed run hands out only scenarios generated under its own configuration,
whatever the kill point of the runs before it -/

/-- the marker vouches for the configuration in the hashes: if `n_sim_saved.p` says `m`, the stored
hashes name a configuration and scenario files `0 .. m-1` were all generated under it -/
def MarkerSound (F : GFolder) : Prop :=
  ∀ m, F.marker = some m → ∃ h, F.hashes = some h ∧ ∀ i, i < m → F.files i = some h

theorem markerSound_empty : MarkerSound GFolder.empty := by
  intro m h; simp [GFolder.empty] at h

/-- one run, killed anywhere or completed, keeps the marker sound — provided the marker is removed
in `initialize_infrastructure` before new hashes are written -/
theorem runG_markerSound (r : MarkerRemoval) (hr : r.inInfra = true) (c n : Nat) (kill : Kill)
    (F : GFolder) (hF : MarkerSound F) : MarkerSound (runG r c n kill F) := by
  have hinfra : MarkerSound (infraStep r c F).1 ∧
      ((infraStep r c F).2 = true → (infraStep r c F).1 = F ∧ F.hashes = some c ∧ F.marker.isSome = true) ∧
      ((infraStep r c F).2 = false → (infraStep r c F).1.marker = none ∧ (infraStep r c F).1.hashes = some c) := by
    unfold infraStep
    by_cases h : F.hashes = some c ∧ F.marker.isSome
    · rw [if_pos h]
      exact ⟨hF, fun _ => ⟨rfl, h.1, h.2⟩, fun hh => by simp at hh⟩
    · rw [if_neg h]
      refine ⟨?_, fun hh => by simp at hh, fun _ => ⟨by simp [hr], rfl⟩⟩
      intro m hm; simp [hr] at hm
  have hemis : ∀ cut, MarkerSound (emisStep r c n (infraStep r c F).2 cut (infraStep r c F).1) := by
    intro cut
    obtain ⟨hs, ht, hf⟩ := hinfra
    generalize infraStep r c F = p at *
    obtain ⟨F1, he⟩ := p
    simp only at hs ht hf ⊢
    unfold emisStep
    cases he
    · -- regeneration
      obtain ⟨hm0, hh0⟩ := hf rfl
      simp only [Bool.not_false, ↓reduceIte]
      generalize effCut cut n = cut
      cases cut with
      | some k =>
        intro m hm
        cases hri : r.inEmis <;> simp [hri, writeFiles, hm0] at hm
      | none =>
        intro m hm
        have hmn : m = n := by
          cases hri : r.inEmis <;> simp [hri, writeFiles] at hm <;> omega
        subst hmn
        refine ⟨c, ?_, ?_⟩
        · cases hri : r.inEmis <;> simp [hri, writeFiles, hh0]
        · intro i hi
          cases hri : r.inEmis <;> simp [hri, writeFiles, hi]
    · -- reuse / extension
      obtain ⟨hFe, hhc, _⟩ := ht rfl
      subst hFe
      simp only [Bool.not_true, Bool.false_eq_true, ↓reduceIte]
      cases hmk : F1.marker with
      | none => simpa [hmk] using hs
      | some m0 =>
        simp only
        obtain ⟨h0, hh, hfiles⟩ := hs m0 hmk
        have hc : h0 = c := by rw [hhc] at hh; exact (Option.some.inj hh).symm
        subst hc
        by_cases hlt : m0 < n
        · simp only [hlt, ↓reduceIte]
          generalize effCut cut (n - m0) = cut
          cases cut with
          | some k =>
            intro m hm
            simp only [writeFiles] at hm
            rw [hmk] at hm
            have : m = m0 := (Option.some.inj hm).symm
            subst this
            refine ⟨h0, by simp [writeFiles, hh], ?_⟩
            intro i hi
            have : ¬ (m ≤ i ∧ i < min (m + k) n) := by omega
            simp [writeFiles, this, hfiles i hi]
          | none =>
            intro m hm
            simp only [writeFiles] at hm
            have : m = n := (Option.some.inj hm).symm
            subst this
            refine ⟨h0, by simp [writeFiles, hh], ?_⟩
            intro i hi
            by_cases hi0 : i < m0
            · have : ¬ (m0 ≤ i ∧ i < m) := by omega
              simp [writeFiles, this, hfiles i hi0]
            · have : m0 ≤ i ∧ i < m := by omega
              simp [writeFiles, this]
        · simp only [hlt, ↓reduceIte]
          intro m hm
          rw [hmk] at hm
          have : m = m0 := (Option.some.inj hm).symm
          subst this
          exact ⟨h0, hh, hfiles⟩
  cases kill with
  | afterCheck => exact hF
  | afterInfra => exact hinfra.1
  | afterFiles k => exact hemis (some k)
  | complete => exact hemis none

theorem histG_markerSound (r : MarkerRemoval) (hr : r.inInfra = true)
    (hist : List (Nat × Nat × Kill)) (F : GFolder) (hF : MarkerSound F) :
    MarkerSound (histG r hist F) := by
  induction hist generalizing F with
  | nil => exact hF
  | cons x rest ih => exact ih _ (runG_markerSound r hr x.1 x.2.1 x.2.2 F hF)

/-- a COMPLETED run with configuration `c` and `n` simulations, on a folder with a sound marker,
hands every simulation number `i < n` a scenario generated under `c` -/
theorem complete_run_hands_own (r : MarkerRemoval) (hr : r.inInfra = true) (c n : Nat)
    (F : GFolder) (hF : MarkerSound F) :
    ∀ i, i < n → handedOut (runG r c n .complete F) i = some c := by
  have hs := runG_markerSound r hr c n .complete F hF
  intro i hi
  unfold handedOut
  simp only [runG] at hs ⊢
  unfold infraStep at hs ⊢
  by_cases h : F.hashes = some c ∧ F.marker.isSome
  · simp only [h, and_self, ↓reduceIte] at hs ⊢
    unfold emisStep at hs ⊢
    simp only [Bool.not_true, Bool.false_eq_true, ↓reduceIte, effCut] at hs ⊢
    cases hmk : F.marker with
    | none => simp [hmk] at h
    | some m0 =>
      simp only [hmk] at hs ⊢
      obtain ⟨h0, hh, hfiles⟩ := hF m0 hmk
      have hc : h0 = c := by rw [h.1] at hh; exact (Option.some.inj hh).symm
      subst hc
      by_cases hlt : m0 < n
      · simp only [hlt, ↓reduceIte, writeFiles]
        by_cases hi0 : i < m0
        · have : ¬ (m0 ≤ i ∧ i < n) := by omega
          simp [this, hfiles i hi0]
        · have : m0 ≤ i ∧ i < n := by omega
          simp [this]
      · simp only [hlt, ↓reduceIte]
        exact hfiles i (by omega)
  · simp only [h, ↓reduceIte]
    unfold emisStep
    simp only [Bool.not_false, ↓reduceIte, effCut]
    cases hri : r.inEmis <;> simp [writeFiles, hi]

/-- the statement asked for: whatever runs came before — each with any configuration, any number of
simulations, killed at ANY point or completed — a completed run hands out only scenarios generated
under its own configuration -/
theorem handed_out_own_configuration (r : MarkerRemoval) (hr : r.inInfra = true)
    (hist : List (Nat × Nat × Kill)) (c n : Nat) :
    ∀ i, i < n → handedOut (runG r c n .complete (histG r hist GFolder.empty)) i = some c :=
  complete_run_hands_own r hr c n _ (histG_markerSound r hr hist _ markerSound_empty)

/-- table obligation on the current source tree: the marker is removed in `initialize_infrastructure`
before new hashes are written, and written only after the last scenario file -/
theorem GenMarker.marker_removed_with_hashes :
    Generated.GenMarker.removedInInfrastructure = true
    ∧ Generated.GenMarker.markerWrittenAfterFiles = true := by decide

/-- the removal order of the current tree, as the model's parameter -/
def treeRemoval : MarkerRemoval :=
  { inInfra := Generated.GenMarker.removedInInfrastructure, inEmis := Generated.GenMarker.removedInEmissions }

theorem handed_out_own_configuration_generated (hist : List (Nat × Nat × Kill)) (c n : Nat) :
    ∀ i, i < n → handedOut (runG treeRemoval c n .complete (histG treeRemoval hist GFolder.empty)) i = some c :=
  handed_out_own_configuration treeRemoval GenMarker.marker_removed_with_hashes.1 hist c n

/-- the model can be wrong: with the removal only at the top of the regeneration branch of
`initialize_emissions`, run 1 (configuration 1) complete, run 2 (configuration 2) killed between
`setup_infrastructure` and `setup_emissions`, run 3 (configuration 2) complete: simulation 0 is handed
a scenario generated under configuration 1 -/
theorem removal_in_emissions_counterexample :
    handedOut (runG { inInfra := false, inEmis := true } 2 3 .complete
      (histG { inInfra := false, inEmis := true } [(1, 3, .complete), (2, 3, .afterInfra)] GFolder.empty)) 0
      = some 1 := by decide

/-! ### verdict -/

/-- C16 minus the two clauses that fail today, everything about the code's OWN tables: all
generation clauses; both cap clauses; the exact form of the unit clause that does hold (rates are
`driftK i` times the capped physical rate for every population, so SI units sharing a time unit
agree exactly and per-second units are exact); folder histories keep simulation `i` on seed `i` -/
theorem C16_partial :
    GenClauses
    ∧ ((∀ (m i : String) (s cap r : Rat), sampleRate Generated.Units.table m i s cap = some r →
          ∃ c, unitConversion Generated.Units.table m i cap = some c ∧ r ≤ c)
      ∧ (∀ (m i : String) (d cap r : Rat), distRate Generated.Units.table m i d cap = some r →
          ∃ c, convertD Generated.Units.table m i cap = some c ∧ r ≤ c))
    ∧ (∀ (m i : String) (s cap xs xc : Rat), toUnit m i s = some xs → toUnit m i cap = some xc →
          sampleRate Generated.Units.table m i xs xc = some (driftK i * capAt cap s)
          ∧ distRate Generated.Units.table m i xs xc = some (driftK i * capAt cap s))
    ∧ IndexIsSimulationNumber Generated.EmisSeed.seedIdx :=
  ⟨gen_clauses, unit_clauses_partial, real_table_rates, EmisSeed.seed_index_is_simulation_number⟩

/-- the full statement is false of the code as it stands (F10b, F10c) -/
theorem C16_counterexample : ¬ C16_statement := fun h => unit_invariance_counterexample h.2.1

/-! ### non-vacuity -/

/-- single-emission source, duration 3, pre-period enabled: the pre-period hit on day −2 blocks
days 0 and 1 (last = −2 + 3 = 1), day 2 starts the next one, which blocks 3..5; ids 0,1,2 -/
example :
    generate [false, true, true] [true, true, true, true, false, true, true] 3 false true
      = [⟨6, 2⟩, ⟨2, 1⟩, ⟨-2, 0⟩] := by decide +kernel

/-- same draws, multi-emission source: every hit becomes an emission -/
example :
    (generate [false, true, true] [true, true, true, true, false, true, true] 3 true true).length = 8
    ∧ (generate [false, true, true] [true, false] 3 true false).map (·.start) = [0] := by
  decide +kernel

/-- a start exactly `dur` days before the period is reachable (lower bound is attained) -/
example : generate [true, false] [] 2 false true = [⟨-2, 0⟩] := by decide +kernel

/-- consistent tables exist, and `toUnit` is defined: 1 g/s is 3.6 kg/h -/
example : Consistent (withSecond Generated.Units.table (365 * 86400))
    ∧ toUnit "kilogram" "hour" 1 = some (18 / 5) := by decide +kernel

/-- the cap clause is exercised: 2 t/day sample, cap 1 t/day -/
example : ∃ r, sampleRate Generated.Units.table "tonne" "day" 2 1 = some r ∧ 0 < r :=
  ⟨18250 / 1577, by decide +kernel, by decide +kernel⟩

end LdarModel.C16
