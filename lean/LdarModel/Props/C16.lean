import LdarModel.Lemmas.Gen
import LdarModel.Lemmas.Units
import LdarModel.Generated.Units
import LdarModel.Generated.EmisSeed
import Mathlib.Data.List.Perm.Subperm
import Mathlib.Data.List.Range
import Mathlib.Data.List.Nodup
/-
C16 — generated emissions respect their parameters, units and replicate independence.

Models: `Model/Gen.lean` (`generate`, `genSeeds`, `scenarios`), `Model/Units.lean` (`gasConvert`,
`convertD`, `unitConversion`, `sampleRate`, `distRate`, `toUnit`, `Consistent`).
Tables regenerated from /repo on every run: `Generated/Units.lean` (conversion dictionaries,
defaults and body literals of gas_convert), `Generated/EmisSeed.lean` (randint range of gen_seed_emis).

Generation clauses are over every pair of Bernoulli outcome lists, duration, multi-emission flag and
pre-simulation setting; the period is day `0 .. N-1` with `N = sim.length`.
-/
namespace LdarModel.C16
open LdarModel.Gen LdarModel.Units

/-! ### statement -/

/-- the generation half: date bounds, no pre-period emissions when disabled, no overlap for
single-emission sources, unique ids, pending list in start-date order -/
def GenClauses : Prop :=
  ∀ (pre sim : List Bool) (dur : Nat) (multi preEnabled : Bool),
    (∀ e ∈ generate pre sim dur multi preEnabled,
        -(dur : Int) ≤ e.start ∧ e.start ≤ (sim.length : Int) - 1)
    ∧ (preEnabled = false → ∀ e ∈ generate pre sim dur multi preEnabled, 0 ≤ e.start)
    ∧ (multi = false →
        (popOrder (generate pre sim dur multi preEnabled)).Pairwise
          (fun a b => a.start + (dur : Int) < b.start))
    ∧ ((generate pre sim dur multi preEnabled).map (·.id)).Nodup
    ∧ ((popOrder (generate pre sim dur multi preEnabled)).map (·.start)).Pairwise (· < ·)

/-- the unit half, for a table `T`: a rate written in any SI-defined unit comes out as the same
g/s value through both kinds of rate source, and no rate exceeds the converted maximum -/
def UnitClauses (T : Table) : Prop :=
  (∀ (m i : String) (s cap xs xc : Rat), toUnit m i s = some xs → toUnit m i cap = some xc →
      sampleRate T m i xs xc = some (capAt cap s) ∧ distRate T m i xs xc = some (capAt cap s))
  ∧ (∀ (m i : String) (s cap r : Rat), sampleRate T m i s cap = some r →
      ∃ c, unitConversion T m i cap = some c ∧ r ≤ c)
  ∧ (∀ (m i : String) (d cap r : Rat), distRate T m i d cap = some r →
      ∃ c, convertD T m i cap = some c ∧ r ≤ c)

/-- the replicate half: whatever `randint` returns inside its range, the per-simulation seeds are
pairwise distinct (so that different simulation numbers start from different generator states) -/
def SeedsDistinct (lo hi : Nat) : Prop :=
  ∀ (draws : List Nat) (nSim : Nat), (∀ d ∈ draws, lo ≤ d ∧ d < hi) → nSim ≤ draws.length →
    (genSeeds [] draws nSim).Nodup

/-- C16 at full strength, for the tables of the current source tree -/
def C16_statement : Prop :=
  GenClauses ∧ UnitClauses Generated.Units.table
    ∧ SeedsDistinct Generated.EmisSeed.seedLow Generated.EmisSeed.seedHigh

/-! ### generation -/

theorem mem_generate {pre sim : List Bool} {dur : Nat} {multi preEnabled : Bool} {e : Em}
    (h : e ∈ generate pre sim dur multi preEnabled) :
    e ∈ prePart pre dur multi preEnabled ∨ e ∈ simPart pre sim dur multi preEnabled := by
  unfold generate at h
  rw [List.mem_reverse, created_eq, List.mem_append] at h
  exact h

/-- every generated emission starts between (period start − duration) and the period end -/
theorem date_bounds (pre sim : List Bool) (dur : Nat) (multi preEnabled : Bool) :
    ∀ e ∈ generate pre sim dur multi preEnabled,
      -(dur : Int) ≤ e.start ∧ e.start ≤ (sim.length : Int) - 1 := by
  intro e he
  rcases mem_generate he with h | h
  · have := prePart_bounds pre dur multi preEnabled e h; omega
  · have := simPart_bounds pre sim dur multi preEnabled e h; omega

/-- none starts before the period when pre-simulation emissions are disabled -/
theorem no_presim_when_disabled (pre sim : List Bool) (dur : Nat) (multi : Bool) :
    ∀ e ∈ generate pre sim dur multi false, 0 ≤ e.start := by
  intro e he
  rcases mem_generate he with h | h
  · simp [prePart] at h
  · exact (simPart_bounds pre sim dur multi false e h).1

theorem popOrder_generate (pre sim : List Bool) (dur : Nat) (multi preEnabled : Bool) :
    popOrder (generate pre sim dur multi preEnabled) = created pre sim dur multi preEnabled := by
  simp [popOrder, generate]

/-- `generate_sorted` (used by C01): popping the pending list from its end yields the emissions in
strictly increasing start-date order — `Source.activate_emissions` may stop at the first emission
that is not yet due -/
theorem generate_sorted (pre sim : List Bool) (dur : Nat) (multi preEnabled : Bool) :
    ((popOrder (generate pre sim dur multi preEnabled)).map (·.start)).Pairwise (· < ·) := by
  rw [popOrder_generate, created_eq, List.map_append, List.pairwise_append]
  refine ⟨prePart_sorted pre dur multi preEnabled, simPart_sorted pre sim dur multi preEnabled, ?_⟩
  intro a ha b hb
  obtain ⟨ea, hea, rfl⟩ := List.mem_map.mp ha
  obtain ⟨eb, heb, rfl⟩ := List.mem_map.mp hb
  have := prePart_bounds pre dur multi preEnabled ea hea
  have := simPart_bounds pre sim dur multi preEnabled eb heb
  omega

/-- the stored list itself is in strictly decreasing start-date order -/
theorem generate_descending (pre sim : List Bool) (dur : Nat) (multi preEnabled : Bool) :
    ((generate pre sim dur multi preEnabled).map (·.start)).Pairwise (· > ·) := by
  have h := generate_sorted pre sim dur multi preEnabled
  unfold popOrder at h
  rw [List.map_reverse, List.pairwise_reverse] at h
  exact h

/-- a source that cannot hold multiple emissions: any two of its emissions start more than
`dur` days apart (the later one starts after start + duration of the earlier one) -/
theorem no_overlap_single (pre sim : List Bool) (dur : Nat) (preEnabled : Bool) :
    (popOrder (generate pre sim dur false preEnabled)).Pairwise
      (fun a b => a.start + (dur : Int) < b.start) := by
  rw [popOrder_generate, created_eq, List.pairwise_append]
  have hg := simLoop_gap dur (hits sim 0) (lastAfterPre dur false (prePart pre dur false preEnabled))
    (prePart pre dur false preEnabled).length
  refine ⟨?_, hg.2, ?_⟩
  · -- at most one pre-period emission
    have hl : (prePart pre dur false preEnabled).length ≤ 1 := by
      unfold prePart; split
      · exact preLoop_single_length _ _
      · simp
    match hp : prePart pre dur false preEnabled, hl with
    | [], _ => simp
    | [_], _ => simp
  · intro a ha b hb
    have hb' := hg.1 b hb
    have hl : (prePart pre dur false preEnabled).length ≤ 1 := by
      unfold prePart; split
      · exact preLoop_single_length _ _
      · simp
    match hp : prePart pre dur false preEnabled, hl with
    | [], _ => rw [hp] at ha; simp at ha
    | [x], _ =>
      rw [hp] at ha hb'
      simp only [List.mem_singleton] at ha
      subst ha
      simpa [lastAfterPre] using hb'

/-- emission identifiers are unique per source and simulation: they are `0 .. n-1` in creation order -/
theorem ids_unique (pre sim : List Bool) (dur : Nat) (multi preEnabled : Bool) :
    ((generate pre sim dur multi preEnabled).map (·.id)).Nodup := by
  unfold generate
  rw [List.map_reverse, List.nodup_reverse, created_ids]
  exact List.nodup_range

theorem ids_are_creation_index (pre sim : List Bool) (dur : Nat) (multi preEnabled : Bool) :
    (popOrder (generate pre sim dur multi preEnabled)).map (·.id)
      = List.range (generate pre sim dur multi preEnabled).length := by
  rw [popOrder_generate, created_ids]; simp [generate]

theorem gen_clauses : GenClauses := by
  intro pre sim dur multi preEnabled
  refine ⟨date_bounds pre sim dur multi preEnabled, ?_, ?_, ids_unique pre sim dur multi preEnabled,
    generate_sorted pre sim dur multi preEnabled⟩
  · intro h; subst h; exact no_presim_when_disabled pre sim dur multi
  · intro h; subst h; exact no_overlap_single pre sim dur preEnabled

/-! ### units -/

/-- the converter is linear (homogeneous) in the quantity, failures included -/
theorem convert_linear (T : Table) (m i : String) (c q : Rat) :
    convertD T m i (c * q) = (convertD T m i q).map (c * ·) :=
  convertD_scale T m i c q

theorem unit_conversion_linear (T : Table) (m i : String) (c q : Rat) :
    unitConversion T m i (c * q) = (unitConversion T m i q).map (c * ·) := by
  unfold unitConversion
  split
  · simp
  · exact convertD_scale T m i c q

/-- unit invariance: under a consistent table a physical rate written in any SI-defined mass unit
per second/minute/hour/day converts back to the same g/s value -/
theorem unit_invariance (T : Table) (hC : Consistent T) (m i : String) (q x : Rat)
    (hx : toUnit m i q = some x) : unitConversion T m i x = some q := by
  unfold unitConversion
  split
  · rename_i h
    obtain ⟨hg, hs⟩ := consistent_names hC
    rw [hg, hs] at h
    obtain ⟨rfl, rfl⟩ := h
    have : toUnit "gram" "second" q = some q := by
      unfold toUnit siGrams siSeconds; simp
    rw [this] at hx
    exact hx.symm ▸ rfl
  · exact convertD_toUnit T hC m i q x hx

/-- … and therefore both kinds of rate source yield the same capped g/s rate whatever the unit -/
theorem rate_invariance (T : Table) (hC : Consistent T) (m i : String) (s cap xs xc : Rat)
    (hs : toUnit m i s = some xs) (hc : toUnit m i cap = some xc) :
    sampleRate T m i xs xc = some (capAt cap s) ∧ distRate T m i xs xc = some (capAt cap s) := by
  constructor
  · unfold sampleRate
    simp [unit_invariance T hC m i s xs hs, unit_invariance T hC m i cap xc hc]
  · unfold distRate
    exact convertD_toUnit T hC m i _ _ (toUnit_capAt hc hs)

/-- a sampled rate never exceeds the declared maximum (both in g/s) -/
theorem cap_respected (T : Table) (m i : String) (s cap r : Rat)
    (h : sampleRate T m i s cap = some r) : ∃ c, unitConversion T m i cap = some c ∧ r ≤ c := by
  unfold sampleRate at h
  simp only [Option.bind_eq_bind] at h
  cases hs : unitConversion T m i s with
  | none => simp [hs] at h
  | some s' =>
    cases hc : unitConversion T m i cap with
    | none => simp [hs, hc] at h
    | some c =>
      simp only [hs, hc, Option.bind_some, Option.some.injEq] at h
      exact ⟨c, rfl, h ▸ capAt_le c s'⟩

/-- a rate drawn from a distribution never exceeds the declared maximum converted to g/s, for any
table with positive entries -/
theorem cap_respected_dist (T : Table) (hP : Pos T) (m i : String) (d cap r : Rat)
    (h : distRate T m i d cap = some r) : ∃ c, convertD T m i cap = some c ∧ r ≤ c := by
  unfold distRate at h
  have hf := convertD_eq_factor T m i (capAt cap d)
  cases hfac : factor T m i with
  | none => rw [hfac] at hf; rw [hf] at h; simp at h
  | some f =>
    have hc : convertD T m i cap = some (cap * f) := by
      rw [convertD_eq_factor, hfac]; rfl
    exact ⟨cap * f, hc, convertD_mono T hP m i (capAt_le cap d) h hc⟩

/-! ### table obligations (re-opened whenever /repo changes the dictionaries) -/

/-- every entry the positivity argument needs is positive -/
theorem Units.table_positive : Pos Generated.Units.table :=
  { inM := by decide +kernel, outM := by decide +kernel, inc := by decide +kernel,
    sub := by decide +kernel, gas := by decide +kernel, gpt := by decide +kernel,
    args := { gwp := by decide +kernel, ng := by decide +kernel, pres := by decide +kernel,
              temp := by decide +kernel } }

/-- every supported (metric, increment) pair converts (no missing key, no zero divisor) with a
positive factor -/
theorem Units.all_pairs_convert :
    ∀ m ∈ Generated.Units.table.inMetrics, ∀ i ∈ Generated.Units.table.increments,
      ∃ f, factor Generated.Units.table m.name i.1 = some f ∧ 0 < f := by
  have h : (Generated.Units.table.inMetrics.all fun m =>
      Generated.Units.table.increments.all fun i =>
        match factor Generated.Units.table m.name i.1 with
        | some f => decide (0 < f)
        | none => false) = true := by decide +kernel
  intro m hm i hi
  have := List.all_eq_true.mp (List.all_eq_true.mp h m hm) i hi
  split at this
  · rename_i f hf; exact ⟨f, hf, of_decide_eq_true this⟩
  · simp at this

/-- `Units.consistent` modulo the seconds-per-year entry: with `365 · 86400` in place of the
tabulated value the table of the current tree is consistent … -/
theorem Units.consistent_with_exact_second :
    Consistent (withSecond Generated.Units.table (365 * 86400)) := by decide +kernel

/-- … and with the tabulated value it is not (known finding F10b: `increments["second"]` is
31 540 000, sixty times the minutes-per-year entry is 31 536 000) -/
theorem Units.not_consistent : ¬ Consistent Generated.Units.table := by decide +kernel

/-- exact size of the deviation on the SI-defined units: per-second input is exact, every other
increment is off by the factor 31 536 000 / 31 540 000 = 7884/7885 -/
theorem Units.si_drift :
    ∀ m ∈ ["gram", "kilogram", "tonne"], ∀ i ∈ ["second", "minute", "hour", "day"],
      (do let x ← toUnit m i 1; convertD Generated.Units.table m i x)
        = some (if i = "second" then 1 else 7884 / 7885) := by decide +kernel

/-- the unit half of the statement is false for the current table: 3.6 kg/h is 1 g/s, the
converter returns 7884/7885 g/s -/
theorem unit_invariance_counterexample : ¬ UnitClauses Generated.Units.table := by
  intro h
  have := (h.1 "kilogram" "hour" 1 2 (18 / 5) (36 / 5) (by decide +kernel) (by decide +kernel)).1
  revert this
  decide +kernel

/-- what does hold of the current table: the two cap clauses -/
theorem unit_clauses_partial :
    (∀ (m i : String) (s cap r : Rat), sampleRate Generated.Units.table m i s cap = some r →
      ∃ c, unitConversion Generated.Units.table m i cap = some c ∧ r ≤ c)
    ∧ (∀ (m i : String) (d cap r : Rat), distRate Generated.Units.table m i d cap = some r →
      ∃ c, convertD Generated.Units.table m i cap = some c ∧ r ≤ c) :=
  ⟨cap_respected _, cap_respected_dist _ Units.table_positive⟩

/-- and the full unit half holds for the table with the exact seconds-per-year entry -/
theorem unit_clauses_with_exact_second :
    UnitClauses (withSecond Generated.Units.table (365 * 86400)) := by
  refine ⟨fun m i s cap xs xc hs hc =>
      rate_invariance _ Units.consistent_with_exact_second m i s cap xs xc hs hc,
    cap_respected _, cap_respected_dist _ ?_⟩
  exact
    { inM := by decide +kernel, outM := by decide +kernel, inc := by decide +kernel,
      sub := by decide +kernel, gas := by decide +kernel, gpt := by decide +kernel,
      args := { gwp := by decide +kernel, ng := by decide +kernel, pres := by decide +kernel,
                temp := by decide +kernel } }

/-! ### replicate independence -/

/-- distinct seeds give distinct generator streams (the generator is modelled as an injective map
from seed to stream), hence pairwise different Bernoulli inputs for the simulations -/
theorem distinct_scenarios_partial (stream : Nat → List Bool × List Bool)
    (hinj : Function.Injective stream) (seeds : List Nat) (hn : seeds.Nodup) :
    (seeds.map stream).Nodup :=
  List.Nodup.map hinj hn

/-- equal seeds give equal scenarios: simulation numbers `a` and `b` receive the same emissions -/
theorem same_seed_same_scenario (stream : Nat → List Bool × List Bool) (seeds : List Nat)
    (dur : Nat) (multi preEnabled : Bool) (a b : Nat) (ha : a < seeds.length) (hb : b < seeds.length)
    (h : seeds[a] = seeds[b]) :
    (scenarios stream seeds dur multi preEnabled)[a]'(by simpa [scenarios] using ha)
      = (scenarios stream seeds dur multi preEnabled)[b]'(by simpa [scenarios] using hb) := by
  simp [scenarios, h]

/-- pigeonhole: once there are more simulations than values in the `randint` range, two
simulation numbers are certain to share a seed -/
theorem seeds_collide_beyond_range (lo hi : Nat) (draws : List Nat) (nSim : Nat)
    (hr : ∀ d ∈ draws, lo ≤ d ∧ d < hi) (hlen : nSim ≤ draws.length) (hbig : hi - lo < nSim) :
    ¬ (genSeeds [] draws nSim).Nodup := by
  intro hn
  unfold genSeeds at hn
  have hpos : 0 < nSim := by omega
  simp only [List.length_nil, hpos, ↓reduceIte, List.nil_append, Nat.sub_zero] at hn
  have hn' : ((draws.take nSim).map (· - lo)).Nodup := by
    refine List.Nodup.map_on ?_ hn
    intro x hx y hy hxy
    have := (hr x (List.mem_of_mem_take hx)).1
    have := (hr y (List.mem_of_mem_take hy)).1
    omega
  have hs : (draws.take nSim).map (· - lo) ⊆ List.range (hi - lo) := by
    intro d hd
    obtain ⟨x, hx, rfl⟩ := List.mem_map.mp hd
    have := hr x (List.mem_of_mem_take hx)
    exact List.mem_range.mpr (by omega)
  have hle := (List.subperm_of_subset hn' hs).length_le
  simp only [List.length_map, List.length_take, List.length_range] at hle
  omega

/-- the seed procedure of the current tree does not guarantee distinct seeds (known finding F10c):
two simulations, `randint` returns 7 twice -/
theorem seeds_distinct_counterexample :
    ¬ SeedsDistinct Generated.EmisSeed.seedLow Generated.EmisSeed.seedHigh := by
  intro h
  have := h [7, 7] 2 (by decide) (by decide)
  revert this
  decide


/-! ### extending a generator folder -/

/-- every stored simulation number carries the scenario of *its own* seed -/
def FolderGood {σ : Type} (seedAt : Nat → Nat) (scen : Nat → σ) (F : Folder σ) : Prop :=
  ∀ i, i < F.nSaved → F.files i = some (scen (seedAt i))

theorem mem_writes {fresh : Bool} {nSaved n i : Nat} :
    i ∈ writes fresh nSaved n ↔ (if fresh then i < n else nSaved ≤ i ∧ i < n) := by
  unfold writes
  cases fresh
  · simp only [Bool.false_eq_true, ↓reduceIte]
    split
    · rw [List.mem_range'_1]; omega
    · simp; omega
  · simp

theorem initRun_good {σ : Type} (seedAt : Nat → Nat) (scen : Nat → σ) (fresh : Bool) (n : Nat)
    (F : Folder σ) (h : FolderGood seedAt scen F) : FolderGood seedAt scen (initRun seedAt scen fresh n F) := by
  intro i hi
  simp only [initRun] at hi ⊢
  by_cases hw : i ∈ writes fresh F.nSaved n
  · simp [hw]
  · simp only [hw, ↓reduceIte]
    apply h
    rw [mem_writes] at hw
    cases fresh <;> simp_all <;> split at hi <;> omega

/-- seed-index property of the extension (`extendScenarios`): after ANY history of fresh runs,
extensions and smaller runs on one generator folder, simulation number `i` holds the scenario
generated under `emis_preseed_val[i]` -/
theorem extension_seed_index {σ : Type} (seedAt : Nat → Nat) (scen : Nat → σ)
    (hist : List (Bool × Nat)) (F : Folder σ) (h : FolderGood seedAt scen F) :
    FolderGood seedAt scen (runHistory seedAt scen hist F) := by
  induction hist generalizing F with
  | nil => exact h
  | cons r rest ih => exact ih _ (initRun_good seedAt scen r.1 r.2 F h)

theorem extension_seed_index_from_empty {σ : Type} (seedAt : Nat → Nat) (scen : Nat → σ)
    (hist : List (Bool × Nat)) :
    FolderGood seedAt scen (runHistory seedAt scen hist Folder.empty) :=
  extension_seed_index seedAt scen hist _ (fun i hi => by simp [Folder.empty] at hi)

/-- a non-fresh run leaves the pickles of the pre-existing simulation numbers untouched -/
theorem extension_preserves_existing {σ : Type} (seedAt : Nat → Nat) (scen : Nat → σ) (n : Nat)
    (F : Folder σ) (i : Nat) (hi : i < F.nSaved) :
    (initRun seedAt scen false n F).files i = F.files i := by
  have : i ∉ writes false F.nSaved n := by rw [mem_writes]; simp; omega
  simp [initRun, this]

/-- the seed trace of a run: simulation `i` is generated under `seedAt i`, nothing else -/
theorem seedTrace_index (seedAt : Nat → Nat) (fresh : Bool) (nSaved n : Nat) :
    ∀ p ∈ seedTrace seedAt fresh nSaved n, p.2 = seedAt p.1 := by
  intro p hp
  obtain ⟨i, _, rfl⟩ := List.mem_map.mp hp
  rfl

/-- hence, in a folder grown by any history, simulation numbers with different seeds hold
different scenarios as soon as different seeds give different scenarios -/
theorem extension_distinct {σ : Type} (seedAt : Nat → Nat) (scen : Nat → σ)
    (hinj : Function.Injective scen) (hist : List (Bool × Nat)) (i j : Nat)
    (hi : i < (runHistory seedAt scen hist Folder.empty).nSaved)
    (hj : j < (runHistory seedAt scen hist Folder.empty).nSaved) (hs : seedAt i ≠ seedAt j) :
    (runHistory seedAt scen hist Folder.empty).files i
      ≠ (runHistory seedAt scen hist Folder.empty).files j := by
  have hg := extension_seed_index_from_empty seedAt scen hist
  rw [hg i hi, hg j hj]
  intro h
  exact hs (hinj (Option.some.inj h))

/-- the seed file is append-only: growing it keeps the seed of every existing simulation number -/
theorem genSeeds_prefix (old draws : List Nat) (nSim : Nat) :
    ∃ t, genSeeds old draws nSim = old ++ t := by
  unfold genSeeds
  split
  · exact ⟨_, rfl⟩
  · exact ⟨[], by simp⟩

/-- non-vacuity: fresh run with 2, extension to 4, smaller run, extension to 5 -/
example :
    let F := runHistory (fun i => 10 * i + 7) id [(true, 2), (false, 4), (false, 1), (false, 5)] Folder.empty
    F.nSaved = 5 ∧ F.files 3 = some 37 ∧ F.files 4 = some 47 ∧ F.files 5 = none
    ∧ seedTrace (fun i => 10 * i + 7) false 2 4 = [(2, 27), (3, 37)] := by
  decide +kernel

/-! ### verdict -/

/-- C16 minus the two clauses that fail today: all generation clauses, the cap clauses for the
current table, linearity, and the complete unit half once the seconds-per-year entry is exact -/
theorem C16_partial :
    GenClauses
    ∧ ((∀ (m i : String) (s cap r : Rat), sampleRate Generated.Units.table m i s cap = some r →
          ∃ c, unitConversion Generated.Units.table m i cap = some c ∧ r ≤ c)
      ∧ (∀ (m i : String) (d cap r : Rat), distRate Generated.Units.table m i d cap = some r →
          ∃ c, convertD Generated.Units.table m i cap = some c ∧ r ≤ c))
    ∧ UnitClauses (withSecond Generated.Units.table (365 * 86400)) :=
  ⟨gen_clauses, unit_clauses_partial, unit_clauses_with_exact_second⟩

/-- the full statement is false of the code as it stands (F10b, F10c) -/
theorem C16_counterexample : ¬ C16_statement := fun h => unit_invariance_counterexample h.2.1

/-! ### non-vacuity -/

/-- single-emission source, duration 3, pre-period enabled: the pre-period hit on day −2 blocks
days 0 and 1 (last = −2 + 3 = 1), day 2 starts the next one, which blocks 3..5; ids 0,1,2 -/
example :
    generate [false, true, true] [true, true, true, true, false, true, true] 3 false true
      = [⟨6, 2⟩, ⟨2, 1⟩, ⟨-2, 0⟩] := by decide +kernel

/-- same draws, multi-emission source: every hit becomes an emission -/
example :
    (generate [false, true, true] [true, true, true, true, false, true, true] 3 true true).length = 8
    ∧ (generate [false, true, true] [true, false] 3 true false).map (·.start) = [0] := by
  decide +kernel

/-- a start exactly `dur` days before the period is reachable (lower bound is attained) -/
example : generate [true, false] [] 2 false true = [⟨-2, 0⟩] := by decide +kernel

/-- consistent tables exist, and `toUnit` is defined: 1 g/s is 3.6 kg/h -/
example : Consistent (withSecond Generated.Units.table (365 * 86400))
    ∧ toUnit "kilogram" "hour" 1 = some (18 / 5) := by decide +kernel

/-- the cap clause is exercised: 2 t/day sample, cap 1 t/day -/
example : ∃ r, sampleRate Generated.Units.table "tonne" "day" 2 1 = some r ∧ 0 < r :=
  ⟨18250 / 1577, by decide +kernel, by decide +kernel⟩

end LdarModel.C16
