import LdarModel.Lemmas.Cost
import LdarModel.Generated.CrewCost
/-
C10 — cost accounting: every cost item is charged exactly once, totals add up.

Model: `Model/Cost.lean` on top of `Crew.deployDay` and `Emission.run`.  The model follows the code
after the two `fix:` commits recorded in findings.d/C10.json (component-level per-site charge at
completion; stationary component-level per-day charge per planned site), i.e. one booking rule for
all method classes (the measurement scale is not a parameter of the model: the four classes run the
same loop, which the four-class correspondence of the check establishes).
-/
namespace LdarModel.Cost
open LdarModel.Crew

/-- the property at full strength -/
def C10_statement : Prop :=
  -- (1) the daily row: cost = Σ_m (deployment cost + upfront on the first day) + own repair cost;
  --     natural repair cost reported separately and not part of it
  (∀ (first : Bool) (ms : List MethodDay) (rep nat : Int),
      (dailyRow first ms rep nat).cost
          = (ms.map (fun m => m.deploy + if first then m.upfront else 0)).sum + rep ∧
      (dailyRow first ms rep nat).cost = (dailyRow first ms rep nat).methodCols.sum + rep ∧
      (dailyRow first ms rep nat).repCost = rep ∧ (dailyRow first ms rep nat).natRepCost = nat ∧
      ∀ nat', (dailyRow first ms rep nat').cost = (dailyRow first ms rep nat).cost) ∧
  -- (2) per-site methods (any deployment type, crews, plan): the day's deployment cost is the sum,
  --     over the requests whose report is complete at the end of the day (the schedule only plans
  --     reports that are not complete, `ReqOk.hC`, so these are the surveys completed that day), of
  --     the effective site cost
  (∀ (p : MethodP) (budget : Int) (n : Nat) (reqs : List Req), p.perSite = true →
      (deployDay p budget n reqs).stats.cost
        = (((deployDay p budget n reqs).out.filter (fun o => o.rep.complete)).map
            (fun o => siteCharge p o.req)).sum) ∧
  -- (3) per-day methods: unit cost × deployed crews (mobile) / × planned sites (stationary)
  (∀ (p : MethodP) (budget : Int) (n : Nat) (reqs : List Req), p.perSite = false →
      (deployDay p budget n reqs).stats.cost =
        if p.stationary then p.unitCost * reqs.length
        else p.unitCost * ((deployDay p budget n reqs).crews.filter
              (fun c => crewVisited c.id (deployDay p budget n reqs).out)).length) ∧
  -- (4) upfront cost: over a run it is contained in the rows exactly once
  (∀ (d : DayData) (ds : List DayData),
      ((programRows (d :: ds)).map (·.cost)).sum
        = (d.methods.map (·.upfront)).sum
          + (((d :: ds).map (fun x => (x.methods.map (·.deploy)).sum + x.repCost)).sum)) ∧
  -- (5) each program repair contributes its cost exactly once, on its repair day; natural repairs
  --     go to the other column
  (∀ (p : Emission.Params) (cost : Int) (ev : Nat → List Emission.TagEv) (N : Nat), p.repairable = true →
      sumTo (fun n => (bookDay p cost ev n).1) N
        = (if (Emission.run p ev N).status = .repaired ∧ (Emission.run p ev N).by_ ≠ .natural then cost else 0) ∧
      sumTo (fun n => (bookDay p cost ev n).2) N
        = (if (Emission.run p ev N).status = .repaired ∧ (Emission.run p ev N).by_ = .natural then cost else 0)) ∧
  -- (6) a program without methods costs nothing
  (∀ (first : Bool) (nat : Int) (es : List (Emission.Params × Int)) (n : Nat),
      (dailyRow first [] ((es.map (fun e => (bookDay e.1 e.2 Emission.noEvents n).1)).sum) nat).cost = 0) ∧
  -- (7) program level: the row of day n carries the sum of that day's bookings of all the program's
  --     leaks, and over a run the repair-cost column adds up to the costs of exactly the leaks the
  --     program repaired (each once), the natural column to those of the naturally repaired ones
  (∀ (ms : Nat → List MethodDay) (es : List Leak) (N : Nat), (∀ e ∈ es, e.p.repairable = true) →
      (∀ n, (programDay ms es n).repCost = (es.map (fun e => (bookDay e.p e.cost e.ev n).1)).sum ∧
            (programDay ms es n).cost
              = ((ms n).map (fun m => m.deploy + if n = 0 then m.upfront else 0)).sum + (programDay ms es n).repCost) ∧
      sumTo (fun n => (programDay ms es n).repCost) N
        = (es.map (fun e => if (Emission.run e.p e.ev N).status = .repaired ∧ (Emission.run e.p e.ev N).by_ ≠ .natural
                            then e.cost else 0)).sum ∧
      sumTo (fun n => (programDay ms es n).natRepCost) N
        = (es.map (fun e => if (Emission.run e.p e.ev N).status = .repaired ∧ (Emission.run e.p e.ev N).by_ = .natural
                            then e.cost else 0)).sum)

/-! ### cost type -/

/-- `initialize_cost_tracking` as a decision table -/
theorem cost_type_selection (c : MethodCost) :
    (c.perDay > 0 → selectCost c = (.perDay, c.perDay)) ∧
    (c.perDay ≤ 0 → ∀ s, c.perSite = some s → s > 0 → selectCost c = (.perSite, s)) ∧
    (c.perDay ≤ 0 → (c.perSite = none ∨ ∃ s, c.perSite = some s ∧ s ≤ 0) → selectCost c = (.perDay, 0)) := by
  unfold selectCost
  refine ⟨fun h => by simp [h], fun h s hs hp => ?_, fun h hn => ?_⟩
  · have : ¬ c.perDay > 0 := by omega
    simp [this, hs, hp]
  · have : ¬ c.perDay > 0 := by omega
    rcases hn with hn | ⟨s, hs, hle⟩
    · simp [this, hn]
    · have : ¬ s > 0 := by omega
      simp [*]

/-! ### (1) the daily row -/

theorem row_identity (first : Bool) (ms : List MethodDay) (rep nat : Int) :
    (dailyRow first ms rep nat).cost
        = (ms.map (fun m => m.deploy + if first then m.upfront else 0)).sum + rep ∧
    (dailyRow first ms rep nat).cost = (dailyRow first ms rep nat).methodCols.sum + rep ∧
    (dailyRow first ms rep nat).repCost = rep ∧ (dailyRow first ms rep nat).natRepCost = nat ∧
    ∀ nat', (dailyRow first ms rep nat').cost = (dailyRow first ms rep nat).cost := by
  refine ⟨?_, ?_, rfl, rfl, fun _ => rfl⟩
  · simp only [dailyRow]; rw [totalDaily_eq]
  · simp only [dailyRow]; rw [totalDaily_eq]
    cases first <;> simp

/-! ### (2) per-site methods -/

/-- the day's deployment cost of a per-site method is the sum, over the surveys *completed* that
day, of the site's survey cost (method cost when the site cost is 0) — for every deployment type,
crew count and work plan (and, the loop being shared, every method class); visits that are aborted by weather, left
partial or not made at all are not charged, a survey that uses up the crew's day is -/
theorem per_site_once (p : MethodP) (budget : Int) (n : Nat) (reqs : List Req) (hp : p.perSite = true) :
    (deployDay p budget n reqs).stats.cost
      = (((deployDay p budget n reqs).out.filter (fun o => o.rep.complete)).map
          (fun o => siteCharge p o.req)).sum := by
  have h := serveAll_cost p budget n reqs
  have hco := (serveAll_crews_out p budget n reqs).2
  rw [hco]
  have hfin : (deployDay p budget n reqs).stats.cost
      = (serveAll p { crews := initCrews budget n } reqs).stats.cost := by
    unfold deployDay finalize; simp [hp]
  rw [hfin, h]
  generalize (serveAll p { crews := initCrews budget n } reqs).out = out
  unfold chargedByRecords
  induction out with
  | nil => simp
  | cons o os ih =>
    simp only [List.map_cons, List.sum_cons, List.filter_cons]
    rw [ih]
    by_cases hc : o.rep.complete = true
    · simp [hc, chargeIfComplete, hp]
    · simp [hc, chargeIfComplete]

/-- the effective site cost: the site's own cost, or the method's when the site's is 0 -/
theorem site_charge_fallback (p : MethodP) (r : Req) :
    (r.siteCost ≠ 0 → siteCharge p r = r.siteCost) ∧
    (r.siteCost = 0 → p.unitCost > 0 → siteCharge p r = p.unitCost) := by
  unfold siteCharge
  constructor
  · intro h; simp [h]
  · intro h hu; simp [h, hu]

/-- over the days of one survey (partial days, weather aborts, days without a crew, resumption) a
per-site method charges the site exactly once — on completion — and nothing while unfinished -/
theorem per_site_once_multiday (stationary : Bool) (S charge : Int) (days : List DayIn) :
    (surveyCostRun stationary S charge days {} 0).2
      = if (surveyCostRun stationary S charge days {} 0).1.complete = true then charge else 0 := by
  have key : ∀ (days : List DayIn) (rep : Report) (acc : Int),
      acc = (if rep.complete = true then charge else 0) →
      (surveyCostRun stationary S charge days rep acc).2
        = if (surveyCostRun stationary S charge days rep acc).1.complete = true then charge else 0 := by
    intro days
    induction days with
    | nil => intro rep acc h; simp only [surveyCostRun]; exact h
    | cons d ds ih =>
      intro rep acc h
      simp only [surveyCostRun]
      apply ih
      by_cases hc : rep.complete = true
      · have : (surveyDay stationary S rep d).1 = rep := by unfold surveyDay; simp [hc]
        rw [this]; simp [hc, h]
      · simp only [hc] at h
        by_cases hc2 : (surveyDay stationary S rep d).1.complete = true <;> simp [hc, hc2, h]
  exact key days {} 0 (by simp)

/-- `surveyCostRun` is not a stipulation: one step of it is `deployDay` on the one-request plan of
that day (one crew with the day's minutes if a crew is available, none otherwise) — same report
afterwards, and the increment is that day's deployment cost of the per-site method -/
theorem surveyCostRun_step_is_deployDay (p : MethodP) (hp : p.perSite = true) (r : Req)
    (hc : r.rep.complete = false) (R : Int) (served : Bool) :
    let d := deployDay p R (if served then 1 else 0) [r]
    let x := surveyDay p.stationary r.S r.rep
               { R := R, T := r.T, workable := workable p r, served := served }
    d.out.map (·.rep) = [x.1] ∧
    d.stats.cost = (if x.1.complete = true ∧ ¬ r.rep.complete = true then siteCharge p r else 0) := by
  cases served
  · simp [deployDay, serveAll, serve, initCrews, pick, finalize, hp, surveyDay, hc, chargeIfComplete]
  · simp [deployDay, serveAll, serve, initCrews, pick, finalize, hp, surveyDay, hc, chargeIfComplete,
      List.range, List.range.loop]
    generalize surveyStep R r.S r.T r.rep.surveyed p.stationary (workable p r) = o
    cases o.last <;> cases o.visited <;> simp

/-! ### (3) per-day methods -/

theorem per_day_once (p : MethodP) (budget : Int) (n : Nat) (reqs : List Req) (hp : p.perSite = false) :
    (deployDay p budget n reqs).stats.cost =
      if p.stationary then p.unitCost * reqs.length
      else p.unitCost * ((deployDay p budget n reqs).crews.filter
            (fun c => crewVisited c.id (deployDay p budget n reqs).out)).length := by
  have hdep := (deployDay_traceInv p budget n reqs).dep
  have hc := (serveAll_crews_out p budget n reqs).1
  have hcnt : countDeployed (deployDay p budget n reqs).crews
      = ((deployDay p budget n reqs).crews.filter
            (fun c => crewVisited c.id (deployDay p budget n reqs).out)).length := by
    unfold countDeployed
    congr 1
    apply List.filter_congr
    intro c hc'
    exact hdep c hc'
  rw [← hcnt, hc]
  unfold deployDay finalize
  cases p.stationary <;> simp [hp]

/-! ### (4) upfront cost -/

private theorem later_rows (xs : List DayData) :
    ((xs.map (fun x => dailyRow false x.methods x.repCost x.natRepCost)).map (·.cost)).sum
      = (xs.map (fun x => (x.methods.map (·.deploy)).sum + x.repCost)).sum := by
  induction xs with
  | nil => rfl
  | cons x xs ih =>
    simp only [List.map_cons, List.sum_cons]
    rw [ih, (row_identity false x.methods x.repCost x.natRepCost).1]
    simp

theorem upfront_once (d : DayData) (ds : List DayData) :
    ((programRows (d :: ds)).map (·.cost)).sum
      = (d.methods.map (·.upfront)).sum
        + (((d :: ds).map (fun x => (x.methods.map (·.deploy)).sum + x.repCost)).sum) := by
  simp only [programRows, List.map_cons, List.sum_cons]
  rw [later_rows, (row_identity true d.methods d.repCost d.natRepCost).1]
  simp only [if_true]
  rw [sum_map_add (fun m => m.deploy) (fun m => m.upfront)]
  omega

/-- what a method reports as its upfront cost: the configured amount times its crews
(one pseudo crew for a stationary method) -/
theorem upfront_amount (c : MethodCost) (stationary : Bool) (crews : Nat) (budget : Int) (cw : Bool)
    (env : Envelope) (reqs : List Req) :
    (methodDay c stationary cw env budget crews reqs).upfront
      = c.upfront * (if stationary then 1 else (crews : Int)) := by
  unfold methodDay upfrontCost crewCount
  cases stationary <;> simp

/-- **frame over earlier constructions**: however many methods were built before from the same
parameter dict, a method's upfront cost is a function of the cost parameters, its deployment type and
its crew count alone, and the dict is handed on unchanged -/
theorem upfront_frame (bs : List (Bool × Nat)) (c : MethodCost) :
    (constructAll bs c).2 = c ∧
    (constructAll bs c).1 = bs.map (fun b => c.upfront * (if b.1 then 1 else (b.2 : Int))) := by
  induction bs with
  | nil => exact ⟨rfl, rfl⟩
  | cons b bs ih =>
    obtain ⟨st, n⟩ := b
    simp only [constructAll, construct, List.map_cons]
    refine ⟨ih.1, ?_⟩
    rw [ih.2]
    congr 1
    unfold upfrontCost crewCount
    cases st <;> simp

/-! ### (5) repair cost -/

private theorem repaired_stays (p : Emission.Params) (ev : Nat → List Emission.TagEv) (n : Nat)
    (h : (Emission.run p ev n).status = .repaired) : Emission.run p ev (n + 1) = Emission.run p ev n := by
  simp only [Emission.run]
  exact day_repaired_fixed p n (ev n) _ h

theorem repair_once (p : Emission.Params) (cost : Int) (ev : Nat → List Emission.TagEv) (N : Nat)
    (hr : p.repairable = true) :
    sumTo (fun n => (bookDay p cost ev n).1) N
      = (if (Emission.run p ev N).status = .repaired ∧ (Emission.run p ev N).by_ ≠ .natural then cost else 0) ∧
    sumTo (fun n => (bookDay p cost ev n).2) N
      = (if (Emission.run p ev N).status = .repaired ∧ (Emission.run p ev N).by_ = .natural then cost else 0) := by
  induction N with
  | zero => simp [sumTo, Emission.run, Emission.init]
  | succ n ih =>
    simp only [sumTo]
    rw [ih.1, ih.2, bookDay_spec p hr cost ev n]
    by_cases h0 : (Emission.run p ev n).status = .repaired
    · rw [repaired_stays p ev n h0]
      simp [h0]
    · by_cases h1 : (Emission.run p ev (n + 1)).status = .repaired
      · by_cases h2 : (Emission.run p ev (n + 1)).by_ = .natural <;> simp [h0, h1, h2]
      · simp [h0, h1]

/-- the cost of a program repair is booked on the day the leak's status turns to repaired, and on
no other day -/
theorem repair_on_repair_day (p : Emission.Params) (cost : Int) (hc : cost ≠ 0)
    (ev : Nat → List Emission.TagEv) (n : Nat) (hr : p.repairable = true) :
    (bookDay p cost ev n).1 ≠ 0 ↔
      ((Emission.run p ev n).status ≠ .repaired ∧ (Emission.run p ev (n + 1)).status = .repaired
        ∧ (Emission.run p ev (n + 1)).by_ ≠ .natural) := by
  rw [bookDay_spec p hr cost ev n]
  by_cases h0 : (Emission.run p ev n).status = .repaired
  · simp [h0]
  · by_cases h1 : (Emission.run p ev (n + 1)).status = .repaired
    · by_cases h2 : (Emission.run p ev (n + 1)).by_ = .natural <;> simp [h0, h1, h2, hc]
    · simp [h0, h1]

/-! ### (7) the program's day -/

private theorem sumTo_add (f g : Nat → Int) (N : Nat) :
    sumTo (fun n => f n + g n) N = sumTo f N + sumTo g N := by
  induction N with
  | zero => rfl
  | succ n ih => simp only [sumTo, ih]; omega

private theorem sumTo_zero (N : Nat) : sumTo (fun _ => 0) N = 0 := by
  induction N with
  | zero => rfl
  | succ n ih => simp [sumTo, ih]

private theorem sumTo_list (es : List Leak) (f : Leak → Nat → Int) (N : Nat) :
    sumTo (fun n => (es.map (fun e => f e n)).sum) N = (es.map (fun e => sumTo (f e) N)).sum := by
  induction es with
  | nil => simpa using sumTo_zero N
  | cons e es ih =>
    simp only [List.map_cons, List.sum_cons]
    rw [sumTo_add (fun n => f e n) (fun n => (es.map (fun e => f e n)).sum), ih]

/-- the repair-cost column of a program over a run adds up to the costs of exactly the leaks the
program repaired, each once; natural repairs add up in the other column (from `repair_once`) -/
theorem program_repairs_once (ms : Nat → List MethodDay) (es : List Leak) (N : Nat)
    (hr : ∀ e ∈ es, e.p.repairable = true) :
    (∀ n, (programDay ms es n).repCost = (es.map (fun e => (bookDay e.p e.cost e.ev n).1)).sum ∧
          (programDay ms es n).cost
            = ((ms n).map (fun m => m.deploy + if n = 0 then m.upfront else 0)).sum + (programDay ms es n).repCost) ∧
    sumTo (fun n => (programDay ms es n).repCost) N
      = (es.map (fun e => if (Emission.run e.p e.ev N).status = .repaired ∧ (Emission.run e.p e.ev N).by_ ≠ .natural
                          then e.cost else 0)).sum ∧
    sumTo (fun n => (programDay ms es n).natRepCost) N
      = (es.map (fun e => if (Emission.run e.p e.ev N).status = .repaired ∧ (Emission.run e.p e.ev N).by_ = .natural
                          then e.cost else 0)).sum := by
  refine ⟨fun n => ⟨rfl, ?_⟩, ?_, ?_⟩
  · have h := (row_identity (n == 0) (ms n) (repSum es n) (natSum es n)).1
    have e : (programDay ms es n).repCost = repSum es n := rfl
    rw [e]
    simp only [programDay]
    rw [h]
    cases n <;> simp
  · show sumTo (fun n => repSum es n) N = _
    unfold repSum
    rw [sumTo_list es (fun e n => (bookDay e.p e.cost e.ev n).1) N]
    apply congrArg
    apply List.map_congr_left
    intro e he
    exact (repair_once e.p e.cost e.ev N (hr e he)).1
  · show sumTo (fun n => natSum es n) N = _
    unfold natSum
    rw [sumTo_list es (fun e n => (bookDay e.p e.cost e.ev n).2) N]
    apply congrArg
    apply List.map_congr_left
    intro e he
    exact (repair_once e.p e.cost e.ev N (hr e he)).2

/-! ### (6) no methods -/

/-- without methods nobody tags, so nothing is ever booked as a program repair -/
theorem no_tag_no_repair_cost (p : Emission.Params) (cost : Int) (n : Nat) :
    (bookDay p cost Emission.noEvents n).1 = 0 := by
  have h := noEvents_untagged p n
  unfold bookDay bookOnUpdate
  have e : Emission.noEvents n = [] := rfl
  rw [e]; simp only [List.foldl_nil]
  unfold Emission.activate
  generalize Emission.run p Emission.noEvents n = s at *
  grind

theorem no_methods_no_cost (first : Bool) (nat : Int) (es : List (Emission.Params × Int)) (n : Nat) :
    (dailyRow first [] ((es.map (fun e => (bookDay e.1 e.2 Emission.noEvents n).1)).sum) nat).cost = 0 := by
  have : (es.map (fun e => (bookDay e.1 e.2 Emission.noEvents n).1)).sum = 0 := by
    induction es with
    | nil => simp
    | cons e es ih => simp only [List.map_cons, List.sum_cons]; rw [ih, no_tag_no_repair_cost]; rfl
  simp [dailyRow, totalDaily, this]

/-- C10 over the model (the code after the two repairs of findings.d/C10.json) -/
theorem C10 : C10_statement :=
  ⟨row_identity, per_site_once, per_day_once, upfront_once,
   fun p cost ev N hr => repair_once p cost ev N hr, no_methods_no_cost,
   fun ms es N hr => program_repairs_once ms es N hr⟩

/-! ### table obligations (regenerated from /repo on every run: `Generated/CrewCost.lean`) -/

/-- the cost model books every item from the parameters and the day's events alone; the code it models
must not carry cost-relevant state from one construction / day / program to the next: the only
class-level containers of the modelled modules are the two read-only dispatch tables of
`ProgramOutputManager`, nothing mutates a shared container, nothing is cached, and the only copy /
pickle hooks are the known ones -/
theorem cost_no_cross_case_state :
    Generated.CrewCost.classLevelContainers =
      [("program_output_manager", "ProgramOutputManager", "PROGRAM_FUNCTIONS_MAPPING"),
       ("program_output_manager", "ProgramOutputManager", "PROGRAM_VISUALIZATION_FUNCTIONS_MAP")] ∧
    Generated.CrewCost.sharedContainerMutations = [] ∧ Generated.CrewCost.cachedFunctions = [] ∧
    Generated.CrewCost.copyHooks =
      [("daylight_calculator", "DaylightCalculatorAve", "__reduce__"),
       ("repairable_emission", "RepairableEmission", "__reduce__"),
       ("repairable_emission", "RepairableEmission", "__setstate__"),
       ("weather_lookup", "WeatherLookup", "__reduce__")] := by decide

/-! ### non-vacuity -/

private def envOk : Envelope := { tempLo := -10, tempHi := 25, windLo := 0, windHi := 8, precipLo := 0, precipHi := 3 }
private def fine : Wx := { temp := 15, wind := 1, precip := 0 }
private def rain : Wx := { temp := 15, wind := 1, precip := 9 }

/-- the F5 witness on the repaired model: one 420-minute survey in an 8 h day completes, exhausts
the crew and is charged 50; a weather-aborted visit and a partial survey are charged nothing; a
site with its own cost 75 is charged 75 -/
example :
    let c : MethodCost := { perDay := 0, perSite := some 50, upfront := 100 }
    (methodDay c false true envOk 480 1
        [{ site := 0, S := 420, siteCost := 0, rep := {}, T := 30, wx := fine }]).deploy = 50 ∧
    (methodDay c false true envOk 480 1
        [{ site := 0, S := 60, siteCost := 0, rep := {}, T := 30, wx := rain }]).deploy = 0 ∧
    (methodDay c false true envOk 480 2
        [{ site := 0, S := 600, siteCost := 0, rep := {}, T := 30, wx := fine },
         { site := 1, S := 60, siteCost := 75, rep := {}, T := 30, wx := fine }]).deploy = 75 ∧
    (methodDay c false true envOk 480 2 []).upfront = 200 := by
  decide +kernel

example :
    (programRows [{ methods := [{ deploy := 5, upfront := 100 }], repCost := 3, natRepCost := 7 },
                  { methods := [{ deploy := 6, upfront := 100 }], repCost := 0, natRepCost := 2 }]).map (·.cost)
      = [108, 6] := by
  decide +kernel

example :
    let p : Emission.Params := { start := 0, nrd := 10, repairDelay := 2, repairable := true,
                                 intermittent := false, activeDur := 1, inactiveDur := 0 }
    let ev : Nat → List Emission.TagEv := fun d => if d = 3 then [{ company := 1, trd := 1 }] else []
    (List.range 12).map (fun n => (bookDay p 200 ev n).1) = [0, 0, 0, 0, 0, 200, 0, 0, 0, 0, 0, 0] := by
  decide +kernel

end LdarModel.Cost
