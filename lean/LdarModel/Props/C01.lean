import LdarModel.Model.Heap
import LdarModel.Generated.Wiring
/-
C01 — every program of a simulation set faces the identical emission scenario.

Part 1 (cursor loop): who is handed which emission, on which day (`activateSrc_spec`, `runSrc_spec`,
`activate_complete`, `activation_day`).
Part 2 (objects): emission objects are mutable and live in the infrastructure; programs have
ARBITRARY behaviours (`Beh`, ∀-quantified); `copied` runs each program on `deepcopy` of the object,
`shared` in place (`C01_objects`, `C01_objects_any_two`, `C01_needs_copy`).
Part 3 (tables): obligations over `Generated/Wiring.lean`, extracted from the source on every run.
-/
namespace LdarModel.Heap

def le (day : Int) (e : EmId) : Bool := decide (e.start ≤ day)

theorem drain_spec (day : Int) (f : EmId) (pend acc : List EmId) :
    (drain day (some f) pend acc).1 = acc.reverse ++ (f :: pend).takeWhile (le day) ∧
    ((match (drain day (some f) pend acc).2.1 with | none => [] | some g => [g]) ++
        (drain day (some f) pend acc).2.2) = (f :: pend).dropWhile (le day) := by
  induction pend generalizing f acc with
  | nil =>
    unfold drain
    by_cases h : f.start ≤ day <;> simp [h, le]
  | cons g rest ih =>
    unfold drain
    by_cases h : f.start ≤ day
    · simp only [h, if_true]
      have := ih g (f :: acc)
      constructor
      · rw [this.1]; simp [le, h]
      · rw [this.2]; simp [le, h]
    · simp [h, le]

/-- one call of `Source.activate_emissions`: it activates exactly the longest prefix (in pop order)
of emissions that have started, and keeps the rest — nothing is skipped, nothing duplicated -/
theorem activateSrc_spec (day : Int) (s : Src) :
    (activateSrc day s).1 = s.all.takeWhile (le day) ∧
    (activateSrc day s).2.all = s.all.dropWhile (le day) := by
  unfold activateSrc Src.all
  cases hn : s.next with
  | none =>
    cases hp : s.pending with
    | nil => simp [drain]
    | cons g rest =>
      have := drain_spec day g rest []
      simp only [List.reverse_nil, List.nil_append] at this
      simp only [List.nil_append]
      exact this
  | some f =>
    have := drain_spec day f s.pending []
    simp only [List.reverse_nil, List.nil_append] at this
    simp only [List.singleton_append]
    exact this

theorem takeWhile_chain (l : List EmId) (d1 d2 : Int) (h : d1 ≤ d2) :
    l.takeWhile (le d1) ++ (l.dropWhile (le d1)).takeWhile (le d2) = l.takeWhile (le d2) ∧
    (l.dropWhile (le d1)).dropWhile (le d2) = l.dropWhile (le d2) := by
  induction l with
  | nil => simp
  | cons x xs ih =>
    by_cases h1 : x.start ≤ d1
    · have h2 : x.start ≤ d2 := by omega
      simp [le, h1, h2] at ih ⊢
      exact ih
    · by_cases h2 : x.start ≤ d2 <;> simp [le, h1, h2]

/-- `k ≥ 1` days starting at `day`: the source hands out exactly the longest started prefix as of
the last of those days -/
theorem runSrc_spec (k : Nat) (day : Int) (s : Src) :
    (runSrc (k + 1) day s).1 = s.all.takeWhile (le (day + k)) ∧
    (runSrc (k + 1) day s).2.all = s.all.dropWhile (le (day + k)) := by
  induction k generalizing day s with
  | zero =>
    have := activateSrc_spec day s
    simp only [runSrc, List.append_nil]
    simpa using this
  | succ k ih =>
    have h1 := activateSrc_spec day s
    have h2 := ih (day + 1) (activateSrc day s).2
    have hc := takeWhile_chain s.all day (day + 1 + k) (by omega)
    have e : runSrc (k + 1 + 1) day s =
        ((activateSrc day s).1 ++ (runSrc (k + 1) (day + 1) (activateSrc day s).2).1,
         (runSrc (k + 1) (day + 1) (activateSrc day s).2).2) := rfl
    rw [e]
    simp only
    rw [h2.1, h2.2, h1.1, h1.2]
    have : day + ((k + 1 : Nat) : Int) = day + 1 + (k : Int) := by push_cast; omega
    rw [this]
    exact hc

theorem sorted_takeWhile_eq_filter (l : List EmId) (d : Int) (h : sortedByStart l = true) :
    l.takeWhile (le d) = l.filter (le d) := by
  induction l with
  | nil => rfl
  | cons x xs ih =>
    by_cases hx : x.start ≤ d
    · have hs : sortedByStart xs = true := by
        cases xs with
        | nil => rfl
        | cons y ys => simp [sortedByStart] at h; exact h.2
      simp [le, hx] at ih ⊢
      exact ih hs
    · -- everything after x starts even later
      have hall : ∀ y ∈ xs, ¬ y.start ≤ d := by
        clear ih
        induction xs generalizing x with
        | nil => intro y hy; cases hy
        | cons z zs ihz =>
          simp only [sortedByStart, Bool.and_eq_true, decide_eq_true_eq] at h
          intro y hy
          have hz : ¬ z.start ≤ d := by omega
          rcases List.mem_cons.1 hy with rfl | hy
          · exact hz
          · exact ihz z h.2 hz y hy
      have : xs.filter (le d) = [] := by
        apply List.filter_eq_nil_iff.2
        intro y hy; simp [le, hall y hy]
      simp [le, hx, this]

/-- the day-major loop of the simulator equals the per-source loops (sources do not interact) -/
theorem runProgram_eq (k : Nat) (day : Int) (st : Store) :
    runProgram k day st = ((st.map (runSrc k day)).map (·.1), (st.map (runSrc k day)).map (·.2)) := by
  induction k generalizing day st with
  | zero =>
    simp only [runProgram, runSrc, List.map_map]
    congr 1
    induction st with
    | nil => rfl
    | cons s st ihs => simp only [List.map_cons, Function.comp]; rw [← ihs]
  | succ k ih =>
    simp only [runProgram, runSrc]
    rw [ih]
    simp only [List.map_map]
    congr 1
    -- zipWith over two maps of the same list
    induction st with
    | nil => rfl
    | cons s st ihs =>
      simp only [List.map_cons, List.zipWith_cons_cons, Function.comp] at ihs ⊢
      rw [ihs]

/-- activation is complete: after `N ≥ 1` days a program has been confronted, per source, with the
longest started prefix of the source's list; when the list is sorted by start date (which the
generator guarantees, C16 `generate_sorted`) that is every emission starting on or before the last day -/
theorem activate_complete (N : Nat) (st : Store) (hs : ∀ s ∈ st, sortedByStart s.all = true) :
    (runProgram (N + 1) 0 st).1 = expected (N + 1) st := by
  rw [runProgram_eq]
  simp only [expected, List.map_map]
  apply List.map_congr_left
  intro s hsm
  simp only [Function.comp]
  rw [(runSrc_spec N 0 s).1, sorted_takeWhile_eq_filter _ _ (hs s hsm)]
  congr 1
  funext e
  simp [le]

/-- a copying program leaves the loaded scenario untouched for its successors -/
theorem runSeq_copied (N : Nat) (ps : List Nat) (g : Store) :
    ∀ x ∈ runSeq .copied N ps g, x.2 = (runProgram N 0 g).1 := by
  induction ps with
  | nil => intro x hx; cases hx
  | cons p ps ih =>
    intro x hx
    simp only [runSeq, List.mem_cons] at hx
    rcases hx with rfl | hx
    · rfl
    · exact ih x hx

/-- C01: with the deep copy, for every set of programs, every order and every allocation to
workers, every program is confronted with exactly the same emissions, and (sorted scenario) with
every emission of the scenario that starts within the period — whatever the other programs did. -/
theorem C01 (N : Nat) (workers : List (List Nat)) (g : Store)
    (hs : ∀ s ∈ g, sortedByStart s.all = true) :
    ∀ x ∈ runSchedule .copied (N + 1) workers g, x.2 = expected (N + 1) g := by
  intro x hx
  simp only [runSchedule, List.mem_flatten, List.mem_map] at hx
  obtain ⟨l, ⟨ps, _, rfl⟩, hxl⟩ := hx
  rw [runSeq_copied (N + 1) ps g x hxl]
  exact activate_complete N g hs

theorem C01_any_two (N : Nat) (workers : List (List Nat)) (g : Store) :
    ∀ x ∈ runSchedule .copied N workers g, ∀ y ∈ runSchedule .copied N workers g, x.2 = y.2 := by
  intro x hx y hy
  simp only [runSchedule, List.mem_flatten, List.mem_map] at hx hy
  obtain ⟨l, ⟨ps, _, rfl⟩, hxl⟩ := hx
  obtain ⟨l', ⟨ps', _, rfl⟩, hyl⟩ := hy
  rw [runSeq_copied N ps g x hxl, runSeq_copied N ps' g y hyl]

/-- without the copy the property fails (identity level): the second program of a worker finds the
pending lists consumed -/
theorem C01_needs_copy_consumed :
    ∃ (g : Store) (N : Nat), ∃ x ∈ runSchedule .shared N [[0, 1]] g, x.2 ≠ expected N g := by
  refine ⟨[{ pending := [{ id := 0, start := -3 }, { id := 1, start := 2 }] }], 5, ?_⟩
  decide +kernel

/-! ### activation day -/

theorem sorted_tail (x : EmId) (xs : List EmId) (h : sortedByStart (x :: xs) = true) :
    sortedByStart xs = true := by
  cases xs with
  | nil => rfl
  | cons y ys => simp [sortedByStart] at h; exact h.2

theorem sorted_head_le (x : EmId) (xs : List EmId) (h : sortedByStart (x :: xs) = true) :
    ∀ y ∈ xs, x.start ≤ y.start := by
  induction xs generalizing x with
  | nil => intro y hy; cases hy
  | cons z zs ih =>
    simp only [sortedByStart, Bool.and_eq_true, decide_eq_true_eq] at h
    intro y hy
    rcases List.mem_cons.1 hy with rfl | hy
    · exact h.1
    · have := ih z h.2 y hy; omega

/-- in a sorted list, what becomes due between two days is exactly what starts in between -/
theorem sorted_between (l : List EmId) (d1 d2 : Int) (h : sortedByStart l = true) :
    (l.dropWhile (le d1)).takeWhile (le d2) = l.filter (fun e => !le d1 e && le d2 e) := by
  induction l with
  | nil => rfl
  | cons x xs ih =>
    have hs := sorted_tail x xs h
    by_cases h1 : x.start ≤ d1
    · simp only [le, h1, decide_true, List.dropWhile_cons_of_pos, Bool.not_true, Bool.false_and,
        Bool.false_eq_true, not_false_eq_true, List.filter_cons_of_neg]
      exact ih hs
    · have hd : (x :: xs).dropWhile (le d1) = x :: xs := by simp [le, h1]
      rw [hd, sorted_takeWhile_eq_filter _ _ h]
      apply List.filter_congr
      intro y hy
      have : ¬ y.start ≤ d1 := by
        rcases List.mem_cons.1 hy with rfl | hy
        · exact h1
        · have := sorted_head_le x xs h y hy; omega
      simp [le, this]

theorem srcAfter_all (n : Nat) (s : Src) :
    (srcAfter (n + 1) s).all = s.all.dropWhile (le (n : Int)) := by
  have := (runSrc_spec n 0 s).2
  simpa [srcAfter] using this

/-- **activation day**: with a sorted pending list, the emissions a source hands out on day `n`
(day 0 = first simulated day) are exactly those with `max start 0 = n` — pre-existing emissions on
the first day, every other one on its start date, none twice (the days partition the list) -/
theorem activation_day (s : Src) (hs : sortedByStart s.all = true) (n : Nat) :
    handedOutOn n s = s.all.filter (fun e => decide ((if e.start > 0 then e.start else 0) = (n : Int))) := by
  unfold handedOutOn
  rw [(activateSrc_spec _ _).1]
  cases n with
  | zero =>
    have : srcAfter 0 s = s := rfl
    rw [this, sorted_takeWhile_eq_filter _ _ hs]
    apply List.filter_congr
    intro e _
    simp only [le]
    by_cases h : e.start > 0
    · simp [h]; omega
    · simp [h]; omega
  | succ m =>
    rw [srcAfter_all, sorted_between _ _ _ hs]
    apply List.filter_congr
    intro e _
    simp only [le]
    have hc : ((m + 1 : Nat) : Int) = (m : Int) + 1 := by push_cast; rfl
    rw [hc]
    by_cases h : e.start > 0
    · by_cases h1 : e.start ≤ (m : Int) <;> by_cases h2 : e.start ≤ (m : Int) + 1 <;>
        by_cases h3 : e.start = (m : Int) + 1 <;> simp [h, h1, h2, h3] <;> omega
    · have h1 : e.start ≤ (m : Int) := by omega
      have h3 : ¬ (0 : Int) = (m : Int) + 1 := by omega
      simp [h, h1, h3]

/-- ... in particular an emission of the scenario is handed out on day `n` iff `max start 0 = n` -/
theorem activation_day_mem (s : Src) (hs : sortedByStart s.all = true) (n : Nat) (e : EmId)
    (he : e ∈ s.all) :
    e ∈ handedOutOn n s ↔ (if e.start > 0 then e.start else 0) = (n : Int) := by
  rw [activation_day s hs n]
  simp [he]


/-! ### emission objects, arbitrary program behaviours, copy vs in place -/

theorem copyEm_eq (e : EmId) : copyEm e = e := by cases e; rfl

theorem deepcopy_eq (inf : Infra) : deepcopy inf = inf := by
  have h : copyEm = id := funext copyEm_eq
  unfold deepcopy
  rw [h]
  induction inf with
  | nil => rfl
  | cons s t ih =>
    simp only [List.map_cons, List.map_id, Option.map_id, id] at ih ⊢
    rw [ih]

/-- the identity channel of a program run on an infrastructure object is the run of the cursor loop
on its pending lists — whatever the program does to the emissions it holds -/
theorem runProgramO_proj (b : Beh) (k : Nat) (day : Int) (inf : Infra) :
    (runProgramO b k day inf).1 = (runProgram k day (inf.map (·.src))).1 ∧
    (runProgramO b k day inf).2.map (·.src) = (runProgram k day (inf.map (·.src))).2 := by
  induction k generalizing day inf with
  | zero => simp [runProgramO, runProgram]
  | succ k ih =>
    have h1 : (inf.map (daySrcO b day)).map (·.1) = ((inf.map (·.src)).map (activateSrc day)).map (·.1) := by
      simp [List.map_map, Function.comp, daySrcO]
    have h2 : ((inf.map (daySrcO b day)).map (·.2)).map (·.src) =
        ((inf.map (·.src)).map (activateSrc day)).map (·.2) := by
      simp [List.map_map, Function.comp, daySrcO]
    have := ih (day + 1) ((inf.map (daySrcO b day)).map (·.2))
    simp only [runProgramO, runProgram]
    rw [this.1, this.2, h1, h2]
    exact ⟨rfl, rfl⟩

/-- what a program faces does not depend on what it does: the objects its components already hold,
then the longest started prefixes of the pending lists — as found -/
theorem facedBy_fst (b : Beh) (N : Nat) (inf : Infra) :
    (facedBy b N inf).1 =
      List.zipWith (· ++ ·) (inf.map (·.held)) (runProgram N 0 (inf.map (·.src))).1 := by
  unfold facedBy
  simp only
  rw [(runProgramO_proj b N 0 inf).1]

theorem zipWith_nil_left {α β : Type} (l : List β) (xs : List (List α)) (h : xs.length = l.length) :
    List.zipWith (· ++ ·) (l.map (fun _ => ([] : List α))) xs = xs := by
  induction l generalizing xs with
  | nil => cases xs with
    | nil => rfl
    | cons x xs => simp at h
  | cons a l ih =>
    cases xs with
    | nil => simp at h
    | cons x xs =>
      simp only [List.map_cons, List.zipWith_cons_cons, List.nil_append]
      rw [ih xs (by simpa using h)]

theorem runProgram_length (k : Nat) (day : Int) (st : Store) : (runProgram k day st).1.length = st.length := by
  rw [runProgram_eq]; simp

/-- on a freshly loaded scenario a program faces exactly what the cursor loop hands out -/
theorem facedBy_pristine (b : Beh) (N : Nat) (g : Infra) (hp : pristine g) :
    (facedBy b N g).1 = (runProgram N 0 (g.map (·.src))).1 := by
  rw [facedBy_fst]
  have : g.map (·.held) = g.map (fun _ => ([] : List EmId)) :=
    List.map_congr_left (fun s hs => hp s hs)
  rw [this]
  apply zipWith_nil_left
  rw [runProgram_length]; simp

/-- with the copy, each program of a worker faces what the first one faces — whatever any of them does -/
theorem runSeqO_copied (N : Nat) (ps : List (Nat × Beh)) (g : Infra) :
    ∀ x ∈ runSeqO .copied N ps g,
      x.2 = List.zipWith (· ++ ·) (g.map (·.held)) (runProgram N 0 (g.map (·.src))).1 := by
  induction ps with
  | nil => intro x hx; cases hx
  | cons p ps ih =>
    intro x hx
    obtain ⟨p, b⟩ := p
    simp only [runSeqO, List.mem_cons] at hx
    rcases hx with rfl | hx
    · simp only [deepcopy_eq, facedBy_fst]
    · exact ih x hx

/-- **C01 on emission objects.**  The deep-copy interpreter, for every set of programs with
ARBITRARY behaviours (each may mutate the life-cycle fields of every emission it holds, every day),
every order and every allocation to workers: every program is confronted, source by source, with
exactly the emission objects of the loaded scenario that start within the period — same identity
(id, start, rate, repairability, natural end) and life-cycle fields as generated. -/
theorem C01_objects (N : Nat) (workers : List (List (Nat × Beh))) (g : Infra) (hp : pristine g)
    (hs : ∀ s ∈ g, sortedByStart s.src.all = true) :
    ∀ x ∈ runScheduleO .copied (N + 1) workers g, x.2 = expected (N + 1) (g.map (·.src)) := by
  intro x hx
  simp only [runScheduleO, List.mem_flatten, List.mem_map] at hx
  obtain ⟨l, ⟨ps, _, rfl⟩, hxl⟩ := hx
  rw [deepcopy_eq] at hxl
  rw [runSeqO_copied (N + 1) ps g x hxl, ← facedBy_fst (fun _ _ e => e.life), facedBy_pristine _ _ _ hp]
  apply activate_complete
  intro s hsm
  obtain ⟨t, ht, rfl⟩ := List.mem_map.1 hsm
  exact hs t ht

/-- non-interference proper (no hypothesis on the scenario): under the copy any two programs of a
schedule face the same objects, whatever they and the others do -/
theorem C01_objects_any_two (N : Nat) (workers : List (List (Nat × Beh))) (g : Infra) :
    ∀ x ∈ runScheduleO .copied N workers g, ∀ y ∈ runScheduleO .copied N workers g, x.2 = y.2 := by
  intro x hx y hy
  simp only [runScheduleO, List.mem_flatten, List.mem_map] at hx hy
  obtain ⟨l, ⟨ps, _, rfl⟩, hxl⟩ := hx
  obtain ⟨l', ⟨ps', _, rfl⟩, hyl⟩ := hy
  rw [runSeqO_copied N ps _ x hxl, runSeqO_copied N ps' _ y hyl]

/-- a program that "repairs" (sets the life-cycle field to 7) whatever it holds -/
def repairAll : Beh := fun _ _ _ => 7

/-- without the copy the property fails, in both ways.  (1) identity level: the second program of a
worker finds the pending lists consumed (`C01_needs_copy_consumed`).  (2) mutation witness: on
emission objects the second program finds, in its components, the very objects the first one was
handed — the same identities as the scenario, but already "repaired" by the first program. -/
theorem C01_needs_copy :
    (∃ (g : Store) (N : Nat), ∃ x ∈ runSchedule .shared N [[0, 1]] g, x.2 ≠ expected N g) ∧
    (∃ (g : Infra) (N : Nat), pristine g ∧ (∀ s ∈ g, sortedByStart s.src.all = true) ∧
      ∃ x ∈ runScheduleO .shared N [[(0, repairAll), (1, repairAll)]] g,
        x.2.map (·.map ident) = (expected N (g.map (·.src))).map (·.map ident) ∧
        x.2 ≠ expected N (g.map (·.src))) := by
  refine ⟨C01_needs_copy_consumed, ?_⟩
  refine ⟨[{ tag := 0, src := { pending := [{ id := 0, start := -3, rate := 512, nrd := 30 },
                                              { id := 1, start := 2, rate := 1024, nrd := 30 }] } }], 5, ?_⟩
  decide +kernel

/-! ### the next simulation number on the same infrastructure object -/

theorem loadScenario_spec (lists : List (List EmId)) (g : Infra) (hf : fresh g)
    (hl : lists.length = g.length) :
    pristine (loadScenario lists g) ∧
    (loadScenario lists g).map (·.src) = lists.map (fun l => ({ pending := l } : Src)) := by
  induction lists generalizing g with
  | nil => cases g with
    | nil => exact ⟨fun s hs => (nomatch hs), rfl⟩
    | cons a t => simp at hl
  | cons l ls ih =>
    cases g with
    | nil => simp at hl
    | cons a t =>
      have hft : fresh t := fun s hs => hf s (List.mem_cons_of_mem _ hs)
      have := ih t hft (by simpa using hl)
      have ha := hf a (List.mem_cons_self ..)
      constructor
      · intro s hs
        simp only [loadScenario, List.zipWith_cons_cons, List.mem_cons] at hs
        rcases hs with rfl | hs
        · exact ha.1
        · exact this.1 s hs
      · simp only [loadScenario, List.zipWith_cons_cons, List.map_cons]
        congr 1
        · rw [ha.2]
        · exact this.2

/-- **history independence across simulation numbers.**  Under the copy the infrastructure object of
the manager is never run, so it stays `fresh`; loading the scenario of the next simulation number
into it then confronts every program — whatever ran before on copies, whatever the programs do —
with exactly the emissions of THAT scenario that start within the period -/
theorem C01_next_simulation (N : Nat) (workers : List (List (Nat × Beh))) (g : Infra)
    (lists : List (List EmId)) (hf : fresh g) (hl : lists.length = g.length)
    (hs : ∀ l ∈ lists, sortedByStart l = true) :
    ∀ x ∈ runScheduleO .copied (N + 1) workers (loadScenario lists g),
      x.2 = lists.map (fun l => l.filter (fun e => decide (e.start ≤ ((N + 1 : Nat) : Int) - 1))) := by
  have sp := loadScenario_spec lists g hf hl
  intro x hx
  have := C01_objects N workers (loadScenario lists g) sp.1 (by
    intro s hsm
    have : s.src ∈ (loadScenario lists g).map (·.src) := List.mem_map.2 ⟨s, hsm, rfl⟩
    rw [sp.2] at this
    obtain ⟨l, hlm, hle⟩ := List.mem_map.1 this
    rw [← hle]
    exact hs l hlm) x hx
  rw [this, sp.2]
  simp [expected, Src.all, List.map_map, Function.comp]

/-- without the copy, state survives into the next simulation number: the components still hold the
emissions of simulation 0 and the cursor still points at a simulation-0 emission when the lists of
simulation 1 are loaded -/
theorem C01_next_simulation_needs_copy :
    ∃ (g : Infra) (l0 l1 : List (List EmId)) (N : Nat), fresh g ∧
      (facedBy repairAll N (loadScenario l1 (facedBy repairAll N (loadScenario l0 g)).2)).1 ≠
        expected N (l1.map (fun l => ({ pending := l } : Src))) := by
  refine ⟨[{ tag := 0, src := { pending := [] } }],
          [[{ id := 0, start := 1 }, { id := 1, start := 9 }]], [[{ id := 0, start := 2 }]], 5, ?_⟩
  decide +kernel

/-! ### obligations on the wiring extracted from the current source (Generated/Wiring.lean) -/

open Generated.Wiring in
/-- which interpreter the code as it stands implements: `copied` only when `simulate()` deep-copies,
hands on nothing but the copy, and no class reachable from the infrastructure overrides what
`copy.deepcopy` / pickling does -/
def modeOfCode : Mode :=
  if simulateDeepCopies && simulateUsesOnlyCopy && customCopyHooks.isEmpty then .copied else .shared

/-- `simulate()` deep-copies the infrastructure on every path and hands only the copy on; the scenario
is loaded once per simulation number before the program loop; generation reads no life-cycle field -/
theorem wiring_ok :
    Generated.Wiring.simulateDeepCopies = true ∧ Generated.Wiring.simulateUsesOnlyCopy = true ∧
    Generated.Wiring.scenarioLoadedOncePerSim = true ∧ Generated.Wiring.generationIgnoresLifecycle = true := by
  decide

open Generated.Wiring in
/-- no class of virtual_world/* or emission_types/* defines `__deepcopy__`, `__copy__`,
`__reduce_ex__` or `__getstate__`; no `__reduce__`/reconstructor pair drops or misplaces a field;
`Source._create_emission` and the helpers it calls touch no life-cycle attribute -/
theorem copy_hooks_ok :
    customCopyHooks = [] ∧ reduceDropped = [] ∧ reduceMisassigned = [] ∧ creationLifecycleReads = [] := by
  decide

open Generated.Wiring in
/-- does the `__reduce__` of class `cls` carry attribute `attr`? (no `__reduce__`: default pickling
keeps the whole `__dict__`) -/
def carried (cls attr : String) : Bool :=
  match reduceArgs.lookup cls with
  | none => true
  | some args => args.contains "*" || args.contains attr

open Generated.Wiring in
/-- recomputed in Lean from the two raw tables: every attribute an `__init__` of the infrastructure /
emission classes sets is carried by the class's `__reduce__` — nothing is lost when the scenario is
deep-copied for a program or pickled to a pool worker -/
theorem reduce_keeps_every_init_field :
    ∀ p ∈ initAttrs, ∀ a ∈ p.2, carried p.1 a = true := by
  decide

/-- the identity fields, the pending lists, the cursor and the component lists survive pickling -/
theorem identity_fields_pickled :
    carried "RepairableEmission" "_nrd" = true ∧ carried "NonRepairableEmission" "_duration" = true ∧
    carried "Emission" "_rate" = true ∧ carried "Emission" "_start_date" = true ∧
    carried "Emission" "_emissions_id" = true ∧ carried "Emission" "_repairable" = true ∧
    carried "Source" "_generated_emissions" = true ∧ carried "Source" "_next_emission" = true ∧
    carried "Component" "_active_emissions" = true ∧ carried "Component" "_inactive_emissions" = true := by
  decide

/-- nothing in programs/*, scheduling/* or `simulate()` mutates in place a list of sites it was
handed (`infra._sites` of the program's own infrastructure is passed to `Program`, every `Method` and
every schedule): no site — and with it its pending emission lists — can drop out of what a program
faces because of the methods it deploys -/
theorem sites_list_untouched : Generated.Wiring.sitesListMutations = [] := by
  decide

open Generated.Wiring in
/-- state that every infrastructure copy of one process would share: the only class- / module-level
mutable container of virtual_world/* and emission_types/* is the constant dtype table of `Emission`;
nothing mutates such a container in place; no function of these packages is cache-decorated -/
theorem no_shared_state_between_copies :
    classLevelContainers = ["Emission.EMIS_SUMMARY_DTYPES"] ∧ classLevelContainerMutations = [] ∧
    cachedFunctions = [] := by
  decide

/-- C01 for the code as extracted today -/
theorem C01_current_code (N : Nat) (workers : List (List Nat)) (g : Store)
    (hs : ∀ s ∈ g, sortedByStart s.all = true) :
    ∀ x ∈ runSchedule modeOfCode (N + 1) workers g, x.2 = expected (N + 1) g := by
  have : modeOfCode = .copied := by decide
  rw [this]
  exact C01 N workers g hs

/-- ... and on emission objects, for arbitrary program behaviours -/
theorem C01_current_code_objects (N : Nat) (workers : List (List (Nat × Beh))) (g : Infra)
    (hp : pristine g) (hs : ∀ s ∈ g, sortedByStart s.src.all = true) :
    ∀ x ∈ runScheduleO modeOfCode (N + 1) workers g, x.2 = expected (N + 1) (g.map (·.src)) := by
  have : modeOfCode = .copied := by decide
  rw [this]
  exact C01_objects N workers g hp hs

/-- non-vacuity of the sortedness hypothesis and of `C01` -/
example :
    let g : Store := [{ pending := [{ id := 0, start := -3 }, { id := 1, start := 2 }, { id := 2, start := 9 }] },
                      { pending := [{ id := 0, start := 4 }] }]
    (∀ s ∈ g, sortedByStart s.all = true) ∧
    runSchedule .copied 6 [[0, 1], [2]] g =
      [(0, [[{ id := 0, start := -3 }, { id := 1, start := 2 }], [{ id := 0, start := 4 }]]),
       (1, [[{ id := 0, start := -3 }, { id := 1, start := 2 }], [{ id := 0, start := 4 }]]),
       (2, [[{ id := 0, start := -3 }, { id := 1, start := 2 }], [{ id := 0, start := 4 }]])] := by
  decide +kernel

/-- non-vacuity of `C01_objects`: a pristine sorted scenario, two workers, three programs with
different behaviours (do nothing / repair everything / age by the day number) -/
example :
    let g : Infra := [{ tag := 0, src := { pending := [{ id := 0, start := -3, rate := 512, nrd := 30 },
                                                         { id := 1, start := 2, rate := 1024, nrd := 30 },
                                                         { id := 2, start := 9 }] } },
                      { tag := 1, src := { pending := [{ id := 0, start := 4, repairable := false, nrd := 20 }] } }]
    let ps : List (List (Nat × Beh)) :=
      [[(0, fun _ _ e => e.life), (1, repairAll)], [(2, fun d _ e => e.life + d.toNat)]]
    pristine g ∧ (∀ s ∈ g, sortedByStart s.src.all = true) ∧
    (∀ x ∈ runScheduleO .copied 6 ps g, x.2 = expected 6 (g.map (·.src))) ∧
    (runScheduleO .copied 6 ps g).length = 3 ∧
    handedOutOn 0 { pending := [{ id := 0, start := -3 }, { id := 1, start := 2 }] } = [{ id := 0, start := -3 }] ∧
    handedOutOn 2 { pending := [{ id := 0, start := -3 }, { id := 1, start := 2 }] } = [{ id := 1, start := 2 }] := by
  decide +kernel

end LdarModel.Heap
