import LdarModel.Model.Heap
import LdarModel.Generated.Wiring
/-
C01 — every program of a simulation set faces the identical emission scenario.
-/
namespace LdarModel.Heap

def le (day : Int) (e : EmId) : Bool := decide (e.start ≤ day)

theorem drain_spec (day : Int) (f : EmId) (pend acc : List EmId) :
    (drain day (some f) pend acc).1 = acc.reverse ++ (f :: pend).takeWhile (le day) ∧
    ((match (drain day (some f) pend acc).2.1 with | none => [] | some g => [g]) ++
        (drain day (some f) pend acc).2.2) = (f :: pend).dropWhile (le day) := by
  induction pend generalizing f acc with
  | nil =>
    unfold drain
    by_cases h : f.start ≤ day <;> simp [h, le]
  | cons g rest ih =>
    unfold drain
    by_cases h : f.start ≤ day
    · simp only [h, if_true]
      have := ih g (f :: acc)
      constructor
      · rw [this.1]; simp [le, h]
      · rw [this.2]; simp [le, h]
    · simp [h, le]

/-- one call of `Source.activate_emissions`: it activates exactly the longest prefix (in pop order)
of emissions that have started, and keeps the rest — nothing is skipped, nothing duplicated -/
theorem activateSrc_spec (day : Int) (s : Src) :
    (activateSrc day s).1 = s.all.takeWhile (le day) ∧
    (activateSrc day s).2.all = s.all.dropWhile (le day) := by
  unfold activateSrc Src.all
  cases hn : s.next with
  | none =>
    cases hp : s.pending with
    | nil => simp [drain]
    | cons g rest =>
      have := drain_spec day g rest []
      simp only [List.reverse_nil, List.nil_append] at this
      simp only [List.nil_append]
      exact this
  | some f =>
    have := drain_spec day f s.pending []
    simp only [List.reverse_nil, List.nil_append] at this
    simp only [List.singleton_append]
    exact this

theorem takeWhile_chain (l : List EmId) (d1 d2 : Int) (h : d1 ≤ d2) :
    l.takeWhile (le d1) ++ (l.dropWhile (le d1)).takeWhile (le d2) = l.takeWhile (le d2) ∧
    (l.dropWhile (le d1)).dropWhile (le d2) = l.dropWhile (le d2) := by
  induction l with
  | nil => simp
  | cons x xs ih =>
    by_cases h1 : x.start ≤ d1
    · have h2 : x.start ≤ d2 := by omega
      simp [le, h1, h2] at ih ⊢
      exact ih
    · by_cases h2 : x.start ≤ d2 <;> simp [le, h1, h2]

/-- `k ≥ 1` days starting at `day`: the source hands out exactly the longest started prefix as of
the last of those days -/
theorem runSrc_spec (k : Nat) (day : Int) (s : Src) :
    (runSrc (k + 1) day s).1 = s.all.takeWhile (le (day + k)) ∧
    (runSrc (k + 1) day s).2.all = s.all.dropWhile (le (day + k)) := by
  induction k generalizing day s with
  | zero =>
    have := activateSrc_spec day s
    simp only [runSrc, List.append_nil]
    simpa using this
  | succ k ih =>
    have h1 := activateSrc_spec day s
    have h2 := ih (day + 1) (activateSrc day s).2
    have hc := takeWhile_chain s.all day (day + 1 + k) (by omega)
    have e : runSrc (k + 1 + 1) day s =
        ((activateSrc day s).1 ++ (runSrc (k + 1) (day + 1) (activateSrc day s).2).1,
         (runSrc (k + 1) (day + 1) (activateSrc day s).2).2) := rfl
    rw [e]
    simp only
    rw [h2.1, h2.2, h1.1, h1.2]
    have : day + ((k + 1 : Nat) : Int) = day + 1 + (k : Int) := by push_cast; omega
    rw [this]
    exact hc

theorem sorted_takeWhile_eq_filter (l : List EmId) (d : Int) (h : sortedByStart l = true) :
    l.takeWhile (le d) = l.filter (le d) := by
  induction l with
  | nil => rfl
  | cons x xs ih =>
    by_cases hx : x.start ≤ d
    · have hs : sortedByStart xs = true := by
        cases xs with
        | nil => rfl
        | cons y ys => simp [sortedByStart] at h; exact h.2
      simp [le, hx] at ih ⊢
      exact ih hs
    · -- everything after x starts even later
      have hall : ∀ y ∈ xs, ¬ y.start ≤ d := by
        clear ih
        induction xs generalizing x with
        | nil => intro y hy; cases hy
        | cons z zs ihz =>
          simp only [sortedByStart, Bool.and_eq_true, decide_eq_true_eq] at h
          intro y hy
          have hz : ¬ z.start ≤ d := by omega
          rcases List.mem_cons.1 hy with rfl | hy
          · exact hz
          · exact ihz z h.2 hz y hy
      have : xs.filter (le d) = [] := by
        apply List.filter_eq_nil_iff.2
        intro y hy; simp [le, hall y hy]
      simp [le, hx, this]

/-- the day-major loop of the simulator equals the per-source loops (sources do not interact) -/
theorem runProgram_eq (k : Nat) (day : Int) (st : Store) :
    runProgram k day st = ((st.map (runSrc k day)).map (·.1), (st.map (runSrc k day)).map (·.2)) := by
  induction k generalizing day st with
  | zero =>
    simp only [runProgram, runSrc, List.map_map]
    congr 1
    induction st with
    | nil => rfl
    | cons s st ihs => simp only [List.map_cons, Function.comp]; rw [← ihs]
  | succ k ih =>
    simp only [runProgram, runSrc]
    rw [ih]
    simp only [List.map_map]
    congr 1
    -- zipWith over two maps of the same list
    induction st with
    | nil => rfl
    | cons s st ihs =>
      simp only [List.map_cons, List.zipWith_cons_cons, Function.comp] at ihs ⊢
      rw [ihs]

/-- activation is complete: after `N ≥ 1` days a program has been confronted, per source, with the
longest started prefix of the source's list; when the list is sorted by start date (which the
generator guarantees, C16 `generate_sorted`) that is every emission starting on or before the last day -/
theorem activate_complete (N : Nat) (st : Store) (hs : ∀ s ∈ st, sortedByStart s.all = true) :
    (runProgram (N + 1) 0 st).1 = expected (N + 1) st := by
  rw [runProgram_eq]
  simp only [expected, List.map_map]
  apply List.map_congr_left
  intro s hsm
  simp only [Function.comp]
  rw [(runSrc_spec N 0 s).1, sorted_takeWhile_eq_filter _ _ (hs s hsm)]
  congr 1
  funext e
  simp [le]

/-- a copying program leaves the loaded scenario untouched for its successors -/
theorem runSeq_copied (N : Nat) (ps : List Nat) (g : Store) :
    ∀ x ∈ runSeq .copied N ps g, x.2 = (runProgram N 0 g).1 := by
  induction ps with
  | nil => intro x hx; cases hx
  | cons p ps ih =>
    intro x hx
    simp only [runSeq, List.mem_cons] at hx
    rcases hx with rfl | hx
    · rfl
    · exact ih x hx

/-- C01: with the deep copy, for every set of programs, every order and every allocation to
workers, every program is confronted with exactly the same emissions, and (sorted scenario) with
every emission of the scenario that starts within the period — whatever the other programs did. -/
theorem C01 (N : Nat) (workers : List (List Nat)) (g : Store)
    (hs : ∀ s ∈ g, sortedByStart s.all = true) :
    ∀ x ∈ runSchedule .copied (N + 1) workers g, x.2 = expected (N + 1) g := by
  intro x hx
  simp only [runSchedule, List.mem_flatten, List.mem_map] at hx
  obtain ⟨l, ⟨ps, _, rfl⟩, hxl⟩ := hx
  rw [runSeq_copied (N + 1) ps g x hxl]
  exact activate_complete N g hs

theorem C01_any_two (N : Nat) (workers : List (List Nat)) (g : Store) :
    ∀ x ∈ runSchedule .copied N workers g, ∀ y ∈ runSchedule .copied N workers g, x.2 = y.2 := by
  intro x hx y hy
  simp only [runSchedule, List.mem_flatten, List.mem_map] at hx hy
  obtain ⟨l, ⟨ps, _, rfl⟩, hxl⟩ := hx
  obtain ⟨l', ⟨ps', _, rfl⟩, hyl⟩ := hy
  rw [runSeq_copied N ps g x hxl, runSeq_copied N ps' g y hyl]

/-- without the copy the property fails: the second program of a worker finds the lists consumed -/
theorem C01_needs_copy :
    ∃ (g : Store) (N : Nat), ∃ x ∈ runSchedule .shared N [[0, 1]] g, x.2 ≠ expected N g := by
  refine ⟨[{ pending := [{ id := 0, start := -3 }, { id := 1, start := 2 }] }], 5, ?_⟩
  decide +kernel

/-! ### obligations on the wiring extracted from the current source (Generated/Wiring.lean) -/

/-- which interpreter the code as it stands implements -/
def modeOfCode : Mode :=
  if Generated.Wiring.simulateDeepCopies && Generated.Wiring.simulateUsesOnlyCopy then .copied else .shared

/-- `simulate()` deep-copies the infrastructure on every path and hands only the copy on; the scenario
is loaded once per simulation number before the program loop; generation reads no life-cycle field -/
theorem wiring_ok :
    Generated.Wiring.simulateDeepCopies = true ∧ Generated.Wiring.simulateUsesOnlyCopy = true ∧
    Generated.Wiring.scenarioLoadedOncePerSim = true ∧ Generated.Wiring.generationIgnoresLifecycle = true := by
  decide

/-- C01 for the code as extracted today -/
theorem C01_current_code (N : Nat) (workers : List (List Nat)) (g : Store)
    (hs : ∀ s ∈ g, sortedByStart s.all = true) :
    ∀ x ∈ runSchedule modeOfCode (N + 1) workers g, x.2 = expected (N + 1) g := by
  have : modeOfCode = .copied := by decide
  rw [this]
  exact C01 N workers g hs

/-- non-vacuity of the sortedness hypothesis and of `C01` -/
example :
    let g : Store := [{ pending := [{ id := 0, start := -3 }, { id := 1, start := 2 }, { id := 2, start := 9 }] },
                      { pending := [{ id := 0, start := 4 }] }]
    (∀ s ∈ g, sortedByStart s.all = true) ∧
    runSchedule .copied 6 [[0, 1], [2]] g =
      [(0, [[{ id := 0, start := -3 }, { id := 1, start := 2 }], [{ id := 0, start := 4 }]]),
       (1, [[{ id := 0, start := -3 }, { id := 1, start := 2 }], [{ id := 0, start := 4 }]]),
       (2, [[{ id := 0, start := -3 }, { id := 1, start := 2 }], [{ id := 0, start := 4 }]])] := by
  decide +kernel

end LdarModel.Heap
