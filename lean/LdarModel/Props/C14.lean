import LdarModel.Model.Summary
namespace LdarModel.Summary
theorem placeholder_c14 : True := trivial
end LdarModel.Summary
