import LdarModel.Lemmas.Summary
/-
C14 — summary files aggregate each program-simulation's own outputs, once each.

Model: `Model/Summary.lean`.  `runAllChecked` is the run as the real code behaves: the batch loop of
`_run_simulations_debug` over `batch_simulations n`, each batch written and then summarised by
`genAll` = `gen_summary_outputs`; `none` when some summarisation call raises (for the mapper's own
statistics: a selected estimate file without data rows).  `runAll` is the same loop without the check: by
`guard_exact` the two agree exactly on the accepted worlds, so the theorems stated for `runAll`
below are theorems about every run the real code completes.
The statements quantify over every content type and statistics (`Stats κ`), every world `W`
(what each program-simulation writes), every simulation count `n`, both retention settings and
every schedule `σ` of enumeration orders (one independent permutation per directory scan).
-/
namespace LdarModel.Summary

/-- no program-simulation wrote a file the real code raises on -/
def Accepted {κ : Type} (S : Stats κ) (W : Name → Nat → SimOut κ) (progs : List Name) (n : Nat) : Prop :=
  ∀ p ∈ progs, ∀ s, s < n → badSim S W p s = false

/-- the property at full strength: for *every* list of distinct program names and *every* world the
run completes and both summary tables are, up to row order, exactly one row per (program,
simulation), each computed from that pair's own files -/
def C14_statement : Prop :=
  ∀ (κ : Type) (S : Stats κ) (W : Name → Nat → SimOut κ) (progs : List Name) (keepAll : Bool)
    (σ : Sched κ) (n : Nat), progs.Nodup → σ.Valid →
    ∃ st, runAllChecked S W progs keepAll σ n = some st ∧
      (st.ts).Perm (canonTs S W progs (List.range n)) ∧ (st.emis).Perm (canonEmis S W progs (List.range n))

/-- closed form of both tables after the whole batch loop (no check for rejected files), for every
simulation count, both retention settings and every enumeration order of every scan; every program
folder ends with kept files only -/
theorem runAll_closed_form {κ : Type} (S : Stats κ) (W : Name → Nat → SimOut κ) (progs : List Name) (keepAll : Bool)
    (σ : Sched κ) (n : Nat) (hg : GoodProgs progs) (hσ : σ.Valid) :
    ((runAll S W progs keepAll σ n).ts).Perm (canonTs S W progs (List.range n)) ∧
    ((runAll S W progs keepAll σ n).emis).Perm (canonEmis S W progs (List.range n)) ∧
    (∀ pd ∈ (runAll S W progs keepAll σ n).dirs, ∀ e ∈ pd.2, isKept e.name = true) := by
  have h := runBatches_inv S W progs hg keepAll σ hσ (batchSimulations n) 0 _ [] (init_inv S W progs)
  rw [List.nil_append, allSims_batchSimulations] at h
  exact ⟨h.ts, h.emis, h.kept⟩

/-- exactly which worlds the real code rejects: the run completes iff no program-simulation wrote a
file the statistics reject (`okTs` / `okEmis` / `okEst`; for the mapper's statistics: an estimate file
without data rows), and then it is `runAll` -/
theorem guard_exact {κ : Type} (S : Stats κ) (W : Name → Nat → SimOut κ) (progs : List Name) (keepAll : Bool)
    (σ : Sched κ) (n : Nat) (hg : GoodProgs progs) (hσ : σ.Valid) :
    (∀ st, runAllChecked S W progs keepAll σ n = some st ↔
      (Accepted S W progs n ∧ st = runAll S W progs keepAll σ n)) ∧
    (runAllChecked S W progs keepAll σ n = none ↔ ¬ Accepted S W progs n) := by
  have hr := runRejects_eq_false S W progs hg keepAll σ hσ (batchSimulations n) 0 (initSt progs) []
    (init_inv S W progs)
  rw [allSims_batchSimulations] at hr
  have hacc : runRejects S W keepAll σ 0 (batchSimulations n) (initSt progs) = false ↔ Accepted S W progs n := by
    rw [hr]; unfold Accepted
    exact ⟨fun h p hp s hs => h p hp s (List.mem_range.mpr hs), fun h p hp s hs => h p hp s (List.mem_range.mp hs)⟩
  unfold runAllChecked
  cases hrej : runRejects S W keepAll σ 0 (batchSimulations n) (initSt progs) with
  | true =>
    have : ¬ Accepted S W progs n := fun a => by rw [hacc.mpr a] at hrej; exact absurd hrej (by simp)
    simp [this]
  | false =>
    have : Accepted S W progs n := hacc.mp hrej
    simp only [Bool.false_eq_true, if_false, Option.some.injEq, reduceCtorEq, false_iff, not_not, this, true_and]
    exact ⟨fun st => eq_comm, trivial⟩

/-- C14 for all program names that do not collide with the two reserved names (a leading `kept`,
the folder name `Logs`) and all worlds the real code accepts (for the mapper's statistics: every
estimate file has at least one data row): the run completes with the closed form of both tables -/
theorem C14_partial {κ : Type} (S : Stats κ) (W : Name → Nat → SimOut κ) (progs : List Name) (keepAll : Bool)
    (σ : Sched κ) (n : Nat) (hg : GoodProgs progs) (hσ : σ.Valid) (ha : Accepted S W progs n) :
    ∃ st, runAllChecked S W progs keepAll σ n = some st ∧
      (st.ts).Perm (canonTs S W progs (List.range n)) ∧ (st.emis).Perm (canonEmis S W progs (List.range n)) ∧
      (∀ pd ∈ st.dirs, ∀ e ∈ pd.2, isKept e.name = true) :=
  ⟨_, ((guard_exact S W progs keepAll σ n hg hσ).1 _).mpr ⟨ha, rfl⟩, runAll_closed_form S W progs keepAll σ n hg hσ⟩

/-- a run that is not accepted produces no summary at all -/
theorem C14_rejected {κ : Type} (S : Stats κ) (W : Name → Nat → SimOut κ) (progs : List Name) (keepAll : Bool)
    (σ : Sched κ) (n : Nat) (hg : GoodProgs progs) (hσ : σ.Valid) (ha : ¬ Accepted S W progs n) :
    runAllChecked S W progs keepAll σ n = none :=
  (guard_exact S W progs keepAll σ n hg hσ).2.mpr ha

theorem checked_some_eq {κ : Type} (S : Stats κ) (W : Name → Nat → SimOut κ) (progs : List Name) (keepAll : Bool)
    (σ : Sched κ) (n : Nat) (st : St κ) (h : runAllChecked S W progs keepAll σ n = some st) :
    st = runAll S W progs keepAll σ n := by
  unfold runAllChecked at h
  split at h
  · exact absurd h (by simp)
  · exact (Option.some.inj h).symm

/-- identity schedule: every scan returns the folder as stored -/
def idSched (κ : Type) : Sched κ :=
  { dirs := fun _ l => l, ts := fun _ _ l => l, emis := fun _ _ l => l, est := fun _ _ l => l,
    rep := fun _ _ l => l }

theorem idSched_valid (κ : Type) : (idSched κ).Valid :=
  ⟨fun _ _ => List.Perm.refl _, fun _ _ _ => List.Perm.refl _, fun _ _ _ => List.Perm.refl _,
   fun _ _ _ => List.Perm.refl _, fun _ _ _ => List.Perm.refl _⟩

/-- a schedule that reverses some scans and not others -/
def mixedSched (κ : Type) : Sched κ :=
  { dirs := fun _ l => l.reverse, ts := fun _ _ l => l, emis := fun _ _ l => l.reverse,
    est := fun b _ l => if b % 2 = 0 then l.reverse else l, rep := fun _ _ l => l }

theorem mixedSched_valid (κ : Type) : (mixedSched κ).Valid := by
  refine ⟨fun _ l => List.reverse_perm l, fun _ _ _ => List.Perm.refl _, fun _ _ l => List.reverse_perm l,
    fun b _ l => ?_, fun _ _ _ => List.Perm.refl _⟩
  simp only [mixedSched]
  split
  · exact List.reverse_perm l
  · exact List.Perm.refl _

private def unitStats : Stats Unit :=
  { ts := fun _ => [], emis := fun _ => [], est := fun _ => [], rep := fun _ => [], nEmis := 0, nYears := 0,
    okTs := fun _ => true, okEmis := fun _ => true, okEst := fun _ => true }

private def unitWorld : Name → Nat → SimOut Unit := fun _ _ => { ts := (), emis := (), est := none, rep := none }

/-- The full statement is false of the code as it stands (known finding C14-kept-prefix): a program
whose name starts with the kept marker is never summarised.  Witness: the single program `keptA`,
one simulation. -/
theorem C14_counterexample : ¬ C14_statement := by
  intro h
  obtain ⟨st, hst, h1, _⟩ := h Unit unitStats unitWorld ["keptA".toList] false (idSched Unit) 1 (by simp)
    (idSched_valid Unit)
  rw [checked_some_eq _ _ _ _ _ _ _ hst] at h1
  have h2 := h1.length_eq
  revert h2
  decide +kernel

/-- second witness (known finding C14-program-named-Logs): the single program `Logs`, whose folder
is the log folder and is skipped -/
theorem C14_counterexample_logs : ¬ C14_statement := by
  intro h
  obtain ⟨st, hst, h1, _⟩ := h Unit unitStats unitWorld ["Logs".toList] false (idSched Unit) 1 (by simp)
    (idSched_valid Unit)
  rw [checked_some_eq _ _ _ _ _ _ _ hst] at h1
  have h2 := h1.length_eq
  revert h2
  decide +kernel

/-- third witness (known finding C14-zero-row-file): with the mapper's own statistics, a simulation
whose estimate file has a header but no rows makes the summarisation raise: no summary at all -/
theorem C14_counterexample_zero_rows : ¬ C14_statement := by
  intro h
  obtain ⟨st, hst, _⟩ := h Content (concreteStats [2023])
    (fun _ s => { ts := .ts [(1, 1, 0, 5)], emis := .emis
                    [{ mitigated := 0, trueVol := 3, estVol := 3, repairable := true, trueRate := 1,
                       began := some ⟨2023, 1, 1⟩, ended := some ⟨2023, 1, 2⟩, theory := some ⟨2023, 1, 4⟩ }],
                  est := if s = 1 then some (.est []) else none, rep := none })
    ["P_A".toList] false (idSched Content) 2 (by simp) (idSched_valid Content)
  have : (runAllChecked (concreteStats [2023])
    (fun _ s => { ts := .ts [(1, 1, 0, 5)], emis := .emis
                    [{ mitigated := 0, trueVol := 3, estVol := 3, repairable := true, trueRate := 1,
                       began := some ⟨2023, 1, 1⟩, ended := some ⟨2023, 1, 2⟩, theory := some ⟨2023, 1, 4⟩ }],
                  est := if s = 1 then some (.est []) else none, rep := none })
    ["P_A".toList] false (idSched Content) 2).isNone = true := by decide +kernel
  rw [hst] at this
  exact absurd this (by simp)

/-- every (program, simulation) pair appears exactly once in each summary table and nothing else
does — for every simulation count, both retention settings, every enumeration order -/
theorem once_each {κ : Type} (S : Stats κ) (W : Name → Nat → SimOut κ) (progs : List Name) (keepAll : Bool)
    (σ : Sched κ) (n : Nat) (hg : GoodProgs progs) (hσ : σ.Valid) (hp : progs.Nodup) :
    (∀ p ∈ progs, ∀ s, s < n →
      (keys (runAll S W progs keepAll σ n).ts).count (key p s) = 1 ∧
      (keys (runAll S W progs keepAll σ n).emis).count (key p s) = 1) ∧
    (∀ k, (k ∈ keys (runAll S W progs keepAll σ n).ts ∨ k ∈ keys (runAll S W progs keepAll σ n).emis) →
      ∃ p ∈ progs, ∃ s, s < n ∧ k = key p s) ∧
    (keys (runAll S W progs keepAll σ n).ts).Nodup ∧ (keys (runAll S W progs keepAll σ n).emis).Nodup := by
  obtain ⟨hts, hem, _⟩ := runAll_closed_form S W progs keepAll σ n hg hσ
  have nd := nodup_canonKeys progs (List.range n) hp List.nodup_range
  have kts : (keys (runAll S W progs keepAll σ n).ts).Perm (canonKeys progs (List.range n)) := by
    rw [← keys_canonTs S W]; exact List.Perm.map _ hts
  have kem : (keys (runAll S W progs keepAll σ n).emis).Perm (canonKeys progs (List.range n)) := by
    rw [← keys_canonEmis S W]; exact List.Perm.map _ hem
  refine ⟨?_, ?_, (List.Perm.nodup_iff kts).mpr nd, (List.Perm.nodup_iff kem).mpr nd⟩
  · intro p hpm s hs
    have hmem : key p s ∈ canonKeys progs (List.range n) :=
      (mem_canonKeys _ _ _).mpr ⟨s, List.mem_range.mpr hs, p, hpm, rfl⟩
    rw [kts.count_eq, kem.count_eq]
    exact ⟨List.count_eq_one_of_mem nd hmem, List.count_eq_one_of_mem nd hmem⟩
  · intro k hk
    have : k ∈ canonKeys progs (List.range n) := by
      rcases hk with hk | hk
      · exact kts.mem_iff.mp hk
      · exact kem.mem_iff.mp hk
    obtain ⟨s, hs, p, hpm, rfl⟩ := (mem_canonKeys _ _ _).mp this
    exact ⟨p, hpm, s, List.mem_range.mp hs, rfl⟩

/-- the row of (p, s) is the stated function of that pair's own files (and therefore of no other
file: two worlds that agree on what (p, s) writes give the same row) -/
theorem own_files_only {κ : Type} (S : Stats κ) (W W' : Name → Nat → SimOut κ) (progs : List Name)
    (keepAll : Bool) (σ σ' : Sched κ) (n : Nat) (hg : GoodProgs progs) (hσ : σ.Valid) (hσ' : σ'.Valid)
    (hp : progs.Nodup) (p : Name) (hpm : p ∈ progs) (s : Nat) (hs : s < n) :
    List.lookup (key p s) (runAll S W progs keepAll σ n).ts = some (S.ts (W p s).ts) ∧
    List.lookup (key p s) (runAll S W progs keepAll σ n).emis = some (S.emis (W p s).emis ++ estPart S (W p s)) ∧
    (W p s = W' p s →
      List.lookup (key p s) (runAll S W progs keepAll σ n).ts
        = List.lookup (key p s) (runAll S W' progs keepAll σ' n).ts ∧
      List.lookup (key p s) (runAll S W progs keepAll σ n).emis
        = List.lookup (key p s) (runAll S W' progs keepAll σ' n).emis) := by
  have key1 : ∀ (V : Name → Nat → SimOut κ) (τ : Sched κ), τ.Valid →
      List.lookup (key p s) (runAll S V progs keepAll τ n).ts = some (S.ts (V p s).ts) ∧
      List.lookup (key p s) (runAll S V progs keepAll τ n).emis = some (S.emis (V p s).emis ++ estPart S (V p s)) := by
    intro V τ hτ
    obtain ⟨hts, hem, _⟩ := runAll_closed_form S V progs keepAll τ n hg hτ
    have o := once_each S V progs keepAll τ n hg hτ hp
    rw [lookup_perm hts o.2.2.1, lookup_perm hem o.2.2.2,
      lookup_canonTs S V progs _ hp List.nodup_range p hpm s (List.mem_range.mpr hs),
      lookup_canonEmis S V progs _ hp List.nodup_range p hpm s (List.mem_range.mpr hs)]
    exact ⟨rfl, rfl⟩
  refine ⟨(key1 W σ hσ).1, (key1 W σ hσ).2, fun hW => ?_⟩
  rw [(key1 W σ hσ).1, (key1 W σ hσ).2, (key1 W' σ' hσ').1, (key1 W' σ' hσ').2, hW]
  exact ⟨rfl, rfl⟩

/-- the summary tables do not depend on the order in which the file system lists anything: two
runs under different valid schedules give the same tables as keyed maps (and as multisets) -/
theorem perm_invariant {κ : Type} (S : Stats κ) (W : Name → Nat → SimOut κ) (progs : List Name)
    (keepAll : Bool) (σ σ' : Sched κ) (n : Nat) (hg : GoodProgs progs) (hσ : σ.Valid) (hσ' : σ'.Valid)
    (hp : progs.Nodup) :
    ((runAll S W progs keepAll σ n).ts).Perm (runAll S W progs keepAll σ' n).ts ∧
    ((runAll S W progs keepAll σ n).emis).Perm (runAll S W progs keepAll σ' n).emis ∧
    ∀ k, List.lookup k (runAll S W progs keepAll σ n).ts = List.lookup k (runAll S W progs keepAll σ' n).ts ∧
         List.lookup k (runAll S W progs keepAll σ n).emis = List.lookup k (runAll S W progs keepAll σ' n).emis := by
  obtain ⟨a1, a2, _⟩ := runAll_closed_form S W progs keepAll σ n hg hσ
  obtain ⟨b1, b2, _⟩ := runAll_closed_form S W progs keepAll σ' n hg hσ'
  have o := once_each S W progs keepAll σ n hg hσ hp
  have p1 := a1.trans b1.symm
  have p2 := a2.trans b2.symm
  exact ⟨p1, p2, fun k => ⟨lookup_perm p1 o.2.2.1 k, lookup_perm p2 o.2.2.2 k⟩⟩

/-- retention only decides which files stay in the folders, never a summary row -/
theorem retention_invariant {κ : Type} (S : Stats κ) (W : Name → Nat → SimOut κ) (progs : List Name)
    (σ : Sched κ) (n : Nat) (hg : GoodProgs progs) (hσ : σ.Valid) :
    ((runAll S W progs true σ n).ts).Perm (runAll S W progs false σ n).ts ∧
    ((runAll S W progs true σ n).emis).Perm (runAll S W progs false σ n).emis := by
  obtain ⟨a1, a2, _⟩ := runAll_closed_form S W progs true σ n hg hσ
  obtain ⟨b1, b2, _⟩ := runAll_closed_form S W progs false σ n hg hσ
  exact ⟨a1.trans b1.symm, a2.trans b2.symm⟩

/-- estimated emissions of (p, s) are that run's own estimate minus its own correction, floored at
zero, column by column (zero when it wrote no estimate) -/
theorem estimate_floor {κ : Type} (S : Stats κ) (W : Name → Nat → SimOut κ) (progs : List Name)
    (keepAll : Bool) (σ : Sched κ) (n : Nat) (hg : GoodProgs progs) (hσ : σ.Valid) (hp : progs.Nodup)
    (p : Name) (hpm : p ∈ progs) (s : Nat) (hs : s < n) (e r : κ)
    (he : (W p s).est = some e) (hr : (W p s).rep = some r) :
    List.lookup (key p s) (runAll S W progs keepAll σ n).emis
      = some (S.emis (W p s).emis ++ (List.zipWith (fun a b => max (a - b) 0) (S.est e) (S.rep r)).map Val.q) := by
  rw [(own_files_only S W W progs keepAll σ σ n hg hσ hσ hp p hpm s hs).2.1]
  simp [estPart, he, hr, floorSub]

/-- the join itself: whatever the orders in which the estimate files and the correction files were
enumerated, every estimate is paired with the correction of its own key -/
theorem estJoin_perm_invariant {est est' rep rep' : Table (List Rat)} (he : est'.Perm est) (hr : rep'.Perm rep)
    (nde : (keys est).Nodup) (ndr : (keys rep).Nodup) (k : Key) :
    List.lookup k (estJoin est' rep') = (List.lookup k est).map fun e =>
      match List.lookup k rep with
      | some r => List.zipWith (fun a b => max (a - b) 0) e r
      | none => e.map fun _ => 0 := by
  have hj := estJoin_perm he hr ndr
  have ndj : (keys (estJoin est rep)).Nodup := by rw [keys_estJoin]; exact nde
  rw [lookup_perm hj (nodup_keys_of_perm hj.symm ndj) k, lookup_estJoin]
  rfl

/-- Cost Summary: one row per (non-baseline program, simulation), carrying that pair's own total
mitigation and total cost, the ratio `cost / (mitigation / 1000 · GWP)` (undefined when the
denominator is 0) and the value `mitigation · KG_TO_MMBTU · gas price` -/
theorem cost_ratios {κ : Type} (S : Stats κ) (W : Name → Nat → SimOut κ) (progs : List Name)
    (keepAll : Bool) (σ : Sched κ) (n : Nat) (hg : GoodProgs progs) (hσ : σ.Valid) (hp : progs.Nodup)
    (nb : List Name) (econ : Name → Rat × Rat) (K : Rat) :
    (costSummary nb econ K (runAll S W progs keepAll σ n).emis (runAll S W progs keepAll σ n).ts).Perm
      ((List.range n).flatMap fun s => (progs.filter fun p => nb.contains p).map fun p => costRowOf S W econ K p s) ∧
    ∀ p s, (costRowOf S W econ K p s).2.value
              = (costRowOf S W econ K p s).2.mitigation * K * (econ p).2 ∧
           ((costRowOf S W econ K p s).2.mitigation / 1000 * (econ p).1 ≠ 0 →
              (costRowOf S W econ K p s).2.ratio
                = some ((costRowOf S W econ K p s).2.totalCost
                         / ((costRowOf S W econ K p s).2.mitigation / 1000 * (econ p).1))) ∧
           ((costRowOf S W econ K p s).2.mitigation / 1000 * (econ p).1 = 0 →
              (costRowOf S W econ K p s).2.ratio = none) := by
  obtain ⟨hts, hem, _⟩ := runAll_closed_form S W progs keepAll σ n hg hσ
  constructor
  · have nd : (keys (canonTs S W progs (List.range n))).Nodup := by
      rw [keys_canonTs]; exact nodup_canonKeys progs _ hp List.nodup_range
    rw [← costSummary_canon S W progs (List.range n) hp List.nodup_range nb econ K]
    exact costSummary_perm nb econ K hem hts nd
  · intro p s
    refine ⟨rfl, fun h => ?_, fun h => ?_⟩
    · simp only [costRowOf, costRatio] at h ⊢; rw [if_neg h]
    · simp only [costRowOf, costRatio] at h ⊢; rw [if_pos h]

/-- the cost summary has every (non-baseline program, simulation) exactly once -/
theorem cost_once_each {κ : Type} (S : Stats κ) (W : Name → Nat → SimOut κ) (progs : List Name)
    (keepAll : Bool) (σ : Sched κ) (n : Nat) (hg : GoodProgs progs) (hσ : σ.Valid) (hp : progs.Nodup)
    (nb : List Name) (econ : Name → Rat × Rat) (K : Rat) :
    (keys (costSummary nb econ K (runAll S W progs keepAll σ n).emis (runAll S W progs keepAll σ n).ts)).Perm
      (canonKeys (progs.filter fun p => nb.contains p) (List.range n)) ∧
    (canonKeys (progs.filter fun p => nb.contains p) (List.range n)).Nodup := by
  constructor
  · have h := (cost_ratios S W progs keepAll σ n hg hσ hp nb econ K).1
    have := List.Perm.map (·.1) h
    refine this.trans (List.Perm.of_eq ?_)
    simp [canonKeys, List.map_flatMap, List.map_map, Function.comp_def, costRowOf]
  · exact nodup_canonKeys _ _ (List.Nodup.filter _ hp) List.nodup_range

/-! ### the two cost columns of the mapper's own statistics -/

/-- column `mitCol` of an Emissions Summary row computed by the mapper is Σ mitigated of the file -/
theorem concrete_mit_cell (ys : List Nat) (rows : List EmisRow) (x : List Val) :
    cell (emisStat ys (.emis rows) ++ x) mitCol = sumI (rows.map (·.mitigated)) := by
  simp [cell, emisStat, mitCol, Val.toRat]

/-- column `costCol` of a Timeseries Summary row computed by the mapper is Σ daily cost of the file -/
theorem concrete_cost_cell (rows : List (Int × Int × Int × Int)) :
    cell (tsStat (.ts rows)) costCol = sumI (rows.map (·.2.2.2)) := by
  simp [cell, tsStat, costCol, Val.toRat, col4]

/-- `cost_ratios` for the mapper's statistics: the row of (p, s) carries Σ mitigated of its own
emissions file and Σ daily cost of its own timeseries, and the two formulas are over these sums -/
theorem cost_ratios_concrete (ys : List Nat) (W : Name → Nat → SimOut Content) (econ : Name → Rat × Rat) (K : Rat)
    (p : Name) (s : Nat) (er : List EmisRow) (tr : List (Int × Int × Int × Int))
    (he : (W p s).emis = .emis er) (ht : (W p s).ts = .ts tr) :
    (costRowOf (concreteStats ys) W econ K p s).2.mitigation = sumI (er.map (·.mitigated)) ∧
    (costRowOf (concreteStats ys) W econ K p s).2.totalCost = sumI (tr.map (·.2.2.2)) ∧
    (costRowOf (concreteStats ys) W econ K p s).2.value = sumI (er.map (·.mitigated)) * K * (econ p).2 ∧
    (sumI (er.map (·.mitigated)) / 1000 * (econ p).1 ≠ 0 →
      (costRowOf (concreteStats ys) W econ K p s).2.ratio
        = some (sumI (tr.map (·.2.2.2)) / (sumI (er.map (·.mitigated)) / 1000 * (econ p).1))) := by
  have hm : cell ((concreteStats ys).emis (W p s).emis ++ estPart (concreteStats ys) (W p s)) mitCol
      = sumI (er.map (·.mitigated)) := by
    simp only [concreteStats, he]; exact concrete_mit_cell ys er _
  have hc : cell ((concreteStats ys).ts (W p s).ts) costCol = sumI (tr.map (·.2.2.2)) := by
    simp only [concreteStats, ht]; exact concrete_cost_cell tr
  simp only [costRowOf, hm, hc, costValue, costRatio]
  refine ⟨trivial, trivial, trivial, fun h => ?_⟩
  rw [if_neg h]

/-! ### no history: rows of earlier batches are a frame -/

/-- the rows a summarisation call adds do not depend on the rows already in the summary files, and
the earlier rows are carried over unchanged -/
theorem genAll_frame {κ : Type} (S : Stats κ) (clear : Bool) (visit : List (Name × Listings κ)) (st : St κ) :
    (genAll S clear visit st).ts = st.ts ++ (genAll S clear visit { st with ts := [], emis := [] }).ts ∧
    (genAll S clear visit st).emis = st.emis ++ (genAll S clear visit { st with ts := [], emis := [] }).emis := by
  simp [genAll]

/-- whatever later batches do, the rows written by earlier batches stay a prefix of both tables -/
theorem legacy_rows_preserved {κ : Type} (S : Stats κ) (W : Name → Nat → SimOut κ) (keepAll : Bool) (σ : Sched κ)
    (cs : List Nat) : ∀ (b : Nat) (st : St κ),
    st.ts <+: (runBatches S W keepAll σ b cs st).ts ∧ st.emis <+: (runBatches S W keepAll σ b cs st).emis := by
  induction cs with
  | nil => intro b st; exact ⟨List.prefix_refl _, List.prefix_refl _⟩
  | cons c cs ih =>
    intro b st
    simp only [runBatches]
    have h := ih (b + 1) (genAll S (b != 0 && !keepAll) (visitOf σ b (writeBatch W (batchSims b c) st))
      (writeBatch W (batchSims b c) st))
    exact ⟨(List.prefix_append _ _).trans h.1, (List.prefix_append _ _).trans h.2⟩

/-! ### histories of runs into the same output folder -/

/-- a run does not depend on what the output folder held before: `initialize_outputs` clears it -/
theorem runInFolder_eq_runAll {κ : Type} (S : Stats κ) (W : Name → Nat → SimOut κ) (progs : List Name)
    (keepAll : Bool) (σ : Sched κ) (n : Nat) (prior : St κ) :
    runInFolder S W progs keepAll σ n prior = runAll S W progs keepAll σ n ∧
    runInFolderChecked S W progs keepAll σ n prior = runAllChecked S W progs keepAll σ n := by
  have h0 : mkProgDirs progs (clearFolder prior) = initSt progs := by simp [mkProgDirs, clearFolder, initSt]
  unfold runInFolderChecked runInFolder runAllChecked runAll
  rw [h0]
  exact ⟨rfl, rfl⟩

theorem runHistory_snoc {κ : Type} (S : Stats κ) (rs : List (RunSpec κ)) (r : RunSpec κ) (prior : St κ) :
    runHistory S (rs ++ [r]) prior = runInFolder S r.W r.progs r.keepAll r.σ r.n (runHistory S rs prior) := by
  induction rs generalizing prior with
  | nil => rfl
  | cons a rs ih => simp only [List.cons_append, runHistory]; exact ih _

/-- after any history of earlier runs into the same folder, started from any folder state, the
summary tables hold exactly the pairs of the *last* run, each row computed from that run's own
files; nothing of an earlier run is left in a program folder -/
theorem C14_history {κ : Type} (S : Stats κ) (rs : List (RunSpec κ)) (r : RunSpec κ) (prior : St κ)
    (hg : GoodProgs r.progs) (hσ : r.σ.Valid) :
    ((runHistory S (rs ++ [r]) prior).ts).Perm (canonTs S r.W r.progs (List.range r.n)) ∧
    ((runHistory S (rs ++ [r]) prior).emis).Perm (canonEmis S r.W r.progs (List.range r.n)) ∧
    (runHistory S (rs ++ [r]) prior).dirs.map (·.1) = r.progs ∧
    (∀ pd ∈ (runHistory S (rs ++ [r]) prior).dirs, ∀ e ∈ pd.2, isKept e.name = true) := by
  rw [runHistory_snoc, (runInFolder_eq_runAll S r.W r.progs r.keepAll r.σ r.n _).1]
  have h := runBatches_inv S r.W r.progs hg r.keepAll r.σ hσ (batchSimulations r.n) 0 _ [] (init_inv S r.W r.progs)
  rw [List.nil_append, allSims_batchSimulations] at h
  exact ⟨h.ts, h.emis, h.names, h.kept⟩

/-- why the clean-up matters: a batch loop started in a folder that still holds the summary files
of an earlier run keeps every one of those rows (they are taken for rows of earlier batches) -/
theorem uncleared_folder_keeps_stale_rows {κ : Type} (S : Stats κ) (W : Name → Nat → SimOut κ)
    (progs : List Name) (keepAll : Bool) (σ : Sched κ) (n : Nat) (prior : St κ) :
    prior.ts <+: (runWithoutInit S W progs keepAll σ n prior).ts ∧
    prior.emis <+: (runWithoutInit S W progs keepAll σ n prior).emis := by
  unfold runWithoutInit
  exact legacy_rows_preserved S W keepAll σ (batchSimulations n) 0
    (mkProgDirs (progs.filter fun p => !(prior.dirs.map (·.1)).contains p) prior)

/-- a two-run history with a smaller second run: nothing of the first run is left (6 rows); without
the clean-up the 14 rows of the first run would still be there (20 rows) -/
example :
    let S : Stats Nat :=
      { ts := fun c => [Val.q c], emis := fun c => [Val.q c], est := fun _ => [], rep := fun _ => [],
        nEmis := 1, nYears := 0, okTs := fun _ => true, okEmis := fun _ => true, okEst := fun _ => true }
    let r1 : RunSpec Nat := { W := fun _ s => { ts := 100 + s, emis := s, est := none, rep := none },
                              progs := ["P_A".toList, "P_B".toList], keepAll := true, σ := mixedSched Nat, n := 7 }
    let r2 : RunSpec Nat := { W := fun _ s => { ts := 900 + s, emis := s, est := none, rep := none },
                              progs := ["P_B".toList, "P_A".toList], keepAll := false, σ := idSched Nat, n := 3 }
    let st := runHistory S [r1, r2] { dirs := [("old".toList, [])], ts := [(key "x".toList 0, [])], emis := [] }
    st.ts.length = 6 ∧ st.dirs.length = 2 ∧ List.lookup (key "P_A".toList 2) st.ts = some [Val.q 902] ∧
    (runWithoutInit S r2.W r2.progs false (idSched Nat) 3 (runHistory S [r1] (initSt []))).ts.length = 20 := by
  decide +kernel

/-! ### the extrapolation of the estimated emissions to unmeasured sites -/

/-- a measured site counts with its own annual value -/
theorem contribution_measured (info : List SiteInfo) (x : SiteInfo) (h : x.2.2.1 = true) :
    contribution info x = x.2.2.2 := by
  simp [contribution, h]

/-- an unmeasured site of a type with measured sites gets the average over the measured sites of
that type -/
theorem contribution_same_type (info : List SiteInfo) (x : SiteInfo) (h : x.2.2.1 = false)
    (hs : ((measuredSites info).filter fun y => y.2.1 == x.2.1) ≠ []) :
    contribution info x
      = sumR (((measuredSites info).filter fun y => y.2.1 == x.2.1).map (·.2.2.2))
        / ((((measuredSites info).filter fun y => y.2.1 == x.2.1).map (·.2.2.2)).length : Rat) := by
  have : ((measuredSites info).filter fun y => y.2.1 == x.2.1).isEmpty = false := by
    cases hh : (measuredSites info).filter fun y => y.2.1 == x.2.1 with
    | nil => exact absurd hh hs
    | cons _ _ => rfl
  simp only [contribution, h, Bool.false_eq_true, if_false, this, meanR]

/-- the fall-back: an unmeasured site whose type has no measured site gets the sum over ALL measured
sites divided by the NUMBER OF measured SITES -/
theorem contribution_fallback (info : List SiteInfo) (x : SiteInfo) (h : x.2.2.1 = false)
    (hs : ((measuredSites info).filter fun y => y.2.1 == x.2.1) = []) (hm : measuredSites info ≠ []) :
    contribution info x
      = sumR ((measuredSites info).map (·.2.2.2)) / (((measuredSites info).map (·.2.2.2)).length : Rat) := by
  have : (measuredSites info).isEmpty = false := by
    cases hh : measuredSites info with
    | nil => exact absurd hh hm
    | cons _ _ => rfl
  simp only [contribution, h, Bool.false_eq_true, if_false, hs, List.isEmpty_nil, if_true, this, meanR]

/-- the other reading of "average of all measured sites": the unweighted mean of the per-type means -/
def meanOfTypeMeans (info : List SiteInfo) : Rat :=
  let types := dedup ((measuredSites info).map (·.2.1))
  meanR (types.map fun t => meanR (((measuredSites info).filter fun y => y.2.1 == t).map (·.2.2.2)))

/-- the two readings differ: type 0 with measured sites 100, 200, 300, type 1 with one measured site
1000, type 2 with one unmeasured site.  The model (and the code) gives the unmeasured site
1600 / 4 = 400; the mean of the type means would be (200 + 1000) / 2 = 600 -/
theorem fallback_is_not_mean_of_type_means :
    ∃ (info : List SiteInfo) (x : SiteInfo), x ∈ info ∧ x.2.2.1 = false ∧
      contribution info x = 400 ∧ meanOfTypeMeans info = 600 ∧ extrapolateInfo info = 2000 := by
  refine ⟨[(1, 0, true, 100), (2, 0, true, 200), (3, 0, true, 300), (4, 1, true, 1000), (5, 2, false, 0)],
    (5, 2, false, 0), ?_, rfl, ?_, ?_, ?_⟩ <;> decide +kernel

/-! ### batching -/

/-- the batch sizes add up to the number of simulations -/
theorem batch_sizes_sum (n : Nat) : (batchSimulations n).sum = n := by
  unfold batchSimulations
  split
  · split
    · simp [List.sum_append]; omega
    · simp; omega
  · simp

/-- no batch holds more than five simulations -/
theorem batch_sizes_le_five (n : Nat) : ∀ c ∈ batchSimulations n, c ≤ 5 := by
  unfold batchSimulations
  intro c hc
  split at hc
  · rw [List.mem_append] at hc
    rcases hc with hc | hc
    · rw [List.mem_replicate] at hc; omega
    · split at hc
      · simp at hc; omega
      · simp at hc
  · simp at hc; omega

/-- the simulation numbers `batch · 5 + i` over all batches are exactly `0 .. n-1`, in order -/
theorem batch_sims_eq_range (n : Nat) : allSims 0 (batchSimulations n) = List.range n :=
  allSims_batchSimulations n

/-! ### yearly share -/

/-- calendar facts behind the day counts: the model's ordinals give every year 365 or 366 days and
February 28 or 29 (Gregorian rule) -/
def isLeap (y : Nat) : Bool := (y % 4 == 0 && y % 100 != 0) || y % 400 == 0

theorem year_length (y : Nat) (_hy : 1 ≤ y) :
    (⟨y + 1, 1, 1⟩ : Date).ord - (⟨y, 1, 1⟩ : Date).ord = if isLeap y then 366 else 365 := by
  simp only [Date.ord, isLeap]
  norm_num
  split <;> omega

theorem feb_length (y : Nat) (_hy : 1 ≤ y) :
    (⟨y, 3, 1⟩ : Date).ord - (⟨y, 2, 28⟩ : Date).ord = if isLeap y then 2 else 1 := by
  simp only [Date.ord, isLeap]
  norm_num
  split <;> omega



/-- the yearly shares of a closed record over the years it touches add up to its value (also
through leap years) -/
theorem yearly_shares_complete (v : Int) (st en : Date) (hy : st.y ≤ en.y) (hT : en.ord - st.ord + 1 ≠ 0) :
    sumTo (fun i => yearlyShare [(v, some st, some en)] (st.y + i)) (en.y - st.y + 1) = v := by
  have hT' : ((en.ord - st.ord + 1 : Int) : Rat) ≠ 0 := by exact_mod_cast hT
  rcases Nat.eq_or_lt_of_le hy with heq | hlt
  · have : en.y - st.y = 0 := by omega
    rw [this]
    simp only [sumTo, Nat.add_zero, zero_add]
    have h1 : st.y ≤ st.y ∧ st.y ≤ en.y := ⟨le_refl _, hy⟩
    have h2 : st.y = st.y ∧ en.y = st.y := ⟨rfl, heq.symm⟩
    rw [share_closed, if_pos h1, if_pos h2]; simp
  · obtain ⟨k, hk⟩ : ∃ k, en.y - st.y = k + 1 := ⟨en.y - st.y - 1, by omega⟩
    rw [hk, sumTo, shares_partial v st en hlt hT k (by omega), share_closed]
    have h1 : st.y ≤ st.y + (k + 1) ∧ st.y + (k + 1) ≤ en.y := by omega
    have h2 : ¬ (st.y = st.y + (k + 1) ∧ en.y = st.y + (k + 1)) := by omega
    have h3 : ¬ st.y = st.y + (k + 1) := by omega
    have h4 : en.y = st.y + (k + 1) := by omega
    rw [if_pos h1, if_neg h2, if_neg h3, if_pos h4]
    have : (⟨st.y + k + 1, 1, 1⟩ : Date) = ⟨st.y + (k + 1), 1, 1⟩ := by congr 1
    rw [this]
    field_simp
    push_cast
    ring

theorem window_complete (v : Int) (st en : Date) (lo hi : Nat) (h1 : lo ≤ st.y) (h2 : st.y ≤ en.y)
    (h3 : en.y ≤ hi) (hT : en.ord - st.ord + 1 ≠ 0) :
    sumTo (fun i => yearlyShare [(v, some st, some en)] (lo + i)) (hi - lo + 1) = v := by
  have e : hi - lo + 1 = (st.y - lo) + ((en.y - st.y + 1) + (hi - en.y)) := by omega
  rw [e, sumTo_split, sumTo_split]
  have z1 : sumTo (fun i => yearlyShare [(v, some st, some en)] (lo + i)) (st.y - lo) = 0 := by
    apply sumTo_zero; intro i hi'
    rw [share_closed, if_neg (by omega)]
  have z2 : sumTo (fun i => yearlyShare [(v, some st, some en)] (lo + (st.y - lo + (en.y - st.y + 1 + i)))) (hi - en.y) = 0 := by
    apply sumTo_zero; intro i hi'
    rw [share_closed, if_neg (by omega)]
  have mid : sumTo (fun i => yearlyShare [(v, some st, some en)] (lo + (st.y - lo + i))) (en.y - st.y + 1) = v := by
    have : (fun i => yearlyShare [(v, some st, some en)] (lo + (st.y - lo + i)))
        = fun i => yearlyShare [(v, some st, some en)] (st.y + i) := by
      funext i; congr 1; omega
    rw [this]; exact yearly_shares_complete v st en h2 hT
  rw [z1, z2, mid]; ring


/-- what the property asks of the yearly share: over the simulated years `lo .. hi` the shares of a
frame add up to the total of its values — for closed records (start ≤ end, both inside the period)
and for open-ended ones (no end date: still active when the simulation ends).  `m` is the latest
date recorded in the frame; real dates are valid and none of them lies in a year after `m`'s -/
def C14_yearly_statement : Prop :=
  ∀ (rows : List (Int × Option Date × Option Date)) (lo hi : Nat) (m : Date),
    latestDate rows = some m → m.y ≤ hi →
    (∀ r ∈ rows, ∃ st, r.2.1 = some st ∧ ValidDate st ∧ lo ≤ st.y ∧ st.y ≤ m.y ∧
      ∀ en, r.2.2 = some en → st.y ≤ en.y ∧ en.y ≤ hi ∧ st.ord ≤ en.ord) →
    sumTo (fun i => yearlyShare rows (lo + i)) (hi - lo + 1) = sumI (rows.map (·.1))

/-- the provable part: frames of closed records (every estimation window; every leak that ended) -/
theorem C14_yearly_partial (rows : List (Int × Option Date × Option Date)) (lo hi : Nat)
    (h : ∀ r ∈ rows, ∃ st en, r.2.1 = some st ∧ r.2.2 = some en ∧ lo ≤ st.y ∧ st.y ≤ en.y ∧ en.y ≤ hi ∧
      st.ord ≤ en.ord) :
    sumTo (fun i => yearlyShare rows (lo + i)) (hi - lo + 1) = sumI (rows.map (·.1)) := by
  have hc : ∀ r ∈ rows, ∃ en, r.2.2 = some en := fun r hr => by
    obtain ⟨_, en, _, he, _⟩ := h r hr; exact ⟨en, he⟩
  have : (fun i => yearlyShare rows (lo + i)) = fun i => sumR (rows.map fun r => yearlyShare [r] (lo + i)) := by
    funext i; exact yearlyShare_closed_frame rows (lo + i) hc
  rw [this, sumTo_sumR (fun i r => yearlyShare [r] (lo + i)), sumI_eq_sumR, List.map_map]
  congr 1
  apply List.map_congr_left
  intro r hr
  obtain ⟨st, en, hs, he, h1, h2, h3, h4⟩ := h r hr
  obtain ⟨v, s', e'⟩ := r
  simp only at hs he; subst hs; subst he
  exact window_complete v st en lo hi h1 h2 h3 (by omega)

/-- C14 for the yearly share (repaired code, e320a70): closed and open-ended records alike, the
shares over the simulated years add up to the value.  An open record lasts until Dec 31 of the
latest year recorded in the frame, which is never before its own start -/
theorem C14_yearly : C14_yearly_statement := by
  intro rows lo hi m hm hhi h
  have : (fun i => yearlyShare rows (lo + i))
      = fun i => sumR (rows.map fun r => yearlyShare [closeRow m.y r] (lo + i)) := by
    funext i; exact yearlyShare_latest rows (lo + i) m hm
  rw [this, sumTo_sumR (fun i r => yearlyShare [closeRow m.y r] (lo + i)), sumI_eq_sumR, List.map_map]
  congr 1
  apply List.map_congr_left
  intro r hr
  obtain ⟨st, hs, hv, h1, h2, hen⟩ := h r hr
  obtain ⟨v, s', e'⟩ := r
  simp only at hs; subst hs
  cases e' with
  | some en =>
    obtain ⟨h3, h4, h5⟩ := hen en rfl
    exact window_complete v st en lo hi h1 h3 h4 (by omega)
  | none =>
    have := ord_le_eoy st hv m.y h2
    exact window_complete v st ⟨m.y, 12, 31⟩ lo hi h1 h2 hhi (by omega)

/-- regression witnesses of e320a70 (the three shapes of the former finding
C14-open-ended-yearly-share on the unrepaired code: division by zero, −108.06, 40150): an open-ended
10 kg record that starts on Jan 1 / Feb 1 of the year after the latest recorded end date counts with
its 10 kg in that year; a 110 kg record open since 2021-12-31 counts in 2021 and not in 2022 -/
example :
    yearlyShare [(10, some ⟨2023, 3, 1⟩, some ⟨2023, 6, 1⟩), (10, some ⟨2024, 1, 1⟩, none)] 2024 = 10 ∧
    yearlyShare [(10, some ⟨2023, 3, 1⟩, some ⟨2023, 6, 1⟩), (10, some ⟨2024, 2, 1⟩, none)] 2024 = 10 ∧
    yearlyShare [(10, some ⟨2023, 3, 1⟩, some ⟨2023, 6, 1⟩), (10, some ⟨2024, 2, 1⟩, none)] 2023 = 10 ∧
    yearlyShare [(53, some ⟨2021, 8, 31⟩, some ⟨2021, 10, 1⟩), (110, some ⟨2021, 12, 31⟩, none)] 2021 = 163 ∧
    yearlyShare [(53, some ⟨2021, 8, 31⟩, some ⟨2021, 10, 1⟩), (110, some ⟨2021, 12, 31⟩, none)] 2022 = 0 ∧
    -- the usual case keeps its shares: open since 2023-11-01 while another record ends in 2024
    yearlyShare [(0, some ⟨2024, 3, 1⟩, some ⟨2024, 6, 1⟩), (427, some ⟨2023, 11, 1⟩, none)] 2023 = 61 ∧
    yearlyShare [(0, some ⟨2024, 3, 1⟩, some ⟨2024, 6, 1⟩), (427, some ⟨2023, 11, 1⟩, none)] 2024 = 366 := by
  decide +kernel

/-- the hypotheses of `C14_yearly` hold of such a frame -/
example :
    latestDate [(0, some ⟨2024, 3, 1⟩, some ⟨2024, 6, 1⟩), (427, some ⟨2023, 11, 1⟩, none)] = some ⟨2024, 6, 1⟩ ∧
    ValidDate ⟨2023, 11, 1⟩ := by
  refine ⟨by decide +kernel, by unfold ValidDate; decide⟩

/-! ### the years the summaries are built for -/

theorem sumR_append (a b : List Rat) : sumR (a ++ b) = sumR a + sumR b := by
  induction a with
  | nil => simp [sumR_nil]
  | cons x a ih => simp only [List.cons_append, sumR_cons, ih]; ring

theorem sumTo_eq_sumR_range (f : Nat → Rat) (k : Nat) : sumTo f k = sumR ((List.range k).map f) := by
  induction k with
  | zero => rfl
  | succ k ih => rw [sumTo, ih, List.range_succ, List.map_append, sumR_append]; simp [sumR_cons, sumR_nil]

/-- the years of a period are exactly the calendar years from its first to its last day -/
theorem mem_yearsOf (ps pe : Date) (h : ps.y ≤ pe.y) (y : Nat) : y ∈ yearsOf ps pe ↔ ps.y ≤ y ∧ y ≤ pe.y := by
  simp only [yearsOf, List.mem_map, List.mem_range]
  constructor
  · rintro ⟨i, hi, rfl⟩; omega
  · intro hy; exact ⟨y - ps.y, by omega, by omega⟩

/-- over exactly the years of the period (`calc_simulation_years`) the yearly cells of a frame add up
to the total of its values, for every frame whose records lie inside the period (closed or still
open at the end) -/
theorem C14_years_complete (rows : List (Int × Option Date × Option Date)) (ps pe m : Date)
    (hm : latestDate rows = some m) (hmy : m.y ≤ pe.y)
    (h : ∀ r ∈ rows, ∃ st, r.2.1 = some st ∧ ValidDate st ∧ ps.y ≤ st.y ∧ st.y ≤ m.y ∧
      ∀ en, r.2.2 = some en → st.y ≤ en.y ∧ en.y ≤ pe.y ∧ st.ord ≤ en.ord) :
    sumR ((yearsOf ps pe).map (yearlyShare rows)) = sumI (rows.map (·.1)) := by
  rw [← C14_yearly rows ps.y pe.y m hm hmy h, sumTo_eq_sumR_range, yearsOf, List.map_map]
  rfl

/-- with the survey planner's whole-year list the last calendar year of a period that ends earlier
in the calendar than it starts is missing: 10 kg emitted in January 2018 of a run 2017-11-01 ..
2018-02-28 appear in no yearly cell -/
theorem planner_years_lose_the_last_year :
    ∃ (rows : List (Int × Option Date × Option Date)) (ps pe : Date),
      yearsOf ps pe = [2017, 2018] ∧ plannerYears ps pe = [2017] ∧
      sumR ((yearsOf ps pe).map (yearlyShare rows)) = 10 ∧
      sumR ((plannerYears ps pe).map (yearlyShare rows)) = 0 := by
  refine ⟨[(10, some ⟨2018, 1, 5⟩, some ⟨2018, 1, 20⟩)], ⟨2017, 11, 1⟩, ⟨2018, 2, 28⟩, ?_, ?_, ?_, ?_⟩ <;>
    decide +kernel

/-! ### non-vacuity -/

/-- 731 kg over 2023-07-01 .. 2025-06-30 (through the leap year 2024): 184 + 366 + 181 -/
example :
    let r : Int × Option Date × Option Date := (731, some ⟨2023, 7, 1⟩, some ⟨2025, 6, 30⟩)
    yearlyShare [r] 2023 = 184 ∧ yearlyShare [r] 2024 = 366 ∧ yearlyShare [r] 2025 = 181 ∧
    (⟨2025, 6, 30⟩ : Date).ord - (⟨2023, 7, 1⟩ : Date).ord + 1 = 731 := by
  decide +kernel

example : GoodProgs ["P_A".toList, "unkept".toList, "P_Logs".toList, "A_1".toList] := by
  unfold GoodProgs; decide

/-- a concrete world: two programs, seven simulations (two batches), outputs cleared after the
first batch, mixed enumeration orders; estimate 9/2 and 7 against corrections 1 and 10 -/
example :
    let S : Stats Nat :=
      { ts := fun c => [Val.q c], emis := fun c => [Val.q (c + 1)], est := fun c => [(c : Rat) / 2, 7],
        rep := fun c => [(c : Rat), 10], nEmis := 1, nYears := 2,
        okTs := fun _ => true, okEmis := fun _ => true, okEst := fun _ => true }
    let W : Name → Nat → SimOut Nat := fun p s =>
      { ts := p.length * 100 + s, emis := s, est := if p.length = 3 then some 9 else none,
        rep := if p.length = 3 then some 1 else none }
    let r := runAll S W ["P_A".toList, "base".toList] false (mixedSched Nat) 7
    r.ts.length = 14 ∧ r.emis.length = 14 ∧
    List.lookup (key "P_A".toList 6) r.emis = some [Val.q 7, Val.q (7 / 2), Val.q 0] ∧
    List.lookup (key "base".toList 5) r.emis = some [Val.q 6, Val.q 0, Val.q 0] ∧
    List.lookup (key "P_A".toList 3) r.ts = some [Val.q 303] ∧
    (r.dirs.map fun pd => pd.2.length) = [20, 10] := by
  decide +kernel

end LdarModel.Summary
