import LdarModel.Lemmas.Emission
import LdarModel.Lemmas.EmissionE
/-
C02 — mitigated = baseline emitted − program emitted, leak by leak.

Model: `Model/Emission.lean` (`run`, `baseline`, `emitDays`, `mitDays`, `summaryEndArg`).
The statement is over every repairable emission (any start, natural duration, delays), every
schedule of tag events and every horizon `N`.
-/
namespace LdarModel.Emission

/-- the property at full strength (persistent and intermittent repairable emissions) -/
def C02_statement : Prop :=
  ∀ (p : Params) (ev : Nat → List TagEv) (N : Nat), p.repairable = true →
    emitDays p (run p ev N) + mitDays p (run p ev N) (summaryEndArg N) = emitDays p (baseline p N)
    ∧ 0 ≤ mitDays p (run p ev N) (summaryEndArg N)
    ∧ (mitDays p (run p ev N) (summaryEndArg N) ≠ 0 →
        (run p ev N).status = .repaired ∧ ∃ c, (run p ev N).by_ = .company c)

/-- invariant of the no-LDAR run: nobody tags -/
private def NoTag (s : State) : Prop :=
  (s.status ≠ .repaired → s.tagged = false) ∧ (∀ c, s.by_ ≠ .company c)

private theorem noTag_day (p : Params) (n : Int) (s : State) (h : NoTag s) :
    NoTag (day p n [] s) := by
  unfold NoTag at *
  unfold day
  simp only [List.foldl_nil]
  have tf := toggle_frame p
  unfold update activate endedAt
  by_cases hr : p.repairable = true <;> simp only [hr] <;> grind

theorem baseline_noTag (p : Params) (n : Nat) :
    ((baseline p n).status ≠ .repaired → (baseline p n).tagged = false) ∧
    (∀ c, (baseline p n).by_ ≠ .company c) := by
  induction n with
  | zero => simp [baseline, run, init]
  | succ n ih => exact noTag_day p n _ ih

/-- closed form of the no-LDAR run: active days after `N` simulated days -/
theorem baseline_activeDays (p : Params) (hr : p.repairable = true) (N : Nat) :
    (baseline p N).activeDays =
      if (N : Int) ≤ a p then 0 else (if (N : Int) - a p ≤ L p then (N : Int) - a p else L p) := by
  have hi := run_inv p hr noEvents N
  have hn := baseline_noTag p N
  unfold baseline at *
  unfold Inv at hi
  generalize run p noEvents N = s at *
  have hL := L_pos p
  cases hs : s.status <;> cases hby : s.by_ <;> grind

/-- program side: active days never exceed the baseline's, with equality unless a program repair
ended the leak -/
theorem run_activeDays (p : Params) (hr : p.repairable = true) (ev : Nat → List TagEv) (N : Nat) :
    (run p ev N).activeDays ≤ (baseline p N).activeDays ∧
    (¬ ((run p ev N).status = .repaired ∧ (run p ev N).by_ ≠ .natural) →
        (run p ev N).activeDays = (baseline p N).activeDays) := by
  have hi := run_inv p hr ev N
  rw [baseline_activeDays p hr N]
  unfold Inv at hi
  generalize run p ev N = s at *
  have hL := L_pos p
  cases hs : s.status <;> cases hby : s.by_ <;> grind

/-- calendar-day form, valid for *every* repairable emission (persistent or intermittent): days
active + days mitigated = days the same leak is active without LDAR; mitigation is never negative
and non-zero only after a program repair. -/
theorem C02_calendar_days (p : Params) (ev : Nat → List TagEv) (N : Nat) (hr : p.repairable = true) :
    (run p ev N).activeDays + mitDays p (run p ev N) (summaryEndArg N) = (baseline p N).activeDays
    ∧ 0 ≤ mitDays p (run p ev N) (summaryEndArg N)
    ∧ (mitDays p (run p ev N) (summaryEndArg N) ≠ 0 →
        (run p ev N).status = .repaired ∧ ∃ c, (run p ev N).by_ = .company c) := by
  have hi := run_inv p hr ev N
  have hb := baseline_activeDays p hr N
  have hab := start_add_b4 p
  have hL : L p = if p.nrd - b4 p ≥ 1 then p.nrd - b4 p else 1 := rfl
  unfold Inv at hi
  unfold mitDays summaryEndArg
  simp only [hr]
  rw [hb]
  generalize run p ev N = s at *
  refine ⟨?_, ?_, ?_⟩
  · cases hs : s.status <;> cases hby : s.by_ <;> grind
  · grind
  · intro hne
    cases hs : s.status <;> cases hby : s.by_ <;> grind

/-- C02 for persistent repairable emissions: proved for every start, duration, delay, schedule of
tag events and horizon. -/
theorem C02_partial (p : Params) (ev : Nat → List TagEv) (N : Nat)
    (hr : p.repairable = true) (hp : p.intermittent = false) :
    emitDays p (run p ev N) + mitDays p (run p ev N) (summaryEndArg N) = emitDays p (baseline p N)
    ∧ 0 ≤ mitDays p (run p ev N) (summaryEndArg N)
    ∧ (mitDays p (run p ev N) (summaryEndArg N) ≠ 0 →
        (run p ev N).status = .repaired ∧ ∃ c, (run p ev N).by_ = .company c) := by
  have h := C02_calendar_days p ev N hr
  unfold emitDays
  simp only [hp]
  exact h

/-- The full statement is false of the code as it stands for *intermittent* repairable sources
(known finding F4): `calc_mitigated` counts calendar days of the remaining natural life, the emitted
volume counts emitting days only.  Witness: on/off 1/1, natural duration 10, tagged on day 2,
no delay, 12 simulated days: emitted 1 + mitigated 7 ≠ 5 (baseline). -/
theorem C02_counterexample : ¬ C02_statement := by
  intro h
  have := (h { start := 0, nrd := 10, repairDelay := 0, repairable := true, intermittent := true,
               activeDur := 1, inactiveDur := 1 }
             (fun d => if d = 2 then [{ company := 7, trd := 0 }] else []) 12 rfl).1
  revert this
  decide +kernel

/-- A second, independent way in which intermittent sources break the identity (finding F4c): the
update that ends an emission is not seen by the intermittency toggle, so the day on which a leak is
repaired is never counted as an emitting day.  Witness without any non-emitting day inside the
horizon (3 on / 1 off, one simulated day, tagged on day 0, no delay): emitted 0 + mitigated 0, but the
same leak emits 1 day without LDAR. -/
theorem C02_counterexample_final_day :
    let p : Params := { start := 0, nrd := 10, repairDelay := 0, repairable := true,
                        intermittent := true, activeDur := 3, inactiveDur := 1 }
    let ev : Nat → List TagEv := fun d => if d = 0 then [{ company := 1, trd := 0 }] else []
    emitDays p (run p ev 1) + mitDays p (run p ev 1) (summaryEndArg 1) = 0 ∧
    emitDays p (baseline p 1) = 1 ∧ (run p ev 1).status = .repaired := by
  decide +kernel

/-- program totals: summing the leak-wise identity over any list of persistent repairable leaks,
each with its own tag schedule (volumes are these day counts times rate × 86.4) -/
theorem C02_totals (ls : List (Params × (Nat → List TagEv))) (N : Nat)
    (h : ∀ x ∈ ls, x.1.repairable = true ∧ x.1.intermittent = false) :
    (ls.map (fun x => emitDays x.1 (run x.1 x.2 N))).sum
      + (ls.map (fun x => mitDays x.1 (run x.1 x.2 N) (summaryEndArg N))).sum
      = (ls.map (fun x => emitDays x.1 (baseline x.1 N))).sum := by
  induction ls with
  | nil => simp
  | cons x xs ih =>
    have hx := h x (by simp)
    have := (C02_partial x.1 x.2 N hx.1 hx.2).1
    have ih' := ih (fun y hy => h y (by simp [hy]))
    simp only [List.map_cons, List.sum_cons]
    omega

/-- program totals as the summary files report them: *rate-weighted* volumes.  Each leak carries its
own rate `x.2.2` (volume = days × rate × 86.4, the common factor 86.4 dropped): over any list of
persistent repairable leaks, each with its own tag schedule,
Σ rate·emitted + Σ rate·mitigated = Σ rate·(no-LDAR emitted).  (Non-repairable leaks are added in
`C02_totals_all`, Props/C03.lean, via `C03_nonrepairable`.) -/
theorem C02_totals_weighted (ls : List (Params × (Nat → List TagEv) × Int)) (N : Nat)
    (h : ∀ x ∈ ls, x.1.repairable = true ∧ x.1.intermittent = false) :
    (ls.map (fun x => x.2.2 * emitDays x.1 (run x.1 x.2.1 N))).sum
      + (ls.map (fun x => x.2.2 * mitDays x.1 (run x.1 x.2.1 N) (summaryEndArg N))).sum
      = (ls.map (fun x => x.2.2 * emitDays x.1 (baseline x.1 N))).sum := by
  induction ls with
  | nil => simp
  | cons x xs ih =>
    have hx := h x (by simp)
    have := (C02_partial x.1 x.2.1 N hx.1 hx.2).1
    have ih' := ih (fun y hy => h y (by simp [hy]))
    simp only [List.map_cons, List.sum_cons]
    rw [← this, Int.mul_add]
    omega

/-- the same with detection-only events of screening methods mixed in (the day loop the simulator
really runs): they change nothing -/
theorem C02_calendar_days_E (p : Params) (ev : Nat → List Ev) (N : Nat) (hr : p.repairable = true) :
    (runE p ev N).activeDays + mitDays p (runE p ev N) (summaryEndArg N) = (baseline p N).activeDays
    ∧ 0 ≤ mitDays p (runE p ev N) (summaryEndArg N)
    ∧ (mitDays p (runE p ev N) (summaryEndArg N) ≠ 0 →
        (runE p ev N).status = .repaired ∧ ∃ c, (runE p ev N).by_ = .company c) := by
  have h := C02_calendar_days p (fun d => tagsOf (ev d)) N hr
  have f := runE_fields p ev N
  simp only at f
  unfold mitDays at *
  rw [f.1, f.2.1, f.2.2.2.2.2.1]
  exact h

theorem C02_partial_E (p : Params) (ev : Nat → List Ev) (N : Nat)
    (hr : p.repairable = true) (hp : p.intermittent = false) :
    emitDays p (runE p ev N) + mitDays p (runE p ev N) (summaryEndArg N) = emitDays p (baseline p N)
    ∧ 0 ≤ mitDays p (runE p ev N) (summaryEndArg N)
    ∧ (mitDays p (runE p ev N) (summaryEndArg N) ≠ 0 →
        (runE p ev N).status = .repaired ∧ ∃ c, (runE p ev N).by_ = .company c) := by
  have h := C02_calendar_days_E p ev N hr
  unfold emitDays
  simp only [hp]
  exact h

/-- non-vacuity: a pre-period leak (start −40, nrd 60) tagged on day 10 with δ = 3 over 40 days,
and a leak whose natural end lies beyond the last simulated day -/
example :
    let p : Params := { start := -40, nrd := 60, repairDelay := 2, repairable := true,
                        intermittent := false, activeDur := 1, inactiveDur := 0 }
    let ev : Nat → List TagEv := fun d => if d = 10 then [{ company := 1, trd := 1 }] else []
    (run p ev 40).status = .repaired ∧ (run p ev 40).activeDays = 13 ∧
    mitDays p (run p ev 40) (summaryEndArg 40) = 7 ∧ (baseline p 40).activeDays = 20 := by
  decide +kernel

example :
    let p : Params := { start := 5, nrd := 10, repairDelay := 0, repairable := true,
                        intermittent := false, activeDur := 1, inactiveDur := 0 }
    let ev : Nat → List TagEv := fun d => if d = 8 then [{ company := 1, trd := 0 }] else []
    (run p ev 12).activeDays = 4 ∧ mitDays p (run p ev 12) (summaryEndArg 12) = 3 ∧
    (baseline p 12).activeDays = 7 := by
  decide +kernel

/-- non-vacuity of the weighted totals: two leaks with rates 3 and 5, one repaired by the program -/
example :
    let p1 : Params := { start := 0, nrd := 10, repairDelay := 0, repairable := true,
                         intermittent := false, activeDur := 1, inactiveDur := 0 }
    let p2 : Params := { start := -2, nrd := 6, repairDelay := 1, repairable := true,
                         intermittent := false, activeDur := 1, inactiveDur := 0 }
    let ev : Nat → List TagEv := fun d => if d = 2 then [{ company := 1, trd := 0 }] else []
    3 * emitDays p1 (run p1 ev 12) + 5 * emitDays p2 (run p2 noEvents 12)
      + (3 * mitDays p1 (run p1 ev 12) (summaryEndArg 12) + 5 * mitDays p2 (run p2 noEvents 12) (summaryEndArg 12))
      = 3 * emitDays p1 (baseline p1 12) + 5 * emitDays p2 (baseline p2 12)
    ∧ mitDays p1 (run p1 ev 12) (summaryEndArg 12) = 7 := by
  decide +kernel

end LdarModel.Emission
