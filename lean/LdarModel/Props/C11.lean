import LdarModel.Lemmas.World
import LdarModel.Props.C03
import LdarModel.Props.C04
/-
C11 — the daily timeseries and the per-emission records tell the same story.
Model: `Model/World.lean` (a world = any list of emissions with arbitrary event schedules).
-/
namespace LdarModel.World
open LdarModel.Emission

/-! ### summation helpers -/

theorem sumOver_nil (f : Em → Int) : sumOver [] f = 0 := rfl
theorem sumOver_cons (e : Em) (w : List Em) (f : Em → Int) :
    sumOver (e :: w) f = f e + sumOver w f := by simp [sumOver]

/-- emission `e` is emitting at the end of day `n` (always true for persistent sources) -/
def emittingAfter (e : Em) (n : Nat) : Bool := isEmitting e.p (st e (n + 1))

/-- C11 at full strength -/
def C11_statement : Prop :=
  ∀ (w : List Em) (n : Nat),
    (row w n).active = prevActive w n + (row w n).new - (row w n).repaired
        - (row w n).natRepaired - (row w n).expired
    ∧ (row w n).emis = sumOver w (fun e => ind (activeAt e (n + 1) && emittingAfter e n) * e.rate)
    ∧ (row w n).emis = (row w n).emisMit + (row w n).emisNonMit

/-! ### ledger -/

/-- active leaks = previous day's active leaks + new − repaired − naturally repaired − expired,
for every world, every day (including day 0) and whatever the program did -/
theorem ledger (w : List Em) (n : Nat) :
    (row w n).active = prevActive w n + (row w n).new - (row w n).repaired
        - (row w n).natRepaired - (row w n).expired := by
  have key : ∀ w : List Em,
      sumOver w (fun e => ind (activeAt e (n + 1))) =
        sumOver w (fun e => ind (activeAt e n)) + sumOver w (fun e => ind (isNew e n))
        - sumOver w (fun e => ind (repairedOn e n)) - sumOver w (fun e => ind (natRepairedOn e n))
        - sumOver w (fun e => ind (expiredOn e n)) := by
    intro w
    induction w with
    | nil => simp [sumOver_nil]
    | cons e w ih =>
      simp only [sumOver_cons]
      have h1 := em_ledger e n
      have h2 := em_ended_split e n
      omega
  have prev : prevActive w n = sumOver w (fun e => ind (activeAt e n)) := by
    cases n with
    | zero =>
      simp only [prevActive]
      induction w with
      | nil => rfl
      | cons e w ih => simp only [sumOver_cons, ← ih]; simp [activeAt, st, runE, init, ind]
    | succ m => rfl
  simp only [row]
  rw [prev]
  exact key w

/-! ### daily emissions -/

theorem emis_split (w : List Em) (n : Nat) :
    (row w n).emis = (row w n).emisMit + (row w n).emisNonMit := by
  simp only [row]
  induction w with
  | nil => simp [sumOver_nil]
  | cons e w ih =>
    simp only [sumOver_cons]
    cases e.p.repairable <;> simp <;> omega

/-- the day's emissions are the summed rates of the emissions active at the end of the day
(× 86.4 outside the model) -/
theorem emis_active (w : List Em) (n : Nat) :
    (row w n).emis = sumOver w (fun e => ind (activeAt e (n + 1)) * e.rate) := rfl

/-- ... and of those active *and emitting* when every source is persistent -/
theorem emis_active_emitting_partial (w : List Em) (n : Nat)
    (h : ∀ e ∈ w, e.p.intermittent = false) :
    (row w n).emis = sumOver w (fun e => ind (activeAt e (n + 1) && emittingAfter e n) * e.rate) := by
  simp only [row]
  induction w with
  | nil => rfl
  | cons e w ih =>
    simp only [sumOver_cons]
    rw [ih (fun x hx => h x (by simp [hx]))]
    have : emittingAfter e n = true := by
      unfold emittingAfter isEmitting; simp [h e (by simp)]
    simp [this]

theorem C11_partial (w : List Em) (n : Nat) (h : ∀ e ∈ w, e.p.intermittent = false) :
    (row w n).active = prevActive w n + (row w n).new - (row w n).repaired
        - (row w n).natRepaired - (row w n).expired
    ∧ (row w n).emis = sumOver w (fun e => ind (activeAt e (n + 1) && emittingAfter e n) * e.rate)
    ∧ (row w n).emis = (row w n).emisMit + (row w n).emisNonMit :=
  ⟨ledger w n, emis_active_emitting_partial w n h, emis_split w n⟩

/-- Known finding F4b: for intermittent sources the daily emissions include active emissions that
are currently *not emitting* (`update_emissions_state` adds `get_daily_emis()` of every emission that
stays active).  Witness: one intermittent source (on 1 / off 1), rate 1: after day 0 it is active and
not emitting, yet the row shows its rate. -/
theorem C11_counterexample : ¬ C11_statement := by
  intro h
  have := (h [{ p := { start := 0, nrd := 10, repairDelay := 0, repairable := true,
                       intermittent := true, activeDur := 1, inactiveDur := 1 },
                rate := 1, ev := fun _ => [] }] 0).2.1
  revert this
  decide +kernel

/-! ### counts over the run = counts in the records -/

def sumDays (N : Nat) (f : Nat → Int) : Int := ((List.range N).map f).sum

theorem sumDays_succ (N : Nat) (f : Nat → Int) : sumDays (N + 1) f = sumDays N f + f N := by
  simp [sumDays, List.range_succ]

/-- not-inactive is monotone; a new activation is exactly the step from inactive to not inactive -/
theorem em_new_step (e : Em) (n : Nat) :
    ind (decide ((st e (n + 1)).status ≠ .inactive)) =
      ind (decide ((st e n).status ≠ .inactive)) + ind (isNew e n) := by
  unfold isNew ind
  rw [st_succ]
  cases hs : (st e n).status
  · by_cases hn : e.p.start ≤ (n : Int)
    · have := dayE_live e.p n (e.ev n) (st e n) (Or.inr ⟨hs, hn⟩)
      rcases this with h | h | h <;> simp [h, hn]
    · have := dayE_pending e.p n (e.ev n) (st e n) hs hn
      simp [this, hn]
  · have := dayE_live e.p n (e.ev n) (st e n) (Or.inl hs)
    rcases this with h | h | h <;> simp [h]
  · rw [dayE_frozen e.p n (e.ev n) (st e n) (Or.inl hs)]; simp [hs]
  · rw [dayE_frozen e.p n (e.ev n) (st e n) (Or.inr hs)]; simp [hs]

theorem em_new_count (e : Em) (N : Nat) :
    sumDays N (fun n => ind (isNew e n)) = ind (recOf e N).present := by
  induction N with
  | zero => simp [sumDays, recOf, st, runE, init, ind]
  | succ N ih =>
    rw [sumDays_succ, ih]
    have := em_new_step e N
    simp only [recOf] at *
    omega

/-- how an emission ended, as the records show it -/
def endedAs (r : Rec) (k : Nat) : Bool :=
  match k with
  | 0 => decide (r.status = .repaired) && !decide (r.by_ = .natural)   -- repaired by the program
  | 1 => decide (r.status = .repaired) && decide (r.by_ = .natural)    -- naturally repaired
  | _ => decide (r.status = .expired)                                   -- expired

def endedOnAs (e : Em) (n : Nat) (k : Nat) : Bool :=
  match k with
  | 0 => repairedOn e n
  | 1 => natRepairedOn e n
  | _ => expiredOn e n

/-- the four ways one day can treat one emission -/
theorem em_step_cases (e : Em) (n : Nat) :
    ((st e n).status = .inactive ∧ e.p.start ≤ (n : Int) ∧
        ((st e (n + 1)).status = .active ∨ (st e (n + 1)).status = .repaired ∨ (st e (n + 1)).status = .expired))
    ∨ ((st e n).status = .inactive ∧ ¬ e.p.start ≤ (n : Int) ∧ (st e (n + 1)).status = .inactive)
    ∨ ((st e n).status = .active ∧
        ((st e (n + 1)).status = .active ∨ (st e (n + 1)).status = .repaired ∨ (st e (n + 1)).status = .expired))
    ∨ (((st e n).status = .repaired ∨ (st e n).status = .expired) ∧ st e (n + 1) = st e n) := by
  rw [st_succ]
  cases hs : (st e n).status
  · by_cases hn : e.p.start ≤ (n : Int)
    · exact Or.inl ⟨rfl, hn, dayE_live e.p n (e.ev n) (st e n) (Or.inr ⟨hs, hn⟩)⟩
    · exact Or.inr (Or.inl ⟨rfl, hn, dayE_pending e.p n (e.ev n) (st e n) hs hn⟩)
  · exact Or.inr (Or.inr (Or.inl ⟨rfl, dayE_live e.p n (e.ev n) (st e n) (Or.inl hs)⟩))
  · exact Or.inr (Or.inr (Or.inr ⟨Or.inl rfl, dayE_frozen e.p n (e.ev n) (st e n) (Or.inl hs)⟩))
  · exact Or.inr (Or.inr (Or.inr ⟨Or.inr rfl, dayE_frozen e.p n (e.ev n) (st e n) (Or.inr hs)⟩))

theorem em_end_step (e : Em) (n : Nat) (k : Nat) :
    ind (endedAs (recOf e (n + 1)) k) = ind (endedAs (recOf e n) k) + ind (endedOnAs e n k) := by
  have hc := em_step_cases e n
  rcases k with _ | _ | k <;>
    simp only [endedOnAs, endedAs, repairedOn, natRepairedOn, expiredOn, endedOn, activeAt, isNew, recOf, ind] <;>
    rcases hc with ⟨h1, h2, h3 | h3 | h3⟩ | ⟨h1, h2, h3⟩ | ⟨h1, h3 | h3 | h3⟩ | ⟨h1 | h1, h3⟩ <;>
    by_cases hb : (st e (n + 1)).by_ = .natural <;> simp_all

theorem em_end_count (e : Em) (N : Nat) (k : Nat) :
    sumDays N (fun n => ind (endedOnAs e n k)) = ind (endedAs (recOf e N) k) := by
  induction N with
  | zero => rcases k with _ | _ | k <;> simp [sumDays, endedAs, recOf, st, runE, init, ind]
  | succ N ih =>
    rw [sumDays_succ, ih]
    have := em_end_step e N k
    omega

theorem sumOver_add (w : List Em) (g h : Em → Int) :
    sumOver w (fun e => g e + h e) = sumOver w g + sumOver w h := by
  induction w with
  | nil => rfl
  | cons e w ih => simp only [sumOver_cons, ih]; omega

theorem sumDays_sumOver (w : List Em) (N : Nat) (f : Em → Nat → Int) :
    sumDays N (fun n => sumOver w (fun e => f e n)) = sumOver w (fun e => sumDays N (f e)) := by
  induction N with
  | zero =>
    simp only [sumDays, List.range_zero, List.map_nil, List.sum_nil]
    induction w with
    | nil => rfl
    | cons e w ih => simp only [sumOver_cons, ← ih]; simp
  | succ N ih =>
    simp only [sumDays_succ, ih, sumOver_add]

/-- new leaks summed over the run = number of emission records; repaired / naturally repaired /
expired counts summed over the run = number of records with that end -/
theorem counts (w : List Em) (N : Nat) :
    sumDays N (fun n => (row w n).new) = sumOver w (fun e => ind (recOf e N).present)
    ∧ sumDays N (fun n => (row w n).repaired) = sumOver w (fun e => ind (endedAs (recOf e N) 0))
    ∧ sumDays N (fun n => (row w n).natRepaired) = sumOver w (fun e => ind (endedAs (recOf e N) 1))
    ∧ sumDays N (fun n => (row w n).expired) = sumOver w (fun e => ind (endedAs (recOf e N) 2)) := by
  refine ⟨?_, ?_, ?_, ?_⟩
  · simp only [row]; rw [sumDays_sumOver]; congr 1; funext e; exact em_new_count e N
  · simp only [row]; rw [sumDays_sumOver]; congr 1; funext e; exact em_end_count e N 0
  · simp only [row]; rw [sumDays_sumOver]; congr 1; funext e; exact em_end_count e N 1
  · simp only [row]; rw [sumDays_sumOver]; congr 1; funext e; exact em_end_count e N 2

/-! ### the daily series can be reconstructed from the records -/

/-- life-cycle facts of any emission kind after `m` days -/
theorem life (e : Em) (m : Nat) :
    ((st e m).status = .inactive → (m : Int) ≤ a e.p) ∧
    ((st e m).status = .active → a e.p < m ∧ (st e m).activeDays = m - a e.p ∧ (st e m).endDate = none) ∧
    (((st e m).status = .repaired ∨ (st e m).status = .expired) →
        (st e m).endDate = some (a e.p + (st e m).activeDays) ∧ 1 ≤ (st e m).activeDays ∧
        (st e m).activeDays ≤ m - a e.p) := by
  have f := runE_fields e.p e.ev m
  have hend := C04_end_date_E e.p e.ev m
  have hab := start_add_b4 e.p
  have hL := L_pos e.p
  simp only at f
  unfold st
  cases hr : e.p.repairable
  · have hi := run_invN e.p hr (fun d => tagsOf (e.ev d)) m
    unfold InvN at hi
    rw [← f.1, ← f.2.1] at hi
    generalize runE e.p e.ev m = s at *
    grind
  · have hi := run_inv e.p hr (fun d => tagsOf (e.ev d)) m
    unfold Emission.Inv at hi
    rw [← f.1, ← f.2.1] at hi
    generalize runE e.p e.ev m = s at *
    grind

theorem frozen_from (e : Em) (m k : Nat)
    (h : (st e m).status = .repaired ∨ (st e m).status = .expired) : st e (m + k) = st e m := by
  induction k with
  | zero => rfl
  | succ k ih =>
    have : st e (m + (k + 1)) = dayE e.p ((m + k : Nat) : Int) (e.ev (m + k)) (st e (m + k)) := rfl
    rw [this, ih]
    exact dayE_frozen e.p _ _ _ h

theorem events_activeDays (p : Params) (d : Int) (evs : List Ev) (s : State) :
    (evs.foldl (fun s e => applyEv p d e s) s).activeDays = s.activeDays := by
  induction evs generalizing s with
  | nil => rfl
  | cons e evs ih =>
    simp only [List.foldl_cons]
    rw [ih]
    cases e with
    | tag e => simp only [applyEv]; unfold tag detectRec; grind
    | detect c => simp only [applyEv]; unfold detectRec; grind

/-- a day on which the emission starts active adds exactly one active day -/
theorem dayE_activeDays (p : Params) (d : Int) (evs : List Ev) (s : State) (h : s.status = .active) :
    (dayE p d evs s).activeDays = s.activeDays + 1 := by
  have h1 : activate p d s = s := by unfold activate; simp [h]
  have tf := toggle_frame p
  unfold dayE
  rw [h1]
  have hst := events_status p d evs s
  have had := events_activeDays p d evs s
  generalize evs.foldl (fun s e => applyEv p d e s) s = t at *
  unfold update
  rw [h] at hst
  simp only [hst]
  grind

/-- once active after `m` days, the emission is later either still active or ended with more
active days than it had then -/
theorem after_active (e : Em) (m : Nat) (h : (st e m).status = .active) (k : Nat) :
    (st e (m + k)).status = .active ∨
    (((st e (m + k)).status = .repaired ∨ (st e (m + k)).status = .expired) ∧
      (st e (m + k)).activeDays ≥ (m : Int) - a e.p + 1) := by
  induction k with
  | zero => exact Or.inl h
  | succ k ih =>
    have hs : st e (m + (k + 1)) = st e ((m + k) + 1) := rfl
    rw [hs]
    rcases ih with hact | ⟨hend, hge⟩
    · have hl := (life e (m + k)).2.1 hact
      have hd : (st e ((m + k) + 1)).activeDays = (st e (m + k)).activeDays + 1 := by
        rw [st_succ]; exact dayE_activeDays _ _ _ _ hact
      rcases em_step_cases e (m + k) with ⟨h1, _⟩ | ⟨h1, _⟩ | ⟨_, h3⟩ | ⟨h1, _⟩
      · rw [hact] at h1; cases h1
      · rw [hact] at h1; cases h1
      · rcases h3 with h3 | h3 | h3
        · exact Or.inl h3
        · right; refine ⟨Or.inl h3, ?_⟩; rw [hd, hl.2.1]; push_cast; omega
        · right; refine ⟨Or.inr h3, ?_⟩; rw [hd, hl.2.1]; push_cast; omega
      · rw [hact] at h1; rcases h1 with h1 | h1 <;> cases h1
    · have := frozen_from e (m + k) 1 hend
      rw [this]
      exact Or.inr ⟨hend, hge⟩

/-- C11 reconstruction: whether an emission counts as active at the end of day `n` can be read off
its record (start date, end date) alone; hence every row of the series — counts and emission sums —
is a function of the records' start dates, end dates, rates and repairability. -/
theorem reconstruct_em (e : Em) (N n : Nat) (h : n < N) :
    activeAt e (n + 1) = recActiveAfter (recOf e N) n := by
  obtain ⟨j, rfl⟩ : ∃ j, N = (n + 1) + j := ⟨N - (n + 1), by omega⟩
  have ls := life e (n + 1)
  have lf := life e ((n + 1) + j)
  have ha : (if e.p.start > 0 then e.p.start else 0) = a e.p := rfl
  unfold activeAt recActiveAfter recOf
  simp only [ha]
  cases hs : (st e (n + 1)).status
  · -- pending after day n: start lies beyond day n
    have := ls.1 hs
    have : ¬ (a e.p ≤ (n : Int)) := by push_cast at this; omega
    simp [this]
  · -- active after day n
    have hl := ls.2.1 hs
    rcases after_active e (n + 1) hs j with hact | ⟨hend, hge⟩
    · have := (lf.2.1 hact).2.2
      have ha' : a e.p ≤ (n : Int) := by have := hl.1; push_cast at this; omega
      simp [hact, this, ha']
    · have he := (lf.2.2 hend).1
      have ha' : a e.p ≤ (n : Int) := by have := hl.1; push_cast at this; omega
      have hne : (st e (n + 1 + j)).status ≠ .inactive := by
        rcases hend with h | h <;> rw [h] <;> decide
      simp only [he, ha']
      push_cast at hge
      have : (n : Int) + 1 < a e.p + (st e (n + 1 + j)).activeDays := by omega
      simp [this, hne]
  · have hfz := frozen_from e (n + 1) j (Or.inl hs)
    have hl := ls.2.2 (Or.inl hs)
    rw [hfz, hl.1]
    have : ¬ ((n : Int) + 1 < a e.p + (st e (n + 1)).activeDays) := by
      have := hl.2.2; push_cast at this; omega
    simp [hs, this]
  · have hfz := frozen_from e (n + 1) j (Or.inr hs)
    have hl := ls.2.2 (Or.inr hs)
    rw [hfz, hl.1]
    have : ¬ ((n : Int) + 1 < a e.p + (st e (n + 1)).activeDays) := by
      have := hl.2.2; push_cast at this; omega
    simp [hs, this]

/-- the row's active count and emission sums recomputed from the records of a run of `N` days -/
theorem reconstruct (w : List Em) (N n : Nat) (h : n < N) :
    (row w n).active = sumOver w (fun e => ind (recActiveAfter (recOf e N) n))
    ∧ (row w n).emis = sumOver w (fun e => ind (recActiveAfter (recOf e N) n) * (recOf e N).rate)
    ∧ (row w n).emisMit = sumOver w (fun e =>
        if (recOf e N).repairable then ind (recActiveAfter (recOf e N) n) * (recOf e N).rate else 0)
    ∧ (row w n).emisNonMit = sumOver w (fun e =>
        if (recOf e N).repairable then 0 else ind (recActiveAfter (recOf e N) n) * (recOf e N).rate) := by
  have hr : ∀ e : Em, activeAt e (n + 1) = recActiveAfter (recOf e N) n :=
    fun e => reconstruct_em e N n h
  simp only [row]
  refine ⟨?_, ?_, ?_, ?_⟩ <;> (congr 1; funext e; rw [hr e]; try rfl)

/-- non-vacuity: a three-emission world over 6 days -/
example :
    let p1 : Params := { start := -2, nrd := 5, repairDelay := 1, repairable := true,
                         intermittent := false, activeDur := 1, inactiveDur := 0 }
    let p2 : Params := { start := 1, nrd := 3, repairDelay := 0, repairable := false,
                         intermittent := false, activeDur := 1, inactiveDur := 0 }
    let w : List Em := [{ p := p1, rate := 2, ev := fun d => if d = 1 then [.tag { company := 1, trd := 0 }] else [] },
                        { p := p2, rate := 4, ev := fun _ => [] }]
    (row w 0).new = 1 ∧ (row w 1).active = 1 ∧ (row w 1).repaired = 1 ∧ (row w 3).expired = 1 ∧
    (row w 2).emis = 4 := by
  decide +kernel

end LdarModel.World
