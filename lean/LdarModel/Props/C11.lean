import LdarModel.Lemmas.World
import LdarModel.Props.C03
import LdarModel.Props.C04
/-
C11 — the daily timeseries and the per-emission records tell the same story.
Model: `Model/World.lean` (a world = any list of emissions with arbitrary event schedules).
-/
namespace LdarModel.World
open LdarModel.Emission

/-! ### summation helpers -/

theorem sumOver_nil (f : Em → Int) : sumOver [] f = 0 := rfl
theorem sumOver_cons (e : Em) (w : List Em) (f : Em → Int) :
    sumOver (e :: w) f = f e + sumOver w f := by simp [sumOver]

/-- emission `e` is emitting at the end of day `n` (always true for persistent sources) -/
def emittingAfter (e : Em) (n : Nat) : Bool := isEmitting e.p (st e (n + 1))

/-- the other reading of "emitting at the end of day `n`": `e` was emitting *during* day `n`, i.e.
the flag the daily update of day `n` finds — the one `days_emitting` counts (`daysEmitting_step`).
`emittingAfter` is the flag *after* the toggle of that update, i.e. `is_emitting()` at the moment the
row of day `n` is written; the two are one day apart (`emitting_conventions`).  The property text
("active and emitting at the end of that day") is formalised with `emittingAfter` in `C11_statement`
and with `emittingDuring` in `C11_statement_during`; for persistent sources both hold, for
intermittent sources both fail on the same witness (`f4bWitness_day1`).
(`mid`, `emittingDuring`, `emittingSum` are defined in Model/World.lean.) -/
theorem emittingDuring_def (e : Em) (n : Nat) : emittingDuring e n = isEmitting e.p (mid e n) := rfl

/-- the sums the driver prints for the correspondence are the right-hand sides of the two statements -/
theorem emittingSum_eq (w : List Em) (n : Nat) :
    emittingSum w n true = sumOver w (fun e => ind (activeAt e (n + 1) && emittingAfter e n) * e.rate) ∧
    emittingSum w n false = sumOver w (fun e => ind (activeAt e (n + 1) && emittingDuring e n) * e.rate) :=
  ⟨rfl, rfl⟩

/-- C11 at full strength -/
def C11_statement : Prop :=
  ∀ (w : List Em) (n : Nat),
    (row w n).active = prevActive w n + (row w n).new - (row w n).repaired
        - (row w n).natRepaired - (row w n).expired
    ∧ (row w n).emis = sumOver w (fun e => ind (activeAt e (n + 1) && emittingAfter e n) * e.rate)
    ∧ (row w n).emis = (row w n).emisMit + (row w n).emisNonMit

/-- C11 with "emitting" read as "emitting during the day" (consistent with `days_emitting`) -/
def C11_statement_during : Prop :=
  ∀ (w : List Em) (n : Nat),
    (row w n).active = prevActive w n + (row w n).new - (row w n).repaired
        - (row w n).natRepaired - (row w n).expired
    ∧ (row w n).emis = sumOver w (fun e => ind (activeAt e (n + 1) && emittingDuring e n) * e.rate)
    ∧ (row w n).emis = (row w n).emisMit + (row w n).emisNonMit

/-! ### ledger -/

/-- active leaks = previous day's active leaks + new − repaired − naturally repaired − expired,
for every world, every day (including day 0) and whatever the program did -/
theorem ledger (w : List Em) (n : Nat) :
    (row w n).active = prevActive w n + (row w n).new - (row w n).repaired
        - (row w n).natRepaired - (row w n).expired := by
  have key : ∀ w : List Em,
      sumOver w (fun e => ind (activeAt e (n + 1))) =
        sumOver w (fun e => ind (activeAt e n)) + sumOver w (fun e => ind (isNew e n))
        - sumOver w (fun e => ind (repairedOn e n)) - sumOver w (fun e => ind (natRepairedOn e n))
        - sumOver w (fun e => ind (expiredOn e n)) := by
    intro w
    induction w with
    | nil => simp [sumOver_nil]
    | cons e w ih =>
      simp only [sumOver_cons]
      have h1 := em_ledger e n
      have h2 := em_ended_split e n
      omega
  have prev : prevActive w n = sumOver w (fun e => ind (activeAt e n)) := by
    cases n with
    | zero =>
      simp only [prevActive]
      induction w with
      | nil => rfl
      | cons e w ih => simp only [sumOver_cons, ← ih]; simp [activeAt, st, runE, init, ind]
    | succ m => rfl
  simp only [row]
  rw [prev]
  exact key w

/-! ### daily emissions -/

theorem emis_split (w : List Em) (n : Nat) :
    (row w n).emis = (row w n).emisMit + (row w n).emisNonMit := by
  simp only [row]
  induction w with
  | nil => simp [sumOver_nil]
  | cons e w ih =>
    simp only [sumOver_cons]
    cases e.p.repairable <;> simp <;> omega

/-- the day's emissions are the summed rates of the emissions active at the end of the day
(× 86.4 outside the model) -/
theorem emis_active (w : List Em) (n : Nat) :
    (row w n).emis = sumOver w (fun e => ind (activeAt e (n + 1)) * e.rate) := rfl

/-- ... and of those active *and emitting* when every source is persistent -/
theorem emis_active_emitting_partial (w : List Em) (n : Nat)
    (h : ∀ e ∈ w, e.p.intermittent = false) :
    (row w n).emis = sumOver w (fun e => ind (activeAt e (n + 1) && emittingAfter e n) * e.rate) := by
  simp only [row]
  induction w with
  | nil => rfl
  | cons e w ih =>
    simp only [sumOver_cons]
    rw [ih (fun x hx => h x (by simp [hx]))]
    have : emittingAfter e n = true := by
      unfold emittingAfter isEmitting; simp [h e (by simp)]
    simp [this]

theorem C11_partial (w : List Em) (n : Nat) (h : ∀ e ∈ w, e.p.intermittent = false) :
    (row w n).active = prevActive w n + (row w n).new - (row w n).repaired
        - (row w n).natRepaired - (row w n).expired
    ∧ (row w n).emis = sumOver w (fun e => ind (activeAt e (n + 1) && emittingAfter e n) * e.rate)
    ∧ (row w n).emis = (row w n).emisMit + (row w n).emisNonMit :=
  ⟨ledger w n, emis_active_emitting_partial w n h, emis_split w n⟩

theorem emis_active_emitting_during_partial (w : List Em) (n : Nat)
    (h : ∀ e ∈ w, e.p.intermittent = false) :
    (row w n).emis = sumOver w (fun e => ind (activeAt e (n + 1) && emittingDuring e n) * e.rate) := by
  simp only [row]
  induction w with
  | nil => rfl
  | cons e w ih =>
    simp only [sumOver_cons]
    rw [ih (fun x hx => h x (by simp [hx]))]
    have : emittingDuring e n = true := by
      unfold emittingDuring isEmitting; simp [h e (by simp)]
    simp [this]

theorem C11_during_partial (w : List Em) (n : Nat) (h : ∀ e ∈ w, e.p.intermittent = false) :
    (row w n).active = prevActive w n + (row w n).new - (row w n).repaired
        - (row w n).natRepaired - (row w n).expired
    ∧ (row w n).emis = sumOver w (fun e => ind (activeAt e (n + 1) && emittingDuring e n) * e.rate)
    ∧ (row w n).emis = (row w n).emisMit + (row w n).emisNonMit :=
  ⟨ledger w n, emis_active_emitting_during_partial w n h, emis_split w n⟩

/-- the F4b witness: one intermittent source, on 1 day / off 2 days, rate 1, started on day 0 -/
def f4bWitness : List Em :=
  [{ p := { start := 0, nrd := 10, repairDelay := 0, repairable := true,
            intermittent := true, activeDur := 1, inactiveDur := 2 },
     rate := 1, ev := fun _ => [] }]

/-- on day 1 the witness is active, did not emit during the day (`days_emitting` unchanged) and is
not emitting at its end — whichever way "emitting" is read — and the row still shows its rate.
(The earlier witness "on 1 / off 1, day 0" was an artefact of the after-update reading: that emission
*did* emit during day 0 and `days_emitting` counts the day.) -/
theorem f4bWitness_day1 :
    (row f4bWitness 1).active = 1 ∧ (row f4bWitness 1).emis = 1 ∧
    (∀ e ∈ f4bWitness, emittingAfter e 1 = false ∧ emittingDuring e 1 = false ∧
        (st e 2).daysEmitting = (st e 1).daysEmitting) := by
  decide +kernel

/-- Known finding F4b: for intermittent sources the daily emissions include active emissions that
are *not emitting* (`update_emissions_state` adds `get_daily_emis()` of every emission that stays
active; `is_emitting()` is not consulted).  Witness: `f4bWitness`, day 1. -/
theorem C11_counterexample : ¬ C11_statement := by
  intro h
  have := (h f4bWitness 1).2.1
  revert this
  decide +kernel

/-- ... and the same witness refutes the statement under the `days_emitting` reading -/
theorem C11_during_counterexample : ¬ C11_statement_during := by
  intro h
  have := (h f4bWitness 1).2.1
  revert this
  decide +kernel

/-! ### counts over the run = counts in the records -/

def sumDays (N : Nat) (f : Nat → Int) : Int := ((List.range N).map f).sum

theorem sumDays_succ (N : Nat) (f : Nat → Int) : sumDays (N + 1) f = sumDays N f + f N := by
  simp [sumDays, List.range_succ]

/-- not-inactive is monotone; a new activation is exactly the step from inactive to not inactive -/
theorem em_new_step (e : Em) (n : Nat) :
    ind (decide ((st e (n + 1)).status ≠ .inactive)) =
      ind (decide ((st e n).status ≠ .inactive)) + ind (isNew e n) := by
  unfold isNew ind
  rw [st_succ]
  cases hs : (st e n).status
  · by_cases hn : e.p.start ≤ (n : Int)
    · have := dayE_live e.p n (e.ev n) (st e n) (Or.inr ⟨hs, hn⟩)
      rcases this with h | h | h <;> simp [h, hn]
    · have := dayE_pending e.p n (e.ev n) (st e n) hs hn
      simp [this, hn]
  · have := dayE_live e.p n (e.ev n) (st e n) (Or.inl hs)
    rcases this with h | h | h <;> simp [h]
  · rw [dayE_frozen e.p n (e.ev n) (st e n) (Or.inl hs)]; simp [hs]
  · rw [dayE_frozen e.p n (e.ev n) (st e n) (Or.inr hs)]; simp [hs]

theorem em_new_count (e : Em) (N : Nat) :
    sumDays N (fun n => ind (isNew e n)) = ind (recOf e N).present := by
  induction N with
  | zero => simp [sumDays, recOf, st, runE, init, ind]
  | succ N ih =>
    rw [sumDays_succ, ih]
    have := em_new_step e N
    simp only [recOf] at *
    omega

/-- how an emission ended, as the records show it -/
def endedAs (r : Rec) (k : Nat) : Bool :=
  match k with
  | 0 => decide (r.status = .repaired) && !decide (r.by_ = .natural)   -- repaired by the program
  | 1 => decide (r.status = .repaired) && decide (r.by_ = .natural)    -- naturally repaired
  | _ => decide (r.status = .expired)                                   -- expired

theorem endedAs_eq (r : Rec) (k : Nat) : endedAs r k = recEndedAs r k := by
  rcases k with _ | _ | k <;> rfl

def endedOnAs (e : Em) (n : Nat) (k : Nat) : Bool :=
  match k with
  | 0 => repairedOn e n
  | 1 => natRepairedOn e n
  | _ => expiredOn e n

/-- the four ways one day can treat one emission -/
theorem em_step_cases (e : Em) (n : Nat) :
    ((st e n).status = .inactive ∧ e.p.start ≤ (n : Int) ∧
        ((st e (n + 1)).status = .active ∨ (st e (n + 1)).status = .repaired ∨ (st e (n + 1)).status = .expired))
    ∨ ((st e n).status = .inactive ∧ ¬ e.p.start ≤ (n : Int) ∧ (st e (n + 1)).status = .inactive)
    ∨ ((st e n).status = .active ∧
        ((st e (n + 1)).status = .active ∨ (st e (n + 1)).status = .repaired ∨ (st e (n + 1)).status = .expired))
    ∨ (((st e n).status = .repaired ∨ (st e n).status = .expired) ∧ st e (n + 1) = st e n) := by
  rw [st_succ]
  cases hs : (st e n).status
  · by_cases hn : e.p.start ≤ (n : Int)
    · exact Or.inl ⟨rfl, hn, dayE_live e.p n (e.ev n) (st e n) (Or.inr ⟨hs, hn⟩)⟩
    · exact Or.inr (Or.inl ⟨rfl, hn, dayE_pending e.p n (e.ev n) (st e n) hs hn⟩)
  · exact Or.inr (Or.inr (Or.inl ⟨rfl, dayE_live e.p n (e.ev n) (st e n) (Or.inl hs)⟩))
  · exact Or.inr (Or.inr (Or.inr ⟨Or.inl rfl, dayE_frozen e.p n (e.ev n) (st e n) (Or.inl hs)⟩))
  · exact Or.inr (Or.inr (Or.inr ⟨Or.inr rfl, dayE_frozen e.p n (e.ev n) (st e n) (Or.inr hs)⟩))

theorem em_end_step (e : Em) (n : Nat) (k : Nat) :
    ind (endedAs (recOf e (n + 1)) k) = ind (endedAs (recOf e n) k) + ind (endedOnAs e n k) := by
  have hc := em_step_cases e n
  rcases k with _ | _ | k <;>
    simp only [endedOnAs, endedAs, repairedOn, natRepairedOn, expiredOn, endedOn, activeAt, isNew, recOf, ind] <;>
    rcases hc with ⟨h1, h2, h3 | h3 | h3⟩ | ⟨h1, h2, h3⟩ | ⟨h1, h3 | h3 | h3⟩ | ⟨h1 | h1, h3⟩ <;>
    by_cases hb : (st e (n + 1)).by_ = .natural <;> simp_all

theorem em_end_count (e : Em) (N : Nat) (k : Nat) :
    sumDays N (fun n => ind (endedOnAs e n k)) = ind (endedAs (recOf e N) k) := by
  induction N with
  | zero => rcases k with _ | _ | k <;> simp [sumDays, endedAs, recOf, st, runE, init, ind]
  | succ N ih =>
    rw [sumDays_succ, ih]
    have := em_end_step e N k
    omega

theorem sumOver_add (w : List Em) (g h : Em → Int) :
    sumOver w (fun e => g e + h e) = sumOver w g + sumOver w h := by
  induction w with
  | nil => rfl
  | cons e w ih => simp only [sumOver_cons, ih]; omega

theorem sumDays_sumOver (w : List Em) (N : Nat) (f : Em → Nat → Int) :
    sumDays N (fun n => sumOver w (fun e => f e n)) = sumOver w (fun e => sumDays N (f e)) := by
  induction N with
  | zero =>
    simp only [sumDays, List.range_zero, List.map_nil, List.sum_nil]
    induction w with
    | nil => rfl
    | cons e w ih => simp only [sumOver_cons, ← ih]; simp
  | succ N ih =>
    simp only [sumDays_succ, ih, sumOver_add]

/-- new leaks summed over the run = number of emission records; repaired / naturally repaired /
expired counts summed over the run = number of records with that end -/
theorem counts (w : List Em) (N : Nat) :
    sumDays N (fun n => (row w n).new) = sumOver w (fun e => ind (recOf e N).present)
    ∧ sumDays N (fun n => (row w n).repaired) = sumOver w (fun e => ind (endedAs (recOf e N) 0))
    ∧ sumDays N (fun n => (row w n).natRepaired) = sumOver w (fun e => ind (endedAs (recOf e N) 1))
    ∧ sumDays N (fun n => (row w n).expired) = sumOver w (fun e => ind (endedAs (recOf e N) 2)) := by
  refine ⟨?_, ?_, ?_, ?_⟩
  · simp only [row]; rw [sumDays_sumOver]; congr 1; funext e; exact em_new_count e N
  · simp only [row]; rw [sumDays_sumOver]; congr 1; funext e; exact em_end_count e N 0
  · simp only [row]; rw [sumDays_sumOver]; congr 1; funext e; exact em_end_count e N 1
  · simp only [row]; rw [sumDays_sumOver]; congr 1; funext e; exact em_end_count e N 2

/-! ### the daily series can be reconstructed from the records -/

/-- life-cycle facts of any emission kind after `m` days -/
theorem life (e : Em) (m : Nat) :
    ((st e m).status = .inactive → (m : Int) ≤ a e.p) ∧
    ((st e m).status = .active → a e.p < m ∧ (st e m).activeDays = m - a e.p ∧ (st e m).endDate = none) ∧
    (((st e m).status = .repaired ∨ (st e m).status = .expired) →
        (st e m).endDate = some (a e.p + (st e m).activeDays) ∧ 1 ≤ (st e m).activeDays ∧
        (st e m).activeDays ≤ m - a e.p) := by
  have f := runE_fields e.p e.ev m
  have hend := C04_end_date_E e.p e.ev m
  have hab := start_add_b4 e.p
  have hL := L_pos e.p
  simp only at f
  unfold st
  cases hr : e.p.repairable
  · have hi := run_invN e.p hr (fun d => tagsOf (e.ev d)) m
    unfold InvN at hi
    rw [← f.1, ← f.2.1] at hi
    generalize runE e.p e.ev m = s at *
    grind
  · have hi := run_inv e.p hr (fun d => tagsOf (e.ev d)) m
    unfold Emission.Inv at hi
    rw [← f.1, ← f.2.1] at hi
    generalize runE e.p e.ev m = s at *
    grind

theorem frozen_from (e : Em) (m k : Nat)
    (h : (st e m).status = .repaired ∨ (st e m).status = .expired) : st e (m + k) = st e m := by
  induction k with
  | zero => rfl
  | succ k ih =>
    have : st e (m + (k + 1)) = dayE e.p ((m + k : Nat) : Int) (e.ev (m + k)) (st e (m + k)) := rfl
    rw [this, ih]
    exact dayE_frozen e.p _ _ _ h

theorem events_activeDays (p : Params) (d : Int) (evs : List Ev) (s : State) :
    (evs.foldl (fun s e => applyEv p d e s) s).activeDays = s.activeDays := by
  induction evs generalizing s with
  | nil => rfl
  | cons e evs ih =>
    simp only [List.foldl_cons]
    rw [ih]
    cases e with
    | tag e => simp only [applyEv]; unfold tag detectRec; grind
    | detect c => simp only [applyEv]; unfold detectRec; grind

/-- a day on which the emission starts active adds exactly one active day -/
theorem dayE_activeDays (p : Params) (d : Int) (evs : List Ev) (s : State) (h : s.status = .active) :
    (dayE p d evs s).activeDays = s.activeDays + 1 := by
  have h1 : activate p d s = s := by unfold activate; simp [h]
  have tf := toggle_frame p
  unfold dayE
  rw [h1]
  have hst := events_status p d evs s
  have had := events_activeDays p d evs s
  generalize evs.foldl (fun s e => applyEv p d e s) s = t at *
  unfold update
  rw [h] at hst
  simp only [hst]
  grind

/-- once active after `m` days, the emission is later either still active or ended with more
active days than it had then -/
theorem after_active (e : Em) (m : Nat) (h : (st e m).status = .active) (k : Nat) :
    (st e (m + k)).status = .active ∨
    (((st e (m + k)).status = .repaired ∨ (st e (m + k)).status = .expired) ∧
      (st e (m + k)).activeDays ≥ (m : Int) - a e.p + 1) := by
  induction k with
  | zero => exact Or.inl h
  | succ k ih =>
    have hs : st e (m + (k + 1)) = st e ((m + k) + 1) := rfl
    rw [hs]
    rcases ih with hact | ⟨hend, hge⟩
    · have hl := (life e (m + k)).2.1 hact
      have hd : (st e ((m + k) + 1)).activeDays = (st e (m + k)).activeDays + 1 := by
        rw [st_succ]; exact dayE_activeDays _ _ _ _ hact
      rcases em_step_cases e (m + k) with ⟨h1, _⟩ | ⟨h1, _⟩ | ⟨_, h3⟩ | ⟨h1, _⟩
      · rw [hact] at h1; cases h1
      · rw [hact] at h1; cases h1
      · rcases h3 with h3 | h3 | h3
        · exact Or.inl h3
        · right; refine ⟨Or.inl h3, ?_⟩; rw [hd, hl.2.1]; push_cast; omega
        · right; refine ⟨Or.inr h3, ?_⟩; rw [hd, hl.2.1]; push_cast; omega
      · rw [hact] at h1; rcases h1 with h1 | h1 <;> cases h1
    · have := frozen_from e (m + k) 1 hend
      rw [this]
      exact Or.inr ⟨hend, hge⟩

/-- C11 reconstruction: whether an emission counts as active at the end of day `n` can be read off
its record (start date, end date) alone; hence every row of the series — counts and emission sums —
is a function of the records' start dates, end dates, rates and repairability. -/
theorem reconstruct_em (e : Em) (N n : Nat) (h : n < N) :
    activeAt e (n + 1) = recActiveAfter (recOf e N) n := by
  obtain ⟨j, rfl⟩ : ∃ j, N = (n + 1) + j := ⟨N - (n + 1), by omega⟩
  have ls := life e (n + 1)
  have lf := life e ((n + 1) + j)
  have ha : (if e.p.start > 0 then e.p.start else 0) = a e.p := rfl
  unfold activeAt recActiveAfter recOf
  simp only [ha]
  cases hs : (st e (n + 1)).status
  · -- pending after day n: start lies beyond day n
    have := ls.1 hs
    have : ¬ (a e.p ≤ (n : Int)) := by push_cast at this; omega
    simp [this]
  · -- active after day n
    have hl := ls.2.1 hs
    rcases after_active e (n + 1) hs j with hact | ⟨hend, hge⟩
    · have := (lf.2.1 hact).2.2
      have ha' : a e.p ≤ (n : Int) := by have := hl.1; push_cast at this; omega
      simp [hact, this, ha']
    · have he := (lf.2.2 hend).1
      have ha' : a e.p ≤ (n : Int) := by have := hl.1; push_cast at this; omega
      have hne : (st e (n + 1 + j)).status ≠ .inactive := by
        rcases hend with h | h <;> rw [h] <;> decide
      simp only [he, ha']
      push_cast at hge
      have : (n : Int) + 1 < a e.p + (st e (n + 1 + j)).activeDays := by omega
      simp [this, hne]
  · have hfz := frozen_from e (n + 1) j (Or.inl hs)
    have hl := ls.2.2 (Or.inl hs)
    rw [hfz, hl.1]
    have : ¬ ((n : Int) + 1 < a e.p + (st e (n + 1)).activeDays) := by
      have := hl.2.2; push_cast at this; omega
    simp [hs, this]
  · have hfz := frozen_from e (n + 1) j (Or.inr hs)
    have hl := ls.2.2 (Or.inr hs)
    rw [hfz, hl.1]
    have : ¬ ((n : Int) + 1 < a e.p + (st e (n + 1)).activeDays) := by
      have := hl.2.2; push_cast at this; omega
    simp [hs, this]

/-- the row's active count and emission sums recomputed from the records of a run of `N` days -/
theorem reconstruct (w : List Em) (N n : Nat) (h : n < N) :
    (row w n).active = sumOver w (fun e => ind (recActiveAfter (recOf e N) n))
    ∧ (row w n).emis = sumOver w (fun e => ind (recActiveAfter (recOf e N) n) * (recOf e N).rate)
    ∧ (row w n).emisMit = sumOver w (fun e =>
        if (recOf e N).repairable then ind (recActiveAfter (recOf e N) n) * (recOf e N).rate else 0)
    ∧ (row w n).emisNonMit = sumOver w (fun e =>
        if (recOf e N).repairable then 0 else ind (recActiveAfter (recOf e N) n) * (recOf e N).rate) := by
  have hr : ∀ e : Em, activeAt e (n + 1) = recActiveAfter (recOf e N) n :=
    fun e => reconstruct_em e N n h
  simp only [row]
  refine ⟨?_, ?_, ?_, ?_⟩ <;> (congr 1; funext e; rw [hr e]; try rfl)

/-! ### per-day reconstruction of the count columns -/

/-- once activated, an emission never returns to the pending state -/
theorem present_mono (e : Em) (m k : Nat) (h : (st e m).status ≠ .inactive) :
    (st e (m + k)).status ≠ .inactive := by
  induction k with
  | zero => exact h
  | succ k ih =>
    have := em_new_step e (m + k)
    have e1 : st e (m + (k + 1)) = st e ((m + k) + 1) := rfl
    rw [e1]; unfold ind at this; intro hc
    simp [hc, ih] at this
    split at this <;> omega

/-- an emission is counted in "New Leaks" of day `n` exactly when it has a record and
`max start 0 = n` -/
theorem reconstruct_new (e : Em) (N n : Nat) (h : n < N) :
    isNew e n = recNewOn (recOf e N) n := by
  obtain ⟨j, rfl⟩ : ∃ j, N = (n + 1) + j := ⟨N - (n + 1), by omega⟩
  have ln := life e n
  have ha : a e.p = if e.p.start > 0 then e.p.start else 0 := rfl
  unfold isNew recNewOn recOf
  simp only [← ha]
  cases hs : (st e n).status
  · have hle := ln.1 hs
    by_cases hn : e.p.start ≤ (n : Int)
    · have hnew : isNew e n = true := by unfold isNew; simp [hs, hn]
      have h1 := em_new_step e n
      have hp : (st e (n + 1)).status ≠ .inactive := by
        intro hc; unfold ind at h1; simp [hc, hs, hnew] at h1
      have := present_mono e (n + 1) j hp
      have haeq : a e.p = (n : Int) := by rw [ha] at hle ⊢; split at hle <;> split <;> omega
      simp [hn, this, haeq]
    · have : ¬ a e.p = (n : Int) := by rw [ha]; split <;> omega
      simp [hn, this]
  · have := (ln.2.1 hs).1
    have : ¬ a e.p = (n : Int) := by omega
    simp [this]
  · have := (ln.2.2 (Or.inl hs)); have : ¬ a e.p = (n : Int) := by omega
    simp [this]
  · have := (ln.2.2 (Or.inr hs)); have : ¬ a e.p = (n : Int) := by omega
    simp [this]

/-- nothing ends in the update of day `n` unless the emission is repaired / expired afterwards -/
theorem endedOnAs_false (e : Em) (n k : Nat)
    (h : (st e (n + 1)).status = .inactive ∨ (st e (n + 1)).status = .active) :
    endedOnAs e n k = false := by
  rcases k with _ | _ | k <;> rcases h with h | h <;>
    simp [endedOnAs, repairedOn, natRepairedOn, expiredOn, endedOn, activeAt, h]

theorem recEndedOn_false (r : Rec) (k n : Nat)
    (h : r.status = .inactive ∨ r.status = .active ∨ r.endDate ≠ some ((n : Int) + 1)) :
    recEndedOn r k n = false := by
  unfold recEndedOn
  rcases h with h | h | h
  · rcases k with _ | _ | k <;> simp [recEndedAs, h]
  · rcases k with _ | _ | k <;> simp [recEndedAs, h]
  · simp [h]

/-- an emission that is repaired / expired after day `n` left the active list in the update of day
`n` exactly when its end date is day `n + 1` -/
theorem endedOn_iff (e : Em) (n : Nat)
    (hend : (st e (n + 1)).status = .repaired ∨ (st e (n + 1)).status = .expired) :
    endedOn e n = decide ((st e (n + 1)).endDate = some ((n : Int) + 1)) := by
  have ln := life e n
  have ls := (life e (n + 1)).2.2 hend
  have hna : ¬ (st e (n + 1)).status = .active := by rcases hend with h | h <;> rw [h] <;> decide
  rcases em_step_cases e n with ⟨h1, h2, _⟩ | ⟨_, _, h3⟩ | ⟨h1, _⟩ | ⟨h1, h3⟩
  · have hle := ln.1 h1
    have : (st e (n + 1)).endDate = some ((n : Int) + 1) := by
      rw [ls.1]; congr 1; have := ls.2.1; have := ls.2.2; push_cast at *; omega
    simp [endedOn, activeAt, isNew, h1, h2, hna, this]
  · rcases hend with h | h <;> rw [h3] at h <;> cases h
  · have hl := ln.2.1 h1
    have hd : (st e (n + 1)).activeDays = (st e n).activeDays + 1 := by
      rw [st_succ]; exact dayE_activeDays _ _ _ _ h1
    have : (st e (n + 1)).endDate = some ((n : Int) + 1) := by
      rw [ls.1, hd, hl.2.1]; congr 1; omega
    simp [endedOn, activeAt, h1, hna, this]
  · have hl := ln.2.2 h1
    have hni : ¬ (st e n).status = .inactive := by rcases h1 with h | h <;> rw [h] <;> decide
    have hnact : ¬ (st e n).status = .active := by rcases h1 with h | h <;> rw [h] <;> decide
    have : ¬ (st e (n + 1)).endDate = some ((n : Int) + 1) := by
      rw [h3, hl.1]; intro hc; injection hc with hc; have := hl.2.2; omega
    simp [endedOn, activeAt, isNew, hni, hnact, this]

/-- the repaired / expired case of `reconstruct_ended` -/
theorem ended_case (e : Em) (n j k : Nat)
    (hs : (st e (n + 1)).status = .repaired ∨ (st e (n + 1)).status = .expired) :
    endedOnAs e n k = recEndedOn (recOf e (n + 1 + j)) k n := by
  have hfz := frozen_from e (n + 1) j hs
  have hi := endedOn_iff e n hs
  unfold recEndedOn recOf
  simp only [hfz]
  rcases k with _ | _ | k <;>
    simp only [endedOnAs, repairedOn, natRepairedOn, expiredOn, recEndedAs, hi] <;>
    cases decide ((st e (n + 1)).endDate = some ((n : Int) + 1)) <;> simp

/-- whether an emission was repaired by the program (`k = 0`), naturally repaired (`k = 1`) or
expired (`k = 2`) in the update of day `n` can be read off its record: that end kind, and end date
`n + 1` -/
theorem reconstruct_ended (e : Em) (N n k : Nat) (h : n < N) :
    endedOnAs e n k = recEndedOn (recOf e N) k n := by
  obtain ⟨j, rfl⟩ : ∃ j, N = (n + 1) + j := ⟨N - (n + 1), by omega⟩
  have ln := life e n
  have ls := life e (n + 1)
  have lf := life e (n + 1 + j)
  cases hs : (st e (n + 1)).status
  · -- still pending after day n
    rw [endedOnAs_false e n k (Or.inl hs)]
    symm; apply recEndedOn_false
    have h1 := ls.1 hs
    cases hN : (st e (n + 1 + j)).status
    · exact Or.inl (by simp [recOf, hN])
    · exact Or.inr (Or.inl (by simp [recOf, hN]))
    · right; right
      have := lf.2.2 (Or.inl hN)
      simp only [recOf, this.1]; intro hc; injection hc with hc; push_cast at h1; omega
    · right; right
      have := lf.2.2 (Or.inr hN)
      simp only [recOf, this.1]; intro hc; injection hc with hc; push_cast at h1; omega
  · -- active after day n
    rw [endedOnAs_false e n k (Or.inr hs)]
    symm; apply recEndedOn_false
    rcases after_active e (n + 1) hs j with hact | ⟨hend, hge⟩
    · exact Or.inr (Or.inl (by simp [recOf, hact]))
    · right; right
      have := lf.2.2 hend
      simp only [recOf, this.1]; intro hc; injection hc with hc; push_cast at hge; omega
  · exact ended_case e n j k (Or.inl hs)
  · exact ended_case e n j k (Or.inr hs)

/-! ### every column of every row from the records -/

theorem sumOver_records (w : List Em) (N : Nat) (f : Rec → Int) :
    sumRecs (records w N) f = sumOver w (fun e => f (recOf e N)) := by
  simp only [sumRecs, records, sumOver, List.map_map]; rfl

/-- C11 reconstruction at full strength: the complete row of every simulated day — new, active,
repaired, naturally repaired, expired, emissions, mitigable and non-mitigable emissions — is the
function `recRow` (Model/World.lean) of the records' start dates, end dates, end kinds, rates and
repairability alone -/
theorem reconstruct_row (w : List Em) (N n : Nat) (h : n < N) :
    row w n = recRow (records w N) n := by
  have ha : ∀ e : Em, activeAt e (n + 1) = recActiveAfter (recOf e N) n :=
    fun e => reconstruct_em e N n h
  have hn : ∀ e : Em, isNew e n = recNewOn (recOf e N) n := fun e => reconstruct_new e N n h
  have h0 : ∀ e : Em, repairedOn e n = recEndedOn (recOf e N) 0 n := fun e => reconstruct_ended e N n 0 h
  have h1 : ∀ e : Em, natRepairedOn e n = recEndedOn (recOf e N) 1 n := fun e => reconstruct_ended e N n 1 h
  have h2 : ∀ e : Em, expiredOn e n = recEndedOn (recOf e N) 2 n := fun e => reconstruct_ended e N n 2 h
  simp only [row, recRow, sumOver_records, ha, hn, h0, h1, h2]
  rfl

/-! ### the two readings of "emitting at the end of the day" -/

theorem st_succ_mid (e : Em) (n : Nat) : st e (n + 1) = update e.p (mid e n) := rfl

theorem events_emit (p : Params) (d : Int) (evs : List Ev) (s : State) :
    (evs.foldl (fun s e => applyEv p d e s) s).emitting = s.emitting ∧
    (evs.foldl (fun s e => applyEv p d e s) s).daysEmitting = s.daysEmitting := by
  induction evs generalizing s with
  | nil => exact ⟨rfl, rfl⟩
  | cons e evs ih =>
    simp only [List.foldl_cons]
    rw [(ih _).1, (ih _).2]
    cases e with
    | tag e => simp only [applyEv]; unfold tag detectRec; grind
    | detect c => simp only [applyEv]; unfold detectRec; grind

/-- the two readings of "emitting at the end of day `n`" are one day apart: the flag after the
update of day `n` is the flag the update of day `n + 1` finds -/
theorem emitting_conventions (e : Em) (n : Nat) (h : activeAt e (n + 1) = true) :
    emittingAfter e n = emittingDuring e (n + 1) := by
  unfold emittingAfter emittingDuring mid isEmitting
  have hs : (st e (n + 1)).status = .active := by simpa [activeAt] using h
  have ha : activate e.p ((n + 1 : Nat) : Int) (st e (n + 1)) = st e (n + 1) := by
    unfold activate; simp [hs]
  rw [ha, (events_emit _ _ _ _).1]

/-- `days_emitting` of an intermittent emission that stays active counts exactly the days on which it
was emitting *during* the day -/
theorem daysEmitting_step (e : Em) (n : Nat) (hi : e.p.intermittent = true)
    (h : activeAt e (n + 1) = true) :
    (st e (n + 1)).daysEmitting = (st e n).daysEmitting + ind (emittingDuring e n) := by
  have hs : (st e (n + 1)).status = .active := by simpa [activeAt] using h
  rw [st_succ_mid] at hs
  have hm : (mid e n).daysEmitting = (st e n).daysEmitting := by
    unfold mid; rw [(events_emit _ _ _ _).2]; unfold activate; split <;> rfl
  rw [st_succ_mid, ← hm]
  unfold emittingDuring isEmitting ind
  generalize mid e n = s at *
  unfold update toggle at *
  grind

/-- non-vacuity: a three-emission world over 6 days -/
example :
    let p1 : Params := { start := -2, nrd := 5, repairDelay := 1, repairable := true,
                         intermittent := false, activeDur := 1, inactiveDur := 0 }
    let p2 : Params := { start := 1, nrd := 3, repairDelay := 0, repairable := false,
                         intermittent := false, activeDur := 1, inactiveDur := 0 }
    let w : List Em := [{ p := p1, rate := 2, ev := fun d => if d = 1 then [.tag { company := 1, trd := 0 }] else [] },
                        { p := p2, rate := 4, ev := fun _ => [] }]
    (row w 0).new = 1 ∧ (row w 1).active = 1 ∧ (row w 1).repaired = 1 ∧ (row w 3).expired = 1 ∧
    (row w 2).emis = 4 ∧
    (recRow (records w 6) 0).new = 1 ∧ (recRow (records w 6) 1).repaired = 1 ∧
    (recRow (records w 6) 3).expired = 1 ∧ (recRow (records w 6) 2).emis = 4 := by
  decide +kernel

end LdarModel.World
