/-
Layer 3 tie for the per-emission record (`get_summary_dict`, the rows of `*_emissions_summary.csv`):
`Generated/EmissionSrc.lean` holds one function per record column and emission class, translated from the
current source.  Each column is the stated projection of the object's state — so what C01 / C02 / C03 /
C04 / C11 read in the output files is the model state the theorems are about.  In particular the identity
columns C01 compares between programs (true rate, start date, repairability, theoretical end date) do not
depend on any life-cycle field.
-/
import LdarModel.Props.EmissionTie

namespace LdarModel.EmissionRecord
open LdarModel.Emission LdarModel.EmissionSrc LdarModel.EmissionTie

/-- repairable classes: every column as a projection of the model state / parameters -/
theorem RE_record (o : Obj) (e : Int) (h : WFR o) :
    RE.col_STATUS o e = (absR o).status ∧ RE.col_DAYS_ACT o e = (absR o).activeDays
    ∧ RE.col_DAYS_EMITTING o e = emitDays (parR false o) (absR o)
    ∧ RE.col_T_VOL_EMIT o e = emitDays (parR false o) (absR o) * o.rate * o.env_kg_per_day
    ∧ RE.col_MITIGATED o e = mitDays (parR false o) (absR o) e * o.rate * o.env_kg_per_day
    ∧ RE.col_T_RATE o e = o.rate ∧ RE.col_DATE_BEG o e = o.start_date
    ∧ RE.col_DATE_REP_EXP o e = (absR o).endDate ∧ RE.col_THEORY_DATE o e = o.start_date + o.nrd
    ∧ RE.col_INIT_DETECT_BY o e = (absR o).initDetectBy ∧ RE.col_INIT_DETECT_DATE o e = (absR o).initDetect
    ∧ RE.col_TAGGED o e = (absR o).tagged ∧ RE.col_TAGGED_BY o e = (absR o).by_
    ∧ RE.col_REPAIRABLE o e = true := by
  have hm := (RE_mitigated o e h false).1
  have he := RE_emitted o
  have ht := (RE_theory_date o).1
  exact ⟨rfl, rfl, he.2.1, he.1, hm, rfl, rfl, rfl, ht, rfl, rfl, rfl, rfl, h.1⟩

theorem IRE_record (o : Obj) (e : Int) (h : WFR o) :
    IRE.col_STATUS o e = (absR o).status ∧ IRE.col_DAYS_ACT o e = (absR o).activeDays
    ∧ IRE.col_DAYS_EMITTING o e = emitDays (parR true o) (absR o)
    ∧ IRE.col_T_VOL_EMIT o e = emitDays (parR true o) (absR o) * o.rate * o.env_kg_per_day
    ∧ IRE.col_MITIGATED o e = mitDays (parR true o) (absR o) e * o.rate * o.env_kg_per_day
    ∧ IRE.col_T_RATE o e = o.rate ∧ IRE.col_DATE_BEG o e = o.start_date
    ∧ IRE.col_DATE_REP_EXP o e = (absR o).endDate ∧ IRE.col_THEORY_DATE o e = o.start_date + o.nrd
    ∧ IRE.col_INIT_DETECT_BY o e = (absR o).initDetectBy ∧ IRE.col_INIT_DETECT_DATE o e = (absR o).initDetect
    ∧ IRE.col_TAGGED o e = (absR o).tagged ∧ IRE.col_TAGGED_BY o e = (absR o).by_
    ∧ IRE.col_REPAIRABLE o e = true := by
  have hm := (IRE_mitigated o e h true).1
  have he := IRE_emitted o
  have ht := (RE_theory_date o).2.2.1
  exact ⟨rfl, rfl, he.2.1, he.1, hm, rfl, rfl, rfl, ht, rfl, rfl, rfl, rfl, h.1⟩

/-- non-repairable classes (mitigated is the constant 0; the theoretical end date is the expiry date) -/
theorem NRE_record (o : Obj) (e : Int) :
    NRE.col_STATUS o e = (absN o).status ∧ NRE.col_DAYS_ACT o e = (absN o).activeDays
    ∧ NRE.col_DAYS_EMITTING o e = emitDays (parN false o) (absN o)
    ∧ NRE.col_T_VOL_EMIT o e = emitDays (parN false o) (absN o) * o.rate * o.env_kg_per_day
    ∧ NRE.col_MITIGATED o e = 0 ∧ NRE.col_T_RATE o e = o.rate ∧ NRE.col_DATE_BEG o e = o.start_date
    ∧ NRE.col_DATE_REP_EXP o e = (absN o).endDate ∧ NRE.col_THEORY_DATE o e = (absN o).endDate
    ∧ NRE.col_INIT_DETECT_BY o e = (absN o).initDetectBy ∧ NRE.col_INIT_DETECT_DATE o e = (absN o).initDetect
    ∧ NRE.col_RECORDED o e = (absN o).tagged ∧ NRE.col_RECORDED_BY o e = (absN o).by_
    ∧ NRE.col_REPAIRABLE o e = o.repairable := by
  have he := NRE_emitted o
  exact ⟨rfl, rfl, he.2.1, he.1, rfl, rfl, rfl, rfl, rfl, rfl, rfl, rfl, rfl, rfl⟩

theorem INRE_record (o : Obj) (e : Int) :
    INRE.col_STATUS o e = (absN o).status ∧ INRE.col_DAYS_ACT o e = (absN o).activeDays
    ∧ INRE.col_DAYS_EMITTING o e = emitDays (parN true o) (absN o)
    ∧ INRE.col_T_VOL_EMIT o e = emitDays (parN true o) (absN o) * o.rate * o.env_kg_per_day
    ∧ INRE.col_MITIGATED o e = 0 ∧ INRE.col_T_RATE o e = o.rate ∧ INRE.col_DATE_BEG o e = o.start_date
    ∧ INRE.col_DATE_REP_EXP o e = (absN o).endDate ∧ INRE.col_THEORY_DATE o e = (absN o).endDate
    ∧ INRE.col_INIT_DETECT_BY o e = (absN o).initDetectBy ∧ INRE.col_INIT_DETECT_DATE o e = (absN o).initDetect
    ∧ INRE.col_RECORDED o e = (absN o).tagged ∧ INRE.col_RECORDED_BY o e = (absN o).by_
    ∧ INRE.col_REPAIRABLE o e = o.repairable := by
  have he := INRE_emitted o
  exact ⟨rfl, rfl, he.2.1, he.1, rfl, rfl, rfl, rfl, rfl, rfl, rfl, rfl, rfl, rfl⟩

/-- **C01 on the record**: two programs that face the same emission (same rate, start date, natural repair
delay, repairability — whatever each did to it afterwards: any status, tags, days active, repair dates,
intermittency phase) write the same identity columns -/
theorem identity_columns_program_independent (o o' : Obj) (e e' : Int)
    (h : o'.rate = o.rate ∧ o'.start_date = o.start_date ∧ o'.nrd = o.nrd ∧ o'.repairable = o.repairable) :
    RE.col_T_RATE o' e' = RE.col_T_RATE o e ∧ RE.col_DATE_BEG o' e' = RE.col_DATE_BEG o e
    ∧ RE.col_THEORY_DATE o' e' = RE.col_THEORY_DATE o e ∧ RE.col_REPAIRABLE o' e' = RE.col_REPAIRABLE o e
    ∧ IRE.col_T_RATE o' e' = IRE.col_T_RATE o e ∧ IRE.col_DATE_BEG o' e' = IRE.col_DATE_BEG o e
    ∧ IRE.col_THEORY_DATE o' e' = IRE.col_THEORY_DATE o e ∧ IRE.col_REPAIRABLE o' e' = IRE.col_REPAIRABLE o e
    ∧ NRE.col_T_RATE o' e' = NRE.col_T_RATE o e ∧ NRE.col_DATE_BEG o' e' = NRE.col_DATE_BEG o e
    ∧ INRE.col_T_RATE o' e' = INRE.col_T_RATE o e ∧ INRE.col_DATE_BEG o' e' = INRE.col_DATE_BEG o e := by
  obtain ⟨h1, h2, h3, h4⟩ := h
  have t := RE_theory_date o
  have t' := RE_theory_date o'
  refine ⟨h1, h2, ?_, h4, h1, h2, ?_, h4, h1, h2, h1, h2⟩
  · show (RE.calc_theory_date o').2 = (RE.calc_theory_date o).2
    rw [t'.1, t.1, h2, h3]
  · show (IRE.calc_theory_date o').2 = (IRE.calc_theory_date o).2
    rw [t'.2.2.1, t.2.2.1, h2, h3]

end LdarModel.EmissionRecord
