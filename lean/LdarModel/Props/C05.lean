import LdarModel.Lemmas.Sensor
/-
C05 — a method never acts on emissions it cannot see (MDL, coverage, intermittency).

Model: `Model/Sensor.lean` (`checkSpatialCov`, `detect`, `visible`, `rateComp/rateEqg/rateSite`,
`measure`, `report`, `survey`, `tagTargets`, `flagCandidate`, `dayEvents`) and, for the last clause,
the emission state machine of `Model/Emission.lean` (`run`, `baseline`).

Everything is proved for every layout, every list of emissions, every detection limit (any sign),
every quantification shift (any integer percentage, including below −100), every outcome of every
coverage roll, at the three measurement scales.

Scope note (DESIGN.md 5.5): at component scale detection is per *component*; a tag request for a
component then tags all active emissions of that component (`Component.tag_emissions`).  The
property speaks of the measured rate at the method's measurement scale, which is what is proved.
-/
namespace LdarModel.Sensor
open LdarModel

/-! ### what a report says, relative to the visible list -/

/-- soundness of a site report against the list of emissions the method can see -/
def ReportSound (cfg : Cfg) (mdl : Int) (s : Nat) (vis : List Emis) (rep : SiteRep) : Prop :=
  0 ≤ rep.measured ∧
  match cfg with
  | .component _ =>
    (∀ er ∈ rep.eqgs, 0 ≤ er.measured ∧ ∀ cr ∈ er.comps,
        cr.eqg = er.eqg ∧ cr.trueRate = rateComp vis s er.eqg cr.comp ∧ 0 ≤ cr.measured ∧
        (cr.measured ≠ 0 → mdl ≤ rateComp vis s er.eqg cr.comp) ∧
        (rateComp vis s er.eqg cr.comp = 0 → cr.measured = 0)) ∧
    (rep.measured ≠ 0 → ∃ er ∈ rep.eqgs, ∃ cr ∈ er.comps,
        cr.measured ≠ 0 ∧ mdl ≤ rateComp vis s er.eqg cr.comp) ∧
    rep.recorded = []
  | .eqg _ =>
    (∀ er ∈ rep.eqgs, er.trueRate = rateEqg vis s er.eqg ∧ 0 ≤ er.measured ∧
        (er.measured ≠ 0 → mdl ≤ rateEqg vis s er.eqg) ∧
        (rateEqg vis s er.eqg = 0 → er.measured = 0) ∧ er.comps = []) ∧
    (rep.measured ≠ 0 → ∃ er ∈ rep.eqgs, er.measured ≠ 0 ∧ mdl ≤ rateEqg vis s er.eqg) ∧
    rep.recorded = []
  | .site _ =>
    rep.trueRate = rateSite vis s ∧ (rep.measured ≠ 0 → mdl ≤ rateSite vis s) ∧
    (rateSite vis s = 0 → rep.measured = 0) ∧ rep.eqgs = [] ∧
    (rep.recorded ≠ [] → mdl ≤ rateSite vis s) ∧ (∀ i ∈ rep.recorded, ∃ e ∈ vis, e.id = i)

/-- measured rates are never negative -/
theorem C05_measured_nonneg (mdl err r : Int) : 0 ≤ measure mdl err r := measure_nonneg mdl err r

/-- a non-zero measured rate needs a true rate at or above the detection limit -/
theorem C05_measured_ne_zero (mdl err r : Int) (h : measure mdl err r ≠ 0) : mdl ≤ r :=
  measure_ne_zero mdl err r h

/-- below the limit, and when nothing is seen (rate 0), the measured rate is zero -/
theorem C05_measured_zero (mdl err r : Int) :
    (r < mdl → measure mdl err r = 0) ∧ (r = 0 → measure mdl err r = 0) := by
  refine ⟨measure_below mdl err r, ?_⟩
  intro h; rw [h]; exact measure_zero_rate mdl err

/-- at every scale: every line of the report is the visible rate of its unit, measured rates are
≥ 0, non-zero only with visible rate ≥ MDL, zero when the unit shows nothing; a non-zero site total
needs a detected unit -/
theorem C05_report_sound (cfg : Cfg) (mdl : Int) (s : Nat) (vis : List Emis) :
    ReportSound cfg mdl s vis (report cfg mdl s vis) := by
  cases cfg with
  | component layout =>
    have hE : ∀ er ∈ layout.map (eqgRepC vis mdl s), 0 ≤ er.measured := by
      intro er her
      simp only [List.mem_map] at her
      obtain ⟨ge, _, rfl⟩ := her
      exact eqgRepC_measured_nonneg vis mdl s ge
    refine ⟨sumMeasE_nonneg _ hE, ?_, ?_, rfl⟩
    · intro er her
      refine ⟨hE er her, ?_⟩
      simp only [report, List.mem_map] at her
      obtain ⟨ge, _, rfl⟩ := her
      intro cr hcr
      obtain ⟨ce, _, rfl⟩ := mem_eqgRepC_comps vis mdl s ge cr hcr
      have h := compRep_sound vis mdl s ge.1 ce
      simp only at h
      have hg : (eqgRepC vis mdl s ge).eqg = ge.1 := rfl
      rw [hg, h.2.1]
      exact ⟨h.1, h.2.2.1, h.2.2.2.1, h.2.2.2.2.1, h.2.2.2.2.2.2⟩
    · intro hne
      obtain ⟨er, her, hm⟩ := sumMeasE_ne_zero _ hne
      refine ⟨er, her, ?_⟩
      simp only [List.mem_map] at her
      obtain ⟨ge, _, rfl⟩ := her
      obtain ⟨cr, hcr, hcm⟩ := sumMeasC_ne_zero _ hm
      refine ⟨cr, hcr, hcm, ?_⟩
      obtain ⟨ce, _, rfl⟩ := mem_eqgRepC_comps vis mdl s ge cr hcr
      have h := compRep_sound vis mdl s ge.1 ce
      simp only at h
      have hg : (eqgRepC vis mdl s ge).eqg = ge.1 := rfl
      rw [hg, h.2.1]
      exact h.2.2.2.2.1 hcm
  | eqg layout =>
    have hU : ∀ er ∈ layout.map (eqgRepG vis mdl s),
        er.trueRate = rateEqg vis s er.eqg ∧ 0 ≤ er.measured ∧
        (er.measured ≠ 0 → mdl ≤ rateEqg vis s er.eqg) ∧
        (rateEqg vis s er.eqg = 0 → er.measured = 0) ∧ er.comps = [] := by
      intro er her
      simp only [List.mem_map] at her
      obtain ⟨ge, _, rfl⟩ := her
      have h := eqgRepG_sound vis mdl s ge
      simp only at h
      rw [h.1]
      exact ⟨h.2.1, h.2.2.1, h.2.2.2.1, h.2.2.2.2.2.1, h.2.2.2.2.2.2⟩
    refine ⟨sumMeasE_nonneg _ (fun er her => (hU er her).2.1), hU, ?_, rfl⟩
    intro hne
    obtain ⟨er, her, hm⟩ := sumMeasE_ne_zero _ hne
    exact ⟨er, her, hm, (hU er her).2.2.1 hm⟩
  | site err =>
    refine ⟨measure_nonneg _ _ _, rfl, measure_ne_zero _ _ _, ?_, rfl, ?_, ?_⟩
    · intro h; simp only [report, h]; exact measure_zero_rate _ _
    · intro h
      simp only [report] at h
      split at h
      · assumption
      · exact absurd rfl h
    · intro i hi
      simp only [report] at hi
      split at hi
      · simp only [List.mem_map, List.mem_filter] at hi
        obtain ⟨e, ⟨he, _⟩, rfl⟩ := hi
        exact ⟨e, he, rfl⟩
      · simp at hi

/-- the emissions a report is computed from are exactly those the survey examined, found spatially
covered (stored outcome `true` afterwards), emitting, and with temporal roll 1 -/
theorem C05_contributors_are_visible (m s : Nat) (xs : List (Emis × Rolls)) (e : Emis)
    (h : e ∈ visList (detect m s xs)) :
    ∃ x ∈ xs, visible m s x = true ∧ e.id = x.1.id ∧ e.rate = x.1.rate ∧ covOf m e = some true := by
  obtain ⟨x, hx, hv, hid, hr, _, _, _, hc⟩ := mem_visList_detect m s xs e h
  exact ⟨x, hx, hv, hid, hr, hc⟩

/-- tag requests exist only at component scale and only for components whose *visible* rate
reaches the detection limit -/
theorem C05_tag_needs_visible_rate (cfg : Cfg) (mdl : Int) (s : Nat) (vis : List Emis) (g c : Nat)
    (h : (g, c) ∈ tagTargets (report cfg mdl s vis)) :
    (∃ layout, cfg = .component layout) ∧ mdl ≤ rateComp vis s g c := by
  have hs := C05_report_sound cfg mdl s vis
  unfold tagTargets at h
  simp only [List.mem_flatMap, List.mem_map, List.mem_filter, decide_eq_true_eq] at h
  obtain ⟨er, her, cr, ⟨hcr, hpos⟩, heq⟩ := h
  cases cfg with
  | component layout =>
    refine ⟨⟨layout, rfl⟩, ?_⟩
    have h1 := (hs.2.1 er her).2 cr hcr
    have hg : er.eqg = g := by injection heq
    have hc : cr.comp = c := by injection heq
    rw [← hg, ← hc]
    exact h1.2.2.2.1 (by omega)
  | eqg layout =>
    have h1 := (hs.2.1 er her).2.2.2.2
    rw [h1] at hcr; simp at hcr
  | site err =>
    have h1 := hs.2.2.2.2.1
    rw [h1] at her; simp at her

/-- a site enters the follow-up machinery only with a non-zero measured rate (for a positive instant
threshold, the default being none) -/
theorem C05_flag_needs_detection (inst : Option Int) (thr m : Int)
    (hi : ∀ i, inst = some i → 0 < i) (h : flagCandidate inst thr m = true) : m ≠ 0 := by
  unfold flagCandidate at h
  cases inst with
  | none => simp at h; exact h.1
  | some i =>
    have := hi i rfl
    simp at h
    omega

/-! ### frame: the report is a function of the visible emissions only -/

/-- replacing an invisible emission by any other invisible emission (or dropping it) changes
neither the report nor the tag requests nor the follow-up decision -/
theorem C05_frame (cfg : Cfg) (m : Nat) (mdl : Int) (s : Nat) (pre post : List (Emis × Rolls))
    (x x' : Emis × Rolls) (h : visible m s x = false) (h' : visible m s x' = false) :
    survey cfg m mdl s (pre ++ x :: post) = survey cfg m mdl s (pre ++ x' :: post) ∧
    survey cfg m mdl s (pre ++ x :: post) = survey cfg m mdl s (pre ++ post) ∧
    tagTargets (survey cfg m mdl s (pre ++ x :: post)) = tagTargets (survey cfg m mdl s (pre ++ x' :: post)) ∧
    (∀ inst thr, flagCandidate inst thr (survey cfg m mdl s (pre ++ x :: post)).measured
        = flagCandidate inst thr (survey cfg m mdl s (pre ++ x' :: post)).measured) := by
  have e1 : survey cfg m mdl s (pre ++ x :: post) = survey cfg m mdl s (pre ++ post) := by
    unfold survey; rw [visList_detect_invisible m s pre post x h]
  have e2 : survey cfg m mdl s (pre ++ x' :: post) = survey cfg m mdl s (pre ++ post) := by
    unfold survey; rw [visList_detect_invisible m s pre post x' h']
  refine ⟨by rw [e1, e2], e1, by rw [e1, e2], ?_⟩
  intro inst thr; rw [e1, e2]

/-- whatever is not visible is one of: not in an active list of the surveyed site, spatially
uncovered, not emitting, or missed by the temporal roll — and then it never contributes -/
theorem C05_invisible_cases (m s : Nat) (x : Emis × Rolls) :
    visible m s x = false ↔
      (x.1.active = false ∨ x.1.site ≠ s ∨ spatialOutcome m x.1 x.2 = false ∨ x.1.emitting = false
        ∨ x.2.temporal = false) := by
  unfold visible inScope
  cases x.1.active <;> cases spatialOutcome m x.1 x.2 <;> cases x.1.emitting <;> cases x.2.temporal <;>
    by_cases hs : x.1.site = s <;> simp [hs]

/-- a survey only ever changes the coverage store of an emission -/
theorem C05_survey_touches_coverage_only (m s : Nat) (x : Emis × Rolls) :
    (detectOne m s x).e = { x.1 with cov := (detectOne m s x).e.cov } := by
  have h := detectOne_frame m s x
  simp only at h
  obtain ⟨h1, h2, h3, h4, h5, h6, h7⟩ := h
  generalize (detectOne m s x).e = e' at *
  cases e'; cases hx : x.1
  simp_all

/-! ### sticky spatial coverage -/

/-- after the first check the outcome is stored; every later check by the same method returns the
stored outcome whatever the roll would be, draws no roll and changes nothing; checks by other
methods do not disturb it -/
theorem C05_spatial_sticky (m : Nat) (e : Emis) (r : Rolls) :
    let e1 := (checkSpatialCov m r.spatial e).e
    covOf m e1 = some (spatialOutcome m e r) ∧
    (checkSpatialCov m r.spatial e).outcome = spatialOutcome m e r ∧
    (∀ roll', checkSpatialCov m roll' e1
        = { e := e1, outcome := spatialOutcome m e r, consumed := false }) ∧
    (∀ m' roll', m' ≠ m → covOf m (checkSpatialCov m' roll' e1).e = some (spatialOutcome m e r)) := by
  have h := checkSpatialCov_outcome m e r
  refine ⟨h.2, h.1, ?_, ?_⟩
  · intro roll'; exact checkSpatialCov_stored m roll' _ _ h.2
  · intro m' roll' hne; rw [checkSpatialCov_other m m' roll' _ hne]; exact h.2

/-- the same at survey level: an emission with a stored outcome `b` is treated with `b` by every
later survey of the method (whatever its activity / emitting state then is), without a spatial roll,
and keeps `b`; an examined emission has its outcome stored; a roll is drawn exactly when none is -/
theorem C05_spatial_sticky_survey (m s : Nat) (x : Emis × Rolls) :
    (∀ b, covOf m x.1 = some b →
        spatialOutcome m x.1 x.2 = b ∧ (detectOne m s x).sRoll = false ∧
        covOf m (detectOne m s x).e = some b) ∧
    (inScope s x.1 = true → covOf m (detectOne m s x).e = some (spatialOutcome m x.1 x.2) ∧
        (detectOne m s x).sRoll = (covOf m x.1).isNone) ∧
    (inScope s x.1 = false → detectOne m s x = { e := x.1, vis := false, sRoll := false, tRoll := false }) ∧
    (∀ m', m' ≠ m → covOf m (detectOne m' s x).e = covOf m x.1) := by
  refine ⟨?_, detectOne_stores m s x, detectOne_out_of_scope m s x, fun m' h => detectOne_other m m' s x h⟩
  intro b hb
  have hso : spatialOutcome m x.1 x.2 = b := by unfold spatialOutcome; simp [hb]
  refine ⟨hso, ?_, ?_⟩
  · by_cases hs : inScope s x.1 = true
    · rw [(detectOne_stores m s x hs).2, hb]; rfl
    · simp only [Bool.not_eq_true] at hs
      rw [detectOne_out_of_scope m s x hs]
  · by_cases hs : inScope s x.1 = true
    · rw [(detectOne_stores m s x hs).1, hso]
    · simp only [Bool.not_eq_true] at hs
      rw [detectOne_out_of_scope m s x hs]; exact hb

/-! ### zero coverage / unreachable detection limit leave the emissions as in the baseline -/

/-- nothing happens: measured 0, no tag request, no detection record -/
def Quiet (rep : SiteRep) : Prop := rep.measured = 0 ∧ tagTargets rep = [] ∧ rep.recorded = []

private theorem quiet_of (cfg : Cfg) (mdl : Int) (s : Nat) (vis : List Emis)
    (H : ∀ (p : Emis → Bool) (err : Int), measure mdl err (sumRates (vis.filter p)) = 0)
    (H2 : mdl ≤ rateSite vis s → vis.filter (atSite s) = []) :
    Quiet (report cfg mdl s vis) := by
  unfold Quiet
  cases cfg with
  | component layout =>
    have hc : ∀ ge ∈ layout, ∀ cr ∈ (eqgRepC vis mdl s ge).comps, cr.measured = 0 := by
      intro ge _ cr hcr
      obtain ⟨ce, _, rfl⟩ := mem_eqgRepC_comps vis mdl s ge cr hcr
      exact H _ _
    refine ⟨?_, ?_, rfl⟩
    · apply sumMeasE_zero
      intro er her
      simp only [List.mem_map] at her
      obtain ⟨ge, hge, rfl⟩ := her
      exact sumMeasC_zero _ (hc ge hge)
    · unfold tagTargets
      simp only [report, List.flatMap_eq_nil_iff, List.mem_map, List.map_eq_nil_iff,
        List.filter_eq_nil_iff, decide_eq_true_eq]
      intro er ⟨ge, hge, hE⟩ cr hcr
      subst hE
      have := hc ge hge cr hcr
      omega
  | eqg layout =>
    refine ⟨?_, ?_, rfl⟩
    · apply sumMeasE_zero
      intro er her
      simp only [List.mem_map] at her
      obtain ⟨ge, _, rfl⟩ := her
      exact H _ _
    · unfold tagTargets
      simp only [report, List.flatMap_eq_nil_iff, List.mem_map, List.map_eq_nil_iff,
        List.filter_eq_nil_iff, decide_eq_true_eq]
      intro er ⟨ge, _, hE⟩ cr hcr
      subst hE
      simp [eqgRepG] at hcr
  | site err =>
    refine ⟨H _ _, by simp [tagTargets, report], ?_⟩
    simp only [report]
    split
    · rename_i h; rw [H2 h]; rfl
    · rfl

/-- a survey in which no emission is visible is quiet -/
theorem C05_nothing_visible_is_quiet (cfg : Cfg) (m : Nat) (mdl : Int) (s : Nat)
    (xs : List (Emis × Rolls)) (h : ∀ x ∈ xs, visible m s x = false) :
    Quiet (survey cfg m mdl s xs) := by
  unfold survey
  rw [visList_detect_none m s xs h]
  apply quiet_of
  · intro p err; simp [sumRates, measure_zero_rate]
  · intro _; rfl

/-- every roll for the method is 0: no outcome `true` is stored and the fresh rolls are 0 -/
def ZeroCoverage (m : Nat) (xs : List (Emis × Rolls)) : Prop :=
  ∀ x ∈ xs, covOf m x.1 ≠ some true ∧ x.2.spatial = false

/-- the detection limit exceeds the total possible rate of the site (rates are non-negative) -/
def UnreachableMdl (mdl : Int) (xs : List (Emis × Rolls)) : Prop :=
  (∀ x ∈ xs, 0 ≤ x.1.rate) ∧ totalRate xs < mdl

theorem C05_zero_coverage_is_quiet (cfg : Cfg) (m : Nat) (mdl : Int) (s : Nat)
    (xs : List (Emis × Rolls)) (h : ZeroCoverage m xs) : Quiet (survey cfg m mdl s xs) := by
  apply C05_nothing_visible_is_quiet
  intro x hx
  obtain ⟨h1, h2⟩ := h x hx
  have : spatialOutcome m x.1 x.2 = false := by
    unfold spatialOutcome
    cases hc : covOf m x.1 with
    | none => simp [h2]
    | some b => cases b <;> simp_all
  unfold visible; simp [this]

/-- zero rolls stay zero: after such a survey still no outcome `true` is stored for the method
(so the hypothesis of the next survey is re-established for the surviving emissions; new emissions
start with an empty store) -/
theorem C05_zero_coverage_invariant (m s : Nat) (x : Emis × Rolls)
    (h : covOf m x.1 ≠ some true ∧ x.2.spatial = false) :
    covOf m (detectOne m s x).e ≠ some true ∧
    (∀ m', m' ≠ m → covOf m (detectOne m' s x).e ≠ some true) := by
  have hso : spatialOutcome m x.1 x.2 = false := by
    unfold spatialOutcome
    cases hc : covOf m x.1 with
    | none => simp [h.2]
    | some b => cases b <;> simp_all
  constructor
  · by_cases hs : inScope s x.1 = true
    · rw [(detectOne_stores m s x hs).1, hso]; simp
    · simp only [Bool.not_eq_true] at hs
      rw [detectOne_out_of_scope m s x hs]; exact h.1
  · intro m' hne; rw [detectOne_other m m' s x hne]; exact h.1

theorem C05_unreachable_mdl_is_quiet (cfg : Cfg) (m : Nat) (mdl : Int) (s : Nat)
    (xs : List (Emis × Rolls)) (h : UnreachableMdl mdl xs) : Quiet (survey cfg m mdl s xs) := by
  unfold survey
  have hb : ∀ p : Emis → Bool, sumRates ((visList (detect m s xs)).filter p) < mdl := by
    intro p
    have := rate_filter_le_total p m s xs h.1
    have := h.2
    omega
  apply quiet_of
  · intro p err; exact measure_below _ _ _ (hb p)
  · intro hge
    have := hb (atSite s)
    unfold rateSite at hge
    omega

private theorem dayEvents_nil_of_quiet (svs : List SurveyIn) (s g c : Nat)
    (h : ∀ sv ∈ svs, Quiet (surveyOf sv)) : dayEvents svs s g c = [] := by
  unfold dayEvents
  simp only [List.flatMap_eq_nil_iff]
  intro sv hsv
  unfold tagEvents
  rw [(h sv hsv).2.1]
  simp

private theorem run_eq_baseline_of_no_events (p : Emission.Params) (ev : Nat → List Emission.TagEv)
    (h : ∀ d, ev d = []) (N : Nat) : Emission.run p ev N = Emission.baseline p N := by
  induction N with
  | zero => rfl
  | succ n ih =>
    show Emission.day p n (ev n) (Emission.run p ev n) = Emission.day p n (Emission.noEvents n) (Emission.run p Emission.noEvents n)
    rw [ih, h n]; rfl

/-- **zero coverage is the baseline.**  If in every survey of the program every spatial roll of the
surveying method is 0, then no survey produces a measured rate, a tag request, a detection record or
a follow-up candidate, and the run of *every* emission (any parameters, any component) under the
program's tag events equals its no-LDAR run field by field, for every horizon. -/
theorem C05_zero_coverage_is_baseline (sched : Nat → List SurveyIn)
    (h : ∀ d, ∀ sv ∈ sched d, ZeroCoverage sv.m sv.xs) :
    (∀ d, ∀ sv ∈ sched d, Quiet (surveyOf sv) ∧
        ∀ inst thr, (∀ i, inst = some i → 0 < i) → flagCandidate inst thr (surveyOf sv).measured = false) ∧
    ∀ (p : Emission.Params) (s g c N : Nat),
      Emission.run p (fun d => dayEvents (sched d) s g c) N = Emission.baseline p N := by
  have hq : ∀ d, ∀ sv ∈ sched d, Quiet (surveyOf sv) := fun d sv hsv =>
    C05_zero_coverage_is_quiet sv.cfg sv.m sv.mdl sv.site sv.xs (h d sv hsv)
  refine ⟨?_, ?_⟩
  · intro d sv hsv
    refine ⟨hq d sv hsv, ?_⟩
    intro inst thr hi
    cases hf : flagCandidate inst thr (surveyOf sv).measured with
    | false => rfl
    | true => exact absurd (hq d sv hsv).1 (C05_flag_needs_detection inst thr _ hi hf)
  · intro p s g c N
    exact run_eq_baseline_of_no_events p _ (fun d => dayEvents_nil_of_quiet (sched d) s g c (hq d)) N

/-- **an unreachable detection limit is the baseline.**  The same conclusion if in every survey the
detection limit exceeds the total rate of everything at the surveyed site. -/
theorem C05_unreachable_mdl_is_baseline (sched : Nat → List SurveyIn)
    (h : ∀ d, ∀ sv ∈ sched d, UnreachableMdl sv.mdl sv.xs) :
    (∀ d, ∀ sv ∈ sched d, Quiet (surveyOf sv) ∧
        ∀ inst thr, (∀ i, inst = some i → 0 < i) → flagCandidate inst thr (surveyOf sv).measured = false) ∧
    ∀ (p : Emission.Params) (s g c N : Nat),
      Emission.run p (fun d => dayEvents (sched d) s g c) N = Emission.baseline p N := by
  have hq : ∀ d, ∀ sv ∈ sched d, Quiet (surveyOf sv) := fun d sv hsv =>
    C05_unreachable_mdl_is_quiet sv.cfg sv.m sv.mdl sv.site sv.xs (h d sv hsv)
  refine ⟨?_, ?_⟩
  · intro d sv hsv
    refine ⟨hq d sv hsv, ?_⟩
    intro inst thr hi
    cases hf : flagCandidate inst thr (surveyOf sv).measured with
    | false => rfl
    | true => exact absurd (hq d sv hsv).1 (C05_flag_needs_detection inst thr _ hi hf)
  · intro p s g c N
    exact run_eq_baseline_of_no_events p _ (fun d => dayEvents_nil_of_quiet (sched d) s g c (hq d)) N

/-! ### the same over mixed events (`runE`): also the "initially detected" fields stay as in the baseline -/

private theorem dayEventsE_nil_of_quiet (svs : List SurveyIn) (s g c id : Nat)
    (h : ∀ sv ∈ svs, Quiet (surveyOf sv)) : dayEventsE svs s g c id = [] := by
  unfold dayEventsE
  simp only [List.flatMap_eq_nil_iff]
  intro sv hsv
  unfold surveyEventsE tagEvents
  rw [(h sv hsv).2.1, (h sv hsv).2.2]
  simp

private theorem runE_eq_baseline_of_no_events (p : Emission.Params) (ev : Nat → List Emission.Ev)
    (h : ∀ d, ev d = []) (N : Nat) : Emission.runE p ev N = Emission.baseline p N := by
  induction N with
  | zero => rfl
  | succ n ih =>
    show Emission.dayE p n (ev n) (Emission.runE p ev n)
      = Emission.day p n (Emission.noEvents n) (Emission.run p Emission.noEvents n)
    rw [ih, h n]; rfl

/-- zero coverage / unreachable limit, over tag requests *and* the detection-only records of
site-scale sensors: the complete state of every emission (including `initDetect`, `initDetectBy`)
after any number of days equals its no-LDAR state. -/
theorem C05_zero_coverage_is_baseline_E (sched : Nat → List SurveyIn)
    (h : ∀ d, ∀ sv ∈ sched d, ZeroCoverage sv.m sv.xs) (p : Emission.Params) (s g c id N : Nat) :
    Emission.runE p (fun d => dayEventsE (sched d) s g c id) N = Emission.baseline p N :=
  runE_eq_baseline_of_no_events p _ (fun d => dayEventsE_nil_of_quiet (sched d) s g c id
    (fun sv hsv => C05_zero_coverage_is_quiet sv.cfg sv.m sv.mdl sv.site sv.xs (h d sv hsv))) N

theorem C05_unreachable_mdl_is_baseline_E (sched : Nat → List SurveyIn)
    (h : ∀ d, ∀ sv ∈ sched d, UnreachableMdl sv.mdl sv.xs) (p : Emission.Params) (s g c id N : Nat) :
    Emission.runE p (fun d => dayEventsE (sched d) s g c id) N = Emission.baseline p N :=
  runE_eq_baseline_of_no_events p _ (fun d => dayEventsE_nil_of_quiet (sched d) s g c id
    (fun sv hsv => C05_unreachable_mdl_is_quiet sv.cfg sv.m sv.mdl sv.site sv.xs (h d sv hsv))) N

/-! ### the spatial outcome over the whole life of an emission -/

/-- whatever happens to an emission after an outcome `b` for method `m` has been stored — surveys by
`m` or by other methods at any site with any rolls, activation, tagging, daily updates, intermittency
toggles, repair, expiry (all of which only move it between lists / switch it on and off) — the stored
outcome stays `b`, and no later survey by `m` draws a spatial roll for it. -/
theorem C05_sticky_whole_life (m : Nat) (b : Bool) (steps : List LifeStep) (e : Emis)
    (h : covOf m e = some b) :
    covOf m (life e steps) = some b ∧
    ∀ s r, (detectOne m s (life e steps, r)).sRoll = false ∧ spatialOutcome m (life e steps) r = b := by
  have key : covOf m (life e steps) = some b := by
    induction steps generalizing e with
    | nil => exact h
    | cons st steps ih =>
      apply ih
      cases st with
      | survey m' s r =>
        by_cases hm : m' = m
        · subst hm
          exact ((C05_spatial_sticky_survey m' s (e, r)).1 b h).2.2
        · show covOf m (detectOne m' s (e, r)).e = some b
          rw [detectOne_other m m' s (e, r) hm]; exact h
      | world a em => exact h
  refine ⟨key, ?_⟩
  intro s r
  have := (C05_spatial_sticky_survey m s (life e steps, r)).1 b key
  exact ⟨this.2.1, this.1⟩

/-- the outcome of an emission is its own roll.  What a survey observes for one emission — visible or
not, which rolls are drawn, the outcome stored for it afterwards — is a function of that emission and
its own rolls only, whatever other emissions (with whatever ids, coverage probabilities, rolls) are
examined before or after it in the same survey; and with nothing stored before, the outcome stored is
exactly the spatial roll drawn for this emission (so with probability 0 it is `false`, with 1 `true`). -/
theorem C05_outcome_is_own_roll (m s : Nat) (pre post : List (Emis × Rolls)) (x : Emis × Rolls) :
    (detect m s (pre ++ x :: post))[pre.length]? = some (detectOne m s x) ∧
    (after m s (pre ++ x :: post))[pre.length]? = some (detectOne m s x).e ∧
    (inScope s x.1 = true → covOf m x.1 = none →
        covOf m (detectOne m s x).e = some x.2.spatial ∧ (detectOne m s x).sRoll = true) := by
  refine ⟨?_, ?_, ?_⟩
  · simp [detect]
  · simp [after, detect]
  · intro hs hn
    have h := detectOne_stores m s x hs
    have hso : spatialOutcome m x.1 x.2 = x.2.spatial := by unfold spatialOutcome; simp [hn]
    rw [hso] at h
    exact ⟨h.1, by rw [h.2, hn]; rfl⟩

/-! ### the "flags" clause

Full strength: a site enters the follow-up machinery only with a non-zero measured rate.  It holds
under positive thresholds and is **false of the code** for an instant threshold ≤ 0 (mobile) and for
a small-window threshold ≤ 0 (stationary; 0.0 is the shipped default): known findings
`C05-flag-zero-measured-instant-threshold`, `C05-flag-zero-measured-stationary`. -/

def C05_flag_statement : Prop :=
  (∀ (inst : Option Int) (thr m : Int), flagCandidate inst thr m = true → m ≠ 0) ∧
  (∀ (smallThr m : Int), flagStationaryFresh smallThr m = true → m ≠ 0)

/-- stationary, first record of a site: with a positive small-window threshold the site is not
queued (whatever was measured) -/
theorem C05_flag_needs_detection_stationary (smallThr m : Int) (h : 0 < smallThr) :
    flagStationaryFresh smallThr m = false := by
  unfold flagStationaryFresh; simp; omega

theorem C05_flag_partial :
    (∀ (inst : Option Int) (thr m : Int), (∀ i, inst = some i → 0 < i) →
        flagCandidate inst thr m = true → m ≠ 0) ∧
    (∀ (smallThr m : Int), 0 < smallThr → flagStationaryFresh smallThr m = true → m ≠ 0) := by
  refine ⟨fun inst thr m hi h => C05_flag_needs_detection inst thr m hi h, ?_⟩
  intro smallThr m h hf
  rw [C05_flag_needs_detection_stationary smallThr m h] at hf
  exact absurd hf (by decide)

/-- witnesses: instant threshold 0 queues a site with measured rate 0 (ordinary threshold 5);
a stationary method with small-window threshold 0 queues a site on its first record, measured 0 -/
theorem C05_flag_counterexample : ¬ C05_flag_statement ∧
    flagCandidate (some 0) 5 0 = true ∧ flagStationaryFresh 0 0 = true := by
  refine ⟨?_, by decide, by decide⟩
  intro h
  exact h.1 (some 0) 5 0 (by decide) rfl

/-! ### the property at full strength -/

def C05_statement : Prop :=
  -- measured rates: never negative, non-zero only at or above the limit, zero when nothing is seen
  (∀ mdl err r : Int, 0 ≤ measure mdl err r ∧ (measure mdl err r ≠ 0 → mdl ≤ r) ∧
      (r < mdl → measure mdl err r = 0) ∧ (r = 0 → measure mdl err r = 0)) ∧
  -- at its scale a survey reports (and tags) from the summed rate of the emissions it can see
  (∀ (cfg : Cfg) (m : Nat) (mdl : Int) (s : Nat) (xs : List (Emis × Rolls)),
      ReportSound cfg mdl s (visList (detect m s xs)) (survey cfg m mdl s xs) ∧
      (∀ e ∈ visList (detect m s xs), ∃ x ∈ xs, visible m s x = true ∧ e.id = x.1.id ∧ e.rate = x.1.rate
          ∧ covOf m e = some true) ∧
      (∀ g c, (g, c) ∈ tagTargets (survey cfg m mdl s xs) →
          mdl ≤ rateComp (visList (detect m s xs)) s g c)) ∧
  -- emissions outside the coverage / not emitting never contribute
  (∀ (cfg : Cfg) (m : Nat) (mdl : Int) (s : Nat) (pre post : List (Emis × Rolls)) (x x' : Emis × Rolls),
      visible m s x = false → visible m s x' = false →
      survey cfg m mdl s (pre ++ x :: post) = survey cfg m mdl s (pre ++ x' :: post) ∧
      survey cfg m mdl s (pre ++ x :: post) = survey cfg m mdl s (pre ++ post)) ∧
  -- the spatial outcome of an emission for a method is fixed for its whole life
  (∀ (m : Nat) (e : Emis) (r : Rolls) (roll' : Bool),
      checkSpatialCov m roll' (checkSpatialCov m r.spatial e).e =
        { e := (checkSpatialCov m r.spatial e).e, outcome := (checkSpatialCov m r.spatial e).outcome,
          consumed := false }) ∧
  -- zero coverage / unreachable limit: the program leaves every emission as the baseline does
  (∀ (sched : Nat → List SurveyIn),
      ((∀ d, ∀ sv ∈ sched d, ZeroCoverage sv.m sv.xs) ∨ (∀ d, ∀ sv ∈ sched d, UnreachableMdl sv.mdl sv.xs)) →
      (∀ d, ∀ sv ∈ sched d, Quiet (surveyOf sv)) ∧
      ∀ (p : Emission.Params) (s g c N : Nat),
        Emission.run p (fun d => dayEvents (sched d) s g c) N = Emission.baseline p N)

theorem C05 : C05_statement := by
  refine ⟨?_, ?_, ?_, ?_, ?_⟩
  · intro mdl err r
    exact ⟨C05_measured_nonneg mdl err r, C05_measured_ne_zero mdl err r, (C05_measured_zero mdl err r).1,
      (C05_measured_zero mdl err r).2⟩
  · intro cfg m mdl s xs
    refine ⟨C05_report_sound cfg mdl s _, ?_, ?_⟩
    · intro e he; exact C05_contributors_are_visible m s xs e he
    · intro g c h; exact (C05_tag_needs_visible_rate cfg mdl s _ g c h).2
  · intro cfg m mdl s pre post x x' h h'
    have := C05_frame cfg m mdl s pre post x x' h h'
    exact ⟨this.1, this.2.1⟩
  · intro m e r roll'
    have h := C05_spatial_sticky m e r
    simp only at h
    rw [h.2.2.1 roll', h.2.1]
  · intro sched h
    cases h with
    | inl h => have := C05_zero_coverage_is_baseline sched h; exact ⟨fun d sv hsv => (this.1 d sv hsv).1, this.2⟩
    | inr h => have := C05_unreachable_mdl_is_baseline sched h; exact ⟨fun d sv hsv => (this.1 d sv hsv).1, this.2⟩

/-! ### non-vacuity -/

/-- a site with two groups; method 7, MDL 8 units.  Emission 1 (rate 16) is covered and visible,
emission 2 (rate 32) was rolled out of coverage earlier, emission 3 (rate 64) is intermittent and
off, emission 4 (rate 4, fresh) is covered but below the limit in its own component, emission 5
(rate 128) belongs to another site.  Component scale with shift −25 %: only component (1,1) is
measured (16·75 = 1200 hundredths) and tagged; group scale sees 20 in group 1. -/
private def exXs : List (Emis × Rolls) :=
  [ ({ id := 1, site := 3, eqg := 1, comp := 1, rate := 16, active := true, emitting := true, cov := [] }, ⟨true, true⟩),
    ({ id := 2, site := 3, eqg := 1, comp := 1, rate := 32, active := true, emitting := true, cov := [(7, false)] }, ⟨true, true⟩),
    ({ id := 3, site := 3, eqg := 1, comp := 2, rate := 64, active := true, emitting := false, cov := [] }, ⟨true, true⟩),
    ({ id := 4, site := 3, eqg := 1, comp := 2, rate := 4, active := true, emitting := true, cov := [] }, ⟨true, true⟩),
    ({ id := 5, site := 4, eqg := 1, comp := 1, rate := 128, active := true, emitting := true, cov := [] }, ⟨true, true⟩) ]

example :
    (visList (detect 7 3 exXs)).map (·.id) = [1, 4] ∧
    (survey (.component [(1, [(1, -25), (2, 0)]), (2, [(1, 0)])]) 7 8 3 exXs).measured = 1200 ∧
    tagTargets (survey (.component [(1, [(1, -25), (2, 0)]), (2, [(1, 0)])]) 7 8 3 exXs) = [(1, 1)] ∧
    ((survey (.eqg [(1, 50), (2, 0)]) 7 8 3 exXs).eqgs.map (fun e => (e.trueRate, e.measured))) = [(20, 3000), (0, 0)] ∧
    (survey (.site (-125)) 7 8 3 exXs).measured = 0 ∧ (survey (.site (-125)) 7 8 3 exXs).recorded = [1, 4] ∧
    (after 7 3 exXs).map (fun e => covOf 7 e) = [some true, some false, some true, some true, none] ∧
    ¬ ZeroCoverage 7 exXs ∧ ¬ UnreachableMdl 8 exXs := by
  refine ⟨by decide, by decide, by decide, by decide, by decide, by decide, by decide, ?_, ?_⟩
  · intro h; have := (h _ (List.mem_cons_self)).2; revert this; decide
  · intro h; have := h.2; revert this; decide

/-- the hypotheses of the two baseline theorems are satisfiable by non-trivial surveys: all rolls 0
with emitting, above-limit emissions present; and a limit above the total rate 244 -/
example : ZeroCoverage 7 (exXs.map (fun x => ({ x.1 with cov := [] }, { x.2 with spatial := false }))) := by
  intro x hx
  simp only [exXs, List.map_cons, List.map_nil, List.mem_cons, List.not_mem_nil, or_false] at hx
  rcases hx with h | h | h | h | h <;> subst h <;> decide

example : UnreachableMdl 245 exXs ∧ totalRate exXs = 244 := by
  refine ⟨⟨?_, by decide⟩, by decide⟩
  intro x hx
  simp only [exXs, List.mem_cons, List.not_mem_nil, or_false] at hx
  rcases hx with h | h | h | h | h <;> subst h <;> decide

end LdarModel.Sensor
