/-
Layer 3 for the two estimates a method's schedule is built from (C06, C07, C08; DESIGN.md §10.21).
`Generated/EstimateSrc.lean` is the translation (over ℚ) of `Method._estimate_method_crews_required` and
`Method.estimate_average_daily_surveys`, rewritten from /repo's source on every run.  The documented
formulas are stated outright and the translation is proved equal to them.
-/
import LdarModel.Generated.EstimateSrc
import LdarModel.Model.Crew

namespace LdarModel.EstimateTie
open LdarModel.EstimateSrc

/-- LDAR-Sim's own estimate of the crews a routine mobile method needs:
`ceil(sites / (sites per crew-day × days between two surveys of a site))`, the crew-day shortened by one
(average) trip home -/
def portfolioEstimate (nSites workHours avgTravel avgSurvey avgRequired : Rat) : Int :=
  Rat.ceil (nSites / (((workHours * 60 - avgTravel) / avgSurvey) * (365 / avgRequired)))

/-- **crews of a method**: a positive configured `crew_count` is what the method gets, whatever the
estimate says; with `crew_count` 0 a follow-up method gets 1 crew and a routine method the estimate -/
theorem crews_required_spec (o : Obj) (crews : Rat) :
    (crews_required o crews).2 =
      (if crews > 0 then crews
       else if o.is_follow_up = true then 1
       else ((portfolioEstimate o.n_sites o.max_work_hours o.env_avg_travel o.env_avg_survey_time o.env_avg_required : Int) : Rat)) := by
  by_cases hf : o.is_follow_up = true <;> by_cases hc : crews > 0 <;>
    simp [portfolioEstimate, hf, hc] <;> (try (split <;> simp_all)) <;> (try grind)

/-- the same, in the shape of the crew model: for whole-number `crew_count` it is `Crew.methodCrews`
of the configured count and the estimate (a non-stationary method) -/
theorem crews_required_is_methodCrews (o : Obj) (configured : Nat) (h : 0 ≤ portfolioEstimate o.n_sites o.max_work_hours o.env_avg_travel o.env_avg_survey_time o.env_avg_required) :
    (crews_required o (configured : Rat)).2 =
      ((Crew.methodCrews false o.is_follow_up configured
          (portfolioEstimate o.n_sites o.max_work_hours o.env_avg_travel o.env_avg_survey_time o.env_avg_required).toNat : Nat) : Rat) := by
  rw [crews_required_spec]
  unfold Crew.methodCrews
  by_cases hc : configured = 0
  · subst hc
    by_cases hf : o.is_follow_up = true
    · simp [hf]
    · simp [hf]
      have := Int.toNat_of_nonneg h
      exact_mod_cast this.symm
  · have hpos : (0 : Rat) < (configured : Rat) := by exact_mod_cast Nat.pos_of_ne_zero hc
    have hpos' : 0 < configured := Nat.pos_of_ne_zero hc
    simp [hpos, hpos']

/-- **daily capacity of a crew**: a stationary method has none (−1); otherwise the number of average
surveys that fit into the workday, rounded UP (a site that takes longer than a day still gets one slot) -/
theorem daily_surveys_spec (o : Obj) :
    (daily_surveys o).2 =
      (if o.deployment_type = Deploy.stationary then -1
       else ((Rat.ceil (o.max_work_hours * 60 / o.avg_s_time) : Int) : Rat)) := by
  by_cases hs : o.deployment_type = Deploy.stationary <;> simp [hs]

/-- a positive workday and survey time always give at least one slot (the schedule can plan the site) -/
theorem daily_surveys_pos (o : Obj) (hs : o.deployment_type ≠ Deploy.stationary)
    (hq : 0 < o.max_work_hours * 60 / o.avg_s_time) : 1 ≤ (daily_surveys o).2 := by
  rw [daily_surveys_spec]
  simp [hs]
  have h0 : (0 : Int) < (o.max_work_hours * 60 / o.avg_s_time).ceil := by
    rw [Rat.lt_ceil_iff]; exact_mod_cast hq
  exact_mod_cast h0

/-- non-vacuity: a 480-minute survey in an 8 h day (one slot: the documented rounding up; rounding down
would give none) -/
example : Rat.ceil ((8 : Rat) * 60 / 510) = 1 ∧ Rat.floor ((8 : Rat) * 60 / 510) = 0 := by
  constructor <;> decide +kernel

theorem all_translated : EstimateSrc.untranslated = [] := by decide

end LdarModel.EstimateTie
