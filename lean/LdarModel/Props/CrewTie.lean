/-
Layer 3 tie for the survey step (used by C07, C08, C10; DESIGN.md §10.21).

`Generated/CrewSrc.lean` is the translation of `Method.survey_site` (with
`_determine_if_site_survey_can_be_completed` resolved and inlined through the translated call),
rewritten from /repo's source on every run.  The theorems say that the translated method *is*
`Crew.surveyStep` followed by `Crew.applyStep` of `Model/Crew.lean`, for every crew budget, survey time,
travel time, progress and flag combination (no bound on any quantity).
-/
import LdarModel.Generated.CrewSrc
import LdarModel.Model.Crew

namespace LdarModel.CrewTie
open LdarModel.Crew LdarModel.CrewSrc

/-- the report fields of the model -/
def absRep (o : Obj) : Report :=
  { surveyed := o.rep_time_surveyed, today := o.rep_time_surveyed_current_day, travel := o.rep_time_spent_to_travel, complete := o.rep_survey_complete, inProgress := o.rep_survey_in_progress }

/-- the model's inputs of one call: `workable` is what `check_weather` answered, consulted only when the
method considers weather -/
def stepOf (o : Obj) : StepOut :=
  surveyStep o.crew_day_time_remaining o.env_survey_time o.env_travel_time o.rep_time_surveyed
    (decide (o.deployment_type = Deploy.stationary)) (!o.weather || o.env_workable)

/-- shared script: split on the four flags first, then on the arithmetic tests -/
macro "crew_tie" o:term : tactic =>
  `(tactic| (by_cases hw : ($o).weather = true <;> by_cases he : ($o).env_workable = true
             <;> by_cases hs : ($o).deployment_type = Deploy.stationary
             <;> by_cases hp : ($o).rep_survey_in_progress = true
             <;> simp [absRep, stepOf, surveyStep, applyStep, effS, effT, hw, he, hs, hp, *]
             <;> (try (repeat' split)) <;> (try simp_all) <;> (try omega) <;> (try grind)))

/-- report after the call = `applyStep` of the model's step -/
theorem survey_site_report (o : Obj) (d : Int) :
    absRep (Method.survey_site o d).1 = applyStep (absRep o) (stepOf o) := by
  crew_tie o

/-- crew minutes after the call, and the three returned values -/
theorem survey_site_crew (o : Obj) (d : Int) :
    (Method.survey_site o d).1.crew_day_time_remaining = (stepOf o).rem
    ∧ (Method.survey_site o d).2 = ((stepOf o).travel, (stepOf o).last, (stepOf o).visited) := by
  crew_tie o

/-- dates and method name on the report: a start date is written exactly when a survey that was not in
progress is visited with enough time to work; a completion date exactly on completion -/
theorem survey_site_dates (o : Obj) (d : Int) :
    let o' := (Method.survey_site o d).1
    let s := stepOf o
    o'.rep_survey_completion_date = (if s.branch = .complete then some d else o.rep_survey_completion_date)
    ∧ o'.rep_survey_start_date
        = (if (s.branch = .complete ∨ s.branch = .partial_) ∧ o.rep_survey_in_progress = false then some d
           else o.rep_survey_start_date)
    ∧ o'.rep_method
        = (if (s.branch = .complete ∨ s.branch = .partial_) ∧ o.rep_survey_in_progress = false then some o.name
           else o.rep_method) := by
  crew_tie o

/-- the call changes nothing of the method itself -/
theorem survey_site_frame (o : Obj) (d : Int) :
    let o' := (Method.survey_site o d).1
    o'.weather = o.weather ∧ o'.deployment_type = o.deployment_type ∧ o'.name = o.name := by
  crew_tie o

theorem all_translated : CrewSrc.untranslated = [] := by decide

/-- which class's body each method class runs: the site-level and group-level classes inherit
`Method.survey_site`; `ComponentLevelMethod` overrides it (calls it through `super()` and then tags,
modelled in `Model/Emission.lean: tagCalls / tagEvs`) -/
theorem owners_as_modelled : CrewSrc.surveySiteOwner =
    [("Method", "Method"), ("SiteLevelMethod", "Method"), ("EquipmentGroupLevelMethod", "Method"),
     ("ComponentLevelMethod", "ComponentLevelMethod")] := by decide

/-- nothing is skipped by the translation -/
theorem ignored_as_documented : CrewSrc.ignored = [] := by decide

/-- **the sensor is consulted exactly once, and only by the step that completes the survey** (with the
site, the method's own name and this survey's report): no reading is taken on a day the survey is left
in progress, on a day without time, or on a day the weather forbids -/
theorem survey_site_sensor (o : Obj) (d : Int) (h : o.effects = []) :
    (Method.survey_site o d).1.effects
      = (if (stepOf o).branch = .complete
         then ["sensor(site=site_to_survey, meth_name=self._name, survey_report=survey_report)"] else []) := by
  crew_tie o

end LdarModel.CrewTie
