import LdarModel.Lemmas.Propagate
import LdarModel.Generated.Levels
/-
C15 — virtual-world parameters: most granular level wins, site totals are conserved.

Model: `Model/Propagate.lean` (one function per method of infrastructure.py / sites.py /
equipment_groups.py / component.py / sources.py; the propagating-parameter dictionary is passed from
level to level exactly as the code does).  Key tables: `Generated/Levels.lean`, rewritten from the
source on every run.  Helper lemmas: `Lemmas/Propagate.lean`.

Contents
  1. `resolve`: the most granular level that specifies a parameter wins, for every list of levels
     (list induction, not an enumeration of the 2⁵ subsets); unspecified levels are neutral.
  2. Obligations over the generated key tables (`decide`): every propagating parameter uses the same
     key at every level where it may be specified; the un-prefixing rule of the source level maps each
     prefixed key to the key the source reads and to no other.
  3. The dictionary-passing model equals the `resolve` closed form at every source, equipment group
     and site (for all rows, under well-formedness of the tables).
  4. Quantities given per site (production rate, survey time, survey cost) add back up (ℚ).
  5. Exactly `n` distinct sites with the structure the files describe.
  6. `C15_statement` and its proof.
-/
namespace LdarModel.Propagate
open LdarModel.Generated.Levels

/-! ## 1. most granular wins -/

/-- the value of the last level that specifies the parameter is the one in effect, whatever the
less granular levels (`pre`) say and however many unspecified levels follow -/
theorem most_granular_wins {V : Type} (pre post : List (Option V)) (v g : V)
    (h : ∀ o ∈ post, o = none) : resolve (pre ++ some v :: post) g = v := by
  rw [resolve_append, resolve_cons]
  exact resolve_all_none post _ h

/-- no level specifies it: the global value stays in effect -/
theorem most_granular_wins_global {V : Type} (levels : List (Option V)) (g : V)
    (h : ∀ o ∈ levels, o = none) : resolve levels g = g :=
  resolve_all_none levels g h

/-- the same as one equation, for every list of levels: scanning from the most granular end, the
first specified value, else the global one -/
theorem resolve_eq_last_specified {V : Type} (levels : List (Option V)) (g : V) :
    resolve levels g = (levels.reverse.findSome? id).getD g := by
  induction levels generalizing g with
  | nil => rfl
  | cons o l ih =>
    rw [resolve_cons, ih, List.reverse_cons, List.findSome?_append]
    cases h : l.reverse.findSome? id with
    | some v => simp
    | none => cases o <;> simp

/-- a level that does not specify the parameter leaves it untouched, wherever it sits in the chain -/
theorem unspecified_is_identity {V : Type} (l1 l2 : List (Option V)) (g : V) :
    resolve (l1 ++ none :: l2) g = resolve (l1 ++ l2) g := by
  simp [resolve_append]

/-- a more granular level is never overridden by a less granular one -/
theorem granular_overrides_coarse {V : Type} (coarse : List (Option V)) (v g g' : V)
    (fine : List (Option V)) :
    resolve (coarse ++ some v :: fine) g = resolve (some v :: fine) g' := by
  rw [resolve_append]
  simp

/-! ## 2. obligations over the generated tables -/

/-- every propagating parameter uses the same key at every level where it may be specified
(global mapping, site type file, sites file, equipment file; method-specific ones likewise) -/
theorem tables_same_key_every_level : tables.SameKeys := by decide

/-- the scaled entries are the two production rates (the ones the component split divides) and
survey time / cost; each is listed once -/
theorem tables_scaled_entries : tables.ScaleOK := by decide

/-- what the site and the equipment group take out of the method-specific dictionary -/
theorem tables_pops : tables.PopsOK := by decide

/-- the un-prefixing rule of `Source._update_prop_params` maps each prefixed key to the key the source
reads, no other key of the dictionary to that key, and never writes a prefixed key -/
theorem tables_unprefix_rule : tables.UnprefixOK := by decide

theorem tables_wf : tables.WF :=
  ⟨tables_same_key_every_level, tables_scaled_entries, tables_pops, tables_unprefix_rule⟩

/-- constant by constant: the key of a plain propagating parameter is the same in the site type file,
the sites file and the equipment file, and all three levels have it -/
theorem tables_level_keys_agree :
    ∀ r ∈ levelKeys, r.2.1.isSome = true ∧ r.2.1 = r.2.2.1 ∧ r.2.2.1 = r.2.2.2 := by decide

/-- constant by constant: wherever a level has a method-specific parameter, its suffix is the one of
the sites file -/
theorem tables_level_meth_keys_agree :
    ∀ r ∈ levelMethKeys,
      r.2.2.1.isSome = true ∧ r.2.1 = r.2.2.1 ∧
      (r.2.2.2.1.isSome = true → r.2.2.2.1 = r.2.2.1) ∧
      (r.2.2.2.2.isSome = true → r.2.2.2.2 = r.2.2.1) := by decide

/-- the per-constant table and the loop lists describe the same keys -/
theorem tables_level_keys_cover :
    (∀ k ∈ tables.sitePlain, ∃ r ∈ levelKeys, r.2.2.1 = some k) ∧
    (∀ r ∈ levelKeys, ∀ k, r.2.2.1 = some k → k ∈ tables.sitePlain) := by decide

/-- every plain propagating parameter has an access path into the virtual-world parameters, every
method-specific one into the method parameters -/
theorem tables_global_paths :
    globalPlainPaths.map (·.1) = tables.globalPlain ∧ globalMethPaths.map (·.1) = tables.globalMeth := by
  decide

/-- nothing in the five world-building modules can carry state from one construction to the next or
between sibling objects: no module- or class-level mutable container, no caching decorator, no copy
hook, no in-place mutation of a constants list (directly, through an alias or through the class) -/
theorem tables_no_shared_state : sharedStateHazards = [] := by decide

/-- pickling round trip: every class hands `_reconstruct` as many arguments as it accepts, and each
argument lands in the attribute it was read from -/
theorem tables_reduce_roundtrip :
    reduceTable.map (·.1) = ["Infrastructure", "Site", "Equipment_Group", "Component", "Source"] ∧
    ∀ r ∈ reduceTable, r.2.2.1 ≤ r.2.1 ∧ r.2.1 ≤ r.2.2.2.1 ∧ r.2.2.2.2 = true := by decide

/-! ## 3. the model of the code equals the closed form -/

/-- the levels of one chain, for the column `c`: site type (if any), site, equipment group -/
def upper (T : Option Row) (S E : Row) (c : String) : List (Option PV) :=
  [typeGet T c, S.get? c, E.get? c]

/-- what the levels prescribe for the key `sk` a source reads (`pre` = the source's prefix): scaled
entries are divided by the number of groups below the site and by the number of components below
the group, everything else is handed down unchanged -/
def specPlain (tb : Tables) (G : Dict String) (T : Option Row) (S E R : Row) (nG : Rat) (nC : Nat)
    (pre sk : String) : PV :=
  if pre ++ sk ∈ tb.scalePlain then
    resolve [R.get? sk]
      ((resolve [E.get? (pre ++ sk)]
        ((resolve [typeGet T (pre ++ sk), S.get? (pre ++ sk)] (G.get (pre ++ sk))).divBy nG)).divPos nC)
  else
    resolve (upper T S E (pre ++ sk) ++ [R.get? sk]) (G.get (pre ++ sk))

/-- every key the source level reads, for every site type / site / equipment / source row: the
dictionary-passing model yields the value prescribed by the chain of levels -/
theorem source_key_spec (tb : Tables) (hw : tb.WF) (methods : List String) (G : Dict String)
    (Gm : Dict MKey) (T : Option Row) (S E R : Row) (nG : Rat) (rep : Bool) (sk : String)
    (hsk : sk ∈ tb.srcKeysFor rep) :
    (unprefixLoop (tb.prefixOf rep) R (compCtx tb methods G Gm T S E nG)).get sk
      = specPlain tb G T S E R nG (totalComponents tb E) (tb.prefixOf rep) sk := by
  obtain ⟨hsame, hscale, _, hun⟩ := hw
  obtain ⟨hkey, hin, hu, h2, h3⟩ := hun rep (by cases rep <;> simp) sk hsk
  rw [get_unprefixLoop (tb.prefixOf rep) R _ sk (tb.prefixOf rep ++ sk) hu hin
        ((keys_compCtx tb hsame hscale methods G Gm T S E nG _).mpr hkey)
        (fun k' hk' => h2 k' ((keys_compCtx tb hsame hscale methods G Gm T S E nG k').mp hk'))
        (fun k' hk' => h3 k' ((keys_compCtx tb hsame hscale methods G Gm T S E nG k').mp hk'))]
  rw [get_compCtx tb hsame hscale methods G Gm T S E nG _ hkey]
  unfold specPlain upper
  by_cases hsc : tb.prefixOf rep ++ sk ∈ tb.scalePlain
  · simp [hsc]
  · simp [hsc]

theorem not_scaled_of_ne (tb : Tables) (hw : tb.WF) (rep : Bool) (sk : String)
    (hsk : sk ∈ tb.srcKeysFor rep) (hne : sk ≠ tb.srcEpr) :
    tb.prefixOf rep ++ sk ∉ tb.scalePlain := by
  have := hw.2.1.named.scaledIff rep (by cases rep <;> simp) sk hsk
  exact fun h => hne (this.mp h)

/-- **most granular level wins at the source**: rate source, duration, multiple-emissions flag and
(repairable sources) repair delay and cost in effect at a source are those of the most granular of
source row, equipment row, site row, site type row that specifies them, else the global value -/
theorem source_most_granular_wins (tb : Tables) (hw : tb.WF) (methods : List String)
    (G : Dict String) (Gm : Dict MKey) (T : Option Row) (S E R : Row) (nG : Rat) (sid : String)
    (rep : Bool) (m : Dict MKey) :
    let s := sourceEff tb methods sid rep R (compCtx tb methods G Gm T S E nG) m
    let chain := fun sk => resolve (upper T S E (tb.prefixOf rep ++ sk) ++ [R.get? sk])
                              (G.get (tb.prefixOf rep ++ sk))
    s.ers = chain tb.srcErs ∧ s.dur = chain tb.srcDur ∧ s.multi = chain tb.srcMulti ∧
    (rep = true → s.rd = chain tb.srcRd ∧ s.rc = chain tb.srcRc) ∧
    (rep = false → s.rd = .nul ∧ s.rc = .nul) := by
  intro s chain
  have hp := hw.2.2.1.named
  have key : ∀ sk, sk ∈ tb.srcKeysFor rep → sk ≠ tb.srcEpr →
      (unprefixLoop (tb.prefixOf rep) R (compCtx tb methods G Gm T S E nG)).get sk = chain sk := by
    intro sk hsk hne
    rw [source_key_spec tb hw methods G Gm T S E R nG rep sk hsk]
    unfold specPlain
    rw [if_neg (not_scaled_of_ne tb hw rep sk hsk hne)]
  have e1 : tb.srcErs ∈ tb.srcKeysFor rep := by simp [Tables.srcKeysFor]
  have e2 : tb.srcDur ∈ tb.srcKeysFor rep := by simp [Tables.srcKeysFor]
  have e3 : tb.srcMulti ∈ tb.srcKeysFor rep := by simp [Tables.srcKeysFor]
  refine ⟨key _ e1 hp.ersNe, key _ e2 hp.durNe, key _ e3 hp.multiNe, ?_, ?_⟩
  · intro hr
    subst hr
    have e4 : tb.srcRd ∈ tb.srcKeysFor true := by simp [Tables.srcKeysFor]
    have e5 : tb.srcRc ∈ tb.srcKeysFor true := by simp [Tables.srcKeysFor]
    exact ⟨key _ e4 hp.rdNe, key _ e5 hp.rcNe⟩
  · intro hr
    subst hr
    exact ⟨rfl, rfl⟩

/-- the production rate in effect at a source: the site's value (most granular of site, site type,
global) divided by the number of equipment groups, replaced by the equipment row's value if given,
divided by the group's component count when positive, replaced by the source row's value if given -/
theorem source_production_rate_spec (tb : Tables) (hw : tb.WF) (methods : List String)
    (G : Dict String) (Gm : Dict MKey) (T : Option Row) (S E R : Row) (nG : Rat) (sid : String)
    (rep : Bool) (m : Dict MKey) :
    (sourceEff tb methods sid rep R (compCtx tb methods G Gm T S E nG) m).epr
      = resolve [R.get? tb.srcEpr]
          ((resolve [E.get? (tb.prefixOf rep ++ tb.srcEpr)]
            ((resolve [typeGet T (tb.prefixOf rep ++ tb.srcEpr), S.get? (tb.prefixOf rep ++ tb.srcEpr)]
                (G.get (tb.prefixOf rep ++ tb.srcEpr))).divBy nG)).divPos (totalComponents tb E)) := by
  have e : tb.srcEpr ∈ tb.srcKeysFor rep := by simp [Tables.srcKeysFor]
  have hsc : tb.prefixOf rep ++ tb.srcEpr ∈ tb.scalePlain :=
    (hw.2.1.named.scaledIff rep (by cases rep <;> simp) _ e).mpr rfl
  show (unprefixLoop (tb.prefixOf rep) R (compCtx tb methods G Gm T S E nG)).get tb.srcEpr = _
  rw [source_key_spec tb hw methods G Gm T S E R nG rep _ e]
  unfold specPlain
  rw [if_pos hsc]

/-- spatial and temporal coverage of every method at a source: most granular of source row,
equipment row, site row, site type row, else the method's parameter file -/
theorem source_coverage_most_granular_wins (tb : Tables) (hw : tb.WF) (methods : List String)
    (G : Dict String) (Gm : Dict MKey) (T : Option Row) (S E R : Row) (nG : Rat) (sid : String)
    (rep : Bool) (d : Dict String) :
    let s := sourceEff tb methods sid rep R d (groupCtx tb methods G Gm T S E nG).2
    s.spatial = methods.map (fun me =>
        resolve (upper T S E (me ++ tb.srcSpatial) ++ [R.get? (me ++ tb.srcSpatial)]) (gmVal tb Gm (me, tb.srcSpatial)))
    ∧ s.temporal = methods.map (fun me =>
        resolve (upper T S E (me ++ tb.srcTemporal) ++ [R.get? (me ++ tb.srcTemporal)]) (gmVal tb Gm (me, tb.srcTemporal))) := by
  intro s
  obtain ⟨hsame, _, hp0, _⟩ := hw
  have hp := hp0.named
  have one : ∀ p, p ∈ tb.globalMeth → p ∈ tb.sourceMeth → p ∉ tb.scaleMeth → ∀ me ∈ methods,
      (updFrom MKey.col (methKeys methods tb.sourceMeth) R (groupCtx tb methods G Gm T S E nG).2).get (me, p)
        = resolve (upper T S E (me ++ p) ++ [R.get? (me ++ p)]) (gmVal tb Gm (me, p)) := by
    intro p hpg hps hpn me hme
    have hpgm : p ∈ tb.groupMeth := (List.mem_filter.mp hps).1
    rw [get_updFrom]
    have hm : ((me, p) : MKey) ∈ methKeys methods tb.sourceMeth := (mem_methKeys _ _ _ _).mpr ⟨hme, hps⟩
    simp only [hm, if_true, MKey.col]
    rw [get_groupMeth tb hsame methods G Gm T S E nG me p hme hpgm]
    simp [upper, hpn, globalMethVal, hpg]
  constructor
  · exact List.map_congr_left (one tb.srcSpatial hp.spG hp.spSrc hp.spNotScaled)
  · exact List.map_congr_left (one tb.srcTemporal hp.tmG hp.tmSrc hp.tmNotScaled)

/-- the equipment group `gid` (equipment row `E`) of a site with site row `S`, site type row `T`,
when the site has `nG` groups: exactly the call `Site._create_equipment_groups` makes -/
def groupAt (tb : Tables) (methods : List String) (files : Files) (G : Dict String) (Gm : Dict MKey)
    (T : Option Row) (S : Row) (gid : String) (E : Row) (nG : Rat) : GroupEff :=
  buildGroup tb methods files gid E
    (scaleKeys tb.scalePlain nG (siteDicts tb methods G Gm T S).1)
    (scaleKeys (methKeys methods tb.scaleMeth) nG (siteDicts tb methods G Gm T S).2)

/-- site type row of a site (`none` without a site type file) -/
def typeRowOf (files : Files) (s : SiteRow) : Option Row := (findType files s).map (·.cells)

/-- the groups of a site as the files describe them: (id, equipment row, divisor) -/
def groupsOf (tb : Tables) (methods : List String) (G : Dict String) (Gm : Dict MKey) (files : Files)
    (s : SiteRow) : List (String × Row × Rat) :=
  siteGroups tb files (equipFor files s (findType files s))
    (siteDicts tb methods G Gm (typeRowOf files s) s.cells).1

theorem buildSite_groups (tb : Tables) (methods : List String) (G : Dict String) (Gm : Dict MKey)
    (files : Files) (s : SiteRow) :
    (buildSite tb methods G Gm files s).groups
      = (groupsOf tb methods G Gm files s).map (fun g =>
          groupAt tb methods files G Gm (typeRowOf files s) s.cells g.1 g.2.1 g.2.2) := rfl

theorem groupAt_comps (tb : Tables) (methods : List String) (files : Files) (G : Dict String)
    (Gm : Dict MKey) (T : Option Row) (S : Row) (gid : String) (E : Row) (nG : Rat) :
    (groupAt tb methods files G Gm T S gid E nG).comps
      = (cleanedCells tb E).flatMap (fun c => (List.range (cellCount c.2)).map (fun i =>
          { cid := compType c.1 ++ "_" ++ toString i,
            repRate := (compCtx tb methods G Gm T S E nG).get tb.eqRepEpr,
            nonRate := (compCtx tb methods G Gm T S E nG).get tb.eqNonRepEpr,
            sources := componentSources tb methods files (compType c.1)
                         (compCtx tb methods G Gm T S E nG) (groupCtx tb methods G Gm T S E nG).2 })) := rfl

/-- survey time and cost of an equipment group, per method: the equipment row's value if given, else
the site's value (most granular of site, site type, method file) divided by the number of groups -/
theorem group_survey_spec (tb : Tables) (hw : tb.WF) (methods : List String) (files : Files)
    (G : Dict String) (Gm : Dict MKey) (T : Option Row) (S : Row) (gid : String) (E : Row) (nG : Rat) :
    let g := groupAt tb methods files G Gm T S gid E nG
    let spec := fun p me => resolve [E.get? (me ++ p)]
        ((resolve [typeGet T (me ++ p), S.get? (me ++ p)] (gmVal tb Gm (me, p))).divBy nG)
    g.gid = gid ∧ g.times = methods.map (spec tb.eqTimeKey) ∧ g.costs = methods.map (spec tb.eqCostKey) := by
  intro g spec
  obtain ⟨hsame, hs0, hp0, _⟩ := hw
  have hp := hp0.named
  have hs := hs0.named
  have one : ∀ p, p ∈ tb.globalMeth → p ∈ tb.groupMeth → p ∈ tb.scaleMeth → ∀ me ∈ methods,
      (groupCtx tb methods G Gm T S E nG).2.get (me, p) = spec p me := by
    intro p hpg hpgm hpsc me hme
    rw [get_groupMeth tb hsame methods G Gm T S E nG me p hme hpgm]
    simp [spec, hpsc, globalMethVal, hpg]
  refine ⟨rfl, ?_, ?_⟩
  · exact List.map_congr_left (one tb.eqTimeKey hp.timeG hp.timeGrp hs.timeIn)
  · exact List.map_congr_left (one tb.eqCostKey hp.costG hp.costGrp hs.costIn)

/-- survey frequency, deployment months / years and site deployment of a site, per method: most
granular of site row and site type row, else the method's parameter file (site deployment: `True`) -/
theorem site_most_granular_wins (tb : Tables) (hw : tb.WF) (methods : List String)
    (G : Dict String) (Gm : Dict MKey) (files : Files) (s : SiteRow) :
    let site := buildSite tb methods G Gm files s
    let T := typeRowOf files s
    let spec := fun p g me => resolve [typeGet T (me ++ p), s.cells.get? (me ++ p)] (g me)
    site.sid = s.sid ∧ site.stype = s.stype ∧
    site.freq = methods.map (spec tb.freqKey (fun me => gmVal tb Gm (me, tb.freqKey))) ∧
    site.months = methods.map (spec tb.monthsKey (fun me => gmVal tb Gm (me, tb.monthsKey))) ∧
    site.years = methods.map (spec tb.yearsKey (fun me => gmVal tb Gm (me, tb.yearsKey))) ∧
    site.deploy = methods.map (spec tb.siteDeploy (fun _ => PV.tru)) := by
  intro site T spec
  obtain ⟨hsame, _, hp0, _⟩ := hw
  have hp := hp0.named
  have inAll : ∀ p, p ∈ tb.globalMeth → p ∈ tb.allMeth := by
    intro p h; simp [Tables.allMeth, h]
  have one : ∀ p, p ∈ tb.globalMeth → ∀ me ∈ methods,
      (siteDicts tb methods G Gm T s.cells).2.get (me, p) = spec p (fun me => gmVal tb Gm (me, p)) me := by
    intro p hpg me hme
    rw [get_siteMeth tb hsame methods G Gm T s.cells me p hme (inAll p hpg)]
    simp [spec, globalMethVal, hpg]
  have dep : ∀ me ∈ methods,
      (siteDicts tb methods G Gm T s.cells).2.get (me, tb.deployKey) = spec tb.siteDeploy (fun _ => PV.tru) me := by
    intro me hme
    rw [hp.deployEq, get_siteMeth tb hsame methods G Gm T s.cells me tb.siteDeploy hme
      (by simp [Tables.allMeth])]
    simp [spec, globalMethVal, hp.deployNotG]
  exact ⟨rfl, rfl, List.map_congr_left (one _ hp.freqG), List.map_congr_left (one _ hp.monthsG),
    List.map_congr_left (one _ hp.yearsG), List.map_congr_left dep⟩

/-! ## 4. quantities given per site add back up -/

/-- arithmetic of the split: a site value `x` divided by the number of groups and, in each group, by
that group's number of components, summed over all components of all groups, is `x` again (ℚ) -/
theorem split_conserved (x : Rat) (cs : List Nat) (hne : cs ≠ []) (hpos : ∀ c ∈ cs, c ≠ 0) :
    (cs.map (fun c => (List.replicate c (x / (cs.length : Rat) / (c : Rat))).sum)).sum = x := by
  have hlen : cs.length ≠ 0 := by
    intro h; exact hne (List.length_eq_zero_iff.mp h)
  have h1 : ∀ c ∈ cs, (List.replicate c (x / (cs.length : Rat) / (c : Rat))).sum = x / (cs.length : Rat) := by
    intro c hc
    have hcr : (c : Rat) ≠ 0 := by exact_mod_cast hpos c hc
    rw [sum_replicate_rat]
    grind
  rw [sum_map_eq_const cs _ _ h1]
  exact mul_div_cancel_nat x cs.length hlen

/-- the placeholder split: `k` groups of `⌈c/k⌉` placeholder components each -/
theorem placeholder_split_conserved (x : Rat) (k m : Nat) (hk : k ≠ 0) (hm : m ≠ 0) :
    ((List.replicate k m).map (fun c => (List.replicate c (x / (k : Rat) / (c : Rat))).sum)).sum = x := by
  have := split_conserved x (List.replicate k m)
    (by intro h; exact hk (by simpa using congrArg List.length h))
    (by intro c hc; rw [(List.mem_replicate.mp hc).2]; exact hm)
  simpa using this

/-- survey time and cost: the site value split over `n` groups adds back up -/
theorem survey_split_conserved (x : Rat) (n : Nat) (hn : n ≠ 0) :
    (List.replicate n (x / (n : Rat))).sum = x := by
  rw [sum_replicate_rat]
  exact mul_div_cancel_nat x n hn

/-- a site's equipment groups do not override `col` -/
def NoGroupOverride (gs : List (String × Row × Rat)) (col : String) : Prop :=
  ∀ g ∈ gs, g.2.1.get? col = none

instance (gs : List (String × Row × Rat)) (col : String) : Decidable (NoGroupOverride gs col) := by
  unfold NoGroupOverride; infer_instance

/-- **production rate conserved in the model of the code**: for a site whose equipment rows do not
override the rate, the rates the components hand to their sources add up, over all components of all
equipment groups, to the site's value (repairable rate; `…_nonrep` for the other one) -/
theorem site_production_rate_conserved (tb : Tables) (hw : tb.WF) (methods : List String)
    (G : Dict String) (Gm : Dict MKey) (files : Files) (s : SiteRow) (x : Rat) (hx : 0 ≤ x)
    (hsite : resolve [typeGet (typeRowOf files s) tb.eqRepEpr, s.cells.get? tb.eqRepEpr] (G.get tb.eqRepEpr) = .num x)
    (hgs : groupsOf tb methods G Gm files s ≠ [])
    (hint : (equipFor files s (findType files s)).Integral)
    (hno : NoGroupOverride (groupsOf tb methods G Gm files s) tb.eqRepEpr)
    (hcomp : ∀ g ∈ groupsOf tb methods G Gm files s, totalComponents tb g.2.1 ≠ 0) :
    ((buildSite tb methods G Gm files s).groups.map
        (fun g => (g.comps.map (fun c => numOf c.repRate)).sum)).sum = x := by
  obtain ⟨hsame, hs0, _, _⟩ := hw
  have hs := hs0.named
  rw [buildSite_groups, List.map_map]
  have hlen : (groupsOf tb methods G Gm files s).length ≠ 0 := by
    intro h; exact hgs (List.length_eq_zero_iff.mp h)
  have each : ∀ g ∈ groupsOf tb methods G Gm files s,
      ((fun g : GroupEff => (g.comps.map (fun c => numOf c.repRate)).sum) ∘
        (fun g => groupAt tb methods files G Gm (typeRowOf files s) s.cells g.1 g.2.1 g.2.2)) g
        = x / ((groupsOf tb methods G Gm files s).length : Rat) := by
    intro g hg
    have hdiv : g.2.2 = ((groupsOf tb methods G Gm files s).length : Rat) := siteGroups_divisor _ _ _ _ hint g hg
    simp only [Function.comp]
    rw [groupAt_comps]
    have hval : (compCtx tb methods G Gm (typeRowOf files s) s.cells g.2.1 g.2.2).get tb.eqRepEpr
        = ((PV.num x).divBy g.2.2).divPos (totalComponents tb g.2.1) := by
      rw [get_compCtx tb hsame hs0 methods G Gm _ _ _ _ _ hs.repG]
      simp only [hs.repIn, if_true, resolve_cons, resolve_nil, hno g hg, Option.getD_none]
      have := hsite
      simp only [resolve_cons, resolve_nil] at this
      rw [this]
    rw [sum_map_eq_const _ _ (numOf (((PV.num x).divBy g.2.2).divPos (totalComponents tb g.2.1)))]
    · rw [length_flatMap_range]
      have : ((cleanedCells tb g.2.1).map (fun c => cellCount c.2)).sum = totalComponents tb g.2.1 := rfl
      rw [this, comp_split x g.2.2 _ (by rw [hdiv]; exact Rat.natCast_pos.mpr (Nat.pos_of_ne_zero hlen)) (hcomp g hg) hx, hdiv]
    · intro c hc
      simp only [List.mem_flatMap, List.mem_map] at hc
      obtain ⟨_, _, _, _, hc⟩ := hc
      rw [← hc, hval]
  rw [sum_map_eq_const _ _ _ each]
  exact mul_div_cancel_nat x _ hlen

theorem site_production_rate_conserved_nonrep (tb : Tables) (hw : tb.WF) (methods : List String)
    (G : Dict String) (Gm : Dict MKey) (files : Files) (s : SiteRow) (x : Rat) (hx : 0 ≤ x)
    (hsite : resolve [typeGet (typeRowOf files s) tb.eqNonRepEpr, s.cells.get? tb.eqNonRepEpr] (G.get tb.eqNonRepEpr) = .num x)
    (hgs : groupsOf tb methods G Gm files s ≠ [])
    (hint : (equipFor files s (findType files s)).Integral)
    (hno : NoGroupOverride (groupsOf tb methods G Gm files s) tb.eqNonRepEpr)
    (hcomp : ∀ g ∈ groupsOf tb methods G Gm files s, totalComponents tb g.2.1 ≠ 0) :
    ((buildSite tb methods G Gm files s).groups.map
        (fun g => (g.comps.map (fun c => numOf c.nonRate)).sum)).sum = x := by
  obtain ⟨hsame, hs0, _, _⟩ := hw
  have hs := hs0.named
  rw [buildSite_groups, List.map_map]
  have hlen : (groupsOf tb methods G Gm files s).length ≠ 0 := by
    intro h; exact hgs (List.length_eq_zero_iff.mp h)
  have each : ∀ g ∈ groupsOf tb methods G Gm files s,
      ((fun g : GroupEff => (g.comps.map (fun c => numOf c.nonRate)).sum) ∘
        (fun g => groupAt tb methods files G Gm (typeRowOf files s) s.cells g.1 g.2.1 g.2.2)) g
        = x / ((groupsOf tb methods G Gm files s).length : Rat) := by
    intro g hg
    have hdiv : g.2.2 = ((groupsOf tb methods G Gm files s).length : Rat) := siteGroups_divisor _ _ _ _ hint g hg
    simp only [Function.comp]
    rw [groupAt_comps]
    have hval : (compCtx tb methods G Gm (typeRowOf files s) s.cells g.2.1 g.2.2).get tb.eqNonRepEpr
        = ((PV.num x).divBy g.2.2).divPos (totalComponents tb g.2.1) := by
      rw [get_compCtx tb hsame hs0 methods G Gm _ _ _ _ _ hs.nonG]
      simp only [hs.nonIn, if_true, resolve_cons, resolve_nil, hno g hg, Option.getD_none]
      have := hsite
      simp only [resolve_cons, resolve_nil] at this
      rw [this]
    rw [sum_map_eq_const _ _ (numOf (((PV.num x).divBy g.2.2).divPos (totalComponents tb g.2.1)))]
    · rw [length_flatMap_range]
      have : ((cleanedCells tb g.2.1).map (fun c => cellCount c.2)).sum = totalComponents tb g.2.1 := rfl
      rw [this, comp_split x g.2.2 _ (by rw [hdiv]; exact Rat.natCast_pos.mpr (Nat.pos_of_ne_zero hlen)) (hcomp g hg) hx, hdiv]
    · intro c hc
      simp only [List.mem_flatMap, List.mem_map] at hc
      obtain ⟨_, _, _, _, hc⟩ := hc
      rw [← hc, hval]
  rw [sum_map_eq_const _ _ _ each]
  exact mul_div_cancel_nat x _ hlen

private theorem getD_map_range {β : Type} (n i : Nat) (hi : i < n) (f : Nat → β) (d : β) :
    ((List.range n).map f).getD i d = f i := by
  simp [List.getD_eq_getElem?_getD, hi]

private theorem getD_map_get {α β : Type} (l : List α) (f : α → β) (i : Nat) (hi : i < l.length) (d : β) :
    (l.map f).getD i d = f l[i] := by
  simp [List.getD_eq_getElem?_getD, hi]

/-- the per-group survey values of method number `i`, when no equipment row overrides them: the site
value divided by the number of groups, in every group -/
private theorem group_values_no_override (tb : Tables) (hw : tb.WF) (methods : List String)
    (G : Dict String) (Gm : Dict MKey) (files : Files) (s : SiteRow) (i : Nat)
    (hi : i < methods.length) (x : Rat) (p : String) (hp : p = tb.eqTimeKey ∨ p = tb.eqCostKey)
    (hsite : resolve [typeGet (typeRowOf files s) (methods[i] ++ p), s.cells.get? (methods[i] ++ p)]
                (gmVal tb Gm (methods[i], p)) = .num x)
    (hint : (equipFor files s (findType files s)).Integral)
    (hno : NoGroupOverride (groupsOf tb methods G Gm files s) (methods[i] ++ p)) :
    (buildSite tb methods G Gm files s).groups.map
        (fun g => (if p = tb.eqTimeKey then g.times else g.costs).getD i .nul)
      = ((groupsOf tb methods G Gm files s).map
          (fun _ => x / ((groupsOf tb methods G Gm files s).length : Rat))).map PV.num := by
  rw [buildSite_groups, List.map_map, List.map_map]
  apply List.map_congr_left
  intro g hg
  have hdiv : g.2.2 = ((groupsOf tb methods G Gm files s).length : Rat) := siteGroups_divisor _ _ _ _ hint g hg
  have hspec := group_survey_spec tb hw methods files G Gm (typeRowOf files s) s.cells g.1 g.2.1 g.2.2
  simp only at hspec
  simp only [Function.comp]
  have hsite' := hsite
  simp only [resolve_cons, resolve_nil] at hsite'
  rcases hp with hp | hp
  · subst hp
    simp only [if_true]
    rw [hspec.2.1, getD_map_get _ _ _ hi]
    simp only [resolve_cons, resolve_nil, hno g hg, Option.getD_none, hsite', PV.divBy, hdiv]
  · by_cases hpt : p = tb.eqTimeKey
    · subst hpt
      simp only [if_true]
      rw [hspec.2.1, getD_map_get _ _ _ hi]
      simp only [resolve_cons, resolve_nil, hno g hg, Option.getD_none, hsite', PV.divBy, hdiv]
    · subst hp
      simp only [hpt, if_false]
      rw [hspec.2.2, getD_map_get _ _ _ hi]
      simp only [resolve_cons, resolve_nil, hno g hg, Option.getD_none, hsite', PV.divBy, hdiv]

/-- **survey cost conserved**: without equipment-level overrides the site's survey cost for a method
is the site-level value again (`Σ groups (x / n) = x`) -/
theorem site_cost_conserved (tb : Tables) (hw : tb.WF) (methods : List String)
    (G : Dict String) (Gm : Dict MKey) (files : Files) (s : SiteRow) (i : Nat)
    (hi : i < methods.length) (x : Rat)
    (hsite : resolve [typeGet (typeRowOf files s) (methods[i] ++ tb.eqCostKey),
                      s.cells.get? (methods[i] ++ tb.eqCostKey)] (gmVal tb Gm (methods[i], tb.eqCostKey)) = .num x)
    (hgs : groupsOf tb methods G Gm files s ≠ [])
    (hint : (equipFor files s (findType files s)).Integral)
    (hno : NoGroupOverride (groupsOf tb methods G Gm files s) (methods[i] ++ tb.eqCostKey)) :
    (buildSite tb methods G Gm files s).cost.getD i .nul = .num x := by
  have hlen : (groupsOf tb methods G Gm files s).length ≠ 0 := by
    intro h; exact hgs (List.length_eq_zero_iff.mp h)
  have hv := group_values_no_override tb hw methods G Gm files s i hi x tb.eqCostKey (Or.inr rfl) hsite hint hno
  show ((List.range methods.length).map (siteCost (buildSite tb methods G Gm files s).groups)).getD i .nul = _
  rw [getD_map_range _ _ hi]
  unfold siteCost
  by_cases hpt : tb.eqCostKey = tb.eqTimeKey
  · simp only [hpt, if_true] at hv
    have hgrp : ∀ g ∈ (buildSite tb methods G Gm files s).groups, g.costs.getD i .nul = g.times.getD i .nul := by
      intro g hg
      rw [buildSite_groups] at hg
      obtain ⟨g0, _, hg0⟩ := List.mem_map.mp hg
      have := group_survey_spec tb hw methods files G Gm (typeRowOf files s) s.cells g0.1 g0.2.1 g0.2.2
      simp only at this
      rw [← hg0, this.2.1, this.2.2, hpt]
    rw [List.map_congr_left hgrp, hv, sumPV_nums, sum_map_const_rat, mul_div_cancel_nat x _ hlen]
  · simp only [hpt, if_false] at hv
    rw [hv, sumPV_nums, sum_map_const_rat, mul_div_cancel_nat x _ hlen]

/-- **survey time conserved**: without equipment-level overrides the site's survey time for a method
is the site-level value, rounded as `get_method_survey_time` rounds it -/
theorem site_time_conserved (tb : Tables) (hw : tb.WF) (methods : List String)
    (G : Dict String) (Gm : Dict MKey) (files : Files) (s : SiteRow) (i : Nat)
    (hi : i < methods.length) (x : Rat)
    (hsite : resolve [typeGet (typeRowOf files s) (methods[i] ++ tb.eqTimeKey),
                      s.cells.get? (methods[i] ++ tb.eqTimeKey)] (gmVal tb Gm (methods[i], tb.eqTimeKey)) = .num x)
    (hgs : groupsOf tb methods G Gm files s ≠ [])
    (hint : (equipFor files s (findType files s)).Integral)
    (hno : NoGroupOverride (groupsOf tb methods G Gm files s) (methods[i] ++ tb.eqTimeKey)) :
    (buildSite tb methods G Gm files s).time.getD i none = some (roundHalfEven x) := by
  have hlen : (groupsOf tb methods G Gm files s).length ≠ 0 := by
    intro h; exact hgs (List.length_eq_zero_iff.mp h)
  have hv := group_values_no_override tb hw methods G Gm files s i hi x tb.eqTimeKey (Or.inl rfl) hsite hint hno
  simp only [if_true] at hv
  show ((List.range methods.length).map (siteTime (buildSite tb methods G Gm files s).groups)).getD i none = _
  rw [getD_map_range _ _ hi]
  unfold siteTime
  rw [hv, sumPV_nums, sum_map_const_rat, mul_div_cancel_nat x _ hlen]
  rfl

/-! ## 5. exactly `n` distinct sites with the structure the files describe -/

/-- the world has exactly one site per sampled row: `n` sites for a sample of size `n` -/
theorem site_count (tb : Tables) (methods : List String) (G : Dict String) (Gm : Dict MKey)
    (files : Files) (picks : List Nat) (n : Nat) (h : ValidPicks files.sites.length n picks) :
    (buildWorld tb methods G Gm files picks).length = n := by
  simp [buildWorld, h.1]

/-- the sites of the world are the sampled rows of the sites file, in the sampled order -/
theorem site_ids (tb : Tables) (methods : List String) (G : Dict String) (Gm : Dict MKey)
    (files : Files) (picks : List Nat) :
    (buildWorld tb methods G Gm files picks).map (fun s => (s.sid, s.stype))
      = picks.map (fun i => ((files.sites.getD i default).sid, (files.sites.getD i default).stype)) := by
  simp [buildWorld, buildSite, Function.comp_def]

/-- distinct rows of a file with distinct site ids give distinct sites -/
theorem site_ids_distinct (tb : Tables) (methods : List String) (G : Dict String) (Gm : Dict MKey)
    (files : Files) (picks : List Nat) (n : Nat) (h : ValidPicks files.sites.length n picks)
    (hfile : (files.sites.map (·.sid)).Nodup) :
    ((buildWorld tb methods G Gm files picks).map (·.sid)).Nodup := by
  have hids : (buildWorld tb methods G Gm files picks).map (·.sid)
      = picks.map (fun i => (files.sites.map (·.sid)).getD i (default : SiteRow).sid) := by
    simp only [buildWorld, List.map_map]
    apply List.map_congr_left
    intro i _
    simp only [Function.comp, buildSite, List.getD_eq_getElem?_getD, List.getElem?_map]
    cases files.sites[i]? <;> rfl
  rw [hids, List.nodup_iff_pairwise_ne, List.pairwise_map]
  refine List.Pairwise.imp_of_mem ?_ h.2.1
  intro a b ha hb hab heq
  have hla : a < (files.sites.map (·.sid)).length := by simpa using h.2.2 a ha
  have hlb : b < (files.sites.map (·.sid)).length := by simpa using h.2.2 b hb
  exact hab ((List.getD_inj hla hlb hfile).mp heq)

/-- **no history, no leak between sibling sites**: the site built for a row of the sites file is a
function of that row (and the files) alone — it does not depend on which other rows were sampled
with it, on their number or on the order of the sample -/
theorem site_independent_of_sample (tb : Tables) (methods : List String) (G : Dict String)
    (Gm : Dict MKey) (files : Files) (picks₁ picks₂ : List Nat) (j₁ j₂ : Nat)
    (h₁ : j₁ < picks₁.length) (h₂ : j₂ < picks₂.length) (hrow : picks₁[j₁] = picks₂[j₂]) :
    (buildWorld tb methods G Gm files picks₁)[j₁]'(by simpa [buildWorld] using h₁)
      = (buildWorld tb methods G Gm files picks₂)[j₂]'(by simpa [buildWorld] using h₂) := by
  simp [buildWorld, hrow]

/-- the order in which the rows are drawn only permutes the sites of the world -/
theorem world_perm_of_sample_perm (tb : Tables) (methods : List String) (G : Dict String)
    (Gm : Dict MKey) (files : Files) (picks₁ picks₂ : List Nat) (h : picks₁.Perm picks₂) :
    (buildWorld tb methods G Gm files picks₁).Perm (buildWorld tb methods G Gm files picks₂) :=
  h.map _

/-- a smaller sample gives a sub-world: dropping rows from the sample drops exactly their sites -/
theorem world_sublist_of_sample_sublist (tb : Tables) (methods : List String) (G : Dict String)
    (Gm : Dict MKey) (files : Files) (picks₁ picks₂ : List Nat) (h : picks₁.Sublist picks₂) :
    (buildWorld tb methods G Gm files picks₁).Sublist (buildWorld tb methods G Gm files picks₂) :=
  h.map _

/-- named equipment: one group per name of the site's (or its type's) equipment list, in order -/
theorem structure_groups_named (tb : Tables) (methods : List String) (G : Dict String) (Gm : Dict MKey)
    (files : Files) (s : SiteRow) (raw : String)
    (hspec : equipFor files s (findType files s) = .named raw) :
    (buildSite tb methods G Gm files s).groups.map (·.gid) = splitEquip raw := by
  rw [buildSite_groups, List.map_map]
  unfold groupsOf
  rw [hspec]
  simp [siteGroups, Function.comp_def, groupAt, buildGroup]

/-- numeric equipment `q`: one placeholder group for `0`, else `int(q)` groups numbered from 0 -/
theorem structure_groups_numeric (tb : Tables) (methods : List String) (G : Dict String) (Gm : Dict MKey)
    (files : Files) (s : SiteRow) (q : Rat)
    (hspec : equipFor files s (findType files s) = .count q) :
    (buildSite tb methods G Gm files s).groups.map (·.gid)
      = if q = 0 then ["0"] else (List.range q.floor.toNat).map toString := by
  rw [buildSite_groups, List.map_map]
  unfold groupsOf
  rw [hspec]
  by_cases hq : q = 0
  · simp [siteGroups, hq, Function.comp_def, groupAt, buildGroup]
  · simp [siteGroups, hq, Function.comp_def, groupAt, buildGroup]

/-- per group: for every component column of the equipment row, as many components as its count,
named `<type>_<index>` -/
theorem structure_components (tb : Tables) (methods : List String) (files : Files) (G : Dict String)
    (Gm : Dict MKey) (T : Option Row) (S : Row) (gid : String) (E : Row) (nG : Rat) :
    (groupAt tb methods files G Gm T S gid E nG).comps.map (·.cid)
      = (cleanedCells tb E).flatMap (fun c =>
          (List.range (cellCount c.2)).map (fun i => compType c.1 ++ "_" ++ toString i))
    ∧ (groupAt tb methods files G Gm T S gid E nG).comps.length = totalComponents tb E := by
  constructor
  · rw [groupAt_comps, List.map_flatMap]
    simp [Function.comp_def]
  · rw [groupAt_comps, length_flatMap_range]
    rfl

/-- per component of a user-defined type: one source per row of the sources file whose `component`
column names the type, in file order, each built from that row -/
theorem structure_sources_file (tb : Tables) (methods : List String) (files : Files) (ty : String)
    (d : Dict String) (m : Dict MKey) (rows : List SrcRow) (hrows : files.sources = some rows)
    (h1 : ty ≠ compType tb.placeholderBoth) (h2 : ty ≠ compType tb.placeholderRep)
    (h3 : ty ≠ compType tb.placeholderNonRep) :
    componentSources tb methods files ty d m
      = (rows.filter (fun r => r.comp = ty)).map (fun r => sourceEff tb methods r.sid r.rep r.cells d m) := by
  simp [componentSources, h1, h2, h3, hrows]

/-- placeholder components: a repairable and a non-repairable source, or one of them, by kind -/
theorem structure_sources_placeholder (tb : Tables) (methods : List String) (files : Files)
    (d : Dict String) (m : Dict MKey)
    (hd : compType tb.placeholderRep ≠ compType tb.placeholderBoth
        ∧ compType tb.placeholderNonRep ≠ compType tb.placeholderBoth
        ∧ compType tb.placeholderNonRep ≠ compType tb.placeholderRep) :
    (componentSources tb methods files (compType tb.placeholderBoth) d m).map (fun s => (s.sid, s.rep))
        = [(compType tb.placeholderRep, true), (compType tb.placeholderNonRep, false)]
    ∧ componentSources tb methods files (compType tb.placeholderRep) d m
        = [sourceEff tb methods (compType tb.placeholderRep) true [] d m]
    ∧ componentSources tb methods files (compType tb.placeholderNonRep) d m
        = [sourceEff tb methods (compType tb.placeholderNonRep) false [] d m] := by
  refine ⟨?_, ?_, ?_⟩
  · simp [componentSources, sourceEff]
  · simp [componentSources, hd.1]
  · simp [componentSources, hd.2.1, hd.2.2]

/-- table obligation: the three placeholder equipment names are component columns (not dropped by the
cleaning) and give the three distinct component types the source creation distinguishes -/
theorem tables_placeholder_names :
    (∀ nm ∈ [tables.placeholderBoth, tables.placeholderRep, tables.placeholderNonRep], ∀ q : Rat,
        cleanedCells tables [(nm, .num q)] = [(nm, .num q)]) ∧
    compType tables.placeholderBoth = "Placeholder" ∧ compType tables.placeholderRep = "Placeholder_Rep" ∧
    compType tables.placeholderNonRep = "Placeholder_NonRep" := by
  refine ⟨?_, by decide, by decide, by decide⟩
  intro nm hnm q
  have hk : ¬ nm ∈ tables.eqCleanPlain ∧ ∀ x ∈ tables.eqCleanMeth, hasInfix x nm = false := by
    revert nm
    decide
  simpa [cleanedCells] using hk

/-- the number of placeholder components of a site with numeric equipment: `⌈rate·730⌉` split over
the groups (`⌈count/q⌉` each) -/
theorem structure_placeholder_counts (tb : Tables) (files : Files) (d : Dict String) (q : Rat) :
    (siteGroups tb files (.count q) d).map (fun g => g.2.1.map (fun c => cellCount c.2))
      = (let cnt := placeholderCount (placeholderKind (d.get tb.siteRepEpr) (d.get tb.siteNonRepEpr))
                      (d.get tb.siteRepEpr) (d.get tb.siteNonRepEpr)
         if q = 0 then [[cnt]]
         else List.replicate q.floor.toNat [(((cnt : Rat) / q).ceil.toNat)]) := by
  have hfl : ∀ n : Nat, cellCount (.num (n : Rat)) = n := by
    intro n
    simp only [cellCount]
    have : ((n : Rat)).floor = (n : Int) := Rat.floor_intCast (n : Int)
    rw [this]; rfl
  by_cases hq : q = 0
  · simp [siteGroups, hq, hfl]
  · simp only [siteGroups, hq, if_false, List.map_map]
    rw [List.eq_replicate_iff]
    constructor
    · simp
    · intro b hb
      simp only [List.mem_map, Function.comp] at hb
      obtain ⟨i, _, hi⟩ := hb
      rw [← hi]
      simp [hfl]

/-- table obligation for the shared dictionary of a two-kind placeholder component -/
theorem tables_placeholder_shared_dict : tables.SharedOK := by decide

/-- a two-kind placeholder component hands its repairable and its non-repairable source the *same*
dictionary (no copy); the second source nevertheless ends up with exactly the values it would get
from a fresh copy -/
theorem placeholder_second_source (tb : Tables) (hw : tb.WF) (hsh : tb.SharedOK)
    (methods : List String) (G : Dict String) (Gm : Dict MKey) (T : Option Row) (S E : Row) (nG : Rat)
    (sid : String) (m : Dict MKey) :
    sourceEff tb methods sid false [] (unprefixLoop tb.repPrefix [] (compCtx tb methods G Gm T S E nG)) m
      = sourceEff tb methods sid false [] (compCtx tb methods G Gm T S E nG) m := by
  obtain ⟨hsame, hscale, _, hun⟩ := hw
  have key : ∀ sk ∈ tb.srcKeysFor false,
      (unprefixLoop tb.nonRepPrefix [] (unprefixLoop tb.repPrefix [] (compCtx tb methods G Gm T S E nG))).get sk
        = (unprefixLoop tb.nonRepPrefix [] (compCtx tb methods G Gm T S E nG)).get sk := by
    intro sk hsk
    obtain ⟨hkey, hin, hu, h2, h3⟩ := hun false (by simp) sk hsk
    simp only [Tables.prefixOf, Bool.false_eq_true, if_false] at hkey hin hu h2 h3
    have hk := keys_compCtx tb hsame hscale methods G Gm T S E nG
    have hnew : ∀ k', k' ∈ (unprefixLoop tb.repPrefix [] (compCtx tb methods G Gm T S E nG)).keys →
        hasInfix tb.nonRepPrefix k' = true → k' ∈ tb.globalPlain := by
      intro k' hk' hinf
      rcases keys_unprefixLoop_sub _ _ _ _ hk' with h1 | ⟨k0, hk0, hin0, hk0'⟩
      · exact (hk k').mp h1
      · have := hsh.1 k0 ((hk k0).mp hk0) hin0
        rw [hk0'] at this
        rw [this] at hinf
        exact absurd hinf (by simp)
    rw [get_unprefixLoop tb.nonRepPrefix [] _ sk (tb.nonRepPrefix ++ sk) hu hin
          (keys_unprefixLoop_mono _ _ _ _ ((hk _).mpr hkey))
          (fun k' hk' hinf => h2 k' (hnew k' hk' hinf) hinf)
          (fun k' hk' hinf => h3 k' (hnew k' hk' hinf) hinf)]
    rw [get_unprefixLoop tb.nonRepPrefix [] _ sk (tb.nonRepPrefix ++ sk) hu hin ((hk _).mpr hkey)
          (fun k' hk' => h2 k' ((hk k').mp hk')) (fun k' hk' => h3 k' ((hk k').mp hk'))]
    rw [get_unprefixLoop_other tb.repPrefix [] _ (tb.nonRepPrefix ++ sk)
          (fun k0 hk0 hin0 => hsh.2 k0 ((hk k0).mp hk0) hin0 sk hsk)]
  have e1 : tb.srcErs ∈ tb.srcKeysFor false := by simp [Tables.srcKeysFor]
  have e2 : tb.srcEpr ∈ tb.srcKeysFor false := by simp [Tables.srcKeysFor]
  have e3 : tb.srcDur ∈ tb.srcKeysFor false := by simp [Tables.srcKeysFor]
  have e4 : tb.srcMulti ∈ tb.srcKeysFor false := by simp [Tables.srcKeysFor]
  simp only [sourceEff, Bool.false_eq_true, if_false, key _ e1, key _ e2, key _ e3, key _ e4]

/-- the sources of a placeholder component of a group: one repairable and/or one non-repairable
source, each built from the group's component dictionary (no source row: nothing to override) -/
theorem structure_sources_placeholder_ctx (tb : Tables) (hw : tb.WF) (hsh : tb.SharedOK)
    (hd : compType tb.placeholderRep ≠ compType tb.placeholderBoth
        ∧ compType tb.placeholderNonRep ≠ compType tb.placeholderBoth
        ∧ compType tb.placeholderNonRep ≠ compType tb.placeholderRep)
    (methods : List String) (files : Files) (G : Dict String) (Gm : Dict MKey) (T : Option Row)
    (S E : Row) (nG : Rat) (m : Dict MKey) :
    componentSources tb methods files (compType tb.placeholderBoth) (compCtx tb methods G Gm T S E nG) m
        = [sourceEff tb methods (compType tb.placeholderRep) true [] (compCtx tb methods G Gm T S E nG) m,
           sourceEff tb methods (compType tb.placeholderNonRep) false [] (compCtx tb methods G Gm T S E nG) m]
    ∧ componentSources tb methods files (compType tb.placeholderRep) (compCtx tb methods G Gm T S E nG) m
        = [sourceEff tb methods (compType tb.placeholderRep) true [] (compCtx tb methods G Gm T S E nG) m]
    ∧ componentSources tb methods files (compType tb.placeholderNonRep) (compCtx tb methods G Gm T S E nG) m
        = [sourceEff tb methods (compType tb.placeholderNonRep) false [] (compCtx tb methods G Gm T S E nG) m] := by
  refine ⟨?_, (structure_sources_placeholder tb methods files _ m hd).2.1,
    (structure_sources_placeholder tb methods files _ m hd).2.2⟩
  have := placeholder_second_source tb hw hsh methods G Gm T S E nG (compType tb.placeholderNonRep) m
  simp only [componentSources, if_true, this]

/-! ### the component rate is what the sources carry -/

/-- a source whose own row gives no production rate carries exactly the rate of its component (the
value the component's dictionary holds under the prefixed key) -/
theorem source_rate_is_component_rate (tb : Tables) (hw : tb.WF) (methods : List String)
    (G : Dict String) (Gm : Dict MKey) (T : Option Row) (S E R : Row) (nG : Rat) (sid : String)
    (rep : Bool) (m : Dict MKey) (hR : R.get? tb.srcEpr = none) :
    (sourceEff tb methods sid rep R (compCtx tb methods G Gm T S E nG) m).epr
      = (compCtx tb methods G Gm T S E nG).get (tb.prefixOf rep ++ tb.srcEpr) := by
  have e : tb.srcEpr ∈ tb.srcKeysFor rep := by simp [Tables.srcKeysFor]
  have hsc : tb.prefixOf rep ++ tb.srcEpr ∈ tb.scalePlain :=
    (hw.2.1.named.scaledIff rep (by cases rep <;> simp) _ e).mpr rfl
  have hkey := (hw.2.2.2 rep (by cases rep <;> simp) _ e).1
  rw [source_production_rate_spec tb hw, get_compCtx tb hw.1 hw.2.1 methods G Gm T S E nG _ hkey]
  simp [hsc, hR]

/-- every source of a component of a group is built from the component's dictionary (the second
source of a two-kind placeholder included, although the code hands it the dictionary the first one
has already written to) -/
theorem mem_componentSources (tb : Tables) (hw : tb.WF) (hsh : tb.SharedOK) (methods : List String)
    (files : Files) (G : Dict String) (Gm : Dict MKey) (T : Option Row) (S E : Row) (nG : Rat)
    (ty : String) (m : Dict MKey) (s : SourceEff)
    (hs : s ∈ componentSources tb methods files ty (compCtx tb methods G Gm T S E nG) m) :
    ∃ sid rep R, s = sourceEff tb methods sid rep R (compCtx tb methods G Gm T S E nG) m := by
  unfold componentSources at hs
  simp only at hs
  split at hs
  · simp only [List.mem_cons, List.not_mem_nil, or_false] at hs
    rcases hs with hs | hs
    · exact ⟨_, _, _, hs⟩
    · rw [placeholder_second_source tb hw hsh] at hs
      exact ⟨_, _, _, hs⟩
  · split at hs
    · simp only [List.mem_singleton] at hs
      exact ⟨_, _, _, hs⟩
    · split at hs
      · simp only [List.mem_singleton] at hs
        exact ⟨_, _, _, hs⟩
      · cases hsrc : files.sources with
        | none => rw [hsrc] at hs; simp at hs
        | some rows =>
          rw [hsrc] at hs
          simp only [List.mem_map] at hs
          obtain ⟨r, _, hr⟩ := hs
          exact ⟨_, _, _, hr.symm⟩

/-- **the link to `Source._emis_prod_rate`**: in every component of every group, a source whose own
row gives no rate carries the component's repairable resp. non-repairable rate — the quantity the
conservation theorems add up is observable at the sources -/
theorem observed_component_rate (tb : Tables) (hw : tb.WF) (hsh : tb.SharedOK) (methods : List String)
    (files : Files) (G : Dict String) (Gm : Dict MKey) (T : Option Row) (S : Row) (gid : String)
    (E : Row) (nG : Rat) :
    ∀ c ∈ (groupAt tb methods files G Gm T S gid E nG).comps, ∀ s ∈ c.sources, s.ownRate = false →
      s.epr = if s.rep then c.repRate else c.nonRate := by
  intro c hc s hs hown
  rw [groupAt_comps] at hc
  simp only [List.mem_flatMap, List.mem_map] at hc
  obtain ⟨col, _, i, _, hci⟩ := hc
  subst hci
  simp only at hs ⊢
  obtain ⟨sid, rep, R, hsrc⟩ := mem_componentSources tb hw hsh methods files G Gm T S E nG _ _ s hs
  have hR : R.get? tb.srcEpr = none := by
    have : s.ownRate = (R.get? tb.srcEpr).isSome := by rw [hsrc]; rfl
    rw [this] at hown
    cases h : R.get? tb.srcEpr with
    | none => rfl
    | some v => rw [h] at hown; simp at hown
  have hrep : s.rep = rep := by rw [hsrc]; rfl
  rw [hrep, hsrc, source_rate_is_component_rate tb hw methods G Gm T S E R nG sid rep _ hR]
  cases rep
  · simp [Tables.prefixOf, hw.2.1.named.nonEq]
  · simp [Tables.prefixOf, hw.2.1.named.repEq]

/-- **production rate conserved at the sources**: choose in every component one repairable source
whose own row gives no rate (`pick`); the `_emis_prod_rate` values of the chosen sources add up, over
all components of all equipment groups, to the site's value -/
theorem site_source_rates_conserved (tb : Tables) (hw : tb.WF) (hsh : tb.SharedOK) (methods : List String)
    (G : Dict String) (Gm : Dict MKey) (files : Files) (s : SiteRow) (x : Rat) (hx : 0 ≤ x)
    (hsite : resolve [typeGet (typeRowOf files s) tb.eqRepEpr, s.cells.get? tb.eqRepEpr] (G.get tb.eqRepEpr) = .num x)
    (hgs : groupsOf tb methods G Gm files s ≠ [])
    (hint : (equipFor files s (findType files s)).Integral)
    (hno : NoGroupOverride (groupsOf tb methods G Gm files s) tb.eqRepEpr)
    (hcomp : ∀ g ∈ groupsOf tb methods G Gm files s, totalComponents tb g.2.1 ≠ 0)
    (pick : CompEff → SourceEff)
    (hpick : ∀ g ∈ (buildSite tb methods G Gm files s).groups, ∀ c ∈ g.comps,
        pick c ∈ c.sources ∧ (pick c).rep = true ∧ (pick c).ownRate = false) :
    ((buildSite tb methods G Gm files s).groups.map
        (fun g => (g.comps.map (fun c => numOf (pick c).epr)).sum)).sum = x := by
  have hobs : ∀ g ∈ (buildSite tb methods G Gm files s).groups, ∀ c ∈ g.comps,
      numOf (pick c).epr = numOf c.repRate := by
    intro g hg c hc
    obtain ⟨hmem, hrep, hown⟩ := hpick g hg c hc
    rw [buildSite_groups] at hg
    obtain ⟨g0, _, hg0⟩ := List.mem_map.mp hg
    subst hg0
    have := observed_component_rate tb hw hsh methods files G Gm _ _ _ _ _ c hc (pick c) hmem hown
    rw [this, hrep]; rfl
  have : (buildSite tb methods G Gm files s).groups.map
        (fun g => (g.comps.map (fun c => numOf (pick c).epr)).sum)
      = (buildSite tb methods G Gm files s).groups.map
        (fun g => (g.comps.map (fun c => numOf c.repRate)).sum) := by
    apply List.map_congr_left
    intro g hg
    rw [List.map_congr_left (hobs g hg)]
  rw [this]
  exact site_production_rate_conserved tb hw methods G Gm files s x hx hsite hgs hint hno hcomp

/-! ### global counts -/

/-- the number of components of a site is the sum, over its equipment groups, of the component counts
of the group's equipment row -/
theorem site_component_count (tb : Tables) (methods : List String) (G : Dict String) (Gm : Dict MKey)
    (files : Files) (s : SiteRow) :
    ((buildSite tb methods G Gm files s).groups.map (fun g => g.comps.length)).sum
      = ((groupsOf tb methods G Gm files s).map (fun g => totalComponents tb g.2.1)).sum := by
  rw [buildSite_groups, List.map_map]
  congr 1
  apply List.map_congr_left
  intro g _
  exact (structure_components tb methods files G Gm _ _ g.1 g.2.1 g.2.2).2

/-- the number of sources of a group: for every component column, its count times the number of
sources a component of that type gets -/
theorem group_source_count (tb : Tables) (methods : List String) (files : Files) (G : Dict String)
    (Gm : Dict MKey) (T : Option Row) (S : Row) (gid : String) (E : Row) (nG : Rat) :
    ((groupAt tb methods files G Gm T S gid E nG).comps.map (fun c => c.sources.length)).sum
      = ((cleanedCells tb E).map (fun col => cellCount col.2 *
          (componentSources tb methods files (compType col.1) (compCtx tb methods G Gm T S E nG)
            (groupCtx tb methods G Gm T S E nG).2).length)).sum := by
  rw [groupAt_comps]
  induction cleanedCells tb E with
  | nil => rfl
  | cons col cols ih =>
    simp only [List.flatMap_cons, List.map_append, List.sum_append, List.map_cons, List.sum_cons, ih,
      List.map_map]
    congr 1
    have : ∀ (n k : Nat), ((List.range n).map (fun _ => k)).sum = n * k := by
      intro n k
      induction n with
      | zero => simp
      | succ n ihn => simp [List.range_succ, List.sum_append, ihn, Nat.succ_mul]
    simp only [Function.comp_def]
    exact this _ _

/-- a component of a user-defined type gets as many sources as the sources file has rows naming the type -/
theorem component_source_count_file (tb : Tables) (methods : List String) (files : Files) (ty : String)
    (d : Dict String) (m : Dict MKey) (rows : List SrcRow) (hrows : files.sources = some rows)
    (h1 : ty ≠ compType tb.placeholderBoth) (h2 : ty ≠ compType tb.placeholderRep)
    (h3 : ty ≠ compType tb.placeholderNonRep) :
    (componentSources tb methods files ty d m).length = rows.countP (fun r => r.comp = ty)
    ∧ (componentSources tb methods files ty d m).map (fun s => (s.sid, s.rep))
        = (rows.filter (fun r => r.comp = ty)).map (fun r => (r.sid, r.rep)) := by
  rw [structure_sources_file tb methods files ty d m rows hrows h1 h2 h3]
  constructor
  · rw [List.length_map, List.countP_eq_length_filter]
  · simp [sourceEff, Function.comp_def]

/-! ## 6. the property -/

/-- the values the chain of levels prescribes for a source (row `R`, repairable flag `rep`) of a
component of the equipment group with row `E` (one of `nG` groups) of a site with row `S` and site
type row `T` -/
structure SourceSpec (tb : Tables) (methods : List String) (G : Dict String) (Gm : Dict MKey)
    (T : Option Row) (S E R : Row) (nG : Rat) (rep : Bool) (s : SourceEff) : Prop where
  ers : s.ers = resolve (upper T S E (tb.prefixOf rep ++ tb.srcErs) ++ [R.get? tb.srcErs]) (G.get (tb.prefixOf rep ++ tb.srcErs))
  dur : s.dur = resolve (upper T S E (tb.prefixOf rep ++ tb.srcDur) ++ [R.get? tb.srcDur]) (G.get (tb.prefixOf rep ++ tb.srcDur))
  multi : s.multi = resolve (upper T S E (tb.prefixOf rep ++ tb.srcMulti) ++ [R.get? tb.srcMulti]) (G.get (tb.prefixOf rep ++ tb.srcMulti))
  repair : rep = true →
    s.rd = resolve (upper T S E (tb.prefixOf rep ++ tb.srcRd) ++ [R.get? tb.srcRd]) (G.get (tb.prefixOf rep ++ tb.srcRd)) ∧
    s.rc = resolve (upper T S E (tb.prefixOf rep ++ tb.srcRc) ++ [R.get? tb.srcRc]) (G.get (tb.prefixOf rep ++ tb.srcRc))
  epr : s.epr = resolve [R.get? tb.srcEpr]
      ((resolve [E.get? (tb.prefixOf rep ++ tb.srcEpr)]
        ((resolve [typeGet T (tb.prefixOf rep ++ tb.srcEpr), S.get? (tb.prefixOf rep ++ tb.srcEpr)]
            (G.get (tb.prefixOf rep ++ tb.srcEpr))).divBy nG)).divPos (totalComponents tb E))
  spatial : s.spatial = methods.map (fun me =>
      resolve (upper T S E (me ++ tb.srcSpatial) ++ [R.get? (me ++ tb.srcSpatial)]) (gmVal tb Gm (me, tb.srcSpatial)))
  temporal : s.temporal = methods.map (fun me =>
      resolve (upper T S E (me ++ tb.srcTemporal) ++ [R.get? (me ++ tb.srcTemporal)]) (gmVal tb Gm (me, tb.srcTemporal)))

/-- every source the model creates from a row of the sources file (or as single-kind placeholder)
carries the prescribed values -/
theorem source_spec (tb : Tables) (hw : tb.WF) (methods : List String) (G : Dict String)
    (Gm : Dict MKey) (T : Option Row) (S E R : Row) (nG : Rat) (sid : String) (rep : Bool) :
    SourceSpec tb methods G Gm T S E R nG rep
      (sourceEff tb methods sid rep R (compCtx tb methods G Gm T S E nG) (groupCtx tb methods G Gm T S E nG).2) := by
  have h1 := source_most_granular_wins tb hw methods G Gm T S E R nG sid rep (groupCtx tb methods G Gm T S E nG).2
  have h2 := source_production_rate_spec tb hw methods G Gm T S E R nG sid rep (groupCtx tb methods G Gm T S E nG).2
  have h3 := source_coverage_most_granular_wins tb hw methods G Gm T S E R nG sid rep (compCtx tb methods G Gm T S E nG)
  simp only at h1 h3
  exact ⟨h1.1, h1.2.1, h1.2.2.1, h1.2.2.2.1, h2, h3.1, h3.2⟩

/-- C15 at full strength over the model instantiated with the key tables extracted from the source:
for all parameter files, infrastructure files and samples —
 (1) every source a component creates carries, for every propagating parameter, the value of the most
     granular level that specifies it (production rate: with the split over groups and components);
     every source of every component of every group is such a source, and one whose own row gives no
     rate carries the component's rate;
 (2) every group's survey time/cost and every site's frequency / months / years / deployment likewise;
 (3) when the equipment cell names groups or is a whole number, no equipment row overrides the
     quantity and every group has a component, the `_emis_prod_rate` of one un-overridden repairable
     source per component, the groups' survey costs and times add back up to the site value;
 (4) a sample of `n` distinct rows gives exactly `n` sites, with distinct ids when the file's ids are
     distinct; a site has the groups its equipment cell names, each group as many components as its
     equipment row counts, each component as many sources as the sources file has rows for its type. -/
def C15_statement : Prop :=
  ∀ (methods : List String) (G : Dict String) (Gm : Dict MKey) (files : Files),
    -- (1) sources
    (∀ (T : Option Row) (S E R : Row) (nG : Rat) (sid : String) (rep : Bool),
      SourceSpec tables methods G Gm T S E R nG rep
        (sourceEff tables methods sid rep R (compCtx tables methods G Gm T S E nG)
          (groupCtx tables methods G Gm T S E nG).2)) ∧
    (∀ (T : Option Row) (S E : Row) (nG : Rat) (gid ty : String) (m : Dict MKey),
      (∀ s ∈ componentSources tables methods files ty (compCtx tables methods G Gm T S E nG) m,
        ∃ sid rep R, s = sourceEff tables methods sid rep R (compCtx tables methods G Gm T S E nG) m) ∧
      (∀ c ∈ (groupAt tables methods files G Gm T S gid E nG).comps, ∀ s ∈ c.sources,
        s.ownRate = false → s.epr = if s.rep then c.repRate else c.nonRate)) ∧
    -- (2) groups and sites
    (∀ (s : SiteRow),
      (buildSite tables methods G Gm files s).groups
        = (groupsOf tables methods G Gm files s).map (fun g =>
            groupAt tables methods files G Gm (typeRowOf files s) s.cells g.1 g.2.1 g.2.2) ∧
      (∀ g ∈ groupsOf tables methods G Gm files s,
        let grp := groupAt tables methods files G Gm (typeRowOf files s) s.cells g.1 g.2.1 g.2.2
        let spec := fun p me => resolve [g.2.1.get? (me ++ p)]
          ((resolve [typeGet (typeRowOf files s) (me ++ p), s.cells.get? (me ++ p)]
              (gmVal tables Gm (me, p))).divBy g.2.2)
        grp.gid = g.1 ∧ grp.times = methods.map (spec tables.eqTimeKey) ∧
        grp.costs = methods.map (spec tables.eqCostKey) ∧
        ((equipFor files s (findType files s)).Integral →
          g.2.2 = ((groupsOf tables methods G Gm files s).length : Rat))) ∧
      (let site := buildSite tables methods G Gm files s
       let spec := fun p gv me =>
         resolve [typeGet (typeRowOf files s) (me ++ p), s.cells.get? (me ++ p)] (gv me)
       site.sid = s.sid ∧ site.stype = s.stype ∧
       site.freq = methods.map (spec tables.freqKey (fun me => gmVal tables Gm (me, tables.freqKey))) ∧
       site.months = methods.map (spec tables.monthsKey (fun me => gmVal tables Gm (me, tables.monthsKey))) ∧
       site.years = methods.map (spec tables.yearsKey (fun me => gmVal tables Gm (me, tables.yearsKey))) ∧
       site.deploy = methods.map (spec tables.siteDeploy (fun _ => PV.tru)))) ∧
    -- (3) conservation
    (∀ (s : SiteRow) (x : Rat), 0 ≤ x → groupsOf tables methods G Gm files s ≠ [] →
      (equipFor files s (findType files s)).Integral →
      (∀ g ∈ groupsOf tables methods G Gm files s, totalComponents tables g.2.1 ≠ 0) →
      resolve [typeGet (typeRowOf files s) tables.eqRepEpr, s.cells.get? tables.eqRepEpr]
            (G.get tables.eqRepEpr) = .num x →
      NoGroupOverride (groupsOf tables methods G Gm files s) tables.eqRepEpr →
      ∀ (pick : CompEff → SourceEff),
        (∀ g ∈ (buildSite tables methods G Gm files s).groups, ∀ c ∈ g.comps,
          pick c ∈ c.sources ∧ (pick c).rep = true ∧ (pick c).ownRate = false) →
        ((buildSite tables methods G Gm files s).groups.map
          (fun g => (g.comps.map (fun c => numOf (pick c).epr)).sum)).sum = x) ∧
    (∀ (s : SiteRow) (x : Rat), 0 ≤ x → groupsOf tables methods G Gm files s ≠ [] →
      (equipFor files s (findType files s)).Integral →
      (∀ g ∈ groupsOf tables methods G Gm files s, totalComponents tables g.2.1 ≠ 0) →
      resolve [typeGet (typeRowOf files s) tables.eqNonRepEpr, s.cells.get? tables.eqNonRepEpr]
            (G.get tables.eqNonRepEpr) = .num x →
      NoGroupOverride (groupsOf tables methods G Gm files s) tables.eqNonRepEpr →
      ((buildSite tables methods G Gm files s).groups.map
        (fun g => (g.comps.map (fun c => numOf c.nonRate)).sum)).sum = x) ∧
    (∀ (s : SiteRow) (i : Nat) (hi : i < methods.length) (x : Rat),
      groupsOf tables methods G Gm files s ≠ [] →
      (equipFor files s (findType files s)).Integral →
      (resolve [typeGet (typeRowOf files s) (methods[i] ++ tables.eqCostKey),
                s.cells.get? (methods[i] ++ tables.eqCostKey)] (gmVal tables Gm (methods[i], tables.eqCostKey)) = .num x →
        NoGroupOverride (groupsOf tables methods G Gm files s) (methods[i] ++ tables.eqCostKey) →
        (buildSite tables methods G Gm files s).cost.getD i .nul = .num x) ∧
      (resolve [typeGet (typeRowOf files s) (methods[i] ++ tables.eqTimeKey),
                s.cells.get? (methods[i] ++ tables.eqTimeKey)] (gmVal tables Gm (methods[i], tables.eqTimeKey)) = .num x →
        NoGroupOverride (groupsOf tables methods G Gm files s) (methods[i] ++ tables.eqTimeKey) →
        (buildSite tables methods G Gm files s).time.getD i none = some (roundHalfEven x))) ∧
    -- (4) the sites of the world and their structure
    (∀ (picks : List Nat) (n : Nat), ValidPicks files.sites.length n picks →
      (buildWorld tables methods G Gm files picks).length = n ∧
      (buildWorld tables methods G Gm files picks).map (fun s => (s.sid, s.stype))
        = picks.map (fun i => ((files.sites.getD i default).sid, (files.sites.getD i default).stype)) ∧
      ((files.sites.map (·.sid)).Nodup → ((buildWorld tables methods G Gm files picks).map (·.sid)).Nodup)) ∧
    (∀ (s : SiteRow),
      (∀ raw, equipFor files s (findType files s) = .named raw →
        (buildSite tables methods G Gm files s).groups.map (·.gid) = splitEquip raw) ∧
      (∀ q, equipFor files s (findType files s) = .count q →
        (buildSite tables methods G Gm files s).groups.map (·.gid)
          = if q = 0 then ["0"] else (List.range q.floor.toNat).map toString) ∧
      ((buildSite tables methods G Gm files s).groups.map (fun g => g.comps.length)).sum
        = ((groupsOf tables methods G Gm files s).map (fun g => totalComponents tables g.2.1)).sum) ∧
    (∀ (T : Option Row) (S E : Row) (nG : Rat) (gid : String),
      (groupAt tables methods files G Gm T S gid E nG).comps.map (·.cid)
        = (cleanedCells tables E).flatMap (fun c =>
            (List.range (cellCount c.2)).map (fun i => compType c.1 ++ "_" ++ toString i)) ∧
      ((groupAt tables methods files G Gm T S gid E nG).comps.map (fun c => c.sources.length)).sum
        = ((cleanedCells tables E).map (fun col => cellCount col.2 *
            (componentSources tables methods files (compType col.1) (compCtx tables methods G Gm T S E nG)
              (groupCtx tables methods G Gm T S E nG).2).length)).sum) ∧
    (∀ (ty : String) (d : Dict String) (m : Dict MKey) (rows : List SrcRow), files.sources = some rows →
      ty ≠ "Placeholder" → ty ≠ "Placeholder_Rep" → ty ≠ "Placeholder_NonRep" →
      (componentSources tables methods files ty d m).length = rows.countP (fun r => r.comp = ty) ∧
      (componentSources tables methods files ty d m).map (fun s => (s.sid, s.rep))
        = (rows.filter (fun r => r.comp = ty)).map (fun r => (r.sid, r.rep))) ∧
    (∀ (d : Dict String) (m : Dict MKey),
      (componentSources tables methods files "Placeholder" d m).map (fun s => (s.sid, s.rep))
        = [("Placeholder_Rep", true), ("Placeholder_NonRep", false)] ∧
      (componentSources tables methods files "Placeholder_Rep" d m).map (fun s => (s.sid, s.rep))
        = [("Placeholder_Rep", true)] ∧
      (componentSources tables methods files "Placeholder_NonRep" d m).map (fun s => (s.sid, s.rep))
        = [("Placeholder_NonRep", false)])

theorem C15 : C15_statement := by
  intro methods G Gm files
  have hw := tables_wf
  have hsh := tables_placeholder_shared_dict
  have hn := tables_placeholder_names
  have hd : compType tables.placeholderRep ≠ compType tables.placeholderBoth
      ∧ compType tables.placeholderNonRep ≠ compType tables.placeholderBoth
      ∧ compType tables.placeholderNonRep ≠ compType tables.placeholderRep := by
    rw [hn.2.1, hn.2.2.1, hn.2.2.2]; decide
  refine ⟨?_, ?_, ?_, ?_, ?_, ?_, ?_, ?_, ?_, ?_, ?_⟩
  · intro T S E R nG sid rep
    exact source_spec tables hw methods G Gm T S E R nG sid rep
  · intro T S E nG gid ty m
    exact ⟨fun s hs => mem_componentSources tables hw hsh methods files G Gm T S E nG ty m s hs,
      observed_component_rate tables hw hsh methods files G Gm T S gid E nG⟩
  · intro s
    refine ⟨buildSite_groups tables methods G Gm files s, ?_, site_most_granular_wins tables hw methods G Gm files s⟩
    intro g hg
    have hsp := group_survey_spec tables hw methods files G Gm (typeRowOf files s) s.cells g.1 g.2.1 g.2.2
    simp only at hsp
    exact ⟨hsp.1, hsp.2.1, hsp.2.2, fun hint => siteGroups_divisor _ _ _ _ hint g hg⟩
  · intro s x hx hgs hint hcomp hsite hno pick hpick
    exact site_source_rates_conserved tables hw hsh methods G Gm files s x hx hsite hgs hint hno hcomp pick hpick
  · intro s x hx hgs hint hcomp hsite hno
    exact site_production_rate_conserved_nonrep tables hw methods G Gm files s x hx hsite hgs hint hno hcomp
  · intro s i hi x hgs hint
    exact ⟨fun hsite hno => site_cost_conserved tables hw methods G Gm files s i hi x hsite hgs hint hno,
      fun hsite hno => site_time_conserved tables hw methods G Gm files s i hi x hsite hgs hint hno⟩
  · intro picks n hv
    exact ⟨site_count tables methods G Gm files picks n hv, site_ids tables methods G Gm files picks,
      site_ids_distinct tables methods G Gm files picks n hv⟩
  · intro s
    exact ⟨fun raw h => structure_groups_named tables methods G Gm files s raw h,
      fun q h => structure_groups_numeric tables methods G Gm files s q h,
      site_component_count tables methods G Gm files s⟩
  · intro T S E nG gid
    exact ⟨(structure_components tables methods files G Gm T S gid E nG).1,
      group_source_count tables methods files G Gm T S gid E nG⟩
  · intro ty d m rows hrows h1 h2 h3
    exact component_source_count_file tables methods files ty d m rows hrows
      (by rw [hn.2.1]; exact h1) (by rw [hn.2.2.1]; exact h2) (by rw [hn.2.2.2]; exact h3)
  · intro d m
    have := structure_sources_placeholder tables methods files d m hd
    rw [hn.2.1, hn.2.2.1, hn.2.2.2] at this
    refine ⟨this.1, ?_, ?_⟩
    · rw [this.2.1]; rfl
    · rw [this.2.2]; rfl

/-! ## non-vacuity: a concrete world in which several levels specify the same parameters -/

private def exFiles : Files :=
  { hasTypes := true,
    types := [{ name := "A", equip := .named "e1;e2",
                cells := [("repairable_duration", .tok 10), ("M_survey_time", .num 90),
                          ("M_surveys_per_year", .tok 31)] }],
    sitesHaveEquip := false, typesHaveEquip := true,
    sites := [{ sid := "7", stype := "A", equip := .bad,
                cells := [("repairable_duration", .tok 11),
                          ("repairable_emissions_production_rate", .num (3 / 8)),
                          ("M_site_deployment", .tok 0)] },
              { sid := "9", stype := "A", equip := .bad, cells := [] }],
    equipment := [{ name := "e1", cells := [("c1", .num 2), ("c2", .num 1), ("repairable_duration", .tok 12),
                                            ("M_spatial", .tok 41)] },
                  { name := "e2", cells := [("c1", .num 1), ("c2", .num 1)] }],
    sources := some [{ comp := "c1", sid := "s1", rep := true, cells := [("duration", .tok 13)] },
                     { comp := "c2", sid := "s2", rep := true, cells := [] },
                     { comp := "c1", sid := "s3", rep := false, cells := [("M_spatial", .tok 42)] }] }

private def exG : Dict String :=
  [("repairable_duration", .tok 9), ("non_repairable_duration", .tok 8),
   ("repairable_emissions_production_rate", .num (1 / 4)),
   ("non_repairable_emissions_production_rate", .num (1 / 8)),
   ("repairable_emissions_rate_source", .tok 20), ("non_repairable_emissions_rate_source", .tok 21),
   ("repairable_repair_delay", .tok 22), ("repairable_repair_cost", .tok 23),
   ("repairable_multiple_emissions_per_source", .tok 1),
   ("non_repairable_multiple_emissions_per_source", .tok 0)]

private def exGm : Dict MKey :=
  [(("M", "_survey_time"), .num 60), (("M", "_survey_cost"), .num 25), (("M", "_spatial"), .tok 40),
   (("M", "_temporal"), .tok 43), (("M", "_surveys_per_year"), .tok 30), (("M", "_deploy_month"), .tok 44),
   (("M", "_deploy_year"), .tok 45)]

private def exWorld : List SiteEff := buildWorld tables ["M"] exG exGm exFiles [1, 0]

/-- two distinct sites in the sampled order; the site row beats the site type row beats the method file
(frequency 31 from the type, deployment switched off by the site row only at site 7); survey time 90
from the type row is split 45 + 45 and adds back up, survey cost 25 likewise -/
example :
    exWorld.map (·.sid) = ["9", "7"] ∧ exWorld.map (·.freq) = [[.tok 31], [.tok 31]] ∧
    exWorld.map (·.deploy) = [[.tru], [.tok 0]] ∧ exWorld.map (·.time) = [[some 90], [some 90]] ∧
    exWorld.map (·.cost) = [[.num 25], [.num 25]] ∧
    exWorld.map (fun s => s.groups.map (fun g => (g.gid, g.times, g.comps.map (·.cid))))
      = [[("e1", [.num 45], ["c1_0", "c1_1", "c2_0"]), ("e2", [.num 45], ["c1_0", "c2_0"])],
         [("e1", [.num 45], ["c1_0", "c1_1", "c2_0"]), ("e2", [.num 45], ["c1_0", "c2_0"])]] := by
  decide +kernel

/-- site 7: source s1 specifies its duration itself (13) wherever it sits; source s3 (non-repairable)
inherits the global 8; source s2 gets the equipment row's 12 in group e1 and, in group e2 where nobody
below the site specifies the repairable duration, the site row's 11 (not the type's 10, not the
global 9); the site's production rate 3/8 is split over 2 groups and 3 resp. 2 components; coverage:
source row over equipment row over method file -/
example :
    (exWorld.getD 1 default).groups.map (fun g => g.comps.map (fun c => c.sources.map (fun r => (r.sid, r.dur))))
      = [[[("s1", .tok 13), ("s3", .tok 8)], [("s1", .tok 13), ("s3", .tok 8)], [("s2", .tok 12)]],
         [[("s1", .tok 13), ("s3", .tok 8)], [("s2", .tok 11)]]] ∧
    (exWorld.getD 1 default).groups.map (fun g => g.comps.map (fun c => c.sources.map (fun r => r.epr)))
      = [[[.num (1 / 16), .num (1 / 48)], [.num (1 / 16), .num (1 / 48)], [.num (1 / 16)]],
         [[.num (3 / 32), .num (1 / 32)], [.num (3 / 32)]]] ∧
    (exWorld.getD 1 default).groups.map (fun g => g.comps.map (fun c => c.sources.map (fun r => r.spatial)))
      = [[[[.tok 41], [.tok 42]], [[.tok 41], [.tok 42]], [[.tok 41]]], [[[.tok 40], [.tok 42]], [[.tok 40]]]] := by
  decide +kernel

/-- the hypotheses of the conservation theorems are satisfiable (site 7: rate 3/8, no equipment-level
override, every group has components) and the component rates do add up to 3/8 -/
example :
    groupsOf tables ["M"] exG exGm exFiles (exFiles.sites.getD 0 default) ≠ [] ∧
    (∀ g ∈ groupsOf tables ["M"] exG exGm exFiles (exFiles.sites.getD 0 default),
        g.2.1.get? tables.eqRepEpr = none ∧ totalComponents tables g.2.1 ≠ 0) ∧
    ((exWorld.getD 1 default).groups.map (fun g => (g.comps.map (fun c => numOf c.repRate)).sum)).sum = 3 / 8 := by
  decide +kernel

/-- numeric equipment: rate 1/100 → ⌈7.3⌉ = 8 placeholder components, 3 groups of ⌈8/3⌉ = 3 -/
example :
    (siteGroups tables exFiles (.count 3) [("repairable_emissions_production_rate", .num (1 / 100))]).map
        (fun g => (g.1, g.2.1, g.2.2))
      = [("0", [("Placeholder_Rep_Equipment", .num 3)], 3), ("1", [("Placeholder_Rep_Equipment", .num 3)], 3),
         ("2", [("Placeholder_Rep_Equipment", .num 3)], 3)] := by
  decide +kernel

/-! ## what is *not* conserved in the code as it stands (recorded findings) -/

/-- the conservation clause without the two guards of `C15_statement` (3): any non-negative site rate,
any equipment cell, any equipment rows -/
def ConservationUnguarded : Prop :=
  ∀ (methods : List String) (G : Dict String) (Gm : Dict MKey) (files : Files) (s : SiteRow) (x : Rat),
    0 ≤ x → groupsOf tables methods G Gm files s ≠ [] →
    resolve [typeGet (typeRowOf files s) tables.eqRepEpr, s.cells.get? tables.eqRepEpr]
        (G.get tables.eqRepEpr) = .num x →
    NoGroupOverride (groupsOf tables methods G Gm files s) tables.eqRepEpr →
    ((buildSite tables methods G Gm files s).groups.map
      (fun g => (g.comps.map (fun c => numOf c.repRate)).sum)).sum = x

private def exEmptyGroup : Files :=
  { exFiles with equipment := [{ name := "e1", cells := [("c1", .num 2), ("c2", .num 1)] },
                               { name := "e2", cells := [("c1", .num 0), ("c2", .num 0)] }] }

/-- known finding: an equipment group without components takes its `1/k` share of the site's
production rate with it (site 7: rate 3/8 over groups e1 (3 components) and e2 (none): the components
carry 3/16 in total) -/
theorem conservation_counterexample_empty_group : ¬ ConservationUnguarded := by
  intro h
  have := h ["M"] exG exGm exEmptyGroup (exEmptyGroup.sites.getD 0 default) (3 / 8) (by decide +kernel)
    (by decide +kernel) (by decide +kernel) (by decide +kernel)
  revert this
  decide +kernel

private def exFractional : Files :=
  { exFiles with sitesHaveEquip := true,
                 sites := [{ sid := "7", stype := "A", equip := .count (5 / 2),
                             cells := [("repairable_emissions_production_rate", .num (1 / 100))] }] }

/-- known finding: a non-integer number in the equipment cell (2.5) creates `int(2.5) = 2` groups but
divides by 2.5 (site rate 1/100: ⌈7.3⌉ = 8 placeholder components, 2 groups of ⌈8/2.5⌉ = 4, each
component 1/1000: 8/1000 in total) -/
theorem conservation_counterexample_fractional_equipment : ¬ ConservationUnguarded := by
  intro h
  have := h ["M"] exG exGm exFractional (exFractional.sites.getD 0 default) (1 / 100) (by decide +kernel)
    (by decide +kernel) (by decide +kernel) (by decide +kernel)
  revert this
  decide +kernel

/-- … and the survey time of that site: 90 minutes from the site type, two groups of 90/2.5 = 36 -/
example : (buildSite tables ["M"] exG exGm exFractional (exFractional.sites.getD 0 default)).time = [some 72] := by
  decide +kernel

/-- Python `round`: ties to even -/
example : roundHalfEven (5 / 2) = 2 ∧ roundHalfEven (7 / 2) = 4 ∧ roundHalfEven (-5 / 2) = -2 ∧
    roundHalfEven (9 / 4) = 2 ∧ roundHalfEven (11 / 4) = 3 := by decide +kernel

end LdarModel.Propagate
