import LdarModel.Model.Propagate
import LdarModel.Generated.Levels
namespace LdarModel.Propagate
theorem stub_tmp : True := trivial
end LdarModel.Propagate
