import LdarModel.Lemmas.Propagate
import LdarModel.Generated.Levels
/-
C15 — virtual-world parameters: most granular level wins, site totals are conserved.
-/
namespace LdarModel.Propagate
open LdarModel.Generated.Levels

theorem tables_same_key_every_level : tables.SameKeys := by decide
theorem tables_scaled_entries : tables.ScaleOK := by decide
theorem tables_pops : tables.PopsOK := by decide
theorem tables_unprefix_rule : tables.UnprefixOK := by decide

end LdarModel.Propagate
