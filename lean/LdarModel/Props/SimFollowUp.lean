import LdarModel.Props.Sim
import LdarModel.Props.C09
/-
C09 lifted to the integrated simulation model (`Model/Sim.lean`).

For the follow-up method at program position `fu`, `sysOf` collects what `FollowUp.Sys` is made of: the
screening states (candidate pool, detection records, flag events …) of the screening methods bound to
`fu`, in program order, and the follow-up schedule of `fu` carrying the sites' latest tagging survey
dates.  `postStep_sys` shows that the step of *any* method of the program changes this system by a list
of `FollowUp.Op`s — tagging surveys (`tag`) for routine methods and other follow-up methods, `screen …`
+ `update` for a screening method bound to `fu`, `fuDay` for `fu` itself, nothing for screening methods
bound elsewhere — and that the dates of these operations never go backwards.

  `sim_followup_runSys`   the system after N days of `simRun` = `FollowUp.runSys ps cap ops`, ops well dated
  `sim_followup_run1`     one screening method: = `FollowUp.run1 p cap ops`, `WellDated`
  `sim_flags_any_methods` C09_flags_any_methods + C09_done_le_flags_any_methods in the integrated simulation
  `sim_c09_single`        one_outstanding, queue_entries_flagged, queued_implies_flagged, not_before_reporting_delay
  `sim_proportion`        proportion_history
-/
namespace LdarModel.Sim
open LdarModel FollowUp

/-- the two fields of a screening state that the follow-up operations of a day never change
(the date of the last update is set at the start of `dailyUpdate` only) -/
def Frame (a b : FollowUp.St) : Prop := a.m.today = b.m.today ∧ a.sh.latestTag = b.sh.latestTag

theorem frame_refl (a : FollowUp.St) : Frame a a := ⟨rfl, rfl⟩
theorem frame_trans {a b c : FollowUp.St} (h1 : Frame a b) (h2 : Frame b c) : Frame a c :=
  ⟨h1.1.trans h2.1, h1.2.trans h2.2⟩

theorem flagSite_frame (cls : Nat) (pl : Plan) (r : Route) (d first : Int) (st : FollowUp.St) :
    Frame (flagSite cls pl r d first st) st := ⟨rfl, rfl⟩

theorem updMobile_frame (p : FollowUp.Params) (d dc : Int) (r : FollowUp.Rec) (st : FollowUp.St) : Frame (updMobile p d dc r st) st := by
  unfold updMobile Frame
  split
  · split
    · exact ⟨rfl, rfl⟩
    · simp only []
      split
      · exact ⟨rfl, rfl⟩
      · split <;> exact ⟨rfl, rfl⟩
  · split
    · split
      · exact ⟨rfl, rfl⟩
      · simp only []
        split
        · exact ⟨rfl, rfl⟩
        · split <;> exact ⟨rfl, rfl⟩
    · split
      · exact ⟨rfl, rfl⟩
      · split
        · exact ⟨rfl, rfl⟩
        · split <;> exact ⟨rfl, rfl⟩

theorem updStationary_frame (p : FollowUp.Params) (d dc : Int) (r : FollowUp.Rec) (st : FollowUp.St) :
    Frame (updStationary p d dc r st) st := by
  unfold updStationary Frame
  split
  · split
    · exact ⟨rfl, rfl⟩
    · simp only []
      split <;> exact ⟨rfl, rfl⟩
  · split
    · split
      · exact ⟨rfl, rfl⟩
      · simp only []
        split <;> exact ⟨rfl, rfl⟩
    · exact ⟨rfl, rfl⟩

theorem processRec_frame (p : FollowUp.Params) (d dc : Int) (st : FollowUp.St) (r : FollowUp.Rec) : Frame (processRec p d dc st r) st := by
  unfold processRec
  split
  · split
    · exact frame_trans (updStationary_frame ..) ⟨rfl, rfl⟩
    · exact frame_trans (updMobile_frame ..) ⟨rfl, rfl⟩
  · exact frame_refl _

theorem foldl_frame {α} (f : FollowUp.St → α → FollowUp.St) (hf : ∀ s a, Frame (f s a) s) (l : List α) (s : FollowUp.St) :
    Frame (l.foldl f s) s := by
  induction l generalizing s with
  | nil => exact frame_refl _
  | cons a l ih => exact frame_trans (ih _) (hf s a)

theorem flagOne_frame (p : FollowUp.Params) (d first : Int) (st : FollowUp.St) (pl : Plan) : Frame (flagOne p d first st pl) st := by
  unfold flagOne
  split
  · exact ⟨rfl, rfl⟩
  · exact frame_trans (flagSite_frame ..) ⟨rfl, rfl⟩

theorem decideNow_frame (p : FollowUp.Params) (d first : Int) (st : FollowUp.St) : Frame (decideNow p d first st) st := by
  unfold decideNow
  exact frame_trans (foldl_frame _ (flagOne_frame p d first) _ _) ⟨rfl, rfl⟩

theorem updateCandidates_frame (p : FollowUp.Params) (d : Int) (st : FollowUp.St) : Frame (updateCandidates p d st) st := by
  unfold updateCandidates
  repeat' split
  all_goals first | exact frame_refl _ | exact ⟨rfl, rfl⟩ | exact frame_trans (decideNow_frame ..) ⟨rfl, rfl⟩

theorem dailyUpdate_frame (p : FollowUp.Params) (d : Int) (st : FollowUp.St) :
    (dailyUpdate p d st).m.today = d ∧ (dailyUpdate p d st).sh.latestTag = st.sh.latestTag := by
  unfold dailyUpdate
  simp only
  generalize hst0 : ({ m := { st.m with records := st.m.records.filter (fun r => r.date ≠ d - p.rd), today := d, nflags := 0 }, sh := st.sh } : FollowUp.St) = st0
  have h0 : st0.m.today = d ∧ st0.sh.latestTag = st.sh.latestTag := by subst hst0; exact ⟨rfl, rfl⟩
  have h := frame_trans (updateCandidates_frame p d ((st.m.records.filter (fun r => r.date = d - p.rd)).foldl (processRec p d (d - p.rd)) st0))
    (foldl_frame _ (processRec_frame p d (d - p.rd)) _ st0)
  exact ⟨h.1.trans h0.1, h.2.trans h0.2⟩


/-! ### generic facts about `FollowUp.Sys` histories -/

theorem withTag_withTag (sh : Shared) (a b : Nat → Int) : withTag (withTag sh a) b = withTag sh b := rfl
theorem withTag_latestTag (sh : Shared) (a : Nat → Int) : (withTag sh a).latestTag = a := rfl
theorem withTag_self (sh : Shared) (a : Nat → Int) (h : sh.latestTag = a) : withTag sh a = sh := by
  subst h; rfl

theorem applyOutcome_latestTag (d : Int) (outs : Nat → Outcome) (sh : Shared) (pl : Plan) :
    (applyOutcome d outs sh pl).latestTag = sh.latestTag ∨
    (applyOutcome d outs sh pl).latestTag = setI sh.latestTag pl.site d := by
  unfold applyOutcome
  simp only []
  split
  · right; rfl
  · left; rfl
  · left; rfl

theorem foldl_applyOutcome_latestTag (d : Int) (outs : Nat → Outcome) (pls : List Plan) (sh : Shared) :
    ∃ l : List Nat, (pls.foldl (applyOutcome d outs) sh).latestTag = l.foldl (fun f s => setI f s d) sh.latestTag := by
  induction pls generalizing sh with
  | nil => exact ⟨[], rfl⟩
  | cons pl pls ih =>
    obtain ⟨l, hl⟩ := ih (applyOutcome d outs sh pl)
    simp only [List.foldl_cons]
    rcases applyOutcome_latestTag d outs sh pl with h | h
    · exact ⟨l, by rw [hl, h]⟩
    · exact ⟨pl.site :: l, by rw [hl, h]; rfl⟩

theorem followUpDay_latestTag (cap : Nat) (d : Int) (outs : Nat → Outcome) (sh : Shared) :
    ∃ l : List Nat, (followUpDay cap d outs sh).latestTag = l.foldl (fun f s => setI f s d) sh.latestTag := by
  unfold followUpDay
  exact foldl_applyOutcome_latestTag d outs _ _

def tagOps (l : List Nat) (d : Int) : List FollowUp.Op := l.map (fun s => FollowUp.Op.tag s d)

theorem foldl_tagOps (ps : List FollowUp.Params) (cap : Nat) (d : Int) (l : List Nat) (sy : Sys) :
    (tagOps l d).foldl (stepSys ps cap) sy =
      { sy with sh := withTag sy.sh (l.foldl (fun f s => setI f s d) sy.sh.latestTag) } := by
  induction l generalizing sy with
  | nil => rfl
  | cons s l ih =>
    simp only [tagOps, List.map_cons, List.foldl_cons] at ih ⊢
    rw [ih]
    rfl

theorem wellDatedSys_append (ps : List FollowUp.Params) (cap : Nat) (a b : List FollowUp.Op) (sy : Sys) :
    wellDatedSys ps cap sy (a ++ b) = (wellDatedSys ps cap sy a && wellDatedSys ps cap (a.foldl (stepSys ps cap) sy) b) := by
  induction a generalizing sy with
  | nil => simp [wellDatedSys]
  | cons op a ih =>
    simp only [List.cons_append, wellDatedSys, List.foldl_cons, ih, Bool.and_assoc]

theorem wellDatedSys_tagOps (ps : List FollowUp.Params) (cap : Nat) (d : Int) (l : List Nat) (sy : Sys) :
    wellDatedSys ps cap sy (tagOps l d) = true := by
  induction l generalizing sy with
  | nil => rfl
  | cons s l ih =>
    simp only [tagOps, List.map_cons, wellDatedSys, Bool.true_and] at ih ⊢
    exact ih _

def screenOps (j : Nat) (n : Nat) (dones : List Done) : List FollowUp.Op :=
  dones.map (fun d => FollowUp.Op.screen j d.sv.site ((d.rep.measured : Int) : Rat) (n : Int))

theorem foldl_screenOps (ps : List FollowUp.Params) (cap : Nat) (j n : Nat) (dones : List Done) (sy : Sys)
    (m : MState) (hm : sy.ms[j]? = some m) :
    (screenOps j n dones).foldl (stepSys ps cap) sy =
      { sy with ms := sy.ms.set j (dones.foldl (fun s d => FollowUp.screen (recOfDone n d) s) m) } := by
  induction dones generalizing sy m with
  | nil =>
    simp only [screenOps, List.map_nil, List.foldl_nil]
    have : sy.ms.set j m = sy.ms := by
      apply List.ext_getElem?
      intro i
      rw [List.getElem?_set]
      by_cases h : j = i
      · subst h
        obtain ⟨hl, hv⟩ := List.getElem?_eq_some_iff.1 hm
        simp [hl, hv]
      · simp [h]
    rw [this]
  | cons d dones ih =>
    simp only [screenOps, List.map_cons, List.foldl_cons] at ih ⊢
    have hl : j < sy.ms.length := (List.getElem?_eq_some_iff.1 hm).1
    have hstep : stepSys ps cap sy (FollowUp.Op.screen j d.sv.site ((d.rep.measured : Int) : Rat) (n : Int)) =
        { sy with ms := sy.ms.set j (FollowUp.screen (recOfDone n d) m) } := by
      simp only [stepSys, hm]
      rfl
    rw [hstep, ih _ (FollowUp.screen (recOfDone n d) m) (by simp [hl])]
    simp [List.set_set]

theorem wellDatedSys_screenOps (ps : List FollowUp.Params) (cap : Nat) (j n : Nat) (dones : List Done) (sy : Sys) :
    wellDatedSys ps cap sy (screenOps j n dones) = true := by
  induction dones generalizing sy with
  | nil => rfl
  | cons d dones ih =>
    simp only [screenOps, List.map_cons, wellDatedSys, Bool.true_and] at ih ⊢
    exact ih _

theorem foldl_screen_today (n : Nat) (dones : List Done) (m : MState) :
    (dones.foldl (fun s d => FollowUp.screen (recOfDone n d) s) m).today = m.today := by
  induction dones generalizing m with
  | nil => rfl
  | cons d dones ih => simp only [List.foldl_cons]; rw [ih]; rfl


/-! ### the screening methods bound to one follow-up method, and the `Sys` state they form -/

/-- program positions (from `m0`) and configurations of the screening methods bound to position `fu` -/
def screeners (fu : Nat) : Nat → List MethodCfg → List (Nat × MethodCfg)
  | _, [] => []
  | m0, c :: cs =>
    if c.role = .screen fu then (m0, c) :: screeners fu (m0 + 1) cs else screeners fu (m0 + 1) cs

theorem screeners_mem (fu : Nat) : ∀ (cs : List MethodCfg) (m0 : Nat) (x : Nat × MethodCfg),
    x ∈ screeners fu m0 cs → m0 ≤ x.1 ∧ cs[x.1 - m0]? = some x.2 ∧ x.2.role = .screen fu := by
  intro cs
  induction cs with
  | nil => intro m0 x h; cases h
  | cons c cs ih =>
    intro m0 x h
    simp only [screeners] at h
    split at h
    · rename_i hc
      rcases List.mem_cons.1 h with rfl | h
      · exact ⟨Nat.le_refl _, by simp, hc⟩
      · obtain ⟨h1, h2, h3⟩ := ih (m0 + 1) x h
        refine ⟨by omega, ?_, h3⟩
        have : x.1 - m0 = (x.1 - (m0 + 1)) + 1 := by omega
        rw [this]; simpa using h2
    · obtain ⟨h1, h2, h3⟩ := ih (m0 + 1) x h
      refine ⟨by omega, ?_, h3⟩
      have : x.1 - m0 = (x.1 - (m0 + 1)) + 1 := by omega
      rw [this]; simpa using h2

theorem screeners_idx (fu : Nat) : ∀ (cs : List MethodCfg) (m0 k : Nat) (c : MethodCfg),
    m0 ≤ k → cs[k - m0]? = some c → c.role = .screen fu → ∃ j : Nat, (screeners fu m0 cs)[j]? = some (k, c) := by
  intro cs
  induction cs with
  | nil => intro m0 k c _ h; simp at h
  | cons c0 cs ih =>
    intro m0 k c hle h hr
    by_cases hk : k = m0
    · subst hk
      simp only [Nat.sub_self, List.getElem?_cons_zero, Option.some.injEq] at h
      subst h
      exact ⟨0, by simp [screeners, hr]⟩
    · have e : k - m0 = (k - (m0 + 1)) + 1 := by omega
      rw [e] at h
      simp only [List.getElem?_cons_succ] at h
      obtain ⟨j, hj⟩ := ih (m0 + 1) k c (by omega) h hr
      simp only [screeners]
      split
      · exact ⟨j + 1, by simpa using hj⟩
      · exact ⟨j, hj⟩

theorem screeners_pairwise (fu : Nat) : ∀ (cs : List MethodCfg) (m0 : Nat),
    (screeners fu m0 cs).Pairwise (fun a b => a.1 ≠ b.1) := by
  intro cs
  induction cs with
  | nil => intro m0; exact List.Pairwise.nil
  | cons c cs ih =>
    intro m0
    simp only [screeners]
    split
    · refine List.Pairwise.cons ?_ (ih (m0 + 1))
      intro b hb
      have := (screeners_mem fu cs (m0 + 1) b hb).1
      simp only; omega
    · exact ih (m0 + 1)

theorem map_set_of_unique {α β} (key : α → Nat) (f f' : α → β) : ∀ (L : List α) (j : Nat) (a : α),
    L.Pairwise (fun x y => key x ≠ key y) → L[j]? = some a → (∀ b ∈ L, key b ≠ key a → f' b = f b) →
    L.map f' = (L.map f).set j (f' a) := by
  intro L
  induction L with
  | nil => intro j a _ h; simp at h
  | cons x xs ih =>
    intro j a hp hj hag
    rw [List.pairwise_cons] at hp
    cases j with
    | zero =>
      simp only [List.getElem?_cons_zero, Option.some.injEq] at hj
      subst hj
      simp only [List.map_cons, List.set_cons_zero, List.cons.injEq, true_and]
      apply List.map_congr_left
      intro b hb
      exact hag b (List.mem_cons_of_mem _ hb) (fun h => hp.1 b hb h.symm)
    | succ j =>
      simp only [List.getElem?_cons_succ] at hj
      have ha : a ∈ xs := List.mem_of_getElem? hj
      simp only [List.map_cons, List.set_cons_succ, List.cons.injEq]
      refine ⟨hag x (List.mem_cons_self ..) (hp.1 a ha), ?_⟩
      exact ih j a hp.2 hj (fun b hb => hag b (List.mem_cons_of_mem _ hb))

theorem map_eq_of_no_key {α β} (key : α → Nat) (f f' : α → β) (L : List α) (k : Nat)
    (hk : ∀ b ∈ L, key b ≠ k) (hag : ∀ b ∈ L, key b ≠ k → f' b = f b) : L.map f' = L.map f :=
  List.map_congr_left (fun b hb => hag b hb (hk b hb))

/-- the parameters of the screening methods bound to `fu`, in program order -/
def psOf (fu : Nat) (prog : Program) : List FollowUp.Params := (screeners fu 0 prog).map (·.2.fup)

def scrList (fu : Nat) (prog : Program) (ms : List MethSt) : List MState :=
  (screeners fu 0 prog).map (fun kc => (ms.getD kc.1 {}).scr)

/-- the `FollowUp.Sys` formed by the follow-up method at position `fu` and the screening methods bound
to it: their candidate pools / records, and the follow-up schedule with the sites' latest tagging
survey dates -/
def sysOf (fu : Nat) (prog : Program) (ms : List MethSt) (lt : Nat → Int) : Sys :=
  { ms := scrList fu prog ms, sh := withTag (ms.getD fu {}).sh lt }


/-! ### what one method's step does to the screening / follow-up state of every position -/

/-- the screening state a site-level method hands to its `update` -/
def scrIn (n : Nat) (dones : List Done) (me : MethSt) : MState :=
  dones.foldl (fun s d => FollowUp.screen (recOfDone n d) s) me.scr

/-- `SiteLevelMethod.update` of the method at position `k` bound to position `fu'` -/
def screenUpd (c : MethodCfg) (n k fu' : Nat) (ms : List MethSt) (lt : Nat → Int) (dones : List Done) : FollowUp.St :=
  FollowUp.dailyUpdate c.fup (n : Int) { m := scrIn n dones (ms.getD k {}), sh := withTag (ms.getD fu' {}).sh lt }

theorem postStep_routine (c : MethodCfg) (inp : Inputs) (n k : Nat) (ms : List MethSt) (lt : Nat → Int)
    (pd : PlanDay) (dones : List Done) (hr : c.role = .routine) (x : Nat) :
    ((postStep c inp n k ms lt pd dones).ms.getD x {}).scr = (ms.getD x {}).scr ∧
    ((postStep c inp n k ms lt pd dones).ms.getD x {}).sh = (ms.getD x {}).sh ∧
    (postStep c inp n k ms lt pd dones).latestTag = dones.foldl (fun f d => FollowUp.setI f d.sv.site (n : Int)) lt := by
  simp only [postStep, hr, getD_set]
  by_cases h : k = x ∧ k < ms.length
  · obtain ⟨rfl, _⟩ := h
    simp [*]
  · simp [h]

theorem postStep_followUp (c : MethodCfg) (inp : Inputs) (n k : Nat) (ms : List MethSt) (lt : Nat → Int)
    (pd : PlanDay) (dones : List Done) (hr : c.role = .followUp) (hk : k < ms.length) (x : Nat) :
    ∃ outs, ((postStep c inp n k ms lt pd dones).ms.getD x {}).scr = (ms.getD x {}).scr ∧
    ((postStep c inp n k ms lt pd dones).ms.getD x {}).sh =
      (if k = x then FollowUp.followUpDay (c.crews * c.cap) (n : Int) outs (withTag (ms.getD k {}).sh lt)
       else (ms.getD x {}).sh) ∧
    (postStep c inp n k ms lt pd dones).latestTag =
      (FollowUp.followUpDay (c.crews * c.cap) (n : Int) outs (withTag (ms.getD k {}).sh lt)).latestTag := by
  refine ⟨fun i => match outOf pd.dd i with | some o => fuOutcomeOf o | none => .unattended, ?_⟩
  simp only [postStep, hr, getD_set]
  by_cases h : k = x
  · subst h
    simp [hk]
    exact ⟨rfl, rfl⟩
  · simp [h]
    rfl

theorem postStep_screen (c : MethodCfg) (inp : Inputs) (n k : Nat) (ms : List MethSt) (lt : Nat → Int)
    (pd : PlanDay) (dones : List Done) (fu' : Nat) (hr : c.role = .screen fu') (hk : k < ms.length) (x : Nat) :
    ((postStep c inp n k ms lt pd dones).ms.getD x {}).scr =
      (if k = x then (screenUpd c n k fu' ms lt dones).m else (ms.getD x {}).scr) ∧
    ((postStep c inp n k ms lt pd dones).ms.getD x {}).sh =
      (if fu' = x ∧ fu' < ms.length then (screenUpd c n k fu' ms lt dones).sh else (ms.getD x {}).sh) ∧
    (postStep c inp n k ms lt pd dones).latestTag = lt := by
  simp only [postStep, hr, getD_set, List.length_set, screenUpd, scrIn]
  by_cases h1 : k = x
  · subst h1
    by_cases h5 : fu' = k
    · subst h5; simp [hk]
    · have h5' : ¬ k = fu' := fun h => h5 h.symm
      simp [hk, h5, h5']
  · by_cases h3 : fu' = x
    · subst h3
      by_cases h4 : fu' < ms.length
      · have : ¬ fu' = k := fun h => h1 h.symm
        simp [h1, hk, h4, this]
      · simp [h1, hk, h4]
    · simp [h1, h3]


/-! ### one method's step, seen from the follow-up system of position `fu` -/

/-- no screening state of the system was updated after day `n` -/
def Dated (n : Nat) (sy : Sys) : Prop := ∀ m ∈ sy.ms, m.today ≤ (n : Int)

theorem scrList_congr (fu : Nat) (prog : Program) (ms ms' : List MethSt)
    (h : ∀ x, (ms'.getD x {}).scr = (ms.getD x {}).scr) : scrList fu prog ms' = scrList fu prog ms := by
  unfold scrList
  apply List.map_congr_left
  intro kc _
  exact h kc.1

theorem wellDated_nil (ps : List FollowUp.Params) (cap : Nat) (sy : Sys) : wellDatedSys ps cap sy [] = true := rfl

theorem postStep_sys (prog : Program) (fu : Nat) (cf : MethodCfg) (hfu : prog[fu]? = some cf)
    (hfr : cf.role = .followUp) (inp : Inputs) (n k : Nat) (c : MethodCfg) (ms : List MethSt) (lt : Nat → Int)
    (pd : PlanDay) (dones : List Done) (hk : prog[k]? = some c) (hlen : ms.length = prog.length)
    (hT : Dated n (sysOf fu prog ms lt)) :
    ∃ ops : List FollowUp.Op,
      sysOf fu prog (postStep c inp n k ms lt pd dones).ms (postStep c inp n k ms lt pd dones).latestTag =
        ops.foldl (stepSys (psOf fu prog) (cf.crews * cf.cap)) (sysOf fu prog ms lt) ∧
      wellDatedSys (psOf fu prog) (cf.crews * cf.cap) (sysOf fu prog ms lt) ops = true ∧
      Dated n (sysOf fu prog (postStep c inp n k ms lt pd dones).ms (postStep c inp n k ms lt pd dones).latestTag) := by
  have hkl : k < ms.length := by rw [hlen]; exact (List.getElem?_eq_some_iff.1 hk).1
  have hful : fu < ms.length := by rw [hlen]; exact (List.getElem?_eq_some_iff.1 hfu).1
  cases hr : c.role with
  | routine =>
    have hp := postStep_routine c inp n k ms lt pd dones hr
    refine ⟨tagOps (dones.map (·.sv.site)) (n : Int), ?_, wellDatedSys_tagOps .., ?_⟩
    · rw [foldl_tagOps]
      unfold sysOf
      rw [scrList_congr fu prog ms _ (fun x => (hp x).1), (hp fu).2.1, (hp fu).2.2, List.foldl_map]
      rfl
    · unfold sysOf Dated at *
      rw [scrList_congr fu prog ms _ (fun x => (hp x).1)]
      exact hT
  | followUp =>
    by_cases hkf : k = fu
    · have hc : c = cf := by rw [hkf, hfu] at hk; exact (Option.some.inj hk).symm
      have hp := fun x => (postStep_followUp c inp n k ms lt pd dones hr hkl x)
      obtain ⟨outs, h1, h2, h3⟩ := postStep_followUp c inp n k ms lt pd dones hr hkl fu
      have hscr : ∀ x, ((postStep c inp n k ms lt pd dones).ms.getD x {}).scr = (ms.getD x {}).scr := by
        intro x; obtain ⟨_, hx, _⟩ := hp x; exact hx
      refine ⟨[FollowUp.Op.fuDay (n : Int) outs], ?_, ?_, ?_⟩
      · simp only [List.foldl_cons, List.foldl_nil, stepSys]
        unfold sysOf
        rw [scrList_congr fu prog ms _ hscr, h2, h3]
        simp only [hkf, if_true, hc]
        rfl
      · simp only [wellDatedSys, Bool.and_true, List.all_eq_true, decide_eq_true_eq]
        exact hT
      · unfold sysOf Dated at *
        rw [scrList_congr fu prog ms _ hscr]
        exact hT
    · have hp := fun x => (postStep_followUp c inp n k ms lt pd dones hr hkl x)
      obtain ⟨outs, _, _, h3⟩ := hp fu
      have hscr : ∀ x, ((postStep c inp n k ms lt pd dones).ms.getD x {}).scr = (ms.getD x {}).scr := by
        intro x; obtain ⟨_, hx, _⟩ := hp x; exact hx
      have hsh : ((postStep c inp n k ms lt pd dones).ms.getD fu {}).sh = (ms.getD fu {}).sh := by
        obtain ⟨_, _, hx, _⟩ := hp fu; rw [hx]; simp [hkf]
      obtain ⟨l, hl⟩ := followUpDay_latestTag (c.crews * c.cap) (n : Int) outs (withTag (ms.getD k {}).sh lt)
      refine ⟨tagOps l (n : Int), ?_, wellDatedSys_tagOps .., ?_⟩
      · rw [foldl_tagOps]
        unfold sysOf
        rw [scrList_congr fu prog ms _ hscr, hsh, h3, hl]
        rfl
      · unfold sysOf Dated at *
        rw [scrList_congr fu prog ms _ hscr]
        exact hT
  | screen fu' =>
    have hp := postStep_screen c inp n k ms lt pd dones fu' hr hkl
    by_cases hff : fu' = fu
    · subst hff
      -- the index of this screening method in the system
      obtain ⟨j, hj⟩ := screeners_idx fu' prog 0 k c (Nat.zero_le _) (by simpa using hk) hr
      have hpj : (psOf fu' prog)[j]? = some c.fup := by simp [psOf, hj]
      have hmj : (sysOf fu' prog ms lt).ms[j]? = some (ms.getD k {}).scr := by simp [sysOf, scrList, hj]
      have hkne : k ≠ fu' := by
        intro h; subst h
        rw [hk] at hfu; have := Option.some.inj hfu; subst this
        rw [hr] at hfr; cases hfr
      refine ⟨screenOps j n dones ++ [FollowUp.Op.update j (n : Int)], ?_, ?_, ?_⟩
      · rw [List.foldl_append, foldl_screenOps _ _ _ _ _ _ _ hmj]
        have hjl : j < (sysOf fu' prog ms lt).ms.length := (List.getElem?_eq_some_iff.1 hmj).1
        simp only [List.foldl_cons, List.foldl_nil, stepSys, hpj, List.getElem?_set_self hjl, List.set_set]
        have hst : FollowUp.dailyUpdate c.fup (n : Int)
            { m := dones.foldl (fun s d => FollowUp.screen (recOfDone n d) s) (ms.getD k {}).scr,
              sh := (sysOf fu' prog ms lt).sh } = screenUpd c n k fu' ms lt dones := rfl
        rw [hst]
        unfold sysOf
        simp only [Sys.mk.injEq]
        constructor
        · unfold scrList
          have hm := map_set_of_unique (fun kc : Nat × MethodCfg => kc.1) (fun kc => (ms.getD kc.1 {}).scr)
            (fun kc => ((postStep c inp n k ms lt pd dones).ms.getD kc.1 {}).scr) (screeners fu' 0 prog) j (k, c)
            (screeners_pairwise fu' prog 0) hj
            (by intro b _ hb
                show ((postStep c inp n k ms lt pd dones).ms.getD b.1 {}).scr = (ms.getD b.1 {}).scr
                rw [(hp b.1).1]
                have : ¬ k = b.1 := fun h => hb h.symm
                simp [this])
          rw [hm]
          simp only
          rw [(hp k).1]
          simp
        · rw [(hp fu').2.1, (hp fu').2.2]
          simp only [hful, and_self, if_true]
          apply withTag_self
          exact (dailyUpdate_frame c.fup (n : Int) _).2
      · rw [wellDatedSys_append, wellDatedSys_screenOps, Bool.true_and, foldl_screenOps _ _ _ _ _ _ _ hmj]
        have hjl : j < (sysOf fu' prog ms lt).ms.length := (List.getElem?_eq_some_iff.1 hmj).1
        simp only [wellDatedSys, List.getElem?_set_self hjl, Bool.and_true, decide_eq_true_eq]
        rw [foldl_screen_today]
        exact hT _ (List.mem_of_getElem? hmj)
      · intro m hm
        unfold sysOf scrList at hm
        simp only [List.mem_map] at hm
        obtain ⟨kc, hkc, rfl⟩ := hm
        rw [(hp kc.1).1]
        split
        · unfold screenUpd
          rw [(dailyUpdate_frame c.fup (n : Int) _).1]
        · exact hT _ (List.mem_map.2 ⟨kc, hkc, rfl⟩)
    · -- bound to another follow-up method: this system is not touched
      have hnot : ∀ kc ∈ screeners fu 0 prog, kc.1 ≠ k := by
        intro kc hkc h
        obtain ⟨_, h2, h3⟩ := screeners_mem fu prog 0 kc hkc
        rw [h] at h2
        simp only [Nat.sub_zero] at h2
        rw [hk] at h2
        have := Option.some.inj h2
        rw [← this, hr] at h3
        injection h3 with h3
        exact hff h3
      have hscr : scrList fu prog (postStep c inp n k ms lt pd dones).ms = scrList fu prog ms := by
        unfold scrList
        apply List.map_congr_left
        intro kc hkc
        rw [(hp kc.1).1]
        simp [Ne.symm (hnot kc hkc)]
      have hsh : ((postStep c inp n k ms lt pd dones).ms.getD fu {}).sh = (ms.getD fu {}).sh := by
        rw [(hp fu).2.1]; simp [hff]
      refine ⟨[], ?_, rfl, ?_⟩
      · unfold sysOf
        rw [hscr, hsh, (hp fu).2.2]
        rfl
      · unfold sysOf Dated at *
        rw [hscr]
        exact hT


/-! ### the methods loop, the run -/

theorem methodStep_latestTag (w : World) (inp : Inputs) (n : Nat) (ss : List Emission.State) (acc : Acc) (k : Nat)
    (c : MethodCfg) :
    (methodStep w inp n ss acc k c).latestTag =
      (postStep c inp n k acc.ms acc.latestTag (planDay c inp n k (acc.ms.getD k {}) acc.latestTag)
        (surveyAll w inp n k c ss acc.latestTag acc.covs (planDay c inp n k (acc.ms.getD k {}) acc.latestTag).dd).2).latestTag := rfl

theorem stepMethods_sys (w : World) (prog : Program) (fu : Nat) (cf : MethodCfg) (hfu : prog[fu]? = some cf)
    (hfr : cf.role = .followUp) (inp : Inputs) (n : Nat) (ss : List Emission.State) :
    ∀ (cs : List MethodCfg) (m0 : Nat) (acc : Acc),
    (∀ j, j < cs.length → cs[j]? = prog[m0 + j]?) → acc.ms.length = prog.length →
    Dated n (sysOf fu prog acc.ms acc.latestTag) →
    ∃ ops : List FollowUp.Op,
      sysOf fu prog (stepMethods w inp n ss m0 cs acc).ms (stepMethods w inp n ss m0 cs acc).latestTag =
        ops.foldl (stepSys (psOf fu prog) (cf.crews * cf.cap)) (sysOf fu prog acc.ms acc.latestTag) ∧
      wellDatedSys (psOf fu prog) (cf.crews * cf.cap) (sysOf fu prog acc.ms acc.latestTag) ops = true ∧
      Dated n (sysOf fu prog (stepMethods w inp n ss m0 cs acc).ms (stepMethods w inp n ss m0 cs acc).latestTag) := by
  intro cs
  induction cs with
  | nil => intro m0 acc _ _ hT; exact ⟨[], rfl, rfl, hT⟩
  | cons c cs ih =>
    intro m0 acc hsuf hlen hT
    have hk : prog[m0]? = some c := by
      have := hsuf 0 (by simp)
      simpa using this.symm
    obtain ⟨ops1, h1, hw1, hT1⟩ := postStep_sys prog fu cf hfu hfr inp n m0 c acc.ms acc.latestTag
      (planDay c inp n m0 (acc.ms.getD m0 {}) acc.latestTag)
      (surveyAll w inp n m0 c ss acc.latestTag acc.covs (planDay c inp n m0 (acc.ms.getD m0 {}) acc.latestTag).dd).2
      hk hlen hT
    rw [← methodStep_ms, ← methodStep_latestTag] at h1 hT1
    have hl1 : (methodStep w inp n ss acc m0 c).ms.length = prog.length := by
      rw [methodStep_ms, postStep_length]; exact hlen
    obtain ⟨ops2, h2, hw2, hT2⟩ := ih (m0 + 1) (methodStep w inp n ss acc m0 c)
      (by intro j hj
          have := hsuf (j + 1) (by simp; omega)
          simp only [List.getElem?_cons_succ] at this
          rw [this]; congr 1; omega)
      hl1 hT1
    simp only [stepMethods]
    refine ⟨ops1 ++ ops2, ?_, ?_, hT2⟩
    · rw [h2, h1, List.foldl_append]
    · rw [wellDatedSys_append, hw1, Bool.true_and, ← h1]; exact hw2

theorem sysOf_init (w : World) (prog : Program) (inp : Inputs) (fu : Nat) :
    sysOf fu prog (simState w prog inp 0).ms (simState w prog inp 0).latestTag = initSys (psOf fu prog) := by
  have hget : ∀ x, (List.map (fun _ => ({} : MethSt)) prog).getD x {} = {} := by
    intro x
    simp only [List.getD_eq_getElem?_getD, List.getElem?_map]
    cases prog[x]? <;> rfl
  unfold sysOf scrList initSys psOf
  simp only [simState, init, hget, List.map_map]
  rfl

theorem dated_mono {n n' : Nat} (h : n ≤ n') (sy : Sys) (hd : Dated n sy) : Dated n' sy := by
  intro m hm
  have := hd m hm
  have : (n : Int) ≤ (n' : Int) := by exact_mod_cast h
  omega

/-- **C09 lifted to the integrated simulation, any number of screening methods.**  For the follow-up
method at program position `fu`, the candidate pools / detection records of the screening methods bound
to it (in program order) together with its follow-up schedule and the sites' latest tagging survey
dates are, after `N` simulated days of `simRun`, the state of the component model `FollowUp.runSys`
after a history of screenings, daily updates, follow-up days and tagging surveys whose dates never go
backwards.  Every theorem of C09 about `runSys` (`C09_flags_any_methods`,
`C09_done_le_flags_any_methods`, and for one screening method `C09_partial`) therefore holds of the
integrated simulation. -/
theorem sim_followup_runSys (w : World) (prog : Program) (inp : Inputs) (fu : Nat) (cf : MethodCfg)
    (hfu : prog[fu]? = some cf) (hfr : cf.role = .followUp) (N : Nat) :
    ∃ ops : List FollowUp.Op,
      sysOf fu prog (simState w prog inp N).ms (simState w prog inp N).latestTag =
        runSys (psOf fu prog) (cf.crews * cf.cap) ops ∧
      wellDatedSys (psOf fu prog) (cf.crews * cf.cap) (initSys (psOf fu prog)) ops = true ∧
      Dated N (sysOf fu prog (simState w prog inp N).ms (simState w prog inp N).latestTag) := by
  induction N with
  | zero =>
    refine ⟨[], ?_, rfl, ?_⟩
    · rw [sysOf_init]; rfl
    · rw [sysOf_init]
      intro m hm
      simp only [initSys, List.mem_map] at hm
      obtain ⟨_, _, rfl⟩ := hm
      exact Int.le_refl _
  | succ n ih =>
    obtain ⟨ops, h1, hw, hT⟩ := ih
    have e1 : (simState w prog inp (n + 1)).ms =
        (stepMethods w inp n (actStates w n (simState w prog inp n)) 0 prog
          { ms := (simState w prog inp n).ms, latestTag := (simState w prog inp n).latestTag,
            covs := (simState w prog inp n).covs }).ms := rfl
    have e2 : (simState w prog inp (n + 1)).latestTag =
        (stepMethods w inp n (actStates w n (simState w prog inp n)) 0 prog
          { ms := (simState w prog inp n).ms, latestTag := (simState w prog inp n).latestTag,
            covs := (simState w prog inp n).covs }).latestTag := rfl
    obtain ⟨ops2, h2, hw2, hT2⟩ := stepMethods_sys w prog fu cf hfu hfr inp n (actStates w n (simState w prog inp n))
      prog 0 { ms := (simState w prog inp n).ms, latestTag := (simState w prog inp n).latestTag,
               covs := (simState w prog inp n).covs }
      (by intro j _; simp) (ms_length w prog inp n) hT
    rw [e1, e2]
    refine ⟨ops ++ ops2, ?_, ?_, dated_mono (Nat.le_succ n) _ hT2⟩
    · rw [h2, h1]; unfold runSys; rw [List.foldl_append]
    · rw [wellDatedSys_append, hw, Bool.true_and]
      have : List.foldl (stepSys (psOf fu prog) (cf.crews * cf.cap)) (initSys (psOf fu prog)) ops =
          runSys (psOf fu prog) (cf.crews * cf.cap) ops := rfl
      rw [this, ← h1]; exact hw2


/-! ### one screening method: the system is `FollowUp.run1` -/

/-- an operation of the system as an operation of the single-method machine (operations addressed to
a screening method other than number 0 do nothing in a one-method system) -/
def lower : FollowUp.Op → Option FollowUp.Op1
  | .screen 0 s r d => some (.screen s r d)
  | .screen (_ + 1) _ _ _ => none
  | .update 0 d => some (.update d)
  | .update (_ + 1) _ => none
  | .fuDay d outs => some (.fuDay d outs)
  | .tag s d => some (.tag s d)

theorem stepSys_single (p : FollowUp.Params) (cap : Nat) (st : FollowUp.St) (op : FollowUp.Op) :
    stepSys [p] cap { ms := [st.m], sh := st.sh } op =
      match lower op with
      | some o1 => { ms := [(step1 p cap st o1).m], sh := (step1 p cap st o1).sh }
      | none => { ms := [st.m], sh := st.sh } := by
  cases op with
  | screen i s r d => cases i <;> simp [stepSys, lower, step1]
  | update i d => cases i <;> simp [stepSys, lower, step1]
  | fuDay d outs => simp [stepSys, lower, step1]
  | tag s d => simp [stepSys, lower, step1]

theorem foldl_single (p : FollowUp.Params) (cap : Nat) (ops : List FollowUp.Op) (st : FollowUp.St) :
    ops.foldl (stepSys [p] cap) { ms := [st.m], sh := st.sh } =
      { ms := [((ops.filterMap lower).foldl (step1 p cap) st).m],
        sh := ((ops.filterMap lower).foldl (step1 p cap) st).sh } ∧
    (wellDatedSys [p] cap { ms := [st.m], sh := st.sh } ops = true →
      WellDated p cap st (ops.filterMap lower)) := by
  induction ops generalizing st with
  | nil => exact ⟨rfl, fun _ => rfl⟩
  | cons op ops ih =>
    have hs := stepSys_single p cap st op
    simp only [List.foldl_cons, wellDatedSys, Bool.and_eq_true]
    cases hl : lower op with
    | none =>
      rw [hl] at hs
      rw [hs]
      simp only [List.filterMap_cons, hl]
      exact ⟨(ih st).1, fun h => (ih st).2 h.2⟩
    | some o1 =>
      rw [hl] at hs
      rw [hs]
      simp only [List.filterMap_cons, hl, List.foldl_cons]
      refine ⟨(ih _).1, fun h => ?_⟩
      have h2 := (ih (step1 p cap st o1)).2 h.2
      unfold WellDated wellDated
      rw [Bool.and_eq_true]
      refine ⟨?_, h2⟩
      have h1 := h.1
      cases op with
      | screen i s r d =>
        cases i with
        | zero => simp only [lower, Option.some.injEq] at hl; subst hl; rfl
        | succ i => simp [lower] at hl
      | update i d =>
        cases i with
        | zero => simp only [lower, Option.some.injEq] at hl; subst hl; simpa using h1
        | succ i => simp [lower] at hl
      | fuDay d outs => simp only [lower, Option.some.injEq] at hl; subst hl; simpa using h1
      | tag s d => simp only [lower, Option.some.injEq] at hl; subst hl; rfl

/-- **C09 lifted to the integrated simulation, one screening method.**  If exactly one screening method
(parameters `p`) is bound to the follow-up method at position `fu`, its screening state and the
follow-up schedule are, after `N` simulated days, the state `FollowUp.run1 p cap ops` of the
single-method machine after a well-dated history `ops`: every theorem of C09 about `run1` applies. -/
theorem sim_followup_run1 (w : World) (prog : Program) (inp : Inputs) (fu : Nat) (cf : MethodCfg)
    (hfu : prog[fu]? = some cf) (hfr : cf.role = .followUp) (p : FollowUp.Params) (hp : psOf fu prog = [p]) (N : Nat) :
    ∃ ops : List FollowUp.Op1, WellDated p (cf.crews * cf.cap) {} ops ∧
      (sysOf fu prog (simState w prog inp N).ms (simState w prog inp N).latestTag).ms =
        [(run1 p (cf.crews * cf.cap) ops).m] ∧
      (sysOf fu prog (simState w prog inp N).ms (simState w prog inp N).latestTag).sh =
        (run1 p (cf.crews * cf.cap) ops).sh := by
  obtain ⟨ops, h1, hw, _⟩ := sim_followup_runSys w prog inp fu cf hfu hfr N
  rw [hp] at h1 hw
  have hf := foldl_single p (cf.crews * cf.cap) ops {}
  have hinit : initSys [p] = { ms := [({} : FollowUp.St).m], sh := ({} : FollowUp.St).sh } := rfl
  unfold runSys at h1
  rw [hinit] at h1 hw
  rw [hf.1] at h1
  refine ⟨ops.filterMap lower, hf.2 hw, ?_, ?_⟩
  · rw [h1]; rfl
  · rw [h1]; rfl

/-! ### corollaries: C09's theorems in the integrated simulation -/

/-- the follow-up system of position `fu` after `N` days of the run -/
def fuSys (w : World) (prog : Program) (inp : Inputs) (fu N : Nat) : Sys :=
  sysOf fu prog (simState w prog inp N).ms (simState w prog inp N).latestTag

/-- **any number of screening methods** (what F13 does not break): every flag event of every screening
method of `simRun` stems from released detections of that site by that method, its rate is the
redundancy-filtered rate of those detections and reached the (instant) threshold, never before the
reporting delay (+ delay on the pool route); a flag on the instant route never rests on a screening
older than the site's latest tagging survey; and completed + withdrawn + outstanding follow-up requests
of a site never exceed the number of times it was flagged. -/
theorem sim_flags_any_methods (w : World) (prog : Program) (inp : Inputs) (fu : Nat) (cf : MethodCfg)
    (hfu : prog[fu]? = some cf) (hfr : cf.role = .followUp) (N : Nat) :
    (∀ (i : Nat) (p : FollowUp.Params) (m : MState), (psOf fu prog)[i]? = some p →
        (fuSys w prog inp fu N).ms[i]? = some m →
        ∀ f ∈ m.evs, GoodFlag p m.released m.today f ∧ (f.route = .instant → f.tagAtFlag ≤ f.recDate)) ∧
    (∀ s, (fuSys w prog inp fu N).sh.done s + (fuSys w prog inp fu N).sh.dropped s
        + outstanding (fuSys w prog inp fu N).sh.queue s ≤ (fuSys w prog inp fu N).sh.flags s) := by
  obtain ⟨ops, h1, hw, _⟩ := sim_followup_runSys w prog inp fu cf hfu hfr N
  unfold fuSys
  rw [h1]
  exact ⟨C09_flags_any_methods _ _ ops hw, fun s => (C09_done_le_flags_any_methods _ _ ops s).1⟩

/-- **one screening method**: at most one outstanding follow-up request per site (in the queue exactly
once iff its flag is set, in the pool exactly once iff its pool flag is set, never both), each flag leads
to at most one follow-up survey; every queued request belongs to a flagged site and stems from released
detections of that site; every flag event stems from released detections reaching the threshold; no flag
and no follow-up visit before the reporting delay (+ the follow-up delay on the pool route). -/
theorem sim_c09_single (w : World) (prog : Program) (inp : Inputs) (fu : Nat) (cf : MethodCfg)
    (hfu : prog[fu]? = some cf) (hfr : cf.role = .followUp) (p : FollowUp.Params) (hp : psOf fu prog = [p]) (N : Nat) :
    ∃ m : MState, (fuSys w prog inp fu N).ms = [m] ∧
      -- one_outstanding
      (∀ s, outstanding (fuSys w prog inp fu N).sh.queue s = (if (fuSys w prog inp fu N).sh.inQueue s then 1 else 0) ∧
            (m.inPool s = true → (fuSys w prog inp fu N).sh.inQueue s = false) ∧
            (fuSys w prog inp fu N).sh.done s ≤ (fuSys w prog inp fu N).sh.flags s) ∧
      (fuSys w prog inp fu N).sh.err = false ∧
      -- queue_entries_flagged
      (∀ e ∈ (fuSys w prog inp fu N).sh.queue,
          (fuSys w prog inp fu N).sh.inQueue e.plan.site = true ∧ e.plan.rates ≠ [] ∧
          ∀ r ∈ e.plan.rates, ∃ rc ∈ m.released, rc.site = e.plan.site ∧ rc.rate = r) ∧
      -- queued_implies_flagged (provenance and thresholds of every flag event)
      (∀ f ∈ m.evs, f.rates ≠ [] ∧
          (∀ r ∈ f.rates, ∃ rc ∈ m.released, rc.site = f.site ∧ rc.rate = r ∧ rc.date + p.rd ≤ f.day) ∧
          (p.stationary = false → f.rate = filt p.filter f.rates) ∧
          (f.route = .instant → ∃ t, p.inst = some t ∧ t ≤ f.rate) ∧
          (f.route = .pool → p.stationary = false → p.thr ≤ filt p.filter f.rates)) ∧
      -- not_before_reporting_delay
      (∀ f ∈ m.evs, f.recDate + p.rd ≤ f.day ∧ (f.route = .instant → f.day = f.recDate + p.rd) ∧
          (f.route = .pool → f.first + p.delay ≤ f.day)) ∧
      (∀ v ∈ (fuSys w prog inp fu N).sh.visits, v.recDate + p.rd ≤ v.day) := by
  obtain ⟨ops, hw, hm, hsh⟩ := sim_followup_run1 w prog inp fu cf hfu hfr p hp N
  unfold fuSys
  refine ⟨(run1 p (cf.crews * cf.cap) ops).m, hm, ?_⟩
  rw [hsh]
  have h1 := one_outstanding p (cf.crews * cf.cap) ops
  have h2 := queue_entries_flagged p (cf.crews * cf.cap) ops hw
  have h3 := queued_implies_flagged p (cf.crews * cf.cap) ops hw
  have h4 := not_before_reporting_delay p (cf.crews * cf.cap) ops hw
  refine ⟨fun s => ⟨(h1 s).1, (h1 s).2.2.1, (h1 s).2.2.2.2.1⟩, (h1 0).2.2.2.2.2, ?_, ?_, h4.1, h4.2⟩
  · intro e he
    obtain ⟨a, _, b, c⟩ := h2 e he
    exact ⟨a, b, c⟩
  · intro f hf
    obtain ⟨a, b, c, _, d, e, _⟩ := h3 f hf
    exact ⟨a, b, c, d, e⟩


/-- **proportion (C09) in the integrated simulation, one screening method**: whatever day `d` the next
daily update of the screening method is made on, it flags at most `min k |pool|` sites through the pool,
`k` = the number of candidates the proportion keeps, and the kept candidates are the largest ones -/
theorem sim_proportion (w : World) (prog : Program) (inp : Inputs) (fu : Nat) (cf : MethodCfg)
    (hfu : prog[fu]? = some cf) (hfr : cf.role = .followUp) (p : FollowUp.Params) (hp : psOf fu prog = [p]) (N : Nat)
    (d : Int) :
    ∃ st : FollowUp.St, (fuSys w prog inp fu N).ms = [st.m] ∧ (fuSys w prog inp fu N).sh = st.sh ∧
      let mid := midState p d st
      let k := keepCount p mid.m.pool.length mid.m.count
      (∀ x ∈ mid.m.pool.take k, ∀ y ∈ mid.m.pool.drop k, y.rate ≤ x.rate) ∧
      (dailyUpdate p d st).m.nflags ≤ min k mid.m.pool.length := by
  obtain ⟨ops, _, hm, hsh⟩ := sim_followup_run1 w prog inp fu cf hfu hfr p hp N
  refine ⟨run1 p (cf.crews * cf.cap) ops, hm, hsh, ?_⟩
  have h := proportion_history p (cf.crews * cf.cap) ops d
  exact ⟨h.1, h.2.2⟩

/-! ### non-vacuity: a screening method, its follow-up method, a flag and a follow-up survey -/

def exScreen : MethodCfg :=
  { role := .screen 1, crews := 1, cap := 5, workdayH := 8, cost := { perDay := 0, perSite := some 10, upfront := 0 },
    mdl := 512, trd := 0, sites := [1], S := fun _ => 20, siteCost := fun _ => 0, P := fun _ => exPlanner,
    fup := { rd := 0, delay := 0, prop := 1, thr := 0 } }

def exFollow : MethodCfg :=
  { role := .followUp, crews := 1, cap := 3, workdayH := 8, cost := { perDay := 0, perSite := some 100, upfront := 0 },
    mdl := 512, trd := 1, sites := [1], S := fun _ => 60, siteCost := fun _ => 0 }

/-- day 0: the screening survey of site 1 measures 1024 (in hundredths: 102400), the record is released
the same day, the site is flagged and queued, the follow-up method surveys it the same day and tags the
leak, which is repaired by company 1; the system of position 1 has one screening method -/
example :
    (psOf 1 [exScreen, exFollow]).length = 1 ∧
    (simState exWorld [exScreen, exFollow] quietInputs 3).ss.map (fun s => (s.status, s.by_)) =
      [(.repaired, .company 1), (.active, .none)] ∧
    ((fuSys exWorld [exScreen, exFollow] quietInputs 1 1).ms.map (fun m => m.evs.map (fun f => (f.site, f.rate, f.day))))
      = [[(1, 102400, 0)]] ∧
    (fuSys exWorld [exScreen, exFollow] quietInputs 1 1).sh.done 1 = 1 := by
  decide +kernel

end LdarModel.Sim
