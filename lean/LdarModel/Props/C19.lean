import LdarModel.Lemmas.Holder
/-
C19 — sensitivity sets differ from the base case exactly in the varied parameters.

Model: `Model/Holder.lean` (`updNested`, `alterD`, `unpack*`, `vary`).  A holder is its dictionary
plus the sub-parameter mapping; `touched u p` = path `p` lies on or below a leaf path of `u`;
`single k x` = the one-entry dictionary `{k: x}` an individual `alter_parameter(k, x)` call applies.
`varsOK` / `seqOK` / `flatD` / `dodB` are the decidable well-formedness hypotheses (listed values
sit where the base has parameters, plain dictionary entries of high-level holders are flat); the
check evaluates them on every generated case (hypothesis hit rate in the evidence).
`base_not_modified` is a statement about aliasing, which this model (copies are values) cannot
express: it is discharged by the deep-equality oracle on the real objects on every run.
-/
namespace LdarModel.Holder
open LdarModel.Tree

/-- the property at full strength over the model:
(1) frame for virtual-world sets: a base leaf that no applied variation reaches keeps its value;
(2) every set of a methods-level analysis is present in the result under its own name
    `<program>_<i>`, whatever the names of the base programs. -/
def C19_statement : Prop :=
  (∀ (maps : Maps) (base : PH) (sens : Option String) (n : Nat) (vars : KV) (sets : List PH)
      (i : Nat) (s : PH) (p : Path) (v : J),
      vary maps base sens "virtual_world" n vars = .ok sets → sets[i]? = some s →
      vars.wf = true → varsOK (.high maps.vw) n i base.vw vars = true →
      get? p (.obj base.vw) = some v → v.isObj = false →
      (∀ k l x, vars.lookup k = some (.list l) → x ∈ sliceFor n i l →
          touched (.obj (single k x)) p = false) →
      get? p (.obj s.vw) = some v)
  ∧
  (∀ (maps : Maps) (base : PH) (sens : String) (n : Nat) (vars : KV) (s : PH),
      vary maps base (some sens) "methods" n vars = .ok [s] → vars ≠ .nil →
      ∀ i, i < n → (s.programs.lookup (rename sens i)).isSome = true)

/-! ### the nested update: exactly the listed leaf paths are written -/

/-- `upd_varied`: after `update_nested_dictionary(current, new)` / `_merge_variation` every path on
or below a leaf path of `new` shows what `new` holds there -/
theorem upd_varied (p : Path) (u cur : KV) (hwf : u.wf = true)
    (ht : touched (.obj u) p = true) :
    get? p (.obj (updNested cur u)) = get? p (.obj u) :=
  upd_touched p u cur hwf ht

/-- `upd_frame`: every other leaf of `current` keeps its value and every dictionary stays a
dictionary (nothing is replaced wholesale), provided `new` puts dictionaries only on dictionaries -/
theorem upd_frame_leaf_and_node (p : Path) (u cur : KV) (hwf : u.wf = true)
    (hdd : DictOnDict cur u) (ht : touched (.obj u) p = false) :
    (∀ v, get? p (.obj cur) = some v → v.isObj = false →
        get? p (.obj (updNested cur u)) = some v) ∧
    (∀ ck, get? p (.obj cur) = some (.obj ck) →
        ∃ rk, get? p (.obj (updNested cur u)) = some (.obj rk)) :=
  ⟨fun v hg hv => upd_frame p u cur v hwf hdd ht hg hv,
   fun ck hg => upd_frame_node p u cur ck hwf hdd ht hg⟩

/-- non-vacuity: `repairs: {cost: {values: [100.0]}}` keeps `cost.file` and `delay` -/
example :
    updNested (.cons "cost" (.obj (.cons "values" (.list (.cons (.float 2 2) .nil)) (.cons "file" .null .nil)))
               (.cons "delay" (.obj (.cons "values" (.list (.cons (.float 14 0) .nil)) .nil)) .nil))
              (.cons "cost" (.obj (.cons "values" (.list (.cons (.float 1 2) .nil)) .nil)) .nil)
      = .cons "cost" (.obj (.cons "values" (.list (.cons (.float 1 2) .nil)) (.cons "file" .null .nil)))
         (.cons "delay" (.obj (.cons "values" (.list (.cons (.float 14 0) .nil)) .nil)) .nil) := rfl

/-- `alter_is_nested_update`: `holder.alter_parameters(dict)` on any holder kind (generic,
high-level with nested holders) is the nested update of the holder's dictionary, as long as plain
dictionary entries of high-level holders are flat with respect to the alteration -/
theorem alter_is_nested_update (u : KV) (sm : SM) (d r : KV) (hwf : u.wf = true)
    (hflat : flatAll sm d u = true) (h : alterAllD sm d u = .ok r) : r = updNested d u :=
  alterAll_eq_upd u sm d r hwf hflat h

/-- `alter_frame_other`: one `alter_parameter(key, value)` leaves every other entry of the holder
untouched and keeps the holder's key list, whatever the holder kind -/
theorem alter_frame_other {sm : SM} {d d' : KV} {k : String} {v : J}
    (h : alterD sm d k v = .ok d') :
    d'.keys = d.keys ∧ ∀ k', k' ≠ k → d'.lookup k' = d.lookup k' :=
  ⟨alterD_keys h, fun _ hk => alterD_other h hk⟩

/-! ### unpacking: the index arithmetic of the per-set slice -/

/-- `unpack_slice`: for a nested description the slice `value[i*u : (i+1)*u]` taken for set `i`
is exactly `unpack_nested_parameter_variations(description, i)`, i.e. (by `unpackNested_spec`) one
chain dictionary per described leaf holding its `i`-th listed value -/
theorem unpack_slice (vk : KV) (n i : Nat) (L : List J) (h : unpackRange vk n 0 = .ok L)
    (hi : i < n) :
    ∃ b, unpackNested i vk = .ok b ∧ sliceFor n i (JL.ofList L) = b ∧
      (listLeaves vk).map (fun pl => (pl.2.get? i).map (chain pl.1)) = b.map some := by
  obtain ⟨b, hb, hs⟩ := slice_block vk n i L h hi
  exact ⟨b, hb, hs, unpackNested_spec i vk b hb⟩

/-- a directly listed parameter `key: [v0 .. v(n-1)]`: set `i` gets exactly `v_i` -/
theorem unpack_direct (n i : Nat) (l : JL) (hlen : l.length = n) (hi : i < n) :
    sliceFor n i l = (match l.get? i with | some x => [x] | none => []) :=
  slice_direct n i l hlen hi

/-- non-vacuity / the shape of an unpacked description (two leaves, three sets) -/
example :
    unpackRange (.cons "rep" (.obj (.cons "rate" (.list (.cons (.int 1) (.cons (.int 2) (.cons (.int 3) .nil))))
                  (.cons "dur" (.list (.cons (.int 7) (.cons (.int 8) (.cons (.int 9) .nil)))) .nil))) .nil) 3 0
      = .ok [chain ["rep", "rate"] (.int 1), chain ["rep", "dur"] (.int 7),
             chain ["rep", "rate"] (.int 2), chain ["rep", "dur"] (.int 8),
             chain ["rep", "rate"] (.int 3), chain ["rep", "dur"] (.int 9)] := rfl

/-! ### virtual-world sets -/

/-- `vw_sets`: a virtual-world analysis yields exactly `n` sets; set `i` is the base with the
virtual world altered by the `i`-th slice of every described key, programs / outputs / baseline
untouched, and the simulation settings altered only by `alter_simulation_info(i)` -/
theorem vw_sets {maps : Maps} {base : PH} {sens : Option String} {n : Nat} {vars : KV}
    {sets : List PH} (h : vary maps base sens "virtual_world" n vars = .ok sets) :
    sets.length = n ∧ ∀ i s, sets[i]? = some s →
      s.programs = base.programs ∧ s.progMaps = base.progMaps ∧ s.out = base.out ∧
      s.baseline = base.baseline ∧ alterSimInfo base.sim i = .ok s.sim ∧
      alterVariations (.high maps.vw) n i base.vw vars = .ok s.vw := by
  simp only [vary, varySets, if_true] at h
  cases hv : varyVW maps base n vars n 0 with
  | error e => simp [hv] at h
  | ok l =>
    simp only [hv] at h
    obtain ⟨hlen, hspec⟩ := varyVW_spec maps base n vars n 0 l hv
    obtain ⟨hlen2, hspec2⟩ := finishSets_spec l 0 sets h
    refine ⟨by rw [hlen2, hlen], ?_⟩
    intro i s hs
    obtain ⟨s0, sim', hl0, hsim, hs'⟩ := hspec2 i s hs
    obtain ⟨vw', hvw, hs0⟩ := hspec i s0 hl0
    subst hs0
    subst hs'
    simp only [Nat.zero_add] at hsim hvw
    exact ⟨rfl, rfl, rfl, rfl, hsim, hvw⟩

/-- `frame` (virtual-world level): in set `i` every leaf of the base virtual world that none of the
applied variations reaches keeps its base value -/
theorem vw_frame {maps : Maps} {base : PH} {sens : Option String} {n : Nat} {vars : KV}
    {sets : List PH} {i : Nat} {s : PH} {p : Path} {v : J}
    (h : vary maps base sens "virtual_world" n vars = .ok sets) (hs : sets[i]? = some s)
    (hwf : vars.wf = true) (hok : varsOK (.high maps.vw) n i base.vw vars = true)
    (hg : get? p (.obj base.vw) = some v) (hv : v.isObj = false)
    (ht : ∀ k l x, vars.lookup k = some (.list l) → x ∈ sliceFor n i l →
        touched (.obj (single k x)) p = false) :
    get? p (.obj s.vw) = some v := by
  obtain ⟨_, hspec⟩ := vw_sets h
  obtain ⟨_, _, _, _, _, halt⟩ := hspec i s hs
  exact alterVariations_frame vars base.vw s.vw p v hwf hok halt ht hg hv

/-- `varied` (virtual-world level): the path reached by the last applied variation of a key holds
the value listed for this set -/
theorem vw_varied {maps : Maps} {base : PH} {sens : Option String} {n : Nat} {vars : KV}
    {sets : List PH} {i : Nat} {s : PH} {k : String} {l : JL} {pre post : List J} {x : J}
    {p : Path} {v : J}
    (h : vary maps base sens "virtual_world" n vars = .ok sets) (hs : sets[i]? = some s)
    (hwf : vars.wf = true) (hok : varsOK (.high maps.vw) n i base.vw vars = true)
    (hl : vars.lookup k = some (.list l)) (hsl : sliceFor n i l = pre ++ x :: post)
    (htx : touched (.obj (single k x)) p = true)
    (hpost : ∀ y, y ∈ post → touched (.obj (single k y)) p = false)
    (hg : get? p (.obj (single k x)) = some v) (hv : v.isObj = false) :
    get? p (.obj s.vw) = some v := by
  obtain ⟨_, hspec⟩ := vw_sets h
  obtain ⟨_, _, _, _, _, halt⟩ := hspec i s hs
  exact alterVariations_varied vars base.vw s.vw k l pre post x p v hwf hok halt hl hsl htx hpost hg hv

/-- `out_folder`: `alter_simulation_info(i)` rewrites the output folder to `<out>/<i>` and nothing
else; different sets get different folders -/
theorem out_folder {sim sim' : KV} {i : Nat} (h : alterSimInfo sim i = .ok sim') :
    ∃ v, sim.lookup "output_directory" = some v ∧
      sim'.lookup "output_directory" = some (.str (pyStr v ++ "/" ++ toString i)) ∧
      sim'.keys = sim.keys ∧ ∀ k, k ≠ "output_directory" → sim'.lookup k = sim.lookup k :=
  alterSimInfo_spec h

theorem out_folders_distinct {sim s1 s2 : KV} {i j : Nat} (h1 : alterSimInfo sim i = .ok s1)
    (h2 : alterSimInfo sim j = .ok s2)
    (heq : s1.lookup "output_directory" = s2.lookup "output_directory") : i = j := by
  obtain ⟨v1, hv1, ho1, _, _⟩ := alterSimInfo_spec h1
  obtain ⟨v2, hv2, ho2, _, _⟩ := alterSimInfo_spec h2
  rw [hv1] at hv2
  cases hv2
  rw [ho1, ho2] at heq
  simp only [Option.some.injEq, J.str.injEq, String.append_assoc] at heq
  have := (String.append_right_inj (pyStr v1)).mp heq
  have := (String.append_right_inj "/").mp this
  exact Nat.repr_injective this

/-! ### programs and methods level -/

/-- one set, virtual world and outputs untouched, output folder `out/0` -/
theorem programs_methods_frame {maps : Maps} {base : PH} {sens : Option String} {level : String}
    {n : Nat} {vars : KV} {sets : List PH}
    (hlevel : level = "programs" ∨ level = "methods")
    (h : vary maps base sens level n vars = .ok sets) :
    ∃ s, sets = [s] ∧ s.vw = base.vw ∧ s.out = base.out ∧ alterSimInfo base.sim 0 = .ok s.sim := by
  obtain ⟨s0, sim', hs0, hsim, hsets⟩ := vary_single hlevel h
  refine ⟨_, hsets, ?_⟩
  rcases hs0 with ⟨_, hp⟩ | ⟨_, hm⟩
  · obtain ⟨h1, h2, h3, _⟩ := varyProgramsSet_spec hp
    exact ⟨h1, h2, by rw [← h3]; exact hsim⟩
  · cases sens with
    | none =>
      simp only [varyMethodsSet] at hm
      split at hm
      · obtain ⟨h1, h2, h3, _⟩ := finishMethods_spec hm
        exact ⟨h1, h2, by rw [← h3]; exact hsim⟩
      · cases hm
    | some sp =>
      obtain ⟨acc, _, hf⟩ := varyMethodsSet_some hm
      obtain ⟨h1, h2, h3, _⟩ := finishMethods_spec hf
      exact ⟨h1, h2, by rw [← h3]; exact hsim⟩

/-- `baseline_unchanged` (methods level): the baseline program of the set is the base's baseline
program -/
theorem baseline_unchanged_methods {maps : Maps} {base : PH} {sens : String} {n : Nat} {vars : KV}
    {s : PH} (h : vary maps base (some sens) "methods" n vars = .ok [s]) :
    ∃ bp, base.programs.lookup base.baseline = some bp ∧
      s.programs.lookup base.baseline = some bp := by
  obtain ⟨s0, sim', hs0, _, hsets⟩ := vary_single (Or.inr rfl) h
  rcases hs0 with ⟨e, _⟩ | ⟨_, hm⟩
  · exact absurd e (by decide)
  · obtain ⟨acc, _, hf⟩ := varyMethodsSet_some hm
    obtain ⟨_, _, _, _, bp, hb1, hb2, _⟩ := finishMethods_spec hf
    simp only [List.cons.injEq, and_true] at hsets
    subst hsets
    exact ⟨bp, hb1, hb2⟩

/-- `baseline_unchanged` (programs level): unless a varied copy is itself named like the
baseline program, the baseline program of the set is the base's baseline program -/
theorem baseline_unchanged_programs {maps : Maps} {base : PH} {sens : Option String} {n : Nat}
    {vars : KV} {s : PH} (h : vary maps base sens "programs" n vars = .ok [s])
    (hb : ∀ pname i, pname ∈ vars.keys → i < n → rename pname i ≠ base.baseline) :
    ∃ bp, base.programs.lookup base.baseline = some bp ∧
      s.programs.lookup base.baseline = some bp := by
  obtain ⟨s0, sim', hs0, _, hsets⟩ := vary_single (Or.inl rfl) h
  rcases hs0 with ⟨_, hp⟩ | ⟨e, _⟩
  · simp only [List.cons.injEq, and_true] at hsets
    subst hsets
    simp only [varyProgramsSet] at hp
    cases hbp : base.programs.lookup base.baseline with
    | none => simp [hbp] at hp
    | some bp =>
      cases hbm : base.progMaps.lookup base.baseline with
      | none => simp [hbp, hbm] at hp
      | some bm =>
        simp only [hbp, hbm] at hp
        split at hp
        · cases hp
        · rename_i acc hacc
          cases hp
          refine ⟨bp, rfl, ?_⟩
          simp only
          rw [varyProgramsOuter_other base n vars base.baseline n 0 _ acc hacc
            (fun q j hq _ h2 => hb q j hq (by omega))]
          simp [KV.lookup]
  · exact absurd e (by decide)

/-- `names`: when no base program already carries a name of the form `<sens>_<i>`, every set of a
methods-level analysis is present in the result under its own name (distinct for distinct `i` by
`names_distinct`) -/
theorem names_present_no_clash {maps : Maps} {base : PH} {sens : String} {n : Nat} {vars : KV}
    {s : PH} (h : vary maps base (some sens) "methods" n vars = .ok [s]) (hne : vars ≠ .nil)
    (hclash : ∀ i, i < n → rename sens i ∉ base.programs.keys) :
    ∀ i, i < n → (s.programs.lookup (rename sens i)).isSome = true := by
  intro i hi
  obtain ⟨s0, sim', hs0, _, hsets⟩ := vary_single (Or.inr rfl) h
  rcases hs0 with ⟨e, _⟩ | ⟨_, hm⟩
  · exact absurd e (by decide)
  · obtain ⟨acc, ho, hf⟩ := varyMethodsSet_some hm
    obtain ⟨_, _, _, _, _, _, _, hother⟩ := finishMethods_spec hf
    simp only [List.cons.injEq, and_true] at hsets
    subst hsets
    simp only
    rw [hother (rename sens i) (hclash i hi)]
    exact (varyMethodsOuter_present base sens n vars hne n 0 _ acc ho).1 i (Nat.zero_le _) (by omega)

theorem names_distinct {name : String} {i j : Nat} (h : rename name i = rename name j) : i = j :=
  rename_inj h

/-! ### the full-strength statement is false of the code as it stands (recorded finding) -/

private def cxMaps : Maps :=
  { vw := .nil, out := .nil, method := .nil, prog := .cons "methods" (.high .nil) .nil }

private def cxProg (name : String) : J :=
  .obj (.cons "program_name" (.str name)
    (.cons "method_labels" (.list (.cons (.str "m") .nil))
    (.cons "methods" (.obj (.cons "m" (.obj (.cons "method_name" (.str "m") (.cons "crew" (.int 1) .nil))) .nil)) .nil)))

private def cxBase : PH :=
  mkPH cxMaps (.cons "output_directory" (.str "out") .nil)
    (.cons "P_none" (.obj (.cons "program_name" (.str "P_none") (.cons "method_labels" (.list .nil)
        (.cons "methods" (.obj .nil) .nil))))
     (.cons "P" (cxProg "P") (.cons "P_1" (cxProg "P_1") .nil)))
    .nil .nil "P_none"

private def cxVars : KV :=
  .cons "m" (.obj (.cons "crew" (.list (.cons (.int 5) (.cons (.int 6) .nil))) .nil)) .nil

/-- base programs `P_none`, `P`, `P_1`; two sets on method `m` of `P`: the varied copy `P_1` is
removed again together with "the original programs" — set 1 is missing (finding F19a) -/
theorem C19_counterexample_names :
    ¬ (∀ (maps : Maps) (base : PH) (sens : String) (n : Nat) (vars : KV) (s : PH),
      vary maps base (some sens) "methods" n vars = .ok [s] → vars ≠ .nil →
      ∀ i, i < n → (s.programs.lookup (rename sens i)).isSome = true) := by
  intro h
  have hv : ∃ s, vary cxMaps cxBase (some "P") "methods" 2 cxVars = .ok [s] ∧
      s.programs.lookup (rename "P" 1) = none := by
    refine ⟨_, rfl, ?_⟩
    decide +kernel
  obtain ⟨s, hs, hnone⟩ := hv
  have := h cxMaps cxBase "P" 2 cxVars s hs (by simp [cxVars]) 1 (by omega)
  rw [hnone] at this
  cases this

theorem C19_counterexample : ¬ C19_statement := fun h => C19_counterexample_names h.2

/-- `C19_partial`: clause (1) of the statement holds as stated, clause (2) under the no-clash
hypothesis -/
theorem C19_partial :
    (∀ (maps : Maps) (base : PH) (sens : Option String) (n : Nat) (vars : KV) (sets : List PH)
      (i : Nat) (s : PH) (p : Path) (v : J),
      vary maps base sens "virtual_world" n vars = .ok sets → sets[i]? = some s →
      vars.wf = true → varsOK (.high maps.vw) n i base.vw vars = true →
      get? p (.obj base.vw) = some v → v.isObj = false →
      (∀ k l x, vars.lookup k = some (.list l) → x ∈ sliceFor n i l →
          touched (.obj (single k x)) p = false) →
      get? p (.obj s.vw) = some v)
    ∧
    (∀ (maps : Maps) (base : PH) (sens : String) (n : Nat) (vars : KV) (s : PH),
      vary maps base (some sens) "methods" n vars = .ok [s] → vars ≠ .nil →
      (∀ i, i < n → rename sens i ∉ base.programs.keys) →
      ∀ i, i < n → (s.programs.lookup (rename sens i)).isSome = true) :=
  ⟨fun _ _ _ _ _ _ _ _ _ _ h hs hwf hok hg hv ht => vw_frame h hs hwf hok hg hv ht,
   fun _ _ _ _ _ _ h hne hcl => names_present_no_clash h hne hcl⟩

end LdarModel.Holder
