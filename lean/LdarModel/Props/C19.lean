import LdarModel.Lemmas.Holder
/-
C19 — sensitivity sets differ from the base case exactly in the varied parameters.

Model: `Model/Holder.lean` (`updNested`, `alterD`, `unpack*`, `vary`).  A holder is its dictionary
plus the sub-parameter mapping; `touched u p` = path `p` lies on or below a leaf path of `u`;
`single k x` = the one-entry dictionary `{k: x}` an individual `alter_parameter(k, x)` call applies.
`varsOK` / `seqOK` / `flatD` / `dodB` are the decidable well-formedness hypotheses (listed values
sit where the base has parameters, plain dictionary entries of high-level holders are flat); the
check evaluates them on every generated case (hypothesis hit rate in the evidence).
`base_not_modified` is a statement about aliasing, which this model (copies are values) cannot
express: it is discharged by the deep-equality oracle on the real objects on every run.
-/
namespace LdarModel.Holder
open LdarModel.Tree

/-- the property at full strength over the model:
(1) frame for virtual-world sets: a base leaf that no applied variation reaches keeps its value;
(2) every set of a methods-level analysis is present in the result under its own name
    `<program>_<i>`, whatever the names of the base programs. -/
def C19_statement : Prop :=
  (∀ (maps : Maps) (base : PH) (sens : Option String) (n : Nat) (vars : KV) (sets : List PH)
      (i : Nat) (s : PH) (p : Path) (v : J),
      vary maps base sens "virtual_world" n vars = .ok sets → sets[i]? = some s →
      vars.wf = true → varsOK (.high maps.vw) n i base.vw vars = true →
      get? p (.obj base.vw) = some v → v.isObj = false →
      (∀ k l x, vars.lookup k = some (.list l) → x ∈ sliceFor n i l →
          touched (.obj (single k x)) p = false) →
      get? p (.obj s.vw) = some v)
  ∧
  (∀ (maps : Maps) (base : PH) (sens : String) (n : Nat) (vars : KV) (s : PH),
      vary maps base (some sens) "methods" n vars = .ok [s] → vars ≠ .nil →
      ∀ i, i < n → (s.programs.lookup (rename sens i)).isSome = true)

/-! ### the nested update: exactly the listed leaf paths are written -/

/-- `upd_varied`: after `update_nested_dictionary(current, new)` / `_merge_variation` every path on
or below a leaf path of `new` shows what `new` holds there -/
theorem upd_varied (p : Path) (u cur : KV) (hwf : u.wf = true)
    (ht : touched (.obj u) p = true) :
    get? p (.obj (updNested cur u)) = get? p (.obj u) :=
  upd_touched p u cur hwf ht

/-- `upd_frame`: every other leaf of `current` keeps its value and every dictionary stays a
dictionary (nothing is replaced wholesale), provided `new` puts dictionaries only on dictionaries -/
theorem upd_frame_leaf_and_node (p : Path) (u cur : KV) (hwf : u.wf = true)
    (hdd : DictOnDict cur u) (ht : touched (.obj u) p = false) :
    (∀ v, get? p (.obj cur) = some v → v.isObj = false →
        get? p (.obj (updNested cur u)) = some v) ∧
    (∀ ck, get? p (.obj cur) = some (.obj ck) →
        ∃ rk, get? p (.obj (updNested cur u)) = some (.obj rk)) :=
  ⟨fun v hg hv => upd_frame p u cur v hwf hdd ht hg hv,
   fun ck hg => upd_frame_node p u cur ck hwf hdd ht hg⟩

/-- non-vacuity: `repairs: {cost: {values: [100.0]}}` keeps `cost.file` and `delay` -/
example :
    updNested (.cons "cost" (.obj (.cons "values" (.list (.cons (.float 2 2) .nil)) (.cons "file" .null .nil)))
               (.cons "delay" (.obj (.cons "values" (.list (.cons (.float 14 0) .nil)) .nil)) .nil))
              (.cons "cost" (.obj (.cons "values" (.list (.cons (.float 1 2) .nil)) .nil)) .nil)
      = .cons "cost" (.obj (.cons "values" (.list (.cons (.float 1 2) .nil)) (.cons "file" .null .nil)))
         (.cons "delay" (.obj (.cons "values" (.list (.cons (.float 14 0) .nil)) .nil)) .nil) := rfl

/-- `alter_is_nested_update`: `holder.alter_parameters(dict)` on any holder kind (generic,
high-level with nested holders) is the nested update of the holder's dictionary, as long as plain
dictionary entries of high-level holders are flat with respect to the alteration -/
theorem alter_is_nested_update (u : KV) (sm : SM) (d r : KV) (hwf : u.wf = true)
    (hflat : flatAll sm d u = true) (h : alterAllD sm d u = .ok r) : r = updNested d u :=
  alterAll_eq_upd u sm d r hwf hflat h

/-- `alter_frame_other`: one `alter_parameter(key, value)` leaves every other entry of the holder
untouched and keeps the holder's key list, whatever the holder kind -/
theorem alter_frame_other {sm : SM} {d d' : KV} {k : String} {v : J}
    (h : alterD sm d k v = .ok d') :
    d'.keys = d.keys ∧ ∀ k', k' ≠ k → d'.lookup k' = d.lookup k' :=
  ⟨alterD_keys h, fun _ hk => alterD_other h hk⟩

/-! ### unpacking: the index arithmetic of the per-set slice -/

/-- `unpack_slice`: for a nested description the slice `value[i*u : (i+1)*u]` taken for set `i`
is exactly `unpack_nested_parameter_variations(description, i)`, i.e. (by `unpackNested_spec`) one
chain dictionary per described leaf holding its `i`-th listed value -/
theorem unpack_slice (vk : KV) (n i : Nat) (L : List J) (h : unpackRange vk n 0 = .ok L)
    (hi : i < n) :
    ∃ b, unpackNested i vk = .ok b ∧ sliceFor n i (JL.ofList L) = b ∧
      (listLeaves vk).map (fun pl => (pl.2.get? i).map (chain pl.1)) = b.map some := by
  obtain ⟨b, hb, hs⟩ := slice_block vk n i L h hi
  exact ⟨b, hb, hs, unpackNested_spec i vk b hb⟩

/-- a directly listed parameter `key: [v0 .. v(n-1)]`: set `i` gets exactly `v_i` -/
theorem unpack_direct (n i : Nat) (l : JL) (hlen : l.length = n) (hi : i < n) :
    sliceFor n i l = (match l.get? i with | some x => [x] | none => []) :=
  slice_direct n i l hlen hi

/-- non-vacuity / the shape of an unpacked description (two leaves, three sets) -/
example :
    unpackRange (.cons "rep" (.obj (.cons "rate" (.list (.cons (.int 1) (.cons (.int 2) (.cons (.int 3) .nil))))
                  (.cons "dur" (.list (.cons (.int 7) (.cons (.int 8) (.cons (.int 9) .nil)))) .nil))) .nil) 3 0
      = .ok [chain ["rep", "rate"] (.int 1), chain ["rep", "dur"] (.int 7),
             chain ["rep", "rate"] (.int 2), chain ["rep", "dur"] (.int 8),
             chain ["rep", "rate"] (.int 3), chain ["rep", "dur"] (.int 9)] := rfl

/-! ### virtual-world sets -/

/-- `vw_sets`: a virtual-world analysis yields exactly `n` sets; set `i` is the base with the
virtual world altered by the `i`-th slice of every described key, programs / outputs / baseline
untouched, and the simulation settings altered only by `alter_simulation_info(i)` -/
theorem vw_sets {maps : Maps} {base : PH} {sens : Option String} {n : Nat} {vars : KV}
    {sets : List PH} (h : vary maps base sens "virtual_world" n vars = .ok sets) :
    sets.length = n ∧ ∀ i s, sets[i]? = some s →
      s.programs = base.programs ∧ s.progMaps = base.progMaps ∧ s.out = base.out ∧
      s.baseline = base.baseline ∧ alterSimInfo base.sim i = .ok s.sim ∧
      alterVariations (.high maps.vw) n i base.vw vars = .ok s.vw := by
  simp only [vary, varySets, if_true] at h
  cases hv : varyVW maps base n vars n 0 with
  | error e => simp [hv] at h
  | ok l =>
    simp only [hv] at h
    obtain ⟨hlen, hspec⟩ := varyVW_spec maps base n vars n 0 l hv
    obtain ⟨hlen2, hspec2⟩ := finishSets_spec l 0 sets h
    refine ⟨by rw [hlen2, hlen], ?_⟩
    intro i s hs
    obtain ⟨s0, sim', hl0, hsim, hs'⟩ := hspec2 i s hs
    obtain ⟨vw', hvw, hs0⟩ := hspec i s0 hl0
    subst hs0
    subst hs'
    simp only [Nat.zero_add] at hsim hvw
    exact ⟨rfl, rfl, rfl, rfl, hsim, hvw⟩

/-- `frame` (virtual-world level): in set `i` every leaf of the base virtual world that none of the
applied variations reaches keeps its base value -/
theorem vw_frame {maps : Maps} {base : PH} {sens : Option String} {n : Nat} {vars : KV}
    {sets : List PH} {i : Nat} {s : PH} {p : Path} {v : J}
    (h : vary maps base sens "virtual_world" n vars = .ok sets) (hs : sets[i]? = some s)
    (hwf : vars.wf = true) (hok : varsOK (.high maps.vw) n i base.vw vars = true)
    (hg : get? p (.obj base.vw) = some v) (hv : v.isObj = false)
    (ht : ∀ k l x, vars.lookup k = some (.list l) → x ∈ sliceFor n i l →
        touched (.obj (single k x)) p = false) :
    get? p (.obj s.vw) = some v := by
  obtain ⟨_, hspec⟩ := vw_sets h
  obtain ⟨_, _, _, _, _, halt⟩ := hspec i s hs
  exact alterVariations_frame vars base.vw s.vw p v hwf hok halt ht hg hv

/-- `varied` (virtual-world level): the path reached by the last applied variation of a key holds
the value listed for this set -/
theorem vw_varied {maps : Maps} {base : PH} {sens : Option String} {n : Nat} {vars : KV}
    {sets : List PH} {i : Nat} {s : PH} {k : String} {l : JL} {pre post : List J} {x : J}
    {p : Path} {v : J}
    (h : vary maps base sens "virtual_world" n vars = .ok sets) (hs : sets[i]? = some s)
    (hwf : vars.wf = true) (hok : varsOK (.high maps.vw) n i base.vw vars = true)
    (hl : vars.lookup k = some (.list l)) (hsl : sliceFor n i l = pre ++ x :: post)
    (htx : touched (.obj (single k x)) p = true)
    (hpost : ∀ y, y ∈ post → touched (.obj (single k y)) p = false)
    (hg : get? p (.obj (single k x)) = some v) (hv : v.isObj = false) :
    get? p (.obj s.vw) = some v := by
  obtain ⟨_, hspec⟩ := vw_sets h
  obtain ⟨_, _, _, _, _, halt⟩ := hspec i s hs
  exact alterVariations_varied vars base.vw s.vw k l pre post x p v hwf hok halt hl hsl htx hpost hg hv

/-- `vw_described`: description → value.  For a (well-formed) nested description of a virtual-world
key `k`, every described leaf path `q` with listed values `vals` holds, in set `i`, exactly
`vals[i]` — the unpacking (`unpack`), the per-set slice (`unpack_slice`), the order of the applied
chain dictionaries and their mutual non-interference (the described leaf paths are pairwise
incomparable, `listLeaves_prefixFree`) composed with `vw_varied` -/
theorem vw_described {maps : Maps} {base : PH} {sens : Option String} {n : Nat} {desc vars : KV}
    {sets : List PH} {i : Nat} {s : PH} {k : String} {vk : KV} {q : Path} {vals : JL} {v : J}
    (hu : unpack n desc = .ok vars)
    (h : vary maps base sens "virtual_world" n vars = .ok sets) (hs : sets[i]? = some s)
    (hi : i < n) (hwf : vars.wf = true) (hok : varsOK (.high maps.vw) n i base.vw vars = true)
    (hk : desc.lookup k = some (.obj vk)) (hvk : vk.wf = true)
    (hq : (q, vals) ∈ listLeaves vk) (hv : vals.get? i = some v) (hleaf : v.isObj = false) :
    get? (k :: q) (.obj s.vw) = some v := by
  obtain ⟨L, hL, hvars⟩ := unpack_lookup n desc vars k vk hu hk
  obtain ⟨b, hb, hslice, hspec⟩ := unpack_slice vk n i L hL hi
  obtain ⟨P1, P2, hP⟩ := List.append_of_mem hq
  rw [hP] at hspec
  obtain ⟨b1, x, b2, hbsplit, hx, hb2⟩ := map_some_split _ P1 (q, vals) P2 b hspec
  simp only [hv, Option.map_some, Option.some.injEq] at hx
  subst hx
  have hpf := listLeaves_prefixFree vk hvk
  rw [hP, List.map_append, List.map_cons, List.pairwise_append] at hpf
  have hafter : ∀ q', q' ∈ P2.map Prod.fst → Incomparable q q' := by
    intro q' hq'
    exact (List.pairwise_cons.mp hpf.2.1).1 q' hq'
  apply vw_varied h hs hwf hok hvars (hslice.trans hbsplit)
  · simp [touched, single, KV.lookup, touched_chain_self q v hleaf]
  · intro y hy
    -- y is the chain dictionary of a later described leaf: its path is incomparable with q
    have hmem : some y ∈ b2.map some := List.mem_map.mpr ⟨y, hy, rfl⟩
    rw [← hb2] at hmem
    obtain ⟨⟨q', vals'⟩, hm', hy'⟩ := List.mem_map.mp hmem
    cases hg : vals'.get? i with
    | none => simp [hg] at hy'
    | some v' =>
      simp only [hg, Option.map_some, Option.some.injEq] at hy'
      subst hy'
      cases ht : touched (.obj (single k (chain q' v'))) (k :: q) with
      | false => rfl
      | true =>
        simp only [touched, single, KV.lookup, if_true] at ht
        have hpre := touched_chain_prefix q' v' q ht
        exact absurd hpre (hafter q' (List.mem_map.mpr ⟨(q', vals'), hm', rfl⟩)).2
  · simp [get?, single, KV.lookup, get?_chain]
  · exact hleaf

private def exMaps : Maps :=
  { vw := .cons "emissions" (.high (.cons "rep" .gen .nil)) .nil, out := .nil, method := .nil,
    prog := .nil }

private def exBase : PH :=
  mkPH exMaps (.cons "output_directory" (.str "out") .nil)
    (.cons "B" (.obj (.cons "program_name" (.str "B") .nil)) .nil)
    (.cons "weather" (.str "f") (.cons "emissions" (.obj (.cons "file" (.str "e.csv")
      (.cons "rep" (.obj (.cons "rate" (.float 65 (-4)) (.cons "dur" (.int 365) .nil))) .nil))) .nil))
    .nil "B"

private def exDesc : KV :=
  .cons "emissions" (.obj (.cons "rep" (.obj (.cons "rate" (.list (.cons (.int 1) (.cons (.int 2) .nil)))
    (.cons "dur" (.list (.cons (.int 7) (.cons (.int 8) .nil))) .nil))) .nil)) .nil

/-- non-vacuity of the virtual-world theorems: a two-set analysis of two leaves under one key —
accepted, hypotheses true, two sets; set 1 holds the second listed values, everything else
(`weather`, `emissions.file`) and the output folder `out/1` as stated -/
example :
    (match unpack 2 exDesc with
      | .ok vars =>
        vars.wf && varsOK (.high exMaps.vw) 2 0 exBase.vw vars && varsOK (.high exMaps.vw) 2 1 exBase.vw vars &&
        (match vary exMaps exBase none "virtual_world" 2 vars with
          | .ok [_, s1] =>
            (match get? ["emissions", "rep", "rate"] (.obj s1.vw), get? ["emissions", "rep", "dur"] (.obj s1.vw),
                   get? ["emissions", "file"] (.obj s1.vw), get? ["weather"] (.obj s1.vw),
                   get? ["output_directory"] (.obj s1.sim) with
              | some a, some b, some c, some d, some e =>
                J.beq a (.int 2) && J.beq b (.int 8) && J.beq c (.str "e.csv") && J.beq d (.str "f") &&
                  J.beq e (.str "out/1")
              | _, _, _, _, _ => false)
          | _ => false)
      | _ => false) = true := by
  decide +kernel

private def exHetero : KV :=
  .cons "emissions" (.list (.cons (.obj (.cons "rep" (.obj (.cons "rate" (.int 1) .nil)) .nil))
    (.cons (.obj (.cons "rep" (.obj (.cons "dur" (.int 8) .nil)) .nil))
    (.cons (.obj (.cons "file" (.str "x.csv") .nil)) .nil)))) .nil

/-- a one-at-a-time design in the per-set form (set 0 varies `rep.rate`, set 1 `rep.dur`, set 2
`file`): every set holds its own value and the BASE values of what the other sets list -/
example :
    (match vary exMaps exBase none "virtual_world" 3 exHetero with
      | .ok [s0, s1, s2] =>
        (match get? ["emissions", "rep", "rate"] (.obj s0.vw), get? ["emissions", "rep", "dur"] (.obj s0.vw),
               get? ["emissions", "rep", "rate"] (.obj s1.vw), get? ["emissions", "rep", "dur"] (.obj s1.vw),
               get? ["emissions", "rep", "rate"] (.obj s2.vw), get? ["emissions", "file"] (.obj s2.vw),
               get? ["emissions", "file"] (.obj s1.vw) with
          | some a, some b, some c, some d, some e, some f, some g =>
            J.beq a (.int 1) && J.beq b (.int 365) && J.beq c (.float 65 (-4)) && J.beq d (.int 8) &&
              J.beq e (.float 65 (-4)) && J.beq f (.str "x.csv") && J.beq g (.str "e.csv")
          | _, _, _, _, _, _, _ => false)
      | _ => false) = true := by
  decide +kernel

/-- `set_independence`: set `i` of a virtual-world analysis is a function of the base parameters,
the index `i` and the slices set `i` itself applies (`slicesOf n i vars`) — of nothing else.  Two
analyses of the same base whose descriptions agree on what set `i` lists produce the same set `i`,
whatever the other sets list (other paths, other values, another number of sets): no state is
carried from set to set.  (The model computes every set from `base.vw`; the correspondence feeds it
heterogeneous per-set descriptions — one-at-a-time designs — so a working copy that is not reset
between sets shows as a disagreement and as a frame violation of the oracle.) -/
theorem set_independence {maps : Maps} {base : PH} {sens sens' : Option String} {n n' : Nat}
    {vars vars' : KV} {sets sets' : List PH} {i : Nat} {s s' : PH} {sl : List (String × List J)}
    (h : vary maps base sens "virtual_world" n vars = .ok sets) (hs : sets[i]? = some s)
    (h' : vary maps base sens' "virtual_world" n' vars' = .ok sets') (hs' : sets'[i]? = some s')
    (hsl : slicesOf n i vars = some sl) (hsl' : slicesOf n' i vars' = some sl) : s = s' := by
  obtain ⟨_, hspec⟩ := vw_sets h
  obtain ⟨_, hspec'⟩ := vw_sets h'
  obtain ⟨a1, a2, a3, a4, a5, a6⟩ := hspec i s hs
  obtain ⟨b1, b2, b3, b4, b5, b6⟩ := hspec' i s' hs'
  rw [alterVariations_eq_applySlices _ n i vars base.vw sl hsl] at a6
  rw [alterVariations_eq_applySlices _ n' i vars' base.vw sl hsl'] at b6
  rw [a6] at b6
  rw [a5] at b5
  cases s
  cases s'
  simp only [Except.ok.injEq] at b5 b6
  simp_all

/-- and that function is explicit: the virtual world of set `i` is `applySlices` of the BASE virtual
world (not of set `i-1`) -/
theorem set_is_base_plus_own_slices {maps : Maps} {base : PH} {sens : Option String} {n : Nat}
    {vars : KV} {sets : List PH} {i : Nat} {s : PH} {sl : List (String × List J)}
    (h : vary maps base sens "virtual_world" n vars = .ok sets) (hs : sets[i]? = some s)
    (hsl : slicesOf n i vars = some sl) :
    applySlices (.high maps.vw) base.vw sl = .ok s.vw ∧ alterSimInfo base.sim i = .ok s.sim ∧
    s.programs = base.programs ∧ s.out = base.out := by
  obtain ⟨_, hspec⟩ := vw_sets h
  obtain ⟨a1, _, a3, _, a5, a6⟩ := hspec i s hs
  rw [alterVariations_eq_applySlices _ n i vars base.vw sl hsl] at a6
  exact ⟨a6, a5, a1, a3⟩

/-- `out_folder`: `alter_simulation_info(i)` rewrites the output folder to `<out>/<i>` and nothing
else; different sets get different folders -/
theorem out_folder {sim sim' : KV} {i : Nat} (h : alterSimInfo sim i = .ok sim') :
    ∃ v, sim.lookup "output_directory" = some v ∧
      sim'.lookup "output_directory" = some (.str (pyStr v ++ "/" ++ toString i)) ∧
      sim'.keys = sim.keys ∧ ∀ k, k ≠ "output_directory" → sim'.lookup k = sim.lookup k :=
  alterSimInfo_spec h

theorem out_folders_distinct {sim s1 s2 : KV} {i j : Nat} (h1 : alterSimInfo sim i = .ok s1)
    (h2 : alterSimInfo sim j = .ok s2)
    (heq : s1.lookup "output_directory" = s2.lookup "output_directory") : i = j := by
  obtain ⟨v1, hv1, ho1, _, _⟩ := alterSimInfo_spec h1
  obtain ⟨v2, hv2, ho2, _, _⟩ := alterSimInfo_spec h2
  rw [hv1] at hv2
  cases hv2
  rw [ho1, ho2] at heq
  simp only [Option.some.injEq, J.str.injEq, String.append_assoc] at heq
  have := (String.append_right_inj (pyStr v1)).mp heq
  have := (String.append_right_inj "/").mp this
  exact Nat.repr_injective this

/-! ### programs and methods level -/

/-- one set, virtual world and outputs untouched, output folder `out/0` -/
theorem programs_methods_frame {maps : Maps} {base : PH} {sens : Option String} {level : String}
    {n : Nat} {vars : KV} {sets : List PH}
    (hlevel : level = "programs" ∨ level = "methods")
    (h : vary maps base sens level n vars = .ok sets) :
    ∃ s, sets = [s] ∧ s.vw = base.vw ∧ s.out = base.out ∧ alterSimInfo base.sim 0 = .ok s.sim := by
  obtain ⟨s0, sim', hs0, hsim, hsets⟩ := vary_single hlevel h
  refine ⟨_, hsets, ?_⟩
  rcases hs0 with ⟨_, hp⟩ | ⟨_, hm⟩
  · obtain ⟨h1, h2, h3, _⟩ := varyProgramsSet_spec hp
    exact ⟨h1, h2, by rw [← h3]; exact hsim⟩
  · cases sens with
    | none =>
      simp only [varyMethodsSet] at hm
      split at hm
      · obtain ⟨h1, h2, h3, _⟩ := finishMethods_spec hm
        exact ⟨h1, h2, by rw [← h3]; exact hsim⟩
      · cases hm
    | some sp =>
      obtain ⟨acc, _, hf⟩ := varyMethodsSet_some hm
      obtain ⟨h1, h2, h3, _⟩ := finishMethods_spec hf
      exact ⟨h1, h2, by rw [← h3]; exact hsim⟩

/-- `baseline_unchanged` (methods level): the baseline program of the set is the base's baseline
program -/
theorem baseline_unchanged_methods {maps : Maps} {base : PH} {sens : String} {n : Nat} {vars : KV}
    {s : PH} (h : vary maps base (some sens) "methods" n vars = .ok [s]) :
    ∃ bp, base.programs.lookup base.baseline = some bp ∧
      s.programs.lookup base.baseline = some bp := by
  obtain ⟨s0, sim', hs0, _, hsets⟩ := vary_single (Or.inr rfl) h
  rcases hs0 with ⟨e, _⟩ | ⟨_, hm⟩
  · exact absurd e (by decide)
  · obtain ⟨acc, _, hf⟩ := varyMethodsSet_some hm
    obtain ⟨_, _, _, _, bp, hb1, hb2, _⟩ := finishMethods_spec hf
    simp only [List.cons.injEq, and_true] at hsets
    subst hsets
    exact ⟨bp, hb1, hb2⟩

/-- `baseline_unchanged` (programs level): unless a varied copy is itself named like the
baseline program, the baseline program of the set is the base's baseline program -/
theorem baseline_unchanged_programs {maps : Maps} {base : PH} {sens : Option String} {n : Nat}
    {vars : KV} {s : PH} (h : vary maps base sens "programs" n vars = .ok [s])
    (hb : ∀ pname i, pname ∈ vars.keys → i < n → rename pname i ≠ base.baseline) :
    ∃ bp, base.programs.lookup base.baseline = some bp ∧
      s.programs.lookup base.baseline = some bp := by
  obtain ⟨s0, sim', hs0, _, hsets⟩ := vary_single (Or.inl rfl) h
  rcases hs0 with ⟨_, hp⟩ | ⟨e, _⟩
  · simp only [List.cons.injEq, and_true] at hsets
    subst hsets
    simp only [varyProgramsSet] at hp
    cases hbp : base.programs.lookup base.baseline with
    | none => simp [hbp] at hp
    | some bp =>
      cases hbm : base.progMaps.lookup base.baseline with
      | none => simp [hbp, hbm] at hp
      | some bm =>
        simp only [hbp, hbm] at hp
        split at hp
        · cases hp
        · rename_i acc hacc
          cases hp
          refine ⟨bp, rfl, ?_⟩
          simp only
          rw [varyProgramsOuter_other base n vars base.baseline n 0 _ acc hacc
            (fun q j hq _ h2 => hb q j hq (by omega))]
          simp [KV.lookup]
  · exact absurd e (by decide)

/-- `names`: when no base program already carries a name of the form `<sens>_<i>`, every set of a
methods-level analysis is present in the result under its own name (distinct for distinct `i` by
`names_distinct`) -/
theorem names_present_no_clash {maps : Maps} {base : PH} {sens : String} {n : Nat} {vars : KV}
    {s : PH} (h : vary maps base (some sens) "methods" n vars = .ok [s]) (hne : vars ≠ .nil)
    (hclash : ∀ i, i < n → rename sens i ∉ base.programs.keys) :
    ∀ i, i < n → (s.programs.lookup (rename sens i)).isSome = true := by
  intro i hi
  obtain ⟨s0, sim', hs0, _, hsets⟩ := vary_single (Or.inr rfl) h
  rcases hs0 with ⟨e, _⟩ | ⟨_, hm⟩
  · exact absurd e (by decide)
  · obtain ⟨acc, ho, hf⟩ := varyMethodsSet_some hm
    obtain ⟨_, _, _, _, _, _, _, hother⟩ := finishMethods_spec hf
    simp only [List.cons.injEq, and_true] at hsets
    subst hsets
    simp only
    rw [hother (rename sens i) (hclash i hi)]
    exact (varyMethodsOuter_present base sens n vars hne n 0 _ acc ho).1 i (Nat.zero_le _) (by omega)

/-! ### programs level: inside a varied copy -/

/-- `program_frame` / `program_varied`: the copy `P_i` made for set `i` is the program `P` with
`program_name` renamed; every other leaf of `P` that no applied variation reaches keeps its value,
and the path reached by the last applied variation of a key holds the value listed for this set
(hypotheses `varsOK` on the renamed copy: evaluated per varied program by the check) -/
theorem program_copy {base : PH} {n i : Nat} {pname : String} {pvars : J} {nm : String} {p : J}
    {sm : SM} (h : varyProgram base n i pname pvars = .ok (nm, p, sm)) :
    ∃ pk vk pk1 pk2, base.programs.lookup pname = some (.obj pk) ∧ pvars = .obj vk ∧
      nm = rename pname i ∧ p = .obj pk2 ∧
      alterD sm pk "program_name" (.str (rename pname i)) = .ok pk1 ∧
      (flatD sm pk "program_name" (.str (rename pname i)) = true →
        pk1 = pk.setKey "program_name" (.str (rename pname i))) ∧
      -- frame
      (vk.wf = true → varsOK sm n i pk1 vk = true →
        ∀ k q v, k ≠ "program_name" → get? (k :: q) (.obj pk) = some v → v.isObj = false →
          (∀ k' l x, vk.lookup k' = some (.list l) → x ∈ sliceFor n i l →
              touched (.obj (single k' x)) (k :: q) = false) →
          get? (k :: q) (.obj pk2) = some v) ∧
      -- varied
      (vk.wf = true → varsOK sm n i pk1 vk = true →
        ∀ k l pre post x path v, vk.lookup k = some (.list l) → sliceFor n i l = pre ++ x :: post →
          touched (.obj (single k x)) path = true →
          (∀ y, y ∈ post → touched (.obj (single k y)) path = false) →
          get? path (.obj (single k x)) = some v → v.isObj = false →
          get? path (.obj pk2) = some v) := by
  obtain ⟨pk, vk, pk1, pk2, hp, _, hv, h1, h2, hnm, hpp⟩ := varyProgram_inv h
  refine ⟨pk, vk, pk1, pk2, hp, hv, hnm, hpp, h1, ?_, ?_, ?_⟩
  · intro hf
    have := alterD_eq_upd (.str (rename pname i)) sm pk pk1 "program_name" rfl hf h1
    simpa [updValue] using this
  · intro hwf hok k q v hk hg hleaf ht
    have hg1 : get? (k :: q) (.obj pk1) = some v := by
      simpa [get?, alterD_other h1 hk] using hg
    exact alterVariations_frame vk pk1 pk2 (k :: q) v hwf hok h2 ht hg1 hleaf
  · intro hwf hok k l pre post x path v hl hsl htx hpost hg hleaf
    exact alterVariations_varied vk pk1 pk2 k l pre post x path v hwf hok h2 hl hsl htx hpost hg hleaf

/-- `names_present_programs`: every copy `<program>_<i>` (n per varied program) is present in the
set of a programs-level analysis — no hypothesis: a clash can overwrite a program (F19b) but never
make a name disappear at this level -/
theorem names_present_programs {maps : Maps} {base : PH} {sens : Option String} {n : Nat}
    {vars : KV} {s : PH} (h : vary maps base sens "programs" n vars = .ok [s]) :
    ∀ pname i, pname ∈ vars.keys → i < n → (s.programs.lookup (rename pname i)).isSome = true := by
  intro pname i hp hi
  obtain ⟨s0, sim', hs0, _, hsets⟩ := vary_single (Or.inl rfl) h
  rcases hs0 with ⟨_, hps⟩ | ⟨e, _⟩
  · simp only [List.cons.injEq, and_true] at hsets
    subst hsets
    simp only [varyProgramsSet] at hps
    split at hps
    · split at hps
      · cases hps
      · rename_i acc hacc
        cases hps
        exact (varyProgramsOuter_present base n vars n 0 _ acc hacc).1 pname i hp (Nat.zero_le _) (by omega)
    · cases hps
  · exact absurd e (by decide)

/-- `program_in_set`: when the name `<P>_<i>` is given to no other copy and is not the baseline's
name, the set holds under it exactly the copy `varyProgram` made (to which `program_copy` applies) -/
theorem program_in_set {maps : Maps} {base : PH} {sens : Option String} {n : Nat} {vars : KV}
    {s : PH} {pname : String} {pvars : J} {i : Nat}
    (h : vary maps base sens "programs" n vars = .ok [s]) (hwf : vars.wf = true)
    (hl : vars.lookup pname = some pvars) (hi : i < n)
    (hnc : ∀ q j, q ∈ vars.keys → (q ≠ pname ∨ j ≠ i) → rename q j ≠ rename pname i) :
    ∃ p sm, varyProgram base n i pname pvars = .ok (rename pname i, p, sm) ∧
      s.programs.lookup (rename pname i) = some p := by
  obtain ⟨s0, sim', hs0, _, hsets⟩ := vary_single (Or.inl rfl) h
  rcases hs0 with ⟨_, hps⟩ | ⟨e, _⟩
  · simp only [List.cons.injEq, and_true] at hsets
    subst hsets
    simp only [varyProgramsSet] at hps
    split at hps
    · split at hps
      · cases hps
      · rename_i acc hacc
        cases hps
        exact varyProgramsOuter_lookup base n vars pname pvars i hwf hl hnc n 0 _ acc hacc
          (Nat.zero_le _) (by omega)
    · cases hps
  · exact absurd e (by decide)

/-! ### methods level: the varied method -/

/-- `method_copy`: one varied method of the program copy of set `i` —
(a) every other method keeps its value,
(b) the method is stored under `<m>_<i>` and (flat holders) is the nested update of the original
    method by the collected variations with `method_name` renamed,
(c) the label list is the old one with the first `m` removed and `<m>_<i>` appended -/
theorem method_copy {n i : Nat} {ms ms2 : KV} {mm mm1 : SML} {labels labels1 : List J}
    {mname : String} {mvars : J}
    (h : varyMethod n i ms mm labels mname mvars = .ok (ms2, mm1, labels1)) :
    ∃ target vk ls ad, ms.lookup mname = some target ∧ mvars = .obj vk ∧
      buildAlter n i .nil vk = .ok ad ∧
      (∀ k, k ≠ mname → k ≠ rename mname i → ms2.lookup k = ms.lookup k) ∧
      (∀ tk, target = .obj tk → ad.wf = true →
        flatD (.high mm1) ((ms.erase mname).setKey (rename mname i) target) (rename mname i)
          (.obj (ad.setKey "method_name" (.str (rename mname i)))) = true →
        ms2.lookup (rename mname i)
          = some (.obj (updNested tk (ad.setKey "method_name" (.str (rename mname i)))))) ∧
      removeFirst (.str mname) labels = some ls ∧ labels1 = ls ++ [J.str (rename mname i)] := by
  obtain ⟨target, vk, ls, ad, ht, hv, hls, hl1, had, halt⟩ := varyMethod_inv h
  refine ⟨target, vk, ls, ad, ht, hv, had, ?_, ?_, hls, hl1⟩
  · intro k hk1 hk2
    rw [alterD_other halt hk2, KV.lookup_setKey_ne _ hk2, KV.lookup_erase_ne hk1]
  · intro tk htk hadwf hflat
    subst htk
    have hwfv : (J.obj (ad.setKey "method_name" (.str (rename mname i)))).wf = true := by
      simp only [J.wf]
      exact KV.wf_setKey _ _ _ hadwf rfl
    have := alterD_eq_upd _ _ _ _ _ hwfv hflat halt
    rw [this, KV.lookup_setKey_same]
    simp [updValue, KV.lookup_setKey_same]

theorem names_distinct {name : String} {i j : Nat} (h : rename name i = rename name j) : i = j :=
  rename_inj h

/-! ### no history: a holder's mappings are built from its own dictionaries only -/

/-- `program_mapping_local`: the sub-parameter mapping of a program holder is computed from the static
class mappings and that program's own `method_labels` — it does not depend on the other programs of
this holder (nor on any holder built before: `mkPH` takes nothing else).  This is the model's side of
the same-process history check (one holder serving analyses A, B, A; twin holders from the same
dictionaries; class-level mappings compared before / after the run). -/
theorem program_mapping_local (maps : Maps) (name : String) (p : J) (rest : KV) :
    (progMapsOf maps (.cons name p rest)).lookup name
      = some (match p with
              | .obj pk => .high (progMapOf maps pk)
              | _ => .gen) ∧
    ∀ other, other ≠ name →
      (progMapsOf maps (.cons name p rest)).lookup other = (progMapsOf maps rest).lookup other := by
  constructor
  · cases p <;> simp [progMapsOf, SML.lookup]
  · intro other h
    simp [progMapsOf, SML.lookup, Ne.symm h]

/-- a holder renders exactly the dictionaries it was built from, whatever was built before -/
theorem holder_renders_its_input (maps : Maps) (sim programs vw out : KV) (baseline : String) :
    (mkPH maps sim programs vw out baseline).sim = sim ∧
    (mkPH maps sim programs vw out baseline).programs = programs ∧
    (mkPH maps sim programs vw out baseline).vw = vw ∧
    (mkPH maps sim programs vw out baseline).out = out :=
  ⟨rfl, rfl, rfl, rfl⟩

/-! ### the full-strength statement is false of the code as it stands (recorded finding) -/

private def cxMaps : Maps :=
  { vw := .nil, out := .nil, method := .nil, prog := .cons "methods" (.high .nil) .nil }

private def cxProg (name : String) : J :=
  .obj (.cons "program_name" (.str name)
    (.cons "method_labels" (.list (.cons (.str "m") .nil))
    (.cons "methods" (.obj (.cons "m" (.obj (.cons "method_name" (.str "m") (.cons "crew" (.int 1) .nil))) .nil)) .nil)))

private def cxBase : PH :=
  mkPH cxMaps (.cons "output_directory" (.str "out") .nil)
    (.cons "P_none" (.obj (.cons "program_name" (.str "P_none") (.cons "method_labels" (.list .nil)
        (.cons "methods" (.obj .nil) .nil))))
     (.cons "P" (cxProg "P") (.cons "P_1" (cxProg "P_1") .nil)))
    .nil .nil "P_none"

private def cxVars : KV :=
  .cons "m" (.obj (.cons "crew" (.list (.cons (.int 5) (.cons (.int 6) .nil))) .nil)) .nil

/-- base programs `P_none`, `P`, `P_1`; two sets on method `m` of `P`: the varied copy `P_1` is
removed again together with "the original programs" — set 1 is missing (finding F19a) -/
theorem C19_counterexample_names :
    ¬ (∀ (maps : Maps) (base : PH) (sens : String) (n : Nat) (vars : KV) (s : PH),
      vary maps base (some sens) "methods" n vars = .ok [s] → vars ≠ .nil →
      ∀ i, i < n → (s.programs.lookup (rename sens i)).isSome = true) := by
  intro h
  have hv : ∃ s, vary cxMaps cxBase (some "P") "methods" 2 cxVars = .ok [s] ∧
      s.programs.lookup (rename "P" 1) = none := by
    refine ⟨_, rfl, ?_⟩
    decide +kernel
  obtain ⟨s, hs, hnone⟩ := hv
  have := h cxMaps cxBase "P" 2 cxVars s hs (by simp [cxVars]) 1 (by omega)
  rw [hnone] at this
  cases this

theorem C19_counterexample : ¬ C19_statement := fun h => C19_counterexample_names h.2

/-- `C19_partial`: clause (1) of the statement holds as stated, clause (2) under the no-clash
hypothesis -/
theorem C19_partial :
    (∀ (maps : Maps) (base : PH) (sens : Option String) (n : Nat) (vars : KV) (sets : List PH)
      (i : Nat) (s : PH) (p : Path) (v : J),
      vary maps base sens "virtual_world" n vars = .ok sets → sets[i]? = some s →
      vars.wf = true → varsOK (.high maps.vw) n i base.vw vars = true →
      get? p (.obj base.vw) = some v → v.isObj = false →
      (∀ k l x, vars.lookup k = some (.list l) → x ∈ sliceFor n i l →
          touched (.obj (single k x)) p = false) →
      get? p (.obj s.vw) = some v)
    ∧
    (∀ (maps : Maps) (base : PH) (sens : String) (n : Nat) (vars : KV) (s : PH),
      vary maps base (some sens) "methods" n vars = .ok [s] → vars ≠ .nil →
      (∀ i, i < n → rename sens i ∉ base.programs.keys) →
      ∀ i, i < n → (s.programs.lookup (rename sens i)).isSome = true) :=
  ⟨fun _ _ _ _ _ _ _ _ _ _ h hs hwf hok hg hv ht => vw_frame h hs hwf hok hg hv ht,
   fun _ _ _ _ _ _ h hne hcl => names_present_no_clash h hne hcl⟩

end LdarModel.Holder
