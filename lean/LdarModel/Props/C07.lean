import LdarModel.Lemmas.Sched
import LdarModel.Lemmas.Crew
/-
C07 — no survey request is lost or duplicated; unfinished work keeps priority.

Model: `Model/Queue.lean` (sorted-list priority queue with FIFO counter) and `Model/Planner.lean`
(`scheduleDay` = request phase → take crews × capacity → site-keyed work plan → crew outcome per request
(an INPUT) → re-queue by report state; follow-up operations `fuAdd`, `fuRedetect`).
Every statement is over arbitrary configurations (any number of sites, crews, capacity, planner
parameters), arbitrary histories (lists of days, first flags and re-detections) and arbitrary crew
outcomes; proofs are by induction over the history on the invariant `Inv` of `Lemmas/Sched.lean`.
-/
namespace LdarModel.Sched

set_option linter.unusedSimpArgs false
set_option linter.unusedVariables false

/-- the day's work plan (site ids, in the order the requests were popped) -/
def planOf (c : Cfg) (d : DayIn) (s : State) : List Nat := (dayTrace c d s).keys

/-- planned requests whose survey completed today / did not complete today -/
def completedOf (c : Cfg) (d : DayIn) (s : State) : List Nat :=
  (planOf c d s).filter (fun i => isComplete ((dayTrace c d s).afterDeploy i))

def requeuedOf (c : Cfg) (d : DayIn) (s : State) : List Nat :=
  (planOf c d s).filter (fun i => !isComplete ((dayTrace c d s).afterDeploy i))

/-- requests that stayed in the queue today -/
def waitingOf (c : Cfg) (d : DayIn) (s : State) : Queue := (dayTrace c d s).remaining

/-- a site never has two outstanding requests; the planner's flag says exactly "in the queue" -/
def Outstanding (s : State) : Prop :=
  s.q.sites.Nodup ∧ ∀ i, (s.pl i).queued = true ↔ i ∈ s.q.sites

/-- pop order is the tuple order; `n` gets return the `n` smallest; a survey in progress is in
class 1 and is popped before every request that is not in progress -/
def Priority (s : State) : Prop :=
  s.q.entries.Pairwise keyLt ∧
  (∀ n, (s.q.takeN n).1 = s.q.entries.take n) ∧
  (∀ e ∈ s.q.entries, (e.cls = prioUnfinished ↔ inProgress (s.pl e.site) = true)) ∧
  (∀ e1 ∈ s.q.entries, ∀ e2 ∈ s.q.entries, inProgress (s.pl e1.site) = true →
      inProgress (s.pl e2.site) = false → keyLt e1 e2)

/-- what one scheduled day does to the requests -/
structure DayOK (c : Cfg) (s : State) (d : DayIn) : Prop where
  /-- the site-keyed work plan holds every popped request (no key overwritten), no site twice,
  and no planned site is still waiting in the queue -/
  plan_is_taken : (dayTrace c d s).taken.map (·.site) = planOf c d s
  plan_nodup : (planOf c d s).Nodup
  plan_not_waiting : ∀ i ∈ planOf c d s, i ∉ (waitingOf c d s).sites
  /-- taken = completed ⊎ re-queued -/
  split : (planOf c d s).Perm (completedOf c d s ++ requeuedOf c d s)
  /-- the queue after the day = the waiting requests plus exactly the not-completed planned ones -/
  queue_after : (scheduleDay c d s).q.sites.Perm ((waitingOf c d s).sites ++ requeuedOf c d s)
  /-- every planned request has a report after deployment -/
  one_report : ∀ i ∈ planOf c d s, ((dayTrace c d s).afterDeploy i).rep.isSome = true
  /-- a completed survey is counted exactly once, on today's year; nothing else is counted -/
  counted_once : ∀ i y, done ((scheduleDay c d s).pl i) y =
      done (s.pl i) y + (if i ∈ completedOf c d s ∧ y = d.date.y then 1 else 0)
  /-- FIFO: the re-queued entries, listed in plan order, carry strictly increasing counters, all
  larger than the counter of every waiting entry -/
  fifo : ∃ news : List Entry,
      (scheduleDay c d s).q.entries.Perm ((waitingOf c d s).entries ++ news) ∧
      news.map (·.site) = requeuedOf c d s ∧
      news.Pairwise (fun a b => a.fifo < b.fifo) ∧
      (∀ w ∈ (waitingOf c d s).entries, ∀ e ∈ news, w.fifo < e.fifo) ∧
      (∀ e ∈ news, e.cls = requeueClass ((dayTrace c d s).afterDeploy e.site))

/-- the property at full strength, for routine, stationary and follow-up schedules -/
def C07_statement : Prop :=
  ∀ (c : Cfg) (ops : List Op), c.sites.Nodup → RunOK c init ops →
    Outstanding (run c ops) ∧ Priority (run c ops) ∧ ∀ d, DayOK c (run c ops) d

/-! ### no duplicates -/

theorem C07_no_duplicates (c : Cfg) (ops : List Op) (hc : c.sites.Nodup) (hok : RunOK c init ops) :
    Outstanding (run c ops) :=
  ⟨(inv_run c hc ops hok).nodup, (inv_run c hc ops hok).flag⟩

/-! ### priority -/

theorem priority_of_inv (s : State) (h : Inv s) (hp : ClsPos s) : Priority s := by
  refine ⟨h.qwf.1, fun n => by rw [takeN_eq], h.cls1, ?_⟩
  intro e1 he1 e2 he2 h1 h2
  have c1 := (h.cls1 e1 he1).2 h1
  have c2 : e2.cls ≠ prioUnfinished := by
    intro hc; rw [(h.cls1 e2 he2).1 hc] at h2; exact Bool.noConfusion h2
  have p2 := hp e2 he2
  unfold keyLt prioUnfinished at *
  omega

theorem C07_priority (c : Cfg) (ops : List Op) (hc : c.sites.Nodup) (hok : RunOK c init ops) :
    Priority (run c ops) :=
  priority_of_inv _ (inv_run c hc ops hok) (clspos_run c hc ops hok)

/-- whoever is popped, everything with a smaller key is popped too: the `n` requests taken for a
day are a prefix of the pop order -/
theorem C07_taken_prefix (s : State) (h : Inv s) (n : Nat) (e1 e2 : Entry)
    (h1 : e1 ∈ s.q.entries) (h2 : e2 ∈ (s.q.takeN n).1) (hlt : keyLt e1 e2) : e1 ∈ (s.q.takeN n).1 := by
  rw [takeN_eq] at *
  simp only at *
  have hp := h.qwf.1
  rw [← List.take_append_drop n s.q.entries] at hp h1
  rw [List.pairwise_append] at hp
  rcases List.mem_append.1 h1 with h1 | h1
  · exact h1
  · exact absurd hlt (keyLt_asymm (hp.2.2 e2 h2 e1 h1))

/-- routine and stationary schedules (histories of days): the class is the whole state of the
request — 1 = survey in progress, 2 = planned before but not attended (report exists, not in
progress), 3 = never planned (no report) — hence in progress < unattended < new in pop order -/
theorem C07_routine_classes (c : Cfg) (ds : List DayIn) (hc : c.sites.Nodup) (hk : c.kind ≠ .followup) :
    let s := runDays c ds
    (∀ e ∈ s.q.entries, e.rate = 0 ∧
        (e.cls = prioUnfinished ↔ inProgress (s.pl e.site) = true) ∧
        (e.cls = prioNew ↔ (s.pl e.site).rep = none) ∧
        (e.cls = prioUnattended ↔ ((s.pl e.site).rep ≠ none ∧ inProgress (s.pl e.site) = false))) ∧
    (∀ e1 ∈ s.q.entries, ∀ e2 ∈ s.q.entries, (s.pl e1.site).rep ≠ none → (s.pl e2.site).rep = none →
        keyLt e1 e2) := by
  intro s
  have hi := (rinv_runDays c hc hk ds).1
  have hr := (rinv_runDays c hc hk ds).2
  have hcls : ∀ e ∈ s.q.entries, e.rate = 0 ∧
      (e.cls = prioUnfinished ↔ inProgress (s.pl e.site) = true) ∧
      (e.cls = prioNew ↔ (s.pl e.site).rep = none) ∧
      (e.cls = prioUnattended ↔ ((s.pl e.site).rep ≠ none ∧ inProgress (s.pl e.site) = false)) := by
    intro e he
    obtain ⟨h0, h3, hx⟩ := hr e he
    have h1 := hi.cls1 e he
    refine ⟨h0, h1, h3, ?_⟩
    unfold prioUnfinished prioUnattended prioNew at *
    constructor
    · intro h2
      refine ⟨fun hn => ?_, ?_⟩
      · have := h3.2 hn; omega
      · cases hip : inProgress (s.pl e.site)
        · rfl
        · have := h1.2 hip; omega
    · intro ⟨hn, hip⟩
      rcases hx with hx | hx | hx
      · rw [h1.1 hx] at hip; exact Bool.noConfusion hip
      · exact hx
      · exact absurd (h3.1 hx) hn
  refine ⟨hcls, ?_⟩
  intro e1 he1 e2 he2 hn1 hn2
  have a := hcls e1 he1
  have b := hcls e2 he2
  have b3 := b.2.2.1.2 hn2
  have a3 : e1.cls ≠ prioNew := fun h => hn1 (a.2.2.1.1 h)
  obtain ⟨_, _, hx⟩ := hr e1 he1
  unfold keyLt prioUnfinished prioUnattended prioNew at *
  omega

/-! ### one day -/

theorem dayOK_of_inv (c : Cfg) (hc : c.sites.Nodup) (s : State) (h : Inv s) (d : DayIn) : DayOK c s d := by
  have h1 := inv_request c hc d.date s h
  have hsplit := sites_split c _ h1
  have hnd := h1.nodup
  rw [hsplit, List.nodup_append] at hnd
  have hw : QWF (waiting c (requestPhase c d.date s)) := qwf_drop _ h1.qwf _
  have hspec := putAll_spec (waiting c (requestPhase c d.date s)) hw
    (requeueItems c.kind (deployed c d (requestPhase c d.date s)) (planKeys c (requestPhase c d.date s)))
  have hsites := putAll_sites (waiting c (requestPhase c d.date s)) hw
    (requeueItems c.kind (deployed c d (requestPhase c d.date s)) (planKeys c (requestPhase c d.date s)))
  have hitems : (requeueItems c.kind (deployed c d (requestPhase c d.date s))
      (planKeys c (requestPhase c d.date s))).map (·.2.2)
      = (planKeys c (requestPhase c d.date s)).filter
          (fun i => !isComplete (deployed c d (requestPhase c d.date s) i)) := by
    unfold requeueItems; simp [List.map_map, Function.comp_def]
  refine ⟨?_, ?_, ?_, ?_, ?_, ?_, ?_, ?_⟩
  · unfold planOf
    rw [dayTrace_taken, dayTrace_keys, planKeys_eq c _ h1]
  · unfold planOf; rw [dayTrace_keys]; exact hnd.1
  · unfold planOf waitingOf
    rw [dayTrace_keys, dayTrace_remaining]
    intro i hi hw; exact hnd.2.2 i hi i hw rfl
  · unfold completedOf requeuedOf
    exact (List.filter_append_perm _ _).symm
  · unfold waitingOf requeuedOf planOf
    rw [scheduleDay_eq, dayTrace_remaining, dayTrace_keys, dayTrace_afterDeploy]
    unfold finishDay
    simp only
    rw [← hitems]
    exact hsites
  · unfold planOf
    rw [dayTrace_keys, dayTrace_afterDeploy]
    intro i hi
    unfold deployed
    simp only [hi, if_true]
    unfold applyOutcome
    cases d.out i <;> rfl
  · intro i y
    unfold completedOf planOf
    rw [scheduleDay_eq, dayTrace_keys, dayTrace_afterDeploy]
    unfold finishDay
    simp only [List.mem_filter]
    have hlog : (deployed c d (requestPhase c d.date s) i).log = (s.pl i).log := by
      unfold deployed requestPhase
      simp only
      have : ∀ (p : PlannerP) (o : Outcome) (x : PlannerS), (applyOutcome p o x).log = x.log := by
        intro p o x; unfold applyOutcome; cases o <;> rfl
      split <;> (try rw [this]) <;> split <;> rfl
    by_cases hk : i ∈ planKeys c (requestPhase c d.date s)
    · cases hcp : isComplete (deployed c d (requestPhase c d.date s) i)
      · simp [hk, hcp, done, hlog]
      · simp only [hk, hcp, and_self, if_true, true_and, done, finish, hlog, List.count_cons]
        by_cases hy : y = d.date.y
        · simp [hy]
        · have : ¬ (d.date.y = y) := fun h => hy h.symm
          simp [hy, this]
    · simp [hk, done, hlog]
  · refine ⟨stamp (waiting c (requestPhase c d.date s)).next
      (requeueItems c.kind (deployed c d (requestPhase c d.date s)) (planKeys c (requestPhase c d.date s))),
      ?_, ?_, stamp_increasing _ _, ?_, ?_⟩
    · unfold waitingOf
      rw [scheduleDay_eq, dayTrace_remaining]
      exact hspec.2.1
    · unfold requeuedOf planOf
      rw [stamp_sites, hitems, dayTrace_keys, dayTrace_afterDeploy]
    · unfold waitingOf
      rw [dayTrace_remaining]
      intro w hw' e he
      have := hw.2 w hw'
      have := stamp_fifo_ge _ _ e he
      omega
    · intro e he
      rw [dayTrace_afterDeploy]
      have hit := stamp_item _ _ e he
      unfold requeueItems at hit
      simp only [List.mem_map] at hit
      obtain ⟨i, _, hieq⟩ := hit
      have h1' : e.cls = requeueClass (deployed c d (requestPhase c d.date s) i) := by
        injection hieq with a b; exact a.symm
      have h2' : e.site = i := by injection hieq with a b; injection b with b1 b2; exact b2.symm
      rw [h1', h2']

/-- conservation, one report each, counted once — for every reachable state and every day input -/
theorem C07_conservation (c : Cfg) (ops : List Op) (hc : c.sites.Nodup) (hok : RunOK c init ops)
    (d : DayIn) : DayOK c (run c ops) d :=
  dayOK_of_inv c hc _ (inv_run c hc ops hok) d

/-- FIFO within a class across re-queueing: of two requests put back today into the same class
(and rate), the one planned first is popped first; a waiting request of that class is popped before
both -/
theorem C07_fifo (c : Cfg) (ops : List Op) (hc : c.sites.Nodup) (hok : RunOK c init ops) (d : DayIn) :
    ∃ news : List Entry,
      (scheduleDay c d (run c ops)).q.entries.Perm ((waitingOf c d (run c ops)).entries ++ news) ∧
      news.map (·.site) = requeuedOf c d (run c ops) ∧
      news.Pairwise (fun a b => a.cls = b.cls → a.rate = b.rate → keyLt a b) ∧
      (∀ w ∈ (waitingOf c d (run c ops)).entries, ∀ e ∈ news, w.cls = e.cls → w.rate = e.rate → keyLt w e) := by
  obtain ⟨news, h1, h2, h3, h4, _⟩ := (C07_conservation c ops hc hok d).fifo
  refine ⟨news, h1, h2, h3.imp ?_, ?_⟩
  · intro a b hab hc hr; unfold keyLt; omega
  · intro w hw e he hc hr
    have := h4 w hw e he
    unfold keyLt; omega

theorem C07 : C07_statement := by
  intro c ops hc hok
  exact ⟨C07_no_duplicates c ops hc hok, C07_priority c ops hc hok, fun d => C07_conservation c ops hc hok d⟩

/-! ### minutes -/

/-- minutes in the report of the site's running survey (0 when there is none) -/
def surveyedOf (s : State) (i : Nat) : Int := ((s.pl i).rep.getD {}).surveyed

/-- minutes surveyed at site `i` on day `d` started in state `s` (0 when the site is not planned) -/
def minutesOfDay (c : Cfg) (d : DayIn) (s : State) (i : Nat) : Int :=
  if i ∈ planOf c d s then minutesToday (c.P i) (d.out i) ((requestPhase c d.date s).pl i) else 0

def completesOn (c : Cfg) (d : DayIn) (s : State) (i : Nat) : Bool := decide (i ∈ completedOf c d s)

/-- running sum of the daily minutes of the site's current survey: reset when a survey completes -/
def spentFrom (c : Cfg) (i : Nat) : State → Int → List DayIn → Int
  | _, acc, [] => acc
  | s, acc, d :: ds =>
    spentFrom c i (scheduleDay c d s) (if completesOn c d s i then 0 else acc + minutesOfDay c d s i) ds

theorem minutes_day (c : Cfg) (d : DayIn) (s : State) (i : Nat) (hnc : isComplete (s.pl i) = false) :
    (completesOn c d s i = true →
        surveyedOf s i + minutesOfDay c d s i = (c.P i).surveyTime ∧ surveyedOf (scheduleDay c d s) i = 0) ∧
    (completesOn c d s i = false →
        surveyedOf (scheduleDay c d s) i = surveyedOf s i + minutesOfDay c d s i) := by
  have hrq : ((requestPhase c d.date s).pl i).rep = (s.pl i).rep := by
    unfold requestPhase; simp only; split <;> rfl
  unfold completesOn completedOf minutesOfDay surveyedOf planOf
  rw [scheduleDay_eq, dayTrace_keys, dayTrace_afterDeploy]
  unfold finishDay
  simp only [List.mem_filter, decide_eq_true_eq, decide_eq_false_iff_not]
  by_cases hk : i ∈ planKeys c (requestPhase c d.date s)
  · have hdep : deployed c d (requestPhase c d.date s) i
        = applyOutcome (c.P i) (d.out i) ((requestPhase c d.date s).pl i) := by
      unfold deployed; simp [hk]
    simp only [hk, true_and, if_true, hdep]
    unfold isComplete at hnc
    unfold applyOutcome minutesToday isComplete finish
    rw [hrq]
    cases d.out i <;> cases hr : (s.pl i).rep <;> simp_all <;> omega
  · have hdep : deployed c d (requestPhase c d.date s) i = (requestPhase c d.date s).pl i := by
      unfold deployed; simp [hk]
    simp [hk, hdep, hrq]

/-- minutes add up: along any history of days the running sum of the minutes surveyed on the days
of the current survey equals the minutes in its report, and on the day a survey completes the sum
reaches exactly the site's survey time -/
theorem C07_minutes (c : Cfg) (hc : c.sites.Nodup) (i : Nat) (ds : List DayIn) (s : State) (h : Inv s) :
    spentFrom c i s (surveyedOf s i) ds = surveyedOf (ds.foldl (fun s d => scheduleDay c d s) s) i ∧
    (∀ d, completesOn c d s i = true → surveyedOf s i + minutesOfDay c d s i = (c.P i).surveyTime) := by
  refine ⟨?_, fun d hd => ((minutes_day c d s i (h.notComplete i)).1 hd).1⟩
  induction ds generalizing s with
  | nil => rfl
  | cons d ds ih =>
    simp only [spentFrom, List.foldl_cons]
    have hm := minutes_day c d s i (h.notComplete i)
    have h' := inv_scheduleDay c hc d s h
    cases hcp : completesOn c d s i
    · rw [← (hm.2 hcp)]; simp only [Bool.false_eq_true, if_false]; exact ih _ h'
    · simp only [if_true]
      rw [← ((hm.1 hcp).2)]
      exact ih _ h'

/-- a follow-up schedule with two sites -/
def exFuDup : Cfg :=
  { kind := .followup, crews := 1, cap := 1, sites := [1, 2], P := fun _ => { surveyTime := 600 } }

/-! ### frame: a day touches only the sites it issues a request for or plans -/

/-- the planner of a site that neither issues a request today nor is in today's work plan is left
exactly as it was, whatever happens to the other sites (their number, outcomes, names) — the model
has no state shared between planners or between histories -/
theorem untouched_site_frame (c : Cfg) (d : DayIn) (s : State) (i : Nat)
    (h1 : i ∉ issued c d.date s) (h2 : i ∉ planOf c d s) : (scheduleDay c d s).pl i = s.pl i := by
  unfold planOf at h2
  rw [dayTrace_keys] at h2
  rw [scheduleDay_eq]
  unfold finishDay deployed
  simp only [h2, false_and, if_false]
  unfold requestPhase
  simp only [h1, if_false]

/-! ### what `RunOK` assumes of the callers (F13) -/

/-- `OpOK` without the callers' guarantee that a site is first-flagged only while it has no
outstanding follow-up -/
def OpOKweak : Op → Prop
  | .day _ => True
  | .add cls _ _ => cls = prioUnattended ∨ cls = prioNew
  | .redetect _ _ cls => cls = 0 ∨ cls = prioUnattended ∨ cls = prioNew

/-- without that guarantee the follow-up queue does hold two requests of one site: two screening
methods that flag the same site into one follow-up schedule (known finding F13, recorded under C09)
— `no_duplicates` for follow-up schedules is exactly as strong as `RunOK` -/
theorem C07_followup_duplicate_counterexample :
    ¬ (∀ (c : Cfg) (ops : List Op), c.sites.Nodup → (∀ o ∈ ops, OpOKweak o) → Outstanding (run c ops)) := by
  intro h
  have := (h exFuDup [.add 3 1 5, .add 3 1 4] (by decide)
    (by intro o ho; simp at ho; rcases ho with rfl | rfl <;> simp [OpOKweak, prioNew])).1
  revert this
  decide +kernel

/-! ### routine schedules: whatever waits is a new request -/

/-- number of entries that are not in the default class -/
def oldCount (l : List Entry) : Nat := (l.filter (fun e => e.cls ≠ prioNew)).length

theorem oldCount_perm {l1 l2 : List Entry} (h : l1.Perm l2) : oldCount l1 = oldCount l2 :=
  (h.filter _).length_eq

theorem oldCount_append (l1 l2 : List Entry) : oldCount (l1 ++ l2) = oldCount l1 + oldCount l2 := by
  unfold oldCount; rw [List.filter_append, List.length_append]

/-- in a sorted queue holding at most `n` unfinished / unattended requests, everything behind the
first `n` entries is a new request -/
theorem drop_all_new (l : List Entry) (hs : l.Pairwise keyLt)
    (hcls : ∀ e ∈ l, e.cls = prioUnfinished ∨ e.cls = prioUnattended ∨ e.cls = prioNew)
    (n : Nat) (hn : oldCount l ≤ n) : ∀ e ∈ l.drop n, e.cls = prioNew := by
  intro e he
  apply Classical.byContradiction
  intro hne
  have hlen : n < l.length := by
    apply Classical.byContradiction
    intro h
    rw [List.drop_eq_nil_of_le (by omega)] at he
    simp at he
  have hsplit := hs
  rw [← List.take_append_drop n l, List.pairwise_append] at hsplit
  have htake : ∀ x ∈ l.take n, x.cls ≠ prioNew := by
    intro x hx hx3
    have hlt := hsplit.2.2 x hx e he
    have he' := hcls e (List.mem_of_mem_drop he)
    unfold keyLt prioUnfinished prioUnattended prioNew at *
    omega
  have h1 : oldCount (l.take n) = n := by
    unfold oldCount
    rw [List.filter_eq_self.2 (by intro x hx; simpa using htake x hx), List.length_take]
    omega
  have h2 : 1 ≤ oldCount (l.drop n) := by
    unfold oldCount
    have : e ∈ (l.drop n).filter (fun e => e.cls ≠ prioNew) := by
      rw [List.mem_filter]; exact ⟨he, by simpa using hne⟩
    exact List.length_pos_of_mem this
  have h3 : oldCount l = oldCount (l.take n) + oldCount (l.drop n) := by
    rw [← oldCount_append, List.take_append_drop]
  omega

/-- invariant of routine histories: at most `crews × capacity` entries are not new requests -/
theorem routine_old_bound (c : Cfg) (hc : c.sites.Nodup) (hk : c.kind = .routine) (ds : List DayIn) :
    oldCount (runDays c ds).q.entries ≤ c.crews * c.cap ∧
    ∀ d, ∀ e ∈ (waitingOf c d (runDays c ds)).entries, e.cls = prioNew := by
  have hkf : c.kind ≠ .followup := by rw [hk]; decide
  have step : ∀ (s : State) (d : DayIn), Inv s → RInv s → oldCount s.q.entries ≤ c.crews * c.cap →
      (∀ e ∈ (waitingOf c d s).entries, e.cls = prioNew) ∧
      oldCount (scheduleDay c d s).q.entries ≤ c.crews * c.cap := by
    intro s d hi hr hb
    have h1 := inv_request c hc d.date s hi
    have hr1 := rinv_request c d.date s hi hr
    -- the request phase only adds new requests
    have hb1 : oldCount (requestPhase c d.date s).q.entries ≤ c.crews * c.cap := by
      have hspec := putAll_spec s.q hi.qwf ((issued c d.date s).map (fun i => (prioNew, (0 : Int), i)))
      have hq1 : (requestPhase c d.date s).q =
          putAll s.q ((issued c d.date s).map (fun i => (prioNew, (0 : Int), i))) := by
        unfold requestPhase; simp only [foldl_issue_eq]
      rw [hq1, oldCount_perm hspec.2.1, oldCount_append]
      have : oldCount (stamp s.q.next ((issued c d.date s).map (fun i => (prioNew, (0 : Int), i)))) = 0 := by
        unfold oldCount
        rw [List.length_eq_zero_iff, List.filter_eq_nil_iff]
        intro e he
        have hit := stamp_item _ _ e he
        simp only [List.mem_map] at hit
        obtain ⟨i, _, hieq⟩ := hit
        have : e.cls = prioNew := by injection hieq with a b; exact a.symm
        simp [this]
      omega
    have hwait : ∀ e ∈ (waitingOf c d s).entries, e.cls = prioNew := by
      unfold waitingOf
      rw [dayTrace_remaining]
      unfold waiting
      simp only [takeCount, hk]
      exact drop_all_new _ h1.qwf.1 (fun e he => (hr1 e he).2.2) _ hb1
    refine ⟨hwait, ?_⟩
    obtain ⟨news, hperm, hsites, _, _, _⟩ := (dayOK_of_inv c hc s hi d).fifo
    rw [oldCount_perm hperm, oldCount_append]
    have hw0 : oldCount (waitingOf c d s).entries = 0 := by
      unfold oldCount
      rw [List.length_eq_zero_iff, List.filter_eq_nil_iff]
      intro e he; simp [hwait e he]
    have hnews : oldCount news ≤ news.length := List.length_filter_le _ _
    have hlen : news.length ≤ c.crews * c.cap := by
      have h2 : news.length = (requeuedOf c d s).length := by rw [← hsites, List.length_map]
      have h3 : (requeuedOf c d s).length ≤ (planOf c d s).length := List.length_filter_le _ _
      have h4 : (planOf c d s).length ≤ c.crews * c.cap := by
        rw [← (dayOK_of_inv c hc s hi d).plan_is_taken, List.length_map, dayTrace_taken]
        simp only [takeCount, hk, List.length_take]
        omega
      omega
    omega
  have hrun : ∀ (ds : List DayIn) (s : State), Inv s → RInv s → oldCount s.q.entries ≤ c.crews * c.cap →
      let s' := ds.foldl (fun s d => scheduleDay c d s) s
      Inv s' ∧ RInv s' ∧ oldCount s'.q.entries ≤ c.crews * c.cap := by
    intro ds
    induction ds with
    | nil => intro s a b c'; exact ⟨a, b, c'⟩
    | cons d ds ih =>
      intro s a b c'
      simp only [List.foldl_cons]
      refine ih _ (inv_scheduleDay c hc d s a) ?_ (step s d a b c').2
      rw [scheduleDay_eq]
      exact rinv_finishDay c hkf d _ (inv_request c hc d.date s a) (rinv_request c d.date s a b)
  have hfin := hrun ds init inv_init rinv_init (by simp [oldCount, init])
  exact ⟨hfin.2.2, fun d => (step _ d hfin.1 hfin.2.1 hfin.2.2).1⟩

/-- **order stability across days (routine)**: a request that waits (is not taken) is always a new
request, so unfinished and unattended requests are taken on the very next day and two waiting
requests never change their relative order -/
theorem C07_routine_waiting_is_new (c : Cfg) (hc : c.sites.Nodup) (hk : c.kind = .routine)
    (ds : List DayIn) (d : DayIn) :
    ∀ e ∈ (waitingOf c d (runDays c ds)).entries, e.cls = prioNew :=
  (routine_old_bound c hc hk ds).2 d

/-! ### the crew arithmetic behind the outcomes (refinement of `Model/Crew.lean`) -/

/-- the schedule-level outcome of one `survey_site` call of the crew model -/
def outcomeOfStep (o : Crew.StepOut) : Outcome :=
  match o.branch with
  | .complete => .completed
  | .partial_ => .progressed o.today
  | _ => .untouched

/-- the fields of the crew model's report that the schedule model keeps -/
def crewReport (r : Report) : Crew.Report :=
  { surveyed := r.surveyed, complete := r.complete, inProgress := r.inProgress }

/-- **refinement**: feeding the schedule model the outcome computed by the crew model's `surveyStep`
(any remaining minutes `R`, travel time `T`, weather) leaves exactly the report `applyStep` leaves
(minutes, complete, in progress), and the day's minutes are the step's `today` -/
theorem applyOutcome_refines_step (p : PlannerP) (ps : PlannerS) (R S T : Int) (st w : Bool)
    (hS : p.surveyTime = Crew.effS st S) :
    ∃ rep', (applyOutcome p (outcomeOfStep (Crew.surveyStep R S T (ps.rep.getD {}).surveyed st w)) ps).rep = some rep' ∧
      crewReport rep' = { Crew.applyStep (crewReport (ps.rep.getD {}))
                            (Crew.surveyStep R S T (ps.rep.getD {}).surveyed st w) with today := 0, travel := 0 } ∧
      minutesToday p (outcomeOfStep (Crew.surveyStep R S T (ps.rep.getD {}).surveyed st w)) ps
        = (Crew.surveyStep R S T (ps.rep.getD {}).surveyed st w).today := by
  generalize hr0 : ps.rep.getD {} = r
  unfold Crew.surveyStep
  by_cases hw : w = true
  · subst hw
    simp only [Bool.not_true, Bool.false_eq_true, if_false]
    split
    · refine ⟨_, rfl, ?_, ?_⟩ <;> simp [outcomeOfStep, applyOutcome, minutesToday, crewReport, Crew.applyStep, hS, hr0]
    · split
      · refine ⟨_, rfl, ?_, ?_⟩ <;>
          simp [outcomeOfStep, applyOutcome, minutesToday, crewReport, Crew.applyStep, hr0]
      · refine ⟨_, rfl, ?_, ?_⟩ <;>
          simp [outcomeOfStep, applyOutcome, minutesToday, crewReport, Crew.applyStep, hr0]
  · have : w = false := by cases w <;> simp_all
    subst this
    simp only [Bool.not_false, if_true]
    refine ⟨_, rfl, ?_, ?_⟩ <;> simp [outcomeOfStep, applyOutcome, minutesToday, crewReport, Crew.applyStep, hr0]

/-- **minutes add up, with the crew arithmetic** (`Lemmas/Crew.lean`, re-stated here so that it is
audited under C07): over the days of one survey — any crew minutes left, travel times, weather,
crew shortage — the daily minutes sum to the report's minutes; at completion that is the survey
time; while in progress `0 < P < S`; before the first visit `P = 0` -/
theorem minutes_add_up_crew (stationary : Bool) (S : Int) (hS : 0 ≤ S) (days : List Crew.DayIn)
    (hd : ∀ d ∈ days, 0 ≤ d.R ∧ 0 ≤ d.T) :
    let r := Crew.surveyRun stationary S days {} 0
    r.2 = r.1.surveyed ∧
    (r.1.complete = true → r.2 = Crew.effS stationary S) ∧
    (r.1.complete = false → r.1.inProgress = true → 0 < r.1.surveyed ∧ r.1.surveyed < S) ∧
    (r.1.complete = false → r.1.inProgress = false → r.1.surveyed = 0) :=
  Crew.minutes_add_up_fresh stationary S hS days hd

/-! ### the names used in DESIGN.md 5.7 / Appendix E -/

theorem conservation (c : Cfg) (ops : List Op) (hc : c.sites.Nodup) (hok : RunOK c init ops) (d : DayIn) :
    DayOK c (run c ops) d := C07_conservation c ops hc hok d

theorem no_duplicates (c : Cfg) (ops : List Op) (hc : c.sites.Nodup) (hok : RunOK c init ops) :
    Outstanding (run c ops) := C07_no_duplicates c ops hc hok

theorem priority (c : Cfg) (ops : List Op) (hc : c.sites.Nodup) (hok : RunOK c init ops) :
    Priority (run c ops) := C07_priority c ops hc hok

/-- over the days of one survey the minutes add up: the running sum of the daily minutes (reset at
each completion) is what the report holds, and on the day the survey completes the sum plus
today's minutes is exactly the site's survey time -/
theorem minutes_add_up (c : Cfg) (hc : c.sites.Nodup) (i : Nat) (ds : List DayIn) :
    spentFrom c i init 0 ds = surveyedOf (runDays c ds) i ∧
    (∀ d, completesOn c d (runDays c ds) i = true →
        spentFrom c i init 0 ds + minutesOfDay c d (runDays c ds) i = (c.P i).surveyTime) := by
  have h1 := (C07_minutes c hc i ds init inv_init).1
  have h0 : surveyedOf init i = 0 := rfl
  rw [h0] at h1
  refine ⟨h1, ?_⟩
  intro d hd
  rw [h1]
  exact (C07_minutes c hc i [] (runDays c ds) (inv_runDays c hc ds)).2 d hd

/-! ### non-vacuity and a concrete multi-day history -/

/-- two sites, one crew with capacity 1; day 1: site 1 is started (200 of 300 minutes), day 2: site 1
finishes; site 2 waits in class 3 behind it on both days although its request is as old -/
def exCfg : Cfg :=
  { kind := .routine, crews := 1, cap := 1, sites := [1, 2],
    P := fun _ => { rs := 1, months := [1], depYears := [2024], simYears := [2024], plan := [(1, 1)],
                    surveyTime := 300 } }

def exDay1 : DayIn := { date := ⟨2024, 1, 10⟩, out := fun i => if i = 1 then .progressed 200 else .untouched }
def exDay2 : DayIn := { date := ⟨2024, 1, 11⟩, out := fun i => if i = 1 then .completed else .untouched }

example : exCfg.sites.Nodup ∧ RunOK exCfg init [.day exDay1, .day exDay2] := by decide

example :
    (run exCfg [.day exDay1]).q.entries.map (fun e => (e.cls, e.site)) = [(1, 1), (3, 2)] ∧
    planOf exCfg exDay2 (run exCfg [.day exDay1]) = [1] ∧
    completedOf exCfg exDay2 (run exCfg [.day exDay1]) = [1] ∧
    (run exCfg [.day exDay1, .day exDay2]).q.entries.map (fun e => (e.cls, e.site)) = [(3, 2)] ∧
    done ((run exCfg [.day exDay1, .day exDay2]).pl 1) 2024 = 1 ∧
    minutesOfDay exCfg exDay2 (run exCfg [.day exDay1]) 1 = 100 := by
  decide +kernel

/-- follow-up schedule (after repair 504bbc3): site 1's follow-up is in progress, it is re-detected
with class 3 and stays ahead of the newly flagged site 2 -/
def exFu : Cfg :=
  { kind := .followup, crews := 1, cap := 1, sites := [1, 2], P := fun _ => { surveyTime := 600 } }

example :
    let ops : List Op := [.add 3 1 5,
      .day { date := ⟨2024, 3, 1⟩, out := fun _ => .progressed 480 }, .add 3 2 3, .redetect 1 5 3]
    RunOK exFu init ops ∧ (run exFu ops).q.entries.map (fun e => (e.cls, e.rate, e.site)) = [(1, 5, 1), (3, 3, 2)] := by
  decide +kernel

end LdarModel.Sched
