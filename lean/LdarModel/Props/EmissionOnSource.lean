/-
The properties C02 / C03 / C04, stated directly about the *translated source* of the emission classes
(`Generated/EmissionSrc.lean`, regenerated from /repo on every run) driven day by day in the order
`Cls.day` fixes: corollaries of the model theorems (`Props/C02–C04`) and of the run-level tie
(`Props/EmissionTie.lean: RE_run …`).  Quantities are those the code computes itself:
`calc_true_emis_vol`, `calc_mitigated(end)`, `_active_days`, `_repair_date`, `_tagged_by_company`.
-/
import LdarModel.Props.EmissionTie
import LdarModel.Props.C02
import LdarModel.Props.C03
import LdarModel.Props.C04

namespace LdarModel.EmissionOnSource
open LdarModel.Emission LdarModel.EmissionSrc LdarModel.EmissionTie

/-- **C02 on the source, persistent repairable leak**: what the code reports as emitted plus what it
reports as mitigated (with the end date `run_simulation` hands in) equals what it reports as emitted in
the no-LDAR run of the same object — for every start date, duration, delay, tag schedule, horizon, rate. -/
theorem C02_on_source (ev : Nat → List TagEv) (o0 : Obj) (h : WFR o0) (h0 : absR o0 = Emission.init) (N : Nat) :
    let o := clsRE.run ev o0 N
    let b := clsRE.run noEvents o0 N
    (RE.calc_true_emis_vol o).2 + (RE.calc_mitigated o (N : Int)).2 = (RE.calc_true_emis_vol b).2 := by
  intro o b
  have ho := (clsRE.run_tie clsRE_ok ev o0 h h0 N)
  have hb := (clsRE.run_tie clsRE_ok noEvents o0 h h0 N)
  have eo := clsRE.run_env clsRE_ok ev o0 N
  have eb := clsRE.run_env clsRE_ok noEvents o0 N
  have po : parR false o = parR false o0 := ho.2.2
  have pb : parR false b = parR false o0 := hb.2.2
  have key := (C02_partial (parR false o0) ev N rfl rfl).1
  rw [(RE_emitted o).1, (RE_emitted b).1, (RE_mitigated o N ho.2.1 false).1, po, pb]
  have ao : absR o = run (parR false o0) ev N := ho.1
  have ab : absR b = baseline (parR false o0) N := hb.1
  rw [ao, ab, eo.1, eo.2, eb.1, eb.2]
  unfold summaryEndArg at key
  rw [← key]
  simp only [Int.add_mul]

/-- **C03 on the source**: a program never keeps a repairable leak active longer than the no-LDAR run -/
theorem C03_on_source (ev : Nat → List TagEv) (o0 : Obj) (h : WFR o0) (h0 : absR o0 = Emission.init) (N : Nat) :
    (clsRE.run ev o0 N).active_days ≤ (clsRE.run noEvents o0 N).active_days
    ∧ (clsIRE.run ev o0 N).active_days ≤ (clsIRE.run noEvents o0 N).active_days := by
  constructor
  · have ho := (clsRE.run_tie clsRE_ok ev o0 h h0 N).1
    have hb := (clsRE.run_tie clsRE_ok noEvents o0 h h0 N).1
    have key := C03_le_baseline (parR false o0) rfl ev N
    have e1 : (clsRE.run ev o0 N).active_days = (absR (clsRE.run ev o0 N)).activeDays := rfl
    have e2 : (clsRE.run noEvents o0 N).active_days = (absR (clsRE.run noEvents o0 N)).activeDays := rfl
    rw [e1, e2]
    show (clsRE.abs (clsRE.run ev o0 N)).activeDays ≤ (clsRE.abs (clsRE.run noEvents o0 N)).activeDays
    rw [ho, hb]; exact key
  · have ho := (clsIRE.run_tie clsIRE_ok ev o0 h h0 N).1
    have hb := (clsIRE.run_tie clsIRE_ok noEvents o0 h h0 N).1
    have key := C03_le_baseline (parR true o0) rfl ev N
    show (clsIRE.abs (clsIRE.run ev o0 N)).activeDays ≤ (clsIRE.abs (clsIRE.run noEvents o0 N)).activeDays
    rw [ho, hb]; exact key

/-- **C03 on the source, non-repairable emissions**: status, days active, expiry date are those of the
no-LDAR run whatever was recorded, and the status is never `repaired` -/
theorem C03_nonrepairable_on_source (ev : Nat → List TagEv) (o0 : Obj) (h : WFN o0) (h0 : absN o0 = Emission.init) (N : Nat) :
    let o := clsNRE.run ev o0 N
    let b := clsNRE.run noEvents o0 N
    o.status = b.status ∧ o.active_days = b.active_days ∧ o.expiry_date = b.expiry_date ∧ o.status ≠ .repaired := by
  intro o b
  have ho := (clsNRE.run_tie clsNRE_ok ev o0 h h0 N).1
  have hb := (clsNRE.run_tie clsNRE_ok noEvents o0 h h0 N).1
  have key := C03_nonrepairable (parN false o0) rfl ev N
  have e1 : o.status = (clsNRE.abs o).status := rfl
  have e2 : b.status = (clsNRE.abs b).status := rfl
  have e3 : o.active_days = (clsNRE.abs o).activeDays := rfl
  have e4 : b.active_days = (clsNRE.abs b).activeDays := rfl
  have e5 : o.expiry_date = (clsNRE.abs o).endDate := rfl
  have e6 : b.expiry_date = (clsNRE.abs b).endDate := rfl
  rw [e1, e2, e3, e4, e5, e6, ho, hb]
  exact ⟨key.1, key.2.1, key.2.2.2.1, key.2.2.2.2.1⟩

/-- **C04 on the source**: a leak the code reports as repaired by a method was reached by a tag request of
that method on some day `T` it was active, no earlier request reached it, and its repair date is exactly
`T + max 1 (repair delay + that request's reporting delay)` -/
theorem C04_on_source (ev : Nat → List TagEv) (o0 : Obj) (h : WFR o0) (h0 : absR o0 = Emission.init) (N c : Nat)
    (hs : (clsRE.run ev o0 N).status = .repaired) (hc : (clsRE.run ev o0 N).tagged_by_company = .company c) :
    ∃ T : Nat, T < N ∧ a (parR false o0) ≤ T ∧ (clsRE.run ev o0 N).init_detect_date = some (T : Int) ∧
      (∃ e rest, ev T = e :: rest ∧ e.company = c ∧
        (clsRE.run ev o0 N).repair_date = some ((T : Int) + atLeastOne (o0.repair_delay + e.trd))) ∧
      (∀ t : Nat, t < T → a (parR false o0) ≤ t → ev t = []) := by
  have ho : absR (clsRE.run ev o0 N) = run (parR false o0) ev N := (clsRE.run_tie clsRE_ok ev o0 h h0 N).1
  have hs' : (run (parR false o0) ev N).status = .repaired := by rw [← ho]; exact hs
  have hc' : (run (parR false o0) ev N).by_ = .company c := by rw [← ho]; exact hc
  obtain ⟨T, hT, haT, hdet, ⟨e, rest, hev, hec, hend⟩, hno⟩ := C04_repair_needs_tag (parR false o0) rfl ev N c hs' hc'
  refine ⟨T, hT, haT, ?_, ⟨e, rest, hev, hec, ?_⟩, hno⟩
  · have : (clsRE.run ev o0 N).init_detect_date = (absR (clsRE.run ev o0 N)).initDetect := rfl
    rw [this, ho]; exact hdet
  · have : (clsRE.run ev o0 N).repair_date = (absR (clsRE.run ev o0 N)).endDate := rfl
    rw [this, ho]; exact hend

end LdarModel.EmissionOnSource
