/-
Layer 3 tie for the flagging decision of mobile screening methods (C09; DESIGN.md §10.21).

`Generated/FollowUpSrc.lean` is the translation of `SiteLevelMethod.update_mobile`, rewritten from
/repo's source on every run: the decision tree over the per-site flags and the threshold comparisons,
with every call on the candidate pool, on the plan and on the follow-up schedule recorded in `effects`.
`interp` gives each recorded call the meaning the model gives it (`poolTake`, `qFindLast` / `qRemove`,
`updPlan`, `enqueue`, `poolInsert`, `newPlan`).  `update_mobile_tie`: for every state in which the site's
plan can be found where the flags say it is, running the translated decision and interpreting its calls
yields the non-ghost part of `FollowUp.updMobile`.
-/
import LdarModel.Generated.FollowUpSrc
import LdarModel.Model.FollowUp

namespace LdarModel.FollowUpTie
open LdarModel.FollowUp LdarModel.FollowUpSrc

/-- what `update_mobile` touches, without the model's ghost bookkeeping -/
structure Core where
  pool : List Plan
  queue : List QE
  inPool : Bool          -- the site's entry of `_site_IDs_in_consideration_for_flag`
  inQueue : Bool         -- the site's entry of `_site_IDs_in_follow_up_queue`
  count : Nat
  deriving DecidableEq, Repr

def coreOf (site : Nat) (st : St) : Core :=
  { pool := st.m.pool, queue := st.sh.queue, inPool := st.m.inPool site, inQueue := st.sh.inQueue site, count := st.m.count }

/-- working state of the interpretation: the plan object in hand, pool and queue -/
structure W where
  cur : Option Plan := none
  pool : List Plan
  queue : List QE

def enq (cls : Nat) (pl : Plan) (q : List QE) : List QE := qInsert { cls := if pl.inProg then 1 else cls, plan := pl } q

/-- the meaning of one recorded call -/
def interp1 (p : Params) (dc : Int) (r : Rec) (w : W) (lab : String) : Option W :=
  if lab = "pool_take(detection_record.site_id)" then
    some { w with cur := (poolTake r.site w.pool).1, pool := (poolTake r.site w.pool).2 }
  else if lab = "queue_find(detection_record.site_id)" then
    some { w with cur := qFindLast r.site w.queue, queue := qRemove r.site w.queue }
  else if lab = "plan_update@$pool_take(detection_record, self._redund_filter, self._name, date_to_check)"
       ∨ lab = "plan_update@$queue_find(detection_record, self._redund_filter, self._name, date_to_check)" then
    some { w with cur := w.cur.map (fun pl => updPlan p pl r.rate dc) }
  else if lab = "enqueue2($pool_take)" ∨ lab = "enqueue2($queue_find)" then
    w.cur.map (fun pl => { w with queue := enq 2 pl w.queue })
  else if lab = "enqueue3($queue_find)" then
    w.cur.map (fun pl => { w with queue := enq 3 pl w.queue })
  else if lab = "pool_add($pool_take)" then
    w.cur.map (fun pl => { w with pool := poolInsert pl w.pool })
  else if lab = "enqueue2(new FollowUpSurveyPlanner)" then
    some { w with queue := enq 2 (newPlan p r dc) w.queue }
  else if lab = "pool_add(new FollowUpSurveyPlanner)" ∨ lab = "pool_add(new StationaryFollowUpSurveyPlanner)" then
    some { w with pool := poolInsert (newPlan p r dc) w.pool }
  else none

def interp (p : Params) (dc : Int) (r : Rec) : List String → W → Option W
  | [], w => some w
  | l :: ls, w => (interp1 p dc r w l).bind (interp p dc r ls)

/-- the object the translated method starts from, for model state `st` and record `r`; `pl'` is the site's
plan after `update_with_latest_survey` (taken from the pool or from the queue, wherever the flags say) -/
def Rel (o : Obj) (p : Params) (dc : Int) (r : Rec) (st : St) : Prop :=
  o.effects = [] ∧ o.in_pool = st.m.inPool r.site ∧ o.in_queue = st.sh.inQueue r.site ∧
  o.rec_rate = r.rate ∧ o.threshold = p.thr ∧ o.rec_ge_inst = geInst p r.rate ∧
  o.detection_count = (st.m.count : Rat) ∧
  (st.m.inPool r.site = true → ∃ pl, (poolTake r.site st.m.pool).1 = some pl ∧
      o.plan_ge_inst = geInst p (updPlan p pl r.rate dc).rate ∧ o.plan_ge_thr = decide (p.thr ≤ (updPlan p pl r.rate dc).rate)) ∧
  (st.m.inPool r.site = false → st.sh.inQueue r.site = true → ∃ pl, qFindLast r.site st.sh.queue = some pl ∧
      o.plan_ge_inst = geInst p (updPlan p pl r.rate dc).rate ∧ o.plan_ge_thr = decide (p.thr ≤ (updPlan p pl r.rate dc).rate))

theorem poolTake_site (s : Nat) : ∀ (l : List Plan) (pl : Plan), (poolTake s l).1 = some pl → pl.site = s := by
  intro l
  induction l with
  | nil => intro pl h; simp [poolTake] at h
  | cons y t ih =>
    intro pl h
    unfold poolTake at h
    by_cases c : y.site = s
    · simp [c] at h; rw [← h]; exact c
    · simp [c] at h; exact ih pl h

theorem updPlan_site (p : Params) (pl : Plan) (x : Rat) (dc : Int) : (updPlan p pl x dc).site = pl.site := by
  unfold updPlan; split <;> rfl

/-- **`update_mobile` is `updMobile`** (non-ghost part): pool, queue, the site's two flags and the
detection counter after the translated decision + its interpreted calls are those of the model -/
theorem update_mobile_tie (o : Obj) (p : Params) (d dc : Int) (r : Rec) (st : St) (h : Rel o p dc r st) :
    let o' := (update_mobile o).1
    ∃ w, interp p dc r o'.effects { pool := st.m.pool, queue := st.sh.queue } = some w ∧
      coreOf r.site (updMobile p d dc r st)
        = { pool := w.pool, queue := w.queue, inPool := o'.in_pool, inQueue := o'.in_queue,
            count := (coreOf r.site (updMobile p d dc r st)).count }
      ∧ o'.detection_count = ((updMobile p d dc r st).m.count : Rat) := by
  obtain ⟨he, hip, hiq, hrr, hth, hgi, hdc, hpool, hqueue⟩ := h
  by_cases c1 : st.m.inPool r.site = true
  · obtain ⟨pl, hpl, hpi, hpt⟩ := hpool c1
    cases hpk : poolTake r.site st.m.pool with
    | mk x pool' =>
      simp only [hpk] at hpl
      subst hpl
      have hsite : (updPlan p pl r.rate dc).site = r.site := by
        rw [updPlan_site]; exact poolTake_site r.site st.m.pool pl (by rw [hpk])
      by_cases c2 : geInst p (updPlan p pl r.rate dc).rate = true
      · simp [update_mobile, updMobile, coreOf, interp, interp1, enq, he, hip, hiq, c1, hpi, c2, hpk, hdc,
            flagSite, enqueue, setB, hsite]
      · by_cases c3 : p.thr ≤ (updPlan p pl r.rate dc).rate
        · simp [update_mobile, updMobile, coreOf, interp, interp1, enq, he, hip, hiq, c1, hpi, hpt, c2, c3, hpk, hdc]
        · simp [update_mobile, updMobile, coreOf, interp, interp1, enq, he, hip, hiq, c1, hpi, hpt, c2, c3, hpk, hdc, setB]
  · have c1' : st.m.inPool r.site = false := by simpa using c1
    by_cases c4 : st.sh.inQueue r.site = true
    · obtain ⟨pl, hpl, hpi, hpt⟩ := hqueue c1' c4
      by_cases c2 : geInst p (updPlan p pl r.rate dc).rate = true
      · simp [update_mobile, updMobile, coreOf, interp, interp1, enq, he, hip, hiq, c1', c4, hpi, c2, hpl, hdc, enqueue]
      · by_cases c3 : p.thr ≤ (updPlan p pl r.rate dc).rate
        · simp [update_mobile, updMobile, coreOf, interp, interp1, enq, he, hip, hiq, c1', c4, hpi, hpt, c2, c3, hpl, hdc, enqueue]
        · simp [update_mobile, updMobile, coreOf, interp, interp1, enq, he, hip, hiq, c1', c4, hpi, hpt, c2, c3, hpl, hdc, setB]
    · have c4' : st.sh.inQueue r.site = false := by simpa using c4
      by_cases c5 : geInst p r.rate = true
      · simp [update_mobile, updMobile, coreOf, interp, interp1, enq, he, hip, hiq, c1', c4', hgi, c5, hdc, flagSite, enqueue, setB, newPlan]
      · by_cases c6 : r.rate ≠ 0 ∧ p.thr ≤ r.rate
        · simp [update_mobile, updMobile, coreOf, interp, interp1, enq, he, hip, hiq, c1', c4', hgi, c5, hrr, hth, c6, hdc, setB]
        · by_cases c7 : 0 < r.rate
          · simp [update_mobile, updMobile, coreOf, interp, interp1, enq, he, hip, hiq, c1', c4', hgi, c5, hrr, hth, c6, c7, hdc]
          · simp [update_mobile, updMobile, coreOf, interp, interp1, enq, he, hip, hiq, c1', c4', hgi, c5, hrr, hth, c6, c7, hdc]

/-- **`update_stationary` is `updStationary`** (non-ghost part) -/
theorem update_stationary_tie (o : Obj) (p : Params) (d dc : Int) (r : Rec) (st : St) (h : Rel o p dc r st) :
    let o' := (update_stationary o).1
    ∃ w, interp p dc r o'.effects { pool := st.m.pool, queue := st.sh.queue } = some w ∧
      coreOf r.site (updStationary p d dc r st)
        = { pool := w.pool, queue := w.queue, inPool := o'.in_pool, inQueue := o'.in_queue,
            count := (coreOf r.site (updStationary p d dc r st)).count }
      ∧ o'.detection_count = ((updStationary p d dc r st).m.count : Rat) := by
  obtain ⟨he, hip, hiq, hrr, hth, hgi, hdc, hpool, hqueue⟩ := h
  by_cases c1 : st.m.inPool r.site = true
  · obtain ⟨pl, hpl, hpi, hpt⟩ := hpool c1
    cases hpk : poolTake r.site st.m.pool with
    | mk x pool' =>
      simp only [hpk] at hpl
      subst hpl
      have hsite : (updPlan p pl r.rate dc).site = r.site := by
        rw [updPlan_site]; exact poolTake_site r.site st.m.pool pl (by rw [hpk])
      by_cases c2 : geInst p (updPlan p pl r.rate dc).rate = true
      · simp [update_stationary, updStationary, coreOf, interp, interp1, enq, he, hip, hiq, c1, hpi, c2, hpk, hdc,
            flagSite, enqueue, setB, hsite]
      · simp [update_stationary, updStationary, coreOf, interp, interp1, enq, he, hip, hiq, c1, hpi, c2, hpk, hdc]
  · have c1' : st.m.inPool r.site = false := by simpa using c1
    by_cases c4 : st.sh.inQueue r.site = true
    · obtain ⟨pl, hpl, hpi, hpt⟩ := hqueue c1' c4
      by_cases c2 : geInst p (updPlan p pl r.rate dc).rate = true
      · simp [update_stationary, updStationary, coreOf, interp, interp1, enq, he, hip, hiq, c1', c4, hpi, c2, hpl, hdc, enqueue]
      · simp [update_stationary, updStationary, coreOf, interp, interp1, enq, he, hip, hiq, c1', c4, hpi, c2, hpl, hdc, enqueue]
    · have c4' : st.sh.inQueue r.site = false := by simpa using c4
      simp [update_stationary, updStationary, coreOf, interp, interp1, enq, he, hip, hiq, c1', c4', hdc, setB]

theorem all_translated : FollowUpSrc.untranslated = [] := by decide

end LdarModel.FollowUpTie

/-! non-vacuity: a site in the candidate pool (rate 3) is screened again at rate 5 with threshold 2 and no
instant threshold: `Rel` holds and the translated decision takes the plan, updates it and puts it back -/
namespace LdarModel.FollowUpTie
open LdarModel.FollowUp LdarModel.FollowUpSrc

def exPl : Plan := { site := 7, rate := 3, rateLong := 0, rates := [3], latest := 1 }
def exSt : St := { m := { pool := [exPl], inPool := fun s => s = 7 }, sh := {} }
def exPar : Params := { thr := 2 }
def exRec : Rec := { date := 4, site := 7, rate := 5 }
def exObj : Obj :=
  { detection_count := 0, threshold := 2, in_pool := true, in_queue := false, plan_ge_inst := false,
    plan_ge_thr := true, rec_ge_inst := false, rec_rate := 5, effects := [] }

example : Rel exObj exPar 4 exRec exSt := by
  refine ⟨rfl, by decide, by decide, by decide, by decide, by decide, by decide, ?_, ?_⟩
  · intro _; exact ⟨exPl, by decide, by decide, by decide⟩
  · intro h; simp [exSt, exRec] at h

example : (update_mobile exObj).1.effects =
    ["pool_take(detection_record.site_id)",
     "plan_update@$pool_take(detection_record, self._redund_filter, self._name, date_to_check)",
     "pool_add($pool_take)"] := by decide

end LdarModel.FollowUpTie
