import LdarModel.Lemmas.Crew
import LdarModel.Lemmas.CrewGeneric
import LdarModel.Generated.CrewCost
/-
C08 — crews never exceed their workday and never work in disallowed weather.

Model: `Model/Crew.lean` (`surveyStep`, `deployDay`, `dayBudget`, `checkWeather`).
Quantified over every method description, day budget, crew count and work plan (any number of
requests with any survey / travel times, partial progress, per-site weather), i.e. over every run
of the loop of `deploy_crews`.
-/
namespace LdarModel.Crew

/-- the property at full strength over one day of `deploy_crews` -/
def C08_statement : Prop :=
  -- the budget the loop is started with is the workday, capped by daylight when daylight is
  -- considered, and with that budget no crew's minutes (incl. the trip home) exceed either
  (∀ (p : MethodP) (cd : Bool) (w dl : Int) (n : Nat) (reqs : List Req), 0 ≤ w → 0 ≤ dl →
    (∀ r ∈ reqs, ReqOk p r) →
    dayBudget cd w dl = 60 * (if cd then min w dl else w) ∧
    ∀ c ∈ (deployDay p (dayBudget cd w dl) n reqs).crews,
      crewMinutes c.id (deployDay p (dayBudget cd w dl) n reqs).out
        + crewHome c.id (deployDay p (dayBudget cd w dl) n reqs).out ≤ 60 * w ∧
      (cd = true → crewMinutes c.id (deployDay p (dayBudget cd w dl) n reqs).out
        + crewHome c.id (deployDay p (dayBudget cd w dl) n reqs).out ≤ 60 * dl)) ∧
  ∀ (p : MethodP) (budget : Int) (n : Nat) (reqs : List Req),
    0 ≤ budget → (∀ r ∈ reqs, ReqOk p r) →
    let d := deployDay p budget n reqs
    -- remaining time is never negative; the minutes charged to a crew over its visits of the day
    -- (travel + survey) plus its trip home never exceed the budget
    (∀ c ∈ d.crews, 0 ≤ c.rem ∧ crewMinutes c.id d.out + crewHome c.id d.out ≤ budget) ∧
    -- every single visit: minutes handed in are split exactly, nothing negative, and after a
    -- completed or partial survey the trip home still fits
    (∀ o ∈ d.out, ∀ s, o.step = some s →
        s.rem + s.travel + s.today = o.rBefore ∧ 0 ≤ s.rem ∧ 0 ≤ s.travel ∧ 0 ≤ s.today ∧
        (s.complete = true → s.travel ≤ s.rem)) ∧
    -- no more crews are used than the method has
    (d.crews.length = n ∧ countDeployed d.crews ≤ n ∧ ∀ o ∈ d.out, ∀ k, o.crew = some k → k < n) ∧
    -- weather: a visited site had workable weather (inside the envelope when weather is considered);
    -- an unworkable site's report is untouched and its request goes back to the queue
    (∀ o ∈ d.out, ∀ s, o.step = some s → s.visited = true →
        workable p o.req = true ∧ (p.considerWeather = true → checkWeather p.env o.req.wx = true)) ∧
    (∀ o ∈ d.out, workable p o.req = false → o.rep = o.req.rep ∧ requeueClass o.rep ≠ none) ∧
    -- one record per planned request, in plan order
    d.out.map (·.req) = reqs ∧
    -- the reports handed back for unfinished surveys are again admissible requests: the day can
    -- be iterated ("all days of a simulation")
    (∀ o ∈ d.out, o.rep.complete = false → ReqOk p { o.req with rep := o.rep })

/-! ### the survey step (all integer `R, S, T, P`) -/

theorem rem_nonneg {R S T P : Int} {st : Bool} (h : StepOk R S T P st) (w : Bool) :
    0 ≤ (surveyStep R S T P st w).rem := step_rem_nonneg h w

/-- a completed survey leaves at least the travel time: the trip home fits -/
theorem complete_trip_home_fits {R S T P : Int} {st : Bool} (h : StepOk R S T P st) (w : Bool)
    (hc : (surveyStep R S T P st w).complete = true) :
    (surveyStep R S T P st w).travel ≤ (surveyStep R S T P st w).rem :=
  step_home_fits h w (Or.inl ((step_complete_iff R S T P st w).1 hc))

/-- the three-way decision, spelled out: complete iff `R ≥ S + 2T − P` (stationary: always),
otherwise partial iff `R > 2T`, otherwise nothing is done -/
theorem step_decision (R S T P : Int) (w : Bool) :
    ((surveyStep R S T P false true).branch = .complete ↔ R ≥ S + 2 * T - P) ∧
    ((surveyStep R S T P false true).branch = .partial_ ↔ (¬ R ≥ S + 2 * T - P ∧ R > 2 * T)) ∧
    (surveyStep R S T P true true).branch = .complete ∧
    (surveyStep R S T P false false).branch = .unworkable ∧ (surveyStep R S T P true w).visited = w := by
  unfold surveyStep effS effT
  grind

/-! ### the day -/

/-- remaining time of every crew is non-negative at the end of (and, being an invariant of the
loop, throughout) the day -/
theorem day_rem_nonneg (p : MethodP) (budget : Int) (hb : 0 ≤ budget) (n : Nat) (reqs : List Req)
    (hreq : ∀ r ∈ reqs, ReqOk p r) : ∀ c ∈ (deployDay p budget n reqs).crews, 0 ≤ c.rem :=
  fun c hc => (deployDay_crewInv p budget hb n reqs hreq c hc).rem

/-- **day budget**: for every crew, the sum over its visits of the day of travel charged + minutes
surveyed, plus the final trip home, is within the budget of the day -/
theorem day_budget (p : MethodP) (budget : Int) (hb : 0 ≤ budget) (n : Nat) (reqs : List Req)
    (hreq : ∀ r ∈ reqs, ReqOk p r) :
    ∀ c ∈ (deployDay p budget n reqs).crews,
      crewMinutes c.id (deployDay p budget n reqs).out + crewHome c.id (deployDay p budget n reqs).out
        ≤ budget := by
  intro c hc
  have h1 := (deployDay_crewInv p budget hb n reqs hreq c hc).fits
  have h2 := (deployDay_traceInv p budget n reqs).spent c hc
  have h3 := deployDay_home p budget n reqs c hc
  omega

/-- the budget is the workday, capped by daylight when the method is daylight sensitive -/
theorem budget_daylight (w d : Int) :
    dayBudget true w d = 60 * min w d ∧ dayBudget false w d = 60 * w ∧
    dayBudget true w d ≤ 60 * w ∧ dayBudget true w d ≤ 60 * d := by
  unfold dayBudget
  grind

/-- so no crew works (incl. travel and the trip home) longer than the workday, nor longer than
daylight when daylight is considered -/
theorem day_budget_workday (p : MethodP) (cd : Bool) (w d : Int) (hw : 0 ≤ w) (hd : 0 ≤ d) (n : Nat)
    (reqs : List Req) (hreq : ∀ r ∈ reqs, ReqOk p r) :
    ∀ c ∈ (deployDay p (dayBudget cd w d) n reqs).crews,
      crewMinutes c.id (deployDay p (dayBudget cd w d) n reqs).out
        + crewHome c.id (deployDay p (dayBudget cd w d) n reqs).out ≤ 60 * w ∧
      (cd = true → crewMinutes c.id (deployDay p (dayBudget cd w d) n reqs).out
        + crewHome c.id (deployDay p (dayBudget cd w d) n reqs).out ≤ 60 * d) := by
  intro c hc
  have hb : 0 ≤ dayBudget cd w d := by unfold dayBudget; grind
  have h := day_budget p (dayBudget cd w d) hb n reqs hreq c hc
  have hbd := budget_daylight w d
  cases cd
  · simp only [Bool.false_eq_true, false_implies, and_true]; omega
  · exact ⟨by omega, fun _ => by omega⟩

/-- every visit of the day splits the minutes it was handed exactly and leaves nothing negative -/
theorem day_visits (p : MethodP) (budget : Int) (hb : 0 ≤ budget) (n : Nat) (reqs : List Req)
    (hreq : ∀ r ∈ reqs, ReqOk p r) :
    ∀ o ∈ (deployDay p budget n reqs).out, ∀ s, o.step = some s →
      s.rem + s.travel + s.today = o.rBefore ∧ 0 ≤ s.rem ∧ 0 ≤ s.travel ∧ 0 ≤ s.today ∧
      (s.complete = true → s.travel ≤ s.rem) := by
  intro o ho s hs
  have hrec := (deployDay_recOk p budget n reqs o ho).1 s hs
  have hrb := (deployDay_bookInv p budget hb n reqs hreq).rb o ho
  have hreqs : o.req ∈ reqs := by
    have := serveAll_reqs p reqs { crews := initCrews budget n }
    have hm : o.req ∈ (deployDay p budget n reqs).out.map (·.req) := List.mem_map.2 ⟨o, ho, rfl⟩
    unfold deployDay at hm; rw [finalize_out, this] at hm; simpa using hm
  have ok := (hreq o.req hreqs).stepOk hrb
  rw [hrec.1]
  exact ⟨step_conserve _ _ _ _ _ _, step_rem_nonneg ok _, step_travel_nonneg ok _,
         step_today_nonneg ok _, fun hc => complete_trip_home_fits ok _ hc⟩

/-- no more crews are used than the method has; every visit is made by one of its crews -/
theorem crews_used (p : MethodP) (budget : Int) (hb : 0 ≤ budget) (n : Nat) (reqs : List Req)
    (hreq : ∀ r ∈ reqs, ReqOk p r) :
    (deployDay p budget n reqs).crews.length = n ∧ countDeployed (deployDay p budget n reqs).crews ≤ n ∧
    ∀ o ∈ (deployDay p budget n reqs).out, ∀ k, o.crew = some k → k < n := by
  have h := deployDay_bookInv p budget hb n reqs hreq
  refine ⟨h.len, ?_, h.ids⟩
  have : countDeployed (deployDay p budget n reqs).crews ≤ (deployDay p budget n reqs).crews.length := by
    unfold countDeployed; exact List.length_filter_le _ _
  have hl := h.len
  omega

/-- **configured crews**: a mobile method configured with a positive `crew_count` has exactly that
many crews -- not LDAR-Sim's own estimate, however large -- so on any day no more than the configured
number of crews is deployed, every visit is made by a crew with id below it, and the crew-minutes of
the day (travel + survey + trips home, summed over crews) are within `crew_count x budget` -/
theorem configured_crews_bound (p : MethodP) (followUp : Bool) (configured estimate : Nat)
    (hst : p.stationary = false) (hc : 0 < configured) (budget : Int) (hb : 0 ≤ budget)
    (reqs : List Req) (hreq : ∀ r ∈ reqs, ReqOk p r) :
    let d := deployConfigured p followUp configured estimate budget reqs
    methodCrews p.stationary followUp configured estimate = configured ∧
    d.crews.length = configured ∧ countDeployed d.crews ≤ configured ∧
    (∀ o ∈ d.out, ∀ k, o.crew = some k → k < configured) ∧
    (d.crews.map (fun c => crewMinutes c.id d.out + crewHome c.id d.out)).sum ≤ configured * budget := by
  have hm : methodCrews p.stationary followUp configured estimate = configured := by
    unfold methodCrews; simp [hst, hc]
  simp only [deployConfigured, hm]
  have hcu := crews_used p budget hb configured reqs hreq
  have hbud := day_budget p budget hb configured reqs hreq
  refine ⟨trivial, hcu.1, hcu.2.1, hcu.2.2, ?_⟩
  have hlen := hcu.1
  generalize (deployDay p budget configured reqs) = d at *
  -- every summand is ≤ budget, and there are `configured` of them
  have key : ∀ (cs : List CrewSt), (∀ c ∈ cs, crewMinutes c.id d.out + crewHome c.id d.out ≤ budget) →
      (cs.map (fun c => crewMinutes c.id d.out + crewHome c.id d.out)).sum ≤ (cs.length : Int) * budget := by
    intro cs
    induction cs with
    | nil => intro _; simp
    | cons c cs ih =>
      intro h
      have h1 := h c (by simp)
      have h2 := ih (fun x hx => h x (by simp [hx]))
      simp only [List.map_cons, List.sum_cons, List.length_cons]
      have : ((cs.length + 1 : Nat) : Int) * budget = (cs.length : Int) * budget + budget := by
        rw [Int.natCast_add, Int.add_mul]; simp
      omega
  have := key d.crews hbud
  rw [hlen] at this
  exact this

/-- what `crew_count` means in each case: stationary → one pseudo crew; positive → exactly that;
0 → the estimate (1 for a follow-up method) -/
theorem methodCrews_table (followUp : Bool) (configured estimate : Nat) :
    methodCrews true followUp configured estimate = 1 ∧
    (0 < configured → methodCrews false followUp configured estimate = configured) ∧
    methodCrews false true 0 estimate = 1 ∧ methodCrews false false 0 estimate = estimate := by
  unfold methodCrews
  refine ⟨by simp, fun h => by simp [h], by simp, by simp⟩

/-- weather, part 1: a site is visited only when its weather is workable, i.e. (when weather is
considered) temperature, wind and precipitation are all inside the method's envelope -/
theorem weather_visited (p : MethodP) (budget : Int) (n : Nat) (reqs : List Req) :
    ∀ o ∈ (deployDay p budget n reqs).out, ∀ s, o.step = some s → s.visited = true →
      workable p o.req = true ∧ (p.considerWeather = true → checkWeather p.env o.req.wx = true) := by
  intro o ho s hs hv
  have hrec := (deployDay_recOk p budget n reqs o ho).1 s hs
  rw [hrec.1, step_visited_iff] at hv
  refine ⟨hv, fun hc => ?_⟩
  simpa [workable, hc] using hv

theorem checkWeather_iff (e : Envelope) (w : Wx) :
    checkWeather e w = true ↔
      (w.tempMissing = false ∧ e.tempLo ≤ w.temp ∧ w.temp ≤ e.tempHi) ∧
      (w.windMissing = false ∧ e.windLo ≤ w.wind ∧ w.wind ≤ e.windHi) ∧
      (w.precipMissing = false ∧ e.precipLo ≤ w.precip ∧ w.precip ≤ e.precipHi) := by
  unfold checkWeather
  simp only [Bool.and_eq_true, decide_eq_true_eq, Bool.not_eq_true']
  constructor
  · rintro ⟨⟨⟨h1, h2⟩, ⟨h3, h4⟩⟩, ⟨h5, h6⟩⟩; exact ⟨⟨h5, h6⟩, ⟨h3, h4⟩, ⟨h1, h2⟩⟩
  · rintro ⟨⟨h5, h6⟩, ⟨h3, h4⟩, ⟨h1, h2⟩⟩; exact ⟨⟨⟨h1, h2⟩, ⟨h3, h4⟩⟩, ⟨h5, h6⟩⟩

/-- **a missing weather value is never workable**: if temperature, wind or precipitation at the
site's cell is missing (NaN in the weather file) the envelope test fails whatever the envelope, so
(`weather_visited`) a method that considers weather never visits the site that day and
(`weather_unworkable`) the request goes back to the queue untouched -/
theorem missing_never_workable (e : Envelope) (w : Wx)
    (h : w.tempMissing = true ∨ w.windMissing = true ∨ w.precipMissing = true) :
    checkWeather e w = false := by
  cases hc : checkWeather e w with
  | false => rfl
  | true =>
    have := (checkWeather_iff e w).1 hc
    rcases h with h | h | h <;> simp_all

theorem missing_not_visited (p : MethodP) (budget : Int) (n : Nat) (reqs : List Req)
    (hw : p.considerWeather = true) :
    ∀ o ∈ (deployDay p budget n reqs).out,
      (o.req.wx.tempMissing = true ∨ o.req.wx.windMissing = true ∨ o.req.wx.precipMissing = true) →
      ∀ s, o.step = some s → s.visited = false := by
  intro o ho hm s hs
  cases hv : s.visited with
  | false => rfl
  | true =>
    have := (weather_visited p budget n reqs o ho s hs hv).2 hw
    rw [missing_never_workable p.env o.req.wx hm] at this
    exact absurd this (by simp)

/-- weather, part 2: when the weather at a site is not workable its report is handed back unchanged
(no minutes, no flags) and the schedule re-queues the request -/
theorem weather_unworkable (p : MethodP) (budget : Int) (n : Nat) (reqs : List Req)
    (hreq : ∀ r ∈ reqs, ReqOk p r) :
    ∀ o ∈ (deployDay p budget n reqs).out, workable p o.req = false →
      o.rep = o.req.rep ∧ requeueClass o.rep ≠ none := by
  intro o ho hw
  have hrec := deployDay_recOk p budget n reqs o ho
  have hreqs : o.req ∈ reqs := by
    have := serveAll_reqs p reqs { crews := initCrews budget n }
    have hm : o.req ∈ (deployDay p budget n reqs).out.map (·.req) := List.mem_map.2 ⟨o, ho, rfl⟩
    unfold deployDay at hm; rw [finalize_out, this] at hm; simpa using hm
  have hc := (hreq o.req hreqs).hC
  have heq : o.rep = o.req.rep := by
    cases hs : o.step with
    | none => exact (hrec.2 hs).1
    | some s =>
      have := hrec.1 s hs
      rw [this.2.1, this.1, hw, step_unworkable]; rfl
  refine ⟨heq, ?_⟩
  rw [heq]; unfold requeueClass; simp [hc]
  split <;> simp

/-- one record (one report) per planned request, in plan order -/
theorem one_report_per_request (p : MethodP) (budget : Int) (n : Nat) (reqs : List Req) :
    (deployDay p budget n reqs).out.map (·.req) = reqs := by
  have := serveAll_reqs p reqs { crews := initCrews budget n }
  unfold deployDay; rw [finalize_out, this]; simp

/-- **next-day invariant**: a report that `deploy_crews` hands back unfinished is again an admissible
request (`0 ≤ P ≤ S`, stationary ⇒ `P = 0`, not complete), so every theorem about one day applies to
the next day's plan built from today's reports -/
theorem out_reqOk (p : MethodP) (budget : Int) (hb : 0 ≤ budget) (n : Nat) (reqs : List Req)
    (hreq : ∀ r ∈ reqs, ReqOk p r) :
    ∀ o ∈ (deployDay p budget n reqs).out, o.rep.complete = false →
      ReqOk p { o.req with rep := o.rep } := by
  intro o ho hc
  have hrec := deployDay_recOk p budget n reqs o ho
  have hrb := (deployDay_bookInv p budget hb n reqs hreq).rb o ho
  have hreqs : o.req ∈ reqs := by
    have := serveAll_reqs p reqs { crews := initCrews budget n }
    have hm : o.req ∈ (deployDay p budget n reqs).out.map (·.req) := List.mem_map.2 ⟨o, ho, rfl⟩
    unfold deployDay at hm; rw [finalize_out, this] at hm; simpa using hm
  have hq := hreq o.req hreqs
  cases hs : o.step with
  | none =>
    have := (hrec.2 hs).1
    exact ⟨hq.hT, by rw [this]; exact hq.hP, by rw [this]; exact hq.hPS, by rw [this]; exact hq.hSt, hc⟩
  | some s =>
    obtain ⟨h1, h2, _⟩ := hrec.1 s hs
    have ok := hq.stepOk hrb
    have hsv := step_surveyed ok (workable p o.req)
    have hid := step_idle o.rBefore o.req.S o.req.T o.req.rep.surveyed p.stationary (workable p o.req)
    have htd := step_today_nonneg ok (workable p o.req)
    rw [← h1] at hsv hid htd
    simp only at hsv
    have hbr : s.branch = .unworkable ∨ s.branch = .complete ∨ s.branch = .partial_ ∨ s.branch = .noTime := by
      cases s.branch <;> simp
    have hP := hq.hP
    have hPS := hq.hPS
    have hSt := hq.hSt
    have hE : effS p.stationary o.req.S = if p.stationary = true then 0 else o.req.S := rfl
    refine ⟨hq.hT, ?_, ?_, ?_, hc⟩ <;> (rw [h2] at hc ⊢; unfold applyStep at hc ⊢) <;>
      rcases hbr with hb' | hb' | hb' | hb' <;> simp only [hb'] at hc hsv hid ⊢ <;> grind

/-- C08, for every method, budget, crew count and work plan -/
theorem C08 : C08_statement := by
  refine ⟨fun p cd w dl n reqs hw hd hreq => ⟨?_, day_budget_workday p cd w dl hw hd n reqs hreq⟩, ?_⟩
  · have := budget_daylight w dl
    cases cd <;> simp [this]
  intro p budget n reqs hb hreq
  refine ⟨?_, day_visits p budget hb n reqs hreq, crews_used p budget hb n reqs hreq,
          weather_visited p budget n reqs, weather_unworkable p budget n reqs hreq,
          one_report_per_request p budget n reqs, out_reqOk p budget hb n reqs hreq⟩
  intro c hc
  exact ⟨day_rem_nonneg p budget hb n reqs hreq c hc, day_budget p budget hb n reqs hreq c hc⟩

/-- the same budget facts for fractional minutes (daylight hours are fractional): over any linearly
ordered field the step never leaves a negative remainder, splits the minutes exactly, and leaves
room for the trip home after a completed or partial survey -/
theorem step_budget_fractional {α : Type} [Field α] [LinearOrder α] [IsStrictOrderedRing α]
    (R S T P : α) (hR : 0 ≤ R) (hT : 0 ≤ T) (hP : 0 ≤ P) (hPS : P ≤ S) (w : Bool) :
    let o := stepG R S T P w
    o.rem + o.travel + o.today = R ∧ 0 ≤ o.rem ∧ 0 ≤ o.travel ∧ 0 ≤ o.today ∧
    (o.reached = true → o.travel ≤ o.rem) :=
  stepG_budget R S T P hR hT hP hPS w

theorem budget_daylight_fractional {α : Type} [Field α] [LinearOrder α] [IsStrictOrderedRing α]
    (w d : α) : dayBudgetG true w d = 60 * min w d ∧ dayBudgetG false w d = 60 * w :=
  dayBudgetG_eq w d

/-- the day loop does not depend on the unit of time: an instance whose minutes are rationals with
common denominator `k` is the integer instance measured in units of `1/k` minute, and measuring in a
finer unit changes no decision and scales every time output — so `day_budget`, `day_rem_nonneg`, …
hold for it verbatim (this is how the fractional-daylight correspondence feeds the driver) -/
theorem day_unit_free (k : Int) (hk : 0 < k) (p : MethodP) (budget : Int) (n : Nat) (reqs : List Req) :
    deployDay p (k * budget) n (reqs.map (scaleReq k)) = scaleDay k (deployDay p budget n reqs) ∧
    ∀ R S T P st w, surveyStep (k * R) (k * S) (k * T) (k * P) st w = scaleOut k (surveyStep R S T P st w) :=
  ⟨deployDay_scale k hk p budget n reqs, fun R S T P st w => surveyStep_scale k hk R S T P st w⟩

/-! ### table obligations (regenerated from /repo on every run: `Generated/CrewCost.lean`) -/

/-- the model has no state that survives from one `deploy_crews` call, method or day to the next
beyond what it is handed; the code it models must not have any either: no function of the modelled
modules mutates a class-level / module-level / imported constant container, none is cached -/
theorem crew_no_cross_case_state :
    Generated.CrewCost.sharedContainerMutations = [] ∧ Generated.CrewCost.cachedFunctions = [] ∧
    Generated.CrewCost.moduleLevelContainers = [] := by decide

/-- what is handed to a worker process arrives as it was sent: for every class with a pickling hook
the argument tuple of `__reduce__` lists the attributes in the order `_reconstruct` stores them -/
theorem pickle_roundtrip_order :
    ∀ e ∈ Generated.CrewCost.pickleOrder, e.2.2.1 = e.2.2.2 := by decide

/-! ### non-vacuity -/

private def envOk : Envelope := { tempLo := -10, tempHi := 25, windLo := 0, windHi := 8, precipLo := 0, precipHi := 3 }
private def pM : MethodP := { stationary := false, perSite := true, unitCost := 50, considerWeather := true, env := envOk }
private def fine : Wx := { temp := 15, wind := 1, precip := 0 }
private def rain : Wx := { temp := 15, wind := 1, precip := 9 }

/-- two crews, four sites, 8 h: a 420-minute survey exhausts crew 0 exactly (420 + 2·30 = 480), a
rainy site is skipped, a long survey is left partial with the trip home reserved, one request finds
no crew -/
example :
    let reqs : List Req := [
      { site := 0, S := 420, siteCost := 0, rep := {}, T := 30, wx := fine },
      { site := 1, S := 60, siteCost := 0, rep := {}, T := 30, wx := rain },
      { site := 2, S := 600, siteCost := 0, rep := {}, T := 20, wx := fine },
      { site := 3, S := 60, siteCost := 0, rep := {}, T := 10, wx := fine }]
    let d := deployDay pM 480 2 reqs
    (∀ r ∈ reqs, r.T ≥ 0 ∧ r.rep.surveyed = 0 ∧ r.S ≥ 0) ∧
    d.crews.map (fun c => (c.id, c.rem, c.deployed, c.spent, c.home)) = [(0, 0, true, 450, 30), (1, 0, true, 460, 20)] ∧
    d.out.map (fun o => (o.crew, o.rep.surveyed, o.rep.complete, o.rep.inProgress)) =
      [(some 0, 420, true, false), (some 1, 0, false, false), (some 1, 440, false, true), (none, 0, false, false)] ∧
    d.stats.cost = 50 := by
  decide +kernel

example : dayBudget true 8 6 = 360 ∧ dayBudget true 8 14 = 480 ∧ dayBudget false 8 6 = 480 := by
  decide +kernel

end LdarModel.Crew
