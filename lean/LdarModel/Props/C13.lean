import LdarModel.Lemmas.Window
/-
C13 — measurement-based inventory: estimation windows tile the simulated period.

Model: `Model/Window.lean` (`report`, `groupWins`, `winsFrom`, `exactRounding`, `Tiles`), the code as
repaired in /repo (only `duration * factor` is rounded, the complementary share is taken by
subtraction; start and end dates are computed per group).  The statement is over both modes (per site / per site-equipment-component),
every duration factor `f = p/q ∈ [0,1]`, every table of survey reports inside the period (any
number of sites and components, any spacing including equal dates and surveys on the first and
last day, any rates including zero and equal rates).

`C13_tiling_any_rounding` is the form that covers the floating point implementation: whatever
integers in `[0, gap]` the code obtains for `floor(gap * factor)` and `ceil(gap * factor)`, the
windows still tile.
-/
namespace LdarModel.Window

/-- share clause on consecutive windows of a group: of the `g` days between two consecutive
measurements the larger one (the earlier one when they are equal) receives `lo g` days when it is
the earlier and `hi g` days when it is the later one, the other measurement receives the rest -/
def ShareOK (lo hi : Int → Int) : List Win → Prop
  | w :: w' :: ws =>
    (if w'.rate ≤ w.rate then w.stop - w.date = lo (w'.date - w.date)
      else w'.date - w'.start = hi (w'.date - w.date))
    ∧ (w.stop - w.date) + (w'.date - w'.start) = w'.date - w.date
    ∧ ShareOK lo hi (w' :: ws)
  | _ => True

/-- volume clause: estimated volume = measured rate × window days × 86.4, rates being
`rate / scale` g/s and the model's volume `volNum / (10·scale)` -/
def VolumeOK (scale : Nat) (ws : List Win) : Prop :=
  ∀ w ∈ ws, ((w.volNum : Int) : ℚ) / (10 * (scale : ℚ))
      = ((w.rate : ℚ) / (scale : ℚ)) * ((w.stop - w.start : Int) : ℚ) * (864 / 10)

/-- the property at full strength -/
def C13_statement : Prop :=
  ∀ (m : Mode) (f : Fac) (S E : Int) (scale : Nat) (recs : List Rec),
    f.Valid → 0 < scale → S ≤ E → (∀ r ∈ recs, S ≤ r.date ∧ r.date ≤ E) →
    -- every surveyed site (component) has a group of windows
    (∀ r ∈ relevant m recs, ∃ kw ∈ report m (exactRounding f) S E recs, kw.1 = keyOf m r) ∧
    -- whose windows partition the period, give the share `f` (⌊g·f⌋ or ⌈g·f⌉ days of an interval of
    -- g days) to the larger bounding measurement and carry the volume
    (∀ kw ∈ report m (exactRounding f) S E recs,
      Tiles S E kw.2 ∧
      ShareOK (fun (g : Int) => ⌊(g : ℚ) * f.ratio⌋) (fun (g : Int) => ⌈(g : ℚ) * f.ratio⌉) kw.2 ∧
      VolumeOK scale kw.2)

/-- `a i + b (i+1) = 1`: the factor chosen for the end of a window and the factor chosen for the
start of the next one are complementary for every ordering of the two rates, equality included;
consequently the two offsets of an interval add up to its length for every rounding -/
theorem C13_complementary (f : Fac) (r rn : Int) :
    prevCond r rn = !nextCond r rn ∧
    f.num (nextCond r rn) + f.num (prevCond r rn) = f.q ∧
    f.val (nextCond r rn) + f.val (prevCond r rn) = 1 ∧
    ∀ (ρ : Rounding) (g : Int), endOffset ρ g (nextCond r rn) + startOffset ρ g (prevCond r rn) = g := by
  refine ⟨prevCond_eq_not_nextCond r rn, ?_, ?_, fun ρ g => offsets_meet ρ g r rn⟩
  · rw [prevCond_eq_not_nextCond]; exact num_add_num_not f _
  · rw [prevCond_eq_not_nextCond]; exact val_add_val_not f _

/-- the hypothesis the tiling theorems rest on, stated on the condition columns themselves: on every
pair of neighbouring rows of every group `prev(i+1) ↔ ¬ next(i)`, the first row has previous condition
False and the last row next condition False.  It is a theorem about the EXACT comparisons
`r(i+1) − r(i) ≤ 0` and `r(i) − r(i+1) < 0`: a tolerance in one of them only (rates equal up to rounding)
breaks it, and with it `offsets_meet` / `C13_tiling_any_rounding`. -/
theorem C13_conditions_complementary (S E : Int) (rows : List Row) :
    Complementary (groupConds S E rows) ∧
    (∀ c ∈ (groupConds S E rows).head?, c.1 = false) ∧
    (∀ c ∈ (groupConds S E rows).getLast?, c.2 = false) := by
  refine ⟨complementary_condsFrom _ none, ?_, ?_⟩
  · unfold groupConds
    cases groupRows S E rows with
    | nil => simp [condsFrom]
    | cons x rest => simp [condsFrom_cons]
  · unfold groupConds
    generalize groupRows S E rows = l
    suffices h : ∀ (l : List Row) (prev : Option Row), ∀ c ∈ (condsFrom prev l).getLast?, c.2 = false from h l none
    intro l
    induction l with
    | nil => intro prev; simp [condsFrom]
    | cons x rest ih =>
      intro prev
      cases rest with
      | nil => simp [condsFrom]
      | cons z zs =>
        have := ih (some x)
        rw [condsFrom_cons prev x (z :: zs)]
        rw [condsFrom_cons (some x) z zs] at this ⊢
        rw [List.getLast?_cons_cons]
        exact this

/-- `⌈g·x⌉ + ⌊g·(1−x)⌋ = g` over ℚ, and its model form: in exact arithmetic the repaired offsets
(which only ever round `g·f` and take the complement by subtraction) are the offsets
`⌊g·a⌋`, `⌈g·b⌉` the code computed before the repairs -/
theorem C13_split_sum :
    (∀ (g : Int) (x : ℚ), ⌈(g : ℚ) * x⌉ + ⌊(g : ℚ) * (1 - x)⌋ = g) ∧
    (∀ (f : Fac) (g : Int) (c : Bool), 0 < f.q →
      endOffset (exactRounding f) g c = ⌊(g : ℚ) * f.val c⌋ ∧
      startOffset (exactRounding f) g c = ⌈(g : ℚ) * f.val c⌉ ∧
      endOffset (exactRounding f) g c = endOffsetOrig f g c ∧
      startOffset (exactRounding f) g c = startOffsetOrig f g c) := by
  refine ⟨ceil_add_floor_compl, ?_⟩
  intro f g c hq
  have hlo := exact_lo_eq_floor f hq g
  have hhi := exact_hi_eq_ceil f hq g
  have h1 := ceil_add_floor_compl g f.ratio
  have h2 := floor_add_ceil_compl g f.ratio
  have he : endOffset (exactRounding f) g c = ⌊(g : ℚ) * f.val c⌋ := by
    unfold endOffset
    cases c
    · simp only [Bool.false_eq_true, if_false, val_false]; exact hlo
    · simp only [if_true, val_true]; omega
  have hs : startOffset (exactRounding f) g c = ⌈(g : ℚ) * f.val c⌉ := by
    unfold startOffset
    cases c
    · simp only [Bool.false_eq_true, if_false, val_false]; exact hhi
    · simp only [if_true, val_true]; omega
  exact ⟨he, hs, by rw [he, endOffsetOrig_eq_floor f hq], by rw [hs, startOffsetOrig_eq_ceil f hq]⟩

/-- tiling for every rounding: if the code obtains *any* whole numbers of days in `[0, duration]`
for `floor(duration * factor)` and `ceil(duration * factor)` (floating point included), the
windows of every group partition `[S, E)` -/
theorem C13_tiling_any_rounding (ρ : Rounding)
    (hρ : ∀ g, 0 ≤ g → (0 ≤ ρ.lo g ∧ ρ.lo g ≤ g) ∧ (0 ≤ ρ.hi g ∧ ρ.hi g ≤ g))
    (m : Mode) (S E : Int) (recs : List Rec) (hSE : S ≤ E)
    (hb : ∀ r ∈ recs, S ≤ r.date ∧ r.date ≤ E) :
    ∀ kw ∈ report m ρ S E recs, Tiles S E kw.2 := by
  intro kw hkw
  unfold report at hkw
  obtain ⟨k, _, rfl⟩ := List.mem_map.mp hkw
  exact tiles_groupWins ρ hρ S E _ hSE (groupInput_bounds m recs k S E hb)

/-- tiling in exact arithmetic for every `f ∈ [0,1]` and every spacing -/
theorem C13_tiling (m : Mode) (f : Fac) (S E : Int) (recs : List Rec) (hf : f.Valid) (hSE : S ≤ E)
    (hb : ∀ r ∈ recs, S ≤ r.date ∧ r.date ≤ E) :
    ∀ kw ∈ report m (exactRounding f) S E recs, Tiles S E kw.2 :=
  C13_tiling_any_rounding (exactRounding f) (exactRounding_admissible f hf) m S E recs hSE hb

private theorem shareOK_cons2 (lo hi : Int → Int) (w w' : Win) (ws : List Win) :
    ShareOK lo hi (w :: w' :: ws) ↔
      ((if w'.rate ≤ w.rate then w.stop - w.date = lo (w'.date - w.date)
        else w'.date - w'.start = hi (w'.date - w.date))
      ∧ (w.stop - w.date) + (w'.date - w'.start) = w'.date - w.date
      ∧ ShareOK lo hi (w' :: ws)) := Iff.rfl

private theorem shareOK_winsFrom (ρ : Rounding) :
    ∀ (rows : List Row) (prev : Option Row), ShareOK ρ.lo ρ.hi (winsFrom ρ prev rows) := by
  intro rows
  induction rows with
  | nil => intro prev; simp [winsFrom, ShareOK]
  | cons x rest ih =>
    intro prev
    cases rest with
    | nil => simp [winsFrom, ShareOK]
    | cons z zs =>
      have ihz := ih (some x)
      have e := winsFrom_cons ρ (some x) z zs
      rw [e] at ihz
      rw [winsFrom_cons, e]
      refine (shareOK_cons2 _ _ _ _ _).mpr ⟨?_, ?_, ihz⟩
      · simp only [endOff, endOffset, startOff, startOffset, prevCond_eq_not_nextCond]
        by_cases h : z.rate ≤ x.rate
        · have hn : nextCond x.rate z.rate = false := by
            unfold nextCond; simp; omega
          simp [h, hn]
        · have hn : nextCond x.rate z.rate = true := by
            unfold nextCond; simp; omega
          simp [h, hn]
      · have := offsets_meet ρ (z.date - x.date) x.rate z.rate
        simp only [endOff, startOff]
        omega

/-- share for every rounding: the larger bounding measurement of every interval receives exactly
what the code obtained for `floor(g * factor)` (if it is the earlier one) or `ceil(g * factor)` (if
it is the later one), the smaller one the remaining days -/
theorem C13_share_any_rounding (m : Mode) (ρ : Rounding) (S E : Int) (recs : List Rec) :
    ∀ kw ∈ report m ρ S E recs, ShareOK ρ.lo ρ.hi kw.2 := by
  intro kw hkw
  unfold report at hkw
  obtain ⟨k, _, rfl⟩ := List.mem_map.mp hkw
  exact shareOK_winsFrom ρ _ none

/-- share in exact arithmetic: `⌊g·f⌋` / `⌈g·f⌉` days go to the larger measurement -/
theorem C13_share (m : Mode) (f : Fac) (S E : Int) (recs : List Rec) (hq : 0 < f.q) :
    ∀ kw ∈ report m (exactRounding f) S E recs,
      ShareOK (fun (g : Int) => ⌊(g : ℚ) * f.ratio⌋) (fun (g : Int) => ⌈(g : ℚ) * f.ratio⌉) kw.2 := by
  intro kw hkw
  have h := C13_share_any_rounding m (exactRounding f) S E recs kw hkw
  have hlo : (exactRounding f).lo = fun (g : Int) => ⌊(g : ℚ) * f.ratio⌋ := funext (exact_lo_eq_floor f hq)
  have hhi : (exactRounding f).hi = fun (g : Int) => ⌈(g : ℚ) * f.ratio⌉ := funext (exact_hi_eq_ceil f hq)
  rw [hlo, hhi] at h
  exact h

/-- share clause as the float implementation can meet it: of the `g` days between two consecutive
measurements the larger one (the earlier one when equal) receives `d` days with
`⌊g·f⌋ ≤ d ≤ ⌈g·f⌉`, the other one the remaining `g − d` days -/
def ShareWithin (f : Fac) : List Win → Prop
  | w :: w' :: ws =>
    (⌊((w'.date - w.date : Int) : ℚ) * f.ratio⌋
        ≤ (if w'.rate ≤ w.rate then w.stop - w.date else w'.date - w'.start)
      ∧ (if w'.rate ≤ w.rate then w.stop - w.date else w'.date - w'.start)
        ≤ ⌈((w'.date - w.date : Int) : ℚ) * f.ratio⌉)
    ∧ (w.stop - w.date) + (w'.date - w'.start) = w'.date - w.date
    ∧ ShareWithin f (w' :: ws)
  | _ => True

/-- a rounding is `f`-bounded when what the code obtains for `floor(g * factor)` and
`ceil(g * factor)` lies between the exact `⌊g·f⌋` and `⌈g·f⌉` (true of IEEE doubles because
rounding to nearest is monotone and whole numbers are representable; checked on the float grid and
on random doubles by the correspondence, gap 0..2000) -/
def BoundedBy (f : Fac) (ρ : Rounding) : Prop :=
  ∀ g : Int, 0 ≤ g →
    (⌊(g : ℚ) * f.ratio⌋ ≤ ρ.lo g ∧ ρ.lo g ≤ ⌈(g : ℚ) * f.ratio⌉) ∧
    (⌊(g : ℚ) * f.ratio⌋ ≤ ρ.hi g ∧ ρ.hi g ≤ ⌈(g : ℚ) * f.ratio⌉)

private theorem shareWithin_cons2 (f : Fac) (w w' : Win) (ws : List Win) :
    ShareWithin f (w :: w' :: ws) ↔
      ((⌊((w'.date - w.date : Int) : ℚ) * f.ratio⌋
          ≤ (if w'.rate ≤ w.rate then w.stop - w.date else w'.date - w'.start)
        ∧ (if w'.rate ≤ w.rate then w.stop - w.date else w'.date - w'.start)
          ≤ ⌈((w'.date - w.date : Int) : ℚ) * f.ratio⌉)
      ∧ (w.stop - w.date) + (w'.date - w'.start) = w'.date - w.date
      ∧ ShareWithin f (w' :: ws)) := Iff.rfl

private theorem shareWithin_winsFrom (f : Fac) (ρ : Rounding) (hb : BoundedBy f ρ) :
    ∀ (rows : List Row) (prev : Option Row), Sorted rows → ShareWithin f (winsFrom ρ prev rows) := by
  intro rows
  induction rows with
  | nil => intro prev _; simp [winsFrom, ShareWithin]
  | cons x rest ih =>
    intro prev hs
    cases rest with
    | nil => simp [winsFrom, ShareWithin]
    | cons z zs =>
      have hx := List.pairwise_cons.mp hs
      have hxz : x.date ≤ z.date := hx.1 z (by simp)
      have ihz := ih (some x) hx.2
      have e := winsFrom_cons ρ (some x) z zs
      rw [e] at ihz
      rw [winsFrom_cons, e]
      have hg := hb (z.date - x.date) (by omega)
      refine (shareWithin_cons2 _ _ _ _).mpr ⟨?_, ?_, ihz⟩
      · simp only [endOff, endOffset, startOff, startOffset, prevCond_eq_not_nextCond]
        by_cases h : z.rate ≤ x.rate
        · have hn : nextCond x.rate z.rate = false := by
            unfold nextCond; simp; omega
          simp only [h, hn, if_true, Bool.false_eq_true, if_false]
          have : x.date + ρ.lo (z.date - x.date) - x.date = ρ.lo (z.date - x.date) := by omega
          rw [this]
          exact hg.1
        · have hn : nextCond x.rate z.rate = true := by
            unfold nextCond; simp; omega
          simp only [h, hn, if_false, Bool.not_true, Bool.false_eq_true]
          have : z.date - (z.date - ρ.hi (z.date - x.date)) = ρ.hi (z.date - x.date) := by omega
          rw [this]
          exact hg.2
      · have := offsets_meet ρ (z.date - x.date) x.rate z.rate
        simp only [endOff, startOff]
        omega

/-- share for the float implementation: for every rounding that stays between `⌊g·f⌋` and
`⌈g·f⌉`, the larger bounding measurement of every interval receives `⌊g·f⌋` or `⌈g·f⌉` days and the
smaller one the rest -/
theorem C13_share_bounded_rounding (m : Mode) (f : Fac) (ρ : Rounding) (hb : BoundedBy f ρ)
    (S E : Int) (recs : List Rec) :
    ∀ kw ∈ report m ρ S E recs, ShareWithin f kw.2 := by
  intro kw hkw
  unfold report at hkw
  obtain ⟨k, _, rfl⟩ := List.mem_map.mp hkw
  exact shareWithin_winsFrom f ρ hb _ none (sorted_sortByDate _)

/-- the exact rounding is `f`-bounded (so the theorem above is not vacuous) -/
theorem C13_exact_rounding_bounded (f : Fac) (hq : 0 < f.q) : BoundedBy f (exactRounding f) := by
  intro g _
  rw [exact_lo_eq_floor f hq g, exact_hi_eq_ceil f hq g]
  have := Int.floor_le_ceil ((g : ℚ) * f.ratio)
  omega

/-- volume: `volNum / (10·scale) = (rate/scale) · days · 864/10` for every window -/
theorem C13_volume (scale : Nat) (hs : 0 < scale) (ws : List Win) : VolumeOK scale ws := by
  intro w _
  have hs' : (scale : ℚ) ≠ 0 := by exact_mod_cast (Nat.pos_iff_ne_zero.mp hs)
  unfold Win.volNum Win.days
  push_cast
  field_simp

/-- every window belongs to exactly the survey row it extrapolates: the windows of a group carry,
in order, the dates and measured rates of the group's sorted rows -/
theorem C13_windows_rows (ρ : Rounding) (rows : List Row) (prev : Option Row) :
    (winsFrom ρ prev rows).map (fun w => (w.date, w.rate)) = rows.map (fun r => (r.date, r.rate)) := by
  induction rows generalizing prev with
  | nil => simp [winsFrom]
  | cons x rest ih => rw [winsFrom_cons]; simp [ih]

private theorem mem_dedup_of_mem {α} [DecidableEq α] (l : List α) (x : α) : x ∈ l → x ∈ dedup l := by
  induction l with
  | nil => simp
  | cons y ys ih =>
    intro h
    unfold dedup
    by_cases hxy : x = y
    · simp [hxy]
    · rcases List.mem_cons.mp h with h | h
      · exact absurd h hxy
      · exact List.mem_cons_of_mem _ (List.mem_filter.mpr ⟨ih h, by simp [hxy]⟩)

/-- every surveyed site (every component in component mode) gets a group of windows -/
theorem C13_groups_cover (m : Mode) (ρ : Rounding) (S E : Int) (recs : List Rec) :
    ∀ r ∈ relevant m recs, ∃ kw ∈ report m ρ S E recs, kw.1 = keyOf m r := by
  intro r hr
  refine ⟨(keyOf m r, groupWins ρ S E (groupInput m recs (keyOf m r))), ?_, rfl⟩
  unfold report
  refine List.mem_map.mpr ⟨keyOf m r, ?_, rfl⟩
  exact mem_dedup_of_mem _ _ (List.mem_map.mpr ⟨r, hr, rfl⟩)

/-- C13 at full strength -/
theorem C13 : C13_statement := by
  intro m f S E scale recs hf hs hSE hb
  refine ⟨C13_groups_cover m _ S E recs, ?_⟩
  intro kw hkw
  exact ⟨C13_tiling m f S E recs hf hSE hb kw hkw, C13_share m f S E recs hf.1 kw hkw,
    C13_volume scale hs kw.2⟩

/-! ### which days the windows cover (the end-date reading)

A window `[start, stop)` carries `stop − start` days of volume, so the windows of a group cover the
days `S, …, E − 1`: `E − S` days.  The simulator runs through the end date inclusive
(`TimeCounter.at_simulation_end`: `current_date > end_date`), i.e. `E − S + 1` days: the last
simulated day lies in no estimation window (known finding F7c). -/

/-- the windows of a tiling cover exactly `E − S` days -/
theorem C13_days_covered (S E : Int) (ws : List Win) (h : Tiles S E ws) :
    (ws.map Win.days).sum = E - S := by
  induction ws generalizing S with
  | nil => simp only [Tiles] at h; simp; omega
  | cons w ws ih =>
    obtain ⟨h1, _, h3⟩ := h
    have := ih w.stop h3
    simp only [List.map_cons, List.sum_cons, Win.days]
    omega

/-- the reading "the windows partition the simulated days `S … E` inclusive" -/
def C13_inclusive_statement : Prop :=
  ∀ (m : Mode) (f : Fac) (S E : Int) (recs : List Rec),
    f.Valid → S ≤ E → (∀ r ∈ recs, S ≤ r.date ∧ r.date ≤ E) →
    ∀ kw ∈ report m (exactRounding f) S E recs, Tiles S (E + 1) kw.2

/-- … is false of the code: the last window ends on the end date, the last simulated day is
covered by no window (witness: one survey on day 10 of the period 0..30, f = 1/2) -/
theorem C13_inclusive_counterexample : ¬ C13_inclusive_statement := by
  intro h
  have := h .site { p := 1, q := 2 } 0 30
    [{ site := 1, eqg := none, comp := none, date := 10, rate := 8 }]
    (by decide) (by decide) (by decide) _ (List.mem_cons_self ..)
  revert this
  decide +kernel

/-- calendar: moving the period and every report of a group by `k` days (e.g. by exactly one year,
365 or 366 days) moves its windows by `k` days — the computation only sees differences of dates,
for every rounding -/
theorem C13_shift_invariance (ρ : Rounding) (k S E : Int) (rows : List Row) :
    groupWins ρ (S + k) (E + k) (rows.map (Row.shift k)) = (groupWins ρ S E rows).map (Win.shift k) :=
  groupWins_shift ρ k S E rows

/-- frame / history independence: the windows of a group are a function of the reports of the
group's own site, the period and the rounding alone — reports of other sites in the table (and,
the model being a function, any earlier report computation) do not influence them -/
theorem C13_site_frame (m : Mode) (ρ : Rounding) (S E : Int) (recs : List Rec) :
    ∀ kw ∈ report m ρ S E recs,
      kw.2 = groupWins ρ S E (groupInput m (recs.filter (fun r => r.site = kw.1.site)) kw.1) := by
  intro kw hkw
  unfold report at hkw
  obtain ⟨k, _, rfl⟩ := List.mem_map.mp hkw
  simp only [groupInput_frame]

/-- non-vacuity: the witness of the defect that was repaired (f = 7/10, surveys on day 10 and 20 of
a 30-day period, rates 1 and 2 g/s): the hypotheses hold and the windows are
[0,3) [3,13) [13,27) [27,30) -/
example :
    let f : Fac := { p := 7, q := 10 }
    let recs : List Rec := [{ site := 1, eqg := none, comp := none, date := 10, rate := 8 },
                            { site := 1, eqg := none, comp := none, date := 20, rate := 16 }]
    f.Valid ∧ (∀ r ∈ recs, (0 : Int) ≤ r.date ∧ r.date ≤ 30) ∧
    (report .site (exactRounding f) 0 30 recs).map (fun kw => kw.2.map (fun w => (w.start, w.stop)))
      = [[(0, 3), (3, 13), (13, 27), (27, 30)]] := by
  decide +kernel

/-- non-vacuity, component mode: two components of one site surveyed on different days, equal
dates and a survey on the first day -/
example :
    let f : Fac := { p := 1, q := 3 }
    let recs : List Rec := [{ site := 1, eqg := some 1, comp := some 1, date := 10, rate := 8 },
                            { site := 1, eqg := some 1, comp := some 2, date := 20, rate := 16 },
                            { site := 1, eqg := some 1, comp := some 2, date := 20, rate := 4 },
                            { site := 1, eqg := some 1, comp := some 2, date := 0, rate := 4 },
                            { site := 1, eqg := none, comp := none, date := 5, rate := 3 }]
    (report .comp (exactRounding f) 0 30 recs).map (fun kw => kw.2.map (fun w => (w.start, w.stop)))
      = [[(0, 0), (0, 6), (6, 13), (13, 23), (23, 30)],
         [(0, 0), (0, 3), (3, 16), (16, 20), (20, 23), (23, 30)]] := by
  decide +kernel

end LdarModel.Window
