import LdarModel.Model.Tree
namespace LdarModel.Tree
theorem stub_c18 : True := trivial
end LdarModel.Tree
