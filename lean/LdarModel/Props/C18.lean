import LdarModel.Lemmas.Tree
/-
C18 — parameter intake: user values override defaults, everything else stays default.

Model: `Model/Tree.lean` (`retainUpdate`, `checkTypes`, `removePlaceholders`, `validateNames`,
`installProgram`, `parse`, `intake`).  Leaf = any non-dictionary value (lists are leaves, as in
`retain_update`).  `touched u p` = the path `p` lies on or below a leaf path of the update `u`.
Every statement is over all trees / paths / key sets / file lists; hypotheses named `wf` say that
dictionary keys are distinct (always true of Python dictionaries).
-/
namespace LdarModel.Tree

/-- the property at full strength over the model:
(1) an accepted file uses, at every depth, only keys the defaults have at the same place (only a
    top-level omit key of the level is exempt);
(2) the sections produced by the intake do not depend on the order of the parameter files. -/
def C18_statement : Prop :=
  (∀ (om : List String) (d t : J) (p : Path) (tk : KV) (k : String),
      checkTypes om d t = .ok () → get? p t = some (.obj tk) → k ∈ tk.keys →
      (∀ k0, (p ++ [k]).head? = some k0 → om.contains k0 = false) →
      ∃ dk, get? p d = some (.obj dk) ∧ k ∈ dk.keys)
  ∧
  (∀ (defs sim0 : KV) (fs gs : List KV) (slot : String), fs.Perm gs →
      (parse defs sim0 fs).toOption.map (·.lookup slot)
        = (parse defs sim0 gs).toOption.map (·.lookup slot))

/-! ### merge: defaults with exactly the user's leaves replaced -/

/-- `merge_frame`: after `retain_update(defaults, user)`
  (1) every leaf path of the user file holds the user's value,
  (2) every leaf path of the defaults that is not on or below a user leaf path holds the default,
  (3) nothing appears where neither had anything (when the user's keys are known),
  (4) every dictionary of the defaults off the user's leaf paths is still a dictionary, with the
      default's key list when the user's keys are known — sections are never replaced wholesale. -/
theorem merge_frame {d r : J} {ukvs : KV} (hwf : ukvs.wf = true)
    (h : retainUpdate d (.obj ukvs) = .ok r) :
    (∀ p v, get? p (.obj ukvs) = some v → v.isObj = false → get? p r = some v) ∧
    (∀ p v, get? p d = some v → v.isObj = false → touched (.obj ukvs) p = false →
        get? p r = some v) ∧
    (∀ p, get? p d = none → touched (.obj ukvs) p = false → get? p r = none) ∧
    (∀ p dk, get? p d = some (.obj dk) → touched (.obj ukvs) p = false →
        ∃ rk, get? p r = some (.obj rk) ∧ (Known d (.obj ukvs) → rk.keys = dk.keys)) := by
  simp only [retainUpdate] at h
  refine ⟨?_, ?_, ?_, ?_⟩
  · intro p v hg hv
    rw [ru_touched p ukvs d r hwf h (touched_of_leaf_at p _ v hg hv), hg]
  · intro p v hg hv ht
    exact (ru_untouched p ukvs d r hwf h ht).2.1 v hg hv
  · intro p hg ht
    exact (ru_untouched p ukvs d r hwf h ht).1 hg
  · intro p dk hg ht
    obtain ⟨rk, hr, hkeys⟩ := (ru_untouched p ukvs d r hwf h ht).2.2 dk hg
    refine ⟨rk, hr, fun hk => hkeys ?_⟩
    intro uk' hu k hm
    obtain ⟨dk2, hd2, hmem⟩ := hk p uk' k hu hm
    rw [hg] at hd2
    cases hd2
    exact hmem

/-- non-vacuity: a nested update of one leaf -/
example :
    retainUpdate (.obj (.cons "a" (.int 1) (.cons "s" (.obj (.cons "x" (.int 2) (.cons "y" (.int 3) .nil))) .nil)))
        (.obj (.cons "s" (.obj (.cons "y" (.int 9) .nil)) .nil))
      = .ok (.obj (.cons "a" (.int 1) (.cons "s" (.obj (.cons "x" (.int 2) (.cons "y" (.int 9) .nil))) .nil))) := rfl

/-- a file accepted by `check_types` (no omit keys) never crashes `retain_update` -/
theorem merge_total {d : J} {ukvs : KV} (hwf : ukvs.wf = true)
    (hc : checkTypes [] d (.obj ukvs) = .ok ()) : ∃ r, retainUpdate d (.obj ukvs) = .ok r := by
  obtain ⟨dk, hd, _⟩ := ct_obj hc
  subst hd
  simp only [retainUpdate]
  exact ru_total ukvs _ hwf (Or.inr rfl) (known_of_check hc).1

/-- `merge_comm`: two updates (keys known, leaves on leaves) that agree wherever both reach — real
files of one level both carry `parameter_level` / `version`, with equal values — merged in either
order give the same tree: the merged result does not depend on the file order.  Updates with
disjoint leaf paths are the special case `agree_of_disjoint`. -/
theorem merge_comm {u1 u2 : KV} {d r1 r12 r2 r21 : J}
    (hw1 : u1.wf = true) (hw2 : u2.wf = true) (hnd : NodupAt d)
    (hk1 : Known d (.obj u1)) (hk2 : Known d (.obj u2))
    (hl1 : LeafOnLeaf d (.obj u1)) (hl2 : LeafOnLeaf d (.obj u2))
    (hdis : AgreeOnCommon (.obj u1) (.obj u2))
    (e1 : retainUpdate d (.obj u1) = .ok r1) (e12 : retainUpdate r1 (.obj u2) = .ok r12)
    (e2 : retainUpdate d (.obj u2) = .ok r2) (e21 : retainUpdate r2 (.obj u1) = .ok r21) :
    r12 = r21 := by
  simp only [retainUpdate] at e1 e12 e2 e21
  exact ru_comm hw1 hw2 hnd hk1 hk2 hl1 hl2 hdis e1 e12 e2 e21

/-- the same for two files that both pass `check_types`: both orders succeed and agree -/
theorem merge_comm_checked {u1 u2 : KV} {d : J}
    (hwd : d.wf = true) (hw1 : u1.wf = true) (hw2 : u2.wf = true)
    (hc1 : checkTypes [] d (.obj u1) = .ok ()) (hc2 : checkTypes [] d (.obj u2) = .ok ())
    (hdis : AgreeOnCommon (.obj u1) (.obj u2)) :
    ∃ r1 r2 r, retainUpdate d (.obj u1) = .ok r1 ∧ retainUpdate r1 (.obj u2) = .ok r ∧
      retainUpdate d (.obj u2) = .ok r2 ∧ retainUpdate r2 (.obj u1) = .ok r := by
  obtain ⟨hk1, hl1⟩ := known_of_check hc1
  obtain ⟨hk2, hl2⟩ := known_of_check hc2
  obtain ⟨r1, e1⟩ := merge_total hw1 hc1
  obtain ⟨r2, e2⟩ := merge_total hw2 hc2
  simp only [retainUpdate] at e1 e2
  obtain ⟨dk, hd, _⟩ := ct_obj hc1
  subst hd
  obtain ⟨rk1, hr1⟩ := ru_obj u1 dk r1 e1
  obtain ⟨rk2, hr2⟩ := ru_obj u2 dk r2 e2
  subst hr1; subst hr2
  obtain ⟨r12, e12⟩ := ru_total u2 (.obj rk1) hw2 (Or.inr rfl) (known_after hw1 e1 hk1 hl1 hk2)
  obtain ⟨r21, e21⟩ := ru_total u1 (.obj rk2) hw1 (Or.inr rfl) (known_after hw2 e2 hk2 hl2 hk1)
  have := ru_comm hw1 hw2 (wf_nodupAt hwd) hk1 hk2 hl1 hl2 hdis e1 e12 e2 e21
  subst this
  exact ⟨_, _, r12, by simpa [retainUpdate] using e1, by simpa [retainUpdate] using e12,
    by simpa [retainUpdate] using e2, by simpa [retainUpdate] using e21⟩

/-- non-vacuity of the hypotheses of `merge_comm_checked` -/
example : ∃ r1 r2 r,
    retainUpdate (.obj (.cons "a" (.int 1) (.cons "b" (.float 5 (-1)) .nil))) (.obj (.cons "a" (.int 7) .nil)) = .ok r1 ∧
    retainUpdate r1 (.obj (.cons "b" (.int 2) .nil)) = .ok r ∧
    retainUpdate (.obj (.cons "a" (.int 1) (.cons "b" (.float 5 (-1)) .nil))) (.obj (.cons "b" (.int 2) .nil)) = .ok r2 ∧
    retainUpdate r2 (.obj (.cons "a" (.int 7) .nil)) = .ok r :=
  merge_comm_checked (by decide) (by decide) (by decide) rfl rfl
    (agree_of_disjoint (disjoint_of_keys (by decide)))

/-- the same with the decidable hypotheses the check evaluates on every generated pair of files
(`hyp` op of `drv_tree`): well-formed, both accepted by `check_types`, `agreeB` -/
theorem merge_comm_decidable {u1 u2 : KV} {d : J}
    (hwd : d.wf = true) (hw1 : u1.wf = true) (hw2 : u2.wf = true)
    (hc1 : checkTypes [] d (.obj u1) = .ok ()) (hc2 : checkTypes [] d (.obj u2) = .ok ())
    (hag : agreeB u1 u2 = true) :
    ∃ r1 r2 r, retainUpdate d (.obj u1) = .ok r1 ∧ retainUpdate r1 (.obj u2) = .ok r ∧
      retainUpdate d (.obj u2) = .ok r2 ∧ retainUpdate r2 (.obj u1) = .ok r :=
  merge_comm_checked hwd hw1 hw2 hc1 hc2 (agreeOnCommon_of_agreeB hag)

/-- non-vacuity on files shaped like real ones: both carry `parameter_level` (and `version`) -/
example : ∃ r1 r2 r,
    retainUpdate (.obj (.cons "parameter_level" (.str "virtual_world") (.cons "version" (.str "4.0")
        (.cons "a" (.int 1) (.cons "s" (.obj (.cons "x" (.float 5 (-1)) (.cons "y" (.int 2) .nil))) .nil)))))
      (.obj (.cons "parameter_level" (.str "virtual_world") (.cons "s" (.obj (.cons "x" (.int 7) .nil)) .nil))) = .ok r1 ∧
    retainUpdate r1 (.obj (.cons "version" (.str "4.0") (.cons "parameter_level" (.str "virtual_world")
        (.cons "s" (.obj (.cons "y" (.int 9) .nil)) .nil)))) = .ok r ∧
    retainUpdate (.obj (.cons "parameter_level" (.str "virtual_world") (.cons "version" (.str "4.0")
        (.cons "a" (.int 1) (.cons "s" (.obj (.cons "x" (.float 5 (-1)) (.cons "y" (.int 2) .nil))) .nil)))))
      (.obj (.cons "version" (.str "4.0") (.cons "parameter_level" (.str "virtual_world")
        (.cons "s" (.obj (.cons "y" (.int 9) .nil)) .nil)))) = .ok r2 ∧
    retainUpdate r2 (.obj (.cons "parameter_level" (.str "virtual_world") (.cons "s" (.obj (.cons "x" (.int 7) .nil)) .nil))) = .ok r :=
  merge_comm_decidable (by decide) (by decide) (by decide) rfl rfl (by decide)

/-! ### check: acceptance is exactly "every key known and every value typed" -/

/-- `accepts → known ∧ typed`: below an omit-free key path, whatever an accepted file holds has a
counterpart in the defaults at the same path, passes the node test `typeOk` against it, and — if it
is a dictionary — uses only keys that counterpart has; list elements are checked against the first
element of the default list -/
theorem accepts_known_typed {om : List String} {d t : J} (h : checkTypes om d t = .ok ())
    (p : Path) (hp : omitFree om p) (tv : J) (hg : get? p t = some tv) :
    ∃ dv, get? p d = some dv ∧ typeOk dv tv = true ∧
      (∀ tk k, tv = .obj tk → k ∈ tk.keys → om.contains k = false →
          ∃ dk, dv = .obj dk ∧ k ∈ dk.keys) ∧
      (∀ tl d0 ds x, tv = .list tl → dv = .list (.cons d0 ds) → x ∈ tl.toList →
          checkTypes om d0 x = .ok ()) := by
  obtain ⟨dv, hdv, hc⟩ := ct_get p d t tv h hp hg
  refine ⟨dv, hdv, ct_typeOk hc, ?_, ?_⟩
  · intro tk k htv hm ho
    subst htv
    obtain ⟨dk, hd, hct⟩ := ct_obj hc
    obtain ⟨x, hx⟩ := KV.lookup_of_mem_keys k tk hm
    obtain ⟨dv2, hdv2, _⟩ := ct_lookup tk k x hct hx ho
    exact ⟨dk, hd, KV.mem_keys_of_lookup hdv2⟩
  · intro tl d0 ds x htv hdl hm
    subst htv; subst hdl
    have hl : ctList om d0 tl = .ok () := by
      simp only [checkTypes] at hc
      split at hc
      · exact hc
      · cases hc
    exact ct_list_mem tl x hl hm

/-- `checkTypes_iff`: `check_types` accepts exactly the conforming files — the converse of
`accepts_known_typed`: a file every key of which is known and every value of which is typed is
accepted.  `conforms` is the specification as a plain conjunction; its one-level reading is
`conforms_dict` / `conforms_list` below. -/
theorem checkTypes_iff (om : List String) (d t : J) :
    checkTypes om d t = .ok () ↔ conforms om d t = true :=
  ct_iff_conforms om t d

/-- a dictionary conforms iff it passes the node test and every key that is not an omit key is a
key of the default with a conforming value -/
theorem conforms_dict (om : List String) (d : J) (tk : KV) :
    conforms om d (.obj tk) = true ↔
      ∃ dk, d = .obj dk ∧ ∀ k tv, (k, tv) ∈ tk.toList → om.contains k = false →
        ∃ dv, dk.lookup k = some dv ∧ conforms om dv tv = true := by
  constructor
  · intro h
    simp only [conforms, Bool.and_eq_true] at h
    obtain ⟨dk, hd⟩ := typeOk_obj h.1
    subst hd
    exact ⟨dk, rfl, (confKvs_iff om dk tk).mp h.2⟩
  · rintro ⟨dk, rfl, h⟩
    simp only [conforms, Bool.and_eq_true]
    exact ⟨by simp [typeOk, J.tag, J.isStr], (confKvs_iff om dk tk).mpr h⟩

/-- a list conforms iff the default is a list and, when the default list is non-empty, every
element conforms to its first element (an empty default list leaves the elements unchecked) -/
theorem conforms_list (om : List String) (d : J) (tl : JL) :
    conforms om d (.list tl) = true ↔
      ∃ dl, d = .list dl ∧ ∀ d0 ds, dl = .cons d0 ds → ∀ x, x ∈ tl.toList → conforms om d0 x = true := by
  constructor
  · intro h
    simp only [conforms, Bool.and_eq_true] at h
    cases d with
    | list dl =>
      refine ⟨dl, rfl, ?_⟩
      intro d0 ds hdl x hx
      subst hdl
      exact (confList_iff om d0 tl).mp h.2 x hx
    | _ => simp [typeOk, J.tag, J.isStr] at h
  · rintro ⟨dl, rfl, h⟩
    simp only [conforms, Bool.and_eq_true]
    refine ⟨by simp [typeOk, J.tag, J.isStr], ?_⟩
    cases dl with
    | nil => rfl
    | cons d0 ds => exact (confList_iff om d0 tl).mpr (h d0 ds rfl)

/-- the node test in full: a string for a numeric placeholder must be that placeholder; otherwise
equal types, an int for a float, an int for the int placeholder, an int or float for the float
placeholder (a string for the string placeholder is the equal-types case) -/
theorem typeOk_spec (d t : J) :
    typeOk d t = true ↔
      (((d = .str phInt ∨ d = .str phFloat) ∧ t.tag = 4) ∧ t = d) ∨
      (¬ ((d = .str phInt ∨ d = .str phFloat) ∧ t.tag = 4) ∧
        (d.tag = t.tag ∨ (d.tag = 3 ∧ t.tag = 2) ∨ (d = .str phInt ∧ t.tag = 2) ∨
          (d = .str phFloat ∧ (t.tag = 2 ∨ t.tag = 3)))) := by
  cases d with
  | str a =>
    by_cases h1 : a = phInt
    · subst h1
      cases t <;> simp [typeOk, J.tag, J.isStr, phInt, phFloat, eq_comm]
    · by_cases h2 : a = phFloat
      · subst h2
        cases t <;> simp [typeOk, J.tag, J.isStr, phInt, phFloat, eq_comm]
      · cases t <;> simp [typeOk, J.tag, J.isStr, h1, h2]
  | _ => cases t <;> simp [typeOk, J.tag, J.isStr]

/-- `omit_is_element_membership`: a key is exempt only when it EQUALS an omit key — the model's
`omit_keys` is a list of strings and the test is element membership, not containment in a string.
(The call sites are held to that shape by the table obligation `table:omit-keys-call-sites`: every
`omit_keys` argument is a list / tuple display of strings; a bare string would turn `i not in
omit_keys` into a substring test.) -/
theorem omit_is_element_membership (om : List String) (k : String) :
    om.contains k = true ↔ k ∈ om := by
  simp

/-- pieces of an omit key are not omit keys: `program`, `gram`, `s`, the empty key, `Programs` in a
simulation-settings file and `method`, `thod` in a program file are unknown keys and are rejected,
at the top level and nested -/
theorem omit_key_pieces_rejected :
    (["program", "gram", "s", "", "Programs", "programss"].all fun k =>
      (match checkTypes ["programs"] (.obj (.cons "n" (.int 1) .nil)) (.obj (.cons k (.int 7) .nil)) with
        | .error .unknown_key => true
        | _ => false)) = true ∧
    (["method", "thod", "me", "s", ""].all fun k =>
      (match checkTypes ["methods"]
          (.obj (.cons "economics" (.obj (.cons "price" (.float 3 0) .nil)) .nil))
          (.obj (.cons "economics" (.obj (.cons k (.int 7) .nil)) .nil)) with
        | .error .unknown_key => true
        | _ => false)) = true := by
  decide +kernel

/-- `rejects_unknown_key`: a key (not an omit key) the defaults lack at the same omit-free path
makes `check_types` reject, at any depth -/
theorem rejects_unknown_key {om : List String} {d t : J} {p : Path} {tk : KV} {k : String}
    (hp : omitFree om p) (hg : get? p t = some (.obj tk)) (hm : k ∈ tk.keys)
    (ho : om.contains k = false)
    (hunknown : ∀ dk, get? p d = some (.obj dk) → k ∉ dk.keys) :
    ∃ e, checkTypes om d t = .error e := by
  cases hc : checkTypes om d t with
  | error e => exact ⟨e, rfl⟩
  | ok u =>
    obtain ⟨dv, hdv, _, hkn, _⟩ := accepts_known_typed hc p hp _ hg
    obtain ⟨dk, hd, hmem⟩ := hkn tk k rfl hm ho
    subst hd
    exact absurd hmem (hunknown dk hdv)

/-- `rejects_wrong_type`: a value that fails the node test against the default at the same
omit-free path (or has no default there) makes `check_types` reject, at any depth -/
theorem rejects_wrong_type {om : List String} {d t : J} {p : Path} {tv : J}
    (hp : omitFree om p) (hg : get? p t = some tv)
    (hwrong : ∀ dv, get? p d = some dv → typeOk dv tv = false) :
    ∃ e, checkTypes om d t = .error e := by
  cases hc : checkTypes om d t with
  | error e => exact ⟨e, rfl⟩
  | ok u =>
    obtain ⟨dv, hdv, hty, _, _⟩ := accepts_known_typed hc p hp _ hg
    rw [hwrong dv hdv] at hty
    cases hty

/-- the node test is the code's relation: equal types, int for float, typed placeholders -/
theorem typeOk_table :
    typeOk (.int 1) (.bool true) = false ∧ typeOk (.bool true) (.int 1) = false ∧
    typeOk (.float 1 0) (.int 3) = true ∧ typeOk (.int 1) (.float 3 0) = false ∧
    typeOk (.str phInt) (.int 3) = true ∧ typeOk (.str phInt) (.float 3 0) = false ∧
    typeOk (.str phInt) (.str "x") = false ∧ typeOk (.str phInt) (.str phInt) = true ∧
    typeOk (.str phFloat) (.int 3) = true ∧ typeOk (.str phFloat) (.float 3 0) = true ∧
    typeOk (.str phFloat) (.str "x") = false ∧ typeOk (.str phStr) (.str "x") = true ∧
    typeOk (.str phStr) (.int 1) = false ∧ typeOk (.str "a") (.null) = false ∧
    typeOk (.list .nil) (.obj .nil) = false ∧ typeOk (.obj .nil) (.list .nil) = false := by
  decide

/-- `C18_partial`: clause (1) of the statement with the code's actual exemption — no key of the
path (and not the key itself) is an omit key -/
theorem C18_partial (om : List String) (d t : J) (p : Path) (tk : KV) (k : String)
    (h : checkTypes om d t = .ok ()) (hg : get? p t = some (.obj tk)) (hm : k ∈ tk.keys)
    (hp : omitFree om (p ++ [k])) :
    ∃ dk, get? p d = some (.obj dk) ∧ k ∈ dk.keys := by
  have hp' : omitFree om p := fun k' hk' => hp k' (by simp [hk'])
  obtain ⟨dv, hdv, _, hkn, _⟩ := accepts_known_typed h p hp' _ hg
  obtain ⟨dk, hd, hmem⟩ := hkn tk k rfl hm (hp k (by simp))
  subst hd
  exact ⟨dk, hdv, hmem⟩

/-! ### the full-strength statement is false of the code as it stands (recorded findings) -/

/-- omit keys are exempt at every depth: `economics: {methods: 3}` in a program file is accepted
although `economics` has no key `methods` (finding F18a) -/
theorem C18_counterexample_omit :
    ¬ (∀ (om : List String) (d t : J) (p : Path) (tk : KV) (k : String),
      checkTypes om d t = .ok () → get? p t = some (.obj tk) → k ∈ tk.keys →
      (∀ k0, (p ++ [k]).head? = some k0 → om.contains k0 = false) →
      ∃ dk, get? p d = some (.obj dk) ∧ k ∈ dk.keys) := by
  intro h
  have := h ["methods"]
    (.obj (.cons "economics" (.obj (.cons "price" (.float 3 0) .nil)) .nil))
    (.obj (.cons "economics" (.obj (.cons "methods" (.int 3) .nil)) .nil))
    ["economics"] (.cons "methods" (.int 3) .nil) "methods" rfl rfl (by simp [KV.keys])
    (by intro k0 hk0; simp at hk0; subst hk0; decide)
  obtain ⟨dk, hd, hm⟩ := this
  have hd' : dk = .cons "price" (.float 3 0) .nil := by
    have : get? ["economics"] (.obj (.cons "economics" (.obj (.cons "price" (.float 3 0) .nil)) .nil))
        = some (.obj (.cons "price" (.float 3 0) .nil)) := rfl
    rw [this] at hd
    cases hd; rfl
  subst hd'
  simp [KV.keys] at hm

private def cxDefs : KV :=
  .cons "virtual_world_default.yml"
      (.obj (.cons "parameter_level" (.str "virtual_world") (.cons "a" (.int 1) (.cons "b" (.int 2) .nil))))
  (.cons "p_default.yml"
      (.obj (.cons "parameter_level" (.str "programs") (.cons "program_name" (.str "d")
        (.cons "method_labels" (.list .nil) .nil))))
  (.cons "outputs_default.yml" (.obj (.cons "parameter_level" (.str "outputs") .nil)) .nil))

private def cxA : KV := .cons "parameter_level" (.str "virtual_world") (.cons "a" (.int 5) .nil)
private def cxB : KV := .cons "parameter_level" (.str "virtual_world") (.cons "b" (.int 7) .nil)
private def cxP : KV := .cons "parameter_level" (.str "programs") (.cons "program_name" (.str "P") .nil)

/-- two virtual-world files: the later one replaces the section built from the earlier one, so
the result depends on the file order (finding F18b) -/
theorem C18_counterexample_order :
    ¬ (∀ (defs sim0 : KV) (fs gs : List KV) (slot : String), fs.Perm gs →
      (parse defs sim0 fs).toOption.map (·.lookup slot)
        = (parse defs sim0 gs).toOption.map (·.lookup slot)) := by
  intro h
  have hp : [cxA, cxB, cxP].Perm [cxB, cxA, cxP] := List.Perm.swap _ _ _
  have := h cxDefs .nil _ _ "virtual_world" hp
  have h1 : (parse cxDefs .nil [cxA, cxB, cxP]).toOption.map (·.lookup "virtual_world")
      = some (some (.obj (.cons "parameter_level" (.str "virtual_world")
          (.cons "a" (.int 1) (.cons "b" (.int 7) .nil))))) := rfl
  have h2 : (parse cxDefs .nil [cxB, cxA, cxP]).toOption.map (·.lookup "virtual_world")
      = some (some (.obj (.cons "parameter_level" (.str "virtual_world")
          (.cons "a" (.int 5) (.cons "b" (.int 2) .nil))))) := rfl
  rw [h1, h2] at this
  simp at this

theorem C18_counterexample : ¬ C18_statement := fun h => C18_counterexample_omit h.1

/-! ### methods installed, placeholders removed, reserved names rejected -/

/-- `methods_installed`: when a program is installed, every label of its `method_labels` is present
under `methods`, holding `retainUpdate (defaults of the method's own deployment type) userMethod`,
the user method having passed `check_types` against those defaults -/
theorem methods_installed {defs pool pk : KV} {r : J} {ls : JL}
    (h : installProgram defs pool (.obj pk) = .ok r)
    (hl : pk.lookup "method_labels" = some (.list ls)) :
    ∃ ms, get? ["methods"] r = some (.obj ms) ∧
      ∀ l, l ∈ ls.toList → ∃ key m mk df d rm,
        keyOf l = some key ∧ pool.lookup key = some m ∧ m = .obj mk ∧
        methodDefFile mk = .ok df ∧ loadDef defs df = .ok d ∧
        checkTypes methodOmit d m = .ok () ∧ retainUpdate d m = .ok rm ∧
        ms.lookup key = some rm := by
  simp only [installProgram, hl, iterLabels] at h
  cases hil : installLabels pool ls.toList .nil with
  | error e => simp [hil] at h
  | ok ms0 =>
    simp only [hil] at h
    cases him : installMethods defs ms0 with
    | error e => simp [him] at h
    | ok ms =>
      simp only [him] at h
      cases h
      refine ⟨ms, by simp [get?, KV.lookup_setKey_same], ?_⟩
      intro l hmem
      obtain ⟨i1, _, i3⟩ := installLabels_inv pool ls.toList .nil ms0 hil
        (by intro key m hk; simp [KV.lookup] at hk)
      obtain ⟨key, hko, hkm⟩ := i3 l hmem
      obtain ⟨m, hm⟩ := KV.lookup_of_mem_keys key ms0 hkm
      obtain ⟨rm, hrm, hlk⟩ := installMethods_lookup defs ms0 ms key m him hm
      have hpool := i1 key m hm
      cases m with
      | obj mk =>
        simp only [installMethod] at hrm
        cases hdf : methodDefFile mk with
        | error e => simp [hdf] at hrm
        | ok df =>
          simp only [hdf] at hrm
          cases hld : loadDef defs df with
          | error e => simp [hld] at hrm
          | ok d =>
            simp only [hld] at hrm
            cases hmn : mk.lookup "method_name" with
            | none => simp [hmn] at hrm
            | some nm =>
              simp only [hmn] at hrm
              cases hct : checkTypes methodOmit d (.obj mk) with
              | error e => simp [hct] at hrm
              | ok u =>
                simp only [hct] at hrm
                exact ⟨key, _, mk, df, d, rm, hko, hpool, rfl, hdf, hld, hct, hrm, hlk⟩
      | _ => simp [installMethod] at hrm

/-- the defaults file of a method is chosen by its own deployment type (or its own
`default_parameters` key), never by another file -/
theorem method_defaults_by_deployment_type (mk : KV)
    (hno : mk.lookup "default_parameters" = none) :
    (mk.lookup "deployment_type" = some (.str "mobile") →
        methodDefFile mk = .ok (.str mobileDefFile)) ∧
    (mk.lookup "deployment_type" = some (.str "stationary") →
        methodDefFile mk = .ok (.str stationaryDefFile)) ∧
    (∀ dt, mk.lookup "deployment_type" = some dt → dt.isStr "mobile" = false →
        dt.isStr "stationary" = false → methodDefFile mk = .error .exit) := by
  refine ⟨?_, ?_, ?_⟩
  · intro h; simp [methodDefFile, hno, h, J.isStr]
  · intro h; simp [methodDefFile, hno, h, J.isStr]
  · intro dt h h1 h2; simp [methodDefFile, hno, h, h1, h2]

/-- a label without a method file makes the installation of the program stop with
`missing_method` -/
theorem missing_method_rejected {defs pool pk : KV} {ls : JL}
    (hl : pk.lookup "method_labels" = some (.list ls))
    (hmiss : ∃ l, l ∈ ls.toList ∧ ∀ key, keyOf l = some key → pool.lookup key = none) :
    installProgram defs pool (.obj pk) = .error .missing_method := by
  simp [installProgram, hl, iterLabels, installLabels_missing pool ls.toList .nil hmiss]

/-- labels are resolved by EQUALITY of names: a label that differs from the only supplied method by
case, a blank or unicode form is a missing method; with two methods `OGI` and `ogi` each label gets
exactly its own file, whatever the order in which the pool was filled -/
theorem near_name_labels_exact :
    (["ogi", "Ogi", "OGI ", " OGI", "ＯGI"].all fun l =>
      (match installLabels (.cons "OGI" (.obj (.cons "method_name" (.str "OGI") .nil)) .nil) [.str l] .nil with
        | .error .missing_method => true
        | _ => false)) = true ∧
    (match installLabels (.cons "OGI" (.int 1) (.cons "ogi" (.int 2) .nil)) [.str "OGI"] .nil,
           installLabels (.cons "ogi" (.int 2) (.cons "OGI" (.int 1) .nil)) [.str "OGI"] .nil with
      | .ok a, .ok b => J.beq (.obj a) (.obj (.cons "OGI" (.int 1) .nil)) && J.beq (.obj b) (.obj (.cons "OGI" (.int 1) .nil))
      | _, _ => false) = true := by
  decide +kernel

/-- `no_placeholder_left`: whatever the intake returns holds no type placeholder, at any depth -/
theorem no_placeholder_left {defs : KV} {files : List KV} {r : J}
    (h : intake defs files = .ok r) : noPh r = true := by
  simp only [intake] at h
  split at h
  · split at h
    · cases h
    · split at h
      · cases h
      · rename_i sim _
        simp only [removePlaceholders] at h
        split at h
        · cases h
          simpa [noPh] using rpKvs_noPh sim
        · cases h
  · cases h

/-- placeholder removal touches nothing else: a value without placeholders is returned as it is -/
theorem placeholders_only (kvs : KV) (h : noPhK kvs = true) :
    removePlaceholders (.obj kvs) = .obj kvs := by
  simp [removePlaceholders, rpKvs_id kvs h]

/-- `reserved_names_rejected`: in whatever the intake returns no program name and no method label
is one of none / null / nan (in any letter case) -/
theorem reserved_names_rejected {defs : KV} {files : List KV} {r : J}
    (h : intake defs files = .ok r) :
    ∃ sim progs, r = .obj sim ∧ sim.lookup "programs" = some (.obj progs) ∧
      ∀ name prog, progs.lookup name = some prog →
        isReserved name = false ∧
        ∃ pk v ls, prog = .obj pk ∧ pk.lookup "method_labels" = some v ∧
          iterLabels v = .ok ls ∧ ∀ s, J.str s ∈ ls → isReserved s = false := by
  simp only [intake] at h
  split at h
  · split at h
    · cases h
    · split at h
      · cases h
      · rename_i sim _
        simp only [removePlaceholders] at h
        cases hv : validateNames (rpKvs sim) with
        | error e => simp [hv] at h
        | ok u =>
          simp only [hv] at h
          cases h
          simp only [validateNames] at hv
          split at hv
          · rename_i progs hp
            exact ⟨rpKvs sim, progs, rfl, hp, fun name prog hl => namesOk_lookup progs name prog hv hl⟩
          · cases hv
          · cases hv
  · cases h

private def exDefs : KV :=
  .cons "simulation_settings_default.yml"
      (.obj (.cons "parameter_level" (.str "simulation_settings") (.cons "version" (.str "4.0") (.cons "n" (.int 2) .nil))))
  (.cons "m_default_mobile.yml"
      (.obj (.cons "parameter_level" (.str "methods") (.cons "version" (.str "4.0")
        (.cons "method_name" (.str phStr) (.cons "deployment_type" (.str "mobile")
        (.cons "t" (.str phInt) (.cons "years" (.list (.cons (.str phInt) .nil)) .nil)))))))
  (.cons "virtual_world_default.yml"
      (.obj (.cons "parameter_level" (.str "virtual_world") (.cons "version" (.str "4.0")
        (.cons "a" (.int 1) (.cons "b" (.int 2) .nil)))))
  (.cons "p_default.yml"
      (.obj (.cons "parameter_level" (.str "programs") (.cons "version" (.str "4.0")
        (.cons "program_name" (.str "d") (.cons "method_labels" (.list .nil) .nil)))))
  (.cons "outputs_default.yml"
      (.obj (.cons "parameter_level" (.str "outputs") (.cons "version" (.str "4.0") .nil))) .nil))))

private def exM : KV :=
  .cons "parameter_level" (.str "methods") (.cons "method_name" (.str "M")
    (.cons "deployment_type" (.str "mobile") .nil))
private def exP : KV :=
  .cons "parameter_level" (.str "programs") (.cons "program_name" (.str "P")
    (.cons "method_labels" (.list (.cons (.str "M") .nil)) .nil))
private def exV : KV := .cons "parameter_level" (.str "virtual_world") (.cons "a" (.int 5) .nil)

/-- non-vacuity of `methods_installed`, `no_placeholder_left`, `reserved_names_rejected`: a small
complete intake that is accepted (method installed on the mobile defaults, placeholders gone) -/
example : intake exDefs [exP, exM, exV] = .ok
    (.obj (.cons "parameter_level" (.str "simulation_settings")
     (.cons "version" (.str "4.0")
     (.cons "n" (.int 2)
     (.cons "virtual_world" (.obj (.cons "parameter_level" (.str "virtual_world")
     (.cons "version" (.str "4.0")
     (.cons "a" (.int 5)
     (.cons "b" (.int 2)
     .nil)))))
     (.cons "outputs" (.obj (.cons "parameter_level" (.str "outputs")
     (.cons "version" (.str "4.0")
     .nil)))
     (.cons "programs" (.obj (.cons "P" (.obj (.cons "parameter_level" (.str "programs")
     (.cons "version" (.str "4.0")
     (.cons "program_name" (.str "P")
     (.cons "method_labels" (.list (.cons (.str "M") .nil))
     (.cons "methods" (.obj (.cons "M" (.obj (.cons "parameter_level" (.str "methods")
     (.cons "version" (.str "4.0")
     (.cons "method_name" (.str "M")
     (.cons "deployment_type" (.str "mobile")
     (.cons "t" .null
     (.cons "years" (.list .nil)
     .nil)))))))
     .nil))
     .nil))))))
     .nil))
     .nil))))))) := by
  rfl

/-- the version gate is order dependent (finding F18c): after a file with a minor-mismatch version
the gate is switched off, so a newer-version file is refused when it comes first and let through
when it comes second -/
theorem version_gate_order_counterexample :
    (∃ fs, versionGate false
        [.cons "version" (.str "4.1") .nil, .cons "version" (.str "5.0") .nil] = .ok fs) ∧
    (match versionGate false
        [.cons "version" (.str "5.0") .nil, .cons "version" (.str "4.1") .nil] with
      | .error .exit => true
      | _ => false) = true := by
  constructor
  · exact ⟨_, rfl⟩
  · decide +kernel

/-- a program named like a type placeholder is accepted and the placeholder stays in the returned
parameters as a dictionary key (finding F18d): `no_placeholder_left` is about values only -/
theorem placeholder_key_counterexample :
    (match intake exDefs [.cons "parameter_level" (.str "programs")
                            (.cons "program_name" (.str phStr) .nil)] with
      | .ok (.obj sim) =>
        (match sim.lookup "programs" with
          | some (.obj ps) => ps.has phStr
          | _ => false)
      | _ => false) = true := by
  decide +kernel

/-- the reserved-name test itself -/
theorem reserved_table :
    isReserved "none" = true ∧ isReserved "None" = true ∧ isReserved "NULL" = true ∧
    isReserved "NaN" = true ∧ isReserved "nan" = true ∧ isReserved "P_none" = false ∧
    isReserved "nul" = false ∧ isReserved "" = false := by
  decide

/-- wiring of the virtual-world / outputs branches: the installed section is
`retainUpdate defaults file`, the file having passed `check_types` with no omit keys -/
theorem section_checked_and_merged {defs : KV} {defFile slot : String} {st st' : St} {file : KV}
    (h : routeSection defs defFile slot st file = .ok st') :
    ∃ d r, loadDef defs (match file.lookup "default_parameters" with
                          | some v => v
                          | none => .str defFile) = .ok d ∧
      checkTypes [] d (.obj file) = .ok () ∧ retainUpdate d (.obj file) = .ok r ∧
      st'.sim = st.sim.setKey slot r ∧ st'.programs = st.programs ∧ st'.pool = st.pool := by
  simp only [routeSection] at h
  split at h
  · cases h
  · rename_i d hd
    split at h
    · cases h
    · rename_i hc
      split at h
      · cases h
      · rename_i r hr
        cases h
        exact ⟨d, r, hd, by cases ‹Unit›; exact hc, hr, rfl, rfl, rfl⟩


/-! ### the intake end to end -/

/-- wiring of the simulation-settings branch: the file is key- and type-checked against the
simulation settings accumulated so far (without the installed `virtual_world` / `outputs`
sections; only the top-level `programs` key is exempt) and merged into them -/
theorem sim_settings_checked_and_merged {defs : KV} {st st' : St} {file : KV}
    (hl : file.lookup "parameter_level" = some (.str "simulation_settings"))
    (h : route defs st file = .ok st') :
    checkTypes ["programs"] (.obj ((st.sim.erase "virtual_world").erase "outputs")) (.obj file) = .ok () ∧
    retainUpdate (.obj st.sim) (.obj file) = .ok (.obj st'.sim) ∧
    st'.programs = st.programs ∧ st'.pool = st.pool := by
  rw [(route_dispatch defs st file).1 hl] at h
  exact routeSim_inv h

/-- wiring of the programs branch: the file is checked against the program defaults (only the
top-level `methods` key exempt), merged onto them, and installed under its own `program_name` -/
theorem program_checked_and_merged {defs : KV} {st st' : St} {file : KV}
    (hl : file.lookup "parameter_level" = some (.str "programs"))
    (h : route defs st file = .ok st') :
    ∃ d p nm key,
      loadDef defs (match file.lookup "default_parameters" with
                    | some v => v
                    | none => .str progDefFile) = .ok d ∧
      checkTypes ["methods"] d (.obj file) = .ok () ∧ retainUpdate d (.obj file) = .ok (.obj p) ∧
      p.lookup "program_name" = some nm ∧ keyOf nm = some key ∧
      st'.programs = st.programs.setKey key (.obj p) ∧ st'.sim = st.sim ∧ st'.pool = st.pool := by
  rw [(route_dispatch defs st file).2.2.1 hl] at h
  exact routeProgram_inv h

/-- every accepted file passed `check_types` against the defaults of its level (a method file is
checked when a program installs it: `methods_installed`) -/
theorem routed_file_checked {defs : KV} {st st' : St} {file : KV}
    (h : route defs st file = .ok st') :
    (file.lookup "parameter_level" = some (.str "simulation_settings") ∧
        ∃ ref, checkTypes ["programs"] (.obj ref) (.obj file) = .ok ()) ∨
    ((file.lookup "parameter_level" = some (.str "virtual_world") ∨
      file.lookup "parameter_level" = some (.str "outputs")) ∧
        ∃ d, checkTypes [] d (.obj file) = .ok ()) ∨
    (file.lookup "parameter_level" = some (.str "programs") ∧
        ∃ d, checkTypes ["methods"] d (.obj file) = .ok ()) ∨
    (file.lookup "parameter_level" = some (.str "methods") ∧
        ∃ key, st'.pool.lookup key = some (.obj file)) := by
  obtain ⟨s, hl, hs⟩ := route_level h
  rcases hs with rfl | rfl | rfl | rfl | rfl
  · exact Or.inl ⟨hl, _, (sim_settings_checked_and_merged hl h).1⟩
  · rw [(route_dispatch defs st file).2.1 hl] at h
    obtain ⟨d, r, _, hc, _⟩ := section_checked_and_merged h
    exact Or.inr (Or.inl ⟨Or.inl hl, d, hc⟩)
  · obtain ⟨d, p, nm, key, _, hc, _⟩ := program_checked_and_merged hl h
    exact Or.inr (Or.inr (Or.inl ⟨hl, d, hc⟩))
  · rw [(route_dispatch defs st file).2.2.2.1 hl] at h
    obtain ⟨nm, key, _, _, hp, _, _⟩ := routeMethod_inv h
    exact Or.inr (Or.inr (Or.inr ⟨hl, key, by rw [hp, KV.lookup_setKey_same]⟩))
  · rw [(route_dispatch defs st file).2.2.2.2 hl] at h
    obtain ⟨d, r, _, hc, _⟩ := section_checked_and_merged h
    exact Or.inr (Or.inl ⟨Or.inr hl, d, hc⟩)

/-- `intake_ok_inv`: what an accepted intake went through — the version gate, the routing of every
file (each one accepted by its branch, hence checked: `routed_file_checked`), the installation of
every program (hence of every method: `methods_installed`), placeholder removal and name validation;
and the returned tree is exactly the placeholder-free image of the parsed one -/
theorem intake_ok_inv {defs : KV} {files : List KV} {r : J} (h : intake defs files = .ok r) :
    ∃ sim0 fs st ps,
      defs.lookup simDefFile = some (.obj sim0) ∧ versionGate false files = .ok fs ∧
      routeAll defs { sim := sim0, programs := .nil, pool := .nil }
        (if hasOutputsFile fs then fs
         else fs ++ [KV.cons "parameter_level" (.str "outputs") .nil]) = .ok st ∧
      (∀ f, f ∈ (if hasOutputsFile fs then fs
                 else fs ++ [KV.cons "parameter_level" (.str "outputs") .nil]) →
        ∃ s1 s2, route defs s1 f = .ok s2) ∧
      installPrograms defs st.pool st.programs = .ok ps ∧
      (∀ name prog, st.programs.lookup name = some prog →
        ∃ pr, installProgram defs st.pool prog = .ok pr ∧ ps.lookup name = some pr) ∧
      r = rpVal (.obj (st.sim.setKey "programs" (.obj ps))) ∧
      validateNames (rpKvs (st.sim.setKey "programs" (.obj ps))) = .ok () := by
  simp only [intake] at h
  cases hs : defs.lookup simDefFile with
  | none => simp [hs] at h
  | some sv =>
    cases sv with
    | obj sim0 =>
      simp only [hs] at h
      cases hv : versionGate false files with
      | error e => simp [hv] at h
      | ok fs =>
        simp only [hv] at h
        cases hp : parse defs sim0 fs with
        | error e => simp [hp] at h
        | ok sim =>
          simp only [hp, removePlaceholders] at h
          cases hn : validateNames (rpKvs sim) with
          | error e => simp [hn] at h
          | ok u =>
            simp only [hn] at h
            cases h
            simp only [parse] at hp
            cases hr : routeAll defs { sim := sim0, programs := .nil, pool := .nil }
                (if hasOutputsFile fs then fs
                 else fs ++ [KV.cons "parameter_level" (.str "outputs") .nil]) with
            | error e => simp [hr] at hp
            | ok st =>
              simp only [hr] at hp
              cases hprog : st.programs with
              | nil => simp [hprog] at hp
              | cons k0 p0 t0 =>
                simp only [hprog] at hp
                cases hi : installPrograms defs st.pool (.cons k0 p0 t0) with
                | error e => simp [hi] at hp
                | ok ps =>
                  simp only [hi] at hp
                  cases hp
                  refine ⟨sim0, fs, st, ps, rfl, rfl, hr, routeAll_each defs _ _ st hr, ?_, ?_, ?_, ?_⟩
                  · rw [hprog]; exact hi
                  · intro name prog hl
                    rw [hprog] at hl
                    exact installPrograms_lookup defs st.pool _ ps name prog hi hl
                  · simp [rpVal]
                  · cases u; exact hn
    | _ => simp [hs] at h

/-- `intake_frame`: at every key path the returned parameters hold the placeholder-free image of
what the merged (parsed) parameters hold there — together with `merge_frame` for the merged
sections this is the frame clause for what the caller receives -/
theorem intake_frame (merged : J) (p : Path) :
    get? p (rpVal merged) = (get? p merged).map rpVal :=
  get?_rpVal p merged


/-! ### file order at the level where files really meet (`route`) -/

/-- `writes_swap`: two files that each write one slot (value independent of what came before —
true of every virtual_world / outputs / programs / methods file by `route_uniform`) can be given in
either order when they write different slots (different sections, different program names,
different method names): both orders are accepted and the resulting states hold the same
dictionaries up to key order -/
theorem writes_swap {defs : KV} {f g : KV} {wf wg : Write}
    (hf : ∀ st, route defs st f = .ok (applyW wf st))
    (hg : ∀ st, route defs st g = .ok (applyW wg st))
    (ht : wf.target ≠ wg.target) (st : St) :
    ∃ s1 s12 s2 s21, route defs st f = .ok s1 ∧ route defs s1 g = .ok s12 ∧
      route defs st g = .ok s2 ∧ route defs s2 f = .ok s21 ∧ St.equiv s12 s21 :=
  ⟨_, _, _, _, hf st, hg _, hg st, hf _, applyW_comm wf wg st ht⟩

/-- `files_of_different_levels_swap`: the positive order theorem under the check's assumption —
two accepted files of different levels among virtual_world / outputs / programs / methods can be
swapped anywhere in the list (with `writes_swap` also two program files with different names and two
method files with different names).  Simulation-settings files accumulate and are covered by
`merge_comm`; two files of one single-instance level are the recorded finding F18b. -/
theorem files_of_different_levels_swap {defs : KV} {f g : KV} {sf sg : String} {st0 st1 a b : St}
    (hlf : f.lookup "parameter_level" = some (.str sf))
    (hlg : g.lookup "parameter_level" = some (.str sg))
    (hsf : sf = "virtual_world" ∨ sf = "outputs" ∨ sf = "programs" ∨ sf = "methods")
    (hsg : sg = "virtual_world" ∨ sg = "outputs" ∨ sg = "programs" ∨ sg = "methods")
    (hne : sf ≠ sg) (hf : route defs st0 f = .ok a) (hg : route defs st1 g = .ok b) (st : St) :
    ∃ s1 s12 s2 s21, route defs st f = .ok s1 ∧ route defs s1 g = .ok s12 ∧
      route defs st g = .ok s2 ∧ route defs s2 f = .ok s21 ∧ St.equiv s12 s21 := by
  rcases route_uniform defs f sf hlf hsf with ⟨e, he⟩ | ⟨wf, hwf, f1, f2⟩
  · rw [he st0] at hf; cases hf
  rcases route_uniform defs g sg hlg hsg with ⟨e, he⟩ | ⟨wg, hwg, g1, g2⟩
  · rw [he st1] at hg; cases hg
  apply writes_swap hwf hwg _ st
  intro heq
  have e1 : kindOf sf = kindOf sg := by rw [← f1, ← g1, heq]
  have e2 : kindOf sf = "section" → sf = sg := by
    intro hk
    rw [← f2 hk, ← g2 (by rw [← e1]; exact hk), heq]
  rcases hsf with rfl | rfl | rfl | rfl <;> rcases hsg with rfl | rfl | rfl | rfl <;>
    first
    | exact hne rfl
    | exact absurd e1 (by decide)
    | exact hne (e2 (by decide))

end LdarModel.Tree
