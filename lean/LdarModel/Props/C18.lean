import LdarModel.Lemmas.Tree
/-
C18 — parameter intake: user values override defaults, everything else stays default.

Model: `Model/Tree.lean` (`retainUpdate`, `checkTypes`, `removePlaceholders`, `validateNames`,
`installProgram`, `parse`, `intake`).  Leaf = any non-dictionary value (lists are leaves, as in
`retain_update`).  `touched u p` = the path `p` lies on or below a leaf path of the update `u`.
Every statement is over all trees / paths / key sets / file lists; hypotheses named `wf` say that
dictionary keys are distinct (always true of Python dictionaries).
-/
namespace LdarModel.Tree

/-- the property at full strength over the model:
(1) an accepted file uses, at every depth, only keys the defaults have at the same place (only a
    top-level omit key of the level is exempt);
(2) the sections produced by the intake do not depend on the order of the parameter files. -/
def C18_statement : Prop :=
  (∀ (om : List String) (d t : J) (p : Path) (tk : KV) (k : String),
      checkTypes om d t = .ok () → get? p t = some (.obj tk) → k ∈ tk.keys →
      (∀ k0, (p ++ [k]).head? = some k0 → om.contains k0 = false) →
      ∃ dk, get? p d = some (.obj dk) ∧ k ∈ dk.keys)
  ∧
  (∀ (defs sim0 : KV) (fs gs : List KV) (slot : String), fs.Perm gs →
      (parse defs sim0 fs).toOption.map (·.lookup slot)
        = (parse defs sim0 gs).toOption.map (·.lookup slot))

/-! ### merge: defaults with exactly the user's leaves replaced -/

/-- `merge_frame`: after `retain_update(defaults, user)`
  (1) every leaf path of the user file holds the user's value,
  (2) every leaf path of the defaults that is not on or below a user leaf path holds the default,
  (3) nothing appears where neither had anything (when the user's keys are known),
  (4) every dictionary of the defaults off the user's leaf paths is still a dictionary, with the
      default's key list when the user's keys are known — sections are never replaced wholesale. -/
theorem merge_frame {d r : J} {ukvs : KV} (hwf : ukvs.wf = true)
    (h : retainUpdate d (.obj ukvs) = .ok r) :
    (∀ p v, get? p (.obj ukvs) = some v → v.isObj = false → get? p r = some v) ∧
    (∀ p v, get? p d = some v → v.isObj = false → touched (.obj ukvs) p = false →
        get? p r = some v) ∧
    (∀ p, get? p d = none → touched (.obj ukvs) p = false → get? p r = none) ∧
    (∀ p dk, get? p d = some (.obj dk) → touched (.obj ukvs) p = false →
        ∃ rk, get? p r = some (.obj rk) ∧ (Known d (.obj ukvs) → rk.keys = dk.keys)) := by
  simp only [retainUpdate] at h
  refine ⟨?_, ?_, ?_, ?_⟩
  · intro p v hg hv
    rw [ru_touched p ukvs d r hwf h (touched_of_leaf_at p _ v hg hv), hg]
  · intro p v hg hv ht
    exact (ru_untouched p ukvs d r hwf h ht).2.1 v hg hv
  · intro p hg ht
    exact (ru_untouched p ukvs d r hwf h ht).1 hg
  · intro p dk hg ht
    obtain ⟨rk, hr, hkeys⟩ := (ru_untouched p ukvs d r hwf h ht).2.2 dk hg
    refine ⟨rk, hr, fun hk => hkeys ?_⟩
    intro uk' hu k hm
    obtain ⟨dk2, hd2, hmem⟩ := hk p uk' k hu hm
    rw [hg] at hd2
    cases hd2
    exact hmem

/-- non-vacuity: a nested update of one leaf -/
example :
    retainUpdate (.obj (.cons "a" (.int 1) (.cons "s" (.obj (.cons "x" (.int 2) (.cons "y" (.int 3) .nil))) .nil)))
        (.obj (.cons "s" (.obj (.cons "y" (.int 9) .nil)) .nil))
      = .ok (.obj (.cons "a" (.int 1) (.cons "s" (.obj (.cons "x" (.int 2) (.cons "y" (.int 9) .nil))) .nil))) := rfl

/-- a file accepted by `check_types` (no omit keys) never crashes `retain_update` -/
theorem merge_total {d : J} {ukvs : KV} (hwf : ukvs.wf = true)
    (hc : checkTypes [] d (.obj ukvs) = .ok ()) : ∃ r, retainUpdate d (.obj ukvs) = .ok r := by
  obtain ⟨dk, hd, _⟩ := ct_obj hc
  subst hd
  simp only [retainUpdate]
  exact ru_total ukvs _ hwf (Or.inr rfl) (known_of_check hc).1

/-- `merge_comm`: two updates with disjoint leaf paths (keys known, leaves on leaves) merged in
either order give the same tree — the merged result does not depend on the file order -/
theorem merge_comm {u1 u2 : KV} {d r1 r12 r2 r21 : J}
    (hw1 : u1.wf = true) (hw2 : u2.wf = true) (hnd : NodupAt d)
    (hk1 : Known d (.obj u1)) (hk2 : Known d (.obj u2))
    (hl1 : LeafOnLeaf d (.obj u1)) (hl2 : LeafOnLeaf d (.obj u2))
    (hdis : DisjointLeaves (.obj u1) (.obj u2))
    (e1 : retainUpdate d (.obj u1) = .ok r1) (e12 : retainUpdate r1 (.obj u2) = .ok r12)
    (e2 : retainUpdate d (.obj u2) = .ok r2) (e21 : retainUpdate r2 (.obj u1) = .ok r21) :
    r12 = r21 := by
  simp only [retainUpdate] at e1 e12 e2 e21
  exact ru_comm hw1 hw2 hnd hk1 hk2 hl1 hl2 hdis e1 e12 e2 e21

/-- the same for two files that both pass `check_types`: both orders succeed and agree -/
theorem merge_comm_checked {u1 u2 : KV} {d : J}
    (hwd : d.wf = true) (hw1 : u1.wf = true) (hw2 : u2.wf = true)
    (hc1 : checkTypes [] d (.obj u1) = .ok ()) (hc2 : checkTypes [] d (.obj u2) = .ok ())
    (hdis : DisjointLeaves (.obj u1) (.obj u2)) :
    ∃ r1 r2 r, retainUpdate d (.obj u1) = .ok r1 ∧ retainUpdate r1 (.obj u2) = .ok r ∧
      retainUpdate d (.obj u2) = .ok r2 ∧ retainUpdate r2 (.obj u1) = .ok r := by
  obtain ⟨hk1, hl1⟩ := known_of_check hc1
  obtain ⟨hk2, hl2⟩ := known_of_check hc2
  obtain ⟨r1, e1⟩ := merge_total hw1 hc1
  obtain ⟨r2, e2⟩ := merge_total hw2 hc2
  simp only [retainUpdate] at e1 e2
  obtain ⟨dk, hd, _⟩ := ct_obj hc1
  subst hd
  obtain ⟨rk1, hr1⟩ := ru_obj u1 dk r1 e1
  obtain ⟨rk2, hr2⟩ := ru_obj u2 dk r2 e2
  subst hr1; subst hr2
  obtain ⟨r12, e12⟩ := ru_total u2 (.obj rk1) hw2 (Or.inr rfl) (known_after hw1 e1 hk1 hl1 hk2)
  obtain ⟨r21, e21⟩ := ru_total u1 (.obj rk2) hw1 (Or.inr rfl) (known_after hw2 e2 hk2 hl2 hk1)
  have := ru_comm hw1 hw2 (wf_nodupAt hwd) hk1 hk2 hl1 hl2 hdis e1 e12 e2 e21
  subst this
  exact ⟨_, _, r12, by simpa [retainUpdate] using e1, by simpa [retainUpdate] using e12,
    by simpa [retainUpdate] using e2, by simpa [retainUpdate] using e21⟩

/-- non-vacuity of the hypotheses of `merge_comm_checked` -/
example : ∃ r1 r2 r,
    retainUpdate (.obj (.cons "a" (.int 1) (.cons "b" (.float 5 (-1)) .nil))) (.obj (.cons "a" (.int 7) .nil)) = .ok r1 ∧
    retainUpdate r1 (.obj (.cons "b" (.int 2) .nil)) = .ok r ∧
    retainUpdate (.obj (.cons "a" (.int 1) (.cons "b" (.float 5 (-1)) .nil))) (.obj (.cons "b" (.int 2) .nil)) = .ok r2 ∧
    retainUpdate r2 (.obj (.cons "a" (.int 7) .nil)) = .ok r :=
  merge_comm_checked (by decide) (by decide) (by decide) rfl rfl
    (disjoint_of_keys (by decide))

/-! ### check: acceptance is exactly "every key known and every value typed" -/

/-- `accepts → known ∧ typed`: below an omit-free key path, whatever an accepted file holds has a
counterpart in the defaults at the same path, passes the node test `typeOk` against it, and — if it
is a dictionary — uses only keys that counterpart has; list elements are checked against the first
element of the default list -/
theorem accepts_known_typed {om : List String} {d t : J} (h : checkTypes om d t = .ok ())
    (p : Path) (hp : omitFree om p) (tv : J) (hg : get? p t = some tv) :
    ∃ dv, get? p d = some dv ∧ typeOk dv tv = true ∧
      (∀ tk k, tv = .obj tk → k ∈ tk.keys → om.contains k = false →
          ∃ dk, dv = .obj dk ∧ k ∈ dk.keys) ∧
      (∀ tl d0 ds x, tv = .list tl → dv = .list (.cons d0 ds) → x ∈ tl.toList →
          checkTypes om d0 x = .ok ()) := by
  obtain ⟨dv, hdv, hc⟩ := ct_get p d t tv h hp hg
  refine ⟨dv, hdv, ct_typeOk hc, ?_, ?_⟩
  · intro tk k htv hm ho
    subst htv
    obtain ⟨dk, hd, hct⟩ := ct_obj hc
    obtain ⟨x, hx⟩ := KV.lookup_of_mem_keys k tk hm
    obtain ⟨dv2, hdv2, _⟩ := ct_lookup tk k x hct hx ho
    exact ⟨dk, hd, KV.mem_keys_of_lookup hdv2⟩
  · intro tl d0 ds x htv hdl hm
    subst htv; subst hdl
    have hl : ctList om d0 tl = .ok () := by
      simp only [checkTypes] at hc
      split at hc
      · exact hc
      · cases hc
    exact ct_list_mem tl x hl hm

/-- `rejects_unknown_key`: a key (not an omit key) the defaults lack at the same omit-free path
makes `check_types` reject, at any depth -/
theorem rejects_unknown_key {om : List String} {d t : J} {p : Path} {tk : KV} {k : String}
    (hp : omitFree om p) (hg : get? p t = some (.obj tk)) (hm : k ∈ tk.keys)
    (ho : om.contains k = false)
    (hunknown : ∀ dk, get? p d = some (.obj dk) → k ∉ dk.keys) :
    ∃ e, checkTypes om d t = .error e := by
  cases hc : checkTypes om d t with
  | error e => exact ⟨e, rfl⟩
  | ok u =>
    obtain ⟨dv, hdv, _, hkn, _⟩ := accepts_known_typed hc p hp _ hg
    obtain ⟨dk, hd, hmem⟩ := hkn tk k rfl hm ho
    subst hd
    exact absurd hmem (hunknown dk hdv)

/-- `rejects_wrong_type`: a value that fails the node test against the default at the same
omit-free path (or has no default there) makes `check_types` reject, at any depth -/
theorem rejects_wrong_type {om : List String} {d t : J} {p : Path} {tv : J}
    (hp : omitFree om p) (hg : get? p t = some tv)
    (hwrong : ∀ dv, get? p d = some dv → typeOk dv tv = false) :
    ∃ e, checkTypes om d t = .error e := by
  cases hc : checkTypes om d t with
  | error e => exact ⟨e, rfl⟩
  | ok u =>
    obtain ⟨dv, hdv, hty, _, _⟩ := accepts_known_typed hc p hp _ hg
    rw [hwrong dv hdv] at hty
    cases hty

/-- the node test is the code's relation: equal types, int for float, typed placeholders -/
theorem typeOk_table :
    typeOk (.int 1) (.bool true) = false ∧ typeOk (.bool true) (.int 1) = false ∧
    typeOk (.float 1 0) (.int 3) = true ∧ typeOk (.int 1) (.float 3 0) = false ∧
    typeOk (.str phInt) (.int 3) = true ∧ typeOk (.str phInt) (.float 3 0) = false ∧
    typeOk (.str phInt) (.str "x") = false ∧ typeOk (.str phInt) (.str phInt) = true ∧
    typeOk (.str phFloat) (.int 3) = true ∧ typeOk (.str phFloat) (.float 3 0) = true ∧
    typeOk (.str phFloat) (.str "x") = false ∧ typeOk (.str phStr) (.str "x") = true ∧
    typeOk (.str phStr) (.int 1) = false ∧ typeOk (.str "a") (.null) = false ∧
    typeOk (.list .nil) (.obj .nil) = false ∧ typeOk (.obj .nil) (.list .nil) = false := by
  decide

/-- `C18_partial`: clause (1) of the statement with the code's actual exemption — no key of the
path (and not the key itself) is an omit key -/
theorem C18_partial (om : List String) (d t : J) (p : Path) (tk : KV) (k : String)
    (h : checkTypes om d t = .ok ()) (hg : get? p t = some (.obj tk)) (hm : k ∈ tk.keys)
    (hp : omitFree om (p ++ [k])) :
    ∃ dk, get? p d = some (.obj dk) ∧ k ∈ dk.keys := by
  have hp' : omitFree om p := fun k' hk' => hp k' (by simp [hk'])
  obtain ⟨dv, hdv, _, hkn, _⟩ := accepts_known_typed h p hp' _ hg
  obtain ⟨dk, hd, hmem⟩ := hkn tk k rfl hm (hp k (by simp))
  subst hd
  exact ⟨dk, hdv, hmem⟩

/-! ### the full-strength statement is false of the code as it stands (recorded findings) -/

/-- omit keys are exempt at every depth: `economics: {methods: 3}` in a program file is accepted
although `economics` has no key `methods` (finding F18a) -/
theorem C18_counterexample_omit :
    ¬ (∀ (om : List String) (d t : J) (p : Path) (tk : KV) (k : String),
      checkTypes om d t = .ok () → get? p t = some (.obj tk) → k ∈ tk.keys →
      (∀ k0, (p ++ [k]).head? = some k0 → om.contains k0 = false) →
      ∃ dk, get? p d = some (.obj dk) ∧ k ∈ dk.keys) := by
  intro h
  have := h ["methods"]
    (.obj (.cons "economics" (.obj (.cons "price" (.float 3 0) .nil)) .nil))
    (.obj (.cons "economics" (.obj (.cons "methods" (.int 3) .nil)) .nil))
    ["economics"] (.cons "methods" (.int 3) .nil) "methods" rfl rfl (by simp [KV.keys])
    (by intro k0 hk0; simp at hk0; subst hk0; decide)
  obtain ⟨dk, hd, hm⟩ := this
  have hd' : dk = .cons "price" (.float 3 0) .nil := by
    have : get? ["economics"] (.obj (.cons "economics" (.obj (.cons "price" (.float 3 0) .nil)) .nil))
        = some (.obj (.cons "price" (.float 3 0) .nil)) := rfl
    rw [this] at hd
    cases hd; rfl
  subst hd'
  simp [KV.keys] at hm

private def cxDefs : KV :=
  .cons "virtual_world_default.yml"
      (.obj (.cons "parameter_level" (.str "virtual_world") (.cons "a" (.int 1) (.cons "b" (.int 2) .nil))))
  (.cons "p_default.yml"
      (.obj (.cons "parameter_level" (.str "programs") (.cons "program_name" (.str "d")
        (.cons "method_labels" (.list .nil) .nil))))
  (.cons "outputs_default.yml" (.obj (.cons "parameter_level" (.str "outputs") .nil)) .nil))

private def cxA : KV := .cons "parameter_level" (.str "virtual_world") (.cons "a" (.int 5) .nil)
private def cxB : KV := .cons "parameter_level" (.str "virtual_world") (.cons "b" (.int 7) .nil)
private def cxP : KV := .cons "parameter_level" (.str "programs") (.cons "program_name" (.str "P") .nil)

/-- two virtual-world files: the later one replaces the section built from the earlier one, so
the result depends on the file order (finding F18b) -/
theorem C18_counterexample_order :
    ¬ (∀ (defs sim0 : KV) (fs gs : List KV) (slot : String), fs.Perm gs →
      (parse defs sim0 fs).toOption.map (·.lookup slot)
        = (parse defs sim0 gs).toOption.map (·.lookup slot)) := by
  intro h
  have hp : [cxA, cxB, cxP].Perm [cxB, cxA, cxP] := List.Perm.swap _ _ _
  have := h cxDefs .nil _ _ "virtual_world" hp
  have h1 : (parse cxDefs .nil [cxA, cxB, cxP]).toOption.map (·.lookup "virtual_world")
      = some (some (.obj (.cons "parameter_level" (.str "virtual_world")
          (.cons "a" (.int 1) (.cons "b" (.int 7) .nil))))) := rfl
  have h2 : (parse cxDefs .nil [cxB, cxA, cxP]).toOption.map (·.lookup "virtual_world")
      = some (some (.obj (.cons "parameter_level" (.str "virtual_world")
          (.cons "a" (.int 5) (.cons "b" (.int 2) .nil))))) := rfl
  rw [h1, h2] at this
  simp at this

theorem C18_counterexample : ¬ C18_statement := fun h => C18_counterexample_omit h.1

/-! ### methods installed, placeholders removed, reserved names rejected -/

/-- `methods_installed`: when a program is installed, every label of its `method_labels` is present
under `methods`, holding `retainUpdate (defaults of the method's own deployment type) userMethod`,
the user method having passed `check_types` against those defaults -/
theorem methods_installed {defs pool pk : KV} {r : J} {ls : JL}
    (h : installProgram defs pool (.obj pk) = .ok r)
    (hl : pk.lookup "method_labels" = some (.list ls)) :
    ∃ ms, get? ["methods"] r = some (.obj ms) ∧
      ∀ l, l ∈ ls.toList → ∃ key m mk df d rm,
        keyOf l = some key ∧ pool.lookup key = some m ∧ m = .obj mk ∧
        methodDefFile mk = .ok df ∧ loadDef defs df = .ok d ∧
        checkTypes methodOmit d m = .ok () ∧ retainUpdate d m = .ok rm ∧
        ms.lookup key = some rm := by
  simp only [installProgram, hl, iterLabels] at h
  cases hil : installLabels pool ls.toList .nil with
  | error e => simp [hil] at h
  | ok ms0 =>
    simp only [hil] at h
    cases him : installMethods defs ms0 with
    | error e => simp [him] at h
    | ok ms =>
      simp only [him] at h
      cases h
      refine ⟨ms, by simp [get?, KV.lookup_setKey_same], ?_⟩
      intro l hmem
      obtain ⟨i1, _, i3⟩ := installLabels_inv pool ls.toList .nil ms0 hil
        (by intro key m hk; simp [KV.lookup] at hk)
      obtain ⟨key, hko, hkm⟩ := i3 l hmem
      obtain ⟨m, hm⟩ := KV.lookup_of_mem_keys key ms0 hkm
      obtain ⟨rm, hrm, hlk⟩ := installMethods_lookup defs ms0 ms key m him hm
      have hpool := i1 key m hm
      cases m with
      | obj mk =>
        simp only [installMethod] at hrm
        cases hdf : methodDefFile mk with
        | error e => simp [hdf] at hrm
        | ok df =>
          simp only [hdf] at hrm
          cases hld : loadDef defs df with
          | error e => simp [hld] at hrm
          | ok d =>
            simp only [hld] at hrm
            cases hmn : mk.lookup "method_name" with
            | none => simp [hmn] at hrm
            | some nm =>
              simp only [hmn] at hrm
              cases hct : checkTypes methodOmit d (.obj mk) with
              | error e => simp [hct] at hrm
              | ok u =>
                simp only [hct] at hrm
                exact ⟨key, _, mk, df, d, rm, hko, hpool, rfl, hdf, hld, hct, hrm, hlk⟩
      | _ => simp [installMethod] at hrm

/-- the defaults file of a method is chosen by its own deployment type (or its own
`default_parameters` key), never by another file -/
theorem method_defaults_by_deployment_type (mk : KV)
    (hno : mk.lookup "default_parameters" = none) :
    (mk.lookup "deployment_type" = some (.str "mobile") →
        methodDefFile mk = .ok (.str mobileDefFile)) ∧
    (mk.lookup "deployment_type" = some (.str "stationary") →
        methodDefFile mk = .ok (.str stationaryDefFile)) ∧
    (∀ dt, mk.lookup "deployment_type" = some dt → dt.isStr "mobile" = false →
        dt.isStr "stationary" = false → methodDefFile mk = .error .exit) := by
  refine ⟨?_, ?_, ?_⟩
  · intro h; simp [methodDefFile, hno, h, J.isStr]
  · intro h; simp [methodDefFile, hno, h, J.isStr]
  · intro dt h h1 h2; simp [methodDefFile, hno, h, h1, h2]

/-- a label without a method file makes the installation of the program stop with
`missing_method` -/
theorem missing_method_rejected {defs pool pk : KV} {ls : JL}
    (hl : pk.lookup "method_labels" = some (.list ls))
    (hmiss : ∃ l, l ∈ ls.toList ∧ ∀ key, keyOf l = some key → pool.lookup key = none) :
    installProgram defs pool (.obj pk) = .error .missing_method := by
  simp [installProgram, hl, iterLabels, installLabels_missing pool ls.toList .nil hmiss]

/-- `no_placeholder_left`: whatever the intake returns holds no type placeholder, at any depth -/
theorem no_placeholder_left {defs : KV} {files : List KV} {r : J}
    (h : intake defs files = .ok r) : noPh r = true := by
  simp only [intake] at h
  split at h
  · split at h
    · cases h
    · split at h
      · cases h
      · rename_i sim _
        simp only [removePlaceholders] at h
        split at h
        · cases h
          simpa [noPh] using rpKvs_noPh sim
        · cases h
  · cases h

/-- placeholder removal touches nothing else: a value without placeholders is returned as it is -/
theorem placeholders_only (kvs : KV) (h : noPhK kvs = true) :
    removePlaceholders (.obj kvs) = .obj kvs := by
  simp [removePlaceholders, rpKvs_id kvs h]

/-- `reserved_names_rejected`: in whatever the intake returns no program name and no method label
is one of none / null / nan (in any letter case) -/
theorem reserved_names_rejected {defs : KV} {files : List KV} {r : J}
    (h : intake defs files = .ok r) :
    ∃ sim progs, r = .obj sim ∧ sim.lookup "programs" = some (.obj progs) ∧
      ∀ name prog, progs.lookup name = some prog →
        isReserved name = false ∧
        ∃ pk v ls, prog = .obj pk ∧ pk.lookup "method_labels" = some v ∧
          iterLabels v = .ok ls ∧ ∀ s, J.str s ∈ ls → isReserved s = false := by
  simp only [intake] at h
  split at h
  · split at h
    · cases h
    · split at h
      · cases h
      · rename_i sim _
        simp only [removePlaceholders] at h
        cases hv : validateNames (rpKvs sim) with
        | error e => simp [hv] at h
        | ok u =>
          simp only [hv] at h
          cases h
          simp only [validateNames] at hv
          split at hv
          · rename_i progs hp
            exact ⟨rpKvs sim, progs, rfl, hp, fun name prog hl => namesOk_lookup progs name prog hv hl⟩
          · cases hv
          · cases hv
  · cases h

private def exDefs : KV :=
  .cons "simulation_settings_default.yml"
      (.obj (.cons "parameter_level" (.str "simulation_settings") (.cons "version" (.str "4.0") (.cons "n" (.int 2) .nil))))
  (.cons "m_default_mobile.yml"
      (.obj (.cons "parameter_level" (.str "methods") (.cons "version" (.str "4.0")
        (.cons "method_name" (.str phStr) (.cons "deployment_type" (.str "mobile")
        (.cons "t" (.str phInt) (.cons "years" (.list (.cons (.str phInt) .nil)) .nil)))))))
  (.cons "virtual_world_default.yml"
      (.obj (.cons "parameter_level" (.str "virtual_world") (.cons "version" (.str "4.0")
        (.cons "a" (.int 1) (.cons "b" (.int 2) .nil)))))
  (.cons "p_default.yml"
      (.obj (.cons "parameter_level" (.str "programs") (.cons "version" (.str "4.0")
        (.cons "program_name" (.str "d") (.cons "method_labels" (.list .nil) .nil)))))
  (.cons "outputs_default.yml"
      (.obj (.cons "parameter_level" (.str "outputs") (.cons "version" (.str "4.0") .nil))) .nil))))

private def exM : KV :=
  .cons "parameter_level" (.str "methods") (.cons "method_name" (.str "M")
    (.cons "deployment_type" (.str "mobile") .nil))
private def exP : KV :=
  .cons "parameter_level" (.str "programs") (.cons "program_name" (.str "P")
    (.cons "method_labels" (.list (.cons (.str "M") .nil)) .nil))
private def exV : KV := .cons "parameter_level" (.str "virtual_world") (.cons "a" (.int 5) .nil)

/-- non-vacuity of `methods_installed`, `no_placeholder_left`, `reserved_names_rejected`: a small
complete intake that is accepted (method installed on the mobile defaults, placeholders gone) -/
example : intake exDefs [exP, exM, exV] = .ok
    (.obj (.cons "parameter_level" (.str "simulation_settings")
     (.cons "version" (.str "4.0")
     (.cons "n" (.int 2)
     (.cons "virtual_world" (.obj (.cons "parameter_level" (.str "virtual_world")
     (.cons "version" (.str "4.0")
     (.cons "a" (.int 5)
     (.cons "b" (.int 2)
     .nil)))))
     (.cons "outputs" (.obj (.cons "parameter_level" (.str "outputs")
     (.cons "version" (.str "4.0")
     .nil)))
     (.cons "programs" (.obj (.cons "P" (.obj (.cons "parameter_level" (.str "programs")
     (.cons "version" (.str "4.0")
     (.cons "program_name" (.str "P")
     (.cons "method_labels" (.list (.cons (.str "M") .nil))
     (.cons "methods" (.obj (.cons "M" (.obj (.cons "parameter_level" (.str "methods")
     (.cons "version" (.str "4.0")
     (.cons "method_name" (.str "M")
     (.cons "deployment_type" (.str "mobile")
     (.cons "t" .null
     (.cons "years" (.list .nil)
     .nil)))))))
     .nil))
     .nil))))))
     .nil))
     .nil))))))) := by
  rfl

/-- the reserved-name test itself -/
theorem reserved_table :
    isReserved "none" = true ∧ isReserved "None" = true ∧ isReserved "NULL" = true ∧
    isReserved "NaN" = true ∧ isReserved "nan" = true ∧ isReserved "P_none" = false ∧
    isReserved "nul" = false ∧ isReserved "" = false := by
  decide

/-- wiring of the virtual-world / outputs branches: the installed section is
`retainUpdate defaults file`, the file having passed `check_types` with no omit keys -/
theorem section_checked_and_merged {defs : KV} {defFile slot : String} {st st' : St} {file : KV}
    (h : routeSection defs defFile slot st file = .ok st') :
    ∃ d r, loadDef defs (match file.lookup "default_parameters" with
                          | some v => v
                          | none => .str defFile) = .ok d ∧
      checkTypes [] d (.obj file) = .ok () ∧ retainUpdate d (.obj file) = .ok r ∧
      st'.sim = st.sim.setKey slot r ∧ st'.programs = st.programs ∧ st'.pool = st.pool := by
  simp only [routeSection] at h
  split at h
  · cases h
  · rename_i d hd
    split at h
    · cases h
    · rename_i hc
      split at h
      · cases h
      · rename_i r hr
        cases h
        exact ⟨d, r, hd, by cases ‹Unit›; exact hc, hr, rfl, rfl, rfl⟩

end LdarModel.Tree
