import LdarModel.Lemmas.Emission
import LdarModel.Lemmas.EmissionE
/-
C04 — a leak is repaired only after being tagged, exactly after the configured delays.
Model: `Model/Emission.lean`.  Day-granularity convention (DESIGN.md 5.4): a leak found on day `T`
still emits on day `T`; the repair takes effect `max 1 (repair delay + reporting delay)` days after
the tag date, i.e. the recorded end date is `T + max 1 δ`.
-/
namespace LdarModel.Emission

/-! ### first tag wins -/

/-- a tag on an already tagged (or recorded) emission changes none of the tag fields -/
theorem C04_first_tag_wins (p : Params) (d : Int) (e : TagEv) (s : State) (h : s.tagged = true) :
    (tag p d e s).tagged = true ∧ (tag p d e s).by_ = s.by_ ∧ (tag p d e s).trd = s.trd ∧
    (tag p d e s).dst = s.dst ∧
    (s.initDetectBy ≠ none → (tag p d e s).initDetect = s.initDetect ∧
                              (tag p d e s).initDetectBy = s.initDetectBy) := by
  unfold tag detectRec; grind

/-- once tagged and on record, any further list of tag requests is the identity -/
theorem tags_idem (p : Params) (d : Int) (evs : List TagEv) (s : State)
    (h : s.status ≠ .active ∨ (s.tagged = true ∧ s.initDetectBy ≠ none)) :
    evs.foldl (fun s e => tag p d e s) s = s := by
  induction evs with
  | nil => rfl
  | cons e evs ih =>
    simp only [List.foldl_cons]
    have : tag p d e s = s := by
      unfold tag detectRec; grind
    rw [this]; exact ih

/-! ### end date = start date + total days active (all four emission classes) -/

private def EndOk (p : Params) (s : State) : Prop :=
  ((s.status = .repaired ∨ s.status = .expired) → s.endDate = some (p.start + (s.activeDays + b4 p))) ∧
  ((s.status = .inactive ∨ s.status = .active) → s.endDate = none)

private theorem day_endOk (p : Params) (d : Int) (evs : List TagEv) (s : State) (h : EndOk p s) :
    EndOk p (day p d evs s) := by
  unfold day
  have h1 : EndOk p (activate p d s) := by unfold EndOk activate at *; grind
  have h2 : ∀ (evs : List TagEv) (s : State), EndOk p s →
      EndOk p (evs.foldl (fun s e => tag p d e s) s) := by
    intro evs
    induction evs with
    | nil => intro s hs; simpa
    | cons e evs ih =>
      intro s hs; simp only [List.foldl_cons]; apply ih
      unfold EndOk tag detectRec at *; grind
  have h3 : ∀ s : State, EndOk p s → EndOk p (update p s) := by
    intro s hs
    have tf := toggle_frame p
    unfold EndOk at *
    unfold update endedAt
    cases hr : p.repairable <;> simp only [hr] <;> grind
  exact h3 _ (h2 _ _ h1)

/-- the recorded end date always equals start date + total days active (days before the period
included); emissions that have not ended have no end date -/
theorem C04_end_date (p : Params) (ev : Nat → List TagEv) (N : Nat) :
    (((run p ev N).status = .repaired ∨ (run p ev N).status = .expired) →
        (run p ev N).endDate = some (p.start + ((run p ev N).activeDays + b4 p))) ∧
    (((run p ev N).status = .inactive ∨ (run p ev N).status = .active) →
        (run p ev N).endDate = none) := by
  induction N with
  | zero => simp [run, init]
  | succ n ih => exact day_endOk p n (ev n) _ ih

/-! ### untagged leaks end only at their natural duration -/

/-- a repairable leak that ended without being tagged by any company ended naturally, after exactly
its natural number of in-period days, on `max start 0 + L` -/
theorem C04_untagged_natural (p : Params) (hr : p.repairable = true) (ev : Nat → List TagEv) (N : Nat)
    (hs : (run p ev N).status = .repaired) (hc : ∀ c, (run p ev N).by_ ≠ .company c) :
    (run p ev N).by_ = .natural ∧ (run p ev N).activeDays = L p ∧
    (run p ev N).endDate = some (a p + L p) := by
  have hi := run_inv p hr ev N
  unfold Inv at hi
  generalize run p ev N = s at *
  cases hby : s.by_ <;> grind

/-! ### a program repair needs a tag, and lands exactly `max 1 δ` days after it -/

/-- `max 1 x` -/
def atLeastOne (x : Int) : Int := if x ≥ 1 then x else 1

/-- history invariant after `n` complete days, for a repairable emission -/
def InvT (p : Params) (ev : Nat → List TagEv) (n : Nat) (s : State) : Prop :=
  (s.status = .active → (s.tagged = true ↔ s.initDetectBy ≠ none)) ∧
  (s.status = .inactive → s.tagged = false ∧ s.initDetectBy = none) ∧
  ((s.status = .inactive ∨ s.status = .active) → s.tagged = false →
      ∀ t : Nat, t < n → a p ≤ t → ev t = []) ∧
  (∀ c, s.by_ = .company c →
    ∃ T : Nat, T < n ∧ a p ≤ T ∧ s.initDetect = some (T : Int) ∧
      (∃ e rest, ev T = e :: rest ∧ e.company = c ∧ s.trd = e.trd) ∧
      (∀ t : Nat, t < T → a p ≤ t → ev t = []) ∧
      (s.status = .active → s.dst = n - T ∧ s.dst < p.repairDelay + s.trd) ∧
      (s.status = .repaired → s.endDate = some ((T : Int) + atLeastOne (p.repairDelay + s.trd))))

/-- the same in the middle of day `n` (after activation and the day's tags, before the update) -/
def InvTMid (p : Params) (ev : Nat → List TagEv) (n : Nat) (s : State) : Prop :=
  (s.status = .active → (s.tagged = true ↔ s.initDetectBy ≠ none)) ∧
  (s.status = .inactive → s.tagged = false ∧ s.initDetectBy = none) ∧
  ((s.status = .inactive ∨ s.status = .active) → s.tagged = false →
      (∀ t : Nat, t < n → a p ≤ t → ev t = []) ∧ (s.status = .active → ev n = [])) ∧
  (∀ c, s.by_ = .company c →
    ∃ T : Nat, T ≤ n ∧ a p ≤ T ∧ s.initDetect = some (T : Int) ∧
      (∃ e rest, ev T = e :: rest ∧ e.company = c ∧ s.trd = e.trd) ∧
      (∀ t : Nat, t < T → a p ≤ t → ev t = []) ∧
      (s.status = .active → s.dst = n - T ∧ (T < n → s.dst < p.repairDelay + s.trd)) ∧
      (s.status = .repaired → s.endDate = some ((T : Int) + atLeastOne (p.repairDelay + s.trd))))

theorem activate_T (p : Params) (ev : Nat → List TagEv) (n : Nat) (s : State)
    (hI : Inv p n s) (h : InvT p ev n s) : InvT p ev n (activate p n s) := by
  unfold Inv at hI
  unfold InvT at *
  obtain ⟨h1, h2, h3, h4⟩ := h
  by_cases hact : s.status = .inactive ∧ p.start ≤ n
  · have ha : a p = if p.start > 0 then p.start else 0 := rfl
    have e : activate p n s = { s with status := .active, emitting := if p.intermittent then true else s.emitting } := by
      unfold activate; simp [hact]
    rw [e]
    refine ⟨by grind, by grind, ?_, ?_⟩
    · intro _ _ t ht hat
      have := hI.1 hact.1
      omega
    · intro c hc
      have := (hI.1 hact.1).2.2.2.1
      simp at hc
      rw [this] at hc
      cases hc
  · have e : activate p n s = s := by unfold activate; simp [hact]
    rw [e]; exact ⟨h1, h2, h3, h4⟩

theorem tags_mid_T (p : Params) (hr : p.repairable = true) (ev : Nat → List TagEv) (n : Nat)
    (s : State) (hI : InvMid p n s) (h : InvT p ev n s) :
    InvTMid p ev n ((ev n).foldl (fun s e => tag p n e s) s) := by
  unfold InvMid at hI
  obtain ⟨h1, h2, h3, h4⟩ := h
  by_cases hid : s.status ≠ .active ∨ (s.tagged = true ∧ s.initDetectBy ≠ none)
  · rw [tags_idem p n (ev n) s hid]
    refine ⟨h1, h2, ?_, ?_⟩
    · intro hst htf
      refine ⟨h3 hst htf, ?_⟩
      intro hact
      rcases hid with hid | hid
      · exact absurd hact hid
      · rw [htf] at hid; exact absurd hid.1 (by decide)
    · intro c hc
      obtain ⟨T, hT, haT, hdet, hev, hno, hact, hrep⟩ := h4 c hc
      exact ⟨T, by omega, haT, hdet, hev, hno, fun hs => ⟨(hact hs).1, fun _ => (hact hs).2⟩, hrep⟩
  · have hact : s.status = .active := by
      by_cases hs : s.status = .active
      · exact hs
      · exact absurd (Or.inl hs) hid
    have htag : s.tagged = false := by
      cases ht : s.tagged
      · rfl
      · exfalso; apply hid; right; exact ⟨ht, (h1 hact).1 ht⟩
    have hidb : s.initDetectBy = none := by
      cases hb : s.initDetectBy
      · rfl
      · exfalso
        have := (h1 hact).2 (by rw [hb]; simp)
        rw [htag] at this; cases this
    have hmid := hI.2.1 hact
    cases hev : ev n with
    | nil =>
      simp only [List.foldl_nil]
      refine ⟨h1, h2, ?_, ?_⟩
      · intro hst htf
        exact ⟨h3 hst htf, fun _ => hev⟩
      · intro c hc
        have := (hmid.2.2.2.2.2.2.1 htag).1
        rw [this] at hc; cases hc
    | cons e rest =>
      simp only [List.foldl_cons]
      have e1 : tag p n e s = { s with tagged := true, by_ := .company e.company, trd := e.trd, initDetectBy := some e.company, initDetect := some (n : Int) } := by
        unfold tag detectRec; simp [hact, htag, hidb, hr]
      rw [e1, tags_idem p n rest _ (Or.inr ⟨rfl, by simp⟩)]
      refine ⟨by simp, by simp [hact], by simp, ?_⟩
      intro c hc
      simp only [By.company.injEq] at hc
      refine ⟨n, Nat.le_refl n, hmid.1, rfl, ⟨e, rest, hev, hc, rfl⟩, ?_, ?_, ?_⟩
      · exact h3 (Or.inr hact) htag
      · intro _
        have := (hmid.2.2.2.2.2.2.1 htag).2
        simp only
        exact ⟨by omega, fun h => absurd h (Nat.lt_irrefl n)⟩
      · intro hs; simp [hact] at hs

theorem update_T (p : Params) (hr : p.repairable = true) (ev : Nat → List TagEv) (n : Nat)
    (s : State) (hI : InvMid p n s) (h : InvTMid p ev n s) : InvT p ev (n + 1) (update p s) := by
  unfold InvMid at hI
  obtain ⟨h1, h2, h3, h4⟩ := h
  have hb := start_add_b4 p
  have tf := toggle_frame p
  by_cases hs : s.status = .active
  · have hmid := hI.2.1 hs
    -- the four outcomes of `update` on an active repairable emission
    by_cases ht : s.tagged = true
    · by_cases hrep : s.dst + 1 ≥ p.repairDelay + s.trd
      · have e : update p s = { s with activeDays := s.activeDays + 1, dst := s.dst + 1, status := .repaired, endDate := some (p.start + (s.activeDays + 1 + b4 p)) } := by
          unfold update endedAt; simp [hs, hr, ht, hrep]
        rw [e]
        refine ⟨by simp, by simp, by simp, ?_⟩
        intro c hc
        obtain ⟨T, hT, haT, hdet, hev, hno, hact, hrp⟩ := h4 c hc
        refine ⟨T, by omega, haT, hdet, hev, hno, by simp, ?_⟩
        intro _
        have hd := hact hs
        simp only
        unfold atLeastOne
        have : s.activeDays = n - a p := hmid.2.1
        by_cases hTn : T < n
        · have := hd.2 hTn
          split <;> (congr 1; omega)
        · have : T = n := by omega
          split <;> (congr 1; omega)
      · by_cases hnat : s.activeDays + 1 + b4 p ≥ p.nrd
        · have e : update p s = { s with activeDays := s.activeDays + 1, dst := s.dst + 1, tagged := true, by_ := .natural, status := .repaired, endDate := some (p.start + (s.activeDays + 1 + b4 p)) } := by
            unfold update endedAt; simp [hs, hr, ht, hrep, hnat]
          rw [e]
          refine ⟨by simp, by simp, by simp, ?_⟩
          intro c hc; simp at hc
        · have e : update p s = toggle p { s with activeDays := s.activeDays + 1, dst := s.dst + 1 } := by
            unfold update endedAt; simp [hs, hr, ht, hrep, hnat]
          have f := tf { s with activeDays := s.activeDays + 1, dst := s.dst + 1 }
          rw [e]
          refine ⟨?_, ?_, ?_, ?_⟩
          · intro _; rw [f.2.2.1, f.2.2.2.2.2.2.2.2]; exact h1 hs
          · intro hin; rw [f.1] at hin; simp [hs] at hin
          · intro _ htf; rw [f.2.2.1] at htf; simp [ht] at htf
          · intro c hc
            rw [f.2.2.2.1] at hc
            obtain ⟨T, hT, haT, hdet, hev, hno, hact, hrp⟩ := h4 c hc
            refine ⟨T, by omega, haT, by rw [f.2.2.2.2.2.2.2.1]; exact hdet, ?_, hno, ?_, ?_⟩
            · rw [f.2.2.2.2.2.2.1]; exact hev
            · intro _
              rw [f.2.2.2.2.2.1, f.2.2.2.2.2.2.1]
              have hd := (hact hs).1
              simp only
              constructor
              · omega
              · omega
            · intro hrs; rw [f.1] at hrs; simp [hs] at hrs
    · have htf : s.tagged = false := by cases h : s.tagged <;> simp_all
      have hnone := (hmid.2.2.2.2.2.2.1 htf).1
      have hno := h3 (Or.inr hs) htf
      by_cases hnat : s.activeDays + 1 + b4 p ≥ p.nrd
      · have e : update p s = { s with activeDays := s.activeDays + 1, tagged := true, by_ := .natural, status := .repaired, endDate := some (p.start + (s.activeDays + 1 + b4 p)) } := by
          unfold update endedAt; simp [hs, hr, htf, hnat]
        rw [e]
        refine ⟨by simp, by simp, by simp, ?_⟩
        intro c hc; simp at hc
      · have e : update p s = toggle p { s with activeDays := s.activeDays + 1 } := by
          unfold update endedAt; simp [hs, hr, htf, hnat]
        have f := tf { s with activeDays := s.activeDays + 1 }
        rw [e]
        refine ⟨?_, ?_, ?_, ?_⟩
        · intro _; rw [f.2.2.1, f.2.2.2.2.2.2.2.2]; exact h1 hs
        · intro hin; rw [f.1] at hin; simp [hs] at hin
        · intro _ _ t ht' hat
          by_cases htn : t < n
          · exact hno.1 t htn hat
          · have : t = n := by omega
            rw [this]; exact hno.2 hs
        · intro c hc
          rw [f.2.2.2.1] at hc
          simp only at hc
          rw [hnone] at hc; cases hc
  · have e : update p s = s := by unfold update; simp [hs]
    rw [e]
    refine ⟨fun h => absurd h hs, h2, ?_, ?_⟩
    · intro hst htf t ht hat
      have hin : s.status = .inactive := by
        rcases hst with h | h
        · exact h
        · exact absurd h hs
      have := (hI.1 hin).1
      omega
    · intro c hc
      obtain ⟨T, hT, haT, hdet, hev, hno, hact, hrp⟩ := h4 c hc
      exact ⟨T, by omega, haT, hdet, hev, hno, fun h => absurd h hs, hrp⟩

theorem run_invT (p : Params) (hr : p.repairable = true) (ev : Nat → List TagEv) (n : Nat) :
    InvT p ev n (run p ev n) := by
  induction n with
  | zero =>
    unfold InvT run init
    refine ⟨by simp, by simp, ?_, by simp⟩
    intro _ _ t ht; omega
  | succ n ih =>
    have hI := run_inv p hr ev n
    have hA := activate_mid p n _ hI
    have hT1 := activate_T p ev n _ hI ih
    have hM := tags_mid p n (ev n) _ hA
    have hT2 := tags_mid_T p hr ev n _ hA hT1
    exact update_T p hr ev n _ hM hT2

/-- C04 main theorem: if a leak ends the run repaired by company `c`, then on some day `T` inside
the period, while the leak was active, the first tag request that ever reached it came from `c`;
no tag request reached it on an earlier active day (first tag wins); its reporting delay is the one
of that request; the recorded detection date is `T`; and the repair took effect exactly
`max 1 (repair delay + reporting delay)` days after `T` — never earlier, never later. -/
theorem C04_repair_needs_tag (p : Params) (hr : p.repairable = true) (ev : Nat → List TagEv)
    (N : Nat) (c : Nat) (hs : (run p ev N).status = .repaired) (hc : (run p ev N).by_ = .company c) :
    ∃ T : Nat, T < N ∧ a p ≤ T ∧ (run p ev N).initDetect = some (T : Int) ∧
      (∃ e rest, ev T = e :: rest ∧ e.company = c ∧
        (run p ev N).endDate = some ((T : Int) + atLeastOne (p.repairDelay + e.trd))) ∧
      (∀ t : Nat, t < T → a p ≤ t → ev t = []) := by
  obtain ⟨T, hT, haT, hdet, ⟨e, rest, hev, hec, htrd⟩, hno, _, hrep⟩ := (run_invT p hr ev N).2.2.2 c hc
  refine ⟨T, hT, haT, hdet, ⟨e, rest, hev, hec, ?_⟩, hno⟩
  rw [← htrd]; exact hrep hs

/-- while a tagged leak waits for its repair it is still active and the count of days since the
tag is exact: the repair cannot come earlier than the configured delays -/
theorem C04_not_earlier (p : Params) (hr : p.repairable = true) (ev : Nat → List TagEv)
    (N : Nat) (c : Nat) (hs : (run p ev N).status = .active) (hc : (run p ev N).by_ = .company c) :
    ∃ T : Nat, T < N ∧ (run p ev N).initDetect = some (T : Int) ∧
      (run p ev N).dst = N - T ∧ (run p ev N).dst < p.repairDelay + (run p ev N).trd := by
  obtain ⟨T, hT, _, hdet, _, _, hact, _⟩ := (run_invT p hr ev N).2.2.2 c hc
  exact ⟨T, hT, hdet, (hact hs).1, (hact hs).2⟩

/-- C04 over the simulator's real day loop: tag requests mixed with detection-only events of
screening methods.  `T` is the first day a *tag request* reached the active leak. -/
theorem C04_repair_needs_tag_E (p : Params) (hr : p.repairable = true) (ev : Nat → List Ev)
    (N : Nat) (c : Nat) (hs : (runE p ev N).status = .repaired) (hc : (runE p ev N).by_ = .company c) :
    ∃ T : Nat, T < N ∧ a p ≤ T ∧
      (∃ e rest, tagsOf (ev T) = e :: rest ∧ e.company = c ∧
        (runE p ev N).endDate = some ((T : Int) + atLeastOne (p.repairDelay + e.trd))) ∧
      (∀ t : Nat, t < T → a p ≤ t → tagsOf (ev t) = []) := by
  have f := runE_fields p ev N
  simp only at f
  rw [f.1] at hs
  rw [f.2.2.2.2.2.1] at hc
  obtain ⟨T, hT, haT, _, ⟨e, rest, hev, hec, hend⟩, hno⟩ :=
    C04_repair_needs_tag p hr (fun d => tagsOf (ev d)) N c hs hc
  exact ⟨T, hT, haT, ⟨e, rest, hev, hec, by rw [f.2.2.2.2.2.2.1]; exact hend⟩, hno⟩

theorem C04_end_date_E (p : Params) (ev : Nat → List Ev) (N : Nat) :
    (((runE p ev N).status = .repaired ∨ (runE p ev N).status = .expired) →
        (runE p ev N).endDate = some (p.start + ((runE p ev N).activeDays + b4 p))) ∧
    (((runE p ev N).status = .inactive ∨ (runE p ev N).status = .active) →
        (runE p ev N).endDate = none) := by
  have f := runE_fields p ev N
  simp only at f
  rw [f.1, f.2.1, f.2.2.2.2.2.2.1]
  exact C04_end_date p (fun d => tagsOf (ev d)) N

theorem C04_untagged_natural_E (p : Params) (hr : p.repairable = true) (ev : Nat → List Ev) (N : Nat)
    (hs : (runE p ev N).status = .repaired) (hc : ∀ c, (runE p ev N).by_ ≠ .company c) :
    (runE p ev N).by_ = .natural ∧ (runE p ev N).activeDays = L p ∧
    (runE p ev N).endDate = some (a p + L p) := by
  have f := runE_fields p ev N
  simp only at f
  rw [f.1] at hs
  rw [f.2.2.2.2.2.1] at hc ⊢
  rw [f.2.1, f.2.2.2.2.2.2.1]
  exact C04_untagged_natural p hr (fun d => tagsOf (ev d)) N hs hc

/-- tagging calls are issued only by a *completed* survey and only for components whose detection
report has a measured rate > 0 -/
theorem C04_tag_needs_completed_survey (complete : Bool) (dets : List (Nat × Int)) (c : Nat)
    (h : c ∈ tagCalls complete dets) : complete = true ∧ ∃ r, (c, r) ∈ dets ∧ r > 0 := by
  unfold tagCalls at h
  cases complete
  · simp at h
  · simp only [if_true, List.mem_map, List.mem_filter] at h
    obtain ⟨⟨c', r⟩, ⟨hm, hr⟩, hc⟩ := h
    simp only at hc hr
    subst hc
    exact ⟨rfl, r, hm, by simpa using hr⟩

/-- a sampled repair delay is one of the configured values -/
theorem C04_delay_from_list (l : List Int) (i : Nat) (d : Int) (h : sampleDelay l i = some d) :
    d ∈ l := by
  unfold sampleDelay at h
  exact List.mem_of_getElem? h

/-! ### never later; natural end first; the first tag stays (every status) -/

/-- **never later**: a repairable leak that is still active after `N` days either was never reached by
a tag request on an active day, or its first tag request came on day `T` and fewer than
`repair delay + reporting delay` days have passed since — a tagged leak is never left waiting beyond
the configured delays -/
theorem C04_never_later (p : Params) (hr : p.repairable = true) (ev : Nat → List TagEv) (N : Nat)
    (hs : (run p ev N).status = .active) :
    (∀ t : Nat, t < N → a p ≤ t → ev t = []) ∨
    ∃ (T : Nat) (e : TagEv) (rest : List TagEv), T < N ∧ a p ≤ T ∧ ev T = e :: rest ∧
      (∀ t : Nat, t < T → a p ≤ t → ev t = []) ∧ (N : Int) - T < p.repairDelay + e.trd := by
  have hT := run_invT p hr ev N
  have hI := run_inv p hr ev N
  unfold InvT at hT
  unfold Inv at hI
  obtain ⟨h1, h2, h3, h4⟩ := hT
  have hA := hI.2.1 hs
  cases ht : (run p ev N).tagged
  · left; exact h3 (Or.inr hs) ht
  · right
    have hne := hA.2.2.2.2.2.2.2 ht
    cases hby : (run p ev N).by_ with
    | none => exact absurd hby hne
    | natural => exact absurd hby hA.2.2.2.1
    | expire => exact absurd hby hA.2.2.2.2.1
    | company c =>
      obtain ⟨T, hTN, haT, _, ⟨e, rest, hev, _, htrd⟩, hno, hact, _⟩ := h4 c hby
      have := hact hs
      exact ⟨T, e, rest, hTN, haT, hev, hno, by rw [← htrd]; omega⟩

/-- **the first tag stays**, whatever the status (waiting, repaired): the company on record is the
issuer of the first tag request that reached the active leak, the reporting delay and the detection
date are those of that request (direct projection of `run_invT`) -/
theorem C04_first_tag_stays (p : Params) (hr : p.repairable = true) (ev : Nat → List TagEv) (N : Nat)
    (c : Nat) (hc : (run p ev N).by_ = .company c) :
    ∃ (T : Nat) (e : TagEv) (rest : List TagEv), T < N ∧ a p ≤ T ∧ ev T = e :: rest ∧ e.company = c ∧
      (run p ev N).trd = e.trd ∧ (run p ev N).initDetect = some (T : Int) ∧
      (∀ t : Nat, t < T → a p ≤ t → ev t = []) := by
  obtain ⟨T, hT, haT, hdet, ⟨e, rest, hev, hec, htrd⟩, hno, _, _⟩ := (run_invT p hr ev N).2.2.2 c hc
  exact ⟨T, e, rest, hT, haT, hev, hec, htrd, hdet, hno⟩

private theorem tags_status (p : Params) (d : Int) (evs : List TagEv) (s : State) :
    (evs.foldl (fun s e => tag p d e s) s).status = s.status := by
  induction evs generalizing s with
  | nil => rfl
  | cons e evs ih =>
    simp only [List.foldl_cons]
    rw [ih]; unfold tag detectRec; grind

/-- history invariant for leaks that ended naturally -/
def InvNF (p : Params) (ev : Nat → List TagEv) (s : State) : Prop :=
  s.status = .repaired → s.by_ = .natural →
    ∃ m : Nat, s.endDate = some (m : Int) ∧
      ((∀ t : Nat, t < m → a p ≤ t → ev t = []) ∨
       ∃ (T : Nat) (e : TagEv) (rest : List TagEv), T < m ∧ a p ≤ T ∧ ev T = e :: rest ∧
         (∀ t : Nat, t < T → a p ≤ t → ev t = []) ∧
         (m : Int) < T + atLeastOne (p.repairDelay + e.trd))

theorem run_invNF (p : Params) (hr : p.repairable = true) (ev : Nat → List TagEv) (n : Nat) :
    InvNF p ev (run p ev n) := by
  induction n with
  | zero => unfold InvNF run init; simp
  | succ n ih =>
    have hI := run_inv p hr ev n
    have hTn := run_invT p hr ev n
    have hA := activate_mid p n _ hI
    have hT1 := activate_T p ev n _ hI hTn
    have hM := tags_mid p n (ev n) _ hA
    have hT2 := tags_mid_T p hr ev n _ hA hT1
    have hst := tags_status p n (ev n) (activate p n (run p ev n))
    simp only [run, day]
    generalize hm : (ev n).foldl (fun s e => tag p n e s) (activate p n (run p ev n)) = m at hM hT2 hst
    by_cases hact : m.status = .active
    · -- the day's update decides
      unfold InvMid at hM
      obtain ⟨t1, t2, t3, t4⟩ := hT2
      have hmid := hM.2.1 hact
      have hb := start_add_b4 p
      intro hs hby
      by_cases ht : m.tagged = true
      · -- tagged before: the natural end came strictly before the repair was due
        have hne := hmid.2.2.2.2.2.2.2 ht
        cases hbm : m.by_ with
        | none => exact absurd hbm hne
        | natural => exact absurd hbm hmid.2.2.2.1
        | expire => exact absurd hbm hmid.2.2.2.2.1
        | company c =>
          obtain ⟨T, hT, haT, hdet, ⟨e, rest, hev, hec, htrd⟩, hno, hdst, _⟩ := t4 c hbm
          have hd := (hdst hact).1
          by_cases hrep : m.dst + 1 ≥ p.repairDelay + m.trd
          · exfalso
            have e1 : update p m = { m with activeDays := m.activeDays + 1, dst := m.dst + 1, status := .repaired, endDate := some (p.start + (m.activeDays + 1 + b4 p)) } := by
              unfold update endedAt; simp [hact, hr, ht, hrep]
            rw [e1] at hby; simp only at hby; rw [hbm] at hby; cases hby
          · by_cases hnat : m.activeDays + 1 + b4 p ≥ p.nrd
            · have e1 : update p m = { m with activeDays := m.activeDays + 1, dst := m.dst + 1, tagged := true, by_ := .natural, status := .repaired, endDate := some (p.start + (m.activeDays + 1 + b4 p)) } := by
                unfold update endedAt; simp [hact, hr, ht, hrep, hnat]
              rw [e1]
              refine ⟨n + 1, ?_, Or.inr ⟨T, e, rest, by omega, haT, hev, hno, ?_⟩⟩
              · simp only; congr 1; have := hmid.2.1; push_cast; omega
              · unfold atLeastOne; rw [← htrd]; push_cast; split <;> omega
            · exfalso
              have e1 : update p m = toggle p { m with activeDays := m.activeDays + 1, dst := m.dst + 1 } := by
                unfold update endedAt; simp [hact, hr, ht, hrep, hnat]
              have f := toggle_frame p { m with activeDays := m.activeDays + 1, dst := m.dst + 1 }
              rw [e1, f.1] at hs; simp only at hs; rw [hact] at hs; cases hs
      · have htf : m.tagged = false := by cases h : m.tagged <;> simp_all
        have hno := t3 (Or.inr hact) htf
        by_cases hnat : m.activeDays + 1 + b4 p ≥ p.nrd
        · have e1 : update p m = { m with activeDays := m.activeDays + 1, tagged := true, by_ := .natural, status := .repaired, endDate := some (p.start + (m.activeDays + 1 + b4 p)) } := by
            unfold update endedAt; simp [hact, hr, htf, hnat]
          rw [e1]
          refine ⟨n + 1, ?_, Or.inl ?_⟩
          · simp only; congr 1; have := hmid.2.1; push_cast; omega
          · intro t htn hat
            by_cases h : t < n
            · exact hno.1 t h hat
            · have : t = n := by omega
              rw [this]; exact hno.2 hact
        · exfalso
          have e1 : update p m = toggle p { m with activeDays := m.activeDays + 1 } := by
            unfold update endedAt; simp [hact, hr, htf, hnat]
          have f := toggle_frame p { m with activeDays := m.activeDays + 1 }
          rw [e1, f.1] at hs; simp only at hs; rw [hact] at hs; cases hs
    · -- nothing happens to an emission that is not active: it was already in this state
      have e1 : update p m = m := by unfold update; simp [hact]
      rw [e1]
      intro hs hby
      have hrs : (run p ev n).status = .repaired := by
        rw [hst] at hs
        unfold activate at hs
        split at hs
        · simp at hs
        · exact hs
      have e2 : activate p n (run p ev n) = run p ev n := by unfold activate; simp [hrs]
      have e3 : m = run p ev n := by
        rw [← hm, e2]; exact tags_idem p n (ev n) _ (Or.inl (by rw [hrs]; decide))
      rw [e3] at hby ⊢
      exact ih hrs hby

/-- **unless the natural end comes first**: a leak that ended `natural` ended on its natural end date
`max start 0 + L`, and either no tag request reached it on any of its active days, or the first one
came on day `T` and the natural end was *strictly* before `T + max 1 (repair delay + reporting
delay)` (on a tie the program repair wins) -/
theorem C04_natural_first (p : Params) (hr : p.repairable = true) (ev : Nat → List TagEv) (N : Nat)
    (hs : (run p ev N).status = .repaired) (hby : (run p ev N).by_ = .natural) :
    (run p ev N).endDate = some (a p + L p) ∧
    ((∀ t : Nat, a p ≤ t → (t : Int) < a p + L p → ev t = []) ∨
     ∃ (T : Nat) (e : TagEv) (rest : List TagEv), a p ≤ T ∧ (T : Int) < a p + L p ∧ ev T = e :: rest ∧
       (∀ t : Nat, t < T → a p ≤ t → ev t = []) ∧
       a p + L p < T + atLeastOne (p.repairDelay + e.trd)) := by
  obtain ⟨m, hm, h⟩ := run_invNF p hr ev N hs hby
  have hI := run_inv p hr ev N
  unfold Inv at hI
  have hR := hI.2.2.1 hs
  have hL := hR.2.2.2.2.1 hby
  have hend : (run p ev N).endDate = some (a p + L p) := by rw [hR.1, hL]
  have hmL : (m : Int) = a p + L p := by rw [hm] at hend; injection hend
  refine ⟨hend, ?_⟩
  rcases h with h | ⟨T, e, rest, hTm, haT, hev, hno, hlt⟩
  · left; intro t hat htl; exact h t (by omega) hat
  · right; exact ⟨T, e, rest, haT, by omega, hev, hno, by omega⟩


/-- the three theorems over the simulator's real day loop (tag requests mixed with detection-only events) -/
theorem C04_never_later_E (p : Params) (hr : p.repairable = true) (ev : Nat → List Ev) (N : Nat)
    (hs : (runE p ev N).status = .active) :
    (∀ t : Nat, t < N → a p ≤ t → tagsOf (ev t) = []) ∨
    ∃ (T : Nat) (e : TagEv) (rest : List TagEv), T < N ∧ a p ≤ T ∧ tagsOf (ev T) = e :: rest ∧
      (∀ t : Nat, t < T → a p ≤ t → tagsOf (ev t) = []) ∧ (N : Int) - T < p.repairDelay + e.trd := by
  have f := runE_fields p ev N
  simp only at f
  rw [f.1] at hs
  exact C04_never_later p hr (fun d => tagsOf (ev d)) N hs

theorem C04_natural_first_E (p : Params) (hr : p.repairable = true) (ev : Nat → List Ev) (N : Nat)
    (hs : (runE p ev N).status = .repaired) (hby : (runE p ev N).by_ = .natural) :
    (runE p ev N).endDate = some (a p + L p) ∧
    ((∀ t : Nat, a p ≤ t → (t : Int) < a p + L p → tagsOf (ev t) = []) ∨
     ∃ (T : Nat) (e : TagEv) (rest : List TagEv), a p ≤ T ∧ (T : Int) < a p + L p ∧
       tagsOf (ev T) = e :: rest ∧ (∀ t : Nat, t < T → a p ≤ t → tagsOf (ev t) = []) ∧
       a p + L p < T + atLeastOne (p.repairDelay + e.trd)) := by
  have f := runE_fields p ev N
  simp only at f
  rw [f.1] at hs
  rw [f.2.2.2.2.2.1] at hby
  rw [f.2.2.2.2.2.2.1]
  exact C04_natural_first p hr (fun d => tagsOf (ev d)) N hs hby

theorem C04_first_tag_stays_E (p : Params) (hr : p.repairable = true) (ev : Nat → List Ev) (N : Nat)
    (c : Nat) (hc : (runE p ev N).by_ = .company c) :
    ∃ (T : Nat) (e : TagEv) (rest : List TagEv), T < N ∧ a p ≤ T ∧ tagsOf (ev T) = e :: rest ∧
      e.company = c ∧ (runE p ev N).trd = e.trd ∧
      (∀ t : Nat, t < T → a p ≤ t → tagsOf (ev t) = []) := by
  have f := runE_fields p ev N
  simp only at f
  rw [f.2.2.2.2.2.1] at hc
  rw [f.2.2.2.2.1]
  obtain ⟨T, e, rest, hT, haT, hev, hec, htrd, _, hno⟩ :=
    C04_first_tag_stays p hr (fun d => tagsOf (ev d)) N c hc
  exact ⟨T, e, rest, hT, haT, hev, hec, htrd, hno⟩

/-- every tag request a survey step issues (`tagEvs`, compared with the real
`ComponentLevelMethod.survey_site` on every run) comes from a *completed* survey, concerns a component
whose detection report carries a measured rate > 0, and carries the surveying method's own name and
reporting delay -/
theorem C04_tag_event_fields (m : Nat) (trd : Int) (complete : Bool) (dets : List (Nat × Int))
    (x : Nat × TagEv) (h : x ∈ tagEvs m trd complete dets) :
    complete = true ∧ x.2.company = m ∧ x.2.trd = trd ∧ ∃ r, (x.1, r) ∈ dets ∧ r > 0 := by
  unfold tagEvs at h
  simp only [List.mem_map] at h
  obtain ⟨c, hc, hx⟩ := h
  obtain ⟨h1, r, hr, hpos⟩ := C04_tag_needs_completed_survey complete dets c hc
  subst hx
  exact ⟨h1, rfl, rfl, r, hr, hpos⟩

/-- an incomplete survey step issues no tag request and leaves the site's latest tagging survey date
alone; a completed one moves it to the current day -/
theorem C04_incomplete_survey_no_tags (m : Nat) (trd : Int) (dets : List (Nat × Int)) (prev cur : Int) :
    tagEvs m trd false dets = [] ∧ latestTaggingSurvey false prev cur = prev ∧
    latestTaggingSurvey true prev cur = cur := by
  unfold tagEvs tagCalls latestTaggingSurvey; simp

/-- non-vacuity: tagged on day 3 by company 2 (reporting delay 1, repair delay 2) → ends day 6 -/
example :
    let p : Params := { start := 1, nrd := 30, repairDelay := 2, repairable := true,
                        intermittent := false, activeDur := 1, inactiveDur := 0 }
    let ev : Nat → List TagEv := fun d => if d = 3 then [{ company := 2, trd := 1 }, { company := 5, trd := 0 }]
                                          else if d = 4 then [{ company := 5, trd := 0 }] else []
    (run p ev 10).status = .repaired ∧ (run p ev 10).by_ = .company 2 ∧
    (run p ev 10).endDate = some 6 ∧ (run p ev 10).initDetect = some 3 := by
  decide +kernel

/-- non-vacuity of `C04_never_later` (second alternative), `C04_natural_first` (second alternative) -/
example :
    let p : Params := { start := 0, nrd := 10, repairDelay := 5, repairable := true,
                        intermittent := false, activeDur := 1, inactiveDur := 0 }
    let ev : Nat → List TagEv := fun d => if d = 7 then [{ company := 1, trd := 1 }] else []
    (run p ev 9).status = .active ∧ (run p ev 9).by_ = .company 1 ∧
    (run p ev 20).status = .repaired ∧ (run p ev 20).by_ = .natural ∧ (run p ev 20).endDate = some 10 ∧
    a p + L p < 7 + atLeastOne (p.repairDelay + 1) := by
  decide +kernel

example : tagEvs 3 2 true [(0, 5), (1, 0), (2, -3), (0, 7)] = [(0, ⟨3, 2⟩), (0, ⟨3, 2⟩)]
    ∧ sampleDelay [4, 5, 6] 4 = some 5 := by
  decide +kernel

/-! ### calendar: the life-cycle depends on relative days only -/

/-- the event schedule of a period that starts `k` days later -/
def shiftEv (k : Nat) (ev : Nat → List TagEv) : Nat → List TagEv :=
  fun d => if d < k then [] else ev (d - k)

/-- a state with its two recorded dates moved by `k` days -/
def shiftState (k : Int) (s : State) : State :=
  { s with endDate := s.endDate.map (· + k), initDetect := s.initDetect.map (· + k) }

def shiftP (k : Nat) (p : Params) : Params := { p with start := p.start + k }

private theorem b4_shift (p : Params) (h0 : 0 ≤ p.start) (k : Nat) : b4 (shiftP k p) = 0 ∧ b4 p = 0 := by
  unfold b4 shiftP; simp only; constructor <;> split <;> omega

private theorem activate_shift (p : Params) (k : Nat) (n : Int) (s : State) :
    activate (shiftP k p) (n + k) (shiftState k s) = shiftState k (activate p n s) := by
  unfold activate shiftState shiftP
  simp only
  have : (p.start + (k : Int) ≤ n + k) ↔ p.start ≤ n := by omega
  by_cases h : s.status = .inactive ∧ p.start ≤ n
  · have h' : s.status = .inactive ∧ p.start + (k : Int) ≤ n + k := ⟨h.1, this.2 h.2⟩
    simp [h]
  · have h' : ¬ (s.status = .inactive ∧ p.start + (k : Int) ≤ n + k) := fun x => h ⟨x.1, this.1 x.2⟩
    simp [h, h']

private theorem tag_shift (p : Params) (k : Nat) (n : Int) (e : TagEv) (s : State) :
    tag (shiftP k p) (n + k) e (shiftState k s) = shiftState k (tag p n e s) := by
  unfold tag detectRec shiftState shiftP
  simp only
  by_cases h1 : s.status = .active <;> by_cases h2 : s.tagged = true <;> by_cases h3 : s.initDetectBy = none <;>
    simp [h1, h2, h3]

private theorem tags_shift (p : Params) (k : Nat) (n : Int) (evs : List TagEv) (s : State) :
    evs.foldl (fun s e => tag (shiftP k p) (n + k) e s) (shiftState k s)
      = shiftState k (evs.foldl (fun s e => tag p n e s) s) := by
  induction evs generalizing s with
  | nil => rfl
  | cons e evs ih => simp only [List.foldl_cons]; rw [tag_shift, ih]

private theorem toggle_shift (p : Params) (k : Nat) (s : State) :
    toggle (shiftP k p) (shiftState k s) = shiftState k (toggle p s) := by
  unfold toggle shiftState shiftP
  simp only
  split
  · rfl
  · split
    · split <;> rfl
    · split <;> rfl

private theorem update_shift (p : Params) (h0 : 0 ≤ p.start) (k : Nat) (s : State) :
    update (shiftP k p) (shiftState k s) = shiftState k (update p s) := by
  have hb := b4_shift p h0 k
  unfold update endedAt
  rw [hb.1, hb.2]
  unfold toggle shiftState shiftP
  simp only [Int.add_zero]
  cases s with
  | mk status activeDays tagged dst trd by_ endDate initDetect initDetectBy emitting daysEmitting onCount offCount =>
    simp only
    cases hr : p.repairable <;> cases hi : p.intermittent <;> cases tagged <;> cases emitting <;>
      simp only [hr, hi, Bool.false_eq_true, if_false, if_true, ne_eq, not_true_eq_false, not_false_eq_true, true_and, false_and] <;>
      (repeat' split) <;> simp_all <;> omega

private theorem day_shift (p : Params) (h0 : 0 ≤ p.start) (k : Nat) (n : Int) (evs : List TagEv) (s : State) :
    day (shiftP k p) (n + k) evs (shiftState k s) = shiftState k (day p n evs s) := by
  unfold day
  rw [activate_shift, tags_shift, update_shift p h0]

/-- before the shifted period's leak can start nothing happens -/
private theorem run_shift_pre (p : Params) (h0 : 0 ≤ p.start) (ev : Nat → List TagEv) (k j : Nat) (hj : j ≤ k) :
    run (shiftP k p) (shiftEv k ev) j = init := by
  induction j with
  | zero => rfl
  | succ j ih =>
    have hlt : j < k := by omega
    simp only [run]
    rw [ih (by omega)]
    have he : shiftEv k ev j = [] := by unfold shiftEv; simp [hlt]
    rw [he]
    unfold day activate update shiftP init
    simp only [List.foldl_nil]
    have : ¬ (p.start + (k : Int) ≤ (j : Int)) := by omega
    simp [this]

/-- **the life-cycle is calendar-free**: the same leak (start relative to the first simulated day, same
parameters) facing the same tag requests in a period that begins `k` days later goes through exactly the
same states; only its two recorded dates (end date, first detection) move by `k` days.  In particular a
period shifted by a whole year, across a leap day or New Year, changes no day count, no status, no
mitigation. -/
theorem run_shift (p : Params) (h0 : 0 ≤ p.start) (ev : Nat → List TagEv) (k N : Nat) :
    run (shiftP k p) (shiftEv k ev) (N + k) = shiftState k (run p ev N) := by
  induction N with
  | zero =>
    rw [Nat.zero_add, run_shift_pre p h0 ev k k (Nat.le_refl k)]
    rfl
  | succ N ih =>
    have e : N + 1 + k = (N + k) + 1 := by omega
    rw [e]
    simp only [run]
    rw [ih]
    have he : shiftEv k ev (N + k) = ev N := by
      unfold shiftEv
      have : ¬ (N + k < k) := by omega
      simp [this]
    rw [he]
    have hc : ((N + k : Nat) : Int) = (N : Int) + (k : Int) := by push_cast; rfl
    rw [hc]
    exact day_shift p h0 k N (ev N) _

/-- what the records report is the same in the shifted period -/
theorem C04_period_shift (p : Params) (h0 : 0 ≤ p.start) (ev : Nat → List TagEv) (k N : Nat) :
    let s' := run (shiftP k p) (shiftEv k ev) (N + k)
    let s := run p ev N
    s'.status = s.status ∧ s'.activeDays = s.activeDays ∧ s'.by_ = s.by_ ∧ s'.tagged = s.tagged ∧
    emitDays (shiftP k p) s' = emitDays p s ∧
    s'.endDate = s.endDate.map (· + (k : Int)) ∧ s'.initDetect = s.initDetect.map (· + (k : Int)) ∧
    mitDays (shiftP k p) s' (summaryEndArg (N + k)) = mitDays p s (summaryEndArg N) := by
  simp only
  rw [run_shift p h0 ev k N]
  refine ⟨rfl, rfl, rfl, rfl, rfl, rfl, rfl, ?_⟩
  have hb := b4_shift p h0 k
  unfold mitDays summaryEndArg
  rw [hb.1, hb.2]
  unfold shiftState shiftP
  simp only
  have : p.start + (k : Int) + p.nrd - ((N + k : Nat) : Int) = p.start + p.nrd - (N : Int) := by push_cast; omega
  rw [this]

example :
    let p : Params := { start := 1, nrd := 30, repairDelay := 2, repairable := true,
                        intermittent := false, activeDur := 1, inactiveDur := 0 }
    let ev : Nat → List TagEv := fun d => if d = 3 then [{ company := 2, trd := 1 }] else []
    (run (shiftP 5 p) (shiftEv 5 ev) 15).endDate = some 11 ∧ (run p ev 10).endDate = some 6 := by
  decide +kernel

/-! ### fractional repair delays: an integer day counter reaches a rational threshold at its ceiling -/

/-- `⌈a / b⌉` for `b > 0` -/
def ceilDiv (a b : Int) : Int := (a + b - 1) / b

/-- an integer reaches the rational `a / b` exactly when it reaches its ceiling -/
theorem ceilDiv_le_iff (a b n : Int) (hb : 0 < b) : ceilDiv a b ≤ n ↔ a ≤ n * b := by
  unfold ceilDiv
  have h1 : (a + b - 1) / b < n + 1 ↔ a + b - 1 < (n + 1) * b := Int.ediv_lt_iff_lt_mul hb
  have h2 : (n + 1) * b = n * b + b := by rw [Int.add_mul, Int.one_mul]
  constructor
  · intro h
    have := h1.1 (by omega)
    omega
  · intro h
    have := h1.2 (by omega)
    omega

/-- **fractional repair delays.**  The code repairs on the first daily update with
`days since tagged ≥ repair delay + reporting delay`; the day counter and the reporting delay are
integers, the configured repair delay may be a fraction `a / b` of a day.  That test is the model's
test with the integer delay `⌈a / b⌉`: a fractional delay acts exactly like its ceiling (never
earlier than the configured delay, and on the first day that is not earlier). -/
theorem C04_fractional_delay (dst trd a b : Int) (hb : 0 < b) :
    (a + trd * b ≤ dst * b) ↔ (ceilDiv a b + trd ≤ dst) := by
  have h := ceilDiv_le_iff a b (dst - trd) hb
  have e : (dst - trd) * b = dst * b - trd * b := by rw [Int.sub_mul]
  rw [e] at h
  constructor
  · intro x; have := h.2 (by omega); omega
  · intro x; have := h.1 (by omega); omega

/-- whole-day delays are their own ceiling -/
theorem ceilDiv_whole (k b : Int) (hb : 0 < b) : ceilDiv (k * b) b = k := by
  have h1 := (ceilDiv_le_iff (k * b) b k hb).2 (Int.le_refl _)
  have h2 : ¬ ceilDiv (k * b) b ≤ k - 1 := by
    intro h
    have := (ceilDiv_le_iff (k * b) b (k - 1) hb).1 h
    rw [Int.sub_mul, Int.one_mul] at this
    omega
  omega

/-- the model fed with `⌈a / b⌉` takes the repair branch of `update` exactly when the code's own test
with the fractional delay holds -/
theorem C04_fractional_update_test (p : Params) (s : State) (a b : Int) (hb : 0 < b)
    (hd : p.repairDelay = ceilDiv a b) :
    (s.dst + 1 ≥ p.repairDelay + s.trd) ↔ (a + s.trd * b ≤ (s.dst + 1) * b) := by
  rw [hd]
  exact (C04_fractional_delay (s.dst + 1) s.trd a b hb).symm

example : ceilDiv 5 2 = 3 ∧ ceilDiv 13 2 = 7 ∧ ceilDiv 3 4 = 1 ∧ ceilDiv 41 4 = 11 ∧ ceilDiv 0 4 = 0 := by decide

end LdarModel.Emission
