import LdarModel.Model.Crew
import LdarModel.Driver.Proto
/-
Driver for the survey step / crew day model.
  step <R> <S> <T> <P> <stationary> <workable> <inProgress> <travelSoFar> [<staleToday>]
     -> <rem> <surveyed> <complete> <last> <visited> <travel> <today> | <report: surveyed today travel complete inProgress>
  multi <S> <stationary> [[R,T,workable,served],...]
     -> per day  surveyed:today:travel:complete:inProgress:minutesToday  joined by ;
  day <scale> <stationary> <perSite> <unitCost> <budget> <crews> <considerWeather>
      [tLo,tHi,wLo,wHi,pLo,pHi] [[site,S,P,inProgress,travelSoFar,T,siteCost,temp,wind,precip[,staleToday[,missingMask]]],...]
     -> <cost> <visited> <travel> <survey> <wpTravel>
        | site:crew:surveyed:today:travel:complete:inProgress:visited:last:travelCharged;...
        | id:rem:deployed:spent:home,...
  budget <considerDaylight> <workdayH> <daylightH>  -> <minutes>
  crews <stationary> <followUp> <configured crew_count> <portfolio estimate>  -> <crews the method has>
-/
open LdarModel LdarModel.Crew LdarModel.Proto

def showReport (r : Report) (sep : String) : String :=
  sep.intercalate [toString r.surveyed, toString r.today, toString r.travel, showBool r.complete, showBool r.inProgress]

def parseDayIn (s : String) : Option DayIn := do
  match ← intList? s with
  | [r, t, w, sv] => some { R := r, T := t, workable := w ≠ 0, served := sv ≠ 0 }
  | _ => none

def parseReq (s : String) : Option Req := do
  match ← intList? s with
  | [site, sS, p, ip, trav, t, sc, wt, ww, wp] =>
    if site < 0 then none else
    some { site := site.toNat, S := sS, siteCost := sc,
           rep := { surveyed := p, travel := trav, inProgress := ip ≠ 0 }, T := t,
           wx := { temp := wt, wind := ww, precip := wp } }
  | [site, sS, p, ip, trav, t, sc, wt, ww, wp, td] =>
    -- 11th field: the stale time_surveyed_current_day a carried-over report still holds
    if site < 0 then none else
    some { site := site.toNat, S := sS, siteCost := sc,
           rep := { surveyed := p, today := td, travel := trav, inProgress := ip ≠ 0 }, T := t,
           wx := { temp := wt, wind := ww, precip := wp } }
  | [site, sS, p, ip, trav, t, sc, wt, ww, wp, td, miss] =>
    -- 12th field: which weather values are missing (NaN): 1 temperature, 2 wind, 4 precipitation
    if site < 0 ∨ miss < 0 then none else
    some { site := site.toNat, S := sS, siteCost := sc,
           rep := { surveyed := p, today := td, travel := trav, inProgress := ip ≠ 0 }, T := t,
           wx := { temp := wt, wind := ww, precip := wp, tempMissing := miss.toNat % 2 = 1,
                   windMissing := (miss.toNat / 2) % 2 = 1, precipMissing := (miss.toNat / 4) % 2 = 1 } }
  | _ => none

def parseEnv (s : String) : Option Envelope := do
  match ← intList? s with
  | [a, b, c, d, e, f] => some { tempLo := a, tempHi := b, windLo := c, windHi := d, precipLo := e, precipHi := f }
  | _ => none

def runMulti (stationary : Bool) (S : Int) (days : List DayIn) : List String :=
  (days.foldl (fun (acc : Report × List String) d =>
      let x := surveyDay stationary S acc.1 d
      (x.1, (showReport x.1 ":" ++ ":" ++ toString x.2) :: acc.2)) (({} : Report), [])).2.reverse

def showOut (o : OutRec) : String :=
  let crew := match o.crew with | none => "-" | some c => toString c
  let (vis, last, tr) := match o.step with
    | none => (false, false, (0 : Int))
    | some s => (s.visited, s.last, s.travel)
  s!"{o.req.site}:{crew}:{showReport o.rep ":"}:{showBool vis}:{showBool last}:{tr}"

def showCrew (c : CrewSt) : String :=
  s!"{c.id}:{c.rem}:{showBool c.deployed}:{c.spent}:{c.home}"

def step (_ : Unit) (toks : List String) : Unit × String :=
  match toks with
  | ["step", r, s, t, p, st, w, ip, trav] =>
    match int? r, int? s, int? t, int? p, bool? st, bool? w, bool? ip, int? trav with
    | some r, some s, some t, some p, some st, some w, some ip, some trav =>
      let o := surveyStep r s t p st w
      let rep := applyStep { surveyed := p, travel := trav, inProgress := ip } o
      ((), s!"{o.rem} {o.surveyed} {showBool o.complete} {showBool o.last} {showBool o.visited} {o.travel} {o.today} | {showReport rep " "}")
    | _, _, _, _, _, _, _, _ => ((), "bad-op")
  | ["step", r, s, t, p, st, w, ip, trav, td] =>
    match int? r, int? s, int? t, int? p, bool? st, bool? w, bool? ip, int? trav, int? td with
    | some r, some s, some t, some p, some st, some w, some ip, some trav, some td =>
      let o := surveyStep r s t p st w
      let rep := applyStep { surveyed := p, today := td, travel := trav, inProgress := ip } o
      ((), s!"{o.rem} {o.surveyed} {showBool o.complete} {showBool o.last} {showBool o.visited} {o.travel} {o.today} | {showReport rep " "}")
    | _, _, _, _, _, _, _, _, _ => ((), "bad-op")
  | ["multi", s, st, days] =>
    match int? s, bool? st, listOf? parseDayIn days with
    | some s, some st, some days => ((), ";".intercalate (runMulti st s days))
    | _, _, _ => ((), "bad-op")
  | ["day", sc, st, ps, uc, b, n, cw, env, reqs] =>
    match nat? sc, bool? st, bool? ps, int? uc, int? b, nat? n, bool? cw, parseEnv env, listOf? parseReq reqs with
    | some sc, some st, some ps, some uc, some b, some n, some cw, some env, some reqs =>
      let _ := sc   -- the class code only selects the implementation class on the Python side
      let p : MethodP := { stationary := st, perSite := ps, unitCost := uc, considerWeather := cw, env := env }
      let d := deployDay p b n reqs
      let s := d.stats
      ((), s!"{s.cost} {s.visited} {s.travel} {s.survey} {s.wpTravel} | " ++ ";".intercalate (d.out.map showOut)
           ++ " | " ++ ",".intercalate (d.crews.map showCrew))
    | _, _, _, _, _, _, _, _, _ => ((), "bad-op")
  | ["crews", st, fu, c, e] =>
    match bool? st, bool? fu, nat? c, nat? e with
    | some st, some fu, some c, some e => ((), toString (methodCrews st fu c e))
    | _, _, _, _ => ((), "bad-op")
  | ["budget", c, w, d] =>
    match bool? c, int? w, int? d with
    | some c, some w, some d => ((), toString (dayBudget c w d))
    | _, _, _ => ((), "bad-op")
  | _ => ((), "bad-op")

def main : IO Unit := runDriver step ()
