import LdarModel.Model.Cost
import LdarModel.Driver.Proto
/-
Driver for the cost model.
  select <perDay> <perSite|-> <upfront> <stationary> <crews>        -> <day|site> <unitCost> <upfrontTotal>
  constructs <perDay> <perSite|-> <upfront> [[stationary,crews],...]  -> [upfront of each method built in turn] <upfront parameter afterwards>
  mday <perDay> <perSite|-> <upfront> <scale> <stationary> <budget> <crews> <considerWeather>
       [tLo,tHi,wLo,wHi,pLo,pHi] [[site,S,P,inProgress,travelSoFar,T,siteCost,temp,wind,precip],...]
                                                                   -> <day|site> <unitCost> <upfrontTotal> <deployCost>
  row <first> [[deploy,upfront],...] <repCost> <natRepCost>        -> <cost> <repCost> <natRepCost> [cols]
  prog [[[[deploy,upfront],...],rep,nat],...]                      -> cost;cost;... | <total>
  repair <start> <nrd> <delay> <N> <cost> [[day,company,trd],...] [<intermittent> <activeDur> <inactiveDur>]
                                                                   -> rep:nat;rep:nat;... | <sumRep> <sumNat>
  mcost <S> <stationary> <charge> [[R,T,workable,served],...]      -> <total charged> <complete>
-/
open LdarModel LdarModel.Crew LdarModel.Cost LdarModel.Proto

def showType : CostType → String
  | .perDay => "day" | .perSite => "site"

def parseMD (s : String) : Option MethodDay := do
  match ← intList? s with
  | [d, u] => some { deploy := d, upfront := u }
  | _ => none

def parseDayData (s : String) : Option DayData := do
  match ← splitTop s with
  | [ms, r, n] => some { methods := ← listOf? parseMD ms, repCost := ← int? r, natRepCost := ← int? n }
  | _ => none

def parseDayIn (s : String) : Option DayIn := do
  match ← intList? s with
  | [r, t, w, sv] => some { R := r, T := t, workable := w ≠ 0, served := sv ≠ 0 }
  | _ => none

def parseReq (s : String) : Option Req := do
  match ← intList? s with
  | [site, sS, p, ip, trav, t, sc, wt, ww, wp] =>
    if site < 0 then none else
    some { site := site.toNat, S := sS, siteCost := sc,
           rep := { surveyed := p, travel := trav, inProgress := ip ≠ 0 }, T := t,
           wx := { temp := wt, wind := ww, precip := wp } }
  | [site, sS, p, ip, trav, t, sc, wt, ww, wp, td] =>
    -- 11th field: the stale time_surveyed_current_day a carried-over report still holds
    if site < 0 then none else
    some { site := site.toNat, S := sS, siteCost := sc,
           rep := { surveyed := p, today := td, travel := trav, inProgress := ip ≠ 0 }, T := t,
           wx := { temp := wt, wind := ww, precip := wp } }
  | [site, sS, p, ip, trav, t, sc, wt, ww, wp, td, miss] =>
    -- 12th field: which weather values are missing (NaN): 1 temperature, 2 wind, 4 precipitation
    if site < 0 ∨ miss < 0 then none else
    some { site := site.toNat, S := sS, siteCost := sc,
           rep := { surveyed := p, today := td, travel := trav, inProgress := ip ≠ 0 }, T := t,
           wx := { temp := wt, wind := ww, precip := wp, tempMissing := miss.toNat % 2 = 1,
                   windMissing := (miss.toNat / 2) % 2 = 1, precipMissing := (miss.toNat / 4) % 2 = 1 } }
  | _ => none

def parseEnv (s : String) : Option Envelope := do
  match ← intList? s with
  | [a, b, c, d, e, f] => some { tempLo := a, tempHi := b, windLo := c, windHi := d, precipLo := e, precipHi := f }
  | _ => none

def parseEv (s : String) : Option (Nat × Emission.TagEv) := do
  match ← intList? s with
  | [d, c, t] => if d < 0 ∨ c < 0 then none else some (d.toNat, { company := c.toNat, trd := t })
  | _ => none

def parseBuild (s : String) : Option (Bool × Nat) := do
  match ← intList? s with
  | [st, n] => if n < 0 then none else some (decide (st ≠ 0), n.toNat)
  | _ => none

def mkCost (pd : Int) (ps : Option Int) (up : Int) : MethodCost := { perDay := pd, perSite := ps, upfront := up }

def step (_ : Unit) (toks : List String) : Unit × String :=
  match toks with
  | ["select", pd, ps, up, st, n] =>
    match int? pd, optInt? ps, int? up, bool? st, nat? n with
    | some pd, some ps, some up, some st, some n =>
      let c := mkCost pd ps up
      ((), s!"{showType (selectCost c).1} {(selectCost c).2} {upfrontCost c st n}")
    | _, _, _, _, _ => ((), "bad-op")
  | ["constructs", pd, ps, up, bs] =>
    match int? pd, optInt? ps, int? up, listOf? parseBuild bs with
    | some pd, some ps, some up, some bs =>
      let r := constructAll bs (mkCost pd ps up)
      ((), s!"{showList toString r.1} {r.2.upfront}")
    | _, _, _, _ => ((), "bad-op")
  | ["mday", pd, ps, up, sc, st, b, n, cw, env, reqs] =>
    match int? pd, optInt? ps, int? up, nat? sc, bool? st, int? b, nat? n, bool? cw, parseEnv env, listOf? parseReq reqs with
    | some pd, some ps, some up, some sc, some st, some b, some n, some cw, some env, some reqs =>
      let c := mkCost pd ps up
      let _ := sc
      let md := methodDay c st cw env b n reqs
      ((), s!"{showType (selectCost c).1} {(selectCost c).2} {md.upfront} {md.deploy}")
    | _, _, _, _, _, _, _, _, _, _ => ((), "bad-op")
  | ["row", f, ms, r, n] =>
    match bool? f, listOf? parseMD ms, int? r, int? n with
    | some f, some ms, some r, some n =>
      let row := dailyRow f ms r n
      ((), s!"{row.cost} {row.repCost} {row.natRepCost} {showList toString row.methodCols}")
    | _, _, _, _ => ((), "bad-op")
  | ["prog", days] =>
    match listOf? parseDayData days with
    | some days =>
      let rows := programRows days
      ((), ";".intercalate (rows.map (fun r => toString r.cost)) ++ " | " ++ toString (rows.map (·.cost)).sum)
    | none => ((), "bad-op")
  | ["repair", st, nrd, dl, n, cost, evs] =>
    match int? st, int? nrd, int? dl, nat? n, int? cost, listOf? parseEv evs with
    | some st, some nrd, some dl, some n, some cost, some evs =>
      let p : Emission.Params := { start := st, nrd := nrd, repairDelay := dl, repairable := true,
                                   intermittent := false, activeDur := 1, inactiveDur := 0 }
      let ev : Nat → List Emission.TagEv := fun d => (evs.filter (fun e => e.1 = d)).map (·.2)
      let days := (List.range n).map (fun d => bookDay p cost ev d)
      ((), ";".intercalate (days.map (fun x => s!"{x.1}:{x.2}")) ++
           s!" | {sumTo (fun d => (bookDay p cost ev d).1) n} {sumTo (fun d => (bookDay p cost ev d).2) n}")
    | _, _, _, _, _, _ => ((), "bad-op")
  | ["repair", st, nrd, dl, n, cost, evs, im, ad, idr] =>
    match int? st, int? nrd, int? dl, nat? n, int? cost, listOf? parseEv evs, bool? im, int? ad, int? idr with
    | some st, some nrd, some dl, some n, some cost, some evs, some im, some ad, some idr =>
      let p : Emission.Params := { start := st, nrd := nrd, repairDelay := dl, repairable := true,
                                   intermittent := im, activeDur := ad, inactiveDur := idr }
      let ev : Nat → List Emission.TagEv := fun d => (evs.filter (fun e => e.1 = d)).map (·.2)
      let days := (List.range n).map (fun d => bookDay p cost ev d)
      ((), ";".intercalate (days.map (fun x => s!"{x.1}:{x.2}")) ++
           s!" | {sumTo (fun d => (bookDay p cost ev d).1) n} {sumTo (fun d => (bookDay p cost ev d).2) n}")
    | _, _, _, _, _, _, _, _, _ => ((), "bad-op")
  | ["mcost", s, st, ch, days] =>
    match int? s, bool? st, int? ch, listOf? parseDayIn days with
    | some s, some st, some ch, some days =>
      let r := surveyCostRun st s ch days {} 0
      ((), s!"{r.2} {showBool r.1.complete}")
    | _, _, _, _ => ((), "bad-op")
  | _ => ((), "bad-op")

def main : IO Unit := runDriver step ()
