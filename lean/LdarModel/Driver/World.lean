import LdarModel.Model.World
import LdarModel.Driver.Proto
/-
Driver for the daily ledger model (C11).
  world <N>                                                   -> ok        (start a new world)
  em <start> <nrd> <delay> <rep> <interm> <aDur> <iDur> <rate*1024> [[day,company,trd(,kind)],...] -> ok
  rows      -> "new:active:repaired:natRepaired:expired:emis:emisMit:emisNonMit" per day, ';'-joined
  recrows   -> "active:emis:emisMit:emisNonMit" per day recomputed from the records alone
-/
open LdarModel LdarModel.Emission LdarModel.World LdarModel.Proto

structure DS where
  n : Nat := 0
  w : List Em := []

def parseEv (s : String) : Option (Nat × Ev) := do
  match ← intList? s with
  | [d, c, t] => if d < 0 ∨ c < 0 then none else some (d.toNat, .tag { company := c.toNat, trd := t })
  | [d, c, t, 0] => if d < 0 ∨ c < 0 then none else some (d.toNat, .tag { company := c.toNat, trd := t })
  | [d, c, _, 1] => if d < 0 ∨ c < 0 then none else some (d.toNat, .detect c.toNat)
  | _ => none

def showRow (r : Row) : String :=
  s!"{r.new}:{r.active}:{r.repaired}:{r.natRepaired}:{r.expired}:{r.emis}:{r.emisMit}:{r.emisNonMit}"

def recRow (w : List Em) (N n : Nat) : String :=
  let recs := w.map (fun e => recOf e N)
  let act := (recs.map (fun r => ind (recActiveAfter r n))).sum
  let em := (recs.map (fun r => ind (recActiveAfter r n) * r.rate)).sum
  let mit := (recs.map (fun r => if r.repairable then ind (recActiveAfter r n) * r.rate else 0)).sum
  let non := (recs.map (fun r => if r.repairable then 0 else ind (recActiveAfter r n) * r.rate)).sum
  s!"{act}:{em}:{mit}:{non}"

def step (s : DS) (toks : List String) : DS × String :=
  match toks with
  | ["world", n] => match nat? n with
    | some n => ({ n := n, w := [] }, "ok")
    | none => (s, "bad-op")
  | ["em", st, nrd, dl, rp, im, ad, idr, rate, evs] =>
    match int? st, int? nrd, int? dl, bool? rp, bool? im, int? ad, int? idr, int? rate, listOf? parseEv evs with
    | some st, some nrd, some dl, some rp, some im, some ad, some idr, some rate, some evs =>
      let p : Params := { start := st, nrd := nrd, repairDelay := dl, repairable := rp,
                          intermittent := im, activeDur := ad, inactiveDur := idr }
      let ev : Nat → List Ev := fun d => (evs.filter (fun e => e.1 = d)).map (·.2)
      ({ s with w := s.w ++ [{ p := p, rate := rate, ev := ev }] }, "ok")
    | _, _, _, _, _, _, _, _, _ => (s, "bad-op")
  | ["rows"] => (s, ";".intercalate ((List.range s.n).map (fun n => showRow (row s.w n))))
  | ["recrows"] => (s, ";".intercalate ((List.range s.n).map (fun n => recRow s.w s.n n)))
  | _ => (s, "bad-op")

def main : IO Unit := runDriver step {}
