import LdarModel.Model.World
import LdarModel.Driver.Proto
/-
Driver for the daily ledger model (C11).
  world <N>                                                   -> ok        (start a new world)
  em <start> <nrd> <delay> <rep> <interm> <aDur> <iDur> <rate*1024> [[day,company,trd(,kind)],...] -> ok
  rows      -> "new:active:repaired:natRepaired:expired:emis:emisMit:emisNonMit" per day, ';'-joined
  recrows   -> the same eight columns per day recomputed from the records alone (`recRow` of
               `records w N`: start, end date, end kind, rate, repairability — Props/C11 `reconstruct_row`)
  emit      -> "A:D" per day: summed rates of emissions active after the update and emitting after it
               (A, `is_emitting()` when the row is written) / emitting during the day (D)
  recs      -> "present:start:endDate|-:rate:repairable:status:by" per emission, ';'-joined
-/
open LdarModel LdarModel.Emission LdarModel.World LdarModel.Proto

structure DS where
  n : Nat := 0
  w : List Em := []

def parseEv (s : String) : Option (Nat × Ev) := do
  match ← intList? s with
  | [d, c, t] => if d < 0 ∨ c < 0 then none else some (d.toNat, .tag { company := c.toNat, trd := t })
  | [d, c, t, 0] => if d < 0 ∨ c < 0 then none else some (d.toNat, .tag { company := c.toNat, trd := t })
  | [d, c, _, 1] => if d < 0 ∨ c < 0 then none else some (d.toNat, .detect c.toNat)
  | _ => none

def showRow (r : Row) : String :=
  s!"{r.new}:{r.active}:{r.repaired}:{r.natRepaired}:{r.expired}:{r.emis}:{r.emisMit}:{r.emisNonMit}"

def showStatus : Status → String
  | .inactive => "inactive" | .active => "active" | .repaired => "repaired" | .expired => "expired"

def showBy : By → String
  | .none => "-" | .natural => "natural" | .expire => "expire" | .company c => s!"c{c}"

def showRec (r : Rec) : String :=
  let ed := match r.endDate with | none => "-" | some d => toString d
  s!"{if r.present then 1 else 0}:{r.start}:{ed}:{r.rate}:{if r.repairable then 1 else 0}:{showStatus r.status}:{showBy r.by_}"

def step (s : DS) (toks : List String) : DS × String :=
  match toks with
  | ["world", n] => match nat? n with
    | some n => ({ n := n, w := [] }, "ok")
    | none => (s, "bad-op")
  | ["em", st, nrd, dl, rp, im, ad, idr, rate, evs] =>
    match int? st, int? nrd, int? dl, bool? rp, bool? im, int? ad, int? idr, int? rate, listOf? parseEv evs with
    | some st, some nrd, some dl, some rp, some im, some ad, some idr, some rate, some evs =>
      let p : Params := { start := st, nrd := nrd, repairDelay := dl, repairable := rp,
                          intermittent := im, activeDur := ad, inactiveDur := idr }
      let ev : Nat → List Ev := fun d => (evs.filter (fun e => e.1 = d)).map (·.2)
      ({ s with w := s.w ++ [{ p := p, rate := rate, ev := ev }] }, "ok")
    | _, _, _, _, _, _, _, _, _ => (s, "bad-op")
  | ["rows"] => (s, ";".intercalate ((List.range s.n).map (fun n => showRow (row s.w n))))
  | ["recrows"] =>
    let rs := records s.w s.n
    (s, ";".intercalate ((List.range s.n).map (fun n => showRow (recRow rs n))))
  | ["emit"] => (s, ";".intercalate ((List.range s.n).map (fun n =>
      s!"{emittingSum s.w n true}:{emittingSum s.w n false}")))
  | ["recs"] => (s, ";".intercalate ((records s.w s.n).map showRec))
  | _ => (s, "bad-op")

def main : IO Unit := runDriver step {}
