import LdarModel.Model.Heap
import LdarModel.Driver.Proto
/-
Driver for the pending-list / cursor model (C01).
  reset                                   -> ok
  src [[id,start],...]                    -> ok      (append a source; list in pop order)
  day <day>                               -> per source "[ids activated]" joined by ';' (state advances)
  run <N> <copied|shared> [[p,..],[..]]   -> per program "p=[[ids of source 0],[..]]" joined by ' '
                                             (from the sources as first given, not the advanced state)
  expected <N>                            -> "[[ids],[..]]"
-/
open LdarModel LdarModel.Heap LdarModel.Proto

structure DS where
  g : Store := []       -- as loaded
  cur : Store := []     -- advanced by `day`

def parseEm (s : String) : Option EmId := do
  match ← intList? s with
  | [i, st] => if i < 0 then none else some { id := i.toNat, start := st }
  | _ => none

def showIds (l : List EmId) : String := showList (fun e => toString e.id) l
def showSeen (l : List (List EmId)) : String := showList showIds l

def step (s : DS) (toks : List String) : DS × String :=
  match toks with
  | ["reset"] => ({}, "ok")
  | ["src", l] => match listOf? parseEm l with
    | some ems => ({ g := s.g ++ [{ pending := ems }], cur := s.cur ++ [{ pending := ems }] }, "ok")
    | none => (s, "bad-op")
  | ["day", d] => match int? d with
    | some d =>
      let r := s.cur.map (activateSrc d)
      ({ s with cur := r.map (·.2) }, ";".intercalate (r.map (fun x => showIds x.1)))
    | none => (s, "bad-op")
  | ["run", n, m, ws] =>
    match nat? n, (if m = "copied" then some Mode.copied else if m = "shared" then some Mode.shared else none),
          listOf? natList? ws with
    | some n, some m, some ws =>
      (s, " ".intercalate ((runSchedule m n ws s.g).map (fun x => s!"{x.1}={showSeen x.2}")))
    | _, _, _ => (s, "bad-op")
  | ["expected", n] => match nat? n with
    | some n => (s, showSeen (expected n s.g))
    | none => (s, "bad-op")
  | _ => (s, "bad-op")

def main : IO Unit := runDriver step {}
