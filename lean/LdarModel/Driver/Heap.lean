import LdarModel.Model.Heap
import LdarModel.Driver.Proto
/-
Driver for the pending-list / cursor model (C01).
  reset                                   -> ok
  src [[id,start],...]                    -> ok      (append a source; list in pop order)
  src [[id,start,rate*1024,rep,nrd],...]  -> ok      (the same with the whole identity)
  day <day>                               -> per source "[ids activated]" joined by ';' (state advances)
  run <N> <copied|shared> [[p,..],[..]]   -> per program "p=[[ids of source 0],[..]]" joined by ' '
                                             (from the sources as first given, not the advanced state)
  expected <N>                            -> "[[ids],[..]]"
  expectedfull <N>                        -> per source "[id:start:rate:rep:nrd:theoEnd|-,...]" joined by ';'
                                             (`expected`, whole identity + `EmId.theoEnd`)
  handout <N>                             -> per source "[id@day,...]" joined by ';': the day (0..N-1) on which
                                             `handedOutOn` hands each emission out
  runo <N> <copied|shared> <k>            -> k programs on one worker, object level (`runScheduleO`), each with the
                                             behaviour of the real no-LDAR day loop on a persistent emission
                                             (`life` = `_active_days`: +1 per day held while
                                             life + max(0,-start) < nrd): per program "p=[[id/life,..],[..]]"
                                             joined by ' ' — what each program FACES (objects as found)
-/
open LdarModel LdarModel.Heap LdarModel.Proto

structure DS where
  g : Store := []       -- as loaded
  cur : Store := []     -- advanced by `day`

def parseEm (s : String) : Option EmId := do
  match ← intList? s with
  | [i, st] => if i < 0 then none else some { id := i.toNat, start := st }
  | [i, st, r, rp, nrd] =>
    if i < 0 then none else some { id := i.toNat, start := st, rate := r, repairable := rp != 0, nrd := nrd }
  | _ => none

def showIds (l : List EmId) : String := showList (fun e => toString e.id) l
def showSeen (l : List (List EmId)) : String := showList showIds l

def showFull (e : EmId) : String :=
  let te := match e.theoEnd with | none => "-" | some d => toString d
  s!"{e.id}:{e.start}:{e.rate}:{if e.repairable then 1 else 0}:{e.nrd}:{te}"

def handout (n : Nat) (s : Src) : String :=
  showList id (((List.range n).map (fun d => (handedOutOn d s).map (fun e => s!"{e.id}@{d}"))).flatten)

def showObjs (l : List (List EmId)) : String := showList (showList (fun e => s!"{e.id}/{e.life}")) l

def step (s : DS) (toks : List String) : DS × String :=
  match toks with
  | ["reset"] => ({}, "ok")
  | ["src", l] => match listOf? parseEm l with
    | some ems => ({ g := s.g ++ [{ pending := ems }], cur := s.cur ++ [{ pending := ems }] }, "ok")
    | none => (s, "bad-op")
  | ["day", d] => match int? d with
    | some d =>
      let r := s.cur.map (activateSrc d)
      ({ s with cur := r.map (·.2) }, ";".intercalate (r.map (fun x => showIds x.1)))
    | none => (s, "bad-op")
  | ["run", n, m, ws] =>
    match nat? n, (if m = "copied" then some Mode.copied else if m = "shared" then some Mode.shared else none),
          listOf? natList? ws with
    | some n, some m, some ws =>
      (s, " ".intercalate ((runSchedule m n ws s.g).map (fun x => s!"{x.1}={showSeen x.2}")))
    | _, _, _ => (s, "bad-op")
  | ["expectedfull", n] => match nat? n with
    | some n => (s, ";".intercalate ((expected n s.g).map (showList showFull)))
    | none => (s, "bad-op")
  | ["handout", n] => match nat? n with
    | some n => (s, ";".intercalate (s.g.map (handout n)))
    | none => (s, "bad-op")
  | ["runo", n, m, k] =>
    match nat? n, (if m = "copied" then some Mode.copied else if m = "shared" then some Mode.shared else none), nat? k with
    | some n, some m, some k =>
      let infra : Infra := s.g.zipIdx.map (fun (x, i) => { tag := i, src := x })
      let ageing : Beh := fun _ _ e =>
        if (e.life : Int) + (if -e.start > 0 then -e.start else 0) < e.nrd then e.life + 1 else e.life
      let progs : List (Nat × Beh) := (List.range k).map (fun p => (p, ageing))
      (s, " ".intercalate ((runScheduleO m n [progs] infra).map (fun x => s!"{x.1}={showObjs x.2}")))
    | _, _, _ => (s, "bad-op")
  | ["expected", n] => match nat? n with
    | some n => (s, showSeen (expected n s.g))
    | none => (s, "bad-op")
  | _ => (s, "bad-op")

def main : IO Unit := runDriver step {}
