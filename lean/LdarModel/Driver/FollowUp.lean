import LdarModel.Model.FollowUp
import LdarModel.Driver.Proto
/-
Driver for the follow-up work practice (several screening methods bound to one follow-up method).
  new <nMethods> <nSites> <cap>                                   -> ok      (cap = crews × daily capacity)
  method <i> <stationary> <rd> <delay> <prop> <thrFirst> <thr> <inst|-> <filter> <sw> <lw> <sthr> <lthr> -> ok
  screen <i> <site> <rate> <date>                                  -> ok
  update <i> <date>                                                -> flags=<n> <state>
  fuday <date> [[site,outcome],...]   (outcome 0 complete 1 in progress 2 unattended; the list must be
                                       the model's own plan of the day, in order)    -> ok <state>
  tag <site> <date>                                                -> ok <state>
  evs <i>                                                          -> ghost flag events of method i:
                          [site:rate:rateLong:route:recDate:day:first:tagAtFlag:[rates;..],..]
  visits                                                           -> ghost visits [site:recDate:tagBefore:day:outcome,..]
  state = M<i> pool=[site:rate,..] inPool=<bits> first=<d|-> count=<n> | ... | queue=[cls:site:rate,..]
          inQueue=<bits> tag=[d,..] [err]         (pool in list order, queue in pop order)
Rationals are written p/q in lowest terms.
-/
open LdarModel LdarModel.FollowUp LdarModel.Proto

structure DState where
  ps : List Params := []
  nSites : Nat := 0
  cap : Nat := 0
  sy : Sys := {}

def rat? (s : String) : Option Rat :=
  match s.splitOn "/" with
  | [a, b] => do
    let n ← a.toInt?
    let d ← b.toNat?
    if d = 0 then none else some (mkRat n d)
  | [a] => (a.toInt?).map (fun n => (n : Rat))
  | _ => none

def showRat (r : Rat) : String := s!"{r.num}/{r.den}"

def filter? (s : String) : Option Filter :=
  if s = "recent" then some .recent else if s = "max" then some .max
  else if s = "average" then some .average else none

def bits (n : Nat) (f : Nat → Bool) : String :=
  String.join ((List.range n).map (fun i => showBool (f i)))

def showM (n : Nat) (i : Nat) (m : MState) : String :=
  let pool := ",".intercalate (m.pool.map (fun pl => s!"{pl.site}:{showRat pl.rate}"))
  s!"M{i} pool=[{pool}] inPool={bits n m.inPool} first={showOptInt m.firstCand} count={m.count}"

def showShared (n : Nat) (sh : Shared) : String :=
  let q := ",".intercalate (sh.queue.map (fun e => s!"{e.cls}:{e.plan.site}:{showRat e.plan.rate}"))
  let tg := ",".intercalate ((List.range n).map (fun i => toString (sh.latestTag i)))
  s!"queue=[{q}] inQueue={bits n sh.inQueue} tag=[{tg}]" ++ (if sh.err then " err" else "")

def dump (s : DState) : String :=
  let ms := (List.zip (List.range s.sy.ms.length) s.sy.ms).map (fun (i, m) => showM s.nSites i m)
  " | ".intercalate (ms ++ [showShared s.nSites s.sy.sh])

def showEv (e : FlagEv) : String :=
  let rt := match e.route with | .pool => "pool" | .instant => "instant"
  let rs := ";".intercalate (e.rates.map showRat)
  s!"{e.site}:{showRat e.rate}:{showRat e.rateLong}:{rt}:{e.recDate}:{e.day}:{e.first}:{e.tagAtFlag}:[{rs}]"

def showVisit (v : Visit) : String :=
  let o := match v.outcome with | .complete => "c" | .inProgress => "p" | .unattended => "u"
  s!"{v.site}:{v.recDate}:{v.tagBefore}:{v.day}:{o}"

def parseOut (s : String) : Option (Nat × Outcome) := do
  match ← natList? s with
  | [site, o] =>
    if o = 0 then some (site, .complete) else if o = 1 then some (site, .inProgress)
    else if o = 2 then some (site, .unattended) else none
  | _ => none

def outFn (l : List (Nat × Outcome)) : Nat → Outcome :=
  fun s => match l.find? (fun x => x.1 = s) with
    | some x => x.2
    | none => .unattended

def step (s : DState) (toks : List String) : DState × String :=
  match toks with
  | ["new", k, n, cap] =>
    match nat? k, nat? n, nat? cap with
    | some k, some n, some cap =>
      let ps := (List.range k).map (fun _ => ({} : Params))
      ({ ps := ps, nSites := n, cap := cap, sy := initSys ps }, "ok")
    | _, _, _ => (s, "bad-op")
  | ["method", i, st, rd, dl, pr, tf, thr, inst, flt, sw, lw, sthr, lthr] =>
    match nat? i, bool? st, int? rd, int? dl, rat? pr, bool? tf, rat? thr, filter? flt, nat? sw, nat? lw,
          rat? sthr, rat? lthr with
    | some i, some st, some rd, some dl, some pr, some tf, some thr, some flt, some sw, some lw,
      some sthr, some lthr =>
      let inst? : Option (Option Rat) := if inst = "-" then some none else (rat? inst).map some
      match inst? with
      | some instv =>
        if i < s.ps.length then
          let p : Params := { stationary := st, rd := rd, delay := dl, prop := pr, thrFirst := tf, thr := thr,
                              inst := instv, filter := flt, sw := sw, lw := lw, sthr := sthr, lthr := lthr }
          ({ s with ps := s.ps.set i p }, "ok")
        else (s, "bad-op")
      | none => (s, "bad-op")
    | _, _, _, _, _, _, _, _, _, _, _, _ => (s, "bad-op")
  | ["screen", i, site, rate, date] =>
    match nat? i, nat? site, rat? rate, int? date with
    | some i, some site, some rate, some date =>
      if i < s.sy.ms.length then
        ({ s with sy := stepSys s.ps s.cap s.sy (.screen i site rate date) }, "ok")
      else (s, "bad-op")
    | _, _, _, _ => (s, "bad-op")
  | ["update", i, date] =>
    match nat? i, int? date with
    | some i, some date =>
      match s.sy.ms[i]? with
      | some _ =>
        let s' := { s with sy := stepSys s.ps s.cap s.sy (.update i date) }
        let nf := match s'.sy.ms[i]? with | some m => m.nflags | none => 0
        (s', s!"flags={nf} " ++ dump s')
      | none => (s, "bad-op")
    | _, _ => (s, "bad-op")
  | ["fuday", date, outs] =>
    match int? date, listOf? parseOut outs with
    | some date, some outs =>
      let plan := (planned s.cap s.sy.sh).map (·.site)
      if plan = outs.map (·.1) then
        let s' := { s with sy := stepSys s.ps s.cap s.sy (.fuDay date (outFn outs)) }
        (s', "ok " ++ dump s')
      else (s, "mismatch planned=" ++ showList toString plan)
    | _, _ => (s, "bad-op")
  | ["tag", site, date] =>
    match nat? site, int? date with
    | some site, some date =>
      let s' := { s with sy := stepSys s.ps s.cap s.sy (.tag site date) }
      (s', "ok " ++ dump s')
    | _, _ => (s, "bad-op")
  | ["evs", i] =>
    match nat? i with
    | some i =>
      match s.sy.ms[i]? with
      | some m => (s, "[" ++ ",".intercalate (m.evs.map showEv) ++ "]")
      | none => (s, "bad-op")
    | none => (s, "bad-op")
  | ["visits"] => (s, "[" ++ ",".intercalate (s.sy.sh.visits.map showVisit) ++ "]")
  | _ => (s, "bad-op")

def main : IO Unit := runDriver step {}
